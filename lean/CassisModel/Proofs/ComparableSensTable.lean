/-
Taking the table apart: from two equal tables to equal rows, from equal rows to equal cells.
-/
import CassisModel.Proofs.ComparableSensAnchors

namespace Cassis.Comparable
open Cassis.TS Cassis.Traverse

theorem renderFrom_ok {K : Consts} {ts : TypeSystem} {cass : List Cas} {hp : Heap} {o : Opts} {hsh : Nat → Int}
    {indexed addrs : List Nat} {secs : List Section}
    (h : renderFrom K ts cass hp o hsh indexed addrs = .ok secs) :
    ∃ st, genAnchors ts cass hp indexed o (sortedOf (ltFs hp hsh) hp addrs) (sortedOf (ltFs hp hsh) hp addrs) {} = .ok st ∧
      renderSections K ts cass hp o st.byId (sortedOf (ltFs hp hsh) hp addrs) = .ok secs := by
  unfold renderFrom at h
  simp only [] at h
  unfold sortedOf
  split at h
  · cases h
  · rename_i st hst
    exact ⟨st, hst, h⟩

/-- the section flag `is_annotation_type` -/
def annFlag (ts : TypeSystem) (o : Opts) (t : TypeRec) : Bool := o.coveredText && subsumes ts ANNOTATION t.name

/-- equal tables have equal row lists in every section that is not excluded -/
theorem renderSections_rows {K : Consts} {ts : TypeSystem} {cass : List Cas} {hp hp' : Heap} {o : Opts}
    {byId byId' : List (Option Int × String)} (S S' : String → List Nat) (names : List String) (secs : List Section)
    (h : renderSections K ts cass hp o byId (names.map (fun t => (t, S t))) = .ok secs)
    (h' : renderSections K ts cass hp' o byId' (names.map (fun t => (t, S' t))) = .ok secs)
    (tn : String) (htn : tn ∈ names) (hex : o.exclude.contains tn = false) :
    ∃ t rows, getType ts tn = .ok t ∧
      renderRows K cass hp byId t (annFlag ts o t) (S tn) = .ok rows ∧
      renderRows K cass hp' byId' t (annFlag ts o t) (S' tn) = .ok rows := by
  induction names generalizing secs with
  | nil => cases htn
  | cons n ns ih =>
    simp only [List.map_cons] at h h'
    rw [renderSections] at h h'
    by_cases hx : o.exclude.contains n = true
    · simp only [hx, if_true] at h h'
      rcases List.mem_cons.1 htn with e | e
      · subst e
        rw [hx] at hex
        cases hex
      · exact ih secs h h' e
    · simp only [hx] at h h'
      cases ht : getType ts n with
      | error e => rw [ht] at h; cases h
      | ok t =>
        rw [ht] at h h'
        simp only [] at h h'
        cases hr : renderRows K cass hp byId t (o.coveredText && subsumes ts ANNOTATION t.name) (S n) with
        | error e => rw [hr] at h; cases h
        | ok rows =>
          rw [hr] at h
          simp only [] at h
          cases hr' : renderRows K cass hp' byId' t (o.coveredText && subsumes ts ANNOTATION t.name) (S' n) with
          | error e => rw [hr'] at h'; cases h'
          | ok rows' =>
            rw [hr'] at h'
            simp only [] at h'
            cases hs : renderSections K ts cass hp o byId (ns.map (fun t => (t, S t))) with
            | error e => rw [hs] at h; cases h
            | ok ss =>
              rw [hs] at h
              cases hs' : renderSections K ts cass hp' o byId' (ns.map (fun t => (t, S' t))) with
              | error e => rw [hs'] at h'; cases h'
              | ok ss' =>
                rw [hs'] at h'
                simp only [Bool.false_eq_true, if_false, Except.ok.injEq] at h h'
                rw [← h] at h'
                simp only [List.cons.injEq, Section.mk.injEq, true_and] at h'
                rcases List.mem_cons.1 htn with e | e
                · subst e
                  refine ⟨t, rows, ht, hr, ?_⟩
                  unfold annFlag
                  rw [hr', h'.1]
                · have hss : ss' = ss := h'.2
                  subst hss
                  exact ih ss' hs hs' e

theorem renderRows_pos {K : Consts} {cass : List Cas} {hp hp' : Heap} {byId byId' : List (Option Int × String)}
    {t : TypeRec} {ann : Bool} (l : List Nat) (rows : List (List Cell))
    (h : renderRows K cass hp byId t ann l = .ok rows) (h' : renderRows K cass hp' byId' t ann l = .ok rows)
    (a : Nat) (ha : a ∈ l) :
    ∃ r, renderRow K cass hp byId t ann a = .ok r ∧ renderRow K cass hp' byId' t ann a = .ok r := by
  induction l generalizing rows with
  | nil => cases ha
  | cons b bs ih =>
    rw [renderRows] at h h'
    cases hr : renderRow K cass hp byId t ann b with
    | error e => rw [hr] at h; cases h
    | ok r =>
      rw [hr] at h
      cases hr' : renderRow K cass hp' byId' t ann b with
      | error e => rw [hr'] at h'; cases h'
      | ok r' =>
        rw [hr'] at h'
        simp only [] at h h'
        cases hs : renderRows K cass hp byId t ann bs with
        | error e => rw [hs] at h; cases h
        | ok rs =>
          rw [hs] at h
          cases hs' : renderRows K cass hp' byId' t ann bs with
          | error e => rw [hs'] at h'; cases h'
          | ok rs' =>
            rw [hs'] at h'
            simp only [Except.ok.injEq] at h h'
            rw [← h] at h'
            simp only [List.cons.injEq] at h'
            rcases List.mem_cons.1 ha with e | e
            · subst e
              exact ⟨r, hr, by rw [hr', h'.1]⟩
            · have : rs' = rs := h'.2
              subst this
              exact ih rs' hs hs' e

theorem renderRows_mem {K : Consts} {cass : List Cas} {hp : Heap} {byId : List (Option Int × String)}
    {t : TypeRec} {ann : Bool} (l : List Nat) (rows : List (List Cell))
    (h : renderRows K cass hp byId t ann l = .ok rows) :
    (∀ a ∈ l, ∃ r ∈ rows, renderRow K cass hp byId t ann a = .ok r) ∧
    (∀ r ∈ rows, ∃ a ∈ l, renderRow K cass hp byId t ann a = .ok r) := by
  induction l generalizing rows with
  | nil =>
    simp only [renderRows, Except.ok.injEq] at h
    subst h
    exact ⟨fun a ha => (by cases ha), fun r hr => (by cases hr)⟩
  | cons b bs ih =>
    rw [renderRows] at h
    cases hr : renderRow K cass hp byId t ann b with
    | error e => rw [hr] at h; cases h
    | ok r =>
      rw [hr] at h
      simp only [] at h
      cases hs : renderRows K cass hp byId t ann bs with
      | error e => rw [hs] at h; cases h
      | ok rs =>
        rw [hs] at h
        simp only [Except.ok.injEq] at h
        subst h
        obtain ⟨i1, i2⟩ := ih rs hs
        constructor
        · intro a ha
          rcases List.mem_cons.1 ha with e | e
          · subst e
            exact ⟨r, List.mem_cons_self, hr⟩
          · obtain ⟨r', hr', h2⟩ := i1 a e
            exact ⟨r', List.mem_cons_of_mem _ hr', h2⟩
        · intro r' hr'
          rcases List.mem_cons.1 hr' with e | e
          · subst e
            exact ⟨b, List.mem_cons_self, hr⟩
          · obtain ⟨a, ha, h2⟩ := i2 r' e
            exact ⟨a, List.mem_cons_of_mem _ ha, h2⟩

/-! ### one row -/

/-- the first cell of a row -/
def anchorCell (hp : Heap) (byId : List (Option Int × String)) (a : Nat) : Cell :=
  match getById byId (xidOf hp a) with | some s => .str s | none => .none

/-- the covered-text cell(s) of a row -/
def covOf (cass : List Cas) (hp : Heap) (ann : Bool) (a : Nat) : Except Err (List Cell) :=
  if ann && isAnnot hp a then do
      let ct ← Cas.coveredText cass hp a
      pure [match ct with | some t => Cell.text (abbreviate t) | none => Cell.null]
    else pure []

theorem renderRow_eq (K : Consts) (cass : List Cas) (hp : Heap) (byId : List (Option Int × String)) (t : TypeRec)
    (ann : Bool) (a : Nat) :
    renderRow K cass hp byId t ann a =
      match covOf cass hp ann a with
      | .error e => .error e
      | .ok cov =>
        if isArrayFs K hp a then
          match slot hp a "elements" with
          | none => .error .attributeError
          | some v =>
            match renderVal K hp byId (2 * hp.length + 2) v with
            | .error e => .error e
            | .ok c => .ok ([anchorCell hp byId a] ++ cov ++ [c])
        else
          match renderCols K hp byId a (columns t) with
          | .error e => .error e
          | .ok cs => .ok ([anchorCell hp byId a] ++ cov ++ cs) := by
  unfold renderRow covOf anchorCell
  have tail : ∀ cov : List Cell,
      (if isArrayFs K hp a = true then
          match slot hp a "elements" with
          | none => (throw Err.attributeError : Except Err (List Cell))
          | some v => do
            let c ← renderVal K hp byId (2 * hp.length + 2) v
            pure ([match getById byId (xidOf hp a) with | some s => Cell.str s | none => Cell.none] ++ cov ++ [c])
        else do
          let cs ← renderCols K hp byId a (columns t)
          pure ([match getById byId (xidOf hp a) with | some s => Cell.str s | none => Cell.none] ++ cov ++ cs)) =
      (if isArrayFs K hp a = true then
          match slot hp a "elements" with
          | none => .error .attributeError
          | some v =>
            match renderVal K hp byId (2 * hp.length + 2) v with
            | .error e => .error e
            | .ok c => .ok ([match getById byId (xidOf hp a) with | some s => Cell.str s | none => Cell.none] ++ cov ++ [c])
        else
          match renderCols K hp byId a (columns t) with
          | .error e => .error e
          | .ok cs => .ok ([match getById byId (xidOf hp a) with | some s => Cell.str s | none => Cell.none] ++ cov ++ cs)) := by
    intro cov
    by_cases harr : isArrayFs K hp a = true
    · simp only [harr, if_true]
      cases slot hp a "elements" with
      | none => rfl
      | some v =>
        simp only [bind, Except.bind, pure, Except.pure]
        cases renderVal K hp byId (2 * hp.length + 2) v <;> rfl
    · simp only [harr, Bool.false_eq_true, if_false, bind, Except.bind, pure, Except.pure]
      cases renderCols K hp byId a (columns t) <;> rfl
  by_cases hc : (ann && isAnnot hp a) = true
  · simp only [hc, if_true]
    cases Cas.coveredText cass hp a with
    | error e => rfl
    | ok ct => exact tail _
  · simp only [hc, Bool.false_eq_true, if_false]
    exact tail _

theorem renderRow_ok {K : Consts} {cass : List Cas} {hp : Heap} {byId : List (Option Int × String)} {t : TypeRec}
    {ann : Bool} {a : Nat} {r : List Cell} (h : renderRow K cass hp byId t ann a = .ok r) :
    ∃ cov : List Cell, covOf cass hp ann a = .ok cov ∧
      (isArrayFs K hp a = true → ∃ v c, slot hp a "elements" = some v ∧
        renderVal K hp byId (2 * hp.length + 2) v = .ok c ∧ r = anchorCell hp byId a :: (cov ++ [c])) ∧
      (isArrayFs K hp a = false → ∃ cs, renderCols K hp byId a (columns t) = .ok cs ∧
        r = anchorCell hp byId a :: (cov ++ cs)) := by
  rw [renderRow_eq] at h
  cases hcov : covOf cass hp ann a with
  | error e => rw [hcov] at h; cases h
  | ok cov =>
    rw [hcov] at h
    simp only [] at h
    refine ⟨cov, rfl, ?_, ?_⟩
    · intro harr
      simp only [harr, if_true] at h
      cases hv : slot hp a "elements" with
      | none => rw [hv] at h; cases h
      | some v =>
        rw [hv] at h
        simp only [] at h
        cases hc : renderVal K hp byId (2 * hp.length + 2) v with
        | error e => rw [hc] at h; cases h
        | ok c =>
          rw [hc] at h
          simp only [Except.ok.injEq] at h
          exact ⟨v, c, rfl, hc, by rw [← h]; rfl⟩
    · intro harr
      simp only [harr, Bool.false_eq_true, if_false] at h
      cases hcs : renderCols K hp byId a (columns t) with
      | error e => rw [hcs] at h; cases h
      | ok cs =>
        rw [hcs] at h
        simp only [Except.ok.injEq] at h
        exact ⟨cs, rfl, by rw [← h]; rfl⟩

theorem renderRow_head {K : Consts} {cass : List Cas} {hp : Heap} {byId : List (Option Int × String)} {t : TypeRec}
    {ann : Bool} {a : Nat} {r : List Cell} (h : renderRow K cass hp byId t ann a = .ok r) :
    r.head? = some (anchorCell hp byId a) := by
  obtain ⟨cov, _, h1, h2⟩ := renderRow_ok h
  cases harr : isArrayFs K hp a with
  | true =>
    obtain ⟨v, c, _, _, hr⟩ := h1 harr
    rw [hr]; rfl
  | false =>
    obtain ⟨cs, _, hr⟩ := h2 harr
    rw [hr]; rfl

theorem renderCols_len {K : Consts} {hp : Heap} {byId : List (Option Int × String)} {a : Nat} (cols : List String)
    (cs : List Cell) (h : renderCols K hp byId a cols = .ok cs) : cs.length = cols.length := by
  induction cols generalizing cs with
  | nil =>
    simp only [renderCols, Except.ok.injEq] at h
    subst h; rfl
  | cons n ns ih =>
    rw [renderCols] at h
    split at h
    · cases h
    · split at h
      · cases h
      · rename_i cs0 hcs0
        simp only [Except.ok.injEq] at h
        subst h
        simp only [List.length_cons, ih cs0 hcs0]

/-- equal column cells come from equal cells of every single feature -/
theorem renderCols_cell {K : Consts} {hp hp' : Heap} {byId byId' : List (Option Int × String)} {a : Nat}
    (cols : List String) (cs : List Cell) (h : renderCols K hp byId a cols = .ok cs)
    (h' : renderCols K hp' byId' a cols = .ok cs) (f : String) (hf : f ∈ cols) :
    ∃ c, renderVal K hp byId (2 * hp.length + 2) ((slot hp a f).getD .none) = .ok c ∧
      renderVal K hp' byId' (2 * hp'.length + 2) ((slot hp' a f).getD .none) = .ok c := by
  induction cols generalizing cs with
  | nil => cases hf
  | cons n ns ih =>
    rw [renderCols] at h h'
    cases hc : renderVal K hp byId (2 * hp.length + 2) ((slot hp a n).getD .none) with
    | error e => rw [hc] at h; cases h
    | ok c =>
      rw [hc] at h
      cases hc' : renderVal K hp' byId' (2 * hp'.length + 2) ((slot hp' a n).getD .none) with
      | error e => rw [hc'] at h'; cases h'
      | ok c' =>
        rw [hc'] at h'
        simp only [] at h h'
        cases hs : renderCols K hp byId a ns with
        | error e => rw [hs] at h; cases h
        | ok cs0 =>
          rw [hs] at h
          cases hs' : renderCols K hp' byId' a ns with
          | error e => rw [hs'] at h'; cases h'
          | ok cs0' =>
            rw [hs'] at h'
            simp only [Except.ok.injEq] at h h'
            rw [← h] at h'
            simp only [List.cons.injEq] at h'
            rcases List.mem_cons.1 hf with e | e
            · subst e
              exact ⟨c, hc, by rw [hc', h'.1]⟩
            · have : cs0' = cs0 := h'.2
              subst this
              exact ih cs0' hs hs' e

/-- two equal rows of a structure that is not an array have equal feature cells -/
theorem row_cols_eq {K : Consts} {cass : List Cas} {hp hp' : Heap} {byId byId' : List (Option Int × String)}
    {t : TypeRec} {ann : Bool} {a : Nat} {r : List Cell}
    (h : renderRow K cass hp byId t ann a = .ok r) (h' : renderRow K cass hp' byId' t ann a = .ok r)
    (harr : isArrayFs K hp a = false) (harr' : isArrayFs K hp' a = false) :
    ∃ cs, renderCols K hp byId a (columns t) = .ok cs ∧ renderCols K hp' byId' a (columns t) = .ok cs := by
  obtain ⟨cov, _, _, h2⟩ := renderRow_ok h
  obtain ⟨cov', _, _, h2'⟩ := renderRow_ok h'
  obtain ⟨cs, hcs, hr⟩ := h2 harr
  obtain ⟨cs', hcs', hr'⟩ := h2' harr'
  have hl := renderCols_len _ _ hcs
  have hl' := renderCols_len _ _ hcs'
  rw [hr] at hr'
  simp only [List.cons.injEq] at hr'
  have := List.append_inj_right' hr'.2 (by rw [hl, hl'])
  exact ⟨cs, hcs, by rw [hcs', this]⟩

/-- two equal rows of an array have equal `elements` cells -/
theorem row_elems_eq {K : Consts} {cass : List Cas} {hp hp' : Heap} {byId byId' : List (Option Int × String)}
    {t : TypeRec} {ann : Bool} {a : Nat} {r : List Cell}
    (h : renderRow K cass hp byId t ann a = .ok r) (h' : renderRow K cass hp' byId' t ann a = .ok r)
    (harr : isArrayFs K hp a = true) (harr' : isArrayFs K hp' a = true) :
    ∃ v v' c, slot hp a "elements" = some v ∧ slot hp' a "elements" = some v' ∧
      renderVal K hp byId (2 * hp.length + 2) v = .ok c ∧ renderVal K hp' byId' (2 * hp'.length + 2) v' = .ok c := by
  obtain ⟨cov, _, h1, _⟩ := renderRow_ok h
  obtain ⟨cov', _, h1', _⟩ := renderRow_ok h'
  obtain ⟨v, c, hv, hc, hr⟩ := h1 harr
  obtain ⟨v', c', hv', hc', hr'⟩ := h1' harr'
  rw [hr] at hr'
  simp only [List.cons.injEq] at hr'
  have := List.append_inj_right' hr'.2 rfl
  simp only [List.cons.injEq, and_true] at this
  exact ⟨v, v', c, hv, hv', hc, by rw [hc', this]⟩

end Cassis.Comparable
