/-
Helper lemmas for `Properties/C13PermSub.lean` (competing supertypes on names with subtypes), part YA: what re-parenting a
type *with its subtree* does record by record (registered names, supertypes, growth of the features, ancestors), and
that it stays inside a type system `o` (`SubP`) in which the new supertype is an ancestor of the type.
-/
import CassisModel.Proofs.MergeFeatInv
import CassisModel.Proofs.MergePermXC
import CassisModel.Proofs.MergePermB2

namespace Cassis.TS

/-! ### Growth of the records -/

theorem push_grow (f : Feature) (fuel : Nat) (ts : TypeSystem) (cs : List String) :
    ∀ ts', pushInherited f fuel ts cs = .ok ts' →
      ∀ x t, find? ts x = some t → ∃ t', find? ts' x = some t' ∧ t'.own = t.own ∧ ∀ g ∈ t.inh, g ∈ t'.inh := by
  fun_induction pushInherited f fuel ts cs with
  | case1 => intro ts' h; cases h
  | case2 => intro ts' h; cases h; exact fun x t hx => ⟨t, hx, rfl, fun _ h => h⟩
  | case3 _ _ _ _ _ ih => exact ih
  | case4 => intro ts' h; cases h
  | case5 _ _ _ _ _ _ _ ih => exact ih
  | case6 fuel ts c cs t hf hchk ts1 ih2 ih1 =>
    intro ts' h
    cases h2 : pushInherited f fuel ts1 t.children with
    | error e => rw [h2] at h; cases h
    | ok ts2 =>
      rw [h2] at h
      intro x tx hx
      have htn : t.name = c := find?_name hf
      have h1 : ∃ t1, find? ts1 x = some t1 ∧ t1.own = tx.own ∧ ∀ g ∈ tx.inh, g ∈ t1.inh := by
        by_cases hxc : x = c
        · subst hxc
          rw [hf] at hx; cases hx
          exact ⟨_, find?_setRec_eq ts { t with inh := t.inh ++ [f] } t htn hf, rfl,
            fun g hg => List.mem_append_left _ hg⟩
        · refine ⟨tx, ?_, rfl, fun _ h => h⟩
          rw [find_setRec_other ts _ x (by show x ≠ t.name; rw [htn]; exact hxc)]
          exact hx
      obtain ⟨t1, ht1, o1, i1⟩ := h1
      obtain ⟨t2, ht2, o2, i2⟩ := ih2 ts2 h2 x t1 ht1
      obtain ⟨t3, ht3, o3, i3⟩ := ih1 ts2 ts' h x t2 ht2
      exact ⟨t3, ht3, o3.trans (o2.trans o1), fun g hg => i3 g (i2 g (i1 g hg))⟩

theorem inheritFrom_grow (r : String) : ∀ (fs : List Feature) (ts ts' : TypeSystem),
    inheritFrom ts r fs = .ok ts' →
      ∀ x t, find? ts x = some t → ∃ t', find? ts' x = some t' ∧ t'.own = t.own ∧ ∀ g ∈ t.inh, g ∈ t'.inh := by
  intro fs
  induction fs with
  | nil => intro ts ts' h; simp only [inheritFrom] at h; cases h; exact fun x t hx => ⟨t, hx, rfl, fun _ h => h⟩
  | cons f fs ih =>
    intro ts ts' h
    simp only [inheritFrom] at h
    split at h
    · cases h
    · split at h
      · cases h
      · rename_i ts1 h1
        intro x t hx
        obtain ⟨t1, ht1, o1, i1⟩ := push_grow f _ ts [r] ts1 h1 x t hx
        obtain ⟨t2, ht2, o2, i2⟩ := ih ts1 ts' h x t1 ht1
        exact ⟨t2, ht2, o2.trans o1, fun g hg => i2 g (i1 g hg)⟩

/-! ### Ancestors after `relink` -/

theorem anc_relink (ts : TypeSystem) (n c x : String) (t : TypeRec) (hc : Consistent ts)
    (hf : find? ts n = some t) (hts : t.super = some c) (hcx : Anc ts c x) (hna : ¬ Anc ts n x) :
    ∀ a b, Anc ts a b → Anc (relink ts n c x) a b := by
  have hfind := fun y => find_relink ts n c x y hc.nodup
  have hreg1 : ∀ y, hasExact ts y = true → hasExact (relink ts n c x) y = true := by
    intro y hy
    obtain ⟨r0, hr0⟩ := (hasExact_iff_find _ _).mp hy
    exact (hasExact_iff_find _ _).mpr ⟨_, by rw [hfind, hr0]; rfl⟩
  have hregn : hasExact ts n = true := (hasExact_iff_find _ _).mpr ⟨t, hf⟩
  -- chains that end outside the subtree of `n`
  have avoid : ∀ a b, Anc ts a b → ¬ Anc ts n b → Anc (relink ts n c x) a b := by
    intro a b h
    induction h with
    | refl ha => intro _; exact Anc.refl _ (hreg1 _ ha)
    | step b s tb hfb hsb _ ih =>
      intro hnb
      have hbn : b ≠ n := fun e => hnb (e ▸ Anc.refl n hregn)
      have hns : ¬ Anc ts n s := fun h' => hnb (Anc.step n b s tb hfb hsb h')
      refine Anc.step a b s (relinkRec n c x tb) (by rw [hfind, hfb]; rfl) ?_ (ih hns)
      rw [relinkRec_super, if_neg (by rw [find?_name hfb]; exact hbn)]
      exact hsb
  have hcx1 : Anc (relink ts n c x) c x := avoid c x hcx hna
  intro a b h
  induction h with
  | refl ha => exact Anc.refl _ (hreg1 _ ha)
  | step b s tb hfb hsb _ ih =>
    by_cases hbn : b = n
    · have etb : tb = t := by rw [hbn, hf] at hfb; exact (Option.some.inj hfb).symm
      have es : s = c := by rw [etb, hts] at hsb; exact (Option.some.inj hsb).symm
      rw [es] at ih
      rw [hbn]
      exact Anc.step a n x (relinkRec n c x t) (by rw [hfind, hf]; rfl)
        (relinkRec_super_self n c x t (find?_name hf)) (ih.trans hcx1)
    · refine Anc.step a b s (relinkRec n c x tb) (by rw [hfind, hfb]; rfl) ?_ ih
      rw [relinkRec_super, if_neg (by rw [find?_name hfb]; exact hbn)]
      exact hsb

/-- what a successful re-parenting leaves behind -/
theorem reparent_frame (ts ts' : TypeSystem) (name oldSup newSup : String) (ex : TypeRec)
    (hc : Consistent ts) (hex : find? ts name = some ex) (hsup : ex.super = some oldSup)
    (hanc : Anc ts oldSup newSup) (h : reparent ts name oldSup newSup = .ok ts') :
    (∀ y, hasExact ts' y = hasExact ts y) ∧
    (∀ y t, find? ts y = some t → ∃ t', find? ts' y = some t' ∧
        t'.super = (if y = name then some newSup else t.super) ∧ t'.own = t.own ∧ (∀ g ∈ t.inh, g ∈ t'.inh)) ∧
    (∀ a b, Anc ts a b → Anc ts' a b) := by
  obtain ⟨hs, ns, hns, hi⟩ := reparent_ok ts ts' name oldSup newSup h
  have hregn : hasExact ts name = true := (hasExact_iff_find _ _).mpr ⟨ex, hex⟩
  have hreg : hasExact ts newSup = true := (hasExact_iff_find _ _).mpr ⟨ns, hns⟩
  have hna : ¬ Anc ts name newSup := by
    intro ha
    have := (subsumes_iff_ancestor_aux ts hc name newSup hregn hreg).mpr ha
    rw [hs] at this; cases this
  have hfind := fun y => find_relink ts name oldSup newSup y hc.nodup
  have hn1 := nodup_relink ts name oldSup newSup hc.nodup
  have hsk := skel_inheritFrom name _ _ ts' hn1 hi
  refine ⟨?_, ?_, ?_⟩
  · intro y
    rw [hasExact_transfer hsk]
    unfold hasExact
    rw [hfind]
    cases find? ts y <;> rfl
  · intro y t hy
    have h1 : find? (relink ts name oldSup newSup) y = some (relinkRec name oldSup newSup t) := by
      rw [hfind, hy]; rfl
    obtain ⟨t', ht', o1, i1⟩ := inheritFrom_grow name _ _ ts' hi y _ h1
    obtain ⟨t1, ht1, he⟩ := find?_transfer hsk ht'
    rw [h1] at ht1; cases ht1
    rw [tr_eq_iff] at he
    refine ⟨t', ht', ?_, ?_, ?_⟩
    · rw [← he.2.1, relinkRec_super, find?_name hy]
    · rw [o1, relinkRec_own]
    · intro g hg; apply i1; rw [relinkRec_inh]; exact hg
  · intro a b hab
    exact anc_of_skel hsk (anc_relink ts name oldSup newSup ex hc hex hsup hanc hna a b hab)

end Cassis.TS
