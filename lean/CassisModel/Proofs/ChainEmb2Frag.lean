/-
C16 with an embedded type system that is only a part of the original, part 2: `Proofs/ChainEmbFrag.lean` and
`Proofs/ChainEmbTrav.lean` for the restricted relation `TsLeOn`: the XMI fragment (`CollFs`), the successor relation
(`Target`), the invariant of the collected structures (`LOkC`) and the traversal carry over from `ts`, `hp` to `ts'`,
`hp'` for structures whose type name is in `N` (`TyIn`).
-/
import CassisModel.Proofs.ChainEmb2Ts
import CassisModel.Proofs.ChainEmbTrav

namespace Cassis.ChainE
open Cassis.TS Cassis.Traverse Cassis.Xmi Cassis.Json Cassis.Xmi.CFX

/-- the type name of the object at `a` is in `N` -/
def TyIn (N : List String) (hp : Heap) (a : Nat) : Prop := ∀ o, hp[a]? = some o → o.ty ∈ N

theorem tyIn_sim {N : List String} {hp hp' : Heap} (hh : HeapSim hp hp') {a : Nat} (h : TyIn N hp a) : TyIn N hp' a := by
  intro o' ho'
  rcases hh.get a with ⟨_, g2⟩ | ⟨x, x', g1, g2, gx⟩
  · rw [g2] at ho'; cases ho'
  · rw [g2] at ho'; cases ho'
    rw [gx.1]; exact h x g1

theorem collFeat_sim_on {K : Consts} {ts ts' : TypeSystem} {c : Cas} {ci : Nat} {hp hp' : Heap} {isAnn : Bool} {o o' : Obj}
    {f : Feature} (hi1 : isInstanceOf ts' f.range STRING_ARRAY = isInstanceOf ts f.range STRING_ARRAY)
    (hi2 : isInstanceOf ts' f.range STRING_LIST = isInstanceOf ts f.range STRING_LIST)
    (hpr : isPrimitive K ts' f.range = isPrimitive K ts f.range) (hh : HeapSim hp hp')
    (ho : ∀ n, alistGet? o'.slots n = alistGet? o.slots n)
    (h : CollFeat K ts c ci hp isAnn o f) : CollFeat K ts' c ci hp' isAnn o' f := by
  have hrk : ∀ pa pl ar li sa sl, RangeKind K ts' f.range pa pl ar li sa sl = RangeKind K ts f.range pa pl ar li sa sl := by
    intro pa pl ar li sa sl
    apply propext
    constructor
    · intro h
      exact ⟨h.primArr, h.primList, h.arr, h.list, by rw [← hi1]; exact h.strArr, by rw [← hi2]; exact h.strList,
        by rw [← hpr]; exact h.prim⟩
    · intro h
      exact ⟨h.primArr, h.primList, h.arr, h.list, by rw [hi1]; exact h.strArr, by rw [hi2]; exact h.strList,
        by rw [hpr]; exact h.prim⟩
  unfold CollFeat FlatFeat SharedFeat InlineFeat InlArr InlList FsElems RefOk at h ⊢
  rw [xidOf_sim hh, slot_sim hh, collectList_sim hh, hh.1]
  simp only [hi1, hi2, hpr, ho, hrk]
  exact h

theorem collFs_le_on {K : Consts} {N : List String} {ts ts' : TypeSystem} {c : Cas} {ci : Nat} {hp hp' : Heap} {a : Nat}
    (hle : TsLeOn K N ts ts') (hh : HeapSim hp hp') (hk : SlotsOk ts' hp' a) (hN : TyIn N hp a)
    (h : CollFs K ts c ci hp a) : CollFs K ts' c ci hp' a := by
  rcases h with hg | hA
  · obtain ⟨o, t, ho, ht, htn, h1, h2, h3, h4, h5, h6, h7, h8, hnd, hsl, hfeat, hann⟩ := hg
    rcases hh.get a with ⟨g1, _⟩ | ⟨x, o', g1, g2, gx⟩
    · rw [g1] at ho; cases ho
    · rw [g1] at ho; cases ho
      have hoN : o.ty ∈ N := hN o g1
      obtain ⟨t', ht', htn', hsup', hperm, hfwd, hbwd, hrng⟩ := hle.find _ t hoN ht
      have hty : o'.ty = o.ty := gx.1
      have hget : ∀ n, alistGet? o'.slots n = alistGet? o.slots n := gx.2.2.2.2
      have ht'' : find? ts' o'.ty = some t' := by rw [hty]; exact ht'
      refine .inl ⟨o', t', g2, ht'', by rw [htn', htn, hty], ?_⟩
      rw [hty, hsup', hle.inst _ _ hoN, hle.inst _ _ hoN]
      refine ⟨h1, h2, h3, h4, h5, h6, h7, h8, hperm.nodup_iff.mpr hnd, hk o' t' g2 ht'', ?_, ?_⟩
      · intro f' hf'
        obtain ⟨f, hf, hl⟩ := hbwd f' hf'
        have hr := hrng f hf
        exact collFeat_like hl (collFeat_sim_on (hle.inst _ _ hr) (hle.inst _ _ hr) (hle.prim _ hr) hh hget (hfeat f hf))
      · intro hA
        obtain ⟨vn, v, text, b, e, k1, k2, k3, k4, k5, k6, k7⟩ := hann hA
        exact ⟨vn, v, text, b, e, by rw [hget]; exact k1, k2, k3, by rw [hget]; exact k4, by rw [hget]; exact k5, k6, k7⟩
  · obtain ⟨o, t, f, ev, ho, ht, htn, hsup, hall, hfn, hfr, hres, hsl, hann, hcase⟩ := hA
    rcases hh.get a with ⟨g1, _⟩ | ⟨x, o', g1, g2, gx⟩
    · rw [g1] at ho; cases ho
    · rw [g1] at ho; cases ho
      have hoN : o.ty ∈ N := hN o g1
      obtain ⟨t', ht', htn', hsup', hperm, hfwd, hbwd, _⟩ := hle.find _ t hoN ht
      have hty : o'.ty = o.ty := gx.1
      have ht'' : find? ts' o'.ty = some t' := by rw [hty]; exact ht'
      -- the only feature
      have hnames : (allFeatures t').map (·.name) = [f.name] := by
        have : (ctorFields t').Perm [f.name] := by
          have e : ctorFields t = [f.name] := by unfold ctorFields; rw [hall]; rfl
          rw [← e]; exact hperm
        exact perm_singleton_eq this
      obtain ⟨f', hall'⟩ : ∃ f', allFeatures t' = [f'] := by
        cases hl : allFeatures t' with
        | nil => rw [hl] at hnames; cases hnames
        | cons f' rest =>
          cases rest with
          | nil => exact ⟨f', rfl⟩
          | cons _ _ => rw [hl] at hnames; simp at hnames
      obtain ⟨f0, hf0, hl⟩ := hbwd f' (by rw [hall']; exact List.mem_cons_self)
      rw [hall] at hf0
      have e0 : f0 = f := by simpa using hf0
      subst e0
      obtain ⟨l1, l2, _, l4⟩ := hl
      have hsl' : o'.slots = [("elements", ev)] := by
        have := gx.2.2.2.1
        rw [hsl] at this
        exact perm_singleton_eq this
      refine .inr ⟨o', t', f', ev, g2, ht'', by rw [htn', htn, hty], by rw [hsup']; exact hsup, hall',
        by rw [l1]; exact hfn, by rw [l2]; exact hfr, by rw [l4]; exact hres, hsl', ?_, ?_⟩
      · rw [hty, hle.inst _ _ hoN]; exact hann
      · rw [hty]
        unfold FsElems RefOk at hcase ⊢
        rw [xidOf_sim hh]
        rcases hcase with ⟨c1, c2, c3, c4⟩ | hc2 | ⟨c1, c2, c3, c4⟩
        · exact .inl ⟨c1, c2, by rw [← c1, hle.inst _ _ hoN, c1]; exact c3, c4⟩
        · exact .inr (.inl hc2)
        · exact .inr (.inr ⟨c1, c2, by rw [hle.inst _ _ hoN]; exact c3, c4⟩)

theorem target_le_on {K : Consts} {N : List String} {ts ts' : TypeSystem} {hp hp' : Heap} {a b : Nat}
    (hle : TsLeOn K N ts ts') (hh : HeapSim hp hp') (hN : TyIn N hp a) (h : Target K ts hp a b) :
    Target K ts' hp' a b := by
  obtain ⟨o, t, ho, ht, hcase⟩ := h
  rcases hh.get a with ⟨g1, _⟩ | ⟨x, o', g1, g2, gx⟩
  · rw [g1] at ho; cases ho
  · rw [g1] at ho; cases ho
    obtain ⟨t', ht', _, _, _, hfwd, _⟩ := hle.find _ t (hN o g1) ht
    have hty : o'.ty = o.ty := gx.1
    have hget : ∀ n, alistGet? o'.slots n = alistGet? o.slots n := gx.2.2.2.2
    refine ⟨o', t', g2, by rw [hty]; exact ht', ?_⟩
    rcases hcase with ⟨f, hf, h1, h2⟩ | ⟨f, hf, h1, h2, cc, l, h3, h4, h5⟩ | ⟨f, hf, h1, h2, cc, hs, h3, h4, h5⟩ |
      ⟨h1, l, h2, h3⟩
    · obtain ⟨f', hf', hl⟩ := hfwd f hf
      exact .inl ⟨f', hf', by rw [isInline_like hl]; exact h1, by rw [hl.1, hget]; exact h2⟩
    · obtain ⟨f', hf', hl⟩ := hfwd f hf
      exact .inr (.inl ⟨f', hf', by rw [isInline_like hl]; exact h1, by rw [hl.2.1]; exact h2, cc, l,
        by rw [hl.1, hget]; exact h3, by rw [slot_sim hh]; exact h4, h5⟩)
    · obtain ⟨f', hf', hl⟩ := hfwd f hf
      exact .inr (.inr (.inl ⟨f', hf', by rw [isInline_like hl]; exact h1, by rw [hl.2.1]; exact h2, cc, hs,
        by rw [hl.1, hget]; exact h3, by rw [collectList_sim hh, hh.1]; exact h4, h5⟩))
    · exact .inr (.inr (.inr ⟨by rw [hty]; exact h1, l, by rw [hget]; exact h2, h3⟩))

theorem lokC_le_on {K : Consts} {N : List String} {ts ts' : TypeSystem} {c : Cas} {ci : Nat} {hp hp' : Heap}
    {L : List (Int × Nat)} (hle : TsLeOn K N ts ts') (hle' : TsLeOn K N ts' ts) (hh : HeapSim hp hp')
    (hk : ∀ q ∈ L, SlotsOk ts' hp' q.2) (hN : ∀ q ∈ L, TyIn N hp q.2)
    (hL : LOkC K ts c ci hp L) : LOkC K ts' c ci hp' L := by
  refine ⟨fun q hq => collFs_le_on hle hh (hk q hq) (hN q hq) (hL.coll q hq), ?_, hL.nodup, ?_, hL.members⟩
  · intro q hq
    rw [hh.xidOf]
    exact hL.ids q hq
  · intro q hq b hb
    obtain ⟨x, hx, hxl⟩ := hL.closed q hq b (target_le_on hle' (HeapSim.symm' hh) (tyIn_sim hh (hN q hq)) hb)
    exact ⟨x, by rw [hh.xidOf]; exact hx, hxl⟩

section
variable {K : Consts} {N : List String} {ts ts' : TypeSystem} {c : Cas} {ci : Nat} {hp hp' : Heap}

theorem reach_le_on (hle : TsLeOn K N ts ts') (hh : HeapSim hp hp') {nx : Int} (hnx : 0 < nx) {st : St}
    (hfa : findAllFs K ts {} hp nx (defaultSeeds c) = .ok st) (hheap : st.heap = hp)
    (hN : ∀ q ∈ st.allFs, TyIn N hp q.2)
    (hL : LOkC K ts c ci hp (sortById st.allFs)) (hL' : LOkC K ts' c ci hp' (sortById st.allFs)) {a : Nat}
    (hr : Reach K ts {} hp (hp.length + 1) (defaultSeeds c) a) :
    Reach K ts' {} hp' (hp'.length + 1) (defaultSeeds c) a := by
  induction hr with
  | seed a hs => exact Reach.seed _ hs
  | step a b hra hnull hsucc ih =>
    have hmem := findAllFs_complete_aux K ts {} hp nx _ st hnx hfa a (by rw [hheap]; exact hra)
      (by rw [hheap]; exact hnull)
    obtain ⟨⟨xa, a2⟩, hq, rfl⟩ := List.mem_map.mp hmem
    have hqa : (xa, a2) ∈ sortById st.allFs := mem_sortById.mpr hq
    have htg : Target K ts hp a2 b := (succsOf_coll (hL.coll _ hqa) b).mp hsucc
    refine Reach.step a2 b ih ?_ ?_
    · rw [hh.xidOf]; exact hnull
    · exact (succsOf_coll (hL'.coll _ hqa) b).mpr (target_le_on hle hh (hN _ hq) htg)

/-- **the traversal under the partial type system** -/
theorem traversal_le_on (hle : TsLeOn K N ts ts') (hle' : TsLeOn K N ts' ts) (hh : HeapSim hp hp') {nx : Int}
    (hnx : 0 < nx) {st : St} (hfa : findAllFs K ts {} hp nx (defaultSeeds c) = .ok st) (hheap : st.heap = hp)
    (hL : LOkC K ts c ci hp (sortById st.allFs)) (hk : ∀ q ∈ st.allFs, SlotsOk ts' hp' q.2)
    (hN : ∀ q ∈ st.allFs, TyIn N hp q.2) :
    ∃ st' : St, findAllFs K ts' {} hp' nx (defaultSeeds c) = .ok st' ∧ st'.heap = hp' ∧
      sortById st'.allFs = sortById st.allFs ∧ LOkC K ts' c ci hp' (sortById st.allFs) := by
  have hL' : LOkC K ts' c ci hp' (sortById st.allFs) :=
    lokC_le_on hle hle' hh (fun q hq => hk q (mem_sortById.mp hq)) (fun q hq => hN q (mem_sortById.mp hq)) hL
  obtain ⟨st', hfa', hheap', hsub⟩ := Traverse.findAllFs_succeeds K ts' {} hp' nx (defaultSeeds c)
    (fun b => ∃ q ∈ sortById st.allFs, b = q.2)
    (by
      intro a ha
      unfold defaultSeeds at ha
      obtain ⟨nv, hnv, ha⟩ := List.mem_flatMap.mp ha
      obtain ⟨e, he, rfl⟩ := List.mem_map.mp ha
      obtain ⟨x, hx⟩ := hL.members nv hnv e he
      exact ⟨_, hx, rfl⟩)
    (by
      rintro a ⟨q, hq, rfl⟩
      obtain ⟨o', t, _, _, ho', ht, _, _⟩ := nodeSuccs_coll_any (hL'.coll q hq) []
      have hx := (hL'.ids q hq).1
      refine ⟨o', q.1, t, ho', ?_, Xmi.getType_of_find ht, ?_⟩
      · unfold xidOf at hx; rw [ho'] at hx; exact hx
      · intro allFs
        obtain ⟨o2, t2, ps, n, ho2, ht2, hns, hps⟩ := nodeSuccs_coll_any (hL'.coll q hq) allFs
        rw [ho'] at ho2; cases ho2
        rw [ht] at ht2; cases ht2
        refine ⟨ps, n, hns, fun b' hb' => ?_⟩
        obtain ⟨x, _, hxl⟩ := hL'.closed q hq b' (hps b' hb')
        exact ⟨_, hxl, rfl⟩)
    (by
      rintro a b ⟨q, hq, rfl⟩ ⟨q', hq', rfl⟩ h
      rw [(hL'.ids q hq).1, (hL'.ids q' hq').1] at h
      rw [fst_inj_of_nodup hL.nodup hq hq' (Option.some.inj h)])
  refine ⟨st', hfa', hheap', ?_, hL'⟩
  have inv' := (findAllFs_inv K ts' {} hp' nx _ st' hfa').1
  have inv := (findAllFs_inv K ts {} hp nx _ st hfa).1
  have hnd' : st'.allFs.Nodup := nodup_of_nodup_map _ _ inv'.nodupK
  have hnd : st.allFs.Nodup := nodup_of_nodup_map _ _ inv.nodupK
  apply sortById_perm_invariant_aux _ _ _ inv'.nodupK
  rw [List.perm_ext_iff_of_nodup hnd' hnd]
  rintro ⟨x, b⟩
  constructor
  · intro hr
    obtain ⟨q, hq, hb⟩ := hsub _ hr
    have h1 := inv'.link x b hr
    simp only at hb
    subst hb
    rw [hheap', (hL'.ids q hq).1] at h1
    have : q = (x, q.2) := Prod.ext (Option.some.inj h1) rfl
    rw [← this]
    exact mem_sortById.mp hq
  · intro hm
    have hqL : (x, b) ∈ sortById st.allFs := mem_sortById.mpr hm
    have hreach := findAllFs_sound_aux K ts {} hp nx _ st hnx hfa b (List.mem_map.mpr ⟨_, hm, rfl⟩)
    rw [hheap] at hreach
    have hreach' := reach_le_on hle hh hnx hfa hheap hN hL hL' hreach
    have hxq : xidOf st'.heap b = some x := by rw [hheap']; exact (hL'.ids _ hqL).1
    have hmem := findAllFs_complete_aux K ts' {} hp' nx _ st' hnx hfa' b
      (by rw [hheap']; exact hreach')
      (by rw [hxq]; intro h; exact (hL'.ids _ hqL).2 (Option.some.inj h))
    obtain ⟨⟨y, b'⟩, hr, hb⟩ := List.mem_map.mp hmem
    simp only at hb
    subst hb
    have := inv'.link y _ hr
    rw [hxq] at this
    cases this
    exact hr

end

end Cassis.ChainE
