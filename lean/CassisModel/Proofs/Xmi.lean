/-
Proofs about the XMI codec model (`Model/Xmi.lean`): per-kind encoder/decoder round trips, the sort of
the collected structures, the shape of the written document, sofa and view records (C01).
-/
import CassisModel.Proofs.Lex
import CassisModel.Model.Xmi
import CassisModel.Proofs.Traverse

/-- pointwise relation of two lists (as in Batteries/Mathlib; core Lean has no `List.Forall₂`) -/
inductive List.Forall₂ {α β} (R : α → β → Prop) : List α → List β → Prop
  | nil : List.Forall₂ R [] []
  | cons {a b l₁ l₂} : R a b → List.Forall₂ R l₁ l₂ → List.Forall₂ R (a :: l₁) (b :: l₂)

namespace Cassis.Xmi
open Cassis.Lex Cassis.TS

theorem isEmpty_false_of_toList {s : String} (h : s.toList ≠ []) : s.isEmpty = false := by
  cases hs : s.isEmpty with
  | false => rfl
  | true =>
    rw [String.isEmpty_iff] at hs
    subst hs
    exact absurd rfl h

theorem parseIntE_showInt (i : Int) : parseIntE (showInt i) = .ok i := by
  unfold parseIntE
  rw [parseInt_showInt_aux]

theorem parseInts_map_showInt (l : List Int) : parseInts (l.map showInt) = .ok l := by
  induction l with
  | nil => rfl
  | cons i l ih =>
    simp only [List.map_cons, parseInts, parseIntE_showInt, ih, bind, Except.bind, pure, Except.pure]

theorem split_join_showInt (l : List Int) : splitWs (joinSp (l.map showInt)) = l.map showInt := by
  apply splitWs_joinSp_aux
  intro t ht
  obtain ⟨i, _, rfl⟩ := List.mem_map.mp ht
  exact showInt_isTok_aux i

theorem parseInts_showInts_aux (l : List Int) : parseInts (splitWs (joinSp (l.map showInt))) = .ok l := by
  rw [split_join_showInt, parseInts_map_showInt]

theorem resolveIds_map_showInt (fss : List (Int × Nat)) (ids : List Int) (targets : List Nat)
    (h : List.Forall₂ (fun i t => lookupFs fss i = .ok t) ids targets) :
    resolveIds fss (ids.map showInt) = .ok targets := by
  induction h with
  | nil => rfl
  | cons h1 _ ih =>
    simp only [List.map_cons, resolveIds, parseIntE_showInt, h1, ih, bind, Except.bind, pure, Except.pure]

theorem resolveIds_showIds_aux (fss : List (Int × Nat)) (ids : List Int) (targets : List Nat)
    (h : List.Forall₂ (fun i t => lookupFs fss i = .ok t) ids targets) :
    resolveIds fss (splitWs (joinSp (ids.map showInt))) = .ok targets := by
  rw [split_join_showInt]
  exact resolveIds_map_showInt fss ids targets h

theorem intArray_roundtrip_aux (ty : String)
    (hty : ty = "uima.cas.IntegerArray" ∨ ty = "uima.cas.ShortArray" ∨ ty = "uima.cas.LongArray")
    (l : List Int) (hne : l ≠ []) (s : String) (hs : showPrimArray ty (.ints l) = .ok s) :
    parsePrimArrayStr ty s = .ok (.ints l) := by
  have hs' : s = joinSp (l.map showInt) := by
    rcases hty with rfl | rfl | rfl <;>
    · simp only [showPrimArray] at hs
      rw [if_neg (by decide)] at hs
      exact (Except.ok.inj hs).symm
  subst hs'
  have hemp : (joinSp (l.map showInt)).isEmpty = false := by
    apply isEmpty_false_of_toList
    apply joinSp_toList_ne_nil
    · intro e; exact hne (List.map_eq_nil_iff.mp e)
    · intro t ht
      obtain ⟨i, _, rfl⟩ := List.mem_map.mp ht
      exact (showInt_isTok_aux i).1
  unfold parsePrimArrayStr
  simp only [hemp, parseInts_showInts_aux]
  rcases hty with rfl | rfl | rfl
  · rw [if_neg (by decide), if_pos (by decide)]; rfl
  · rw [if_neg (by decide), if_pos (by decide)]; rfl
  · rw [if_neg (by decide), if_pos (by decide)]; rfl


theorem map_toNat_ofNat (l : List Nat) : (l.map Int.ofNat).map Int.toNat = l := by
  induction l with
  | nil => rfl
  | cons b l ih => simp only [List.map_cons, ih]; rfl

theorem byteArray_roundtrip_aux (l : List Nat) (hb : ∀ b ∈ l, b < 256) (hne : l ≠ []) (s : String)
    (hs : showPrimArray "uima.cas.ByteArray" (.ints (l.map Int.ofNat)) = .ok s) :
    parsePrimArrayStr "uima.cas.ByteArray" s = .ok (.ints (l.map Int.ofNat)) := by
  have hs' : s = hexEnc l := by
    simp only [showPrimArray] at hs
    rw [if_pos (by decide), map_toNat_ofNat] at hs
    exact (Except.ok.inj hs).symm
  subst hs'
  have hemp : (hexEnc l).isEmpty = false := isEmpty_false_of_toList (hexEnc_toList_ne_nil l hne)
  unfold parsePrimArrayStr
  simp only [hemp, hexDec_hexEnc_aux l hb]
  rw [if_neg (by decide), if_neg (by decide), if_neg (by decide), if_neg (by decide), if_pos (by decide)]
  rfl

theorem showBool_isTok (b : Bool) : IsTokL (showBool b) := by
  cases b <;> exact ⟨by decide, by decide⟩

theorem parseBool_showBool' (b : Bool) : parseBool (showBool b) = some b := by
  cases b <;> decide

theorem mapM_parseBool (l : List Bool) : (l.map showBool).mapM parseBool = some l := by
  induction l with
  | nil => rfl
  | cons b l ih =>
    simp only [List.map_cons, List.mapM_cons, parseBool_showBool', ih, bind, Option.bind, pure]

theorem boolArray_roundtrip_aux (l : List Bool) (hne : l ≠ []) (s : String)
    (hs : showPrimArray "uima.cas.BooleanArray" (.bools l) = .ok s) :
    parsePrimArrayStr "uima.cas.BooleanArray" s = .ok (.bools l) := by
  have hs' : s = joinSp (l.map showBool) := by
    simp only [showPrimArray] at hs
    exact (Except.ok.inj hs).symm
  subst hs'
  have htok : ∀ t ∈ l.map showBool, IsTokL t := by
    intro t ht
    obtain ⟨b, _, rfl⟩ := List.mem_map.mp ht
    exact showBool_isTok b
  have hemp : (joinSp (l.map showBool)).isEmpty = false := by
    apply isEmpty_false_of_toList
    apply joinSp_toList_ne_nil
    · intro e; exact hne (List.map_eq_nil_iff.mp e)
    · intro t ht; exact (htok t ht).1
  unfold parsePrimArrayStr
  simp only [hemp, splitWs_joinSp_aux _ htok, mapM_parseBool]
  rw [if_neg (by decide), if_neg (by decide), if_neg (by decide), if_pos (by decide)]
  rfl

theorem floatArray_roundtrip_aux (ty : String) (hty : ty = "uima.cas.FloatArray" ∨ ty = "uima.cas.DoubleArray")
    (l : List String) (htok : ∀ t ∈ l, IsTokL t) (hne : l ≠ []) (s : String)
    (hs : showPrimArray ty (.floats l) = .ok s) : parsePrimArrayStr ty s = .ok (.floats l) := by
  have hs' : s = joinSp l := by
    simp only [showPrimArray] at hs
    exact (Except.ok.inj hs).symm
  subst hs'
  have hemp : (joinSp l).isEmpty = false := by
    apply isEmpty_false_of_toList
    apply joinSp_toList_ne_nil _ hne
    intro t ht; exact (htok t ht).1
  unfold parsePrimArrayStr
  simp only [hemp, splitWs_joinSp_aux _ htok]
  rcases hty with rfl | rfl
  · rw [if_pos (by decide)]; rfl
  · rw [if_pos (by decide)]; rfl

theorem emptyArray_roundtrip_aux (ty : String) (h : ty ∈ ["uima.cas.IntegerArray", "uima.cas.ShortArray", "uima.cas.LongArray",
    "uima.cas.FloatArray", "uima.cas.DoubleArray", "uima.cas.BooleanArray", "uima.cas.ByteArray", "uima.cas.StringArray"]) :
    parsePrimArrayStr ty "" = .ok (.refs []) := by
  simp only [List.mem_cons, List.not_mem_nil, or_false] at h
  rcases h with rfl | rfl | rfl | rfl | rfl | rfl | rfl | rfl <;> rfl

theorem primValue_roundtrip_int_aux (ts : TypeSystem) (fuel : Nat) (ty : String)
    (hty : ty ∈ ["uima.cas.Integer", "uima.cas.Short", "uima.cas.Long", "uima.cas.Byte"]) (i : Int) :
    parsePrimValue ts (fuel + 1) ty (.str (showInt i)) = .ok (.int i) := by
  simp only [List.mem_cons, List.not_mem_nil, or_false] at hty
  unfold parsePrimValue
  simp only [parseIntE_showInt]
  rcases hty with rfl | rfl | rfl | rfl
  · rw [if_neg (by decide), if_neg (by decide), if_pos (by decide)]; rfl
  · rw [if_neg (by decide), if_neg (by decide), if_pos (by decide)]; rfl
  · rw [if_neg (by decide), if_neg (by decide), if_pos (by decide)]; rfl
  · rw [if_neg (by decide), if_neg (by decide), if_pos (by decide)]; rfl

theorem primValue_roundtrip_bool_aux (ts : TypeSystem) (fuel : Nat) (b : Bool) :
    parsePrimValue ts (fuel + 1) "uima.cas.Boolean" (.str (showBool b)) = .ok (.bool b) := by
  unfold parsePrimValue
  simp only [parseBool_showBool']
  rw [if_neg (by decide), if_neg (by decide), if_neg (by decide), if_pos (by decide)]

theorem primValue_subtype_aux (ts : TypeSystem) (fuel : Nat) (ty sup : String) (v : Val)
    (hnp : ty ∉ ["uima.cas.String", "uima.cas.Float", "uima.cas.Double", "uima.cas.Integer", "uima.cas.Short",
                 "uima.cas.Long", "uima.cas.Byte", "uima.cas.Boolean"])
    (hv : v ≠ .none) (hs : superOf ts ty = some sup) :
    parsePrimValue ts (fuel + 1) ty v = parsePrimValue ts fuel sup v := by
  simp only [List.mem_cons, List.not_mem_nil, or_false, not_or] at hnp
  obtain ⟨h1, h2, h3, h4, h5, h6, h7, h8⟩ := hnp
  have e1 : (ty == "uima.cas.String") = false := beq_false_of_ne h1
  have e2 : (ty == "uima.cas.Float") = false := beq_false_of_ne h2
  have e3 : (ty == "uima.cas.Double") = false := beq_false_of_ne h3
  have e4 : (ty == "uima.cas.Integer") = false := beq_false_of_ne h4
  have e5 : (ty == "uima.cas.Short") = false := beq_false_of_ne h5
  have e6 : (ty == "uima.cas.Long") = false := beq_false_of_ne h6
  have e7 : (ty == "uima.cas.Byte") = false := beq_false_of_ne h7
  have e8 : (ty == "uima.cas.Boolean") = false := beq_false_of_ne h8
  cases v with
  | none => exact absurd rfl hv
  | _ =>
    simp only [parsePrimValue, e1, e2, e3, e4, e5, e6, e7, e8, Bool.or_false, Bool.false_eq_true, if_false, hs]


/-! ### sorting -/

theorem insertById_perm (p : Int × Nat) (l : List (Int × Nat)) : (insertById p l).Perm (p :: l) := by
  induction l with
  | nil => exact List.Perm.refl _
  | cons q qs ih =>
    unfold insertById
    split
    · exact List.Perm.refl _
    · exact ((List.Perm.cons q ih).trans (List.Perm.swap p q qs))

theorem sortById_perm_aux (l : List (Int × Nat)) : (sortById l).Perm l := by
  induction l with
  | nil => exact List.Perm.refl _
  | cons p l ih =>
    show (insertById p (sortById l)).Perm (p :: l)
    exact (insertById_perm p _).trans (List.Perm.cons p ih)

theorem insertById_sorted (p : Int × Nat) (l : List (Int × Nat))
    (h : l.Pairwise (fun p q => p.1 ≤ q.1)) : (insertById p l).Pairwise (fun p q => p.1 ≤ q.1) := by
  induction l with
  | nil => exact List.pairwise_singleton _ _
  | cons q qs ih =>
    unfold insertById
    have hq := List.pairwise_cons.mp h
    split
    · rename_i hle
      refine List.pairwise_cons.mpr ⟨?_, h⟩
      intro r hr
      rcases List.mem_cons.mp hr with rfl | hr
      · exact hle
      · exact Int.le_trans hle (hq.1 r hr)
    · rename_i hle
      refine List.pairwise_cons.mpr ⟨?_, ih hq.2⟩
      intro r hr
      have hr' := (insertById_perm p qs).mem_iff.mp hr
      rcases List.mem_cons.mp hr' with rfl | hr'
      · omega
      · exact hq.1 r hr'

theorem sortById_sorted_aux (l : List (Int × Nat)) : (sortById l).Pairwise (fun p q => p.1 ≤ q.1) := by
  induction l with
  | nil => exact List.Pairwise.nil
  | cons p l ih =>
    show (insertById p (sortById l)).Pairwise _
    exact insertById_sorted p _ ih


/-! ### sofa and view records -/

theorem sofa_roundtrip_aux (s : Sofa) :
    parseSofa (renderSofa s) = .ok { xid := s.xid, num := s.sofaNum, sofaID := s.sofaID, mime := s.mime,
                                     text := s.text.map (fun t => String.ofList (t.map Char.ofNat)) } := by
  obtain ⟨sid, num, xid, text, mime, uri, arr, conv⟩ := s
  cases mime <;> cases text <;>
    simp [parseSofa, renderSofa, attr, alistGet?, ID, parseIntE_showInt, bind, Except.bind, pure, Except.pure]

theorem view_roundtrip_aux (hp : Heap) (v : View) :
    parseView (renderView hp v) =
      .ok { sofa := v.sofa.xid, members := sortInts ((Index.all v.idx).filterMap (fun e => (hp[e.oid]?).bind (·.xid))) } := by
  simp [parseView, renderView, attr, alistGet?, parseIntE_showInt, parseInts_showInts_aux, bind, Except.bind, pure, Except.pure]


/-! ### the written document -/

theorem attr_id_head (ty : String) (v : String) (as : List (String × String)) (ks : List (String × Option String)) :
    attr { ty := ty, attrs := (ID, v) :: as, kids := ks } ID = some v := by
  simp only [attr, alistGet?, if_true]

theorem renderFs_id (K : Consts) (ts : TypeSystem) (cass : List Cas) (hp : Heap) (a : Nat) (e : XElem)
    (h : renderFs K ts cass hp a = .ok e) :
    ∃ o, hp[a]? = some o ∧ ∀ x, o.xid = some x → attr e ID = some (showInt x) := by
  unfold renderFs at h
  cases ho : hp[a]? with
  | none =>
    rw [ho] at h
    cases h
  | some o =>
    rw [ho] at h
    refine ⟨o, rfl, ?_⟩
    intro x hx
    simp only [bind, Except.bind, pure, Except.pure, throw, throwThe, MonadExceptOf.throw, hx] at h
    repeat' split at h
    all_goals first
      | (cases h; done)
      | (cases h; exact attr_id_head _ _ _ _)
      | trace_state


theorem renderAll_ids (K : Consts) (ts : TypeSystem) (cass : List Cas) (hp : Heap) (l : List (Int × Nat))
    (es : List XElem) (h : renderAll K ts cass hp l = .ok es)
    (hl : ∀ p ∈ l, Traverse.xidOf hp p.2 = some p.1) :
    es.map (fun e => attr e ID) = l.map (fun p => some (showInt p.1)) := by
  induction l generalizing es with
  | nil =>
    cases h
    rfl
  | cons p ps ih =>
    unfold renderAll at h
    cases h1 : renderFs K ts cass hp p.2 with
    | error err => rw [h1] at h; cases h
    | ok e =>
      cases h2 : renderAll K ts cass hp ps with
      | error err => rw [h1, h2] at h; cases h
      | ok es' =>
        rw [h1, h2] at h
        cases h
        obtain ⟨o, ho, hid⟩ := renderFs_id K ts cass hp p.2 e h1
        have hx := hl p List.mem_cons_self
        unfold Traverse.xidOf at hx
        rw [ho] at hx
        simp only [List.map_cons, hid p.1 hx, ih es' h2 (fun q hq => hl q (List.mem_cons_of_mem _ hq))]

theorem saveXmi_shape_aux (K : Consts) (ts : TypeSystem) (cass : List Cas) (ci : Nat) (hp : Heap) (doc : XDoc)
    (st : Traverse.St) (h : saveXmi K ts cass ci hp = .ok (doc, st)) :
    ∃ (c : Cas) (fsElems : List XElem), cass[ci]? = some c ∧
      doc = [{ ty := NULL_T, attrs := [(ID, "0")] }] ++ fsElems ++ c.views.map (fun p => renderSofa p.2.sofa) ++
            c.views.map (fun p => renderView st.heap p.2) ∧
      fsElems.map (fun e => attr e ID) = (sortById st.allFs).map (fun p => some (showInt p.1)) ∧
      ((sortById st.allFs).map (·.1)).Nodup := by
  unfold saveXmi at h
  cases hc : cass[ci]? with
  | none => rw [hc] at h; cases h
  | some c =>
    rw [hc] at h
    simp only [bind, Except.bind, pure, Except.pure] at h
    cases hst : Traverse.findAllFs K ts {} hp c.nextXid (Traverse.defaultSeeds c) with
    | error err => rw [hst] at h; cases h
    | ok st' =>
      rw [hst] at h
      simp only at h
      cases hr : renderAll K ts cass st'.heap (sortById st'.allFs) with
      | error err => rw [hr] at h; cases h
      | ok fsElems =>
        rw [hr] at h
        simp only at h
        cases h
        obtain ⟨inv, _⟩ := Traverse.findAllFs_inv K ts {} hp c.nextXid (Traverse.defaultSeeds c) st hst
        have hperm := sortById_perm_aux st.allFs
        refine ⟨c, fsElems, rfl, rfl, ?_, ?_⟩
        · apply renderAll_ids K ts cass st.heap _ _ hr
          intro p hp'
          exact inv.link p.1 p.2 (hperm.mem_iff.mp hp')
        · exact (hperm.map (·.1)).nodup_iff.mpr inv.nodupK

theorem saveXmi_ids_nodup_aux (K : Consts) (ts : TypeSystem) (cass : List Cas) (ci : Nat) (hp : Heap) (doc : XDoc)
    (st : Traverse.St) (h : saveXmi K ts cass ci hp = .ok (doc, st)) :
    ((sortById st.allFs).map (fun p => showInt p.1)).Nodup := by
  obtain ⟨_, _, _, _, _, hnd⟩ := saveXmi_shape_aux K ts cass ci hp doc st h
  have : (sortById st.allFs).map (fun p => showInt p.1) = ((sortById st.allFs).map (·.1)).map showInt := by
    rw [List.map_map]; rfl
  rw [this]
  exact List.Pairwise.map showInt (fun _ _ hne he => hne (showInt_injective he)) hnd

end Cassis.Xmi
