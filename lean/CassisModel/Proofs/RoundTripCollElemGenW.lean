import CassisModel.Proofs.RoundTripCollElemGenDefs
namespace Cassis.Xmi.CG1
open Cassis.TS Cassis.Traverse Cassis.Lex

theorem slot_eq {H : Heap} {a : Nat} {o : Obj} (ho : H[a]? = some o) (n : String) :
    slot H a n = alistGet? o.slots n := by
  unfold slot Traverse.slot; rw [ho]; rfl

theorem mapM_ok {α β ε : Type} (g : α → Except ε β) (h : α → β) :
    ∀ l : List α, (∀ x ∈ l, g x = .ok (h x)) → l.mapM g = .ok (l.map h)
  | [], _ => by rw [List.mapM_nil]; rfl
  | x :: xs, hx => by
    rw [List.mapM_cons, hx x List.mem_cons_self, mapM_ok g h xs (fun y hy => hx y (List.mem_cons_of_mem _ hy))]
    rfl

/-- the token the writer emits for a head of an FSList -/
def refTok (H : Heap) : Val → String
  | .ref b => idTok H b
  | _ => ""

theorem xidStr_idTok {H : Heap} {b : Nat} (h : RefOk H b) : xidStr H b = .ok (idTok H b) := by
  have hx := h.1
  unfold idTok
  unfold xidOf at hx ⊢
  unfold xidStr
  cases hb : H[b]? with
  | none => rw [hb] at hx; cases hx
  | some ob =>
    rw [hb] at hx
    simp only [Option.bind_some] at hx ⊢
    cases hxx : ob.xid with
    | none => rw [hxx] at hx
    | some x => rfl

theorem render_strarr_empty (K : Consts) (ts : TypeSystem) (cass : List Cas) (H : Heap) (a : Nat) (isAnn : Bool) (f : Feature)
    (o : Obj) (c : Nat) (ev : Val) (ho : H[a]? = some o) (nk : NameOk f)
    (hm : f.multi.getD false = false)
    (hv : alistGet? o.slots f.name = some (.ref c))
    (hsa : isInstanceOf ts f.range STRING_ARRAY = true)
    (hev : slot H c "elements" = some ev) (hemp : ev = .refs [] ∨ ev = .strs [])
    (hann : AnnSofa cass isAnn o) :
    renderFeature K ts cass H a isAnn f = .ok ([(xmlName f, "")], []) := by
  obtain ⟨hres, n1, n2, _, _, hns⟩ := nk
  have hs := slot_eq ho
  unfold renderFeature
  simp only [beq_iff_eq, Bool.or_eq_true, n1, n2, or_self, reduceCtorEq, if_false, hs, hv,
    Option.getD_some, xmlName_def, xmlName_begin f hres, xmlName_end f hres, xmlName_sofa f hres, hm, Bool.not_false, Bool.and_true, hsa, if_true]
  rcases hemp with rfl | rfl
  · flat_tail hann with (simp only [pure, Except.pure, bind, Except.bind, hev])
  · flat_tail hann with (simp only [pure, Except.pure, bind, Except.bind, hev])

theorem render_strarr_cons (K : Consts) (ts : TypeSystem) (cass : List Cas) (H : Heap) (a : Nat) (isAnn : Bool) (f : Feature)
    (o : Obj) (c : Nat) (l : List (Option String)) (ho : H[a]? = some o) (nk : NameOk f)
    (hm : f.multi.getD false = false)
    (hv : alistGet? o.slots f.name = some (.ref c))
    (hsa : isInstanceOf ts f.range STRING_ARRAY = true)
    (hev : slot H c "elements" = some (.strs l)) (hl : l ≠ [])
    (hann : AnnSofa cass isAnn o) :
    renderFeature K ts cass H a isAnn f = .ok ([], l.map (fun e => (xmlName f, normTxt e))) := by
  obtain ⟨hres, n1, n2, _, _, hns⟩ := nk
  have hs := slot_eq ho
  unfold renderFeature
  simp only [beq_iff_eq, Bool.or_eq_true, n1, n2, or_self, reduceCtorEq, if_false, hs, hv,
    Option.getD_some, xmlName_def, xmlName_begin f hres, xmlName_end f hres, xmlName_sofa f hres, hm, Bool.not_false, Bool.and_true, hsa, if_true]
  cases l with
  | nil => exact absurd rfl hl
  | cons x xs =>
    flat_tail hann with (simp only [pure, Except.pure, bind, Except.bind, hev])

theorem render_strlist (K : Consts) (ts : TypeSystem) (cass : List Cas) (H : Heap) (a : Nat) (isAnn : Bool) (f : Feature)
    (o : Obj) (c : Nat) (hs' : List Val)
    (ho : H[a]? = some o) (nk : NameOk f)
    (hm : f.multi.getD false = false)
    (hv : alistGet? o.slots f.name = some (.ref c))
    (hsa : isInstanceOf ts f.range STRING_ARRAY = false)
    (hsl : isInstanceOf ts f.range STRING_LIST = true)
    (hcl : collectList H (H.length + 1) (.ref c) = .ok hs')
    (hk : ∀ h ∈ hs', h = .none ∨ ∃ s : String, h = .str s)
    (hann : AnnSofa cass isAnn o) :
    renderFeature K ts cass H a isAnn f = .ok ([], hs'.map (fun h => (xmlName f, kidTxt h))) := by
  obtain ⟨hres, n1, n2, _, _, hns⟩ := nk
  have hs := slot_eq ho
  unfold renderFeature
  simp only [beq_iff_eq, Bool.or_eq_true, n1, n2, or_self, reduceCtorEq, Bool.false_eq_true, if_false, hs, hv,
    Option.getD_some, xmlName_def, xmlName_begin f hres, xmlName_end f hres, xmlName_sofa f hres, hm, Bool.not_false, Bool.and_true, hsa, hsl, if_true]
  flat_tail hann with (
    simp only [pure, Except.pure, bind, Except.bind, hcl]
    rw [mapM_ok _ (fun h => (xmlName f, kidTxt h)) hs' (by
      intro h hh
      rcases hk h hh with rfl | ⟨s, rfl⟩ <;> rfl)])

theorem render_primarr (K : Consts) (ts : TypeSystem) (cass : List Cas) (H : Heap) (a : Nat) (isAnn : Bool) (f : Feature)
    (o : Obj) (c : Nat) (ev : Val) (s : String) (ho : H[a]? = some o) (nk : NameOk f)
    (hm : f.multi.getD false = false)
    (hv : alistGet? o.slots f.name = some (.ref c))
    (hsa : isInstanceOf ts f.range STRING_ARRAY = false)
    (hsl : isInstanceOf ts f.range STRING_LIST = false)
    (hpa : isPrimitiveArray K f.range = true)
    (hev : slot H c "elements" = some ev) (hne : ev ≠ .none) (hsp : showPrimArray f.range ev = .ok s)
    (hann : AnnSofa cass isAnn o) :
    renderFeature K ts cass H a isAnn f = .ok ([(xmlName f, s)], []) := by
  obtain ⟨hres, n1, n2, _, _, hns⟩ := nk
  have hs := slot_eq ho
  unfold renderFeature
  simp only [beq_iff_eq, Bool.or_eq_true, n1, n2, or_self, reduceCtorEq, Bool.false_eq_true, if_false, hs, hv,
    Option.getD_some, xmlName_def, xmlName_begin f hres, xmlName_end f hres, xmlName_sofa f hres, hm, Bool.not_false, Bool.and_true, hsa, hsl, hpa, if_true]
  cases ev with
  | none => exact absurd rfl hne
  | _ => flat_tail hann with (simp only [pure, Except.pure, bind, Except.bind, hev, hsp])

theorem render_primlist (K : Consts) (ts : TypeSystem) (cass : List Cas) (H : Heap) (a : Nat) (isAnn : Bool) (f : Feature)
    (o : Obj) (c : Nat) (hs' : List Val) (toks : List String)
    (ho : H[a]? = some o) (nk : NameOk f)
    (hm : f.multi.getD false = false)
    (hv : alistGet? o.slots f.name = some (.ref c))
    (hsa : isInstanceOf ts f.range STRING_ARRAY = false)
    (hsl : isInstanceOf ts f.range STRING_LIST = false)
    (hpa : isPrimitiveArray K f.range = false)
    (hpl : isPrimitiveList K f.range = true)
    (hcl : collectList H (H.length + 1) (.ref c) = .ok hs')
    (hk : hs'.mapM showPrim = .ok toks)
    (hann : AnnSofa cass isAnn o) :
    renderFeature K ts cass H a isAnn f = .ok ([(xmlName f, joinSp toks)], []) := by
  obtain ⟨hres, n1, n2, _, _, hns⟩ := nk
  have hs := slot_eq ho
  unfold renderFeature
  simp only [beq_iff_eq, Bool.or_eq_true, n1, n2, or_self, reduceCtorEq, Bool.false_eq_true, if_false, hs, hv,
    Option.getD_some, xmlName_def, xmlName_begin f hres, xmlName_end f hres, xmlName_sofa f hres, hm, Bool.not_false, Bool.and_true, hsa, hsl, hpa, hpl, if_true]
  flat_tail hann with (simp only [pure, Except.pure, bind, Except.bind, hcl, hk])

theorem render_fsarr (K : Consts) (ts : TypeSystem) (cass : List Cas) (H : Heap) (a : Nat) (isAnn : Bool) (f : Feature)
    (o : Obj) (c : Nat) (l : List (Option Nat)) (ids : List String) (ho : H[a]? = some o) (nk : NameOk f)
    (hm : f.multi.getD false = false)
    (hv : alistGet? o.slots f.name = some (.ref c))
    (hsa : isInstanceOf ts f.range STRING_ARRAY = false)
    (hsl : isInstanceOf ts f.range STRING_LIST = false)
    (hpa : isPrimitiveArray K f.range = false)
    (hpl : isPrimitiveList K f.range = false)
    (hr : f.range = FS_ARRAY)
    (hev : slot H c "elements" = some (.refs l)) (hids : refIds H l = .ok ids)
    (hann : AnnSofa cass isAnn o) :
    renderFeature K ts cass H a isAnn f = .ok ([(xmlName f, joinSp ids)], []) := by
  obtain ⟨hres, n1, n2, _, _, hns⟩ := nk
  have hs := slot_eq ho
  have hfa : (f.range == FS_ARRAY) = true := by rw [hr]; rfl
  unfold renderFeature
  simp only [beq_iff_eq, Bool.or_eq_true, n1, n2, or_self, reduceCtorEq, Bool.false_eq_true, if_false, hs, hv,
    Option.getD_some, xmlName_def, xmlName_begin f hres, xmlName_end f hres, xmlName_sofa f hres, hm, Bool.not_false, Bool.and_true, hsa, hsl, hpa, hpl, hfa, if_true]
  flat_tail hann with (simp only [pure, Except.pure, bind, Except.bind, hev, hids])

theorem render_fslist (K : Consts) (ts : TypeSystem) (cass : List Cas) (H : Heap) (a : Nat) (isAnn : Bool) (f : Feature)
    (o : Obj) (c : Nat) (hs' : List Val)
    (ho : H[a]? = some o) (nk : NameOk f)
    (hm : f.multi.getD false = false)
    (hv : alistGet? o.slots f.name = some (.ref c))
    (hsa : isInstanceOf ts f.range STRING_ARRAY = false)
    (hsl : isInstanceOf ts f.range STRING_LIST = false)
    (hpa : isPrimitiveArray K f.range = false)
    (hpl : isPrimitiveList K f.range = false)
    (hr : f.range = FS_LIST)
    (hcl : collectList H (H.length + 1) (.ref c) = .ok hs')
    (hk : ∀ h ∈ hs', ∃ b : Nat, h = .ref b ∧ RefOk H b)
    (hann : AnnSofa cass isAnn o) :
    renderFeature K ts cass H a isAnn f = .ok ([(xmlName f, joinSp (hs'.map (refTok H)))], []) := by
  obtain ⟨hres, n1, n2, _, _, hns⟩ := nk
  have hs := slot_eq ho
  have hfa : (f.range == FS_ARRAY) = false := by rw [hr]; decide
  have hfl : (f.range == FS_LIST) = true := by rw [hr]; rfl
  unfold renderFeature
  simp only [beq_iff_eq, Bool.or_eq_true, n1, n2, or_self, reduceCtorEq, Bool.false_eq_true, if_false, hs, hv,
    Option.getD_some, xmlName_def, xmlName_begin f hres, xmlName_end f hres, xmlName_sofa f hres, hm, Bool.not_false, Bool.and_true, hsa, hsl, hpa, hpl, hfa, hfl, if_true]
  flat_tail hann with (
    simp only [pure, Except.pure, bind, Except.bind, hcl]
    rw [mapM_ok _ (refTok H) hs' (by
      intro h hh
      obtain ⟨b, rfl, hb⟩ := hk h hh
      exact xidStr_idTok hb)])

theorem render_shared_ref (K : Consts) (ts : TypeSystem) (cass : List Cas) (H : Heap) (a : Nat) (isAnn : Bool) (f : Feature)
    (o : Obj) (b : Nat) (ho : H[a]? = some o) (nk : NameOk f)
    (hm : f.multi = some true)
    (hv : alistGet? o.slots f.name = some (.ref b)) (hx : RefOk H b)
    (hp : isPrimitive K ts f.range = false)
    (hb : f.range ≠ "uima.cas.Boolean" ∧ f.range ≠ "uima.cas.Double" ∧ f.range ≠ "uima.cas.Float")
    (hann : AnnSofa cass isAnn o) :
    renderFeature K ts cass H a isAnn f = .ok ([(xmlName f, idTok H b)], []) := by
  obtain ⟨hres, n1, n2, _, _, hns⟩ := nk
  have hs := slot_eq ho
  have hxs := xidStr_idTok hx
  unfold renderFeature
  simp only [beq_iff_eq, Bool.or_eq_true, n1, n2, or_self, reduceCtorEq, Bool.false_eq_true, if_false, hs, hv,
    Option.getD_some, xmlName_def, xmlName_begin f hres, xmlName_end f hres, xmlName_sofa f hres, hm, Bool.not_true, Bool.and_false, hns, hb.1, hb.2.1, hb.2.2, hp]
  flat_tail hann with (simp only [pure, Except.pure, bind, Except.bind, hxs])


/-! ### small lemmas -/

theorem refIds_ok (H : Heap) : ∀ l : List Nat, (∀ b ∈ l, RefOk H b) →
    refIds H (l.map some) = .ok (l.map (idTok H))
  | [], _ => rfl
  | b :: l, h => by
    simp only [List.map_cons, refIds, xidStr_idTok (h b List.mem_cons_self),
      refIds_ok H l (fun y hy => h y (List.mem_cons_of_mem _ hy)), bind, Except.bind, pure, Except.pure]

/-- `str(head)` of a head of a primitive list -/
def primTok : Val → String
  | .int i => showInt i
  | .float t => t
  | _ => ""

theorem mapM_showPrim_int (hs : List Val) (h : ∀ x ∈ hs, ∃ i : Int, x = .int i) :
    hs.mapM showPrim = .ok (hs.map primTok) :=
  mapM_ok _ _ hs (by intro x hx; obtain ⟨i, rfl⟩ := h x hx; rfl)

theorem mapM_showPrim_float (hs : List Val) (h : ∀ x ∈ hs, ∃ t : String, x = .float t ∧ TokOk t) :
    hs.mapM showPrim = .ok (hs.map primTok) :=
  mapM_ok _ _ hs (by intro x hx; obtain ⟨t, rfl, _⟩ := h x hx; rfl)

theorem showPrimArray_ok {r : String} {ev : Val} (h : PrimElems r ev) :
    ev ≠ .none ∧ ∃ s : String, showPrimArray r ev = .ok s := by
  rcases h with rfl | ⟨_, l, rfl⟩ | ⟨_, l, rfl, _⟩ | ⟨_, l, rfl⟩ | ⟨_, l, rfl, _⟩
  · exact ⟨(by intro h; cases h), _, rfl⟩
  · refine ⟨(by intro h; cases h), ?_⟩
    unfold showPrimArray
    dsimp only
    split
    · exact ⟨_, rfl⟩
    · exact ⟨_, rfl⟩
  · refine ⟨(by intro h; cases h), ?_⟩
    unfold showPrimArray
    dsimp only
    split
    · exact ⟨_, rfl⟩
    · exact ⟨_, rfl⟩
  · exact ⟨(by intro h; cases h), _, rfl⟩
  · exact ⟨(by intro h; cases h), _, rfl⟩

theorem refs_heads (H : Heap) : ∀ hs : List Val, (∀ h ∈ hs, ∃ b : Nat, h = .ref b ∧ RefOk H b) →
    ∃ bs : List Nat, hs = bs.map Val.ref ∧ hs.map (refTok H) = bs.map (idTok H)
  | [], _ => ⟨[], rfl, rfl⟩
  | h :: hs, hh => by
    obtain ⟨b, rfl, _⟩ := hh h List.mem_cons_self
    obtain ⟨bs, h1, h2⟩ := refs_heads H hs (fun y hy => hh y (List.mem_cons_of_mem _ hy))
    refine ⟨b :: bs, ?_, ?_⟩
    · rw [h1]; rfl
    · rw [List.map_cons, h2]; rfl

theorem txtHead_kidTxt (h : Val) (hh : h = .none ∨ ∃ s : String, h = .str s) : txtHead (kidTxt h) = strHead h := by
  rcases hh with rfl | ⟨s, rfl⟩
  · rfl
  · unfold kidTxt normTxt strHead
    by_cases hs : s = ""
    · subst hs; rfl
    · have h1 : (some s == some "") = false := by simp [hs]
      have h2 : (s == "") = false := by simp [hs]
      simp only [h1, h2, Bool.false_eq_true, if_false]
      rfl

/-! ### the two statements -/

theorem render_shared : RenderSharedStmt := by
  intro K ts cass H a isAnn f o ho nk hsh hann
  obtain ⟨hm, _, hp, hb1, hb2, hb3, v, hv, hcase⟩ := hsh
  refine ⟨v, hv, ?_, ?_⟩
  · rcases hcase with h | ⟨b, h, _⟩
    · exact Or.inl h
    · exact Or.inr ⟨b, h⟩
  · rcases hcase with rfl | ⟨b, rfl, hx⟩
    · rw [renderFeature_none K ts cass H a isAnn f nk.2.1 nk.2.2.1 (by rw [slot_eq ho, hv]; rfl)]
      rfl
    · rw [render_shared_ref K ts cass H a isAnn f o b ho nk hm hv hx hp ⟨hb1, hb2, hb3⟩ hann]
      cases hxb : xidOf H b with
      | none => have := hx.1; rw [hxb] at this; cases this
      | some x =>
        unfold flatTok idTok featOut
        simp only [hxb]
        rfl

theorem render_inline : RenderInlineStmt := by
  intro K ts cass H a isAnn f o ho nk hin hann
  obtain ⟨hm, v, hv, hcase⟩ := hin
  have hnone : v = .none → ∃ (v : Val) (av : Option String) (ks : List (Option String)),
      alistGet? o.slots f.name = some v ∧
      renderFeature K ts cass H a isAnn f = .ok (featOut f av ks) ∧ InlW K H f v av ks := by
    intro h; subst h
    refine ⟨.none, none, [], hv, ?_, Or.inl ⟨rfl, rfl, rfl⟩⟩
    rw [renderFeature_none K ts cass H a isAnn f nk.2.1 nk.2.2.1 (by rw [slot_eq ho, hv]; rfl)]
    rfl
  rcases hcase with ⟨hty, rk, hi⟩ | ⟨hr, rk, hi⟩ | ⟨hr, rk, hi⟩ | ⟨hr, rk, hi⟩ | ⟨hr, rk, hi⟩ | ⟨hr, rk, hi⟩ |
    ⟨hr, rk, hi⟩
  · -- primitive arrays
    rcases hi with h | ⟨c, ev, rfl, hev, hP⟩
    · exact hnone h
    · obtain ⟨hne, s, hsp⟩ := showPrimArray_ok hP
      refine ⟨.ref c, some s, [], hv, ?_, Or.inr ⟨c, rfl, Or.inl ⟨s, rfl, rfl, fun hpX =>
        Or.inl ⟨hty, ev, s, hev, hsp, rfl⟩⟩⟩⟩
      exact render_primarr K ts cass H a isAnn f o c ev s ho nk hm hv rk.strArr rk.strList rk.primArr hev hne hsp hann
  · -- StringArray
    rcases hi with h | ⟨c, ev, rfl, hev, hP⟩
    · exact hnone h
    · have hempty : (ev = .refs [] ∨ ev = .strs []) → ∃ (v : Val) (av : Option String) (ks : List (Option String)),
          alistGet? o.slots f.name = some v ∧
          renderFeature K ts cass H a isAnn f = .ok (featOut f av ks) ∧ InlW K H f v av ks := by
        intro hemp
        refine ⟨.ref c, some "", [], hv, ?_, Or.inr ⟨c, rfl, Or.inl ⟨"", rfl, rfl, fun hpX =>
          Or.inr (Or.inl ⟨hr, ev, hev, Or.inl ⟨hemp, rfl⟩⟩)⟩⟩⟩
        exact render_strarr_empty K ts cass H a isAnn f o c ev ho nk hm hv rk.strArr hev hemp hann
      rcases hP with h | ⟨l, rfl⟩
      · exact hempty (Or.inl h)
      · by_cases hl : l = []
        · subst hl; exact hempty (Or.inr rfl)
        · have hks : l.map normTxt ≠ [] := by
            intro h; exact hl (List.map_eq_nil_iff.mp h)
          refine ⟨.ref c, none, l.map normTxt, hv, ?_, Or.inr ⟨c, rfl, Or.inr (Or.inl
            ⟨rfl, hks, hr, rk.primArr, l, hev, hl, rfl⟩)⟩⟩
          rw [render_strarr_cons K ts cass H a isAnn f o c l ho nk hm hv rk.strArr hev hl hann]
          unfold featOut
          rw [List.map_map]
          rfl
  · -- FSArray
    rcases hi with h | ⟨c, ev, rfl, hev, hP⟩
    · exact hnone h
    · obtain ⟨l, rfl, hl⟩ := hP
      refine ⟨.ref c, some (joinSp (l.map (idTok H))), [], hv, ?_, Or.inr ⟨c, rfl, Or.inl ⟨_, rfl, rfl, fun hpX =>
        Or.inr (Or.inr (Or.inl ⟨hr, l, hev, rfl⟩))⟩⟩⟩
      exact render_fsarr K ts cass H a isAnn f o c _ _ ho nk hm hv rk.strArr rk.strList rk.primArr rk.primList hr hev
        (refIds_ok H l hl) hann
  · -- IntegerList
    rcases hi with h | ⟨c, hs, rfl, hcl, hP⟩
    · exact hnone h
    · have hk := mapM_showPrim_int hs hP
      refine ⟨.ref c, some (joinSp (hs.map primTok)), [], hv, ?_, Or.inr ⟨c, rfl, Or.inl ⟨_, rfl, rfl, fun hpX =>
        Or.inr (Or.inr (Or.inr (Or.inl ⟨Or.inl hr, hs, _, hcl, hk, rfl⟩)))⟩⟩⟩
      exact render_primlist K ts cass H a isAnn f o c hs _ ho nk hm hv rk.strArr rk.strList rk.primArr rk.primList
        hcl hk hann
  · -- FloatList
    rcases hi with h | ⟨c, hs, rfl, hcl, hP⟩
    · exact hnone h
    · have hk := mapM_showPrim_float hs hP
      refine ⟨.ref c, some (joinSp (hs.map primTok)), [], hv, ?_, Or.inr ⟨c, rfl, Or.inl ⟨_, rfl, rfl, fun hpX =>
        Or.inr (Or.inr (Or.inr (Or.inl ⟨Or.inr hr, hs, _, hcl, hk, rfl⟩)))⟩⟩⟩
      exact render_primlist K ts cass H a isAnn f o c hs _ ho nk hm hv rk.strArr rk.strList rk.primArr rk.primList
        hcl hk hann
  · -- StringList
    rcases hi with h | ⟨c, hs, rfl, hcl, hne, hP⟩
    · exact hnone h
    · have hks : hs.map kidTxt ≠ [] := by
        intro h; exact hne (List.map_eq_nil_iff.mp h)
      have hth : (hs.map kidTxt).map txtHead = hs.map strHead := by
        rw [List.map_map]
        exact List.map_congr_left (fun h hh => txtHead_kidTxt h (hP h hh))
      refine ⟨.ref c, none, hs.map kidTxt, hv, ?_, Or.inr ⟨c, rfl, Or.inr (Or.inr
        ⟨rfl, hks, hr, rk.primArr, rk.primList, hs, hcl, hne, rfl, hth⟩)⟩⟩
      rw [render_strlist K ts cass H a isAnn f o c hs ho nk hm hv rk.strArr rk.strList hcl hP hann]
      unfold featOut
      rw [List.map_map]
      rfl
  · -- FSList
    rcases hi with h | ⟨c, hs, rfl, hcl, hP⟩
    · exact hnone h
    · obtain ⟨bs, hbs, htok⟩ := refs_heads H hs hP
      refine ⟨.ref c, some (joinSp (bs.map (idTok H))), [], hv, ?_, Or.inr ⟨c, rfl, Or.inl ⟨_, rfl, rfl, fun hpX =>
        Or.inr (Or.inr (Or.inr (Or.inr (Or.inr ⟨hr, bs, hbs ▸ hcl, rfl⟩))))⟩⟩⟩
      rw [← htok]
      exact render_fslist K ts cass H a isAnn f o c hs ho nk hm hv rk.strArr rk.strList rk.primArr rk.primList hr
        hcl hP hann

end Cassis.Xmi.CG1
