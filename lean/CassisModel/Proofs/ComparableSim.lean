/-
C20 across two heaps: a *simulation* between the array objects of two heaps gives equal cells, whatever the nesting —
also a cyclic one, where both sides exhaust their budgets.

`ValRel` (`Spec/ComparableIso.lean`) relates values to a finite depth; here the relation on addresses `AR` is arbitrary
and only has to be closed under one step (`SimStep`): related addresses are both rendered by anchor (and the two anchor
maps answer alike) or are both array objects whose `elements` are related again (`VRof AR`).  The two budgets differ
(`2 * |heap| + 2` each); `renderVal_saturated` (`Proofs/ComparableFuel.lean`) makes them comparable: every approximation
of one side is below the limit of the other (`sim_le`), hence the limits agree (`sim_eq`).
-/
import CassisModel.Proofs.ComparableFuel

namespace Cassis.Comparable
open Cassis.TS Cassis.Traverse

/-- related values, one level: equal plain cells, two empty lists, related references, related reference lists -/
def VRof (AR : Nat → Nat → Prop) (v v' : Val) : Prop :=
  SameCell v v' ∨ (EmptyList v ∧ EmptyList v') ∨ (∃ a a', v = .ref a ∧ v' = .ref a' ∧ AR a a') ∨
  (∃ l l', v = .refs l ∧ v' = .refs l' ∧ RefsRel AR l l')

/-- `AR` is closed under one step of `_render_feature_value` -/
def SimStep (K : Consts) (hp hp' : Heap) (byId byId' : List (Option Int × String)) (AR : Nat → Nat → Prop) : Prop :=
  ∀ a a', AR a a' →
    (isArrayFs K hp a = false ∧ isArrayFs K hp' a' = false ∧
      getById byId' (xidOf hp' a') = getById byId (xidOf hp a)) ∨
    (isArrayFs K hp a = true ∧ isArrayFs K hp' a' = true ∧
      ElemRel (VRof AR) (slot hp a "elements") (slot hp' a' "elements"))

/-- `r` is exhausted, or is `r'` -/
def Le {α : Type} (r r' : Except Err α) : Prop := r = .error .runtimeError ∨ r = r'

theorem Le.antisymm {α : Type} {r r' : Except Err α} (h1 : Le r r') (h2 : Le r' r) : r = r' := by
  rcases h1 with h1 | h1
  · rcases h2 with h2 | h2
    · rw [h1, h2]
    · exact h2.symm
  · exact h1

theorem mapM_elemCell_le (K : Consts) (hp hp' : Heap) (byId byId' : List (Option Int × String)) (f f' : Nat)
    (R : Nat → Nat → Prop)
    (hR : ∀ a a', R a a' → Le (renderVal K hp byId f (.ref a)) (renderVal K hp' byId' f' (.ref a'))) :
    ∀ (l l' : List (Option Nat)), RefsRel R l l' →
      Le (l.mapM (elemCell K hp byId f)) (l'.mapM (elemCell K hp' byId' f'))
  | [], [], _ => Or.inr rfl
  | [], _ :: _, h => h.elim
  | none :: l, [], h => h.elim
  | some _ :: l, [], h => h.elim
  | none :: l, some _ :: l', h => h.elim
  | some _ :: l, none :: l', h => h.elim
  | none :: l, none :: l', h => by
    rw [List.mapM_cons, List.mapM_cons]
    rcases mapM_elemCell_le K hp hp' byId byId' f f' R hR l l' h with ih | ih
    · left; rw [ih]; rfl
    · right; rw [ih]; rfl
  | some a :: l, some a' :: l', h => by
    rw [List.mapM_cons, List.mapM_cons]
    show Le (do let b ← renderVal K hp byId f (.ref a); _) (do let b ← renderVal K hp' byId' f' (.ref a'); _)
    rcases hR a a' h.1 with h1 | h1
    · left; rw [h1]; rfl
    · rw [h1]
      cases renderVal K hp' byId' f' (.ref a') with
      | error e => right; rfl
      | ok c =>
        rcases mapM_elemCell_le K hp hp' byId byId' f f' R hR l l' h.2 with ih | ih
        · left; rw [ih]; rfl
        · right; rw [ih]

theorem Le.map {α β : Type} (g : α → β) {r r' : Except Err α} (h : Le r r') : Le (r.map g) (r'.map g) := by
  rcases h with h | h
  · left; rw [h]; rfl
  · right; rw [h]

/-- every approximation of the left side is below the right side at a saturated budget -/
theorem sim_le (K : Consts) (hp hp' : Heap) (byId byId' : List (Option Int × String)) (AR : Nat → Nat → Prop)
    (hsim : SimStep K hp hp' byId byId' AR) (F' : Nat) (hF' : 2 * hp'.length + 2 ≤ F') :
    ∀ (f : Nat) (v v' : Val), VRof AR v v' → Le (renderVal K hp byId f v) (renderVal K hp' byId' F' v') := by
  obtain ⟨d, rfl⟩ : ∃ d, F' = 2 * hp'.length + 2 + d := ⟨F' - (2 * hp'.length + 2), by omega⟩
  have hst : ∀ v, renderVal K hp' byId' (2 * hp'.length + 2 + d) v = renderVal K hp' byId' (2 * hp'.length + 2 + d + 1) v :=
    stable_ge K hp' byId' d
  generalize 2 * hp'.length + 2 + d = G at hst hF'
  obtain ⟨g', rfl⟩ : ∃ g', G = g' + 1 := ⟨G - 1, by omega⟩
  intro f
  induction f with
  | zero =>
    intro v v' h
    rcases h with h | ⟨h1, h2⟩ | ⟨a, a', rfl, rfl, _⟩ | ⟨l, l', rfl, rfl, _⟩
    · right; exact (renderVal_sameCell K hp hp' byId byId' _ _ h).symm
    · rw [renderVal_emptyList K hp' byId' g' h2]
      rcases h1 with h | h | h | h | h <;> subst h
      · left; rfl
      all_goals (right; rfl)
    · left; rfl
    · left; rfl
  | succ f ih =>
    intro v v' h
    rcases h with h | ⟨h1, h2⟩ | ⟨a, a', rfl, rfl, hr⟩ | ⟨l, l', rfl, rfl, hl⟩
    · right; exact (renderVal_sameCell K hp hp' byId byId' _ _ h).symm
    · right; rw [renderVal_emptyList K hp byId f h1, renderVal_emptyList K hp' byId' g' h2]
    · rcases hsim a a' hr with ⟨h1, h2, hk⟩ | ⟨h1, h2, he⟩
      · right; rw [renderVal_ref_fs K hp byId f h1, renderVal_ref_fs K hp' byId' g' h2, hk]
      · rw [hst]
        rcases he with ⟨e1, e2⟩ | ⟨e1, e2⟩ | ⟨w, w', e1, e2, n1, n2, hw⟩
        · right; rw [renderVal_ref_arr_noslot K hp byId f h1 e1, renderVal_ref_arr_noslot K hp' byId' _ h2 e2]
        · right; rw [renderVal_ref_arr_none K hp byId f h1 e1, renderVal_ref_arr_none K hp' byId' _ h2 e2]
        · rw [renderVal_ref_arr K hp byId f h1 e1 n1, renderVal_ref_arr K hp' byId' _ h2 e2 n2]
          exact ih w w' hw
    · rw [hst, renderVal_refs, renderVal_refs]
      apply Le.map
      exact mapM_elemCell_le K hp hp' byId byId' f (g' + 1) AR
        (fun a a' hr => ih (.ref a) (.ref a') (Or.inr (Or.inr (Or.inl ⟨a, a', rfl, rfl, hr⟩)))) l l' hl

/-! ### the converse relation -/

theorem SameCell.symm {v v' : Val} (h : SameCell v v') : SameCell v' v := by
  obtain ⟨c, h1, h2⟩ := h; exact ⟨c, h2, h1⟩

theorem RefsRel.flip {R : Nat → Nat → Prop} : ∀ {l l' : List (Option Nat)}, RefsRel R l l' →
    RefsRel (fun a' a => R a a') l' l
  | [], [], _ => trivial
  | [], _ :: _, h => h.elim
  | none :: _, [], h => h.elim
  | some _ :: _, [], h => h.elim
  | none :: _, some _ :: _, h => h.elim
  | some _ :: _, none :: _, h => h.elim
  | none :: l, none :: l', h => RefsRel.flip (l := l) (l' := l') h
  | some _ :: l, some _ :: l', h => ⟨h.1, RefsRel.flip (l := l) (l' := l') h.2⟩

theorem VRof.flip {AR : Nat → Nat → Prop} {v v' : Val} (h : VRof AR v v') : VRof (fun a' a => AR a a') v' v := by
  rcases h with h | ⟨h1, h2⟩ | ⟨a, a', rfl, rfl, hr⟩ | ⟨l, l', rfl, rfl, hl⟩
  · exact Or.inl h.symm
  · exact Or.inr (Or.inl ⟨h2, h1⟩)
  · exact Or.inr (Or.inr (Or.inl ⟨a', a, rfl, rfl, hr⟩))
  · exact Or.inr (Or.inr (Or.inr ⟨l', l, rfl, rfl, hl.flip⟩))

theorem SimStep.flip {K : Consts} {hp hp' : Heap} {byId byId' : List (Option Int × String)} {AR : Nat → Nat → Prop}
    (h : SimStep K hp hp' byId byId' AR) : SimStep K hp' hp byId' byId (fun a' a => AR a a') := by
  intro a' a hr
  rcases h a a' hr with ⟨h1, h2, hk⟩ | ⟨h1, h2, he⟩
  · exact Or.inl ⟨h2, h1, hk.symm⟩
  · refine Or.inr ⟨h2, h1, ?_⟩
    rcases he with ⟨e1, e2⟩ | ⟨e1, e2⟩ | ⟨w, w', e1, e2, n1, n2, hw⟩
    · exact Or.inl ⟨e2, e1⟩
    · exact Or.inr (Or.inl ⟨e2, e1⟩)
    · exact Or.inr (Or.inr ⟨w', w, e2, e1, n2, n1, hw.flip⟩)

/-- **related values are rendered alike by the two sides, each with its own budget** -/
theorem sim_eq (K : Consts) (hp hp' : Heap) (byId byId' : List (Option Int × String)) (AR : Nat → Nat → Prop)
    (hsim : SimStep K hp hp' byId byId' AR) {v v' : Val} (h : VRof AR v v') :
    renderVal K hp' byId' (2 * hp'.length + 2) v' = renderVal K hp byId (2 * hp.length + 2) v := by
  have h1 := sim_le K hp hp' byId byId' AR hsim (2 * hp'.length + 2) (Nat.le_refl _) (2 * hp.length + 2) v v' h
  have h2 := sim_le K hp' hp byId' byId _ hsim.flip (2 * hp.length + 2) (Nat.le_refl _) (2 * hp'.length + 2) v' v h.flip
  exact Le.antisymm h2 h1

end Cassis.Comparable
