/-
Shared definitions of the proof of the JSON round trip with collections (`Properties/C02RoundTripColl.lean`) and the
statements of its layers (`…Stmt`; each layer proves one of them, `Proofs/RoundTripJsonCollCore.lean` assembles them).

They extend the definitions of the flat proof (`RoundTripJsonDefs.lean`, `RoundTripJsonParse2.lean`,
`RoundTripJsonPass.lean`; notation `H`, `L`, `naOf H L`, `ci'` as there).  Every collection object is a structure of its
own in JSON, so the only new kind of object is the array object: its `elements` slot holds a raw list, which the reader
restores at once (primitive arrays) or through a deferred entry (`elems`) resolved by `fixUps` (FSArray).
-/
import CassisModel.Spec.RoundTripJsonCollFrag
import CassisModel.Proofs.RoundTripJsonCore

namespace Cassis.Json
open Cassis.TS Cassis.Traverse Cassis.Lex Cassis.Xmi Cassis.Xmi.RTB

/-! ### values -/

/-- the new `elements` for old `elements`: references at their new addresses (null stays null), an empty list of
    any kind comes back as the empty list of references (Python's `[]`) -/
def elemsExpJ (H : Heap) (na : Int → Nat) : Val → Val
  | .refs l => .refs (l.map (fun r => r.bind (fun b => (xidOf H b).map na)))
  | .ints l => if l.isEmpty then .refs [] else .ints l
  | .bools l => if l.isEmpty then .refs [] else .bools l
  | .floats l => if l.isEmpty then .refs [] else .floats l
  | .strs l => if l.isEmpty then .refs [] else .strs l
  | _ => .none

/-- slot value after the reader is done: `exp3` of the flat proof, and raw element lists -/
def exp3J (H : Heap) (na : Int → Nat) (ci' : Nat) (v : Val) : Val :=
  match v with
  | .refs _ | .ints _ | .floats _ | .bools _ | .strs _ => elemsExpJ H na v
  | _ => exp3 H na ci' v

def E3J (H : Heap) (na : Int → Nat) (ci' : Nat) (_o : Obj) : String → Val → Val :=
  fun _ v => exp3J H na ci' v

/-- a value that is not a raw element list -/
def plainV : Val → Bool
  | .refs _ | .ints _ | .floats _ | .bools _ | .strs _ => false
  | _ => true

theorem exp3J_plain (H : Heap) (na : Int → Nat) (ci' : Nat) (v : Val) (h : plainV v = true) :
    exp3J H na ci' v = exp3 H na ci' v := by
  cases v <;> first | rfl | cases h

/-! ### the state of the second pass -/

/-- the deferred entry the reader makes for the elements `l` of the FSArray at `addr` -/
def elemsDef (H : Heap) (addr : Nat) (l : List (Option Nat)) : Deferred :=
  { addr := addr, slot := "elements", target := none, elems := some (l.map (refOf H)) }

/-- the slot `n` (old value `v`) waits for a deferred reference or for the deferred elements -/
def PendJ (H : Heap) (addr : Nat) (ds : List Deferred) (n : String) (v : Val) : Prop :=
  Pend H addr ds n v ∨ ∃ l : List (Option Nat), v = .refs l ∧ n = "elements" ∧ elemsDef H addr l ∈ ds

/-- the new object `o'` at `addr` stands for `o`: every slot holds its final value or waits for a deferred entry -/
def ObjPendJ (H : Heap) (na : Int → Nat) (ci' : Nat) (addr : Nat) (ds : List Deferred) (o o' : Obj) (x : Int) : Prop :=
  o'.ty = o.ty ∧ o'.xid = some x ∧ o'.slots.map (·.1) = o.slots.map (·.1) ∧
  ∀ n v, alistGet? o.slots n = some v → alistGet? o'.slots n = some (exp3J H na ci' v) ∨ PendJ H addr ds n v

/-- a deferred entry of the object at `addr` that stands for `o` -/
def DefOkJ (H : Heap) (addr : Nat) (o : Obj) (d : Deferred) : Prop :=
  DefOk H addr o d ∨ ∃ l : List (Option Nat), d = elemsDef H addr l ∧ alistGet? o.slots "elements" = some (.refs l)

theorem ObjPendJ.mono {H : Heap} {na : Int → Nat} {ci' addr : Nat} {ds ds' : List Deferred} {o o' : Obj} {x : Int}
    (h : ObjPendJ H na ci' addr ds o o' x) (hs : ∀ d ∈ ds, d ∈ ds') : ObjPendJ H na ci' addr ds' o o' x := by
  obtain ⟨h1, h2, h3, h4⟩ := h
  refine ⟨h1, h2, h3, fun n v hv => ?_⟩
  rcases h4 n v hv with h | ⟨b, y, e1, e2, e3⟩ | ⟨l, e1, e2, e3⟩
  · exact Or.inl h
  · exact Or.inr (Or.inl ⟨b, y, e1, e2, hs _ e3⟩)
  · exact Or.inr (Or.inr ⟨l, e1, e2, hs _ e3⟩)

/-! ### the collected structures -/

/-- closure of the collected structures under the elements of FSArrays -/
def ClosedE (H : Heap) (L : List (Int × Nat)) : Prop :=
  ∀ q ∈ L, ∀ (o : Obj), H[q.2]? = some o → ∀ l : List (Option Nat), alistGet? o.slots "elements" = some (.refs l) →
    ∀ b : Nat, some b ∈ l → ∃ x : Int, xidOf H b = some x ∧ (x, b) ∈ L

/-- what the proof needs to know about the collected structures (cf. `LOk`) -/
structure LOkJ (K : Consts) (ts : TypeSystem) (c : Cas) (ci : Nat) (H : Heap) (L : List (Int × Nat)) : Prop where
  coll : ∀ q ∈ L, JCollFs K ts c ci H q.2
  ids : ∀ q ∈ L, xidOf H q.2 = some q.1 ∧ q.1 ≠ 0
  nodup : (L.map (·.1)).Nodup
  closed : ClosedL H L
  closedE : ClosedE H L
  /-- every indexed structure is collected -/
  members : ∀ nv ∈ c.views, ∀ e ∈ Index.all nv.2.idx, ∃ x : Int, (x, e.oid) ∈ L

/-- what is fixed during the second pass (cf. `GCtx`) -/
structure GCtxJ (K : Consts) (ts : TypeSystem) (cass : List Cas) (c : Cas) (ci : Nat) (hp H : Heap)
    (L : List (Int × Nat)) : Prop where
  hc : cass[ci]? = some c
  wf : RTWf c hp
  lok : LOkJ K ts c ci H L
  dis : ∀ q ∈ L, ∀ nv ∈ c.views, q.1 ≠ nv.2.sofa.xid

/-! ### the written document -/

/-- `%ELEMENTS` of the array object `o` -/
def arrElemsJ (H : Heap) (o : Obj) : Option JV :=
  match arrayElements H o.ty (alistGet? o.slots "elements") with
  | .ok el => el
  | .error _ => none

/-- the element written for an array object -/
def arrJFs (H : Heap) (x : Int) (o : Obj) : JFs := { id := some x, ty := o.ty, elements := arrElemsJ H o }

/-- the element written for the collected structure `q` -/
def elemOfJ (K : Consts) (ts : TypeSystem) (cass : List Cas) (H : Heap) (q : Int × Nat) : JFs :=
  match H[q.2]? with
  | some o =>
    if isPrimitiveArray K o.ty || o.ty == FS_ARRAY then arrJFs H q.1 o
    else
      match find? ts o.ty with
      | some t => flatJFs ts cass H q.1 o t
      | none => default
  | none => default

/-- the state of the second pass after the structures `L1` (cf. `FInv`) -/
structure FInvJ (c : Cas) (H : Heap) (L : List (Int × Nat)) (ci' : Nat) (cas1 : Cas) (m0 m1 : Int)
    (L1 : List (Int × Nat)) (s : RState) : Prop where
  cas : s.cas = cas1
  num : s.maxNum = m0
  len : s.heap.length = H.length + L1.length
  fss : s.fss = sofaEntries ci' c.views ++ fsEntries (naOf H L) L1
  maxId : m1 ≤ s.maxId ∧ ∀ q ∈ L1, q.1 ≤ s.maxId
  rel : ∀ q ∈ L1, ∃ o o', H[q.2]? = some o ∧ s.heap[naOf H L q.1]? = some o' ∧
    ObjPendJ H (naOf H L) ci' (naOf H L q.1) s.deferred o o' q.1
  defs : ∀ d ∈ s.deferred, ∃ q ∈ L1, ∃ o, H[q.2]? = some o ∧ DefOkJ H (naOf H L q.1) o d

/-- every structure has its counterpart, whose slots are final or wait for one of the deferred entries `ds` -/
def PRelJ (H : Heap) (L : List (Int × Nat)) (ci' : Nat) (heap : Heap) (ds : List Deferred) : Prop :=
  ∀ q ∈ L, ∃ o o', H[q.2]? = some o ∧ heap[naOf H L q.1]? = some o' ∧
    ObjPendJ H (naOf H L) ci' (naOf H L q.1) ds o o' q.1

def DefCJ (H : Heap) (L : List (Int × Nat)) (d : Deferred) : Prop :=
  ∃ q ∈ L, ∃ o, H[q.2]? = some o ∧ DefOkJ H (naOf H L q.1) o d

/-! ## The statements of the layers -/

/-- **T** traversal: what `findAllFs` with `includeInlinable := true` guarantees (cf. `lok_of_findAllFs`) -/
def TravStmt : Prop :=
  ∀ (K : Consts) (ts : TypeSystem) (ci : Nat) (c : Cas) (hp : Heap) (st : St), RTWf c hp →
    findAllFs K ts { includeInlinable := true } hp c.nextXid (defaultSeeds c) = .ok st →
    (∀ q ∈ st.allFs, JCollFs K ts c ci st.heap q.2) →
    LOkJ K ts c ci st.heap (sortById st.allFs)

/-- **W** writer: what `renderFs` returns for a collected structure, when it succeeds -/
def WriterStmt : Prop :=
  ∀ (K : Consts) (ts : TypeSystem) (cass : List Cas) (c : Cas) (ci : Nat) (hp H : Heap) (L : List (Int × Nat)),
    GCtxJ K ts cass c ci hp H L → ∀ q ∈ L, ∀ e : JFs, renderFs K ts cass H q.2 = .ok e →
      e = elemOfJ K ts cass H q

/-- **PG** `parseFs` on the element of a general structure (cf. `parseFs_flat`) -/
def ParseGenStmt : Prop :=
  ∀ (K : Consts) (ts : TypeSystem) (cass : List Cas) (c : Cas) (ci : Nat) (H : Heap) (L : List (Int × Nat))
    (na : Int → Nat) (ci' : Nat) (fss : List (Int × Val)) (cas' : Cas) (tsIdx : Nat),
    PCtx cass c ci H L na ci' fss cas' → ∀ (s : RState), s.fss = fss → s.cas = cas' →
    ∀ q ∈ L, ∀ (o : Obj) (t : TypeRec), H[q.2]? = some o → find? ts o.ty = some t →
    JGenFs K ts c ci H q.2 → JsonFs ts H q.2 →
    ∃ (o' : Obj) (ds : List Deferred),
      parseFs K ts tsIdx s (flatJFs ts cass H q.1 o t) =
        .ok { s with heap := s.heap ++ [o'], fss := setFs s.fss q.1 (.ref s.heap.length),
                     deferred := s.deferred ++ ds, maxId := max s.maxId q.1 } ∧
      ObjPend H na ci' s.heap.length ds o o' q.1 ∧ (∀ d ∈ ds, DefOk H s.heap.length o d)

/-- **PA** `parseFs` on the element of an array object -/
def ParseArrStmt : Prop :=
  ∀ (K : Consts) (ts : TypeSystem) (H : Heap) (na : Int → Nat) (ci' : Nat) (tsIdx : Nat) (s : RState)
    (x : Int) (a : Nat) (o : Obj), H[a]? = some o → JArrFs K ts H a → JsonFs ts H a →
    ∃ (o' : Obj) (ds : List Deferred),
      parseFs K ts tsIdx s (arrJFs H x o) =
        .ok { s with heap := s.heap ++ [o'], fss := setFs s.fss x (.ref s.heap.length),
                     deferred := s.deferred ++ ds, maxId := max s.maxId x } ∧
      ObjPendJ H na ci' s.heap.length ds o o' x ∧ (∀ d ∈ ds, DefOkJ H s.heap.length o d)

/-- **FP** the second pass over the written structures (cf. `fsPass_flat`) -/
def FsPassStmt : Prop :=
  ∀ (K : Consts) (ts : TypeSystem) (cass : List Cas) (c : Cas) (ci : Nat) (hp H : Heap) (L : List (Int × Nat)),
    GCtxJ K ts cass c ci hp H L → ∀ (tsIdx ci' : Nat) (cas1 : Cas), cas1.views = bareViews c.views →
    ∀ (m0 m1 : Int) (L2 L1 : List (Int × Nat)) (s : RState), L = L1 ++ L2 → FInvJ c H L ci' cas1 m0 m1 L1 s →
      ∃ s', fsPass K ts tsIdx (L2.map (elemOfJ K ts cass H)) s = .ok s' ∧ FInvJ c H L ci' cas1 m0 m1 L s'

/-- **FX** the deferred references and FSArray elements (cf. `fixUps_flat`) -/
def FixUpsStmt : Prop :=
  ∀ (K : Consts) (ts : TypeSystem) (cass : List Cas) (c : Cas) (ci : Nat) (hp H : Heap) (L : List (Int × Nat)),
    GCtxJ K ts cass c ci hp H L → ∀ (ci' : Nat) (fssF : List (Int × Val)),
    (∀ q ∈ L, lookup fssF q.1 = some (.ref (naOf H L q.1))) →
    ∀ (ds : List Deferred) (heap : Heap), (∀ d ∈ ds, DefCJ H L d) → PRelJ H L ci' heap ds →
      ∃ heap', fixUps fssF ds heap = .ok heap' ∧ HeapRel H L (naOf H L) (E3J H (naOf H L) ci') heap'

/-- **V** the views pass (cf. `viewsPass_flat`) -/
def ViewsStmt : Prop :=
  ∀ (K : Consts) (ts : TypeSystem) (c : Cas) (ci : Nat) (H : Heap) (L : List (Int × Nat)) (na : Int → Nat) (ci' : Nat),
    (∀ nv ∈ c.views, nv.2.sofa.sofaID = nv.1) → (c.views.map (·.1)).Nodup →
    LOkJ K ts c ci H L →
    (∀ nv ∈ c.views, ∀ e ∈ Index.all nv.2.idx, Xmi.slot H e.oid "sofa" ≠ some .none) →
    MembersOk c H →
    ∀ (HF : Heap), HeapRel H L na (E3J H na ci') HF →
    ∀ (fss : List (Int × Val)), (∀ q ∈ L, lookup fss q.1 = some (.ref (na q.1))) →
    ∀ (c0 : Cas), c0.views = bareViews c.views →
    ∃ v : VState,
      viewsPass ts ci' false fss (c.views.map (jviewH H)) { cas := c0, heap := HF } = .ok v ∧
      v.heap = HF ∧ v.cas.nextXid = c0.nextXid ∧ v.cas.nextSofaNum = c0.nextSofaNum ∧
      ViewsRelJ H na c.views v.cas.views ∧
      v.cas.views.map (viewContent HF) = c.views.map (viewContent H)

/-- **C** content: the deep content of every feature of every collected structure is the same on both sides -/
def ContentStmt : Prop :=
  ∀ (K : Consts) (ts : TypeSystem) (c : Cas) (ci : Nat) (H : Heap) (L : List (Int × Nat)) (ci' : Nat) (HF : Heap),
    LOkJ K ts c ci H L → HeapRel H L (naOf H L) (E3J H (naOf H L) ci') HF →
    ∀ q ∈ L, ∀ (o : Obj) (t : TypeRec), H[q.2]? = some o → find? ts o.ty = some t → ∀ f ∈ allFeatures t,
      featContentC K HF (naOf H L q.1) f = featContentC K H q.2 f

end Cassis.Json
