/-
Evaluated counterexamples to the statement of `Properties/C02EmbeddedTs.lean` *as given* (hypothesis `UserOnlyNoDoc`
only): histories that satisfy `UserOnlyNoDoc` but whose FULL document does not lead back to the same type system.
Each one is evaluated on the model (`#guard`, compiled evaluation) and was reproduced on the implementation
(`Cas(typesystem=ts).to_json(type_system_mode=FULL)`, `load_cas_from_json` without a type system).  Each forces one
clause of the hypothesis `Writable` (`Spec/EmbeddedTs.lean`) under which the statement is proved
(`Proofs/EmbeddedTs.lean`, `Properties/C02EmbeddedTs.lean.proposed`).

`sameTsB` is the Boolean reading of `SameTs` over all names registered on either side.
-/
import CassisModel.Spec.EmbeddedTs

namespace Cassis.Json.Counter
open Cassis.TS

def permB {α} [BEq α] (a b : List α) : Bool := a.length == b.length && a.all (fun x => a.count x == b.count x)

def sameDeclB (t t' : TypeRec) : Bool :=
  t'.name == t.name && t'.super == t.super && t'.descr == t.descr && permB t'.children t.children &&
  permB ((allFeatures t').map featKey) ((allFeatures t).map featKey)

def sameTsB (a b : TypeSystem) : Bool :=
  (a.types.map (·.name) ++ b.types.map (·.name)).all (fun n =>
    match find? a n, find? b n with
    | some t, some t' => sameDeclB t t'
    | none, none => true
    | _, _ => false)

inductive Outcome | same | differs | loadError | saveError
deriving DecidableEq, Repr

/-- build the type system, write an empty CAS with mode FULL, read the type system back without supplying one -/
def run (ops : List TsOp) : Outcome :=
  let o := ops.foldl (applyOp Gen.consts) Gen.builtinTS
  match saveJson Gen.consts o [Cas.empty] 0 [] .full with
  | .error _ => .saveError
  | .ok (doc, _) =>
    match loadTs Gen.consts Gen.builtinTS true doc with
    | .error _ => .loadError
    | .ok ts' => if sameTsB o ts' then .same else .differs

open TsOp

/-- (1) an empty type description is not written and comes back as `None` -/
def cexTypeDescr : List TsOp := [createType "x.A" "uima.cas.TOP" (some "")]
#guard run cexTypeDescr == .differs

/-- (2) an empty feature description likewise -/
def cexFeatDescr : List TsOp :=
  [createType "x.A" "uima.cas.TOP" none, createFeature "x.A" "f" "uima.cas.Integer" none (some "") none]
#guard run cexFeatDescr == .differs

/-- (3) the element type given for a primitive array is lost (`Feature.__eq__` compares it) -/
def cexPrimArrayElem : List TsOp :=
  [createType "x.A" "uima.cas.TOP" none,
   createFeature "x.A" "f" "uima.cas.IntegerArray" (some "uima.cas.Integer") none none]
#guard run cexPrimArrayElem == .differs

/-- (4) an FSArray of a primitive element type is written as `uima.cas.Integer[]` and read back as IntegerArray -/
def cexFsArrayPrimElem : List TsOp :=
  [createType "x.A" "uima.cas.TOP" none,
   createFeature "x.A" "f" "uima.cas.FSArray" (some "uima.cas.Integer") none none]
#guard run cexFsArrayPrimElem == .differs

/-- (5) a range type whose name ends in `[]` is read as an array of `x.T` (TypeNotFoundError) -/
def cexBracketName : List TsOp :=
  [createType "x.T[]" "uima.cas.TOP" none, createType "x.A" "uima.cas.TOP" none,
   createFeature "x.A" "f" "x.T[]" none none none]
#guard run cexBracketName == .loadError

/-- (6) a type named `DocumentAnnotation` (no namespace) makes the reader start without
    `uima.tcas.DocumentAnnotation`; a declared subtype of the latter then fails with KeyError -/
def cexDocKey : List TsOp :=
  [createType "DocumentAnnotation" "uima.cas.TOP" none, createType "x.D" "uima.tcas.DocumentAnnotation" none]
#guard run cexDocKey == .loadError

/- … while the type alone does no harm (the clause `hasExact ts "DocumentAnnotation" = false` of `Writable` is
   sufficient, not necessary) -/
#guard run [createType "DocumentAnnotation" "uima.cas.TOP" none] == .same

/- the hypothesis of the original statement that is there already: a feature on DocumentAnnotation is not written -/
#guard run [createFeature "uima.tcas.DocumentAnnotation" "f" "uima.cas.Integer" none none none] == .differs

/-! instances that do come back -/
#guard run [createType "x.A" "uima.tcas.Annotation" none, createType "x.B" "x.A" (some "d"),
  createFeature "x.B" "f" "uima.cas.Integer" none none none, createFeature "x.A" "f" "uima.cas.Integer" none none none,
  createFeature "x.A" "self" "uima.cas.String" none none none,
  createFeature "x.A" "arr" "uima.cas.FSArray" (some "x.B") none (some true),
  createFeature "x.B" "ia" "uima.cas.IntegerArray" none none none] == .same

end Cassis.Json.Counter
