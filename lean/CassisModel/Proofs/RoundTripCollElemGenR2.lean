/-
Round trip with collections, layer G1, reader: the reader's first pass restated with named pieces, primitive lists
built from child elements, the fold over the groups of child elements.
-/
import CassisModel.Proofs.RoundTripCollElemGenR1

namespace Cassis.Xmi.CG1
open Cassis.TS Cassis.Traverse Cassis.Lex

def kidStep (K : Consts) (t : TypeRec) (tsIdx : Nat) (acc : Heap × List (String × Val))
    (p : String × List (Option String)) : Except Err (Heap × List (String × Val)) := do
  let pn := if p.1 == "self" || p.1 == "type" then p.1 ++ "_" else p.1
  let f ← match getFeature t pn with
    | some f => pure f
    | none => throw Err.attributeError
  if isPrimitiveArray K f.range then
    let arr : Obj := { ty := f.range, ts := tsIdx, xid := none, slots := [("elements", Val.strs p.2)] }
    pure (acc.1 ++ [arr], alistSet acc.2 pn (Val.ref acc.1.length))
  else if isPrimitiveList K f.range then
    let (hp', a) ← buildPrimList acc.1 tsIdx f.range p.2
    pure (hp', alistSet acc.2 pn (Val.ref a))
  else pure acc

def intify (m : List (String × Val)) (n : String) : Except Err (List (String × Val)) :=
    match alistGet? m n with
    | some (.str s) => (parseIntE s).map (fun i => alistSet m n (Val.int i))
    | some (.strs _) => Except.error Err.typeError
    | _ => Except.ok m

def rename (m : List (String × Val)) (o n : String) : List (String × Val) :=
  m.map (fun p => if p.1 == o then (n, p.2) else p)

theorem parseFsElem_eq (K : Consts) (ts : TypeSystem) (tsIdx : Nat) (hp : Heap) (e : XElem) :
    parseFsElem K ts tsIdx hp e = (do
  let t ← getTypeExact ts e.ty
  let kids := groupKids e.kids []
  let rawAttrs : List (String × Val) := e.attrs.map (fun p => (p.1, Val.str p.2))
  let merged : List (String × Val) := kids.foldl (fun acc p => alistSet acc p.1 (Val.strs p.2)) rawAttrs
  let idV ← match alistGet? merged ID with
    | some (.str s) => parseIntE s
    | _ => throw Err.keyError
  let merged := merged.filter (fun p => p.1 != ID)
  let merged ← intify merged "sofa"
  let merged := rename (rename merged "self" "self_") "type" "type_"
  let (hp, merged) ←
    if isPrimitiveArray K e.ty then pure (hp, merged)
    else kids.foldlM (kidStep K t tsIdx) (hp, merged)
  let o ← construct t tsIdx (some idV) merged
  pure (hp ++ [o], idV, hp.length)) := rfl

theorem mapM_okR {α β} (conv : α → Except Err β) (g : α → β) (h : ∀ e, conv e = .ok (g e)) :
    ∀ (l : List α), l.mapM conv = .ok (l.map g)
  | [] => rfl
  | e :: l => by
    rw [List.mapM_cons, mapM_okR conv g h l, h e]; rfl

def emNode (tsIdx : Nat) : Obj := { ty := "uima.cas.EmptyStringList", ts := tsIdx, xid := none, slots := [] }

def neNode (tsIdx : Nat) (neT : String) (v : Val) (a : Nat) : Obj :=
  { ty := neT, ts := tsIdx, xid := none, slots := [("head", v), ("tail", .ref a)] }

theorem listFold_at (tsIdx : Nat) (neT : String) : ∀ (todo : List Val) (hp : Heap) (a : Nat) (done : List Val),
    ListAt hp a done →
    ∃ (ext : List Obj) (a' : Nat),
      todo.foldl (fun (acc : Heap × Nat) (v : Val) => (acc.1 ++ [neNode tsIdx neT v acc.2], acc.1.length)) (hp, a)
        = (hp ++ ext, a') ∧
      (∀ ob ∈ ext, ob.xid = none) ∧ ext.length = todo.length ∧ ListAt (hp ++ ext) a' (todo.reverse ++ done)
  | [], hp, a, done, h => ⟨[], a, by simp, by simp, rfl, by simpa using h⟩
  | v :: todo, hp, a, done, h => by
    have h1 : ListAt (hp ++ [neNode tsIdx neT v a]) hp.length (v :: done) := by
      refine ListAt.cons (o := neNode tsIdx neT v a) (a' := a) ?_ rfl ?_ ?_ (h.frz (Frz.append _ _))
      · rw [List.getElem?_append_right (Nat.le_refl _), Nat.sub_self]; rfl
      · exact alistGet?_cons_self _ _ _
      · rw [neNode, alistGet?_cons_ne _ _ _ _ (by decide)]; exact alistGet?_cons_self _ _ _
    obtain ⟨ext, a', he, hx, hl, hL⟩ := listFold_at tsIdx neT todo _ _ _ h1
    refine ⟨neNode tsIdx neT v a :: ext, a', ?_, ?_, ?_, ?_⟩
    · rw [List.foldl_cons, he, List.append_assoc, List.singleton_append]
    · intro ob hob
      rcases List.mem_cons.mp hob with rfl | hob
      · rfl
      · exact hx ob hob
    · rw [List.length_cons, List.length_cons, hl]
    · rw [List.reverse_cons, List.append_assoc, List.singleton_append]
      rw [List.append_assoc, List.singleton_append] at hL
      exact hL

theorem buildPrimList_str (hp : Heap) (tsIdx : Nat) (l : List (Option String)) :
    ∃ (ext : List Obj) (a : Nat), buildPrimList hp tsIdx STRING_LIST l = .ok (hp ++ ext, a) ∧
      (∀ ob ∈ ext, ob.xid = none) ∧ ext.length = l.length + 1 ∧ ListAt (hp ++ ext) a (l.map txtHead) := by
  have e0 : ListAt (hp ++ [emNode tsIdx]) hp.length [] := by
    refine ListAt.nil (o := emNode tsIdx) ?_ rfl rfl
    rw [List.getElem?_append_right (Nat.le_refl _), Nat.sub_self]; rfl
  obtain ⟨ext, a', he, hx, hl, hL⟩ := listFold_at tsIdx "uima.cas.NonEmptyStringList" (l.map txtHead).reverse _ _ _ e0
  refine ⟨emNode tsIdx :: ext, a', ?_, ?_, ?_, ?_⟩
  · unfold buildPrimList
    have d1 : (STRING_LIST == INTEGER_LIST) = false := by decide
    have d2 : (STRING_LIST == FLOAT_LIST) = false := by decide
    have d3 : (STRING_LIST == STRING_LIST) = true := by decide
    simp only [d1, d2, d3, bind, Except.bind, pure, Except.pure, Bool.false_eq_true, if_false, if_true]
    rw [mapM_okR _ txtHead (fun e => by cases e <;> rfl)]
    unfold neNode emNode at he
    dsimp only
    rw [he, List.append_assoc, List.singleton_append]
    rfl
  · intro ob hob
    rcases List.mem_cons.mp hob with rfl | hob
    · rfl
    · exact hx ob hob
  · rw [List.length_cons, hl, List.length_reverse, List.length_map]
  · rw [List.reverse_reverse, List.append_nil, List.append_assoc, List.singleton_append] at hL
    exact hL

/-! ### one group of child elements -/

theorem kidStep_ok (K : Consts) (t : TypeRec) (tsIdx : Nat) (ck : Feature → List (Option String)) (f : Feature)
    (hgf : getFeature t f.name = some f) (hs : f.name ≠ "self") (ht : f.name ≠ "type")
    (hk : isPrimitiveArray K f.range = true ∨ (isPrimitiveList K f.range = true ∧ f.range = STRING_LIST))
    (hp : Heap) (m : List (String × Val)) :
    ∃ (ext : List Obj) (w : Val), kidStep K t tsIdx (hp, m) (f.name, ck f) = .ok (hp ++ ext, alistSet m f.name w) ∧
      (∀ ob ∈ ext, ob.xid = none) ∧ KidAt K (hp ++ ext) f (ck f) w := by
  have hpn : (if (f.name == "self" || f.name == "type") = true then f.name ++ "_" else f.name) = f.name := by
    rw [if_neg]; simp [hs, ht]
  unfold kidStep
  simp only [hpn, hgf, bind, Except.bind, pure, Except.pure]
  cases ha : isPrimitiveArray K f.range with
  | true =>
    refine ⟨[{ ty := f.range, ts := tsIdx, xid := none, slots := [("elements", Val.strs (ck f))] }], .ref hp.length,
      ?_, ?_, hp.length, rfl, Or.inl ⟨ha, ?_⟩⟩
    · simp only [if_true]
    · intro ob hob; rw [List.mem_singleton] at hob; rw [hob]
    · refine ⟨{ ty := f.range, ts := tsIdx, xid := none, slots := [("elements", Val.strs (ck f))] }, ?_, rfl,
        alistGet?_cons_self _ _ _⟩
      rw [List.getElem?_append_right (Nat.le_refl _), Nat.sub_self]; rfl
  | false =>
    rcases hk with hk | ⟨hl, hr⟩
    · rw [ha] at hk; cases hk
    · obtain ⟨ext, a, hb, hx, hlen, hL⟩ := buildPrimList_str hp tsIdx (ck f)
      refine ⟨ext, .ref a, ?_, hx, a, rfl, Or.inr ⟨ha, hL, ?_⟩⟩
      · rw [hr] at hl
        simp only [hl, Bool.false_eq_true, if_false, if_true, hr, hb]
      · rw [List.length_append, hlen]; omega

/-! ### all groups -/

theorem kidFold (K : Consts) (t : TypeRec) (tsIdx : Nat) (ck : Feature → List (Option String)) :
    ∀ (gs : List Feature), (gs.map (·.name)).Nodup →
      (∀ f ∈ gs, getFeature t f.name = some f ∧ f.name ≠ "self" ∧ f.name ≠ "type" ∧
        (isPrimitiveArray K f.range = true ∨ (isPrimitiveList K f.range = true ∧ f.range = STRING_LIST))) →
      ∀ (hp : Heap) (m : List (String × Val)), (∀ f ∈ gs, f.name ∈ m.map (·.1)) →
      ∃ (ext : List Obj) (m' : List (String × Val)),
        (gs.map (fun f => (f.name, ck f))).foldlM (kidStep K t tsIdx) (hp, m) = .ok (hp ++ ext, m') ∧
        (∀ ob ∈ ext, ob.xid = none) ∧ m'.map (·.1) = m.map (·.1) ∧
        (∀ n, n ∉ gs.map (·.name) → alistGet? m' n = alistGet? m n) ∧
        ∀ f ∈ gs, ∃ w, alistGet? m' f.name = some w ∧ KidAt K (hp ++ ext) f (ck f) w
  | [], _, _, hp, m, _ => ⟨[], m, by simp [pure, Except.pure], by simp, rfl, fun _ _ => rfl, fun f hf => by cases hf⟩
  | f :: gs, hn, hg, hp, m, hm => by
    rw [List.map_cons, List.nodup_cons] at hn
    obtain ⟨hgf, hs, ht, hk⟩ := hg f List.mem_cons_self
    obtain ⟨e1, w1, h1, hx1, hK1⟩ := kidStep_ok K t tsIdx ck f hgf hs ht hk hp m
    have hkeys1 : (alistSet m f.name w1).map (·.1) = m.map (·.1) := by
      rw [Cassis.Index.alistSet_keys, if_pos (hm f List.mem_cons_self)]
    obtain ⟨e2, m', h2, hx2, hkeys2, hget2, hK2⟩ := kidFold K t tsIdx ck gs hn.2
      (fun g hg' => hg g (List.mem_cons_of_mem _ hg')) (hp ++ e1) (alistSet m f.name w1)
      (fun g hg' => by rw [hkeys1]; exact hm g (List.mem_cons_of_mem _ hg'))
    refine ⟨e1 ++ e2, m', ?_, ?_, hkeys2.trans hkeys1, ?_, ?_⟩
    · rw [List.map_cons, List.foldlM_cons, h1]
      simp only [bind, Except.bind]
      rw [h2, List.append_assoc]
    · intro ob hob
      rcases List.mem_append.mp hob with h | h
      · exact hx1 ob h
      · exact hx2 ob h
    · intro n hnn
      rw [List.map_cons, List.mem_cons, not_or] at hnn
      rw [hget2 n hnn.2, alistGet?_set_other _ _ _ _ hnn.1]
    · intro g hg'
      rcases List.mem_cons.mp hg' with rfl | hg''
      · refine ⟨w1, ?_, ?_⟩
        · rw [hget2 _ hn.1, alistGet?_set_same]
        · rw [← List.append_assoc]; exact hK1.frz (Frz.append _ _)
      · obtain ⟨w, hw, hKw⟩ := hK2 g hg''
        exact ⟨w, hw, by rw [← List.append_assoc]; exact hKw⟩

end Cassis.Xmi.CG1
