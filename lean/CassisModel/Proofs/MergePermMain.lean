/-
Proof of `Properties/C13Perm.lean`: order independence of `merge_typesystems` when every name is declared with one
supertype throughout.

Route: a successful run over `decls` yields a type system `o` (one tree, feature bookkeeping intact) that makes every
declaration of `decls` too (`DeclOkP`: registered with the declared, non-final supertype; declared features covered by
the effective features) — parts C, C2, C3.  Replaying declarations that `o` makes too, in any order and any number of
times, cannot fail and stays inside `o` (`SubP o`) — parts A, B, B2, B3.  Hence any permutation succeeds as well, with a
result that is a part of `o`; by symmetry `o` is a part of that result, and two trees that are parts of each other have
the same supertypes, children and effective features.

The one name for which `OneSuper` does not exclude the re-parenting branch is `uima.tcas.DocumentAnnotation`: a fresh
type system registers it (below `uima.tcas.Annotation`) but it is not "predefined", so inputs declare it like a user
type, possibly with another supertype.  Its first declaration then re-parents it — as a leaf, since subtypes of it become
ready only afterwards (parts R, R2) — or leaves it where it is when the declared supertype is an ancestor of
`uima.tcas.Annotation`.
-/
import CassisModel.Properties.C13
import CassisModel.Proofs.MergePermB3
import CassisModel.Proofs.MergePermC3

namespace Cassis.TS

/-! ### Closed facts about the generated table -/

/-- the document annotation type is the one built-in type that is not "predefined" (`get_types()` lists it) -/
theorem builtin_names_predefined : ∀ t ∈ Gen.builtinTS.types, Gen.consts.predefined.contains t.name = true ∨
    (t.name = DOCUMENT_ANNOTATION ∧ t.super = some ANNOTATION ∧ t.children = []) := by
  have h : Gen.builtinTS.types.all (fun t => Gen.consts.predefined.contains t.name ||
      (t.name == DOCUMENT_ANNOTATION && t.super == some ANNOTATION && t.children.isEmpty)) = true := by
    decide +kernel
  intro t ht
  have := List.all_eq_true.mp h t ht
  simpa [and_assoc] using this

theorem annotation_predefined : Gen.consts.predefined.contains ANNOTATION = true := by decide +kernel

theorem docAnnotation_not_predefined : Gen.consts.predefined.contains DOCUMENT_ANNOTATION = false := by
  decide +kernel

theorem docAnnotation_builtin : ∃ t, find? Gen.builtinTS DOCUMENT_ANNOTATION = some t ∧
    t.super = some ANNOTATION ∧ t.children = [] := by
  have hreg : hasExact Gen.builtinTS DOCUMENT_ANNOTATION = true := by decide +kernel
  obtain ⟨t, ht⟩ := (hasExact_iff_find _ _).mp hreg
  rcases builtin_names_predefined t (find?_mem ht) with h | ⟨_, h2, h3⟩
  · rw [find?_name ht, docAnnotation_not_predefined] at h; cases h
  · exact ⟨t, ht, h2, h3⟩

theorem builtin_docAnnotation_of_name {t : TypeRec} (ht : t ∈ Gen.builtinTS.types)
    (hn : t.name = DOCUMENT_ANNOTATION) : t.super = some ANNOTATION := by
  rcases builtin_names_predefined t ht with h | ⟨_, h2, _⟩
  · rw [hn, docAnnotation_not_predefined] at h; cases h
  · exact h2

theorem init_rinv (decls : List Decl) (hu : UserDecls Gen.consts decls) :
    RInv Gen.consts decls { ts := Gen.builtinTS, merged := [] } := by
  obtain ⟨t, ht, hts, hleaf⟩ := docAnnotation_builtin
  refine ⟨consistent_builtins_aux.1, featInv_builtins_aux.1, builtin_pre, (fun x hx => by cases hx), ?_,
    ⟨t, ht, Or.inl ⟨(fun h => by cases h), hts, hleaf⟩⟩,
    Anc.step _ _ _ t ht hts (Anc.refl _ (builtin_pre _ annotation_predefined))⟩
  intro d hd hdn t' ht'
  exfalso
  rcases builtin_names_predefined t' (find?_mem ht') with h1 | ⟨h1, _⟩
  · rw [find?_name ht', (hu d hd).1] at h1
    cases h1
  · rw [find?_name ht'] at h1
    exact hdn h1

theorem init_invP {o : TypeSystem} (hg : GrowW Gen.builtinTS o) (hda : Anc o ANNOTATION DOCUMENT_ANNOTATION) :
    MInvP Gen.consts o { ts := Gen.builtinTS, merged := [] } := by
  obtain ⟨t, ht, hts, hleaf⟩ := docAnnotation_builtin
  have hcb := consistent_builtins_aux.1
  refine ⟨hcb, featInv_builtins_aux.1, ?_, builtin_pre, (fun x hx => by cases hx),
    ⟨t, ht, Or.inr ⟨(fun h => by cases h), hts, hleaf⟩⟩⟩
  intro n tb hn
  obtain ⟨t', ht', hs', hsub⟩ := hg n tb hn
  have hstep : ∀ c s (tc : TypeRec), find? Gen.builtinTS c = some tc → tc.super = some s → Anc o s c := by
    intro c s tc hc hs
    by_cases hcd : c = DOCUMENT_ANNOTATION
    · have := builtin_docAnnotation_of_name (find?_mem hc) (by rw [find?_name hc]; exact hcd)
      rw [this] at hs
      cases hs
      rw [hcd]; exact hda
    · obtain ⟨tc', htc', hsc', _⟩ := hg c tc hc
      have hsreg : hasExact o s = true := hg.reg s (hcb.superReg tc (find?_mem hc) s hs)
      exact Anc.step s c s tc' htc' (by rw [hsc' hcd]; exact hs) (Anc.refl s hsreg)
  refine ⟨t', ht', fun h => (hs' h), ?_, ?_, ?_⟩
  · intro s hs
    exact hstep n s tb hn hs
  · intro g hg'
    exact ⟨g, hsub g hg', featureEq_refl g⟩
  · intro c hc
    obtain ⟨tc, htc, hsc⟩ := (hcb.link n c).mp ⟨tb, hn, hc⟩
    exact hstep c n tc htc hsc

/-! ### The hypotheses are invariant under permutation -/

theorem closedDecls_perm {K : Consts} {decls decls' : List Decl} (hp : decls.Perm decls')
    (h : ClosedDecls K decls) : ClosedDecls K decls' := by
  obtain ⟨hc, rank, hr⟩ := h
  refine ⟨?_, rank, fun d hd => hr d (hp.mem_iff.mpr hd)⟩
  intro d hd
  rcases hc d (hp.mem_iff.mpr hd) with h | h
  · exact Or.inl h
  · obtain ⟨d', hd', e⟩ := List.mem_map.mp h
    exact Or.inr (List.mem_map.mpr ⟨d', hp.mem_iff.mp hd', e⟩)

theorem userDecls_perm {K : Consts} {decls decls' : List Decl} (hp : decls.Perm decls')
    (h : UserDecls K decls) : UserDecls K decls' :=
  fun d hd => h d (hp.mem_iff.mpr hd)

theorem oneSuper_perm {decls decls' : List Decl} (hp : decls.Perm decls') (h : OneSuper decls) : OneSuper decls' :=
  fun d hd d' hd' => h d (hp.mem_iff.mpr hd) d' (hp.mem_iff.mpr hd')

/-! ### One direction: if one order succeeds, so does every other, with a part of the same result -/

theorem merge_perm_dir (decls decls' : List Decl) (hp : decls.Perm decls')
    (hc : ClosedDecls Gen.consts decls) (hu : UserDecls Gen.consts decls) (h1 : OneSuper decls)
    (o : TypeSystem) (h : mergeDecls Gen.consts Gen.builtinTS decls = .ok o) :
    Consistent o ∧ FeatInv o ∧
      ∃ m, mergeDecls Gen.consts Gen.builtinTS decls' = .ok m ∧ Consistent m ∧ FeatInv m ∧ SubP o isDA m ∧
        (∀ to tm, find? o DOCUMENT_ANNOTATION = some to → find? m DOCUMENT_ANNOTATION = some tm →
          to.super = tm.super ∨ tm.super = some ANNOTATION) := by
  -- what the successful run leaves behind
  have hrun : ∃ s, mergeLoop Gen.consts decls (decls.length + 1) { ts := Gen.builtinTS, merged := [] } = .ok s ∧
      s.ts = o := by
    unfold mergeDecls at h
    split at h
    · cases h
    · rename_i s hs
      cases h
      exact ⟨s, hs, rfl⟩
  obtain ⟨s, hs, rfl⟩ := hrun
  obtain ⟨hi, hg, hcov⟩ := mergeLoop_run Gen.consts decls h1 annotation_predefined docAnnotation_not_predefined
    (fun d hd => (hu d hd).1) _ _ s (init_rinv decls hu) hs
  have hok : ∀ d ∈ decls', DeclOkP Gen.consts s.ts d := by
    intro d hd'
    have hd := hp.mem_iff.mpr hd'
    obtain ⟨⟨t, ht, hcv⟩, hmer⟩ := hcov d hd
    by_cases hdn : d.name = DOCUMENT_ANNOTATION
    · obtain ⟨t0, ht0, hset⟩ := hi.da
      rw [hdn, ht0] at ht
      have ett : t0 = t := Option.some.inj ht
      subst ett
      rcases hset with ⟨hnm, _, _⟩ | hset
      · rw [hdn] at hmer; exact absurd hmer hnm
      · refine ⟨⟨t0, by rw [hdn]; exact ht0, hcv, ?_⟩, fun h => absurd hdn h, (hu d hd).1⟩
        rcases hset d hd hdn with ⟨hts, hanc⟩ | ⟨hts, hanc⟩
        · exact Or.inl ⟨hts, fun _ => hanc⟩
        · exact Or.inr ⟨hdn, hts, hanc⟩
    · obtain ⟨hsup, hnf⟩ := hi.sup d hd hdn t ht
      exact ⟨⟨t, ht, hcv, Or.inl ⟨hsup, fun h => absurd h hdn⟩⟩, fun _ => hnf, (hu d hd).1⟩
  have hc' := closedDecls_perm hp hc
  have hterm := merge_terminates_aux Gen.consts Gen.builtinTS decls' hc'.closed hc'.acyclic
  obtain ⟨s', _, hm, hi'⟩ := mergeDecls_replay Gen.consts s.ts Gen.builtinTS hi.feat hi.cons annotation_predefined
    docAnnotation_not_predefined decls' (init_invP hg hi.daAnc) hok hterm
  refine ⟨hi.cons, hi.feat, s'.ts, hm, hi'.cons, hi'.feat, hi'.sub, ?_⟩
  intro to tm hto htm
  obtain ⟨t, ht, hset⟩ := hi'.da
  rw [htm] at ht
  cases ht
  rcases hset with hset | ⟨_, hts, _⟩
  · exact Or.inl (hset to hto)
  · exact Or.inr hts

/-! ### Two trees that are parts of each other -/

theorem sameHier_of_subP (o m : TypeSystem) (hco : Consistent o) (hcm : Consistent m)
    (hom : SubP o isDA m) (hmo : SubP m isDA o)
    (hda : ∀ to tm, find? o DOCUMENT_ANNOTATION = some to → find? m DOCUMENT_ANNOTATION = some tm →
      to.super = tm.super) : SameHier o m := by
  -- the supertypes agree
  have hsup : ∀ n t t', find? o n = some t → find? m n = some t' → t'.super = t.super := by
    intro n t t' ho hm
    by_cases hn : n = DOCUMENT_ANNOTATION
    · subst hn; exact (hda t t' ho hm).symm
    · obtain ⟨to, hto, hr⟩ := hom n t' hm
      rw [ho] at hto; cases hto
      exact (hr.super hn).symm
  intro n
  cases ho : find? o n with
  | none =>
    cases hm : find? m n with
    | none => trivial
    | some t' =>
      obtain ⟨to, hto, _⟩ := hom n t' hm
      rw [ho] at hto; cases hto
  | some t =>
    cases hm : find? m n with
    | none =>
      obtain ⟨tm, htm, _⟩ := hmo n t ho
      rw [hm] at htm; cases htm
    | some t' =>
      obtain ⟨to, hto, hr⟩ := hom n t' hm
      rw [ho] at hto; cases hto
      obtain ⟨tm, htm, hr'⟩ := hmo n t ho
      rw [hm] at htm; cases htm
      show t'.super = t.super ∧ t'.children.Perm t.children ∧
        ((allFeatures t').map featKey).Perm ((allFeatures t).map featKey)
      refine ⟨hsup n t t' ho hm, ?_, keys_perm_of_cover t t' hr'.feats hr.feats⟩
      rw [List.perm_ext_iff_of_nodup (hcm.childNodup t' (find?_mem hm)) (hco.childNodup t (find?_mem ho))]
      intro c
      constructor
      · intro hcm'
        obtain ⟨tc', htc', hsc'⟩ := (hcm.link n c).mp ⟨t', hm, hcm'⟩
        obtain ⟨tc, htc, _⟩ := hom c tc' htc'
        obtain ⟨ta, hta, hmem⟩ := (hco.link n c).mpr ⟨tc, htc, by rw [← hsup c tc tc' htc htc']; exact hsc'⟩
        rw [ho] at hta; cases hta; exact hmem
      · intro hco'
        obtain ⟨tc, htc, hsc⟩ := (hco.link n c).mp ⟨t, ho, hco'⟩
        obtain ⟨tc', htc', _⟩ := hmo c tc htc
        obtain ⟨ta, hta, hmem⟩ := (hcm.link n c).mpr ⟨tc', htc', by rw [hsup c tc tc' htc htc']; exact hsc⟩
        rw [hm] at hta; cases hta; exact hmem

/-! ### The statement -/

theorem merge_perm_one_super_aux (decls decls' : List Decl) (hp : decls.Perm decls')
    (hc : ClosedDecls Gen.consts decls) (hu : UserDecls Gen.consts decls) (h1 : OneSuper decls) :
    match mergeDecls Gen.consts Gen.builtinTS decls, mergeDecls Gen.consts Gen.builtinTS decls' with
    | .ok ts, .ok ts' => SameHier ts ts'
    | .error _, .error _ => True
    | _, _ => False := by
  have hc' := closedDecls_perm hp hc
  have hu' := userDecls_perm hp hu
  have h1' := oneSuper_perm hp h1
  cases h : mergeDecls Gen.consts Gen.builtinTS decls with
  | ok o =>
    obtain ⟨hco, _, m, hm, hcm, _, hom, hda1⟩ := merge_perm_dir decls decls' hp hc hu h1 o h
    rw [hm]
    obtain ⟨_, _, o', ho', _, _, hmo, hda2⟩ := merge_perm_dir decls' decls hp.symm hc' hu' h1' m hm
    rw [h] at ho'
    cases ho'
    refine sameHier_of_subP o m hco hcm hom hmo ?_
    intro to tm hto htm
    rcases hda1 to tm hto htm with e | e1
    · exact e
    · rcases hda2 tm to htm hto with e | e2
      · exact e.symm
      · rw [e1, e2]
  | error e =>
    cases h' : mergeDecls Gen.consts Gen.builtinTS decls' with
    | error e' => trivial
    | ok m =>
      obtain ⟨_, _, o', ho', _⟩ := merge_perm_dir decls' decls hp.symm hc' hu' h1' m h'
      rw [h] at ho'
      cases ho'

end Cassis.TS
