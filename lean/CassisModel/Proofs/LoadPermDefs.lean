/-
Element-order independence of the XMI reader on the flat fragment (`Properties/C05Perm.lean`): shared definitions.

The proof of `xmi_roundtrip_flat` ties heap addresses to positions in the document (`NaOk`, `P1Spec` of
`RoundTripDefs.lean`: the `cas:NULL` object at `H.length`, `p.fss`/`p.sofas`/`p.views` as literal lists).  For a permuted
document the *sets* of entries are the same, their order and the addresses differ.  The generalised invariants:

* `n0` — the address of the `cas:NULL` object (anywhere behind the old heap);
* `NaOkP` — new addresses pairwise distinct and different from `n0`;
* `P1SpecP` — `p.fss`, `p.sofas`, `p.views` are permutations of the lists the writer order would give.

Everything that the later passes need from the tables is a lookup; the lookups are derived here.
-/
import CassisModel.Proofs.RoundTripDefs
import CassisModel.Proofs.RoundTripBuildA
import CassisModel.Proofs.XmiLoad
import CassisModel.Proofs.XmiLoad2

namespace Cassis.Xmi.LP
open Cassis.TS Cassis.Traverse Cassis.Lex Cassis.Xmi

/-! ### lists -/

/-- a permutation of a mapped list is the map of a permutation -/
theorem perm_map_inv {α β} (f : α → β) : ∀ (l' : List β) (l : List α), l'.Perm (l.map f) →
    ∃ l2 : List α, l2.Perm l ∧ l' = l2.map f
  | [], l, h => by
    have : l.map f = [] := List.Perm.eq_nil (h.symm)
    have hl : l = [] := by simpa using this
    exact ⟨[], by rw [hl], rfl⟩
  | b :: t, l, h => by
    have hb : b ∈ l.map f := h.subset List.mem_cons_self
    obtain ⟨a, ha, hab⟩ := List.mem_map.mp hb
    obtain ⟨s, r, hsr⟩ := List.append_of_mem ha
    have h1 : (b :: t).Perm (b :: (s ++ r).map f) := by
      refine h.trans ?_
      rw [hsr, ← hab]
      simp only [List.map_append, List.map_cons]
      exact List.perm_middle
    obtain ⟨l2, hl2, ht⟩ := perm_map_inv f t (s ++ r) (List.Perm.cons_inv h1)
    refine ⟨a :: l2, ?_, ?_⟩
    · rw [hsr]
      exact (List.Perm.cons a hl2).trans List.perm_middle.symm
    · rw [List.map_cons, hab, ht]

/-- `find?` does not depend on the order when at most one element satisfies the predicate -/
theorem find?_perm_unique {α} (p : α → Bool) {l l' : List α} (h : l.Perm l')
    (hu : ∀ a ∈ l, ∀ b ∈ l, p a = true → p b = true → a = b) : l.find? p = l'.find? p := by
  induction h with
  | nil => rfl
  | cons x _ ih =>
    rw [List.find?_cons, List.find?_cons]
    cases hx : p x
    · exact ih (fun a ha b hb => hu a (List.mem_cons_of_mem _ ha) b (List.mem_cons_of_mem _ hb))
    · rfl
  | swap x y l =>
    rw [List.find?_cons, List.find?_cons, List.find?_cons, List.find?_cons]
    cases hx : p x <;> cases hy : p y <;> try rfl
    have := hu y List.mem_cons_self x (List.mem_cons_of_mem _ List.mem_cons_self) hy hx
    rw [this]
  | trans h1 _ ih1 ih2 =>
    rw [ih1 hu]
    exact ih2 (fun a ha b hb => hu a (h1.mem_iff.mpr ha) b (h1.mem_iff.mpr hb))

theorem nodup_map_inj {α κ} (key : α → κ) : ∀ {l : List α}, (l.map key).Nodup → ∀ a ∈ l, ∀ b ∈ l, key a = key b → a = b
  | [], _, a, ha, _, _, _ => by cases ha
  | x :: l, hn, a, ha, b, hb, hab => by
    rw [List.map_cons, List.nodup_cons] at hn
    rcases List.mem_cons.mp ha with rfl | ha' <;> rcases List.mem_cons.mp hb with rfl | hb'
    · rfl
    · exact absurd (hab ▸ List.mem_map_of_mem hb') hn.1
    · exact absurd (hab ▸ List.mem_map_of_mem ha') hn.1
    · exact nodup_map_inj key hn.2 a ha' b hb' hab

/-- `find?` by a key that is pairwise distinct -/
theorem find?_perm_key {α κ} [DecidableEq κ] (key : α → κ) {l l' : List α} (h : l.Perm l') (hn : (l'.map key).Nodup)
    (x : α) (hx : x ∈ l') : l.find? (fun a => key a == key x) = some x := by
  have hu : ∀ a ∈ l', ∀ b ∈ l', key a = key b → a = b := nodup_map_inj key hn
  rw [find?_perm_unique _ h (fun a ha b hb pa pb => by
    have ha' := h.mem_iff.mp ha
    have hb' := h.mem_iff.mp hb
    have e1 : key a = key x := by simpa using pa
    have e2 : key b = key x := by simpa using pb
    exact hu a ha' b hb' (e1.trans e2.symm))]
  obtain ⟨s, r, hsr⟩ := List.append_of_mem hx
  cases hf : l'.find? (fun a => key a == key x) with
  | none =>
    have := List.find?_eq_none.mp hf x hx
    simp at this
  | some y =>
    have hy := List.find?_some hf
    have hym := List.mem_of_find?_eq_some hf
    have : key y = key x := by simpa using hy
    rw [hu y hym x hx this]

/-! ### the generalised invariants -/

/-- new addresses are pairwise distinct and differ from the address `n0` of the `cas:NULL` object -/
structure NaOkP (n0 : Nat) (L : List (Int × Nat)) (na : Int → Nat) : Prop where
  inj : ∀ q ∈ L, ∀ q' ∈ L, na q.1 = na q'.1 → q.1 = q'.1
  ne0 : ∀ q ∈ L, n0 ≠ na q.1

/-- the state of the reader after the first pass over a permutation of the written document -/
structure P1SpecP (ts : TypeSystem) (cass : List Cas) (c : Cas) (H : Heap) (L : List (Int × Nat)) (na : Int → Nat)
    (n0 : Nat) (p : Pass1) : Prop where
  fss : p.fss.Perm ((0, n0) :: L.map (fun q => (q.1, na q.1)))
  sofas : p.sofas.Perm (c.views.map (fun nv => (nv.2.sofa.xid, psofaOf nv)))
  views : p.views.Perm (c.views.map (fun nv => (nv.2.sofa.xid, pviewOf H nv)))
  lenient : p.lenientIds = []
  len : p.heap.length = H.length + 1 + L.length
  null : ∃ o0 : Obj, p.heap[n0]? = some o0 ∧ o0.ty = NULL_T ∧ o0.xid = some 0 ∧ o0.slots = []
  rel : HeapRel H L na (E1 ts cass H) p.heap

/-- an entry of the table of structures: the `cas:NULL` entry or the entry of a collected structure -/
def FssEntry (n0 : Nat) (L : List (Int × Nat)) (na : Int → Nat) (r : Int × Nat) : Prop :=
  r = (0, n0) ∨ ∃ q ∈ L, r = (q.1, na q.1)

section
variable {K : Consts} {ts : TypeSystem} {cass : List Cas} {ci : Nat} {c : Cas} {H : Heap}
  {L : List (Int × Nat)} {na : Int → Nat} {n0 : Nat} {p : Pass1}

theorem keys_nodup (hL : LOk K ts c ci H L) :
    (((0 : Int), n0) :: L.map (fun q => (q.1, na q.1))).map (·.1) |>.Nodup := by
  rw [List.map_cons, List.map_map, List.nodup_cons]
  refine ⟨?_, hL.nodup⟩
  intro h
  obtain ⟨q, hq, e⟩ := List.mem_map.mp h
  exact (hL.ids q hq).2 e

theorem P1SpecP.fss_nodup (h : P1SpecP ts cass c H L na n0 p) (hL : LOk K ts c ci H L) :
    (p.fss.map (·.1)).Nodup :=
  ((h.fss.map (·.1)).nodup_iff).mpr (keys_nodup hL)

theorem P1SpecP.fss_entry (h : P1SpecP ts cass c H L na n0 p) : ∀ r ∈ p.fss, FssEntry n0 L na r := by
  intro r hr
  have := h.fss.mem_iff.mp hr
  rcases List.mem_cons.mp this with e | e
  · exact Or.inl e
  · obtain ⟨q, hq, e⟩ := List.mem_map.mp e
    exact Or.inr ⟨q, hq, e.symm⟩

theorem P1SpecP.mem_fss (h : P1SpecP ts cass c H L na n0 p) {q : Int × Nat} (hq : q ∈ L) : (q.1, na q.1) ∈ p.fss :=
  h.fss.mem_iff.mpr (List.mem_cons_of_mem _ (List.mem_map.mpr ⟨q, hq, rfl⟩))

theorem P1SpecP.mem_sofas (h : P1SpecP ts cass c H L na n0 p) {nv : String × View} (hnv : nv ∈ c.views) :
    (nv.2.sofa.xid, psofaOf nv) ∈ p.sofas :=
  h.sofas.mem_iff.mpr (List.mem_map.mpr ⟨nv, hnv, rfl⟩)

/-- looking up the id of a collected structure -/
theorem P1SpecP.lookup (h : P1SpecP ts cass c H L na n0 p) (hL : LOk K ts c ci H L) {q : Int × Nat} (hq : q ∈ L) :
    lookupFs p.fss q.1 = .ok (na q.1) := by
  rw [lookupFs_perm_aux _ _ h.fss (h.fss_nodup hL)]
  unfold lookupFs
  rw [List.find?_cons]
  have h0 : ((0 : Int) == q.1) = false := by
    have := (hL.ids q hq).2
    simpa using fun e : (0 : Int) = q.1 => this e.symm
  simp only [h0]
  have := RTB.find?_map_key (fun q : Int × Nat => q.1) (fun q => na q.1) L q hq hL.nodup
  rw [this]

/-- the sofa record with a given xmi:id (second pass: the `sofa` attribute of a structure) -/
theorem P1SpecP.find_sofa_xid (h : P1SpecP ts cass c H L na n0 p) (hnd : (c.views.map (·.2.sofa.xid)).Nodup)
    {nv : String × View} (hnv : nv ∈ c.views) :
    p.sofas.find? (fun q => q.1 == nv.2.sofa.xid) = some (nv.2.sofa.xid, psofaOf nv) := by
  have hn : ((c.views.map (fun nv => (nv.2.sofa.xid, psofaOf nv))).map (fun q : Int × PSofa => q.1)).Nodup := by
    rw [List.map_map]; exact hnd
  exact find?_perm_key (fun q : Int × PSofa => q.1) h.sofas hn (nv.2.sofa.xid, psofaOf nv)
    (List.mem_map.mpr ⟨nv, hnv, rfl⟩)

/-- the sofa record with a given name (third pass) -/
theorem P1SpecP.find_sofa_name (h : P1SpecP ts cass c H L na n0 p) (hnames : ∀ nv ∈ c.views, nv.2.sofa.sofaID = nv.1)
    (hnd : (c.views.map (·.1)).Nodup) {nv : String × View} (hnv : nv ∈ c.views) :
    p.sofas.find? (fun q => q.2.sofaID == nv.1) = some (nv.2.sofa.xid, psofaOf nv) := by
  have hn : ((c.views.map (fun nv => (nv.2.sofa.xid, psofaOf nv))).map (fun q : Int × PSofa => q.2.sofaID)).Nodup := by
    rw [List.map_map]
    have : (c.views.map ((fun q : Int × PSofa => q.2.sofaID) ∘ fun nv => (nv.2.sofa.xid, psofaOf nv))) = c.views.map (·.1) :=
      List.map_congr_left (fun nv hnv => hnames nv hnv)
    rw [this]; exact hnd
  have := find?_perm_key (fun q : Int × PSofa => q.2.sofaID) h.sofas hn (nv.2.sofa.xid, psofaOf nv)
    (List.mem_map.mpr ⟨nv, hnv, rfl⟩)
  have e : (psofaOf nv).sofaID = nv.1 := hnames nv hnv
  simp only [e] at this
  exact this

/-- the members the document lists for a view -/
theorem P1SpecP.members_of (h : P1SpecP ts cass c H L na n0 p) (hnd : (c.views.map (·.2.sofa.xid)).Nodup)
    {nv : String × View} (hnv : nv ∈ c.views) :
    membersOf p.views (psofaOf nv) = (pviewOf H nv).members := by
  have hn : ((c.views.map (fun nv => (nv.2.sofa.xid, pviewOf H nv))).map (fun q : Int × PView => q.1)).Nodup := by
    rw [List.map_map]; exact hnd
  have := find?_perm_key (fun q : Int × PView => q.1) h.views hn (nv.2.sofa.xid, pviewOf H nv)
    (List.mem_map.mpr ⟨nv, hnv, rfl⟩)
  unfold membersOf
  show (match p.views.find? (fun q : Int × PView => q.1 == nv.2.sofa.xid) with | some q => q.2.members | none => _) = _
  simp only at this
  rw [this]

end

end Cassis.Xmi.LP
