/-
C16 — composition of the two round trips on the flat fragment (`Properties/C16Chain.lean`).

XMI → CAS → JSON → CAS and JSON → CAS → XMI → CAS.  The first half of each chain is the existing core theorem
(`roundtrip_core`, `json_core`), which describes the loaded CAS by `HeapRel … E3` and a view relation.  From this
description (`LdCtx`, `ChainDefs.lean`) the loaded CAS is shown to be traversed and written successfully by the other
writer and to satisfy the hypotheses of the other reader's core (`ChainLoaded.lean`); the second half is the other
format's round trip in the form `xmi_roundtrip_weak` / `json_roundtrip_weak` (`ChainXmiCore.lean`, `ChainJsonCore.lean`),
and the content equalities of the two halves compose.
-/
import CassisModel.Proofs.ChainLoaded
import CassisModel.Proofs.ChainXmiCore
import CassisModel.Proofs.ChainJsonCore
import CassisModel.Proofs.ChainPlain
import CassisModel.Proofs.ChainNorm

namespace Cassis.Chain
open Cassis.TS Cassis.Traverse Cassis.Xmi Cassis.Json

/-- what the views of a loaded CAS inherit from the views that were written -/
theorem views_wf {c c' : Cas} {hp H : Heap} {na : Int → Nat} (hwf : RTWf c hp) (hv : VRL H na c.views c'.views) :
    (c'.views.head?).map (·.1) = some Cas.INITIAL_VIEW ∧
    (∀ nv ∈ c'.views, nv.2.sofa.sofaID = nv.1) ∧
    (c'.views.map (·.1)).Nodup ∧
    (c'.views.map (·.2.sofa.xid)).Nodup ∧
    (∀ nv ∈ c'.views, ∀ t, nv.2.sofa.text = some t → ∀ cp ∈ t, Offsets.IsScalar cp) ∧
    (∀ nv ∈ c'.views, 0 < nv.2.sofa.xid) := by
  have hkeys : c'.views.map (·.1) = c.views.map (·.1) := VRL.map_eq (·.1) (·.1) hv (fun _ _ h => h.1)
  have hxids : c'.views.map (·.2.sofa.xid) = c.views.map (·.2.sofa.xid) :=
    VRL.map_eq (·.2.sofa.xid) (·.2.sofa.xid) hv (fun _ _ h => h.2.2.1)
  refine ⟨?_, ?_, ?_, ?_, ?_, ?_⟩
  · have h1 : (c'.views.map (·.1)).head? = (c.views.map (·.1)).head? := by rw [hkeys]
    rw [List.head?_map, List.head?_map] at h1
    rw [h1]; exact hwf.init_first
  · intro nv' hnv'
    obtain ⟨nv, hnv, hr⟩ := VRL.bwd hv nv' hnv'
    rw [hr.2.1, hr.1]; exact hwf.names nv hnv
  · rw [hkeys]; exact hwf.names_nodup
  · rw [hxids]; exact hwf.sofa_ids_nodup
  · intro nv' hnv' t ht
    obtain ⟨nv, hnv, hr⟩ := VRL.bwd hv nv' hnv'
    rw [hr.2.2.2.2.1] at ht
    exact hwf.scalar nv hnv t ht
  · intro nv' hnv'
    obtain ⟨nv, hnv, hr⟩ := VRL.bwd hv nv' hnv'
    rw [hr.2.2.1]; exact (hwf.sofa_ids nv hnv).1

end Cassis.Chain

namespace Cassis
open Cassis.TS Cassis.Traverse Cassis.Xmi Cassis.Chain

/-- XMI → CAS → JSON → CAS -/
theorem chain_xmi_json_flat_aux (K : Consts) (ts : TypeSystem) (cass : List Cas) (ci : Nat) (c : Cas) (hp : Heap)
    (tsIdx : Nat) (doc : XDoc) (st : St)
    (hc : cass[ci]? = some c) (hwf : RTWf c hp) (hnull : NullOk ts)
    (hsave : saveXmi K ts cass ci hp = .ok (doc, st))
    (hflat : ∀ q ∈ st.allFs, FlatFs K ts c ci st.heap q.2)
    (hjson : ∀ q ∈ st.allFs, Json.JsonFs ts st.heap q.2)
    (hsr : ∀ q ∈ st.allFs, ∀ (o : Obj) (t : TypeRec), st.heap[q.2]? = some o → find? ts o.ty = some t →
      ∀ f ∈ allFeatures t, f.name = "sofa" → (alistGet? o.slots f.name).getD .none ≠ .none →
        f.range ≠ "uima.cas.Double" ∧ f.range ≠ "uima.cas.Float" ∧ isPrimitive K ts f.range = false)
    (hdis : ∀ q ∈ st.allFs, ∀ nv ∈ c.views, q.1 ≠ nv.2.sofa.xid)
    (hmem : ∀ nv ∈ c.views, ∀ e ∈ Index.all nv.2.idx, Xmi.slot st.heap e.oid "sofa" ≠ some .none)
    (hmok : MembersOk c st.heap) :
    ∃ (ld1 : Xmi.Loaded) (docj : Json.JDoc) (st2 : St) (ld2 : Json.Loaded) (fss2 : List (Int × Val)),
      loadXmi K ts tsIdx cass.length false st.heap doc = .ok ld1 ∧
      Json.saveJson K ts (cass ++ [ld1.cas]) cass.length ld1.heap .none = .ok (docj, st2) ∧
      Json.loadJson K ts tsIdx (cass.length + 1) false false st2.heap docj = .ok ld2 ∧
      ld2.cas.views.map (viewContent ld2.heap) = c.views.map (viewContent st.heap) ∧
      (∀ q ∈ st.allFs, ∃ (a2 : Nat) (o o2 : Obj), Json.lookup fss2 q.1 = some (.ref a2) ∧
          st.heap[q.2]? = some o ∧ ld2.heap[a2]? = some o2 ∧ o2.ty = o.ty ∧ o2.xid = some q.1 ∧
          ∀ t : TypeRec, find? ts o.ty = some t → ∀ f ∈ allFeatures t,
            featContent ld2.heap a2 f.name = featContent st.heap q.2 f.name) := by
  -- the first half
  obtain ⟨na, _, ld1, _, hload1, hL, _, _, hrel, hvc1, hvrel⟩ :=
    roundtrip_core K ts cass ci c hp tsIdx cass.length doc st hc hwf hnull hsave hflat hmem hmok
  obtain ⟨_, ld1', _, hload1', _, _, _, _, hreseed⟩ :=
    xmi_roundtrip_flat_aux K ts cass ci c hp tsIdx cass.length doc st hc hwf hnull hsave hflat hdis hmem hmok
  rw [hload1] at hload1'; cases hload1'
  have hfa := saveXmi_findAllFs hc hsave
  have hc' : (cass ++ [ld1.cas])[cass.length]? = some ld1.cas := List.getElem?_concat_length
  have hcB : (cass ++ [normCas ld1.cas])[cass.length]? = some (normCas ld1.cas) := List.getElem?_concat_length
  have x : LdCtx K ts c ci st.heap (sortById st.allFs) na ld1.cas cass.length ld1.heap :=
    ⟨hL, hrel, VRL.of_xmi hvrel, new_flat K ts cass ci c hp st.heap _ na cass.length ld1.cas ld1.heap hc hwf hL hrel hvrel⟩
  have hnx' : 0 < ld1.cas.nextXid := loadXmi_nextXid_pos hload1
  -- the loaded CAS is traversed …
  obtain ⟨st2, hfa2, hheap2, hS⟩ := x.traversal { includeInlinable := true }
  obtain ⟨_, hsort⟩ := LdCtx.sorted hwf.next_pos hfa x hnx' hfa2 hheap2 hS
  have hL' := x.lok'
  have hjson' := x.json' (fun q hq => hjson q (mem_sortById.mp hq))
  have hsr' := x.sofaRange' (fun q hq o t ho ht f hf => hsr q (mem_sortById.mp hq) o t ho ht f hf)
  have hdis' := x.dis' (fun q hq => hdis q (mem_sortById.mp hq))
  have hmem' := x.mem_sofa' hmem
  have hmok' := x.membersOk' hmok
  have hplain := loadXmi_plain hload1
  have harr' : ∀ nv ∈ ld1.cas.views, nv.2.sofa.arr = .none := fun nv hnv => (hplain nv hnv).1
  obtain ⟨w1, w2, w3, w4, w5, w6⟩ := views_wf hwf x.views
  -- … and written
  have hrenderA : ∀ q ∈ newL na (sortById st.allFs),
      Json.renderFs K ts (cass ++ [ld1.cas]) ld1.heap q.2 = .ok (Json.elemOf ts (cass ++ [ld1.cas]) ld1.heap q) := by
    intro q hq
    obtain ⟨o, t, ho, ht, _⟩ := hL'.flat q hq
    have he : Json.elemOf ts (cass ++ [ld1.cas]) ld1.heap q = Json.flatJFs ts (cass ++ [ld1.cas]) ld1.heap q.1 o t := by
      unfold Json.elemOf
      rw [ho]
      dsimp only
      rw [ht]
    rw [he]
    exact Json.renderFs_flatJ K ts _ ld1.cas cass.length ld1.heap q.2 q.1 o t hc' (hL'.flat q hq) ho ht
      (hL'.ids q hq).1 (fun f hf => ((hjson' q hq o t ho ht).2 f hf).2.2.2) (hsr' q hq o t ho ht)
  have hrA := Json.renderAll_eq_map K ts (cass ++ [ld1.cas]) ld1.heap _ hrenderA
  have hsave2 := Json.saveJson_intro (K := K) (ts := ts) hc' harr' hfa2 (by rw [hheap2, hsort]; exact hrA)
  -- the normalised CAS
  have hconv : ∀ nv ∈ ld1.cas.views, ∀ t, nv.2.sofa.text = some t → ∀ k, k ≤ t.length →
      Offsets.pythonToExternal nv.2.sofa.conv k = Offsets.pythonToExternal (some (Offsets.table t)) k := by
    intro nv' hnv' t ht k hk
    obtain ⟨nv, hnv, hr⟩ := viewsRelL_bwd _ _ _ _ hvrel nv' hnv'
    have ht0 : nv.2.sofa.text = some t := by rw [← hr.2.2.2.2.1]; exact ht
    rw [hr.2.2.2.2.2.2.1, ht0]
    exact conv_p2e_eq t (hwf.scalar nv hnv t ht0) k hk
  have hwfB : RTWf (normCas ld1.cas) [] :=
    rtwf_norm w1 w2 w3 w4 hplain w5 hnx' (by
      intro nv' hnv'
      refine ⟨w6 nv' hnv', ?_⟩
      obtain ⟨nv, hnv, hr⟩ := VRL.bwd x.views nv' hnv'
      rw [hr.2.2.1]
      exact (hreseed nv hnv).1)
  obtain ⟨ld2, fss2, hload2, hfs2, hvc2⟩ :=
    json_roundtrip_weak K ts (cass ++ [normCas ld1.cas]) cass.length (normCas ld1.cas) [] ld1.heap
      (newL na (sortById st.allFs)) tsIdx (cass.length + 1)
      { types := none,
        fss := ld1.cas.views.map (fun p => Json.renderSofa ld1.heap p.2.sofa) ++
          (newL na (sortById st.allFs)).map (Json.elemOf ts (cass ++ [ld1.cas]) ld1.heap),
        views := ld1.cas.views.map (Json.jviewOf ld1.heap) }
      hcB hwfB (lok_norm hL') (dis_norm hdis') hjson' (mem_sofa_norm hmem') (membersOk_norm hmok')
      (by
        show _ ++ _ = _ ++ _
        rw [renderSofa_norm ld1.heap [] ld1.cas harr']
        congr 1
        apply List.map_congr_left
        intro q hq
        exact (elemOf_norm hc' hcB hconv q (hL'.flat q hq)).symm)
      (jviews_norm ld1.heap ld1.cas).symm rfl
  refine ⟨ld1, _, st2, ld2, fss2, hload1, hsave2, by rw [hheap2]; exact hload2, ?_, ?_⟩
  · rw [hvc2, viewContent_norm, hvc1]
  · intro q hq0
    have hq := mem_sortById.mpr hq0
    have hq' : (q.1, na q.1) ∈ newL na (sortById st.allFs) := List.mem_map.mpr ⟨q, hq, rfl⟩
    obtain ⟨o, o', ho, ho', hty, _, hfc⟩ := x.content q hq
    obtain ⟨a2, o1, o2, hlk, ho1, ho2, hty2, hx2, hfc2⟩ := hfs2 _ hq'
    have e1 : o1 = o' := by
      have : ld1.heap[na q.1]? = some o1 := ho1
      rw [ho'] at this
      exact (Option.some.inj this).symm
    subst e1
    refine ⟨a2, o, o2, hlk, ho, ho2, hty2.trans hty, hx2, ?_⟩
    intro t ht f hf
    rw [hfc2 t (by rw [hty]; exact ht) f hf]
    exact hfc t ht f hf

/-- JSON → CAS → XMI → CAS -/
theorem chain_json_xmi_flat_aux (K : Consts) (ts : TypeSystem) (cass : List Cas) (ci : Nat) (c : Cas) (hp : Heap)
    (tsIdx : Nat) (docj : Json.JDoc) (st : St)
    (hc : cass[ci]? = some c) (hwf : RTWf c hp) (hnull : NullOk ts)
    (hsave : Json.saveJson K ts cass ci hp .none = .ok (docj, st))
    (hflat : ∀ q ∈ st.allFs, FlatFs K ts c ci st.heap q.2)
    (hjson : ∀ q ∈ st.allFs, Json.JsonFs ts st.heap q.2)
    (hids : ∀ nv ∈ c.views, ∀ e ∈ Index.all nv.2.idx, (xidOf hp e.oid).isSome = true)
    (hdis : ∀ q ∈ st.allFs, ∀ nv ∈ c.views, q.1 ≠ nv.2.sofa.xid)
    (hmem : ∀ nv ∈ c.views, ∀ e ∈ Index.all nv.2.idx, Xmi.slot st.heap e.oid "sofa" ≠ some .none)
    (hmok : MembersOk c st.heap) :
    ∃ (ld1 : Json.Loaded) (docx : XDoc) (st2 : St) (p2 : Pass1) (ld2 : Xmi.Loaded),
      Json.loadJson K ts tsIdx cass.length false false st.heap docj = .ok ld1 ∧
      saveXmi K ts (cass ++ [ld1.cas]) cass.length ld1.heap = .ok (docx, st2) ∧
      pass1 K ts tsIdx false docx { heap := st2.heap } = .ok p2 ∧
      loadXmi K ts tsIdx (cass.length + 1) false st2.heap docx = .ok ld2 ∧
      ld2.cas.views.map (viewContent ld2.heap) = c.views.map (viewContent st.heap) ∧
      (∀ q ∈ st.allFs, ∃ (a2 : Nat) (o o2 : Obj), lookupFs p2.fss q.1 = .ok a2 ∧
          st.heap[q.2]? = some o ∧ ld2.heap[a2]? = some o2 ∧ o2.ty = o.ty ∧ o2.xid = some q.1 ∧
          ∀ t : TypeRec, find? ts o.ty = some t → ∀ f ∈ allFeatures t,
            featContent ld2.heap a2 f.name = featContent st.heap q.2 f.name) := by
  -- the first half
  obtain ⟨ld1, m, hload1, _, g, _, _, _, _, hrel, hviewsJ, hvc1, hnx, hm0, _, hms⟩ :=
    Json.json_core K ts cass ci c hp tsIdx cass.length docj st hc hwf hsave hflat hjson hids hdis hmem hmok
  have hL := g.lok
  have harr : ∀ nv ∈ c.views, nv.2.sofa.arr = .none := fun nv hnv => (hwf.text_sofa nv hnv).1
  have hfa := (Json.saveJson_parts hc harr hsave).1
  have hc' : (cass ++ [ld1.cas])[cass.length]? = some ld1.cas := List.getElem?_concat_length
  have x : LdCtx K ts c ci st.heap (sortById st.allFs) (Json.naOf st.heap (sortById st.allFs)) ld1.cas cass.length
      ld1.heap :=
    ⟨hL, hrel, VRL.of_json hviewsJ, Json.new_flatJ (ci' := cass.length) hL hrel hviewsJ⟩
  have hnx' : 0 < ld1.cas.nextXid := by omega
  -- the loaded CAS is traversed …
  obtain ⟨st2, hfa2, hheap2, hS⟩ := x.traversal {}
  obtain ⟨_, hsort⟩ := LdCtx.sorted hwf.next_pos hfa x hnx' hfa2 hheap2 hS
  have hL' := x.lok'
  have hmem' := x.mem_sofa' hmem
  have hmok' := x.membersOk' hmok
  obtain ⟨w1, w2, w3, w4, w5, w6⟩ := views_wf hwf x.views
  -- … and written
  obtain ⟨es, _, hes, _⟩ := renderAll_trip K ts (cass ++ [ld1.cas]) ld1.cas cass.length ld1.heap tsIdx hc' _
    hL'.flat (fun q hq => (hL'.ids q hq).1)
  have hsave2 : saveXmi K ts (cass ++ [ld1.cas]) cass.length ld1.heap =
      .ok ([{ ty := NULL_T, attrs := [(ID, "0")] }] ++ es ++
        ld1.cas.views.map (fun p => renderSofa p.2.sofa) ++ ld1.cas.views.map (fun p => renderView st2.heap p.2), st2) := by
    unfold saveXmi
    rw [hc']
    simp only [bind, Except.bind, pure, Except.pure, hfa2, hsort, hheap2, hes]
  -- the views of the loaded CAS are well-formed (the JSON reader restores the sofas as they were)
  have hwf' : RTWf ld1.cas [] :=
    { init_first := w1, names := w2, names_nodup := w3, sofa_ids_nodup := w4,
      text_sofa := by
        intro nv' hnv'
        obtain ⟨nv, hnv, hr⟩ := Json.viewsRelJ_bwd _ _ _ _ hviewsJ nv' hnv'
        rw [hr.2.1]; exact hwf.text_sofa nv hnv
      conv := by
        intro nv' hnv' t ht
        obtain ⟨nv, hnv, hr⟩ := Json.viewsRelJ_bwd _ _ _ _ hviewsJ nv' hnv'
        rw [hr.2.1] at ht ⊢; exact hwf.conv nv hnv t ht
      conv_none := by
        intro nv' hnv' ht
        obtain ⟨nv, hnv, hr⟩ := Json.viewsRelJ_bwd _ _ _ _ hviewsJ nv' hnv'
        rw [hr.2.1] at ht ⊢; exact hwf.conv_none nv hnv ht
      scalar := w5
      next_pos := hnx'
      ids_below := by intro a ob _ ha; cases ha
      sofa_ids := by
        intro nv' hnv'
        refine ⟨w6 nv' hnv', ?_⟩
        obtain ⟨nv, hnv, hr⟩ := VRL.bwd x.views nv' hnv'
        rw [hr.2.2.1]
        have := (hms nv hnv).1
        omega
      ids_pos := by intro a ob _ ha; cases ha }
  obtain ⟨p2, ld2, hp2, hload2, hfs2, hvc2⟩ :=
    xmi_roundtrip_weak K ts (cass ++ [ld1.cas]) cass.length ld1.cas [] ld1.heap tsIdx (cass.length + 1) _ st2
      hc' hwf' hnull hsave2 (by rw [hheap2, hsort]; exact hL') (by rw [hheap2]; exact hmem')
      (by rw [hheap2]; exact hmok')
  refine ⟨ld1, _, st2, p2, ld2, hload1, hsave2, hp2, hload2, ?_, ?_⟩
  · rw [hvc2, hheap2, hvc1]
  · intro q hq0
    have hq := mem_sortById.mpr hq0
    have hq' : (q.1, Json.naOf st.heap (sortById st.allFs) q.1) ∈ sortById st2.allFs := by
      rw [hsort]; exact List.mem_map.mpr ⟨q, hq, rfl⟩
    obtain ⟨o, o', ho, ho', hty, _, hfc⟩ := x.content q hq
    obtain ⟨a2, o1, o2, hlk, ho1, ho2, hty2, hx2, hfc2⟩ := hfs2 _ hq'
    have e1 : o1 = o' := by
      have : ld1.heap[Json.naOf st.heap (sortById st.allFs) q.1]? = some o1 := by rw [← hheap2]; exact ho1
      rw [ho'] at this
      exact (Option.some.inj this).symm
    subst e1
    refine ⟨a2, o, o2, hlk, ho, ho2, hty2.trans hty, hx2, ?_⟩
    intro t ht f hf
    rw [hfc2 t (by rw [hty]; exact ht) f hf, hheap2]
    exact hfc t ht f hf

end Cassis
