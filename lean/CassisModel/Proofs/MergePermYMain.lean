/-
Proof of `Properties/C13PermSub.lean`: order independence of `merge_typesystems` when names may be declared with competing
supertypes *and have declared subtypes* (a whole subtree is re-parented), provided every competing supertype and each of
its declared ancestors is declared with one supertype throughout (`StableCompete`).

Same route as `Proofs/MergePermXMain.lean`: a successful run leaves a tree `o` in which every declared supertype is an
ancestor of the declared name (`DoneX`, part YC) and the supertype of every name is a declared one (`RInvY.edge`) — so
that, by `StableCompete`, no movable name lies in `o` above a declared supertype of a movable name (`noE_above`);
replaying the declarations in another order stays inside `o`, moving the subtrees of the names of `E` down step by step
(parts YB, YD; the feature invariant after such a move is `featInv_reparent`); two trees that are parts of each other
agree (`sameHier_of_subX`).
-/
import CassisModel.Spec.MergePermSub
import CassisModel.Proofs.MergePermXMain
import CassisModel.Proofs.MergePermYD

namespace Cassis.TS

theorem DeclAnc.trans {decls : List Decl} {a b c : String} (h1 : DeclAnc decls a b) (h2 : DeclAnc decls b c) :
    DeclAnc decls a c := by
  induction h2 with
  | refl => exact h1
  | step d hd _ ih => exact DeclAnc.step a d hd ih

theorem declAnc_perm {decls decls' : List Decl} (hp : decls.Perm decls') {a b : String} (h : DeclAnc decls a b) :
    DeclAnc decls' a b := by
  induction h with
  | refl => exact DeclAnc.refl a
  | step d hd _ ih => exact DeclAnc.step a d (hp.mem_iff.mp hd) ih

theorem stableCompete_perm {decls decls' : List Decl} (hp : decls.Perm decls') (h : StableCompete decls) :
    StableCompete decls' := by
  intro d hd hE a ha hEa
  exact h d (hp.mem_iff.mpr hd) ((competing_perm hp d.name).mpr hE) a (declAnc_perm hp.symm ha)
    ((competing_perm hp a).mpr hEa)

/-- a set of names closed under declared supertypes contains the declared ancestors of its members -/
theorem declAnc_closed {decls : List Decl} {S : List String} (hS : ∀ e ∈ decls, e.name ∈ S → e.super ∈ S)
    {a b : String} (h : DeclAnc decls a b) : b ∈ S → a ∈ S := by
  induction h with
  | refl => exact fun h => h
  | step d hd _ ih => exact fun h => ih (hS d hd h)

/-- in a tree whose supertype links are those of the base or declared ones, no movable name lies above a base type or
    above a declared ancestor of a competing supertype -/
theorem noE_above {E : String → Prop} (base o : TypeSystem) (decls : List Decl) (hcb : Consistent base)
    (hedge : ∀ x t, find? o x = some t → (∃ tb, find? base x = some tb ∧ t.super = tb.super) ∨
      (∃ d ∈ decls, d.name = x ∧ t.super = some d.super))
    (hEb : ∀ x tb, find? base x = some tb → ¬ E x)
    (hbd : ∀ d ∈ decls, ∀ tb, find? base d.name = some tb → tb.super = some d.super)
    (hst : ∀ d ∈ decls, E d.name → ∀ a, DeclAnc decls a d.super → ¬ E a) :
    ∀ n a, Anc o n a → E n →
      (hasExact base a = true ∨ ∃ d ∈ decls, E d.name ∧ DeclAnc decls a d.super) → False := by
  intro n a h
  induction h with
  | refl _ =>
    intro hE hup
    rcases hup with hb | ⟨d, hd, hEd, ha⟩
    · obtain ⟨tb, htb⟩ := (hasExact_iff_find _ _).mp hb
      exact hEb n tb htb hE
    · exact hst d hd hEd n ha hE
  | step b s tb hfb hsb _ ih =>
    intro hE hup
    apply ih hE
    rcases hedge b tb hfb with ⟨tb0, htb0, hs0⟩ | ⟨d', hd', hn', hs'⟩
    · left
      exact hcb.superReg tb0 (find?_mem htb0) s (by rw [← hs0]; exact hsb)
    · have es : s = d'.super := by rw [hsb] at hs'; exact Option.some.inj hs'
      rcases hup with hb | ⟨d, hd, hEd, ha⟩
      · left
        obtain ⟨tb0, htb0⟩ := (hasExact_iff_find _ _).mp hb
        rw [← hn'] at htb0
        have := hbd d' hd' tb0 htb0
        rw [es]
        exact hcb.superReg tb0 (find?_mem htb0) _ this
      · right
        refine ⟨d, hd, hEd, ?_⟩
        have h1 : DeclAnc decls s b := by
          rw [es, ← hn']; exact DeclAnc.step _ d' hd' (DeclAnc.refl _)
        exact h1.trans ha

theorem init_rinvY (decls : List Decl) (hu : UserDecls Gen.consts decls) (hb : BaseAgree decls) :
    RInvY Gen.consts Gen.builtinTS decls (Competing decls) { ts := Gen.builtinTS, merged := [] } := by
  refine ⟨consistent_builtins_aux.1, featInv_builtins_aux.1, builtin_pre, (fun x hx => by cases hx), ?_, ?_⟩
  · intro d hd _ t ht
    rcases builtin_names_predefined t (find?_mem ht) with h1 | ⟨h1, h2, _⟩
    · exfalso
      rw [find?_name ht, (hu d hd).1] at h1
      cases h1
    · rw [find?_name ht] at h1
      rw [hb d hd h1]
      exact ⟨h2, annotation_nonfinal⟩
  · intro x t ht
    exact Or.inl ⟨t, ht, rfl⟩

/-- a declared built-in name (that is, the document annotation type) is declared where the base has it -/
theorem base_decl_agree {decls : List Decl} (hu : UserDecls Gen.consts decls) (hb : BaseAgree decls) :
    ∀ d ∈ decls, ∀ tb, find? Gen.builtinTS d.name = some tb → tb.super = some d.super := by
  intro d hd tb htb
  rcases builtin_names_predefined tb (find?_mem htb) with h1 | ⟨h1, h2, _⟩
  · exfalso
    rw [find?_name htb, (hu d hd).1] at h1
    cases h1
  · rw [find?_name htb] at h1
    rw [hb d hd h1]; exact h2

/-! ### One direction -/

theorem merge_perm_dirY (decls decls' : List Decl) (hp : decls.Perm decls')
    (hc : ClosedDecls Gen.consts decls) (hu : UserDecls Gen.consts decls) (hb : BaseAgree decls)
    (hst : StableCompete decls) (hnf : CompeteNonFinal Gen.consts decls)
    (o : TypeSystem) (h : mergeDecls Gen.consts Gen.builtinTS decls = .ok o) :
    Consistent o ∧ FeatInv o ∧
      ∃ m, mergeDecls Gen.consts Gen.builtinTS decls' = .ok m ∧ Consistent m ∧ FeatInv m ∧
        SubP o (Competing decls) m := by
  have E2 : ∀ d ∈ decls, ∀ d' ∈ decls, d.name = d'.name → ¬ Competing decls d.name → d.super = d'.super := by
    intro d hd d' hd' hn hE
    apply Classical.byContradiction
    intro hne
    exact hE ⟨d, hd, d', hd', rfl, hn.symm, hne⟩
  have E2' : ∀ d ∈ decls', ∀ d' ∈ decls', d.name = d'.name → ¬ Competing decls d.name → d.super = d'.super :=
    fun d hd d' hd' => E2 d (hp.mem_iff.mpr hd) d' (hp.mem_iff.mpr hd')
  have hrun : ∃ s, mergeLoop Gen.consts decls (decls.length + 1) { ts := Gen.builtinTS, merged := [] } = .ok s ∧
      s.ts = o := by
    unfold mergeDecls at h
    split at h
    · cases h
    · rename_i s hs
      cases h
      exact ⟨s, hs, rfl⟩
  obtain ⟨s, hs, rfl⟩ := hrun
  obtain ⟨hi, hg, hdone⟩ := mergeLoop_runY Gen.consts Gen.builtinTS decls top_predefined E2
    (fun d hd => (hu d hd).1) _ _ s (init_rinvY decls hu hb) hs
  have hEb : ∀ x tb, find? Gen.builtinTS x = some tb → ¬ Competing decls x :=
    fun x tb htb => not_competing_builtin hu hb htb
  have hno := noE_above (E := Competing decls) Gen.builtinTS s.ts decls consistent_builtins_aux.1 hi.edge hEb
    (base_decl_agree hu hb) (fun d hd hE a ha => hst d hd hE a ha)
  obtain ⟨_, rank, hrank⟩ := hc
  have hok : ∀ d ∈ decls', DeclOkY Gen.consts s.ts (Competing decls) d := by
    intro d hd'
    have hd := hp.mem_iff.mpr hd'
    obtain ⟨⟨t, ht, hcv⟩, hanc⟩ := hdone d hd
    have hxn : d.super ≠ d.name := by
      intro e
      cases hpd : Gen.consts.predefined.contains d.super with
      | true => rw [e, (hu d hd).1] at hpd; cases hpd
      | false =>
        have := hrank d hd hpd
        rw [e] at this
        exact Nat.lt_irrefl _ this
    refine ⟨⟨t, ht, hcv, hanc, hxn, fun hE => (hi.sup d hd hE t ht).1⟩, ?_, (hu d hd).1, ?_⟩
    · by_cases hE : Competing decls d.name
      · exact hnf d hd hE
      · exact (hi.sup d hd hE t ht).2
    · intro hE n hn hanc'
      exact hno n d.super hanc' hn (Or.inr ⟨d, hd, hE, DeclAnc.refl _⟩)
  have hc' := closedDecls_perm hp ⟨by assumption, rank, hrank⟩
  have hterm := merge_terminates_aux Gen.consts Gen.builtinTS decls' hc'.closed hc'.acyclic
  have hu' := userDecls_perm hp hu
  have hb' := baseAgree_perm hp hb
  have hinit : MInvY Gen.consts Gen.builtinTS decls' s.ts (Competing decls) { ts := Gen.builtinTS, merged := [] } := by
    refine ⟨?_, (init_invX hu hb hg).sub⟩
    have := init_rinvY decls' hu' hb'
    have hEE : Competing decls' = Competing decls := by
      funext n
      exact propext (competing_perm hp n).symm
    rw [hEE] at this
    exact this
  obtain ⟨s', hm, hi'⟩ := mergeDecls_replayY Gen.consts Gen.builtinTS decls' s.ts hi.feat hi.cons top_predefined E2'
    hEb hok hinit hterm
  exact ⟨hi.cons, hi.feat, s'.ts, hm, hi'.run.cons, hi'.run.feat, hi'.sub⟩

/-! ### The statement -/

theorem merge_perm_subtree_compete_aux (decls decls' : List Decl) (hp : decls.Perm decls')
    (hc : ClosedDecls Gen.consts decls) (hu : UserDecls Gen.consts decls) (hb : BaseAgree decls)
    (hst : StableCompete decls) (hnf : CompeteNonFinal Gen.consts decls) :
    match mergeDecls Gen.consts Gen.builtinTS decls, mergeDecls Gen.consts Gen.builtinTS decls' with
    | .ok ts, .ok ts' => SameHier ts ts'
    | .error _, .error _ => True
    | _, _ => False := by
  have hc' := closedDecls_perm hp hc
  have hu' := userDecls_perm hp hu
  have hb' := baseAgree_perm hp hb
  have hst' := stableCompete_perm hp hst
  have hnf' := competeNonFinal_perm hp hnf
  have hEE : Competing decls' = Competing decls := by
    funext n
    exact propext (competing_perm hp n).symm
  cases h : mergeDecls Gen.consts Gen.builtinTS decls with
  | ok o =>
    obtain ⟨hco, _, m, hm, hcm, _, hom⟩ := merge_perm_dirY decls decls' hp hc hu hb hst hnf o h
    rw [hm]
    obtain ⟨_, _, o', ho', _, _, hmo⟩ := merge_perm_dirY decls' decls hp.symm hc' hu' hb' hst' hnf' m hm
    rw [h] at ho'
    cases ho'
    rw [hEE] at hmo
    exact sameHier_of_subX o m hco hcm hom hmo
  | error e =>
    cases h' : mergeDecls Gen.consts Gen.builtinTS decls' with
    | error e' => trivial
    | ok m =>
      obtain ⟨_, _, o', ho', _⟩ := merge_perm_dirY decls' decls hp.symm hc' hu' hb' hst' hnf' m h'
      rw [h] at ho'
      cases ho'

/-- … in terms of `merge_typesystems(*inputs)`: permuting the inputs permutes the declarations -/
theorem merge_perm_subtree_compete_inputs_aux (inputs inputs' : List TypeSystem) (hp : inputs.Perm inputs')
    (hc : ClosedDecls Gen.consts (inputs.flatMap (declsOf Gen.consts)))
    (hu : UserDecls Gen.consts (inputs.flatMap (declsOf Gen.consts)))
    (hb : BaseAgree (inputs.flatMap (declsOf Gen.consts)))
    (hs : StableCompete (inputs.flatMap (declsOf Gen.consts)))
    (hnf : CompeteNonFinal Gen.consts (inputs.flatMap (declsOf Gen.consts))) :
    match merge Gen.consts Gen.builtinTS inputs, merge Gen.consts Gen.builtinTS inputs' with
    | .ok ts, .ok ts' => SameHier ts ts'
    | .error _, .error _ => True
    | _, _ => False :=
  merge_perm_subtree_compete_aux _ _ (hp.flatMap_right _) hc hu hb hs hnf

end Cassis.TS
