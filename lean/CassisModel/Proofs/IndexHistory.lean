/-
Helper lemmas for C06: the dictionary of per-type sorted lists (`Model/Index.lean`) against the
abstract bag of `(type name, entry)` pairs (`Spec/Index.lean`), one step and whole histories.
-/
import CassisModel.Proofs.Index

namespace Cassis.Index

/-! ### Association lists -/

theorem alistSet_keys {β} (l : List (String × β)) (k : String) (v : β) :
    (alistSet l k v).map (·.1) = if k ∈ l.map (·.1) then l.map (·.1) else l.map (·.1) ++ [k] := by
  induction l with
  | nil => simp [alistSet]
  | cons p rest ih =>
    obtain ⟨k', v'⟩ := p
    unfold alistSet
    by_cases hk : k' = k
    · subst hk
      simp
    · have hk' : ¬ k = k' := fun h => hk h.symm
      simp only [hk, if_false, List.map_cons, ih, List.mem_cons, hk', false_or]
      split <;> simp

theorem alistSet_keys_congr {β γ} (l1 : List (String × β)) (l2 : List (String × γ)) (k : String)
    (v1 : β) (v2 : γ) (h : l1.map (·.1) = l2.map (·.1)) :
    (alistSet l1 k v1).map (·.1) = (alistSet l2 k v2).map (·.1) := by
  rw [alistSet_keys, alistSet_keys, h]

theorem alistSet_keys_nodup {β} (l : List (String × β)) (k : String) (v : β)
    (h : (l.map (·.1)).Nodup) : ((alistSet l k v).map (·.1)).Nodup := by
  rw [alistSet_keys]
  split
  · exact h
  · rename_i hk
    rw [List.nodup_append]
    refine ⟨h, by simp, ?_⟩
    intro a ha b hb
    simp only [List.mem_singleton] at hb
    subst hb
    intro hab
    subst hab
    exact hk ha

theorem alistGet?_none_of_not_mem {β} (l : List (String × β)) (k : String)
    (h : k ∉ l.map (·.1)) : alistGet? l k = none := by
  induction l with
  | nil => rfl
  | cons p rest ih =>
    obtain ⟨k', v'⟩ := p
    simp only [List.map_cons, List.mem_cons, not_or] at h
    unfold alistGet?
    have hk : ¬ k' = k := fun e => h.1 e.symm
    simp only [hk, if_false]
    exact ih h.2

theorem get_alistSet (idx : Idx) (k k' : String) (v : List Entry) :
    get (alistSet idx k v) k' = if k' = k then v else get idx k' := by
  unfold get
  by_cases h : k' = k
  · subst h
    simp [alistGet?_set_same]
  · simp [h, alistGet?_set_other idx k k' v h]

theorem get_cons (k : String) (v : List Entry) (rest : Idx) (n : String) :
    get ((k, v) :: rest) n = if k = n then v else get rest n := by
  unfold get
  simp only [alistGet?]
  split <;> simp

theorem get_nil (n : String) : get [] n = [] := rfl

theorem get_of_not_mem (idx : Idx) (k : String) (h : k ∉ idx.map (·.1)) : get idx k = [] := by
  unfold get
  rw [alistGet?_none_of_not_mem idx k h]
  rfl

/-! ### `pairs` -/

theorem pairs_nil : pairs [] = [] := rfl

theorem pairs_cons (k : String) (v : List Entry) (rest : Idx) :
    pairs ((k, v) :: rest) = v.map (fun x => (k, x)) ++ pairs rest := by
  simp [pairs, List.flatMap_cons]

theorem mem_pairs_key {idx : Idx} {k : String} {x : Entry} (h : (k, x) ∈ pairs idx) :
    k ∈ idx.map (·.1) := by
  induction idx with
  | nil => simp [pairs_nil] at h
  | cons p rest ih =>
    obtain ⟨k', v'⟩ := p
    rw [pairs_cons, List.mem_append] at h
    rcases h with h | h
    · rw [List.mem_map] at h
      obtain ⟨y, _, hy⟩ := h
      have : k' = k := congrArg Prod.fst hy
      simp [this]
    · simp [ih h]

theorem mem_pairs_iff (idx : Idx) (k : String) (x : Entry) (h : KeysNodup idx) :
    (k, x) ∈ pairs idx ↔ x ∈ get idx k := by
  induction idx with
  | nil => simp [pairs_nil, get_nil]
  | cons p rest ih =>
    obtain ⟨k', v'⟩ := p
    unfold KeysNodup at h
    rw [List.map_cons, List.nodup_cons] at h
    rw [pairs_cons, List.mem_append, get_cons]
    by_cases hk : k' = k
    · subst hk
      simp only [if_true]
      constructor
      · rintro (hm | hm)
        · rw [List.mem_map] at hm
          obtain ⟨y, hy, hyx⟩ := hm
          have : y = x := congrArg Prod.snd hyx
          exact this ▸ hy
        · exact absurd (mem_pairs_key hm) h.1
      · intro hm
        exact Or.inl (List.mem_map.mpr ⟨x, hm, rfl⟩)
    · simp only [hk, if_false]
      rw [← ih h.2]
      constructor
      · rintro (hm | hm)
        · rw [List.mem_map] at hm
          obtain ⟨y, _, hyx⟩ := hm
          exact absurd (congrArg Prod.fst hyx) hk
        · exact hm
      · exact Or.inr

/-- replacing the list under `k` by a permutation of `x ::` the old one adds the pair `(k, x)` -/
theorem pairs_alistSet_add (idx : Idx) (k : String) (x : Entry) (l' : List Entry)
    (hl : l'.Perm (x :: get idx k)) :
    (pairs (alistSet idx k l')).Perm ((k, x) :: pairs idx) := by
  induction idx with
  | nil =>
    rw [get_nil] at hl
    simp only [alistSet, pairs_cons, pairs_nil, List.append_nil]
    exact hl.map _
  | cons p rest ih =>
    obtain ⟨k', v'⟩ := p
    rw [get_cons] at hl
    unfold alistSet
    by_cases hk : k' = k
    · subst hk
      simp only [if_true] at hl ⊢
      rw [pairs_cons, pairs_cons]
      have := (hl.map (fun y => (k', y))).append_right (pairs rest)
      simpa using this
    · simp only [hk, if_false] at hl ⊢
      rw [pairs_cons, pairs_cons]
      exact ((ih hl).append_left _).trans List.perm_middle

/-- replacing the list under `k` by what is left after taking out `x` removes the pair `(k, x)` -/
theorem pairs_alistSet_rem (idx : Idx) (k : String) (x : Entry) (l' : List Entry)
    (hl : (get idx k).Perm (x :: l')) :
    (pairs idx).Perm ((k, x) :: pairs (alistSet idx k l')) := by
  induction idx with
  | nil =>
    rw [get_nil] at hl
    exact absurd hl.length_eq (by simp)
  | cons p rest ih =>
    obtain ⟨k', v'⟩ := p
    rw [get_cons] at hl
    unfold alistSet
    by_cases hk : k' = k
    · subst hk
      simp only [if_true] at hl ⊢
      rw [pairs_cons, pairs_cons]
      have := (hl.map (fun y => (k', y))).append_right (pairs rest)
      simpa using this
    · simp only [hk, if_false] at hl ⊢
      rw [pairs_cons, pairs_cons]
      exact ((ih hl).append_left _).trans List.perm_middle

/-! ### One step -/

theorem keysNodup_add_aux (idx : Idx) (ty : String) (x : Entry) (h : KeysNodup idx) :
    KeysNodup (add idx ty x) :=
  alistSet_keys_nodup idx ty _ h

theorem allSorted_alistSet (idx : Idx) (ty : String) (l : List Entry) (h : AllSorted idx)
    (hl : Sorted l) : AllSorted (alistSet idx ty l) := by
  intro n
  rw [get_alistSet]
  split
  · exact hl
  · exact h n

theorem allSorted_add_aux (idx : Idx) (ty : String) (x : Entry) (h : AllSorted idx) :
    AllSorted (add idx ty x) :=
  allSorted_alistSet idx ty _ h (insert_sorted (h ty))

theorem pairs_add_perm_aux (idx : Idx) (ty : String) (x : Entry) (_h : KeysNodup idx) :
    (pairs (add idx ty x)).Perm ((ty, x) :: pairs idx) :=
  pairs_alistSet_add idx ty x _ (insert_perm x (get idx ty))

theorem rem_none_iff_mem (idx : Idx) (ty : String) (x : Entry) :
    rem idx ty x = none ↔ x ∉ get idx ty := by
  unfold rem remove
  by_cases hc : (get idx ty).contains x = true
  · simp only [hc, if_true]
    simp only [List.contains_iff_mem] at hc
    simp [hc]
  · simp only [hc]
    simp only [List.contains_iff_mem] at hc
    simp [hc]

theorem rem_some_iff (idx idx' : Idx) (ty : String) (x : Entry) :
    rem idx ty x = some idx' ↔ x ∈ get idx ty ∧ idx' = alistSet idx ty ((get idx ty).erase x) := by
  unfold rem remove
  by_cases hc : (get idx ty).contains x = true
  · simp only [hc, if_true]
    simp only [List.contains_iff_mem] at hc
    simp only [Option.some.injEq, hc, true_and]
    exact eq_comm
  · simp only [hc]
    simp only [List.contains_iff_mem] at hc
    simp [hc]

theorem rem_none_iff_aux (idx : Idx) (ty : String) (x : Entry) (h : KeysNodup idx) :
    rem idx ty x = none ↔ (ty, x) ∉ pairs idx := by
  rw [rem_none_iff_mem, mem_pairs_iff idx ty x h]

theorem rem_some_perm_aux (idx idx' : Idx) (ty : String) (x : Entry) (h : KeysNodup idx)
    (hr : rem idx ty x = some idx') :
    (pairs idx).Perm ((ty, x) :: pairs idx') ∧ KeysNodup idx' ∧ (AllSorted idx → AllSorted idx') := by
  obtain ⟨hm, rfl⟩ := (rem_some_iff idx idx' ty x).mp hr
  refine ⟨?_, ?_, ?_⟩
  · exact pairs_alistSet_rem idx ty x _ (List.perm_cons_erase hm)
  · exact alistSet_keys_nodup idx ty _ h
  · intro hs
    exact allSorted_alistSet idx ty _ hs (erase_sorted (hs ty))

/-! ### Queries -/

theorem all_eq_pairs_aux (idx : Idx) : all idx = (pairs idx).map (·.2) := by
  induction idx with
  | nil => rfl
  | cons p rest ih =>
    obtain ⟨k, v⟩ := p
    rw [pairs_cons, List.map_append, ← ih, List.map_map]
    have hid : ((fun p : String × Entry => p.2) ∘ fun x => (k, x)) = id := rfl
    rw [hid, List.map_id]
    simp only [all, List.flatMap_cons]

theorem filter_map_key (names : List String) (k : String) (v : List Entry) :
    ((v.map (fun x => (k, x))).filter (fun p => names.contains p.1)).map (·.2)
      = if k ∈ names then v else [] := by
  by_cases hk : k ∈ names
  · have hf : (v.map (fun x => (k, x))).filter (fun p => names.contains p.1)
        = v.map (fun x => (k, x)) := by
      rw [List.filter_eq_self]
      intro p hp
      rw [List.mem_map] at hp
      obtain ⟨y, _, rfl⟩ := hp
      exact List.contains_iff_mem.mpr hk
    have hid : ((fun p : String × Entry => p.2) ∘ fun x => (k, x)) = id := rfl
    rw [hf, List.map_map, if_pos hk, hid, List.map_id]
  · have hf : (v.map (fun x => (k, x))).filter (fun p => names.contains p.1) = [] := by
      rw [List.filter_eq_nil_iff]
      intro p hp hc
      rw [List.mem_map] at hp
      obtain ⟨y, _, rfl⟩ := hp
      exact hk (List.contains_iff_mem.mp hc)
    rw [hf, if_neg hk]
    rfl

theorem selectNames_perm_aux (idx : Idx) (names : List String) (hk : KeysNodup idx) (hn : names.Nodup) :
    (selectNames idx names).Perm (((pairs idx).filter (fun p => names.contains p.1)).map (·.2)) := by
  unfold selectNames
  induction idx with
  | nil =>
    have : names.flatMap (get []) = [] := by
      rw [List.flatMap_eq_nil_iff]
      intro n _
      rfl
    rw [this, pairs_nil]
    exact List.Perm.refl _
  | cons p rest ih =>
    obtain ⟨k, v⟩ := p
    unfold KeysNodup at hk
    rw [List.map_cons, List.nodup_cons] at hk
    have ih' := ih hk.2
    rw [pairs_cons, List.filter_append, List.map_append, filter_map_key]
    by_cases hkn : k ∈ names
    · simp only [hkn, if_true]
      have hperm : names.Perm (k :: names.erase k) := List.perm_cons_erase hkn
      have hnd : (k :: names.erase k).Nodup := hperm.nodup_iff.mp hn
      rw [List.nodup_cons] at hnd
      have h1 : (names.erase k).flatMap (get ((k, v) :: rest)) = (names.erase k).flatMap (get rest) := by
        apply flatMap_congr'
        intro n hnm
        rw [get_cons]
        have : ¬ k = n := fun e => hnd.1 (e ▸ hnm)
        simp [this]
      have h2 : (k :: names.erase k).flatMap (get rest) = (names.erase k).flatMap (get rest) := by
        rw [List.flatMap_cons, get_of_not_mem rest k hk.1, List.nil_append]
      refine (hperm.flatMap_right _).trans ?_
      rw [List.flatMap_cons, get_cons]
      simp only [if_true]
      apply List.Perm.append_left
      rw [h1, ← h2]
      exact ((hperm.flatMap_right _).symm).trans ih'
    · simp only [hkn, if_false, List.nil_append]
      have h1 : names.flatMap (get ((k, v) :: rest)) = names.flatMap (get rest) := by
        apply flatMap_congr'
        intro n hnm
        rw [get_cons]
        have : ¬ k = n := fun e => hkn (e ▸ hnm)
        simp [this]
      rw [h1]
      exact ih'

/-! ### Histories -/

/-- the representation invariant of C06 (same body as `Rep` there) -/
def Rep' (c : Views) (a : SpecViews) : Prop :=
  (c.map (·.1)) = (a.map (·.1)) ∧
  ∀ v, match viewIdx c v, specView a v with
    | some idx, some bag => KeysNodup idx ∧ AllSorted idx ∧ (pairs idx).Perm bag
    | none, none => True
    | _, _ => False

theorem keysNodup_nil : KeysNodup [] := by simp [KeysNodup]

theorem allSorted_nil : AllSorted [] := by
  intro n
  rw [get_nil]
  exact List.Pairwise.nil

theorem rep_init_aux : Rep' initViews initSpec := by
  refine ⟨rfl, ?_⟩
  intro v
  by_cases hv : "_InitialView" = v
  · have h1 : viewIdx initViews v = some [] := by simp [viewIdx, initViews, alistGet?, hv]
    have h2 : specView initSpec v = some [] := by simp [specView, initSpec, alistGet?, hv]
    rw [h1, h2]
    exact ⟨keysNodup_nil, allSorted_nil, List.Perm.refl _⟩
  · have h1 : viewIdx initViews v = none := by simp [viewIdx, initViews, alistGet?, hv]
    have h2 : specView initSpec v = none := by simp [specView, initSpec, alistGet?, hv]
    rw [h1, h2]
    trivial

/-- setting the same view on both sides to related values keeps the invariant -/
theorem rep_set (c : Views) (a : SpecViews) (v : String) (idx : Idx) (bag : List (String × Entry))
    (h : Rep' c a) (hk : KeysNodup idx) (hs : AllSorted idx) (hp : (pairs idx).Perm bag) :
    Rep' (alistSet c v idx) (alistSet a v bag) := by
  obtain ⟨hkeys, hv⟩ := h
  refine ⟨alistSet_keys_congr c a v idx bag hkeys, ?_⟩
  intro w
  by_cases hw : w = v
  · subst hw
    simp only [viewIdx, specView, alistGet?_set_same]
    exact ⟨hk, hs, hp⟩
  · simp only [viewIdx, specView, alistGet?_set_other _ _ _ _ hw]
    exact hv w

theorem rep_step_aux (c : Views) (a : SpecViews) (op : IOp) (h : Rep' c a) :
    Rep' (istep c op) (sstep a op) := by
  cases op with
  | add v ty x =>
    have hv := h.2 v
    cases hi : viewIdx c v with
    | none =>
      cases hb : specView a v with
      | none => simp only [istep, sstep, hi, hb]; exact h
      | some bag => rw [hi, hb] at hv; exact hv.elim
    | some idx =>
      cases hb : specView a v with
      | none => rw [hi, hb] at hv; exact hv.elim
      | some bag =>
        rw [hi, hb] at hv
        obtain ⟨hk, hs, hp⟩ := hv
        simp only [istep, sstep, hi, hb]
        exact rep_set c a v _ _ h (keysNodup_add_aux idx ty x hk) (allSorted_add_aux idx ty x hs)
          ((pairs_add_perm_aux idx ty x hk).trans (hp.cons _))
  | remove v ty x =>
    have hv := h.2 v
    cases hi : viewIdx c v with
    | none =>
      cases hb : specView a v with
      | none => simp only [istep, sstep, hi, hb]; exact h
      | some bag => rw [hi, hb] at hv; exact hv.elim
    | some idx =>
      cases hb : specView a v with
      | none => rw [hi, hb] at hv; exact hv.elim
      | some bag =>
        rw [hi, hb] at hv
        obtain ⟨hk, hs, hp⟩ := hv
        cases hr : rem idx ty x with
        | none =>
          have hnm : (ty, x) ∉ bag := fun hm =>
            (rem_none_iff_aux idx ty x hk).mp hr (hp.mem_iff.mpr hm)
          have hc : ¬ (bag.contains (ty, x) = true) := fun hc => hnm (List.contains_iff_mem.mp hc)
          simp only [istep, sstep, hi, hb, hr, hc]
          exact h
        | some idx' =>
          obtain ⟨hp', hk', hs'⟩ := rem_some_perm_aux idx idx' ty x hk hr
          have hm : (ty, x) ∈ bag := hp.mem_iff.mp (hp'.mem_iff.mpr (by simp))
          have hc : bag.contains (ty, x) = true := List.contains_iff_mem.mpr hm
          simp only [istep, sstep, hi, hb, hr, hc, if_true]
          refine rep_set c a v _ _ h hk' (hs' hs) ?_
          have : ((ty, x) :: pairs idx').Perm ((ty, x) :: bag.erase (ty, x)) :=
            hp'.symm.trans (hp.trans (List.perm_cons_erase hm))
          exact this.cons_inv
  | createView v =>
    have hv := h.2 v
    cases hi : viewIdx c v with
    | none =>
      cases hb : specView a v with
      | none =>
        simp only [istep, sstep, hi, hb]
        exact rep_set c a v [] [] h keysNodup_nil allSorted_nil (List.Perm.refl _)
      | some bag => rw [hi, hb] at hv; exact hv.elim
    | some idx =>
      cases hb : specView a v with
      | none => rw [hi, hb] at hv; exact hv.elim
      | some bag => simp only [istep, sstep, hi, hb]; exact h

theorem rep_history_aux (ops : List IOp) :
    Rep' (ops.foldl istep initViews) (ops.foldl sstep initSpec) := by
  have : ∀ c a, Rep' c a → Rep' (ops.foldl istep c) (ops.foldl sstep a) := by
    induction ops with
    | nil => intro c a h; exact h
    | cons op ops ih => intro c a h; exact ih _ _ (rep_step_aux c a op h)
  exact this _ _ rep_init_aux

theorem sstep_frame_aux (a : SpecViews) (op : IOp) (w : String)
    (hw : match op with | .add v _ _ => v ≠ w | .remove v _ _ => v ≠ w | .createView v => v ≠ w) :
    specView (sstep a op) w = specView a w := by
  cases op with
  | add v ty x =>
    have hw' : w ≠ v := fun e => hw e.symm
    simp only [sstep]
    split
    · exact alistGet?_set_other _ _ _ _ hw'
    · rfl
  | remove v ty x =>
    have hw' : w ≠ v := fun e => hw e.symm
    simp only [sstep]
    split
    · split
      · exact alistGet?_set_other _ _ _ _ hw'
      · rfl
    · rfl
  | createView v =>
    have hw' : w ≠ v := fun e => hw e.symm
    simp only [sstep]
    split
    · rfl
    · exact alistGet?_set_other _ _ _ _ hw'

theorem select_history_core (ops : List IOp) (names D : List String) (hp : names.Perm D)
    (hnd : D.Nodup) (isSub : String → Bool) (hsub : ∀ n, isSub n = true ↔ n ∈ D)
    (v : String) (idx : Idx) (bag : List (String × Entry))
    (hi : viewIdx (ops.foldl istep initViews) v = some idx)
    (hb : specView (ops.foldl sstep initSpec) v = some bag) :
    (selectNames idx names).Perm ((bag.filter (fun p => isSub p.1)).map (·.2)) := by
  have hv := (rep_history_aux ops).2 v
  rw [hi, hb] at hv
  obtain ⟨hk, _, hperm⟩ := hv
  have h1 := selectNames_perm_aux idx names hk (hp.nodup_iff.mpr hnd)
  have hf : (pairs idx).filter (fun p => names.contains p.1) = (pairs idx).filter (fun p => isSub p.1) := by
    apply List.filter_congr
    intro p _
    cases hs : isSub p.1 with
    | true =>
      exact List.contains_iff_mem.mpr (hp.mem_iff.mpr ((hsub p.1).mp hs))
    | false =>
      cases hc : names.contains p.1 with
      | false => rfl
      | true =>
        have := (hsub p.1).mpr (hp.mem_iff.mp (List.contains_iff_mem.mp hc))
        rw [hs] at this
        exact absurd this (by simp)
  rw [hf] at h1
  exact h1.trans ((hperm.filter _).map _)

end Cassis.Index
