/-
The recursion budget of `renderVal` (`Model/Comparable.lean`) is as good as no budget: with `2 * |heap| + 2` levels (what
`renderCols` / `renderRow` pass) the result is the same as with any larger number (`renderVal_saturated`).  A run that
exhausts `2 * |heap| + 1` levels exhausts every budget (the nesting of arrays is cyclic: Python raises `RecursionError`).

Proof: `renderVal (f+1)` is a function of `renderVal f` (`renderVal_congr`); more fuel changes a result only from
"exhausted" to something else (`renderVal_mono`); whenever `renderVal (f+1) ≠ renderVal (f+2)` some array object of the
heap is rendered for the first time at level `f+1` or `f+2` (`newConv_of_ne`); there are only `|heap|` objects.
-/
import CassisModel.Proofs.ComparableRenderVal

namespace Cassis.Comparable
open Cassis.TS Cassis.Traverse

/-- the budget was exhausted (the only source of `RuntimeError` in `renderVal`) -/
def isBot : Except Err Cell → Bool
  | .error .runtimeError => true
  | _ => false

theorem isBot_iff {r : Except Err Cell} : isBot r = true ↔ r = .error .runtimeError := by
  unfold isBot
  split
  · simp
  · rename_i h
    constructor
    · intro h'; cases h'
    · intro h'; exact absurd h' h

section
variable (K : Consts) (hp : Heap) (byId : List (Option Int × String))

/-! ### one step -/

theorem mapM_elemCell_congr {f f' : Nat} (l : List (Option Nat))
    (h : ∀ a, some a ∈ l → renderVal K hp byId f (.ref a) = renderVal K hp byId f' (.ref a)) :
    l.mapM (elemCell K hp byId f) = l.mapM (elemCell K hp byId f') := by
  induction l with
  | nil => rfl
  | cons r l ih =>
    rw [List.mapM_cons, List.mapM_cons, ih (fun a ha => h a (List.mem_cons_of_mem _ ha))]
    cases r with
    | none => rfl
    | some a =>
      show (do let b ← renderVal K hp byId f (.ref a); _) = (do let b ← renderVal K hp byId f' (.ref a); _)
      rw [h a List.mem_cons_self]

/-- `renderVal (f+1)` is determined by `renderVal f` -/
theorem renderVal_congr {f f' : Nat} (h : ∀ v, renderVal K hp byId f v = renderVal K hp byId f' v) (v : Val) :
    renderVal K hp byId (f + 1) v = renderVal K hp byId (f' + 1) v := by
  cases v with
  | ref a =>
    by_cases harr : isArrayFs K hp a = true
    · cases hs : slot hp a "elements" with
      | none => rw [renderVal_ref_arr_noslot K hp byId f harr hs, renderVal_ref_arr_noslot K hp byId f' harr hs]
      | some w =>
        by_cases hw : w = .none
        · subst hw
          rw [renderVal_ref_arr_none K hp byId f harr hs, renderVal_ref_arr_none K hp byId f' harr hs]
        · rw [renderVal_ref_arr K hp byId f harr hs hw, renderVal_ref_arr K hp byId f' harr hs hw, h w]
    · have harr' : isArrayFs K hp a = false := by simpa using harr
      rw [renderVal_ref_fs K hp byId f harr', renderVal_ref_fs K hp byId f' harr']
  | refs l =>
    rw [renderVal_refs, renderVal_refs, mapM_elemCell_congr K hp byId l (fun a _ => h (.ref a))]
  | _ => rfl

/-! ### more fuel -/

theorem mapM_elemCell_mono {f : Nat} (l : List (Option Nat))
    (h : ∀ a, some a ∈ l → isBot (renderVal K hp byId f (.ref a)) = false →
      renderVal K hp byId (f + 1) (.ref a) = renderVal K hp byId f (.ref a))
    (hb : isBot ((l.mapM (elemCell K hp byId f)).map Cell.list) = false) :
    l.mapM (elemCell K hp byId (f + 1)) = l.mapM (elemCell K hp byId f) := by
  induction l with
  | nil => rfl
  | cons r l ih =>
    rw [List.mapM_cons] at hb
    rw [List.mapM_cons, List.mapM_cons]
    cases r with
    | none =>
      have hb' : isBot ((l.mapM (elemCell K hp byId f)).map Cell.list) = false := by
        simp only [elemCell, bind, Except.bind, pure, Except.pure] at hb
        cases hm : l.mapM (elemCell K hp byId f) with
        | error e => rw [hm] at hb; simpa [Except.map] using hb
        | ok cs => rfl
      rw [ih (fun a ha => h a (List.mem_cons_of_mem _ ha)) hb']
      rfl
    | some a =>
      show (do let b ← renderVal K hp byId (f + 1) (.ref a); _) = (do let b ← renderVal K hp byId f (.ref a); _)
      cases hr : renderVal K hp byId f (.ref a) with
      | error e =>
        have : isBot (renderVal K hp byId f (.ref a)) = false := by
          rw [hr]
          simp only [elemCell, hr, bind, Except.bind, Except.map] at hb
          exact hb
        rw [h a List.mem_cons_self this, hr]
        rfl
      | ok c =>
        have hnb : isBot (renderVal K hp byId f (.ref a)) = false := by rw [hr]; rfl
        rw [h a List.mem_cons_self hnb, hr]
        have hb' : isBot ((l.mapM (elemCell K hp byId f)).map Cell.list) = false := by
          simp only [elemCell, hr, bind, Except.bind, pure, Except.pure] at hb
          cases hm : l.mapM (elemCell K hp byId f) with
          | error e => rw [hm] at hb; simpa [Except.map] using hb
          | ok cs => rfl
        rw [ih (fun a ha => h a (List.mem_cons_of_mem _ ha)) hb']

/-- a result that is not "exhausted" stays with more fuel -/
theorem renderVal_mono : ∀ (f : Nat) (v : Val), isBot (renderVal K hp byId f v) = false →
    renderVal K hp byId (f + 1) v = renderVal K hp byId f v
  | 0, v, h => by
    cases v <;> first | rfl | (exfalso; revert h; simp [renderVal, isBot])
  | f+1, v, h => by
    cases v with
    | ref a =>
      by_cases harr : isArrayFs K hp a = true
      · cases hs : slot hp a "elements" with
        | none => rw [renderVal_ref_arr_noslot K hp byId _ harr hs, renderVal_ref_arr_noslot K hp byId _ harr hs]
        | some w =>
          by_cases hw : w = .none
          · subst hw
            rw [renderVal_ref_arr_none K hp byId _ harr hs, renderVal_ref_arr_none K hp byId _ harr hs]
          · rw [renderVal_ref_arr K hp byId _ harr hs hw] at h ⊢
            rw [renderVal_ref_arr K hp byId _ harr hs hw]
            exact renderVal_mono f w h
      · have harr' : isArrayFs K hp a = false := by simpa using harr
        rw [renderVal_ref_fs K hp byId _ harr', renderVal_ref_fs K hp byId _ harr']
    | refs l =>
      rw [renderVal_refs] at h ⊢
      rw [renderVal_refs, mapM_elemCell_mono K hp byId l (fun a _ hb => renderVal_mono f (.ref a) hb) h]
    | _ => rfl

/-! ### counting the array objects that have been rendered -/

/-- the reference to `x` is rendered (to a cell or an exception other than "exhausted") with `f` levels -/
def conv (f x : Nat) : Bool := !isBot (renderVal K hp byId f (.ref x))

theorem conv_mono {f x : Nat} (h : conv K hp byId f x = true) : conv K hp byId (f + 1) x = true := by
  unfold conv at h ⊢
  rw [renderVal_mono K hp byId f _ (by simpa using h)]
  exact h

theorem renderVal_plain_notBot (f : Nat) (v : Val) (h1 : ∀ a, v ≠ .ref a) (h2 : ∀ l, v ≠ .refs l) :
    isBot (renderVal K hp byId f v) = false := by
  cases v with
  | ref a => exact absurd rfl (h1 a)
  | refs l => exact absurd rfl (h2 l)
  | _ => cases f <;> rfl

/-- outside the heap nothing depends on the budget -/
theorem conv_outside {f x : Nat} (hx : hp.length ≤ x) : conv K hp byId (f + 1) x = true := by
  unfold conv
  have hnone : hp[x]? = none := List.getElem?_eq_none hx
  by_cases harr : isArrayFs K hp x = true
  · have hs : slot hp x "elements" = none := by unfold slot; rw [hnone]; rfl
    rw [renderVal_ref_arr_noslot K hp byId f harr hs]
    rfl
  · have harr' : isArrayFs K hp x = false := by simpa using harr
    rw [renderVal_ref_fs K hp byId f harr']
    split <;> rfl

theorem eq_of_conv_imp {f x : Nat} (h : conv K hp byId f x = false → conv K hp byId (f + 1) x = false) :
    renderVal K hp byId (f + 1) (.ref x) = renderVal K hp byId f (.ref x) := by
  by_cases hc : conv K hp byId f x = true
  · exact renderVal_mono K hp byId f _ (by unfold conv at hc; simpa using hc)
  · have hc' : conv K hp byId f x = false := by simpa using hc
    have h1 := h hc'
    unfold conv at hc' h1
    have e1 : renderVal K hp byId f (.ref x) = .error .runtimeError := isBot_iff.mp (by simpa using hc')
    have e2 : renderVal K hp byId (f + 1) (.ref x) = .error .runtimeError := isBot_iff.mp (by simpa using h1)
    rw [e1, e2]

/-- where two consecutive levels differ, an object of the heap is rendered for the first time -/
theorem newConv_of_ne {f : Nat} {v : Val}
    (h : renderVal K hp byId (f + 2) v ≠ renderVal K hp byId (f + 3) v) :
    ∃ x, x < hp.length ∧
      ((conv K hp byId (f + 1) x = false ∧ conv K hp byId (f + 2) x = true) ∨
       (conv K hp byId (f + 2) x = false ∧ conv K hp byId (f + 3) x = true)) := by
  have hbot : isBot (renderVal K hp byId (f + 2) v) = true := by
    cases hb : isBot (renderVal K hp byId (f + 2) v) with
    | true => rfl
    | false => exact absurd (renderVal_mono K hp byId (f + 2) v hb).symm h
  cases v with
  | ref x =>
    have h2 : conv K hp byId (f + 2) x = false := by unfold conv; rw [hbot]; rfl
    have h3 : conv K hp byId (f + 3) x = true := by
      cases hc : conv K hp byId (f + 3) x with
      | true => rfl
      | false =>
        exfalso
        exact h (eq_of_conv_imp K hp byId (fun _ => hc)).symm
    refine ⟨x, ?_, Or.inr ⟨h2, h3⟩⟩
    rcases Nat.lt_or_ge x hp.length with hx | hx
    · exact hx
    · rw [conv_outside K hp byId hx] at h2; cases h2
  | refs l =>
    -- some element is rendered for the first time at level `f + 2`
    have hex : ∃ e, some e ∈ l ∧ conv K hp byId (f + 1) e = false ∧ conv K hp byId (f + 2) e = true := by
      apply Classical.byContradiction
      intro hno
      apply h
      rw [renderVal_refs, renderVal_refs]
      rw [mapM_elemCell_congr K hp byId l (f := f + 1) (f' := f + 2)]
      intro e he
      symm
      apply eq_of_conv_imp
      intro hc
      cases hc2 : conv K hp byId (f + 1 + 1) e with
      | false => rfl
      | true => exact absurd ⟨e, he, hc, hc2⟩ hno
    obtain ⟨e, _, h1, h2⟩ := hex
    refine ⟨e, ?_, Or.inl ⟨h1, h2⟩⟩
    rcases Nat.lt_or_ge e hp.length with hx | hx
    · exact hx
    · rw [conv_outside K hp byId hx] at h1; cases h1
  | _ =>
    rw [renderVal_plain_notBot K hp byId (f + 2) _ (by intro a h; cases h) (by intro l h; cases h)] at hbot
    cases hbot

theorem countP_le_of_imp {p q : Nat → Bool} : ∀ (l : List Nat), (∀ x ∈ l, p x = true → q x = true) →
    l.countP p ≤ l.countP q
  | [], _ => Nat.le_refl _
  | x :: l, h => by
    have ih := countP_le_of_imp l (fun y hy => h y (List.mem_cons_of_mem _ hy))
    rw [List.countP_cons, List.countP_cons]
    have := h x List.mem_cons_self
    cases hp : p x <;> cases hq : q x <;> simp_all <;> omega

theorem countP_lt_of_imp {p q : Nat → Bool} : ∀ (l : List Nat), (∀ x ∈ l, p x = true → q x = true) →
    (∃ x ∈ l, p x = false ∧ q x = true) → l.countP p < l.countP q
  | [], _, ⟨x, hx, _⟩ => by cases hx
  | y :: l, h, ⟨x, hx, hpx, hqx⟩ => by
    rw [List.countP_cons, List.countP_cons]
    have hle := countP_le_of_imp l (fun z hz => h z (List.mem_cons_of_mem _ hz))
    rcases List.mem_cons.mp hx with rfl | hx'
    · simp only [hpx, hqx, if_true, Bool.false_eq_true, if_false]
      omega
    · have ih := countP_lt_of_imp l (fun z hz => h z (List.mem_cons_of_mem _ hz)) ⟨x, hx', hpx, hqx⟩
      have := h y List.mem_cons_self
      cases hp : p y <;> cases hq : q y <;> simp_all <;> omega

/-- the number of objects of the heap rendered with `f` levels -/
def convCnt (f : Nat) : Nat := (List.range hp.length).countP (conv K hp byId f)

theorem convCnt_le (f : Nat) : convCnt K hp byId f ≤ hp.length := by
  unfold convCnt
  have := List.countP_le_length (p := conv K hp byId f) (l := List.range hp.length)
  rw [List.length_range] at this
  exact this

theorem convCnt_mono (f : Nat) : convCnt K hp byId f ≤ convCnt K hp byId (f + 1) :=
  countP_le_of_imp _ (fun _ _ h => conv_mono K hp byId h)

/-- two consecutive levels agree everywhere -/
def Stable (f : Nat) : Prop := ∀ v, renderVal K hp byId f v = renderVal K hp byId (f + 1) v

theorem Stable.succ {f : Nat} (h : Stable K hp byId f) : Stable K hp byId (f + 1) :=
  fun v => renderVal_congr K hp byId h v

theorem convCnt_lt_of_not_stable {f : Nat} (h : ¬ Stable K hp byId (f + 2)) : convCnt K hp byId (f + 1) < convCnt K hp byId (f + 3) := by
  have : ∃ v, renderVal K hp byId (f + 2) v ≠ renderVal K hp byId (f + 3) v := by
    apply Classical.byContradiction
    intro hno
    apply h
    intro v
    apply Classical.byContradiction
    intro hne
    exact hno ⟨v, hne⟩
  obtain ⟨v, hv⟩ := this
  obtain ⟨x, hx, hc⟩ := newConv_of_ne K hp byId hv
  have hxm : x ∈ List.range hp.length := List.mem_range.mpr hx
  rcases hc with ⟨h1, h2⟩ | ⟨h1, h2⟩
  · exact Nat.lt_of_lt_of_le
      (countP_lt_of_imp _ (fun _ _ h => conv_mono K hp byId h) ⟨x, hxm, h1, h2⟩) (convCnt_mono K hp byId (f + 2))
  · exact Nat.lt_of_le_of_lt (convCnt_mono K hp byId (f + 1))
      (countP_lt_of_imp _ (fun _ _ h => conv_mono K hp byId h) ⟨x, hxm, h1, h2⟩)

theorem convCnt_ge_of_not_stable : ∀ (k : Nat), ¬ Stable K hp byId (2 * k + 2) → k + 1 ≤ convCnt K hp byId (2 * k + 3)
  | 0, h => by
    have := convCnt_lt_of_not_stable K hp byId (f := 0) h
    simp only [Nat.zero_add] at this
    show 0 + 1 ≤ convCnt K hp byId (2 * 0 + 3)
    simp only [Nat.mul_zero, Nat.zero_add]
    omega
  | k+1, h => by
    have h' : ¬ Stable K hp byId (2 * k + 2) := fun hs => h (by
      have := (Stable.succ K hp byId (Stable.succ K hp byId hs))
      rw [show 2 * (k + 1) + 2 = 2 * k + 2 + 1 + 1 by omega]
      exact this)
    have ih := convCnt_ge_of_not_stable k h'
    have := convCnt_lt_of_not_stable K hp byId (f := 2 * k + 2) (by
      rw [show 2 * k + 2 + 2 = 2 * (k + 1) + 2 by omega]; exact h)
    rw [show 2 * k + 2 + 1 = 2 * k + 3 by omega, show 2 * k + 2 + 3 = 2 * (k + 1) + 3 by omega] at this
    omega

theorem stable_budget : Stable K hp byId (2 * hp.length + 2) := by
  apply Classical.byContradiction
  intro h
  have h1 := convCnt_ge_of_not_stable K hp byId hp.length h
  have h2 := convCnt_le K hp byId (2 * hp.length + 3)
  omega

theorem stable_ge : ∀ (d : Nat), Stable K hp byId (2 * hp.length + 2 + d)
  | 0 => stable_budget K hp byId
  | d+1 => Stable.succ K hp byId (stable_ge d)

/-- **the budget is as good as any larger one** -/
theorem renderVal_saturated (F : Nat) (hF : 2 * hp.length + 2 ≤ F) (v : Val) :
    renderVal K hp byId F v = renderVal K hp byId (2 * hp.length + 2) v := by
  obtain ⟨d, rfl⟩ : ∃ d, F = 2 * hp.length + 2 + d := ⟨F - (2 * hp.length + 2), by omega⟩
  clear hF
  induction d with
  | zero => rfl
  | succ d ih => rw [← ih]; exact (stable_ge K hp byId d v).symm

end

end Cassis.Comparable
