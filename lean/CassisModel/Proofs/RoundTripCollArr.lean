/-
Round trip with collections, layer AR: array objects (`ArrFs`), first pass (`arr_elem1`) and second pass (`arr_post`).
-/
import CassisModel.Proofs.RoundTripCollStmts
import CassisModel.Proofs.RoundTripReader1
import CassisModel.Properties.C01

namespace Cassis.Xmi.CAR
open Cassis.TS Cassis.Traverse Cassis.Lex Cassis.Xmi

/-! ### the range `uima.cas.TOP` -/

theorem top_prim (K : Consts) (ts : TypeSystem) : isPrimitive K ts TOP = false := by
  simp [isPrimitive, isPrimitiveAux]

theorem top_primArr (K : Consts) : isPrimitiveArray K TOP = false := by
  simp [isPrimitiveArray]

theorem top_primList (K : Consts) : isPrimitiveList K TOP = false := by
  simp [isPrimitiveList]

theorem top_ne_fsArray : (TOP == FS_ARRAY) = false := by decide

theorem strArr_self (ts : TypeSystem) : isInstanceOf ts STRING_ARRAY STRING_ARRAY = true := by
  simp [isInstanceOf, isInstanceOfAux]

/-! ### association lists with the one key `elements` -/

theorem get_elems {β} (v : β) : alistGet? [("elements", v)] "elements" = some v := by
  simp [alistGet?]

theorem get_elems_inv {β} (v u : β) (n : String) (h : alistGet? [("elements", v)] n = some u) :
    n = "elements" ∧ u = v := by
  unfold alistGet? at h
  split at h
  · rename_i hk; cases h; exact ⟨hk.symm, rfl⟩
  · simp [alistGet?] at h

/-- an association list whose only key is `elements` -/
theorem keys_elems {β} (l : List (String × β)) (h : l.map (·.1) = ["elements"]) : ∃ w, l = [("elements", w)] := by
  match l, h with
  | [(k, w)], h =>
    simp only [List.map_cons, List.map_nil, List.cons.injEq, and_true] at h
    subst h; exact ⟨w, rfl⟩

theorem slot_elems {H : Heap} {a : Nat} {o : Obj} {ev : Val} (hH : H[a]? = some o) (hs : o.slots = [("elements", ev)]) :
    Xmi.slot H a "elements" = some ev := by
  simp [Xmi.slot, Traverse.slot, hH, hs, get_elems]

theorem render_none (K : Consts) (ts : TypeSystem) (cass : List Cas) {H : Heap} {a : Nat} {o : Obj} {x : Int}
    (hH : H[a]? = some o) (hs : o.slots = [("elements", .none)]) (hx : o.xid = some x)
    (hb : (isPrimitiveArray K o.ty || o.ty == FS_ARRAY) = true) :
    renderFs K ts cass H a = .ok { ty := o.ty, attrs := [(ID, showInt x)] } := by
  unfold renderFs
  simp only [bind, Except.bind, pure, Except.pure, if_true, hH, slot_elems hH hs, hx, hb]

theorem render_strs (K : Consts) (ts : TypeSystem) (cass : List Cas) {H : Heap} {a : Nat} {o : Obj} {x : Int}
    (l : List (Option String))
    (hH : H[a]? = some o) (hs : o.slots = [("elements", .strs l)]) (hx : o.xid = some x)
    (hb : (isPrimitiveArray K o.ty || o.ty == FS_ARRAY) = true) (hsa : isInstanceOf ts o.ty STRING_ARRAY = true) :
    renderFs K ts cass H a =
      .ok { ty := o.ty, attrs := [(ID, showInt x)], kids := l.map (fun e => ("elements", normTxt e)) } := by
  unfold renderFs
  simp only [bind, Except.bind, pure, Except.pure, if_true, hH, slot_elems hH hs, hx, hb, hsa]

theorem render_strNil (K : Consts) (ts : TypeSystem) (cass : List Cas) {H : Heap} {a : Nat} {o : Obj} {x : Int}
    (hH : H[a]? = some o) (hs : o.slots = [("elements", .refs [])]) (hx : o.xid = some x)
    (hb : (isPrimitiveArray K o.ty || o.ty == FS_ARRAY) = true) (hsa : isInstanceOf ts o.ty STRING_ARRAY = true) :
    renderFs K ts cass H a = .ok { ty := o.ty, attrs := [(ID, showInt x)] } := by
  unfold renderFs
  simp only [bind, Except.bind, pure, Except.pure, if_true, hH, slot_elems hH hs, hx, hb, hsa]

theorem render_refs (K : Consts) (ts : TypeSystem) (cass : List Cas) {H : Heap} {a : Nat} {o : Obj} {x : Int}
    (l : List (Option Nat)) (ids : List String)
    (hH : H[a]? = some o) (hs : o.slots = [("elements", .refs l)]) (hx : o.xid = some x)
    (hty : o.ty = FS_ARRAY) (hsa : isInstanceOf ts o.ty STRING_ARRAY = false)
    (hids : refIds H l = .ok ids) :
    renderFs K ts cass H a = .ok { ty := o.ty, attrs := [(ID, showInt x), ("elements", joinSp ids)] } := by
  rw [hty] at hsa
  unfold renderFs
  simp only [bind, Except.bind, pure, Except.pure, if_true, hH, slot_elems hH hs, hx, hty, hsa, beq_self_eq_true, Bool.or_true, hids,
    Bool.false_eq_true, if_false]

theorem render_prim (K : Consts) (ts : TypeSystem) (cass : List Cas) {H : Heap} {a : Nat} {o : Obj} {x : Int}
    (ev : Val) (s : String)
    (hH : H[a]? = some o) (hs : o.slots = [("elements", ev)]) (hx : o.xid = some x) (hev : ev ≠ .none)
    (hb : isPrimitiveArray K o.ty = true)
    (hty : o.ty ≠ FS_ARRAY) (hsa : isInstanceOf ts o.ty STRING_ARRAY = false)
    (hshow : showPrimArray o.ty ev = .ok s) :
    renderFs K ts cass H a = .ok { ty := o.ty, attrs := [(ID, showInt x), ("elements", s)] } := by
  unfold renderFs
  simp only [bind, Except.bind, pure, Except.pure, if_true, hH, slot_elems hH hs, hx, hsa, hb, Bool.true_or, beq_eq_false_iff_ne.2 hty, hshow]
  cases ev <;> first | exact absurd rfl hev | rfl

/-! ### first pass of the reader -/

theorem ctor_elems {t : TypeRec} {f : Feature} (hf : allFeatures t = [f]) (hn : f.name = "elements") :
    ctorFields t = ["elements"] := by
  unfold ctorFields; rw [hf]; simp [hn]

theorem eraseDups_one : (["elements"] : List String).eraseDups = ["elements"] := by decide

/-- an element with the id attribute only -/
theorem parse_id (K : Consts) (ts : TypeSystem) (tsIdx : Nat) (hp : Heap) (ty : String) (t : TypeRec) (x : Int)
    (ht : getTypeExact ts ty = .ok t) (hc : ctorFields t = ["elements"]) :
    parseFsElem K ts tsIdx hp { ty := ty, attrs := [(ID, showInt x)] } =
      .ok (hp ++ [{ ty := t.name, ts := tsIdx, xid := some x, slots := [("elements", .none)] }], x, hp.length) := by
  rw [parseFsElem_flat K ts tsIdx hp _ t x [] ht rfl rfl (by intro p hp; cases hp) (by intro s hs; cases hs)]
  unfold objOf
  rw [hc, eraseDups_one]
  rfl

/-- an element with the id attribute and the attribute `elements` -/
theorem parse_attr (K : Consts) (ts : TypeSystem) (tsIdx : Nat) (hp : Heap) (ty : String) (t : TypeRec) (x : Int)
    (s : String) (ht : getTypeExact ts ty = .ok t) (hc : ctorFields t = ["elements"]) :
    parseFsElem K ts tsIdx hp { ty := ty, attrs := [(ID, showInt x), ("elements", s)] } =
      .ok (hp ++ [{ ty := t.name, ts := tsIdx, xid := some x, slots := [("elements", .str s)] }], x, hp.length) := by
  rw [parseFsElem_flat K ts tsIdx hp _ t x [("elements", s)] ht rfl rfl]
  · unfold objOf
    rw [hc, eraseDups_one]
    rfl
  · intro p hp
    rw [List.mem_singleton] at hp
    subst hp
    rw [hc]
    exact ⟨by show "elements" ≠ ID; decide, List.mem_singleton.2 (by show renRes "elements" = "elements"; decide)⟩
  · intro s' hs'
    simp [alistGet?] at hs'

theorem groupKids_acc (texts acc : List (Option String)) :
    groupKids (texts.map (fun e => ("elements", e))) [("elements", acc)] = [("elements", acc ++ texts)] := by
  induction texts generalizing acc with
  | nil => simp [groupKids]
  | cons e rest ih =>
    simp only [List.map_cons, groupKids]
    have h1 : alistGet? [("elements", acc)] "elements" = some acc := get_elems acc
    rw [h1]
    have h2 : alistSet [("elements", acc)] "elements" ((some acc).getD [] ++ [e]) = [("elements", acc ++ [e])] := by
      simp [alistSet]
    rw [h2, ih]
    simp

theorem groupKids_elems (e : Option String) (texts : List (Option String)) :
    groupKids ((e :: texts).map (fun e => ("elements", e))) [] = [("elements", e :: texts)] := by
  simp only [List.map_cons, groupKids]
  have h2 : alistSet ([] : List (String × List (Option String))) "elements"
      ((alistGet? ([] : List (String × List (Option String))) "elements").getD [] ++ [e]) = [("elements", [e])] := by
    simp [alistSet, alistGet?]
  rw [h2, groupKids_acc]
  rfl

/-- an element of a primitive array type with the id attribute and child elements `elements` -/
theorem parse_kids (K : Consts) (ts : TypeSystem) (tsIdx : Nat) (hp : Heap) (ty : String) (t : TypeRec) (x : Int)
    (e0 : Option String) (rest : List (Option String))
    (ht : getTypeExact ts ty = .ok t) (hc : ctorFields t = ["elements"]) (hpa : isPrimitiveArray K ty = true) :
    parseFsElem K ts tsIdx hp
        { ty := ty, attrs := [(ID, showInt x)], kids := (e0 :: rest).map (fun e => ("elements", e)) } =
      .ok (hp ++ [{ ty := t.name, ts := tsIdx, xid := some x, slots := [("elements", .strs (e0 :: rest))] }], x,
        hp.length) := by
  have hpi : parseIntE (showInt x) = .ok x := by unfold parseIntE; rw [parseInt_showInt_aux]
  have hm : alistSet [(ID, Val.str (showInt x))] "elements" (Val.strs (e0 :: rest)) =
      [(ID, Val.str (showInt x)), ("elements", Val.strs (e0 :: rest))] := by
    simp [alistSet, ID]
  have hcon : construct t tsIdx (some x) [("elements", Val.strs (e0 :: rest))] =
      .ok { ty := t.name, ts := tsIdx, xid := some x, slots := [("elements", .strs (e0 :: rest))] } := by
    unfold construct
    rw [hc, eraseDups_one]
    simp [alistGet?]
  unfold parseFsElem
  dsimp only
  rw [groupKids_elems]
  simp only [ht, List.map_cons, List.map_nil, List.foldl_cons, List.foldl_nil, hm,
    bind, Except.bind, pure, Except.pure, hpa, if_true]
  rw [alistGet?_cons_self]
  simp only [hpi]
  have hfil : List.filter (fun p => p.fst != ID) [(ID, Val.str (showInt x)), ("elements", Val.strs (e0 :: rest))] =
      [("elements", Val.strs (e0 :: rest))] := by
    simp [List.filter, ID]
  have hsofa : alistGet? [("elements", Val.strs (e0 :: rest))] "sofa" = none := by simp [alistGet?]
  rw [hfil, hsofa]
  have hren : List.map (fun p => if (p.fst == "type") = true then ("type_", p.snd) else p)
      (List.map (fun p => if (p.fst == "self") = true then ("self_", p.snd) else p)
        [("elements", Val.strs (e0 :: rest))]) = [("elements", Val.strs (e0 :: rest))] := by
    simp
  simp only [hren, hcon]

/-! ### the writer's tokens -/

theorem xidStr_idTok {H : Heap} {b : Nat} (h : (xidOf H b).isSome = true) : xidStr H b = .ok (idTok H b) := by
  unfold xidStr idTok xidOf at *
  cases hb : H[b]? with
  | none => rw [hb] at h; cases h
  | some ob =>
    simp only [Option.bind_some]
    cases ob.xid <;> rfl

theorem refIds_idTok (H : Heap) (l : List Nat) (h : ∀ b ∈ l, (xidOf H b).isSome = true) :
    refIds H (l.map some) = .ok (l.map (idTok H)) := by
  induction l with
  | nil => rfl
  | cons b rest ih =>
    simp only [List.map_cons, refIds, bind, Except.bind]
    rw [xidStr_idTok (h b List.mem_cons_self), ih (fun c hc => h c (List.mem_cons_of_mem _ hc))]
    rfl

theorem show_primElems {ty : String} {ev : Val} (h : PrimElems ty ev) : ∃ s, showPrimArray ty ev = .ok s := by
  rcases h with rfl | ⟨_, l, rfl⟩ | ⟨_, l, rfl, _⟩ | ⟨_, l, rfl⟩ | ⟨_, l, rfl, _⟩
  · exact ⟨_, rfl⟩
  · simp only [showPrimArray]; split <;> exact ⟨_, rfl⟩
  · simp only [showPrimArray]; split <;> exact ⟨_, rfl⟩
  · exact ⟨_, rfl⟩
  · exact ⟨_, rfl⟩

theorem primElems_ne_none {ty : String} {ev : Val} (h : PrimElems ty ev) : ev ≠ .none := by
  rcases h with rfl | ⟨_, l, rfl⟩ | ⟨_, l, rfl, _⟩ | ⟨_, l, rfl⟩ | ⟨_, l, rfl, _⟩ <;> exact Val.noConfusion

theorem primElems_list {ty : String} {ev : Val} (h : PrimElems ty ev) : isListV ev = true := by
  rcases h with rfl | ⟨_, l, rfl⟩ | ⟨_, l, rfl, _⟩ | ⟨_, l, rfl⟩ | ⟨_, l, rfl, _⟩ <;> rfl

/-! ### the nine type names -/

theorem primArrTy_ne {ty : String} (h : PrimArrTy ty) :
    ty ≠ FS_ARRAY ∧ ty ≠ STRING_ARRAY ∧ ty ≠ SOFA ∧ ty ≠ VIEW_T := by
  rcases h with (rfl | rfl | rfl) | rfl | rfl | (rfl | rfl) <;> decide

theorem fsArray_ne : FS_ARRAY ≠ STRING_ARRAY ∧ FS_ARRAY ≠ SOFA ∧ FS_ARRAY ≠ VIEW_T := by decide

theorem strArray_ne : STRING_ARRAY ≠ FS_ARRAY ∧ STRING_ARRAY ≠ SOFA ∧ STRING_ARRAY ≠ VIEW_T := by decide

/-! ### the relation after the first pass -/

theorem obj1_of (K : Consts) (ts : TypeSystem) (cass : List Cas) (H hpX : Heap) (o : Obj) (tn : String) (tsIdx : Nat)
    (x : Int) (ev w : Val) (hs : o.slots = [("elements", ev)]) (htn : tn = o.ty)
    (h : (ev = .none ∧ w = .none) ∨ (isListV ev = true ∧ Elems1 H o.ty ev w)) :
    Obj1 K ts cass H hpX o { ty := tn, ts := tsIdx, xid := some x, slots := [("elements", w)] } x := by
  refine ⟨htn, rfl, by rw [hs]; rfl, ?_⟩
  intro n v hv
  rw [hs] at hv
  obtain ⟨rfl, rfl⟩ := get_elems_inv _ _ _ hv
  refine ⟨w, get_elems w, ?_, ?_, ?_⟩
  · intro c hc
    rcases h with ⟨h1, _⟩ | ⟨h1, _⟩
    · rw [hc] at h1; cases h1
    · rw [hc] at h1; cases h1
  · intro hl
    rcases h with ⟨h1, _⟩ | ⟨_, h2⟩
    · rw [h1] at hl; cases hl
    · exact h2
  · intro _ hl
    rcases h with ⟨h1, h2⟩ | ⟨h1, _⟩
    · rw [h1, h2]; rfl
    · rw [h1] at hl; cases hl

theorem elem1_pack (K : Consts) (ts : TypeSystem) (cass : List Cas) (H : Heap) (tsIdx : Nat) (a : Nat) (x : Int)
    (o o1 : Obj) (e : XElem) (hH : H[a]? = some o) (hr : renderFs K ts cass H a = .ok e)
    (hne : e.ty ≠ SOFA ∧ e.ty ≠ VIEW_T)
    (hparse : ∀ hpCur : Heap, parseFsElem K ts tsIdx hpCur e = .ok (hpCur ++ [o1], x, hpCur.length))
    (hobj : ∀ hpX : Heap, Obj1 K ts cass H hpX o o1 x) :
    ∃ (o : Obj) (e : XElem), H[a]? = some o ∧ renderFs K ts cass H a = .ok e ∧ e.ty ≠ SOFA ∧ e.ty ≠ VIEW_T ∧
      ∀ hpCur : Heap, ∃ (ext : List Obj) (o1 : Obj),
        parseFsElem K ts tsIdx hpCur e = .ok (hpCur ++ ext ++ [o1], x, (hpCur ++ ext).length) ∧
        (∀ ob ∈ ext, ob.xid = none) ∧ Obj1 K ts cass H (hpCur ++ ext ++ [o1]) o o1 x := by
  refine ⟨o, e, hH, hr, hne.1, hne.2, fun hpCur => ⟨[], o1, ?_, ?_, hobj _⟩⟩
  · rw [List.append_nil]; exact hparse hpCur
  · intro ob hob; cases hob

theorem map_kids (l : List (Option String)) :
    l.map (fun e => ("elements", normTxt e)) = (l.map normTxt).map (fun e => ("elements", e)) := by
  rw [List.map_map]; rfl

/-! ### the inverses of the second pass -/

theorem primArrTy_mem {ty : String} (h : PrimArrTy ty) :
    ty ∈ ["uima.cas.IntegerArray", "uima.cas.ShortArray", "uima.cas.LongArray",
      "uima.cas.FloatArray", "uima.cas.DoubleArray", "uima.cas.BooleanArray", "uima.cas.ByteArray",
      "uima.cas.StringArray"] := by
  rcases h with (rfl | rfl | rfl) | rfl | rfl | (rfl | rfl) <;> decide

theorem show_ints_nil (ty : String) : showPrimArray ty (.ints []) = .ok "" := by
  simp only [showPrimArray]
  split <;> rfl

theorem ok_inj {α : Type} {a b : α} (h : (Except.ok a : Except Err α) = .ok b) : a = b := by cases h; rfl

theorem prim_inverse (H : Heap) (na : Int → Nat) {ty : String} {ev : Val} {s : String} (hty : PrimArrTy ty)
    (hev : PrimElems ty ev) (hs : showPrimArray ty ev = .ok s) :
    parsePrimArrayStr ty s = .ok (elemsExp H na ev) := by
  have hempty := emptyArray_roundtrip ty (primArrTy_mem hty)
  rcases hev with rfl | ⟨hi, l, rfl⟩ | ⟨hb, l, rfl, hr⟩ | ⟨hb, l, rfl⟩ | ⟨hf, l, rfl, htok⟩
  · have : s = "" := (ok_inj hs).symm
    rw [this, hempty]; rfl
  · cases l with
    | nil =>
      rw [show_ints_nil] at hs
      rw [← ok_inj hs, hempty]; rfl
    | cons i l => exact intArray_roundtrip ty hi (i :: l) (List.cons_ne_nil _ _) s hs
  · cases l with
    | nil =>
      rw [show_ints_nil] at hs
      rw [← ok_inj hs, hempty]; rfl
    | cons i l =>
      subst hb
      have hl : (i :: l) = ((i :: l).map Int.toNat).map Int.ofNat := by
        rw [List.map_map]
        conv => lhs; rw [← List.map_id (i :: l)]
        apply List.map_congr_left
        intro b hb
        have := (hr b hb).1
        simp only [id, Function.comp]
        exact (Int.toNat_of_nonneg this).symm
      have hlt : ∀ b ∈ (i :: l).map Int.toNat, b < 256 := by
        intro b hb
        obtain ⟨c, hc, rfl⟩ := List.mem_map.1 hb
        have := hr c hc
        omega
      show parsePrimArrayStr "uima.cas.ByteArray" s = .ok (.ints (i :: l))
      rw [hl] at hs ⊢
      exact byteArray_roundtrip _ hlt (by simp) s hs
  · cases l with
    | nil =>
      have : s = "" := (ok_inj hs).symm
      rw [this, hempty]; rfl
    | cons i l => subst hb; exact boolArray_roundtrip (i :: l) (List.cons_ne_nil _ _) s hs
  · cases l with
    | nil =>
      have : s = "" := (ok_inj hs).symm
      rw [this, hempty]; rfl
    | cons i l => exact floatArray_roundtrip ty hf (i :: l) htok (List.cons_ne_nil _ _) s hs

/-- the id of `b`, 0 if there is none -/
def idOf (H : Heap) (b : Nat) : Int := (xidOf H b).getD 0

theorem idTok_idOf {H : Heap} {b : Nat} {x : Int} (h : xidOf H b = some x) : idTok H b = showInt (idOf H b) := by
  unfold idTok idOf; rw [h]; rfl

theorem idToks (H : Heap) (l : List Nat) (h : ∀ b ∈ l, ∃ x, xidOf H b = some x) :
    l.map (idTok H) = (l.map (idOf H)).map showInt := by
  rw [List.map_map]
  apply List.map_congr_left
  intro b hb
  obtain ⟨x, hx⟩ := h b hb
  exact idTok_idOf hx

theorem forall2_ids (H : Heap) (fss : List (Int × Nat)) (na : Int → Nat) (l : List Nat)
    (h : ∀ b ∈ l, Resolves H fss na b) :
    List.Forall₂ (fun i t => lookupFs fss i = .ok t) (l.map (idOf H)) (l.map (fun b => na (idOf H b))) := by
  induction l with
  | nil => exact .nil
  | cons b rest ih =>
    simp only [List.map_cons]
    refine .cons ?_ (ih (fun c hc => h c (List.mem_cons_of_mem _ hc)))
    obtain ⟨x, hx, hlk⟩ := h b List.mem_cons_self
    have : idOf H b = x := by unfold idOf; rw [hx]; rfl
    rw [this]; exact hlk

theorem fs_resolve (H : Heap) (fss : List (Int × Nat)) (na : Int → Nat) (l : List Nat)
    (h : ∀ b ∈ l, Resolves H fss na b) :
    resolveIds fss (splitWs (joinSp (l.map (idTok H)))) = .ok (l.map (fun b => na (idOf H b))) := by
  rw [idToks H l (fun b hb => (h b hb).imp (fun x hx => hx.1))]
  exact resolveIds_showIds fss _ _ (forall2_ids H fss na l h)

theorem fs_elemsExp (H : Heap) (fss : List (Int × Nat)) (na : Int → Nat) (l : List Nat)
    (h : ∀ b ∈ l, Resolves H fss na b) :
    Val.refs ((l.map (fun b => na (idOf H b))).map some) = elemsExp H na (.refs (l.map some)) := by
  show _ = Val.refs ((l.map some).map (fun r => r.bind (fun b => (xidOf H b).map na)))
  rw [List.map_map, List.map_map]
  congr 1
  apply List.map_congr_left
  intro b hb
  obtain ⟨x, hx, _⟩ := h b hb
  simp only [Function.comp, Option.bind_some, idOf, hx]
  rfl

/-- the elements of the FSArray object of a collected structure are in the id table -/
theorem fs_resolves (K : Consts) (ts : TypeSystem) (c : Cas) (ci : Nat) (H : Heap) (L : List (Int × Nat)) (na : Int → Nat)
    (hL : LOkC K ts c ci H L) (q : Int × Nat) (hq : q ∈ L) (o : Obj) (t : TypeRec) (l : List Nat)
    (hH : H[q.2]? = some o) (hfind : find? ts o.ty = some t) (hty : o.ty = FS_ARRAY)
    (hs : o.slots = [("elements", .refs (l.map some))]) :
    ∀ b ∈ l, Resolves H ((0, H.length) :: L.map (fun q => (q.1, na q.1))) na b := by
  intro b hb
  have htg : Target K ts H q.2 b :=
    ⟨o, t, hH, hfind, Or.inr (Or.inr (Or.inr ⟨hty, l.map some, by rw [hs]; exact get_elems _,
      List.mem_map_of_mem hb⟩))⟩
  obtain ⟨x, hx, hmem⟩ := hL.closed q hq b htg
  have hx0 : x ≠ 0 := (hL.ids (x, b) hmem).2
  exact ⟨x, hx, lookupFs_fss H.length na x L hx0 ⟨(x, b), hmem, rfl⟩⟩

/-! ### `postFeature` on the feature `elements` of an array object -/

theorem postFeatures_one (K : Consts) (ts : TypeSystem) (tsIdx ci' : Nat) (sofas : List (Int × PSofa))
    (fss : List (Int × Nat)) (a : Nat) (ty : String) (isStrArr : Bool) (f : Feature) (hpX hpY : Heap)
    (h : postFeature K ts tsIdx ci' sofas fss hpX a ty isStrArr f = .ok hpY) :
    postFeatures K ts tsIdx ci' sofas fss a ty isStrArr [f] hpX = .ok hpY := by
  simp only [postFeatures, bind, Except.bind, h]

theorem elements_ne_sofa : ("elements" == "sofa") = false := by decide

theorem post_strArr_none (K : Consts) (ts : TypeSystem) (tsIdx ci' : Nat) (sofas : List (Int × PSofa))
    (fss : List (Int × Nat)) (hpX : Heap) (a : Nat) (ty : String) (f : Feature) (o1 : Obj)
    (hname : f.name = "elements") (h1 : hpX[a]? = some o1) (h2 : alistGet? o1.slots f.name = some .none) :
    postFeature K ts tsIdx ci' sofas fss hpX a ty true f = Heap.setSlot hpX a "elements" (.refs []) := by
  unfold postFeature
  simp only [rtp_slot h1 h2]
  simp only [hname, elements_ne_sofa, Bool.false_eq_true, if_false, if_true, beq_self_eq_true, Bool.and_self]

theorem post_strArr_keep (K : Consts) (ts : TypeSystem) (tsIdx ci' : Nat) (sofas : List (Int × PSofa))
    (fss : List (Int × Nat)) (hpX : Heap) (a : Nat) (ty : String) (f : Feature) (o1 : Obj) (w : Val)
    (hname : f.name = "elements") (h1 : hpX[a]? = some o1) (h2 : alistGet? o1.slots f.name = some w)
    (hw : w ≠ .none) :
    postFeature K ts tsIdx ci' sofas fss hpX a ty true f = .ok hpX := by
  unfold postFeature
  simp only [rtp_slot h1 h2]
  have : (w == Val.none) = false := beq_eq_false_iff_ne.2 hw
  simp only [hname, elements_ne_sofa, Bool.false_eq_true, if_false, if_true, this, Bool.and_false]
  rfl

theorem post_prim_none (K : Consts) (ts : TypeSystem) (tsIdx ci' : Nat) (sofas : List (Int × PSofa))
    (fss : List (Int × Nat)) (hpX : Heap) (a : Nat) (ty : String) (f : Feature) (o1 : Obj)
    (hname : f.name = "elements") (hr : f.range = TOP) (hty : isPrimitiveArray K ty = true)
    (h1 : hpX[a]? = some o1) (h2 : alistGet? o1.slots f.name = some .none) :
    postFeature K ts tsIdx ci' sofas fss hpX a ty false f = .ok hpX := by
  unfold postFeature
  simp only [rtp_slot h1 h2]
  simp only [hname, hr, elements_ne_sofa, Bool.false_eq_true, if_false, top_prim, hty, beq_self_eq_true,
    Bool.and_self, if_true]
  rfl

theorem post_prim_str (K : Consts) (ts : TypeSystem) (tsIdx ci' : Nat) (sofas : List (Int × PSofa))
    (fss : List (Int × Nat)) (hpX : Heap) (a : Nat) (ty : String) (f : Feature) (o1 : Obj) (s : String) (ev' : Val)
    (hname : f.name = "elements") (hr : f.range = TOP) (hty : isPrimitiveArray K ty = true)
    (h1 : hpX[a]? = some o1) (h2 : alistGet? o1.slots f.name = some (.str s))
    (hparse : parsePrimArrayStr ty s = .ok ev') :
    postFeature K ts tsIdx ci' sofas fss hpX a ty false f = Heap.setSlot hpX a "elements" ev' := by
  unfold postFeature
  simp only [rtp_slot h1 h2]
  simp only [hname, hr, elements_ne_sofa, Bool.false_eq_true, if_false, top_prim, hty, beq_self_eq_true,
    Bool.and_self, if_true, hparse, bind, Except.bind]

theorem post_fs_none (K : Consts) (ts : TypeSystem) (tsIdx ci' : Nat) (sofas : List (Int × PSofa))
    (fss : List (Int × Nat)) (hpX : Heap) (a : Nat) (ty : String) (f : Feature) (o1 : Obj)
    (hname : f.name = "elements") (hr : f.range = TOP) (hty : isPrimitiveArray K ty = false)
    (h1 : hpX[a]? = some o1) (h2 : alistGet? o1.slots f.name = some .none) :
    postFeature K ts tsIdx ci' sofas fss hpX a ty false f = .ok hpX :=
  postFeature_ref_none K ts tsIdx ci' sofas fss hpX a ty f o1 (by rw [hname]; decide) (by rw [hr]; exact top_prim K ts)
    hty (by rw [hr]; exact top_primArr K) (by rw [hr]; exact top_primList K) h1 h2

theorem post_fs_str (K : Consts) (ts : TypeSystem) (tsIdx ci' : Nat) (sofas : List (Int × PSofa))
    (fss : List (Int × Nat)) (hpX : Heap) (a : Nat) (f : Feature) (o1 : Obj) (s : String) (targets : List Nat)
    (hname : f.name = "elements") (hr : f.range = TOP) (hty : isPrimitiveArray K FS_ARRAY = false)
    (h1 : hpX[a]? = some o1) (h2 : alistGet? o1.slots f.name = some (.str s))
    (hres : resolveIds fss (splitWs s) = .ok targets) :
    postFeature K ts tsIdx ci' sofas fss hpX a FS_ARRAY false f =
      Heap.setSlot hpX a "elements" (.refs (targets.map some)) := by
  unfold postFeature
  simp only [rtp_slot h1 h2]
  simp only [hname, hr, elements_ne_sofa, Bool.false_eq_true, if_false, top_prim, hty, top_primArr, top_primList,
    Bool.false_and, beq_self_eq_true, Bool.true_or, if_true, hres, bind, Except.bind, top_ne_fsArray]

/-! ### the relation after the second pass -/

/-- what the new value `w'` of `elements` has to be for the old value `ev` -/
def Want (H : Heap) (na : Int → Nat) (ev w' : Val) : Prop :=
  (ev = .none ∧ w' = .none) ∨ (isListV ev = true ∧ w' = elemsExp H na ev)

/-- the outcome of the one `postFeature` call on an array object -/
def Key (K : Consts) (ts : TypeSystem) (tsIdx ci' : Nat) (sofas : List (Int × PSofa)) (fss : List (Int × Nat))
    (H : Heap) (na : Int → Nat) (hpX : Heap) (a' : Nat) (ty : String) (isStr : Bool) (f : Feature) (ev : Val) : Prop :=
  ∃ (hpY : Heap) (w' : Val), postFeature K ts tsIdx ci' sofas fss hpX a' ty isStr f = .ok hpY ∧
    Step hpX hpY a' "elements" w' ∧ Want H na ev w'

theorem key_same {K : Consts} {ts : TypeSystem} {tsIdx ci' : Nat} {sofas : List (Int × PSofa)} {fss : List (Int × Nat)}
    {H : Heap} {na : Int → Nat} {hpX : Heap} {a' : Nat} {ty : String} {isStr : Bool} {f : Feature} {ev : Val}
    {o1 : Obj} {w' : Val}
    (hp : postFeature K ts tsIdx ci' sofas fss hpX a' ty isStr f = .ok hpX)
    (h1 : hpX[a']? = some o1) (h2 : alistGet? o1.slots "elements" = some w') (hw : Want H na ev w') :
    Key K ts tsIdx ci' sofas fss H na hpX a' ty isStr f ev :=
  ⟨hpX, w', hp, Step.same h1 h2, hw⟩

theorem key_set {K : Consts} {ts : TypeSystem} {tsIdx ci' : Nat} {sofas : List (Int × PSofa)} {fss : List (Int × Nat)}
    {H : Heap} {na : Int → Nat} {hpX : Heap} {a' : Nat} {ty : String} {isStr : Bool} {f : Feature} {ev : Val}
    {o1 : Obj} {u : Val} (w' : Val)
    (hp : postFeature K ts tsIdx ci' sofas fss hpX a' ty isStr f = Heap.setSlot hpX a' "elements" w')
    (h1 : hpX[a']? = some o1) (h2 : alistGet? o1.slots "elements" = some u) (hw : Want H na ev w') :
    Key K ts tsIdx ci' sofas fss H na hpX a' ty isStr f ev := by
  obtain ⟨hpY, hset, hstep⟩ := setSlot_step w' h1 h2
  exact ⟨hpY, w', by rw [hp, hset], hstep, hw⟩

theorem post_pack (K : Consts) (ts : TypeSystem) (cass : List Cas) (H : Heap) (na : Int → Nat) (ci' : Nat)
    (hpX hpY : Heap) (a' : Nat) (o o1 : Obj) (x : Int) (ev w' : Val)
    (hs : o.slots = [("elements", ev)]) (h1 : hpX[a']? = some o1)
    (hty : o1.ty = o.ty) (hxid : o1.xid = some x) (hnames : o1.slots.map (·.1) = o.slots.map (·.1))
    (hstep : Step hpX hpY a' "elements" w') (hw : Want H na ev w') :
    Ext hpX hpY a' ∧ ∃ o2 : Obj, hpY[a']? = some o2 ∧ Obj2 K ts cass H na ci' hpY o o2 x := by
  obtain ⟨hlen, hframe, o1', o2, ho1', ho2, hty2, hxid2, hn2, hget, _⟩ := hstep
  rw [h1] at ho1'
  cases ho1'
  refine ⟨⟨by rw [hlen]; exact Nat.le_refl _, fun b _ hb => hframe b hb, ?_⟩, o2, ho2,
    hty2.trans hty, hxid2.trans hxid, hn2.trans hnames, ?_⟩
  · intro b ob hb hob
    rw [← hlen] at hb
    rw [List.getElem?_eq_none hb] at hob
    cases hob
  · intro n v hv
    rw [hs] at hv
    obtain ⟨rfl, rfl⟩ := get_elems_inv _ _ _ hv
    refine ⟨w', hget, ?_, ?_, ?_⟩
    · intro c hc
      rcases hw with ⟨h1, _⟩ | ⟨h1, _⟩
      · rw [hc] at h1; cases h1
      · rw [hc] at h1; cases h1
    · intro hl
      rcases hw with ⟨h1, _⟩ | ⟨_, h2⟩
      · rw [h1] at hl; cases hl
      · exact h2
    · intro _ hl
      rcases hw with ⟨h1, h2⟩ | ⟨h1, _⟩
      · rw [h1, h2]; rfl
      · rw [h1] at hl; cases hl

/-- what `Slot1` says about `elements = None` -/
theorem slot1_none {K : Consts} {ts : TypeSystem} {cass : List Cas} {H hpX : Heap} {o : Obj} {w : Val}
    (h : Slot1 K ts cass H hpX o "elements" .none w) : w = .none :=
  h.2.2 (fun c hc => by cases hc) rfl

theorem map_some_inj {α} : ∀ (l l' : List α), l.map some = l'.map some → l = l'
  | [], [], _ => rfl
  | [], _ :: _, h => by cases h
  | _ :: _, [], h => by cases h
  | a :: l, b :: l', h => by
    simp only [List.map_cons, List.cons.injEq, Option.some.injEq] at h
    rw [h.1, map_some_inj l l' h.2]

/-! ### the three kinds of array objects -/

theorem key_str (K : Consts) (ts : TypeSystem) (cass : List Cas) (tsIdx ci' : Nat) (sofas : List (Int × PSofa))
    (fss : List (Int × Nat)) (H : Heap) (na : Int → Nat) (hpX : Heap) (a' : Nat) (f : Feature) (o o1 : Obj) (ev w : Val)
    (hname : f.name = "elements") (h1 : hpX[a']? = some o1) (h2 : alistGet? o1.slots "elements" = some w)
    (hty : o.ty = STRING_ARRAY) (hev : StrElems ev) (hS : Slot1 K ts cass H hpX o "elements" ev w) :
    Key K ts tsIdx ci' sofas fss H na hpX a' STRING_ARRAY true f ev := by
  have h2' : alistGet? o1.slots f.name = some w := by rw [hname]; exact h2
  have hE : Elems1 H o.ty ev w := hS.2.1 (by rcases hev with rfl | ⟨l, rfl⟩ <;> rfl)
  rcases hE with ⟨hty', _⟩ | ⟨_, hE⟩ | ⟨hty', _⟩
  · rw [hty] at hty'; exact absurd hty' (by decide)
  · rcases hE with ⟨hnil, rfl⟩ | ⟨l, rfl, hne, rfl⟩
    · -- empty: the reader stores `[]`
      refine key_set (.refs []) (post_strArr_none K ts tsIdx ci' sofas fss hpX a' _ f o1 hname h1 h2') h1 h2 ?_
      rcases hnil with rfl | rfl <;> exact Or.inr ⟨rfl, rfl⟩
    · refine key_same (post_strArr_keep K ts tsIdx ci' sofas fss hpX a' _ f o1 _ hname h1 h2' Val.noConfusion) h1 h2 ?_
      refine Or.inr ⟨rfl, ?_⟩
      cases l with
      | nil => exact absurd rfl hne
      | cons e l => rfl
  · rw [hty] at hty'; exact absurd rfl (primArrTy_ne hty').2.1

theorem key_prim (K : Consts) (ts : TypeSystem) (cass : List Cas) (tsIdx ci' : Nat) (sofas : List (Int × PSofa))
    (fss : List (Int × Nat)) (H : Heap) (na : Int → Nat) (hpX : Heap) (a' : Nat) (f : Feature) (o o1 : Obj) (ev w : Val)
    (hname : f.name = "elements") (hr : f.range = TOP) (h1 : hpX[a']? = some o1)
    (h2 : alistGet? o1.slots "elements" = some w)
    (hty : PrimArrTy o.ty) (hpa : isPrimitiveArray K o.ty = true) (hev : ev = .none ∨ PrimElems o.ty ev)
    (hS : Slot1 K ts cass H hpX o "elements" ev w) :
    Key K ts tsIdx ci' sofas fss H na hpX a' o.ty false f ev := by
  have h2' : alistGet? o1.slots f.name = some w := by rw [hname]; exact h2
  rcases hev with rfl | hev
  · have := slot1_none hS
    subst this
    exact key_same (post_prim_none K ts tsIdx ci' sofas fss hpX a' _ f o1 hname hr hpa h1 h2') h1 h2
      (Or.inl ⟨rfl, rfl⟩)
  · have hE : Elems1 H o.ty ev w := hS.2.1 (primElems_list hev)
    rcases hE with ⟨hty', _⟩ | ⟨hty', _⟩ | ⟨_, s, hshow, rfl⟩
    · exact absurd hty' (primArrTy_ne hty).1
    · exact absurd hty' (primArrTy_ne hty).2.1
    · exact key_set _ (post_prim_str K ts tsIdx ci' sofas fss hpX a' _ f o1 s _ hname hr hpa h1 h2'
        (prim_inverse H na hty hev hshow)) h1 h2 (Or.inr ⟨primElems_list hev, rfl⟩)

theorem key_fs (K : Consts) (ts : TypeSystem) (cass : List Cas) (tsIdx ci' : Nat) (sofas : List (Int × PSofa))
    (fss : List (Int × Nat)) (H : Heap) (na : Int → Nat) (hpX : Heap) (a' : Nat) (f : Feature) (o o1 : Obj) (ev w : Val)
    (hname : f.name = "elements") (hr : f.range = TOP) (h1 : hpX[a']? = some o1)
    (h2 : alistGet? o1.slots "elements" = some w)
    (hty : o.ty = FS_ARRAY) (hpa : isPrimitiveArray K FS_ARRAY = false)
    (hev : ev = .none ∨ ∃ l : List Nat, ev = .refs (l.map some) ∧ ∀ b ∈ l, Resolves H fss na b)
    (hS : Slot1 K ts cass H hpX o "elements" ev w) :
    Key K ts tsIdx ci' sofas fss H na hpX a' FS_ARRAY false f ev := by
  have h2' : alistGet? o1.slots f.name = some w := by rw [hname]; exact h2
  rcases hev with rfl | ⟨l, rfl, hl⟩
  · have := slot1_none hS
    subst this
    exact key_same (post_fs_none K ts tsIdx ci' sofas fss hpX a' _ f o1 hname hr hpa h1 h2') h1 h2
      (Or.inl ⟨rfl, rfl⟩)
  · have hE : Elems1 H o.ty (.refs (l.map some)) w := hS.2.1 rfl
    rcases hE with ⟨_, l', hl', rfl⟩ | ⟨hty', _⟩ | ⟨hty', _⟩
    · have : l' = l := (map_some_inj l l' (Val.refs.inj hl')).symm
      subst this
      exact key_set _ (post_fs_str K ts tsIdx ci' sofas fss hpX a' f o1 _ _ hname hr hpa h1 h2'
        (fs_resolve H fss na l' hl)) h1 h2 (Or.inr ⟨rfl, fs_elemsExp H fss na l' hl⟩)
    · rw [hty] at hty'; exact absurd hty' (by decide)
    · rw [hty] at hty'; exact absurd rfl (primArrTy_ne hty').1

end Cassis.Xmi.CAR

namespace Cassis.Xmi
open Cassis.TS Cassis.Traverse Cassis.Lex Cassis.Xmi.CAR

/-- first pass on an array object -/
theorem arr_elem1 (K : Consts) (ts : TypeSystem) (cass : List Cas) (H : Heap) (tsIdx : Nat) :
    Elem1Stmt K ts cass H tsIdx (ArrFs K ts H) := by
  intro a x hP hid
  obtain ⟨o, t, f, ev, hH, hfind, htn, _, hfeat, hfn, _, _, hs, _, hcase⟩ := hP
  have hx : o.xid = some x := by unfold xidOf at hid; rw [hH] at hid; exact hid
  have hgt : getTypeExact ts o.ty = .ok t := getTypeExact_of_find hfind
  have hc := ctor_elems hfeat hfn
  rcases hcase with ⟨hty, hpa, hsa, hev⟩ | ⟨hty, hpa, hev⟩ | ⟨hty, hpa, hsa, hev⟩
  · -- FSArray
    have hb : (isPrimitiveArray K o.ty || o.ty == FS_ARRAY) = true := by rw [hty]; simp
    have hne : o.ty ≠ SOFA ∧ o.ty ≠ VIEW_T := by rw [hty]; exact fsArray_ne.2
    rcases hev with rfl | ⟨l, rfl, hl⟩
    · exact elem1_pack K ts cass H tsIdx a x o _ _ hH (render_none K ts cass hH hs hx hb) hne
        (fun hpCur => parse_id K ts tsIdx hpCur o.ty t x hgt hc)
        (fun hpX => obj1_of K ts cass H hpX o t.name tsIdx x _ _ hs htn (Or.inl ⟨rfl, rfl⟩))
    · have hids := refIds_idTok H l (fun b hb => (hl b hb).1)
      exact elem1_pack K ts cass H tsIdx a x o _ _ hH
        (render_refs K ts cass _ _ hH hs hx hty (by rw [hty]; exact hsa) hids) hne
        (fun hpCur => parse_attr K ts tsIdx hpCur o.ty t x _ hgt hc)
        (fun hpX => obj1_of K ts cass H hpX o t.name tsIdx x _ _ hs htn
          (Or.inr ⟨rfl, Or.inl ⟨hty, l, rfl, rfl⟩⟩))
  · -- StringArray
    have hb : (isPrimitiveArray K o.ty || o.ty == FS_ARRAY) = true := by rw [hty, hpa]; rfl
    have hne : o.ty ≠ SOFA ∧ o.ty ≠ VIEW_T := by rw [hty]; exact strArray_ne.2
    have hsa : isInstanceOf ts o.ty STRING_ARRAY = true := by rw [hty]; exact strArr_self ts
    have hpa' : isPrimitiveArray K o.ty = true := by rw [hty]; exact hpa
    rcases hev with rfl | ⟨l, rfl⟩
    · exact elem1_pack K ts cass H tsIdx a x o _ _ hH (render_strNil K ts cass hH hs hx hb hsa) hne
        (fun hpCur => parse_id K ts tsIdx hpCur o.ty t x hgt hc)
        (fun hpX => obj1_of K ts cass H hpX o t.name tsIdx x _ _ hs htn
          (Or.inr ⟨rfl, Or.inr (Or.inl ⟨hty, Or.inl ⟨Or.inl rfl, rfl⟩⟩)⟩))
    · cases l with
      | nil =>
        exact elem1_pack K ts cass H tsIdx a x o _ _ hH (render_strs K ts cass [] hH hs hx hb hsa) hne
          (fun hpCur => parse_id K ts tsIdx hpCur o.ty t x hgt hc)
          (fun hpX => obj1_of K ts cass H hpX o t.name tsIdx x _ _ hs htn
            (Or.inr ⟨rfl, Or.inr (Or.inl ⟨hty, Or.inl ⟨Or.inr rfl, rfl⟩⟩)⟩))
      | cons e0 rest =>
        have hr := render_strs K ts cass (e0 :: rest) hH hs hx hb hsa
        rw [map_kids] at hr
        exact elem1_pack K ts cass H tsIdx a x o _ _ hH hr hne
          (fun hpCur => parse_kids K ts tsIdx hpCur o.ty t x (normTxt e0) (rest.map normTxt) hgt hc hpa')
          (fun hpX => obj1_of K ts cass H hpX o t.name tsIdx x _ _ hs htn
            (Or.inr ⟨rfl, Or.inr (Or.inl ⟨hty, Or.inr ⟨e0 :: rest, rfl, List.cons_ne_nil _ _, rfl⟩⟩)⟩))
  · -- the other primitive arrays
    have hb : (isPrimitiveArray K o.ty || o.ty == FS_ARRAY) = true := by rw [hpa]; rfl
    have hne := primArrTy_ne hty
    rcases hev with rfl | hev
    · exact elem1_pack K ts cass H tsIdx a x o _ _ hH (render_none K ts cass hH hs hx hb) hne.2.2
        (fun hpCur => parse_id K ts tsIdx hpCur o.ty t x hgt hc)
        (fun hpX => obj1_of K ts cass H hpX o t.name tsIdx x _ _ hs htn (Or.inl ⟨rfl, rfl⟩))
    · obtain ⟨s, hshow⟩ := show_primElems hev
      exact elem1_pack K ts cass H tsIdx a x o _ _ hH
        (render_prim K ts cass ev s hH hs hx (primElems_ne_none hev) hpa hne.1 hsa hshow) hne.2.2
        (fun hpCur => parse_attr K ts tsIdx hpCur o.ty t x s hgt hc)
        (fun hpX => obj1_of K ts cass H hpX o t.name tsIdx x _ _ hs htn
          (Or.inr ⟨primElems_list hev, Or.inr (Or.inr ⟨hty, s, hshow, rfl⟩)⟩))

/-- second pass on an array object -/
theorem arr_post (K : Consts) (ts : TypeSystem) (cass : List Cas) (ci : Nat) (c : Cas) (H : Heap)
    (L : List (Int × Nat)) (na : Int → Nat) (tsIdx ci' : Nat) (sofas : List (Int × PSofa)) (fss : List (Int × Nat))
    (hL : LOkC K ts c ci H L) (hfss : fss = (0, H.length) :: L.map (fun q => (q.1, na q.1))) :
    Post2Stmt K ts cass H L na tsIdx ci' sofas fss (ArrFs K ts H) := by
  intro q hq hP hpX o o1 hH h1 hobj1
  obtain ⟨o', t, f, ev, hH', hfind, htn, _, hfeat, hfn, hfr, _, hs, _, hcase⟩ := hP
  rw [hH] at hH'
  cases hH'
  obtain ⟨hty1, hxid1, hnames1, hslots1⟩ := hobj1
  obtain ⟨w, h2, hS⟩ := hslots1 "elements" ev (by rw [hs]; exact get_elems ev)
  have key : Key K ts tsIdx ci' sofas fss H na hpX (na q.1) o1.ty (isInstanceOf ts o1.ty STRING_ARRAY) f ev := by
    rw [hty1]
    rcases hcase with ⟨hty, hpa, hsa, hev⟩ | ⟨hty, hpa, hev⟩ | ⟨hty, hpa, hsa, hev⟩
    · rw [hty, hsa]
      refine key_fs K ts cass tsIdx ci' sofas fss H na hpX _ f o o1 ev w hfn hfr h1 h2 hty hpa ?_ hS
      rcases hev with rfl | ⟨l, rfl, _⟩
      · exact Or.inl rfl
      · refine Or.inr ⟨l, rfl, ?_⟩
        rw [hfss]
        exact fs_resolves K ts c ci H L na hL q hq o t l hH hfind hty hs
    · rw [hty, strArr_self]
      exact key_str K ts cass tsIdx ci' sofas fss H na hpX _ f o o1 ev w hfn h1 h2 hty hev hS
    · rw [hsa]
      exact key_prim K ts cass tsIdx ci' sofas fss H na hpX _ f o o1 ev w hfn hfr h1 h2 hty hpa hev hS
  obtain ⟨hpY, w', hpost, hstep, hw⟩ := key
  refine ⟨t, hpY, by rw [hty1]; exact rtp_getType hfind, ?_, ?_⟩
  · rw [hfeat]
    exact postFeatures_one K ts tsIdx ci' sofas fss _ _ _ f hpX hpY hpost
  · exact post_pack K ts cass H na ci' hpX hpY _ o o1 q.1 ev w' hs h1 hty1 hxid1 hnames1 hstep hw

end Cassis.Xmi
