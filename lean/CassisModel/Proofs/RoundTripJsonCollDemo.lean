/-
Non-vacuity of the test `jcollAppliesB` (`Spec/RoundTripJsonCollCheck.lean`): it answers `true` on the hand-built instance
`CollDemo` of `Spec/RoundTripCollCheck.lean` (every collection kind, inlined and shared), hence — by `jcollAppliesB_hyps`
(`Proofs/RoundTripJsonCollCheck.lean`) — every hypothesis of `json_roundtrip_coll` holds there.

The instance is built from literals, so the Lean kernel evaluates the whole test — `saveJson` (traversal, id assignment,
writer) and all checkers, `jsonOkB` with `String.endsWith` / `startsWith` included — by `decide +kernel`; no rewriting
lemmas are needed.  The third component of `JCollDemo.run` (`roundTripDiffsJ`, which also runs the reader) is not used
here; its evaluated results (`#eval allRuns`) are in `Spec/RoundTripJsonCollCheck.lean`.
-/
import CassisModel.Proofs.RoundTripJsonCollCheck
namespace Cassis.Json
open Cassis.TS Cassis.Traverse Cassis.Xmi
/-- the test applies to the demo instance -/
theorem jcollDemo_applies : jcollAppliesB CollDemo.K CollDemo.ts [CollDemo.cas] 0 CollDemo.hp = true := by
  decide +kernel

/-- hence all hypotheses of `json_roundtrip_coll` hold on the demo instance -/
theorem jcollDemo_hyps :
    ∃ (c : Cas) (doc : JDoc) (st : Traverse.St), [CollDemo.cas][0]? = some c ∧
      saveJson CollDemo.K CollDemo.ts [CollDemo.cas] 0 CollDemo.hp .none = .ok (doc, st) ∧ RTWf c CollDemo.hp ∧
      (∀ q ∈ st.allFs, JCollFs CollDemo.K CollDemo.ts c 0 st.heap q.2) ∧
      (∀ nv ∈ c.views, ∀ e ∈ Index.all nv.2.idx, (xidOf CollDemo.hp e.oid).isSome = true) ∧
      (∀ q ∈ st.allFs, ∀ nv ∈ c.views, q.1 ≠ nv.2.sofa.xid) ∧
      (∀ nv ∈ c.views, ∀ e ∈ Index.all nv.2.idx, Xmi.slot st.heap e.oid "sofa" ≠ some .none) ∧
      MembersOk c st.heap :=
  jcollAppliesB_hyps _ _ _ _ _ jcollDemo_applies

example : JCollDemo.cxj_demo.1 = true := jcollDemo_applies
-- sanity: the test is not constantly true
example : JCollDemo.cxj_obj_elements_none.1 = false := by decide +kernel   -- (J1)
example : JCollDemo.cxj_cyclic_spine.1 = false := by decide +kernel        -- (J2)
example : JCollDemo.okj_fsarray_null.1 = true := by decide +kernel
example : JCollDemo.okj_inline_strlist_empty.1 = true := by decide +kernel

/-! ### reserved names: instances with a feature declared as `self` / `type` (`ResDemo`, `JResDemo`) -/

theorem jresDemo_applies_self_prim :
    jcollAppliesB CollDemo.K (ResDemo.resTs "n" "self_") [CollDemo.cas] 0 (ResDemo.resHp "n" "self_") = true := by
  decide +kernel

theorem jresDemo_applies_type_ref :
    jcollAppliesB CollDemo.K (ResDemo.resTs "next" "type_") [CollDemo.cas] 0 (ResDemo.resHp "next" "type_") = true := by
  decide +kernel

example : jcollAppliesB CollDemo.K (ResDemo.resTs "sa" "type_") [CollDemo.cas] 0 (ResDemo.resHp "sa" "type_") = true := by
  decide +kernel

/-- all hypotheses of `json_roundtrip_coll` hold on an instance with the reserved feature `type_` (a reference, written
    under the key `@type`) -/
theorem jresDemo_hyps :
    ∃ (c : Cas) (doc : JDoc) (st : Traverse.St), [CollDemo.cas][0]? = some c ∧
      saveJson CollDemo.K (ResDemo.resTs "next" "type_") [CollDemo.cas] 0 (ResDemo.resHp "next" "type_") .none = .ok (doc, st) ∧
      RTWf c (ResDemo.resHp "next" "type_") ∧
      (∀ q ∈ st.allFs, JCollFs CollDemo.K (ResDemo.resTs "next" "type_") c 0 st.heap q.2) ∧
      (∀ nv ∈ c.views, ∀ e ∈ Index.all nv.2.idx, (xidOf (ResDemo.resHp "next" "type_") e.oid).isSome = true) ∧
      (∀ q ∈ st.allFs, ∀ nv ∈ c.views, q.1 ≠ nv.2.sofa.xid) ∧
      (∀ nv ∈ c.views, ∀ e ∈ Index.all nv.2.idx, Xmi.slot st.heap e.oid "sofa" ≠ some .none) ∧
      MembersOk c st.heap :=
  jcollAppliesB_hyps _ _ _ _ _ jresDemo_applies_type_ref
end Cassis.Json
