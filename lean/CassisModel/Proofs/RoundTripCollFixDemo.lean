/-
Non-vacuity of `xmi_roundtrip_coll_fixpoint` (`Properties/C01FixpointColl.lean`): every hypothesis holds on the
hand-built instance `CollDemo` (`Spec/RoundTripCollCheck.lean`: every collection kind, inlined and shared;
`collDemo_hyps`, `Proofs/RoundTripCollDemo.lean`, evaluated by the kernel), so the theorem applies to it.
The evaluated runs (`#eval`: save, load, save again, compare the documents — on the demo instance, on variants with
null / `""` in string arrays and lists, with empty collections, with collections that are inlined and shared at once,
and on the instances with reserved feature names) are in `Spec/RoundTripCollFixCheck.lean`.
-/
import CassisModel.Proofs.RoundTripCollFix
import CassisModel.Proofs.RoundTripCollDemo
import CassisModel.Spec.RoundTripCollFixCheck

namespace Cassis.Xmi
open Cassis.TS Cassis.Traverse

/-- the fixpoint theorem applied to the demo instance: saving what was loaded gives the same document, and what was
    loaded is in the fragment again -/
theorem collDemo_fixpoint : ∃ (doc : XDoc) (st st' : St) (ld : Loaded),
    saveXmi CollDemo.K CollDemo.ts [CollDemo.cas] 0 CollDemo.hp = .ok (doc, st) ∧
    loadXmi CollDemo.K CollDemo.ts 0 1 false st.heap doc = .ok ld ∧
    saveXmi CollDemo.K CollDemo.ts ([CollDemo.cas] ++ [ld.cas]) 1 ld.heap = .ok (doc, st') ∧
    ∀ r ∈ st'.allFs, CollFs CollDemo.K CollDemo.ts ld.cas 1 st'.heap r.2 := by
  obtain ⟨c, doc, st, hc, hs, hwf, hn, hf, hd, hm, hmo⟩ := collDemo_hyps
  obtain ⟨_, ld, _, hl, _⟩ :=
    xmi_roundtrip_coll_aux CollDemo.K CollDemo.ts [CollDemo.cas] 0 c CollDemo.hp 0 1 doc st hc hwf hn hs hf hd hm hmo
  obtain ⟨st', hs', _, hcoll'⟩ :=
    xmi_roundtrip_coll_again CollDemo.K CollDemo.ts [CollDemo.cas] 0 c CollDemo.hp 0 doc st ld hc hwf hn hs hf hm hmo hl
  exact ⟨doc, st, st', ld, hs, hl, hs', hcoll'⟩

end Cassis.Xmi
