/-
C12 round trip, layer 9b: under `StrippedNames` every declaration the writer emits for a user type, and every
redeclaration of a built-in type or of DocumentAnnotation, goes through the reader's whitespace stripping with only its
descriptions changed (`NamesStrippedT`).
-/
import CassisModel.Proofs.TsXmlRoundTripEmit
import CassisModel.Proofs.TsXmlRoundTripNorm

namespace Cassis.TsXml
open Cassis.TS

/-! ### closed facts -/

theorem predefined_noPad : Gen.consts.predefined.all noPad = true := by decide +kernel

theorem doc_noPad : noPad DOCUMENT_ANNOTATION = true := by decide +kernel

theorem base_noPad : Gen.builtinTSNoDoc.types.all (fun pt => noPadT (renderType pt)) = true := by decide +kernel

theorem docEntry_stripped : NamesStrippedT docEntry := namesStrippedT_of_noPad (by decide +kernel)

theorem base_stripped {n : String} {pt : TypeRec} (h : find? Gen.builtinTSNoDoc n = some pt) :
    NamesStrippedT (renderType pt) :=
  namesStrippedT_of_noPad (List.all_eq_true.mp base_noPad pt (find?_mem h))

/-! ### registered names -/

/-- under `StrippedNames` every registered name is its own strip: built-in names and DocumentAnnotation are -/
theorem registered_stripped {ts : TypeSystem} (hsn : StrippedNames Gen.consts ts) {n : String}
    (h : hasExact ts n = true) : strip n = n := by
  obtain ⟨t, ht, rfl⟩ := List.mem_map.mp ((hasExact_iff_mem ts n).mp h)
  cases hp : Gen.consts.predefined.contains t.name with
  | true => exact strip_of_noPad (List.all_eq_true.mp predefined_noPad _ (List.contains_iff_mem.mp hp))
  | false =>
    by_cases hd : t.name = DOCUMENT_ANNOTATION
    · rw [hd]; exact strip_of_noPad doc_noPad
    · exact (hsn t ht hp hd).1

/-- what the writer emits for a user type of an API-built type system with stripped names -/
theorem rendered_user_stripped {ts : TypeSystem} (hc : Consistent ts) (ho : OwnOK ts)
    (hsn : StrippedNames Gen.consts ts) {t : TypeRec} (ht : t ∈ userL ts) : NamesStrippedT (renderType t) := by
  obtain ⟨htm, hp, hd⟩ := mem_userL.mp ht
  obtain ⟨h1, h2⟩ := hsn t htm hp hd
  refine ⟨h1, ?_, ?_⟩
  · show strip (t.super.getD "") = t.super.getD ""
    cases hs : t.super with
    | none => exact strip_of_noPad (by decide)
    | some s => exact registered_stripped hsn (hc.superReg t htm s hs)
  · intro fd hfd
    obtain ⟨f, hf, rfl⟩ := List.mem_map.mp hfd
    obtain ⟨_, hr, he⟩ := ho t htm f hf
    refine ⟨h2 f hf, registered_stripped hsn hr, ?_⟩
    show f.elem.map strip = f.elem
    cases hel : f.elem with
    | none => rfl
    | some e => rw [Option.map_some, registered_stripped hsn (he e hel)]

end Cassis.TsXml
