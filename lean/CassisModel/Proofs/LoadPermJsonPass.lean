/-
Entry-order independence of the JSON reader, layer 2: the structure pass (`fsPass`) when the id map holds the sofa
entries in an order `F0` that differs from the order of the views (`fsPass_flat` of `RoundTripJsonPass.lean` with
`sofaEntries ci' c.views` replaced by any permutation of it — `parseFs_flat` looks the sofas up by id).
-/
import CassisModel.Proofs.LoadPermJsonDefs

namespace Cassis.Json.LPJ
open Cassis.TS Cassis.Traverse Cassis.Lex Cassis.Xmi Cassis.Xmi.RTB

section
variable {K : Consts} {ts : TypeSystem} {cass : List Cas} {c : Cas} {ci : Nat} {hp H : Heap} {L : List (Int × Nat)}

theorem F0_keys {ci' : Nat} {F0 : List (Int × Val)} (hF0 : F0.Perm (sofaEntries ci' c.views)) :
    (F0.map (·.1)).Perm (c.views.map (·.2.sofa.xid)) := by
  have := hF0.map (·.1)
  rw [sofaEntries_keys] at this
  exact this

theorem F0_lookup (hnd : (c.views.map (·.2.sofa.xid)).Nodup) {ci' : Nat} {F0 : List (Int × Val)}
    (hF0 : F0.Perm (sofaEntries ci' c.views)) (i : Int) : lookup F0 i = lookup (sofaEntries ci' c.views) i :=
  Cassis.Json.lookup_perm_aux F0 _ hF0 ((F0_keys hF0).nodup_iff.mpr hnd) i

theorem pctxP (g : GCtx K ts cass c ci hp H L) (ci' : Nat) (cas1 : Cas) (hv : cas1.views = bareViews c.views)
    (F0 : List (Int × Val)) (hF0 : F0.Perm (sofaEntries ci' c.views)) (L1 : List (Int × Nat)) :
    PCtx cass c ci H L (naOf H L) ci' (F0 ++ fsEntries (naOf H L) L1) cas1 where
  hc := g.hc
  closed := g.lok.closed
  fss_sofa := by
    intro nv hnv
    rw [lookup_append, F0_lookup g.wf.sofa_ids_nodup hF0]
    have : lookup (sofaEntries ci' c.views) nv.2.sofa.xid = some (.sofa ci' nv.1) := by
      apply lookup_of_mem_nodup
      · rw [sofaEntries_keys]; exact g.wf.sofa_ids_nodup
      · unfold sofaEntries
        exact List.mem_map.mpr ⟨nv, hnv, rfl⟩
    rw [this]
  fss_ref := by
    intro q hq tv h
    rw [lookup_append, F0_lookup g.wf.sofa_ids_nodup hF0] at h
    have : lookup (sofaEntries ci' c.views) q.1 = none := by
      apply lookup_none_of_not_mem
      rw [sofaEntries_keys]
      intro hin
      obtain ⟨nv, hnv, e⟩ := List.mem_map.mp hin
      exact g.dis q hq nv hnv e.symm
    rw [this] at h
    exact fsEntries_val _ _ _ _ (lookup_mem _ _ _ h)
  views := hv
  conv := g.wf.conv

/-- the state of the second pass after the structures `L1`, the sofa entries being `F0` -/
structure FInvP (F0 : List (Int × Val)) (H : Heap) (L : List (Int × Nat)) (ci' : Nat) (cas1 : Cas) (m0 m1 : Int)
    (L1 : List (Int × Nat)) (s : RState) : Prop where
  cas : s.cas = cas1
  num : s.maxNum = m0
  len : s.heap.length = H.length + L1.length
  fss : s.fss = F0 ++ fsEntries (naOf H L) L1
  maxId : m1 ≤ s.maxId ∧ ∀ q ∈ L1, q.1 ≤ s.maxId
  rel : ∀ q ∈ L1, ∃ o o', H[q.2]? = some o ∧ s.heap[naOf H L q.1]? = some o' ∧
    ObjPend H (naOf H L) ci' (naOf H L q.1) s.deferred o o' q.1
  defs : ∀ d ∈ s.deferred, ∃ q ∈ L1, ∃ o, H[q.2]? = some o ∧ DefOk H (naOf H L q.1) o d

theorem fsPass_flatP (g : GCtx K ts cass c ci hp H L) (tsIdx ci' : Nat) (cas1 : Cas)
    (hv : cas1.views = bareViews c.views) (F0 : List (Int × Val)) (hF0 : F0.Perm (sofaEntries ci' c.views))
    (m0 m1 : Int) :
    ∀ (L2 L1 : List (Int × Nat)) (s : RState), L = L1 ++ L2 → FInvP F0 H L ci' cas1 m0 m1 L1 s →
      ∃ s', fsPass K ts tsIdx (L2.map (elemOf ts cass H)) s = .ok s' ∧ FInvP F0 H L ci' cas1 m0 m1 L s'
  | [], L1, s, hL, inv => by
    rw [List.append_nil] at hL
    subst hL
    exact ⟨s, rfl, inv⟩
  | q :: L2, L1, s, hL, inv => by
    have hq : q ∈ L := by rw [hL]; exact List.mem_append_right _ List.mem_cons_self
    obtain ⟨o, t, ho, ht, he, hns⟩ := elemOf_flat g q hq
    have hnd : ((L1 ++ q :: L2).map (·.1)).Nodup := by rw [← hL]; exact g.lok.nodup
    have hq1 : q.1 ∉ L1.map (·.1) := by
      rw [List.map_append, List.map_cons] at hnd
      intro hin
      exact (List.nodup_append.mp hnd).2.2 _ hin _ List.mem_cons_self rfl
    have hna : naOf H L q.1 = s.heap.length := by
      unfold naOf
      rw [inv.len, hL, posOf_append_self q L2 L1 hq1]
    obtain ⟨o', ds, hparse, hpend, hdef⟩ :=
      parseFs_flat tsIdx (pctxP g ci' cas1 hv F0 hF0 L1) s inv.fss inv.cas q hq o t ho ht (g.lok.flat q hq) (g.json q hq)
    have hfsnew : setFs s.fss q.1 (.ref s.heap.length) = F0 ++ fsEntries (naOf H L) (L1 ++ [q]) := by
      rw [setFs_new]
      · rw [inv.fss, List.append_assoc]
        congr 1
        unfold fsEntries
        rw [List.map_append, List.map_cons, List.map_nil, hna]
      · rw [inv.fss, List.map_append, fsEntries_keys]
        intro hin
        rcases List.mem_append.mp hin with hin | hin
        · have hin' := (F0_keys hF0).mem_iff.mp hin
          obtain ⟨nv, hnv, e⟩ := List.mem_map.mp hin'
          exact g.dis q hq nv hnv e.symm
        · exact hq1 hin
    have inv' : FInvP F0 H L ci' cas1 m0 m1 (L1 ++ [q])
        { s with heap := s.heap ++ [o'], fss := setFs s.fss q.1 (.ref s.heap.length),
                 deferred := s.deferred ++ ds, maxId := max s.maxId q.1 } := by
      refine ⟨inv.cas, inv.num, ?_, hfsnew, ⟨?_, ?_⟩, ?_, ?_⟩
      · show (s.heap ++ [o']).length = _
        rw [List.length_append, List.length_append, inv.len]
        simp only [List.length_cons, List.length_nil]
        omega
      · show m1 ≤ max s.maxId q.1
        have := inv.maxId.1
        omega
      · intro q' hq'
        show q'.1 ≤ max s.maxId q.1
        rcases List.mem_append.mp hq' with h | h
        · have := inv.maxId.2 q' h
          omega
        · rw [List.mem_singleton] at h
          subst h
          omega
      · intro q' hq'
        rcases List.mem_append.mp hq' with h | h
        · obtain ⟨o1, o1', h1, h2, h3⟩ := inv.rel q' h
          refine ⟨o1, o1', h1, ?_, h3.mono (fun d hd => List.mem_append_left _ hd)⟩
          show (s.heap ++ [o'])[naOf H L q'.1]? = some o1'
          have hlt : naOf H L q'.1 < s.heap.length := (List.getElem?_eq_some_iff.mp h2).1
          rw [List.getElem?_append_left hlt]
          exact h2
        · rw [List.mem_singleton] at h
          subst h
          refine ⟨o, o', ho, ?_, ?_⟩
          · show (s.heap ++ [o'])[naOf H L q'.1]? = some o'
            rw [hna]; exact get_last _ _
          · rw [hna]
            exact hpend.mono (fun d hd => List.mem_append_right _ hd)
      · intro d hd
        rcases List.mem_append.mp hd with h | h
        · obtain ⟨q', hq', o1, h1, h2⟩ := inv.defs d h
          exact ⟨q', List.mem_append_left _ hq', o1, h1, h2⟩
        · exact ⟨q, List.mem_append_right _ List.mem_cons_self, o, ho, by rw [hna]; exact hdef d h⟩
    obtain ⟨s', hs', inv''⟩ := fsPass_flatP g tsIdx ci' cas1 hv F0 hF0 m0 m1 L2 (L1 ++ [q]) _
      (by rw [hL, List.append_assoc]; rfl) inv'
    refine ⟨s', ?_, inv''⟩
    rw [List.map_cons]
    unfold fsPass
    have hty : ((elemOf ts cass H q).ty != SOFA) = true := by
      rw [he]
      show (o.ty != SOFA) = true
      simpa using hns
    rw [hty]
    simp only [if_true]
    rw [he, hparse]
    dsimp only
    exact hs'

/-- after the pass every written id is mapped to the new address of its structure -/
theorem FInvP.lookup_fs (g : GCtx K ts cass c ci hp H L) {ci' : Nat} {F0 : List (Int × Val)}
    (hF0 : F0.Perm (sofaEntries ci' c.views)) {cas1 : Cas} {m0 m1 : Int} {s : RState}
    (inv : FInvP F0 H L ci' cas1 m0 m1 L s) :
    ∀ q ∈ L, lookup s.fss q.1 = some (.ref (naOf H L q.1)) := by
  intro q hq
  rw [inv.fss, lookup_append, F0_lookup g.wf.sofa_ids_nodup hF0]
  have : lookup (sofaEntries ci' c.views) q.1 = none := by
    apply lookup_none_of_not_mem
    rw [sofaEntries_keys]
    intro hin
    obtain ⟨nv, hnv, e⟩ := List.mem_map.mp hin
    exact g.dis q hq nv hnv e.symm
  rw [this]
  apply lookup_of_mem_nodup
  · rw [fsEntries_keys]; exact g.lok.nodup
  · unfold fsEntries
    exact List.mem_map.mpr ⟨q, hq, rfl⟩

end

end Cassis.Json.LPJ
