/-
C16 with collections — composition of the two round trips on the whole format (`Properties/C16ChainColl.lean`):
XMI → CAS → JSON → CAS.

The first half is the proof of `xmi_roundtrip_coll` with its description of the loaded heap kept (`xmi_core_coll`,
`ChainCollXmiCore.lean`), strengthened by the *types* of the collection objects the reader makes for inlined collections
(`ChainCollTyped*.lean`).  From this description the loaded CAS is shown to be traversed by the JSON writer
(`XLd.traversal`: ids are assigned to the inlined collection objects, `ChainCollTravGen.lean`), to lie in the JSON fragment
(`XLd.sall_j`, `XLd.lokJ`), to contain the counterpart of every written structure (`XLd.complete`) and to be written
(`renderFs_ok`); the second half is the JSON round trip in the form `json_roundtrip_coll_weak` (`ChainCollJsonCore.lean`) on
the normalised CAS (`ChainCollNorm.lean`), and the content equalities compose (`XLd.content_keep`, `CF.content_eq`).

Two hypotheses are added to the statement as first given (both with evaluated counterexamples, `Spec/ChainCollCheck.lean`):
`harr` (array objects carry an element list) and `htys` (`CollTypesOk`, `Spec/ChainCollFrag.lean`).
-/
import CassisModel.Proofs.ChainCollLoadedI
import CassisModel.Proofs.ChainCollJsonCore
import CassisModel.Proofs.ChainCollNorm
import CassisModel.Proofs.Chain

namespace Cassis.ChainC
open Cassis.TS Cassis.Traverse Cassis.Xmi Cassis.Lex Cassis.Json Cassis.Chain

section
variable {K : Consts} {ts : TypeSystem} {c : Cas} {ci : Nat} {H : Heap} {L : List (Int × Nat)} {ci' : Nat}
  {na : Int → Nat} {ia : Int → String → Nat} {ld : Xmi.Loaded}

/-- the members of the loaded views keep their ids in the second traversal -/
theorem XLd.member_xid (x : XLd K ts c ci H L ci' na ia ld) {st2 : St} (j : JTrav K ts L na ld st2)
    {nv' : String × View} (hnv' : nv' ∈ ld.cas.views) {e' : Index.Entry} (he' : e' ∈ Index.all nv'.2.idx) :
    xidOf st2.heap e'.oid = xidOf ld.heap e'.oid := by
  obtain ⟨_, _, _, e, _, i, hi, hei⟩ := x.entry hnv' he'
  rw [hei]
  exact x.xid_keep j ⟨_, hi, rfl⟩

theorem XLd.viewContent_keep (x : XLd K ts c ci H L ci' na ia ld) {st2 : St} (j : JTrav K ts L na ld st2) :
    ld.cas.views.map (viewContent st2.heap) = ld.cas.views.map (viewContent ld.heap) := by
  apply List.map_congr_left
  intro nv' hnv'
  unfold viewContent
  congr 2
  exact filterMap_congr'' _ (fun e he => x.member_xid j hnv' he)

theorem XLd.jviews_keep (x : XLd K ts c ci H L ci' na ia ld) {st2 : St} (j : JTrav K ts L na ld st2) :
    ld.cas.views.map (jviewOf ld.heap) = ld.cas.views.map (jviewOf st2.heap) := by
  apply List.map_congr_left
  intro nv' hnv'
  unfold jviewOf
  congr 2
  exact filterMap_congr'' _ (fun e he => (x.member_xid j hnv' he).symm)

/-- no feature named `sofa` that holds a value has a primitive range, in the heap after the second traversal -/
theorem XLd.sofaRange (x : XLd K ts c ci H L ci' na ia ld) {st2 : St} (j : JTrav K ts L na ld st2)
    (hsr : ∀ q ∈ L, ∀ o t, H[q.2]? = some o → find? ts o.ty = some t → ∀ f ∈ allFeatures t, SofaRangeOk K ts o f)
    {r : Int × Nat} (hr : SAll K ld.heap L na r.2) :
    ∀ o t, st2.heap[r.2]? = some o → find? ts o.ty = some t → ∀ f ∈ allFeatures t, SofaRangeOk K ts o f := by
  intro o2 t ho2 ht f hf hn hne
  obtain ⟨o1, ho1, hsl, hty⟩ := slots_back j.shape ho2
  rw [hsl] at hne
  rcases hr with ⟨q, hq, hqa⟩ | ⟨oa, ev, hoa, _, hsla, _⟩ | ⟨k, vs, hv, _⟩
  · obtain ⟨o, o', ho, ho', hor⟩ := x.rel q hq
    rw [hqa] at ho1
    rw [ho1] at ho'; cases ho'
    rw [hty, hor.1] at ht
    apply hsr q hq o t ho ht f hf hn
    rw [hn, x.slot_map hq ho ho1 "sofa"] at hne
    rw [hn]
    cases hv : alistGet? o.slots "sofa" with
    | none => rw [hv] at hne; exact absurd rfl hne
    | some v =>
      rw [hv] at hne
      intro e
      simp only [Option.getD_some] at e
      subst e
      exact hne rfl
  · rw [hoa] at ho1; cases ho1
    rw [hn, hsla] at hne
    exact absurd rfl hne
  · cases hv with
    | nil g1 _ _ g4 =>
      rw [g1] at ho1; cases ho1
      rw [hn, g4] at hne
      exact absurd rfl hne
    | cons g1 _ _ g4 _ =>
      rw [g1] at ho1; cases ho1
      rw [hn, g4] at hne
      exact absurd rfl hne

end

end Cassis.ChainC

namespace Cassis
open Cassis.TS Cassis.Traverse Cassis.Xmi Cassis.Chain Cassis.ChainC

/-- XMI → CAS → JSON → CAS, collections included -/
theorem chain_xmi_json_coll_aux (K : Consts) (ts : TypeSystem) (cass : List Cas) (ci : Nat) (c : Cas) (hp : Heap)
    (tsIdx : Nat) (doc : XDoc) (st : St)
    (hc : cass[ci]? = some c) (hwf : RTWf c hp) (hnull : NullOk ts)
    (hsave : saveXmi K ts cass ci hp = .ok (doc, st))
    (hcoll : ∀ q ∈ st.allFs, CollFs K ts c ci st.heap q.2)
    (hjson : ∀ q ∈ st.allFs, Json.JsonFs ts st.heap q.2)
    (hsr : ∀ q ∈ st.allFs, ∀ o t, st.heap[q.2]? = some o → find? ts o.ty = some t → ∀ f ∈ allFeatures t,
      f.name = "sofa" → (alistGet? o.slots f.name).getD .none ≠ .none →
      f.range ≠ "uima.cas.Double" ∧ f.range ≠ "uima.cas.Float" ∧ isPrimitive K ts f.range = false)
    (hdis : ∀ q ∈ st.allFs, ∀ nv ∈ c.views, q.1 ≠ nv.2.sofa.xid)
    (hmem : ∀ nv ∈ c.views, ∀ e ∈ Index.all nv.2.idx, Xmi.slot st.heap e.oid "sofa" ≠ some .none)
    (hmok : MembersOk c st.heap)
    (harr : ∀ q ∈ st.allFs, Json.ArrElemsSome st.heap q.2)
    (htys : Json.CollTypesOk K ts) :
    ∃ (ld1 : Xmi.Loaded) (docj : Json.JDoc) (st2 : St) (ld2 : Json.Loaded) (fss2 : List (Int × Val)),
      loadXmi K ts tsIdx cass.length false st.heap doc = .ok ld1 ∧
      Json.saveJson K ts (cass ++ [ld1.cas]) cass.length ld1.heap .none = .ok (docj, st2) ∧
      Json.loadJson K ts tsIdx (cass.length + 1) false false st2.heap docj = .ok ld2 ∧
      ld2.cas.views.map (viewContent ld2.heap) = c.views.map (viewContent st.heap) ∧
      (∀ q ∈ st.allFs, ∃ (a2 : Nat) (o o2 : Obj), Json.lookup fss2 q.1 = some (.ref a2) ∧
          st.heap[q.2]? = some o ∧ ld2.heap[a2]? = some o2 ∧ o2.ty = o.ty ∧ o2.xid = some q.1 ∧
          ∀ t : TypeRec, find? ts o.ty = some t → ∀ f ∈ allFeatures t,
            featContentC K ld2.heap a2 f = featContentC K st.heap q.2 f) := by
  -- the first half
  obtain ⟨na, ia, ld1, hload1, x⟩ :=
    xmi_core_coll K ts cass ci c hp tsIdx cass.length doc st hc hwf hnull hsave hcoll hmem hmok
  have hfa := saveXmi_findAllFs hc hsave
  have hjsonL : ∀ q ∈ sortById st.allFs, Json.JsonFs ts st.heap q.2 := fun q hq => hjson q (mem_sortById.mp hq)
  have harrL : ∀ q ∈ sortById st.allFs, Json.ArrElemsSome st.heap q.2 := fun q hq => harr q (mem_sortById.mp hq)
  have hsrL : ∀ q ∈ sortById st.allFs, ∀ o t, st.heap[q.2]? = some o → find? ts o.ty = some t →
      ∀ f ∈ allFeatures t, Json.SofaRangeOk K ts o f := fun q hq => hsr q (mem_sortById.mp hq)
  -- the loaded CAS is traversed …
  obtain ⟨st2, hfa2, hsh, hsub, hnz, hfresh⟩ := x.traversal htys hjsonL harrL
  have j : JTrav K ts (sortById st.allFs) na ld1 st2 := ⟨hfa2, hsh, hsub, hnz, hfresh⟩
  have hL2 := x.lokJ htys hjsonL harrL j
  have hcomp := x.complete hwf.next_pos hfa j hL2
  have hc' : (cass ++ [ld1.cas])[cass.length]? = some ld1.cas := List.getElem?_concat_length
  have hcB : (cass ++ [normCas ld1.cas])[cass.length]? = some (normCas ld1.cas) := List.getElem?_concat_length
  have hSr : ∀ r ∈ sortById st2.allFs, SAll K ld1.heap (sortById st.allFs) na r.2 :=
    fun r hr => hsub r (mem_sortById.mp hr)
  -- … and written
  have hrA := renderAll_ok K ts (cass ++ [ld1.cas]) st2.heap (Json.elemOfJ K ts (cass ++ [ld1.cas]) st2.heap)
    (sortById st2.allFs) (renderFs_ok hc' hL2 (fun r hr => x.sofaRange j hsrL (hSr r hr)))
  have hplain := loadXmi_plain hload1
  have harr' : ∀ nv ∈ ld1.cas.views, nv.2.sofa.arr = .none := fun nv hnv => (hplain nv hnv).1
  have hsave2 := Json.saveJson_intro (K := K) (ts := ts) hc' harr' hfa2 hrA
  -- the views of the loaded CAS
  have hvrl : VRL st.heap na c.views ld1.cas.views := VRL.of_xmi x.views
  obtain ⟨w1, w2, w3, w4, w5, w6⟩ := views_wf hwf hvrl
  have hconv : ∀ nv ∈ ld1.cas.views, ∀ t, nv.2.sofa.text = some t → ∀ k, k ≤ t.length →
      Offsets.pythonToExternal nv.2.sofa.conv k = Offsets.pythonToExternal (some (Offsets.table t)) k := by
    intro nv' hnv' t ht k hk
    obtain ⟨nv, hnv, hr⟩ := viewsRelL_bwd _ _ _ _ x.views nv' hnv'
    have ht0 : nv.2.sofa.text = some t := by rw [← hr.2.2.2.2.1]; exact ht
    rw [hr.2.2.2.2.2.2.1, ht0]
    exact conv_p2e_eq t (hwf.scalar nv hnv t ht0) k hk
  have hwfB : RTWf (normCas ld1.cas) [] :=
    rtwf_norm w1 w2 w3 w4 hplain w5 x.next_pos (by
      intro nv' hnv'
      refine ⟨w6 nv' hnv', ?_⟩
      obtain ⟨nv, hnv, hr⟩ := VRL.bwd hvrl nv' hnv'
      rw [hr.2.2.1]
      exact x.sofas_below nv hnv)
  -- the other hypotheses of the JSON round trip, over the heap after the traversal
  have hdis2 : ∀ r ∈ sortById st2.allFs, ∀ nv ∈ ld1.cas.views, r.1 ≠ nv.2.sofa.xid := by
    intro r hr nv' hnv'
    obtain ⟨nv, hnv, hvr⟩ := VRL.bwd hvrl nv' hnv'
    rw [hvr.2.2.1]
    rcases hfresh r.2 (hSr r hr) r.1 (hL2.ids r hr).1 with hold | hnew
    · obtain ⟨q, hq, _, e⟩ := x.sall_xid (hSr r hr) hold
      rw [e]
      exact hdis q (mem_sortById.mp hq) nv hnv
    · have := x.sofas_below nv hnv
      omega
  have hmem2 : ∀ nv ∈ ld1.cas.views, ∀ e ∈ Index.all nv.2.idx, Xmi.slot st2.heap e.oid "sofa" ≠ some .none := by
    intro nv hnv e he
    have : Xmi.slot st2.heap e.oid "sofa" = Xmi.slot ld1.heap e.oid "sofa" := hsh.slot _ _
    rw [this]
    exact x.mem_sofa hmem nv hnv e he
  have hmok2 : MembersOk ld1.cas st2.heap := membersOk_shape hsh (x.membersOk hmok)
  -- the second half
  obtain ⟨ld2, fss2, hload2, hfs2, hvc2⟩ :=
    json_roundtrip_coll_weak K ts (cass ++ [normCas ld1.cas]) cass.length (normCas ld1.cas) [] st2.heap
      (sortById st2.allFs) tsIdx (cass.length + 1)
      { types := none,
        fss := ld1.cas.views.map (fun p => Json.renderSofa ld1.heap p.2.sofa) ++
          (sortById st2.allFs).map (Json.elemOfJ K ts (cass ++ [ld1.cas]) st2.heap),
        views := ld1.cas.views.map (Json.jviewOf ld1.heap) }
      hcB hwfB (lokJ_norm hL2) (dis_norm hdis2) (mem_sofa_norm hmem2) (membersOk_norm hmok2)
      (by
        show _ ++ _ = _ ++ _
        rw [renderSofa_norm ld1.heap [] ld1.cas harr']
        congr 1
        apply List.map_congr_left
        intro r hr
        exact (elemOfJ_norm hc' hcB hconv r (hL2.coll r hr).1).symm)
      (by
        show ld1.cas.views.map (Json.jviewOf ld1.heap) = _
        rw [jviews_norm st2.heap ld1.cas]
        exact x.jviews_keep j)
  refine ⟨ld1, _, st2, ld2, fss2, hload1, hsave2, hload2, ?_, ?_⟩
  · rw [hvc2, viewContent_norm, x.viewContent_keep j, x.content]
  · intro q hq0
    have hq := mem_sortById.mpr hq0
    obtain ⟨o, o', ho, ho', hty, hx, _, hslots⟩ := x.rel q hq
    obtain ⟨a2, o1, o2, hlk, ho1, ho2, hty2, hx2, hfc2⟩ := hfs2 _ (hcomp q hq)
    obtain ⟨o1', ho1', _, hty1⟩ := slots_back hsh ho1
    have e1 : o1' = o' := by
      have : ld1.heap[na q.1]? = some o1' := ho1'
      rw [ho'] at this
      exact (Option.some.inj this).symm
    subst e1
    refine ⟨a2, o, o2, hlk, ho, ho2, hty2.trans (hty1.trans hty), hx2, ?_⟩
    intro t ht f hf
    rw [hfc2 t (by rw [hty1, hty]; exact ht) f hf]
    show featContentC K st2.heap (na q.1) f = _
    rw [x.content_keep j harrL hq ho ht hf]
    exact CF.content_eq x.lok (fun q' hq' => x.xid_new hq') x.colls q hq o o1' ho ho' hslots t ht f hf

end Cassis
