/-
Entry-order independence of the JSON reader on the flat fragment (`Properties/C05PermJson.lean`): shared lemmas.

The proof of `json_roundtrip_flat` is layered over an arbitrary list `L` of collected structures `(id, address)` with
`LOk K ts c ci H L`, the new address of the structure with id `x` being `naOf H L x = H.length + posOf x L`.  For a
document whose `%FEATURE_STRUCTURES` are permuted the same layers are used with

* `L'`  — the structures in the order of the permuted document (a permutation of `sortById st.allFs`),
* `c'`  — the written CAS with its views in the order in which the reader creates them (`viewsFirst`: the initial view
          first, the other views in the order of their sofas in the document), `cass' = cass.set ci c'`;

this file holds what is needed to move the hypotheses from `(cass, c, L)` to `(cass', c', L')`, and the two facts that
make the passes of the reader independent of where the sofas stand: `sofaPass` sees only the sofas, `fsPass` only the
other structures.
-/
import CassisModel.Proofs.RoundTripJsonCore
import CassisModel.Proofs.LoadPermDefs

namespace Cassis.Json.LPJ
open Cassis.TS Cassis.Traverse Cassis.Lex Cassis.Xmi Cassis.Xmi.RTB

/-! ### association lists up to permutation -/

theorem alistGet?_perm {β} {l l' : List (String × β)} (h : l.Perm l') (hn : (l.map (·.1)).Nodup) (k : String) :
    alistGet? l k = alistGet? l' k := by
  induction h with
  | nil => rfl
  | cons x _ ih =>
    obtain ⟨k', v'⟩ := x
    rw [List.map_cons, List.nodup_cons] at hn
    unfold alistGet?
    by_cases e : k' = k
    · rw [if_pos e, if_pos e]
    · rw [if_neg e, if_neg e]; exact ih hn.2
  | swap x y l =>
    obtain ⟨kx, vx⟩ := x
    obtain ⟨ky, vy⟩ := y
    simp only [List.map_cons, List.nodup_cons, List.mem_cons, not_or] at hn
    have hne : ky ≠ kx := hn.1.1
    unfold alistGet?
    by_cases e1 : ky = k
    · have e2 : ¬ kx = k := fun e => hne (e1.trans e.symm)
      rw [if_pos e1]
      unfold alistGet?
      rw [if_neg e2, if_pos e1]
    · rw [if_neg e1]
      unfold alistGet?
      by_cases e2 : kx = k
      · rw [if_pos e2, if_pos e2]
      · rw [if_neg e2, if_neg e2, if_neg e1]
  | trans h1 _ ih1 ih2 =>
    rw [ih1 hn]
    exact ih2 ((h1.map (·.1)).nodup_iff.mp hn)

/-! ### the passes of the reader see only their own entries -/

theorem sofaPass_filter (K : Consts) (ts : TypeSystem) (tsIdx ci : Nat) (all : List JFs) :
    ∀ (l : List JFs) (s : RState),
      sofaPass K ts tsIdx ci all l s = sofaPass K ts tsIdx ci all (l.filter (fun j => j.ty == SOFA)) s
  | [], _ => rfl
  | j :: l, s => by
    by_cases h : (j.ty == SOFA) = true
    · rw [List.filter_cons_of_pos (p := fun j : JFs => j.ty == SOFA) h]
      conv => lhs; rw [sofaPass]
      conv => rhs; rw [sofaPass]
      simp only [h, if_true, sofaPass_filter K ts tsIdx ci all l]
    · rw [List.filter_cons_of_neg (p := fun j : JFs => j.ty == SOFA) h]
      conv => lhs; rw [sofaPass]
      rw [if_neg h]
      exact sofaPass_filter K ts tsIdx ci all l s

theorem fsPass_filter (K : Consts) (ts : TypeSystem) (tsIdx : Nat) :
    ∀ (l : List JFs) (s : RState),
      fsPass K ts tsIdx l s = fsPass K ts tsIdx (l.filter (fun j => j.ty != SOFA)) s
  | [], _ => rfl
  | j :: l, s => by
    by_cases h : (j.ty != SOFA) = true
    · rw [List.filter_cons_of_pos (p := fun j : JFs => j.ty != SOFA) h]
      conv => lhs; rw [fsPass]
      conv => rhs; rw [fsPass]
      simp only [h, if_true, fsPass_filter K ts tsIdx l]
    · rw [List.filter_cons_of_neg (p := fun j : JFs => j.ty != SOFA) h]
      conv => lhs; rw [fsPass]
      rw [if_neg h]
      exact fsPass_filter K ts tsIdx l s

theorem filter_map_all {α β} (f : α → β) (p : β → Bool) (l : List α) (h : ∀ a ∈ l, p (f a) = true) :
    (l.map f).filter p = l.map f := by
  apply List.filter_eq_self.mpr
  intro b hb
  obtain ⟨a, ha, rfl⟩ := List.mem_map.mp hb
  exact h a ha

theorem filter_map_none {α β} (f : α → β) (p : β → Bool) (l : List α) (h : ∀ a ∈ l, p (f a) = false) :
    (l.map f).filter p = [] := by
  apply List.filter_eq_nil_iff.mpr
  intro b hb
  obtain ⟨a, ha, rfl⟩ := List.mem_map.mp hb
  rw [h a ha]
  simp

/-! ### the views in the order in which the reader creates them -/

/-- the written CAS with its views reordered -/
def withViews (c : Cas) (vs : List (String × View)) : Cas := { c with views := vs }

theorem getViewRec_withViews {c : Cas} {vs : List (String × View)} (hvs : vs.Perm c.views)
    (hn : (c.views.map (·.1)).Nodup) (vn : String) :
    Cas.getViewRec (withViews c vs) vn = Cas.getViewRec c vn := by
  unfold Cas.getViewRec withViews
  exact alistGet?_perm hvs ((hvs.map (·.1)).nodup_iff.mpr hn) vn

theorem rtwf_withViews {c : Cas} {hp : Heap} {vs : List (String × View)} (hwf : RTWf c hp) (hvs : vs.Perm c.views)
    (hhead : (vs.head?).map (·.1) = some Cas.INITIAL_VIEW) : RTWf (withViews c vs) hp where
  init_first := hhead
  names := fun nv hnv => hwf.names nv (hvs.mem_iff.mp hnv)
  names_nodup := (hvs.map (·.1)).nodup_iff.mpr hwf.names_nodup
  sofa_ids_nodup := (hvs.map (·.2.sofa.xid)).nodup_iff.mpr hwf.sofa_ids_nodup
  text_sofa := fun nv hnv => hwf.text_sofa nv (hvs.mem_iff.mp hnv)
  conv := fun nv hnv => hwf.conv nv (hvs.mem_iff.mp hnv)
  conv_none := fun nv hnv => hwf.conv_none nv (hvs.mem_iff.mp hnv)
  scalar := fun nv hnv => hwf.scalar nv (hvs.mem_iff.mp hnv)
  next_pos := hwf.next_pos
  ids_below := hwf.ids_below
  sofa_ids := fun nv hnv => hwf.sofa_ids nv (hvs.mem_iff.mp hnv)
  ids_pos := hwf.ids_pos

theorem flatFs_congr {K : Consts} {ts : TypeSystem} {c c' : Cas} {ci : Nat} {H : Heap} {a : Nat}
    (hg : ∀ vn, Cas.getViewRec c' vn = Cas.getViewRec c vn) (h : FlatFs K ts c ci H a) : FlatFs K ts c' ci H a := by
  unfold FlatFs FlatFeat at *
  simp only [hg]
  exact h

theorem lok_withViews {K : Consts} {ts : TypeSystem} {c : Cas} {ci : Nat} {H : Heap} {L L' : List (Int × Nat)}
    {vs : List (String × View)} (hL : LOk K ts c ci H L) (hvs : vs.Perm c.views) (hn : (c.views.map (·.1)).Nodup)
    (hL' : L'.Perm L) : LOk K ts (withViews c vs) ci H L' where
  flat := fun q hq => flatFs_congr (getViewRec_withViews hvs hn) (hL.flat q (hL'.mem_iff.mp hq))
  ids := fun q hq => hL.ids q (hL'.mem_iff.mp hq)
  nodup := (hL'.map (·.1)).nodup_iff.mpr hL.nodup
  closed := by
    intro q hq o ho n b hb
    obtain ⟨x, hx, hm⟩ := hL.closed q (hL'.mem_iff.mp hq) o ho n b hb
    exact ⟨x, hx, hL'.mem_iff.mpr hm⟩
  members := by
    intro nv hnv e he
    obtain ⟨x, hx⟩ := hL.members nv (hvs.mem_iff.mp hnv) e he
    exact ⟨x, hL'.mem_iff.mpr hx⟩

theorem membersOk_withViews {c : Cas} {H : Heap} {vs : List (String × View)} (h : MembersOk c H)
    (hvs : vs.Perm c.views) : MembersOk (withViews c vs) H :=
  fun nv hnv => h nv (hvs.mem_iff.mp hnv)

/-- the writer reads the list of CASes only to look up views by name -/
def SameViewsJ (cass cass' : List Cas) : Prop :=
  ∀ (i : Nat) (vn : String),
    (cass'[i]?).bind (fun c => Cas.getViewRec c vn) = (cass[i]?).bind (fun c => Cas.getViewRec c vn)

theorem sameViews_set {cass : List Cas} {ci : Nat} {c : Cas} {vs : List (String × View)} (hc : cass[ci]? = some c)
    (hvs : vs.Perm c.views) (hn : (c.views.map (·.1)).Nodup) : SameViewsJ cass (cass.set ci (withViews c vs)) := by
  intro i vn
  by_cases h : ci = i
  · subst h
    have hlt : ci < cass.length := (List.getElem?_eq_some_iff.mp hc).1
    rw [List.getElem?_set_self hlt, hc]
    exact getViewRec_withViews hvs hn vn
  · rw [List.getElem?_set_ne h]

theorem elemOf_congr {cass cass' : List Cas} (hv : SameViewsJ cass cass') (ts : TypeSystem) (H : Heap) (q : Int × Nat) :
    elemOf ts cass' H q = elemOf ts cass H q := by
  unfold SameViewsJ at hv
  unfold elemOf flatJFs jmemF jmem extInt
  simp only [hv]

end Cassis.Json.LPJ
