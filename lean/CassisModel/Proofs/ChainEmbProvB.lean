/-
C16 with an embedded type system, provenance of feature records, part B: `merge_typesystems` keeps the invariant `PInv P`
(`Proofs/ChainEmbProvA.lean`) when the own features of every declaration satisfy `P` (up to the domain, which the merge
sets).  Re-parenting included (it does not occur when a type system is merged into a fresh one, but nothing has to be
known about that here).
-/
import CassisModel.Proofs.ChainEmbProvA
import CassisModel.Model.Merge

namespace Cassis.ChainE
open Cassis.TS

/-- a registry with the same feature records -/
theorem pinv_transfer {P : Feature → Prop} {ts ts' : TypeSystem} (h : PInv P ts)
    (hn : (ts'.types.map (·.name)).Nodup)
    (hback : ∀ x ∈ ts'.types, ∃ y ∈ ts.types, x.own = y.own ∧ x.inh = y.inh)
    (hfwd : ∀ y ∈ ts.types, ∃ x ∈ ts'.types, x.own = y.own) :
    PInv P ts' ∧ ∀ g, OwnIn ts g → OwnIn ts' g := by
  have hown : ∀ g, OwnIn ts g → OwnIn ts' g := by
    rintro g ⟨y, hy, hg⟩
    obtain ⟨x, hx, e⟩ := hfwd y hy
    exact ⟨x, hx, by rw [e]; exact hg⟩
  refine ⟨⟨hn, ?_, ?_⟩, hown⟩
  · intro x hx g hg
    obtain ⟨y, hy, e1, _⟩ := hback x hx
    rw [e1] at hg
    exact h.own y hy g hg
  · intro x hx r hr
    obtain ⟨y, hy, _, e2⟩ := hback x hx
    rw [e2] at hr
    exact hown r (h.inh y hy r hr)

/-! ### re-parenting -/

/-- the record update of `relink` -/
def relinkRec (name oldSup newSup : String) (t : TypeRec) : TypeRec :=
  if t.name == name then { t with super := some newSup }
  else if t.name == oldSup && t.name == newSup then t
  else if t.name == oldSup then { t with children := t.children.filter (· != name) }
  else if t.name == newSup then { t with children := t.children ++ [name] }
  else t

theorem relinkRec_spec (name oldSup newSup : String) (t : TypeRec) :
    (relinkRec name oldSup newSup t).name = t.name ∧ (relinkRec name oldSup newSup t).own = t.own ∧
      (relinkRec name oldSup newSup t).inh = t.inh := by
  unfold relinkRec
  split
  · exact ⟨rfl, rfl, rfl⟩
  · split
    · exact ⟨rfl, rfl, rfl⟩
    · split
      · exact ⟨rfl, rfl, rfl⟩
      · split
        · exact ⟨rfl, rfl, rfl⟩
        · exact ⟨rfl, rfl, rfl⟩

theorem relink_types (ts : TypeSystem) (name oldSup newSup : String) :
    (relink ts name oldSup newSup).types =
      (ts.types.map (relinkRec name oldSup newSup)).filter (fun t => !((descendantsOf ts name).contains t.name)) ++
      (ts.types.map (relinkRec name oldSup newSup)).filter (fun t => (descendantsOf ts name).contains t.name) := rfl

theorem filter_not_append_perm {α} (p : α → Bool) (l : List α) :
    (l.filter (fun x => !p x) ++ l.filter p).Perm l := by
  induction l with
  | nil => exact List.Perm.refl _
  | cons a l ih =>
    simp only [List.filter_cons]
    cases hp : p a with
    | true =>
      simp only [Bool.not_true, Bool.false_eq_true, if_false, if_true]
      exact (List.perm_middle).trans (List.Perm.cons a ih)
    | false =>
      simp only [Bool.not_false, if_true, Bool.false_eq_true, if_false, List.cons_append]
      exact List.Perm.cons a ih

theorem pinv_relink {P : Feature → Prop} {ts : TypeSystem} (h : PInv P ts) (name oldSup newSup : String) :
    PInv P (relink ts name oldSup newSup) ∧ ∀ g, OwnIn ts g → OwnIn (relink ts name oldSup newSup) g := by
  have hperm : (relink ts name oldSup newSup).types.Perm (ts.types.map (relinkRec name oldSup newSup)) := by
    rw [relink_types]
    exact filter_not_append_perm _ _
  have hmem : ∀ x, x ∈ (relink ts name oldSup newSup).types ↔ x ∈ ts.types.map (relinkRec name oldSup newSup) :=
    fun x => hperm.mem_iff
  apply pinv_transfer h
  · have := hperm.map (·.name)
    rw [this.nodup_iff, List.map_map]
    have e : ts.types.map ((·.name) ∘ relinkRec name oldSup newSup) = ts.types.map (·.name) := by
      apply List.map_congr_left
      intro t _
      exact (relinkRec_spec name oldSup newSup t).1
    rw [e]
    exact h.nodup
  · intro x hx
    obtain ⟨y, hy, rfl⟩ := List.mem_map.mp ((hmem x).mp hx)
    exact ⟨y, hy, (relinkRec_spec name oldSup newSup y).2.1, (relinkRec_spec name oldSup newSup y).2.2⟩
  · intro y hy
    exact ⟨_, (hmem _).mpr (List.mem_map_of_mem hy), (relinkRec_spec name oldSup newSup y).2.1⟩

theorem pinv_inheritFrom {P : Feature → Prop} (name : String) : ∀ (fs : List Feature) (ts ts' : TypeSystem),
    PInv P ts → (∀ f ∈ fs, OwnIn ts f) → inheritFrom ts name fs = .ok ts' →
      PInv P ts' ∧ ∀ g, OwnIn ts g → OwnIn ts' g := by
  intro fs
  induction fs with
  | nil =>
    intro ts ts' h _ hi
    unfold inheritFrom at hi
    cases hi
    exact ⟨h, fun _ hg => hg⟩
  | cons f fs ih =>
    intro ts ts' h hfs hi
    unfold inheritFrom at hi
    split at hi
    · cases hi
    · cases hp : pushInherited f (ts.types.length + 1) ts [name] with
      | error e => rw [hp] at hi; cases hi
      | ok ts1 =>
        rw [hp] at hi
        dsimp only at hi
        obtain ⟨h1, ho1⟩ := pinv_pushInherited h (hfs f List.mem_cons_self) hp
        obtain ⟨h2, ho2⟩ := ih ts1 ts' h1 (fun x hx => ho1 x (hfs x (List.mem_cons_of_mem _ hx))) hi
        exact ⟨h2, fun g hg => ho2 g (ho1 g hg)⟩

theorem pinv_reparent {P : Feature → Prop} {ts ts' : TypeSystem} {name oldSup newSup : String} (h : PInv P ts)
    (hr : reparent ts name oldSup newSup = .ok ts') : PInv P ts' ∧ ∀ g, OwnIn ts g → OwnIn ts' g := by
  unfold reparent at hr
  split at hr
  · cases hr
  · cases hfind : find? ts newSup with
    | none => rw [hfind] at hr; cases hr
    | some ns =>
      rw [hfind] at hr
      dsimp only at hr
      obtain ⟨h1, ho1⟩ := pinv_relink h name oldSup newSup
      have hns : ns ∈ ts.types := find?_mem hfind
      obtain ⟨h2, ho2⟩ := pinv_inheritFrom name (allFeatures ns) _ ts' h1 (fun f hf => by
        apply ho1
        rcases List.mem_append.mp (allFeatures_sub hf) with h0 | h0
        · exact ⟨ns, hns, h0⟩
        · exact h.inh ns hns f h0) hr
      exact ⟨h2, fun g hg => ho2 g (ho1 g hg)⟩

/-! ### one declaration -/

theorem pinv_addOwnFeatures {P : Feature → Prop} (name : String) : ∀ (fs : List Feature) (ts ts' : TypeSystem),
    PInv P ts → (∀ f ∈ fs, P { f with domain := name }) → addOwnFeatures ts name fs = .ok ts' →
      PInv P ts' ∧ ∀ g, OwnIn ts g → OwnIn ts' g := by
  intro fs
  induction fs with
  | nil =>
    intro ts ts' h _ ha
    unfold addOwnFeatures at ha
    cases ha
    exact ⟨h, fun _ hg => hg⟩
  | cons f fs ih =>
    intro ts ts' h hfs ha
    unfold addOwnFeatures at ha
    cases hadd : addFeature ts name { f with domain := name } with
    | error e => rw [hadd] at ha; cases ha
    | ok ts1 =>
      rw [hadd] at ha
      dsimp only at ha
      obtain ⟨h1, ho1⟩ := pinv_addFeature h (hfs f List.mem_cons_self) hadd
      obtain ⟨h2, ho2⟩ := ih ts1 ts' h1 (fun x hx => hfs x (List.mem_cons_of_mem _ hx)) ha
      exact ⟨h2, fun g hg => ho2 g (ho1 g hg)⟩

theorem pinv_processDecl {P : Feature → Prop} {K : Consts} {s s' : MState} {d : Decl} (h : PInv P s.ts)
    (hd : ∀ f ∈ d.own, P { f with domain := d.name }) (hp : processDecl K s d = .ok s') : PInv P s'.ts := by
  have fin : ∀ ts0 v : TypeSystem, PInv P ts0 → addOwnFeatures ts0 d.name d.own = .ok v → PInv P v :=
    fun ts0 v h0 ha => (pinv_addOwnFeatures d.name d.own ts0 v h0 hd ha).1
  unfold processDecl at hp
  simp only [bind, Except.bind, pure, Except.pure, throw, throwThe, MonadExceptOf.throw] at hp
  split at hp
  · -- a new type
    rename_i hnew
    have hnew' : hasExact s.ts d.name = false := by
      cases hh : hasExact s.ts d.name with
      | false => rfl
      | true => rw [hh] at hnew; simp at hnew
    cases hct : createType K s.ts d.name d.super d.descr with
    | error e => rw [hct] at hp; cases hp
    | ok ts0 =>
      rw [hct] at hp
      dsimp only at hp
      cases ha : addOwnFeatures ts0 d.name d.own with
      | error e => rw [ha] at hp; cases hp
      | ok v => rw [ha] at hp; cases hp; exact fin ts0 v (pinv_createType h hnew' hct).1 ha
  · -- a known type: possibly re-parented
    cases hfind : find? s.ts d.name with
    | none => rw [hfind] at hp; cases hp
    | some t =>
      rw [hfind] at hp
      dsimp only at hp
      split at hp
      · split at hp
        · split at hp
          · cases hr : reparent s.ts d.name (t.super.getD "") d.super with
            | error e => rw [hr] at hp; cases hp
            | ok ts0 =>
              rw [hr] at hp
              dsimp only at hp
              cases ha : addOwnFeatures ts0 d.name d.own with
              | error e => rw [ha] at hp; cases hp
              | ok v => rw [ha] at hp; cases hp; exact fin ts0 v (pinv_reparent h hr).1 ha
          · split at hp
            · cases ha : addOwnFeatures s.ts d.name d.own with
              | error e => rw [ha] at hp; cases hp
              | ok v => rw [ha] at hp; cases hp; exact fin s.ts v h ha
            · cases hp
        · cases hp
      · cases ha : addOwnFeatures s.ts d.name d.own with
        | error e => rw [ha] at hp; cases hp
        | ok v => rw [ha] at hp; cases hp; exact fin s.ts v h ha

/-! ### the loop -/

theorem pinv_mergeRound {P : Feature → Prop} {K : Consts} : ∀ (ds : List Decl) (s : MState) (n : Nat) (r : MState × Nat),
    PInv P s.ts → (∀ d ∈ ds, ∀ f ∈ d.own, P { f with domain := d.name }) → mergeRound K ds s n = .ok r → PInv P r.1.ts := by
  intro ds
  induction ds with
  | nil =>
    intro s n r h _ hm
    unfold mergeRound at hm
    cases hm
    exact h
  | cons d ds ih =>
    intro s n r h hd hm
    unfold mergeRound at hm
    split at hm
    · cases hp : processDecl K s d with
      | error e => rw [hp] at hm; cases hm
      | ok s1 =>
        rw [hp] at hm
        dsimp only at hm
        exact ih s1 (n + 1) r (pinv_processDecl h (hd d List.mem_cons_self) hp)
          (fun x hx => hd x (List.mem_cons_of_mem _ hx)) hm
    · exact ih s n r h (fun x hx => hd x (List.mem_cons_of_mem _ hx)) hm

theorem pinv_mergeLoop {P : Feature → Prop} {K : Consts} (decls : List Decl)
    (hd : ∀ d ∈ decls, ∀ f ∈ d.own, P { f with domain := d.name }) : ∀ (fuel : Nat) (s s' : MState),
    PInv P s.ts → mergeLoop K decls fuel s = .ok s' → PInv P s'.ts := by
  intro fuel
  induction fuel with
  | zero => intro s s' _ hm; unfold mergeLoop at hm; cases hm
  | succ n ih =>
    intro s s' h hm
    unfold mergeLoop at hm
    cases hr : mergeRound K decls s 0 with
    | error e => rw [hr] at hm; cases hm
    | ok r =>
      rw [hr] at hm
      obtain ⟨s1, k⟩ := r
      dsimp only at hm
      have h1 : PInv P s1.ts := pinv_mergeRound decls s 0 (s1, k) h hd hr
      split at hm
      · cases hm; exact h1
      · exact ih s1 s' h1 hm

/-- **`merge_typesystems`**: if the base satisfies the invariant and the own features of every declaration satisfy `P`
    (with the domain the merge gives them), the merged type system satisfies the invariant -/
theorem pinv_mergeDecls {P : Feature → Prop} {K : Consts} {base m : TypeSystem} {decls : List Decl} (h : PInv P base)
    (hd : ∀ d ∈ decls, ∀ f ∈ d.own, P { f with domain := d.name }) (hm : mergeDecls K base decls = .ok m) : PInv P m := by
  unfold mergeDecls at hm
  cases hl : mergeLoop K decls (decls.length + 1) { ts := base, merged := [] } with
  | error e => rw [hl] at hm; cases hm
  | ok s =>
    rw [hl] at hm
    cases hm
    exact pinv_mergeLoop decls hd _ _ s h hl

end Cassis.ChainE
