/-
Helper lemmas for `Properties/C09DocJson.lean`, part 3: deferred references, the views pass and the end-to-end
statement.
-/
import CassisModel.Proofs.JsonIdsPass

namespace Cassis.Json.Ids
open Cassis.TS Cassis.Lex Cassis.Xmi

/-! ### ids may be dropped (a dangling `@xmiID` member), never invented -/

def IdDrop (hp hp' : Heap) : Prop :=
  hp'.length = hp.length ∧
  ∀ (a : Nat) (o' : Obj), hp'[a]? = some o' → ∃ o, hp[a]? = some o ∧ (o'.xid = o.xid ∨ o'.xid = none)

theorem IdDrop.refl (hp : Heap) : IdDrop hp hp := ⟨rfl, fun _ o h => ⟨o, h, Or.inl rfl⟩⟩

theorem XSame.toDrop {hp hp' : Heap} (h : XSame hp hp') : IdDrop hp hp' := by
  refine ⟨h.1, ?_⟩
  intro a o' ho'
  obtain ⟨o, ho, hx⟩ := h.back ho'
  exact ⟨o, ho, Or.inl hx.symm⟩

theorem newB_drop {n : Nat} {hp hp' : Heap} {M : Int} (h : NewB n hp M) (d : IdDrop hp hp') : NewB n hp' M := by
  intro a o' x hl ho' hx
  obtain ⟨o, ho, hc⟩ := d.2 a o' ho'
  rcases hc with hc | hc
  · exact h a o x hl ho (hc ▸ hx)
  · rw [hc] at hx; cases hx

theorem setSlot_drop {hp hp' : Heap} {a : Nat} {n : String} {v : Val} (h : Heap.setSlot hp a n v = .ok hp')
    (hv : ∀ i : Int, v ≠ .int i) : IdDrop hp hp' := by
  unfold Heap.setSlot at h
  split at h
  · cases h
  · rename_i o ho
    split at h
    · cases h
      exact XSame.toDrop (set_xsame ho rfl)
    · split at h
      · split at h
        · rename_i i
          exact absurd rfl (hv i)
        · cases h
          have hlt : a < hp.length := (List.getElem?_eq_some_iff.mp ho).1
          refine ⟨List.length_set, ?_⟩
          intro b o' hb
          by_cases hab : a = b
          · subst hab
            rw [List.getElem?_set_self hlt] at hb
            cases hb
            exact ⟨o, ho, Or.inr rfl⟩
          · rw [List.getElem?_set_ne hab] at hb
            exact ⟨o', hb, Or.inl rfl⟩
        · cases h
      · cases h

theorem fixUps_newB (fss : List (Int × Val)) (hv : FssVals fss) (n : Nat) (M : Int) (ds : List Deferred) :
    ∀ heap heap', fixUps fss ds heap = .ok heap' → NewB n heap M → NewB n heap' M := by
  induction ds with
  | nil => intro heap heap' h hn; rw [fixUps] at h; cases h; exact hn
  | cons d rest ih =>
    intro heap heap' h hn
    rw [fixUps] at h
    split at h
    · cases h
    · rename_i heap1 hs
      refine ih heap1 heap' h (newB_drop hn (setSlot_drop hs ?_))
      intro i
      split
      · intro hc; cases hc
      · cases hl : d.target.bind (lookup fss) with
        | none => intro hc; cases hc
        | some w =>
          obtain ⟨k, _, hk⟩ := Option.bind_eq_some_iff.mp hl
          rcases fssVals_lookup hv hk with ⟨t, rfl⟩ | ⟨cI, vn, rfl⟩ <;> (intro hc; cases hc)

/-! ### the views pass -/

/-- every object created by the load has an id below `X` (or none) -/
def NewLt (n : Nat) (hp : Heap) (X : Int) : Prop :=
  ∀ (a : Nat) (o : Obj) (x : Int), n ≤ a → hp[a]? = some o → o.xid = some x → x < X

/-- the view `nm` exists, its sofa id and sofaNum are below the generators -/
def VL (c : Cas) (nm : String) : Prop :=
  ∃ v : View, Cas.getViewRec c nm = some v ∧ v.sofa.xid < c.nextXid ∧ v.sofa.sofaNum < c.nextSofaNum

theorem newLt_same {n : Nat} {hp hp' : Heap} {X : Int} (h : NewLt n hp X) (d : XSame hp hp') : NewLt n hp' X := by
  intro a o' x hl ho' hx
  obtain ⟨o, ho, hc⟩ := d.back ho'
  exact h a o x hl ho (hc.trans hx)

theorem newLt_mono {n : Nat} {hp : Heap} {X Y : Int} (h : NewLt n hp X) (hxy : X ≤ Y) : NewLt n hp Y :=
  fun a o x hl ho hx => Int.lt_of_lt_of_le (h a o x hl ho hx) hxy

def RV (n : Nat) (v v' : VState) : Prop :=
  (NewLt n v.heap v.cas.nextXid → NewLt n v'.heap v'.cas.nextXid) ∧ (∀ nm, VL v.cas nm → VL v'.cas nm) ∧
  v.cas.nextXid ≤ v'.cas.nextXid ∧ v.cas.nextSofaNum ≤ v'.cas.nextSofaNum

theorem RV.refl (n : Nat) (v : VState) : RV n v v := ⟨fun h => h, fun _ h => h, Int.le_refl _, Int.le_refl _⟩

theorem RV.trans {n : Nat} {a b c : VState} (x : RV n a b) (y : RV n b c) : RV n a c :=
  ⟨fun h => y.1 (x.1 h), fun nm h => y.2.1 nm (x.2.1 nm h), Int.le_trans x.2.2.1 y.2.2.1,
    Int.le_trans x.2.2.2 y.2.2.2⟩

/-- `Cas.add`: the member keeps its id or gets the next one; no sofa changes -/
theorem add_rv {ts : TypeSystem} {ci : Nat} {c c' : Cas} {hp hp' : Heap} {h : Handle} {a n : Nat}
    (hadd : Cas.add ts ci c hp h a true = .ok (c', hp')) :
    (NewLt n hp c.nextXid → NewLt n hp' c'.nextXid) ∧ (∀ nm, VL c nm → VL c' nm) ∧
    c.nextXid ≤ c'.nextXid ∧ c.nextSofaNum ≤ c'.nextSofaNum := by
  obtain ⟨o, v, x, c1, e, ho, _, hv, hcase, _, rfl, rfl⟩ := Cas.add_cases hadd
  have hlt : a < hp.length := (List.getElem?_eq_some_iff.mp ho).1
  have hviews : c1.views = c.views := by rcases hcase with ⟨_, _, rfl⟩ | ⟨_, _, rfl⟩ <;> rfl
  have hsn : c1.nextSofaNum = c.nextSofaNum := by rcases hcase with ⟨_, _, rfl⟩ | ⟨_, _, rfl⟩ <;> rfl
  have hnx : c.nextXid ≤ c1.nextXid := by
    rcases hcase with ⟨_, _, rfl⟩ | ⟨_, _, rfl⟩
    · exact Int.le_refl _
    · show c.nextXid ≤ c.nextXid + 1
      omega
  refine ⟨?_, ?_, hnx, by show c.nextSofaNum ≤ c1.nextSofaNum; rw [hsn]; exact Int.le_refl _⟩
  · intro hn b o' y hl hb hy
    show y < c1.nextXid
    by_cases hab : a = b
    · subst hab
      rw [List.getElem?_set_self hlt] at hb
      cases hb
      have hy' : some x = some y := hy
      cases hy'
      rcases hcase with ⟨_, hox, rfl⟩ | ⟨_, hx, rfl⟩
      · exact hn a o x hl ho hox
      · rw [hx]
        show c.nextXid < c.nextXid + 1
        omega
    · rw [List.getElem?_set_ne hab] at hb
      exact Int.lt_of_lt_of_le (hn b o' y hl hb hy) hnx
  · intro nm hvl
    obtain ⟨w, hw, b1, b2⟩ := hvl
    have hw1 : Cas.getViewRec c1 nm = some w := by unfold Cas.getViewRec at hw ⊢; rw [hviews]; exact hw
    have hv1 : Cas.getViewRec c1 h.view = some v := by unfold Cas.getViewRec at hv ⊢; rw [hviews]; exact hv
    by_cases hnm : nm = h.view
    · subst hnm
      rw [hv1] at hw1
      cases hw1
      refine ⟨_, Cas.getViewRec_set_same _ _ _, ?_, ?_⟩
      · exact Int.lt_of_lt_of_le b1 hnx
      · show v.sofa.sofaNum < c1.nextSofaNum
        rw [hsn]; exact b2
    · refine ⟨w, (Cas.getViewRec_set_other _ _ _ _ hnm).trans hw1, ?_, ?_⟩
      · exact Int.lt_of_lt_of_le b1 hnx
      · show w.sofa.sofaNum < c1.nextSofaNum
        rw [hsn]; exact b2

/-- the first-seen `sofa` value of member `m` (at address `a`) and the updated record -/
def jOwnOf (m : Int) (a : Nat) (v : VState) : Option Val × List (Int × Option Val) :=
  match v.memberSofas.find? (fun q => q.1 == m) with
  | some q => (q.2, v.memberSofas)
  | none => (Traverse.slot v.heap a "sofa", v.memberSofas ++ [(m, Traverse.slot v.heap a "sofa")])

/-- the reader writes the first-seen `sofa` value back -/
def jWriteBack (own : Option Val) (heap' : Heap) (a : Nat) : Except Err Heap :=
  match own with
  | some w => if w != .none then Heap.setSlot heap' a "sofa" w else .ok heap'
  | none => .ok heap'

theorem addJMembers_cons_ref (ts : TypeSystem) (ci : Nat) (h : Handle) (fss : List (Int × Val)) (m : Int)
    (ms : List Int) (v : VState) {a : Nat} (hl : lookup fss m = some (.ref a)) :
    addJMembers ts ci h fss (m :: ms) v =
      match Cas.add ts ci v.cas v.heap h a true with
      | .error e => .error e
      | .ok (c', heap') =>
        match jWriteBack (jOwnOf m a v).1 heap' a with
        | .error e => .error e
        | .ok heap'' => addJMembers ts ci h fss ms { cas := c', heap := heap'', memberSofas := (jOwnOf m a v).2 } := by
  rw [addJMembers]
  simp only [hl]
  unfold jOwnOf jWriteBack
  cases v.memberSofas.find? (fun q => q.1 == m) <;> rfl

theorem addJMembers_rv (ts : TypeSystem) (ci : Nat) (h : Handle) (fss : List (Int × Val)) (n : Nat) (ms : List Int) :
    ∀ v v', addJMembers ts ci h fss ms v = .ok v' → RV n v v' := by
  induction ms with
  | nil => intro v v' hm; rw [addJMembers] at hm; cases hm; exact RV.refl _ _
  | cons m rest ih =>
    intro v v' hm
    cases hl : lookup fss m with
    | none => rw [addJMembers] at hm; simp only [hl] at hm; cases hm
    | some tv =>
      cases tv
      case ref a =>
        rw [addJMembers_cons_ref ts ci h fss m rest v hl] at hm
        split at hm
        · cases hm
        · rename_i c' heap' hadd
          obtain ⟨a1, a2, a3, a4⟩ := add_rv (n := n) hadd
          split at hm
          · cases hm
          · rename_i heap'' hwb
            have hx : XSame heap' heap'' := by
              unfold jWriteBack at hwb
              split at hwb
              · split at hwb
                · exact setSlot_xsame_of_ne (by decide) hwb
                · cases hwb; exact XSame.refl _
              · cases hwb; exact XSame.refl _
            have step : RV n v { cas := c', heap := heap'', memberSofas := (jOwnOf m a v).2 } :=
              ⟨fun hn => newLt_same (a1 hn) hx, a2, a3, a4⟩
            exact step.trans (ih _ _ hm)
      all_goals (rw [addJMembers] at hm; simp only [hl] at hm; cases hm)

theorem createView_rv {c c' : Cas} {h h' : Handle} {name : String}
    (hc : Cas.createView c h name none none = .ok (c', h')) :
    (∀ nm, VL c nm → VL c' nm) ∧ c.nextXid ≤ c'.nextXid ∧ c.nextSofaNum ≤ c'.nextSofaNum := by
  unfold Cas.createView at hc
  split at hc
  · cases hc
  · rename_i hnone
    cases hc
    have e1 : (Cas.addView c name none none).nextXid = c.nextXid + 1 := rfl
    have e2 : (Cas.addView c name none none).nextSofaNum = c.nextSofaNum + 1 := rfl
    refine ⟨?_, by rw [e1]; omega, by rw [e2]; omega⟩
    intro nm hvl
    obtain ⟨w, hw, b1, b2⟩ := hvl
    have hnm : nm ≠ name := by
      intro e
      subst e
      rw [hw] at hnone
      exact hnone rfl
    refine ⟨w, ?_, by rw [e1]; omega, by rw [e2]; omega⟩
    unfold Cas.addView
    exact (Cas.getViewRec_set_other _ _ _ _ hnm).trans hw

theorem viewsPass_rv (ts : TypeSystem) (ci : Nat) (lenient : Bool) (fss : List (Int × Val)) (n : Nat)
    (l : List JView) : ∀ v v', viewsPass ts ci lenient fss l v = .ok v' → RV n v v' := by
  induction l with
  | nil => intro v v' h; rw [viewsPass] at h; cases h; exact RV.refl _ _
  | cons jv rest ih =>
    intro v v' h
    rw [viewsPass] at h
    split at h
    · cases h
    · rename_i c hrc
      have step1 : RV n v { v with cas := c } := by
        split at hrc
        · split at hrc
          · cases hrc
          · rename_i c' h' hcv
            cases hrc
            obtain ⟨b1, b2, b3⟩ := createView_rv hcv
            exact ⟨fun hn => newLt_mono hn b2, b1, b2, b3⟩
        · cases hrc
          exact RV.refl _ _
      split at h
      · cases h
      · rename_i v1 hm
        exact step1.trans ((addJMembers_rv ts ci _ fss n jv.members _ _ hm).trans (ih _ _ h))

/-! ### the statements of `Properties/C09DocJson.lean` -/

theorem sofaPass_bounded_aux (K : Consts) (ts : TypeSystem) (tsIdx ci : Nat) (all l : List JFs) (s r : RState)
    (hs : JBounded s) (h : sofaPass K ts tsIdx ci all l s = .ok r) :
    JBounded r ∧ s.maxId ≤ r.maxId ∧ s.maxNum ≤ r.maxNum := by
  obtain ⟨a, b, c⟩ := sofaPass_rel (RB.stepRel K ts tsIdx ci) all l s r h
  exact ⟨a hs, b, c⟩

theorem fsPass_bounded_aux (K : Consts) (ts : TypeSystem) (tsIdx : Nat) (l : List JFs) (s r : RState)
    (hs : JBounded s) (h : fsPass K ts tsIdx l s = .ok r) :
    JBounded r ∧ s.maxId ≤ r.maxId ∧ s.maxNum ≤ r.maxNum := by
  obtain ⟨a, b, c⟩ := fsPass_rel (RB.stepRel K ts tsIdx 0) l s r h
  exact ⟨a hs, b, c⟩

theorem sofaPass_fss_ids_aux (K : Consts) (ts : TypeSystem) (tsIdx ci : Nat) (all l : List JFs) (s r : RState)
    (hv : FssVals s.fss) (hs : FssIds s.fss s.heap) (h : sofaPass K ts tsIdx ci all l s = .ok r) :
    FssVals r.fss ∧ FssIds r.fss r.heap := by
  obtain ⟨a, b, _⟩ := sofaPass_rel (RH.stepRel K ts tsIdx ci 0) all l s r h hv
  exact ⟨a, b hs⟩

theorem fsPass_fss_ids_aux (K : Consts) (ts : TypeSystem) (tsIdx : Nat) (l : List JFs) (s r : RState)
    (hv : FssVals s.fss) (hs : FssIds s.fss s.heap) (h : fsPass K ts tsIdx l s = .ok r) :
    FssVals r.fss ∧ FssIds r.fss r.heap := by
  obtain ⟨a, b, _⟩ := fsPass_rel (RH.stepRel K ts tsIdx 0 0) l s r h hv
  exact ⟨a, b hs⟩

theorem mem_keys {l : List (Int × Val)} {i : Int} (h : i ∈ l.map (·.1)) : ∃ q ∈ l, q.1 = i := by
  obtain ⟨q, hq, e⟩ := List.mem_map.mp h
  exact ⟨q, hq, e⟩

/-- the fresh CAS has the initial view only -/
theorem empty_no_view (n : String) (hn : n ≠ Cas.INITIAL_VIEW) : Cas.getViewRec Cas.empty n = none := by
  have h' : ¬ Cas.INITIAL_VIEW = n := fun e => hn e.symm
  simp [Cas.getViewRec, Cas.empty, Cas.addView, Cas.setViewRec, alistSet, alistGet?, h']

theorem loadJson_reseeds_aux (K : Consts) (tsArg : TypeSystem) (tsIdx ci : Nat) (lenient mergeTs : Bool) (hp : Heap)
    (doc : JDoc) (ld : Loaded) (h : loadJson K tsArg tsIdx ci lenient mergeTs hp doc = .ok ld) :
    ∃ (ts : TypeSystem) (s1 s : RState),
      loadTs K tsArg mergeTs doc = .ok ts ∧ ld.ts = ts ∧
      sofaPass K ts tsIdx ci doc.fss doc.fss { cas := Cas.empty, heap := hp } = .ok s1 ∧
      fsPass K ts tsIdx doc.fss s1 = .ok s ∧ JBounded s ∧
      s.maxId + 1 ≤ ld.cas.nextXid ∧ s.maxNum + 1 ≤ ld.cas.nextSofaNum ∧
      (∀ j ∈ doc.fss, ∃ i : Int, j.id = some i ∧ (j.ty ≠ SOFA ∨ SofaNamesDistinct doc.fss → i < ld.cas.nextXid)) ∧
      (∀ q ∈ s.fss, q.1 < ld.cas.nextXid) ∧
      (∀ q ∈ s.fss, ∀ a : Nat, q.2 = .ref a → ∃ o : Obj, s.heap[a]? = some o ∧ o.xid = some q.1) ∧
      (∀ (a : Nat) (o : Obj) (x : Int), hp.length ≤ a → ld.heap[a]? = some o → o.xid = some x →
        x < ld.cas.nextXid) ∧
      (∀ j ∈ doc.fss, j.ty = SOFA → ∃ (n : String) (v : View), sofaIdOf j = some n ∧
        Cas.getViewRec ld.cas n = some v ∧ v.sofa.xid < ld.cas.nextXid ∧ v.sofa.sofaNum < ld.cas.nextSofaNum) ∧
      (∀ q ∈ s.fss, ∀ (cI : Nat) (vn : String), q.2 = .sofa cI vn → ∃ v : View,
        Cas.getViewRec ld.cas vn = some v ∧ v.sofa.xid < ld.cas.nextXid ∧ v.sofa.sofaNum < ld.cas.nextSofaNum) := by
  unfold loadJson at h
  split at h
  · cases h
  · rename_i ts hts
    split at h
    · cases h
    · rename_i s1 hs1
      split at h
      · cases h
      · rename_i s hs
        split at h
        · cases h
        · rename_i heap hfix
          dsimp only at h
          split at h
          · cases h
          · rename_i v hvp
            cases h
            -- the invariants of the two passes
            have hB0 : JBounded { cas := Cas.empty, heap := hp } :=
              ⟨fun q hq => (by cases hq), fun q hq _ _ _ => (by cases hq)⟩
            have hV0 : FssVals ({ cas := Cas.empty, heap := hp } : RState).fss := fun q hq => by cases hq
            have hI0 : FssIds ({ cas := Cas.empty, heap := hp } : RState).fss hp := fun q hq => by cases hq
            have hN0 : NewB hp.length hp 0 := by
              intro a o x hl ho _
              rw [List.getElem?_eq_none hl] at ho
              cases ho
            obtain ⟨hB1, _, _⟩ := sofaPass_bounded_aux K ts tsIdx ci doc.fss doc.fss _ s1 hB0 hs1
            obtain ⟨hB, _, _⟩ := fsPass_bounded_aux K ts tsIdx doc.fss s1 s hB1 hs
            obtain ⟨hV1, hI1, hN1⟩ := sofaPass_rel (RH.stepRel K ts tsIdx ci hp.length) doc.fss doc.fss _ s1 hs1 hV0
            obtain ⟨hV, hI, hN⟩ := fsPass_rel (RH.stepRel K ts tsIdx ci hp.length) doc.fss s1 s hs hV1
            have hI := hI (hI1 hI0)
            have hN : NewB hp.length s.heap s.maxId := hN (hN1 hN0)
            have hK := fsPass_rel (RK.stepRel K ts tsIdx ci) doc.fss s1 s hs
            -- deferred references, views
            have hNf : NewB hp.length heap s.maxId := fixUps_newB s.fss hV hp.length s.maxId s.deferred s.heap heap hfix hN
            obtain ⟨r1, r2, r3, r4⟩ := viewsPass_rv ts ci lenient s.fss hp.length doc.views _ v hvp
            have hNl : NewLt hp.length heap (s.maxId + 1) := by
              intro a o x hl ho hx
              have := hNf a o x hl ho hx
              omega
            have hvl : ∀ nm, VB s.maxId s.maxNum s.cas nm → VL v.cas nm := by
              intro nm hvb
              obtain ⟨w, hw, b1, b2⟩ := hvb
              apply r2
              refine ⟨w, hw, ?_, ?_⟩
              · show w.sofa.xid < s.maxId + 1
                omega
              · show w.sofa.sofaNum < s.maxNum + 1
                omega
            have r3' : s.maxId + 1 ≤ v.cas.nextXid := r3
            have hkey : ∀ i, i ∈ s.fss.map (·.1) → i < v.cas.nextXid := by
              intro i hi
              obtain ⟨q, hq, rfl⟩ := mem_keys hi
              have := hB.1 q hq
              omega
            refine ⟨ts, s1, s, hts, rfl, hs1, hs, hB, r3, r4, ?_, ?_, hI, r1 hNl, ?_, ?_⟩
            · intro j hj
              by_cases hty : j.ty = SOFA
              · obtain ⟨i, n, hid, _, _⟩ := sofaPass_doc K ts tsIdx ci doc.fss doc.fss _ s1 hs1 j hj hty
                refine ⟨i, hid, ?_⟩
                intro hd
                rcases hd with hd | hd
                · exact absurd hty hd
                · obtain ⟨i', hid', hi'⟩ := sofaPass_doc_distinct K ts tsIdx ci doc.fss doc.fss _ s1 hs1 hd
                    (fun j' _ _ n' _ hni => empty_no_view n' hni) j hj hty
                  rw [hid] at hid'
                  cases hid'
                  exact hkey i (hK.1 i hi')
              · obtain ⟨i, hid, hi⟩ := fsPass_doc K ts tsIdx ci doc.fss s1 s hs j hj hty
                exact ⟨i, hid, fun _ => hkey i hi⟩
            · intro q hq
              exact hkey q.1 (List.mem_map_of_mem hq)
            · intro j hj hty
              obtain ⟨i, n, _, hn, hvb⟩ := sofaPass_doc K ts tsIdx ci doc.fss doc.fss _ s1 hs1 j hj hty
              obtain ⟨w, hw, b1, b2⟩ := hvl n (hK.2 n hvb)
              exact ⟨n, w, hn, hw, b1, b2⟩
            · intro q hq cI vn hqv
              exact hvl vn (hB.2 q hq cI vn hqv)

end Cassis.Json.Ids
