/-
Round trip with collections, layer IA (second pass on one inlined array feature), part A: the general lemmas
(feature lookup by name, appending an array object and setting the slot, the resulting `Slot2`).
-/
import CassisModel.Proofs.RoundTripCollStmts
import CassisModel.Properties.C01

namespace Cassis.Xmi.CIA
open Cassis.TS Cassis.Traverse Cassis.Lex Cassis.Xmi

/-! ### features by name -/

theorem find_name (l : List Feature) (f : Feature) (hnd : (l.map (·.name)).Nodup) (hf : f ∈ l) :
    l.find? (fun g => g.name == f.name) = some f := by
  induction l with
  | nil => cases hf
  | cons g rest ih =>
    rw [List.map_cons, List.nodup_cons] at hnd
    rcases List.mem_cons.1 hf with e | e
    · subst e
      rw [List.find?_cons]
      simp only [beq_self_eq_true]
    · have hne : g.name ≠ f.name := by
        intro h
        exact hnd.1 (h ▸ List.mem_map.2 ⟨f, e, rfl⟩)
      rw [List.find?_cons]
      simp only [beq_eq_false_iff_ne.2 hne]
      exact ih hnd.2 e

theorem feat_unique (l : List Feature) (f g : Feature) (hnd : (l.map (·.name)).Nodup) (hf : f ∈ l) (hg : g ∈ l)
    (hn : g.name = f.name) : g = f := by
  have h1 := find_name l f hnd hf
  have h2 := find_name l g hnd hg
  rw [hn, h1] at h2
  exact (Option.some.inj h2).symm

theorem inlineSlot_of (K : Consts) (ts : TypeSystem) (o : Obj) (t : TypeRec) (f : Feature)
    (ht : find? ts o.ty = some t) (hf : f ∈ allFeatures t) (hnd : (ctorFields t).Nodup) :
    inlineSlot K ts o f.name = isInline K f := by
  unfold inlineSlot
  simp only [ht, find_name (allFeatures t) f hnd hf]

/-! ### appending an array object and setting the slot -/

theorem lt_of_get {hpX : Heap} {a : Nat} {o : Obj} (h : hpX[a]? = some o) : a < hpX.length := by
  rcases Nat.lt_or_ge a hpX.length with h' | h'
  · exact h'
  · rw [List.getElem?_eq_none h'] at h; cases h

theorem append_set (hpX : Heap) (a' : Nat) (o' : Obj) (n : String) (w : Val) (arr : Obj) (ev : Val)
    (h1 : hpX[a']? = some o') (h2 : alistGet? o'.slots n = some w) (hx : arr.xid = none)
    (he : alistGet? arr.slots "elements" = some ev) :
    ∃ hpY, Heap.setSlot (hpX ++ [arr]) a' n (.ref hpX.length) = .ok hpY ∧
      StepX hpX hpY a' n (.ref hpX.length) ∧ ArrAt hpY hpX.length ev := by
  have hlt := lt_of_get h1
  have h1' : (hpX ++ [arr])[a']? = some o' := by
    rw [List.getElem?_append_left hlt]; exact h1
  obtain ⟨hpY, hs, hstep⟩ := setSlot_step (.ref hpX.length) h1' h2
  refine ⟨hpY, hs, ⟨[arr], ?_, hstep⟩, arr, ?_, hx, he⟩
  · intro ob hob
    rw [List.mem_singleton] at hob
    rw [hob]; exact hx
  · rw [hstep.2.1 hpX.length (by omega)]
    rw [List.getElem?_append_right (Nat.le_refl _)]
    simp

theorem stepX_same {hpX : Heap} {a' : Nat} {o' : Obj} {n : String} {w : Val} (h1 : hpX[a']? = some o')
    (h2 : alistGet? o'.slots n = some w) : StepX hpX hpX a' n w := by
  refine ⟨[], ?_, ?_⟩
  · intro ob hob; cases hob
  · rw [List.append_nil]; exact Step.same h1 h2

/-! ### the result -/

theorem slot2_ref (K : Consts) (ts : TypeSystem) (cass : List Cas) (H : Heap) (na : Int → Nat) (ci' : Nat) (hpY : Heap)
    (o : Obj) (t : TypeRec) (f : Feature) (c addr : Nat) (ev : Val)
    (ht : find? ts o.ty = some t) (hf : f ∈ allFeatures t) (hinl : inlineSlot K ts o f.name = true)
    (harr : isArray K f.range = true) (hev : slot H c "elements" = some ev)
    (hat : ArrAt hpY addr (elemsExp H na ev)) :
    Slot2 K ts cass H na ci' hpY o f.name (.ref c) (.ref addr) := by
  refine ⟨?_, ?_, ?_⟩
  · intro c' hc' _
    cases hc'
    exact ⟨addr, rfl, t, f, ht, hf, rfl, Or.inl ⟨harr, ev, hev, hat⟩⟩
  · intro h; cases h
  · intro h _
    have := h c rfl
    rw [hinl] at this; cases this

theorem slot2_none (K : Consts) (ts : TypeSystem) (cass : List Cas) (H : Heap) (na : Int → Nat) (ci' : Nat) (hpY : Heap)
    (o : Obj) (n : String) :
    Slot2 K ts cass H na ci' hpY o n .none .none := by
  refine ⟨?_, ?_, ?_⟩
  · intro c' hc' _; cases hc'
  · intro h; cases h
  · intro _ _; rfl

theorem slot1_none {K : Consts} {ts : TypeSystem} {cass : List Cas} {H hpX : Heap} {o : Obj} {n : String} {w : Val}
    (h : Slot1 K ts cass H hpX o n .none w) : w = .none := by
  have := h.2.2 (fun c hc => by cases hc) rfl
  rw [this]; rfl

end Cassis.Xmi.CIA
