/-
C03, written-document level: the theorems about `saveXmi` / `saveJson` (`Properties/C03DocWrite.lean`).
-/
import CassisModel.Proofs.OffsetsDocSave
import CassisModel.Proofs.OffsetsDocJsonW
import CassisModel.Proofs.OffsetsDocXmiW

namespace Cassis.OffsetsDoc
open Cassis.TS Cassis.Traverse

/-- the element of a collected structure: its address holds, after the traversal, an object with the same type and
    slots and the id it was collected under -/
theorem collected_obj {K : Consts} {ts : TypeSystem} {opts : Opts} {hp : Heap} {nx : Int} {seeds : List Nat} {st : St}
    (h : findAllFs K ts opts hp nx seeds = .ok st) {p : Int × Nat} (hp' : p ∈ st.allFs) {o : Obj}
    (ho : hp[p.2]? = some o) :
    ∃ o', st.heap[p.2]? = some o' ∧ o'.ty = o.ty ∧ o'.xid = some p.1 ∧
      ∀ n, Xmi.slot st.heap p.2 n = alistGet? o.slots n := by
  obtain ⟨o', h1, h2, _, h4⟩ := slots_after_traversal h ho
  refine ⟨o', h1, h2, ?_, h4⟩
  have hl := (findAllFs_inv K ts opts hp nx seeds st h).1.link p.1 p.2 hp'
  unfold xidOf at hl
  rw [h1] at hl
  exact hl

end Cassis.OffsetsDoc

namespace Cassis.Json
open Cassis.TS Cassis.Traverse Cassis.OffsetsDoc

/-- the element `saveJson` writes for a collected structure that is not an array, and what each feature contributes -/
theorem saveJson_element_aux {K : Consts} {ts : TypeSystem} {cass : List Cas} {ci : Nat} {hp : Heap} {mode : Mode}
    {doc : JDoc} {st : St} (hs : saveJson K ts cass ci hp mode = .ok (doc, st))
    {p : Int × Nat} (hp' : p ∈ st.allFs) {o : Obj} (ho : hp[p.2]? = some o)
    (hna : isPrimitiveArray K o.ty = false) (hnf : o.ty ≠ FS_ARRAY) {tr : TypeRec} (htr : getType ts o.ty = .ok tr) :
    ∃ j ∈ doc.fss, j.id = some p.1 ∧ j.ty = o.ty ∧ (∀ n, Xmi.slot st.heap p.2 n = alistGet? o.slots n) ∧
      (∀ f ∈ allFeatures tr, ∃ out, renderFeature K ts cass st.heap p.2 f = .ok out ∧ ∀ m ∈ out, m ∈ j.feats) ∧
      (∀ m ∈ j.feats, ∃ f ∈ allFeatures tr, ∃ out, renderFeature K ts cass st.heap p.2 f = .ok out ∧ m ∈ out) := by
  obtain ⟨c, sofaFss, fsElems, _, hfind, hall, hdoc⟩ := saveJson_split hs
  obtain ⟨o', ho', hty, hxid, hslots⟩ := collected_obj hfind hp' ho
  have hps : p ∈ Xmi.sortById st.allFs := (Xmi.sortById_perm_aux st.allFs).mem_iff.mpr hp'
  obtain ⟨j, hj, hrj⟩ := (renderAll_elems K ts cass st.heap _ _ hall).1 p hps
  obtain ⟨tr', htr', hid, hjty, hfe⟩ := renderFs_struct hrj ho' (by rw [hty]; exact hna) (by rw [hty]; exact hnf)
  rw [hty, htr] at htr'
  cases htr'
  obtain ⟨m1, m2⟩ := renderFeatures_members K ts cass st.heap p.2 _ _ hfe
  refine ⟨j, ?_, by rw [hid, hxid], by rw [hjty, hty], hslots, m1, m2⟩
  rw [hdoc]
  exact List.mem_append_right _ hj

theorem saveJson_annotation_offsets_aux (K : Consts) (ts : TypeSystem) (cass : List Cas) (ci : Nat) (hp : Heap)
    (mode : Mode) (doc : JDoc) (st : St) (hs : saveJson K ts cass ci hp mode = .ok (doc, st))
    (p : Int × Nat) (hp' : p ∈ st.allFs) (o : Obj) (ho : hp[p.2]? = some o)
    (hna : isPrimitiveArray K o.ty = false) (hnf : o.ty ≠ FS_ARRAY) (tr : TypeRec) (htr : getType ts o.ty = .ok tr)
    (f : Feature) (hf : f ∈ allFeatures tr) (hdom : f.domain = ANNOTATION)
    (hname : xmlName f = "begin" ∨ xmlName f = "end")
    (cj : Nat) (vn : String) (c' : Cas) (view : View) (t : List Nat) (i : Int)
    (hsofa : alistGet? o.slots "sofa" = some (.sofa cj vn)) (hc : cass[cj]? = some c')
    (hv : Cas.getViewRec c' vn = some view) (ht : view.sofa.text = some t) (hok : SofaConvOk view.sofa)
    (hval : alistGet? o.slots f.name = some (.int i)) :
    ∃ j ∈ doc.fss, j.id = some p.1 ∧ j.ty = o.ty ∧ (xmlName f, JV.int (extOffset t i)) ∈ j.feats := by
  obtain ⟨j, hj, hid, hty, hslots, m1, _⟩ := saveJson_element_aux hs hp' ho hna hnf htr
  obtain ⟨out, hout, hmem⟩ := m1 f hf
  have := (renderFeature_offset_aux K ts cass st.heap p.2 f cj vn c' view t i hdom hname
    (by rw [hslots]; exact hsofa) hc hv ht hok (by rw [hslots]; exact hval)).2 out hout
  subst this
  exact ⟨j, hj, hid, hty, hmem _ List.mem_cons_self⟩

theorem saveJson_nonannotation_plain_aux (K : Consts) (ts : TypeSystem) (cass : List Cas) (ci : Nat) (hp : Heap)
    (mode : Mode) (doc : JDoc) (st : St) (hs : saveJson K ts cass ci hp mode = .ok (doc, st))
    (p : Int × Nat) (hp' : p ∈ st.allFs) (o : Obj) (ho : hp[p.2]? = some o)
    (hna : isPrimitiveArray K o.ty = false) (hnf : o.ty ≠ FS_ARRAY) (tr : TypeRec) (htr : getType ts o.ty = .ok tr)
    (f : Feature) (hf : f ∈ allFeatures tr) (hdom : f.domain ≠ ANNOTATION)
    (hname : xmlName f = "begin" ∨ xmlName f = "end") (i : Int)
    (hval : alistGet? o.slots f.name = some (.int i)) :
    ∃ j ∈ doc.fss, j.id = some p.1 ∧ j.ty = o.ty ∧ (xmlName f, JV.int i) ∈ j.feats := by
  obtain ⟨j, hj, hid, hty, hslots, m1, _⟩ := saveJson_element_aux hs hp' ho hna hnf htr
  obtain ⟨out, hout, hmem⟩ := m1 f hf
  have := (renderFeature_plain_aux K ts cass st.heap p.2 f i hdom hname (by rw [hslots]; exact hval)).2 out hout
  subst this
  exact ⟨j, hj, hid, hty, hmem _ List.mem_cons_self⟩

end Cassis.Json

namespace Cassis.Xmi
open Cassis.TS Cassis.Traverse Cassis.OffsetsDoc Cassis.Lex

theorem saveXmi_element_aux {K : Consts} {ts : TypeSystem} {cass : List Cas} {ci : Nat} {hp : Heap}
    {doc : XDoc} {st : St} (hs : saveXmi K ts cass ci hp = .ok (doc, st))
    {p : Int × Nat} (hp' : p ∈ st.allFs) {o : Obj} (ho : hp[p.2]? = some o)
    (hna : isPrimitiveArray K o.ty = false) (hnf : o.ty ≠ FS_ARRAY) {tr : TypeRec} (htr : getType ts o.ty = .ok tr) :
    ∃ e ∈ doc, attr e ID = some (showInt p.1) ∧ e.ty = o.ty ∧ (∀ n, slot st.heap p.2 n = alistGet? o.slots n) ∧
      (∀ f ∈ allFeatures tr, ∃ out, renderFeature K ts cass st.heap p.2 (isInstanceOf ts o.ty ANNOTATION) f = .ok out ∧
        (∀ m ∈ out.1, m ∈ e.attrs) ∧ ∀ m ∈ out.2, m ∈ e.kids) ∧
      (∀ m ∈ e.attrs, m.1 = ID ∨ ∃ f ∈ allFeatures tr, ∃ out,
        renderFeature K ts cass st.heap p.2 (isInstanceOf ts o.ty ANNOTATION) f = .ok out ∧ m ∈ out.1) := by
  obtain ⟨c, fsElems, _, hfind, hall, hdoc⟩ := saveXmi_split hs
  obtain ⟨o', ho', hty, hxid, hslots⟩ := collected_obj hfind hp' ho
  have hps : p ∈ sortById st.allFs := (sortById_perm_aux st.allFs).mem_iff.mpr hp'
  obtain ⟨e, he, hre⟩ := (renderAll_elems K ts cass st.heap _ _ hall).1 p hps
  obtain ⟨tr', as, ks, htr', hety, hattrs, hkids, hfe⟩ :=
    renderFs_struct hre ho' (by rw [hty]; exact hna) (by rw [hty]; exact hnf)
  rw [hty] at htr' hfe
  rw [htr] at htr'
  cases htr'
  obtain ⟨m1, m2⟩ := renderFeatures_members K ts cass st.heap p.2 _ _ _ hfe
  refine ⟨e, ?_, ?_, by rw [hety, hty], hslots, ?_, ?_⟩
  · rw [hdoc]
    exact List.mem_append_left _ (List.mem_append_left _ (List.mem_append_right _ he))
  · unfold attr
    rw [hattrs, hxid]
    unfold alistGet?
    rw [if_pos rfl]
  · intro f hf
    obtain ⟨out, hout, h1, h2⟩ := m1 f hf
    refine ⟨out, hout, ?_, ?_⟩
    · intro m hm; rw [hattrs]; exact List.mem_cons_of_mem _ (h1 m hm)
    · intro m hm; rw [hkids]; exact h2 m hm
  · intro m hm
    rw [hattrs] at hm
    rcases List.mem_cons.mp hm with rfl | hm
    · exact Or.inl rfl
    · exact Or.inr (m2 m hm)

theorem saveXmi_annotation_offsets_aux (K : Consts) (ts : TypeSystem) (cass : List Cas) (ci : Nat) (hp : Heap)
    (doc : XDoc) (st : St) (hs : saveXmi K ts cass ci hp = .ok (doc, st))
    (p : Int × Nat) (hp' : p ∈ st.allFs) (o : Obj) (ho : hp[p.2]? = some o)
    (hna : isPrimitiveArray K o.ty = false) (hnf : o.ty ≠ FS_ARRAY) (tr : TypeRec) (htr : getType ts o.ty = .ok tr)
    (hann : isInstanceOf ts o.ty ANNOTATION = true)
    (f : Feature) (hf : f ∈ allFeatures tr) (hif : IntFeat K ts f) (hname : f.name = "begin" ∨ f.name = "end")
    (cj : Nat) (vn : String) (c' : Cas) (view : View) (t : List Nat) (i : Int)
    (hsofa : alistGet? o.slots "sofa" = some (.sofa cj vn)) (hc : cass[cj]? = some c')
    (hv : Cas.getViewRec c' vn = some view) (ht : view.sofa.text = some t) (hok : SofaConvOk view.sofa)
    (hval : alistGet? o.slots f.name = some (.int i)) :
    ∃ e ∈ doc, attr e ID = some (showInt p.1) ∧ e.ty = o.ty ∧ (f.name, showInt (extOffset t i)) ∈ e.attrs := by
  obtain ⟨e, he, hid, hty, hslots, m1, _⟩ := saveXmi_element_aux hs hp' ho hna hnf htr
  obtain ⟨out, hout, hmem, _⟩ := m1 f hf
  rw [hann, renderFeature_offset_aux K ts cass st.heap p.2 f cj vn c' view t i hif hname
    (by rw [hslots]; exact hsofa) hc hv ht hok (by rw [hslots]; exact hval)] at hout
  cases hout
  exact ⟨e, he, hid, hty, hmem _ List.mem_cons_self⟩

theorem saveXmi_nonannotation_plain_aux (K : Consts) (ts : TypeSystem) (cass : List Cas) (ci : Nat) (hp : Heap)
    (doc : XDoc) (st : St) (hs : saveXmi K ts cass ci hp = .ok (doc, st))
    (p : Int × Nat) (hp' : p ∈ st.allFs) (o : Obj) (ho : hp[p.2]? = some o)
    (hna : isPrimitiveArray K o.ty = false) (hnf : o.ty ≠ FS_ARRAY) (tr : TypeRec) (htr : getType ts o.ty = .ok tr)
    (hann : isInstanceOf ts o.ty ANNOTATION = false)
    (f : Feature) (hf : f ∈ allFeatures tr) (hif : IntFeat K ts f) (hname : f.name = "begin" ∨ f.name = "end")
    (i : Int) (hval : alistGet? o.slots f.name = some (.int i)) :
    ∃ e ∈ doc, attr e ID = some (showInt p.1) ∧ e.ty = o.ty ∧ (f.name, showInt i) ∈ e.attrs := by
  obtain ⟨e, he, hid, hty, hslots, m1, _⟩ := saveXmi_element_aux hs hp' ho hna hnf htr
  obtain ⟨out, hout, hmem, _⟩ := m1 f hf
  rw [hann, renderFeature_plain_aux K ts cass st.heap p.2 f i hif hname (by rw [hslots]; exact hval)] at hout
  cases hout
  exact ⟨e, he, hid, hty, hmem _ List.mem_cons_self⟩

end Cassis.Xmi
