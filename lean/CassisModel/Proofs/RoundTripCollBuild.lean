/-
Round trip with collections, layer 3: the third pass of the reader (`buildCas`): views, members, offsets (copy of
`RoundTripBuild.lean` for the expectation functions `E2c`/`E3c`; also: objects without id stay frozen).
-/
import CassisModel.Proofs.RoundTripCollBuildF
import CassisModel.Proofs.RoundTripBuild

namespace Cassis.Xmi
open Cassis.TS Cassis.Traverse Cassis.Lex

namespace RTCB
open Cassis.Xmi.RTB

theorem view_content {K : Consts} {ts : TypeSystem} {cass : List Cas} {ci : Nat} {c : Cas} {hp H : Heap}
    {L : List (Int × Nat)} {na : Int → Nat} {p : Pass1} (ctx : Ctx K ts cass ci c hp H L na p)
    {E : Obj → String → Val → Val} {hpF : Heap} (hrel : HeapRel H L na E hpF)
    {nv : String × View} (hnv : nv ∈ c.views) {nv' : String × View} (hr : VRel H na nv nv') :
    viewContent hpF nv' = viewContent H nv := by
  obtain ⟨h1, _, h2, h3, h4, h5, _, h6⟩ := hr
  have hx : ∀ m ∈ (pviewOf H nv).members, xidOf hpF (na m) = some m := by
    intro m hm
    obtain ⟨e, _, hq⟩ := ctx.member hnv hm
    obtain ⟨o, o', _, ho', hrel'⟩ := hrel _ hq
    unfold xidOf
    rw [ho']
    exact hrel'.2.1
  have e1 : (Index.all nv'.2.idx).filterMap (fun e => xidOf hpF e.oid) =
      ((Index.all nv'.2.idx).map (·.oid)).filterMap (xidOf hpF) := by
    rw [List.filterMap_map]; rfl
  have e2 := h6.filterMap (xidOf hpF)
  have e3 : ((pviewOf H nv).members.map na).filterMap (xidOf hpF) = (pviewOf H nv).members := by
    rw [List.filterMap_map]
    exact filterMap_id_of _ _ hx
  rw [e3] at e2
  have e4 : sortInts ((Index.all nv'.2.idx).filterMap (fun e => xidOf hpF e.oid)) =
      sortInts ((Index.all nv.2.idx).filterMap (fun e => xidOf H e.oid)) := by
    rw [e1, sortInts_perm e2]
    exact sortInts_idem _
  unfold viewContent
  rw [h1, h2, h3, h4, h5, e4]

end RTCB

/-- the third pass with collections -/
theorem buildCas_coll (K : Consts) (ts : TypeSystem) (cass : List Cas) (ci : Nat) (c : Cas) (hp H : Heap)
    (L : List (Int × Nat)) (na : Int → Nat) (ia : Int → String → Nat) (ci' : Nat) (p : Pass1) (hp2 : Heap)
    (hc : cass[ci]? = some c) (hwf : RTWf c hp) (hnull : NullOk ts) (hL : LOkW ts c ci H L)
    (hna : NaOk H.length L na) (hp1 : P1W c H L na p)
    (hmem : ∀ nv ∈ c.views, ∀ e ∈ Index.all nv.2.idx, slot H e.oid "sofa" ≠ some .none)
    (hmok : MembersOk c H)
    (hnull2 : hp2[H.length]? = p.heap[H.length]?)
    (hrel : HeapRel H L na (E2c K ts cass H na ia ci') hp2) :
    ∃ ld : Loaded, buildCas K ts ci' false p hp2 = .ok ld ∧ HeapRel H L na (E3c K ts H na ia ci') ld.heap ∧
      ld.cas.views.map (viewContent ld.heap) = c.views.map (viewContent H) ∧
      ViewsRel H na c ld.cas ∧ Frz hp2 ld.heap := by
  have ctx : RTCB.Ctx K ts cass ci c hp H L na p := ⟨hc, hwf, hL, hna, hp1, hmem, hmok⟩
  obtain ⟨o0, ho0, hty0, hx0, hs0⟩ := hp1.null
  have hb0 : RTCB.BInv K ts cass H L na ia ci' o0 hp2 { cas := Cas.empty, heap := hp2 } := by
    refine ⟨?_, fun r hr => (by cases hr), fun x hx => (by cases hx), (by rw [hnull2]; exact ho0), Frz.refl _⟩
    intro q hq
    obtain ⟨o, o', ho, ho', h1, h2, h3, h4⟩ := hrel q hq
    refine ⟨o, o', ho, ho', h1, h2, h3, fun n v hv => ⟨_, h4 n v hv, ?_⟩⟩
    unfold RTCB.SlotOk
    split
    · rename_i hn
      subst hn
      exact Or.inl (RTCB.E2c_sofa ..)
    · exact ⟨fun hcv => (by cases hcv), fun _ => rfl⟩
  cases hviews : c.views with
  | nil =>
    have := hwf.init_first
    rw [hviews] at this
    cases this
  | cons nv0 rest =>
    have hnv0 : nv0 ∈ c.views := by rw [hviews]; exact List.mem_cons_self
    have hinit : nv0.1 = Cas.INITIAL_VIEW := by
      have := hwf.init_first
      rw [hviews] at this
      simpa using this
    have hid : (psofaOf nv0).sofaID = Cas.INITIAL_VIEW := (hwf.names nv0 hnv0).trans hinit
    obtain ⟨b1, cur1, h1, hb1, hv1, hr1⟩ :=
      ctx.view_step (ia := ia) (ci' := ci') hnv0 hb0 (pre := []) (RTB.viewCas_first (psofaOf nv0) hid) (by simp)
    obtain ⟨b', h2, hb', hall⟩ :=
      ctx.views_loop (ia := ia) (ci' := ci') rest [nv0] hviews (by simp) b1 hb1 (by rw [hv1]; exact ⟨hr1, trivial⟩)
    have hbv : buildViews ts ci' false p p.sofas { cas := Cas.empty, heap := hp2 } = .ok b' := by
      rw [hp1.sofas, hviews, List.map_cons, buildViews, h1]
      exact h2
    obtain ⟨hpR, hR, hinvR, hnullR, hfrzR⟩ :=
      ctx.rehome_ok (ia := ia) (ci' := ci') (fun x => x ∈ b'.converted) b'.memberSofas hb'.ms b'.heap hb'.heap hb'.null
    obtain ⟨hpF, hF, hinvF, hfrzF⟩ := ctx.convRef_ok (ia := ia) (ci' := ci') b'.converted L [] rfl hpR
      (hinvR.mono (fun q hq => by
        have : q.1 ∈ L.map (·.1) := List.mem_map.mpr ⟨q, hq, rfl⟩
        simp [this]) (fun _ _ h => h))
    have h0c : b'.converted.contains 0 = false := by
      cases h : b'.converted.contains 0
      · rfl
      · exact absurd (hb'.cv 0 (List.contains_iff_mem.mp h)) ctx.zero_not_id
    have hF' : convertReferenced ts p b'.converted p.fss hpR = .ok hpF := by
      rw [hp1.fss, convertReferenced, h0c]
      simp only [Bool.false_eq_true, if_false]
      rw [hnullR]
      dsimp only
      have hslot : slot hpR H.length "sofa" = none := by
        show (hpR[H.length]?).bind _ = _
        rw [hnullR]
        show alistGet? o0.slots "sofa" = none
        rw [hs0]; rfl
      rw [hslot]
      dsimp only
      rw [ite_self]
      exact hF
    have hrel3 : HeapRel H L na (E3c K ts H na ia ci') hpF := by
      intro q hq
      obtain ⟨o, o', ho, ho', g1, g2, g3, g4⟩ := hinvF q hq
      refine ⟨o, o', ho, ho', g1, g2, g3, fun n v hv => ?_⟩
      obtain ⟨w, hw, hs⟩ := g4 n v hv
      rw [hw]
      unfold RTCB.SlotOk at hs
      split at hs
      · rcases hs with hs | ⟨hf, _⟩
        · rw [hs]
        · exact hf.elim
      · rw [hs.1 trivial]
    refine ⟨{ cas := { b'.cas with nextXid := p.maxId + 1, nextSofaNum := p.maxNum + 1 }, heap := hpF }, ?_, hrel3, ?_, ?_, (hb'.frz.trans hfrzR).trans hfrzF⟩
    · unfold buildCas
      rw [hbv]
      dsimp only
      rw [hR]
      dsimp only
      rw [hF']
    · show b'.cas.views.map (viewContent hpF) = (nv0 :: rest).map (viewContent H)
      rw [← hviews]
      exact RTB.All2.map_eq hall (fun nv hnv nv' hr => RTCB.view_content ctx hrel3 hnv hr)
    · show ViewsRelL H na c.views b'.cas.views
      exact RTB.All2.toViewsRelL hall

end Cassis.Xmi
