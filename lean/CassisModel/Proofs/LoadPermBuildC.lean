/-
Element-order independence (`C05Perm`), third pass, part C: the context of the proof with the generalised invariants
(`LoadPermDefs.lean`), lookups, the conversion of one annotation.  Mirrors `RoundTripBuildC.lean`; everything that does
not mention the context is reused from the namespace `RTB`.
-/
import CassisModel.Proofs.LoadPermDefs
import CassisModel.Proofs.RoundTripBuildF

namespace Cassis.Xmi.LP
open Cassis.TS Cassis.Traverse Cassis.Lex Cassis.Xmi Cassis.Xmi.RTB

/-- one object is replaced (`RTB.HInv.step` with the injectivity of `na` only) -/
theorem HInv.stepP {ts : TypeSystem} {cass : List Cas} {H : Heap} {L : List (Int × Nat)} {na : Int → Nat} {ci' n0 : Nat}
    (hna : NaOkP n0 L na) (hnd : (L.map (·.1)).Nodup) {Cp Kp Cp' Kp' : Int → Prop} {hp : Heap}
    (h : HInv ts cass H L na ci' Cp Kp hp) {m : Int} {am : Nat} (hm : (m, am) ∈ L) {o o' o1 : Obj}
    (ho : H[am]? = some o) (ho' : hp[na m]? = some o')
    (h1 : ObjOk ts cass H na ci' (Cp' m) (Kp' m) o o1 m)
    (hC : ∀ q ∈ L, q.1 ≠ m → (Cp q.1 ↔ Cp' q.1)) (hK : ∀ q ∈ L, q.1 ≠ m → Kp q.1 → Kp' q.1) :
    HInv ts cass H L na ci' Cp' Kp' (hp.set (na m) o1) := by
  intro q hq
  by_cases hqm : q.1 = m
  · obtain ⟨x, a⟩ := q
    simp only at hqm
    subst hqm
    have : a = am := addr_unique hnd hq hm
    subst this
    exact ⟨o, o1, ho, set_get_self ho', h1⟩
  · obtain ⟨p, p', hp1, hp2, hr⟩ := h q hq
    have hne : na m ≠ na q.1 := fun e => hqm (hna.inj q hq (m, am) hm e.symm)
    refine ⟨p, p', hp1, ?_, hr.mono (hC q hq hqm) (hK q hq hqm)⟩
    rw [set_get_ne hne]; exact hp2

/-- the hypotheses of the third pass -/
structure CtxP (K : Consts) (ts : TypeSystem) (cass : List Cas) (ci : Nat) (c : Cas) (hp H : Heap)
    (L : List (Int × Nat)) (na : Int → Nat) (n0 : Nat) (p : Pass1) : Prop where
  hc : cass[ci]? = some c
  wf : RTWf c hp
  lok : LOk K ts c ci H L
  nok : NaOkP n0 L na
  p1 : P1SpecP ts cass c H L na n0 p
  hmem : ∀ nv ∈ c.views, ∀ e ∈ Index.all nv.2.idx, slot H e.oid "sofa" ≠ some .none
  mok : MembersOk c H

/-- the invariant of the third pass (`RTB.BInv` with the `cas:NULL` object at `n0`) -/
structure BInvP (ts : TypeSystem) (cass : List Cas) (H : Heap) (L : List (Int × Nat)) (na : Int → Nat) (ci' : Nat)
    (n0 : Nat) (o0 : Obj) (b : Build) : Prop where
  heap : HInv ts cass H L na ci' (fun x => x ∈ b.converted) (fun x => x ∈ b.memberSofas.map (·.1)) b.heap
  ms : ∀ r ∈ b.memberSofas, MSOk H L na ci' r
  cv : ∀ x ∈ b.converted, x ∈ L.map (·.1)
  null : b.heap[n0]? = some o0

section
variable {K : Consts} {ts : TypeSystem} {cass : List Cas} {ci : Nat} {c : Cas} {hp H : Heap}
  {L : List (Int × Nat)} {na : Int → Nat} {n0 : Nat} {p : Pass1}

/-! ### lookups -/

theorem CtxP.id_ne_zero (ctx : CtxP K ts cass ci c hp H L na n0 p) {m : Int} {am : Nat} (h : (m, am) ∈ L) : m ≠ 0 :=
  (ctx.lok.ids _ h).2

theorem CtxP.lookup (ctx : CtxP K ts cass ci c hp H L na n0 p) {m : Int} {am : Nat} (h : (m, am) ∈ L) :
    lookupFs p.fss m = .ok (na m) :=
  ctx.p1.lookup ctx.lok h

theorem CtxP.zero_not_id (ctx : CtxP K ts cass ci c hp H L na n0 p) : (0 : Int) ∉ L.map (·.1) := by
  intro h
  obtain ⟨q, hq, e⟩ := List.mem_map.mp h
  exact (ctx.lok.ids q hq).2 e

theorem CtxP.find_sofa (ctx : CtxP K ts cass ci c hp H L na n0 p) {vn : String} {v : View}
    (h : Cas.getViewRec c vn = some v) :
    p.sofas.find? (fun q => q.2.sofaID == vn) = some (v.sofa.xid, psofaOf (vn, v)) :=
  ctx.p1.find_sofa_name ctx.wf.names ctx.wf.names_nodup (nv := (vn, v)) (Cas.alistGet?_some_mem h)

theorem CtxP.members_of (ctx : CtxP K ts cass ci c hp H L na n0 p) {nv : String × View} (hnv : nv ∈ c.views) :
    membersOf p.views (psofaOf nv) = (pviewOf H nv).members :=
  ctx.p1.members_of ctx.wf.sofa_ids_nodup hnv

/-- a member id of a view is the id of a collected structure that the old index holds -/
theorem CtxP.member (ctx : CtxP K ts cass ci c hp H L na n0 p) {nv : String × View} (hnv : nv ∈ c.views) {m : Int}
    (hm : m ∈ (pviewOf H nv).members) : ∃ e ∈ Index.all nv.2.idx, (m, e.oid) ∈ L := by
  unfold pviewOf at hm
  simp only at hm
  rw [mem_sortInts, List.mem_filterMap] at hm
  obtain ⟨e, he, hx⟩ := hm
  obtain ⟨x, hx'⟩ := ctx.lok.members nv hnv e he
  have := (ctx.lok.ids _ hx').1
  simp only at this
  rw [this] at hx
  cases hx
  exact ⟨e, he, hx'⟩

/-! ### old objects -/

theorem CtxP.flat (ctx : CtxP K ts cass ci c hp H L na n0 p) {m : Int} {am : Nat} (h : (m, am) ∈ L) :
    FlatFs K ts c ci H am := ctx.lok.flat _ h

/-- the `sofa` slot of a collected structure holds a sofa of the CAS or `None` -/
theorem CtxP.sofa_shape (ctx : CtxP K ts cass ci c hp H L na n0 p) {m : Int} {am : Nat} (h : (m, am) ∈ L) {o : Obj}
    (ho : H[am]? = some o) {v : Val} (hv : alistGet? o.slots "sofa" = some v) :
    v = .none ∨ ∃ vn, v = .sofa ci vn := by
  obtain ⟨o', t, ho', _, _, _, _, _, _, _, _, _, _, _, hsl, hf, _⟩ := ctx.flat h
  rw [ho] at ho'
  cases ho'
  have hin : "sofa" ∈ o.slots.map (·.1) := by
    rw [← aget_isSome_iff, hv]; rfl
  rw [hsl, List.mem_eraseDups] at hin
  unfold ctorFields at hin
  obtain ⟨f, hfm, hfn⟩ := List.mem_map.mp hin
  obtain ⟨_, _, _, _, _, _, _, _, _, _, _, v', hv', hcase⟩ := hf f hfm
  rw [hfn, hv] at hv'
  cases hv'
  rcases hcase with ⟨_, h1⟩ | ⟨hne, _⟩ | ⟨hne, _⟩
  · rcases h1 with ⟨vn, e, _⟩ | ⟨e, _⟩
    · exact Or.inr ⟨vn, e⟩
    · exact Or.inl e
  · exact absurd hfn hne
  · exact absurd hfn hne

theorem CtxP.contains (ctx : CtxP K ts cass ci c hp H L na n0 p) {m : Int} {am : Nat} (h : (m, am) ∈ L) {o : Obj}
    (ho : H[am]? = some o) : containsType ts o.ty = true := by
  obtain ⟨o', t, ho', hf, _⟩ := ctx.flat h
  rw [ho] at ho'
  cases ho'
  exact containsType_of_find hf

end

/-! ### converting one annotation -/

section
variable {K : Consts} {ts : TypeSystem} {cass : List Cas} {ci : Nat} {c : Cas} {hp H : Heap}
  {L : List (Int × Nat)} {na : Int → Nat} {n0 : Nat} {p : Pass1} {ci' : Nat}

theorem CtxP.convert_ann (ctx : CtxP K ts cass ci c hp H L na n0 p) {m : Int} {am : Nat} (hq : (m, am) ∈ L) {o o' : Obj}
    {hpX : Heap} (ho : H[am]? = some o) (ho' : hpX[na m]? = some o') {C Kp : Prop}
    (hok : ObjOk ts cass H na ci' C Kp o o' m) (hC : ¬ C) (hann : isInstanceOf ts o.ty ANNOTATION = true) :
    ∃ (vn : String) (v : View) (text : List Nat) (o1 : Obj),
      alistGet? o.slots "sofa" = some (.sofa ci vn) ∧ Cas.getViewRec c vn = some v ∧ v.sofa.text = some text ∧
      convertOffsets (convOfText (some (docText text))) hpX (na m) = .ok (hpX.set (na m) o1) ∧
      ∀ C' : Prop, C' → ObjOk ts cass H na ci' C' Kp o o1 m := by
  obtain ⟨o_, t, ho_, _, _, _, _, _, _, _, _, _, _, _, _, _, hA⟩ := ctx.flat hq
  rw [ho] at ho_
  cases ho_
  obtain ⟨vn, v, text, b, e, hs, hv, ht, hb, he, hbl, hel⟩ := hA hann
  have hvm : (vn, v) ∈ c.views := Cas.alistGet?_some_mem hv
  have hconv : v.sofa.conv = some (Offsets.table text) := ctx.wf.conv _ hvm text ht
  have hsc : ∀ cp ∈ text, Offsets.IsScalar cp := ctx.wf.scalar _ hvm text ht
  -- the new slots
  obtain ⟨wb, hwb, hsb⟩ := hok.2.2.2 "begin" _ hb
  obtain ⟨we, hwe, hse⟩ := hok.2.2.2 "end" _ he
  unfold SlotOk at hsb hse
  rw [if_neg (by decide)] at hsb hse
  have eb := hsb.2 hC
  have ee := hse.2 hC
  unfold E2 exp2 at eb ee
  rw [hann] at eb ee
  simp only at eb ee
  rw [extInt_ann cass ctx.hc hs hv "begin" (Or.inl rfl) b, hconv] at eb
  rw [extInt_ann cass ctx.hc hs hv "end" (Or.inr rfl) e, hconv] at ee
  subst eb ee
  refine ⟨vn, v, text, _, hs, hv, ht, convertOffsets_eq _ ho' hwb hwe, ?_⟩
  intro C' hC'
  rw [cvI_restores text hsc b hbl, cvI_restores text hsc e hel]
  exact hok.convert hC hC' hb he

end

end Cassis.Xmi.LP
