/-
Element-order independence of the XMI reader on the flat fragment: the first pass over ANY permutation of the written
document (`pass1_perm`).

The elements of the document are tagged (`Item`): an object element (the `cas:NULL` element or the element of a collected
structure, together with its id and the object the reader builds from it), a sofa element or a view element.  The first
pass over an arbitrary list of items whose keys are fresh and pairwise distinct is computed explicitly (`pass1_items`):
objects are appended to the heap, the tables are appended to.  The invariants of `LoadPermDefs.lean` are then read off
for a permutation of the items of the written document.
-/
import CassisModel.Proofs.LoadPermDefs
import CassisModel.Proofs.RoundTripPass1

namespace Cassis.Xmi.LP
open Cassis.TS Cassis.Traverse Cassis.Lex Cassis.Xmi

set_option linter.unusedSimpArgs false

/-! ### tagged elements -/

inductive Item where
  | obj (x : Int) (e : XElem) (o1 : Obj)
  | sofa (nv : String × View)
  | view (nv : String × View)

def Item.elem (H : Heap) : Item → XElem
  | .obj _ e _ => e
  | .sofa nv => renderSofa nv.2.sofa
  | .view nv => renderView H nv.2

def Item.okey : Item → Option Int
  | .obj x _ _ => some x
  | .sofa _ => none
  | .view _ => none

def Item.oobj : Item → Option Obj
  | .obj _ _ o => some o
  | .sofa _ => none
  | .view _ => none

def Item.sofaE : Item → Option (Int × PSofa)
  | .obj _ _ _ => none
  | .sofa nv => some (nv.2.sofa.xid, psofaOf nv)
  | .view _ => none

def Item.viewE (H : Heap) : Item → Option (Int × PView)
  | .obj _ _ _ => none
  | .sofa _ => none
  | .view nv => some (nv.2.sofa.xid, pviewOf H nv)

/-- the reader turns the element of an object item into the object of the item, whatever the current heap -/
def Item.Ok (K : Consts) (ts : TypeSystem) (tsIdx : Nat) : Item → Prop
  | .obj x e o1 => e.ty ≠ SOFA ∧ e.ty ≠ VIEW_T ∧
      ∀ hpCur, parseFsElem K ts tsIdx hpCur e = .ok (hpCur ++ [o1], x, hpCur.length)
  | .sofa _ => True
  | .view _ => True

/-- the entries appended to the table of structures, the first new object sitting at address `n` -/
def addrs : Nat → List Item → List (Int × Nat)
  | _, [] => []
  | n, .obj x _ _ :: r => (x, n) :: addrs (n + 1) r
  | n, .sofa _ :: r => addrs n r
  | n, .view _ :: r => addrs n r

/-- the position of the object with id `x` among the object items -/
def posI (x : Int) : List Item → Nat
  | [] => 0
  | .obj y _ _ :: r => if y = x then 0 else posI x r + 1
  | .sofa _ :: r => posI x r
  | .view _ :: r => posI x r

/-! ### lists -/

theorem nodup_mid {α} {A R : List α} {x : α} (h : (A ++ x :: R).Nodup) : x ∉ A ∧ ((A ++ [x]) ++ R).Nodup := by
  refine ⟨?_, ?_⟩
  · intro hx
    exact (List.nodup_append.mp h).2.2 x hx x List.mem_cons_self rfl
  · rw [List.append_assoc]
    exact h

theorem addrs_eq : ∀ (its : List Item) (n : Nat), (its.filterMap Item.okey).Nodup →
    addrs n its = (its.filterMap Item.okey).map (fun x => (x, n + posI x its))
  | [], _, _ => rfl
  | .sofa _ :: r, n, hn => by
    have := addrs_eq r n (by simpa [List.filterMap_cons, Item.okey] using hn)
    simpa [List.filterMap_cons, Item.okey, addrs, posI] using this
  | .view _ :: r, n, hn => by
    have := addrs_eq r n (by simpa [List.filterMap_cons, Item.okey] using hn)
    simpa [List.filterMap_cons, Item.okey, addrs, posI] using this
  | .obj x e o :: r, n, hn => by
    have hn' : x ∉ r.filterMap Item.okey ∧ (r.filterMap Item.okey).Nodup := by
      simpa [List.filterMap_cons, Item.okey] using hn
    have ih := addrs_eq r (n + 1) hn'.2
    have e1 : (Item.obj x e o :: r).filterMap Item.okey = x :: r.filterMap Item.okey := by
      simp [List.filterMap_cons, Item.okey]
    rw [e1, addrs, ih, List.map_cons]
    congr 1
    · simp [posI]
    · apply List.map_congr_left
      intro y hy
      have hne : x ≠ y := by
        intro h; apply hn'.1; rw [h]; exact hy
      simp only [posI, hne, if_false]
      congr 1
      omega

theorem posI_inj : ∀ (its : List Item) (x y : Int), x ∈ its.filterMap Item.okey → y ∈ its.filterMap Item.okey →
    posI x its = posI y its → x = y
  | [], _, _, hx, _, _ => by cases hx
  | .sofa _ :: r, x, y, hx, hy, h =>
    posI_inj r x y (by simpa [List.filterMap_cons, Item.okey] using hx)
      (by simpa [List.filterMap_cons, Item.okey] using hy) (by simpa [posI] using h)
  | .view _ :: r, x, y, hx, hy, h =>
    posI_inj r x y (by simpa [List.filterMap_cons, Item.okey] using hx)
      (by simpa [List.filterMap_cons, Item.okey] using hy) (by simpa [posI] using h)
  | .obj z e o :: r, x, y, hx, hy, h => by
    have hx' : x = z ∨ x ∈ r.filterMap Item.okey := by simpa [List.filterMap_cons, Item.okey] using hx
    have hy' : y = z ∨ y ∈ r.filterMap Item.okey := by simpa [List.filterMap_cons, Item.okey] using hy
    unfold posI at h
    by_cases h1 : z = x <;> by_cases h2 : z = y
    · rw [← h1, ← h2]
    · rw [if_pos h1, if_neg h2] at h; omega
    · rw [if_neg h1, if_pos h2] at h; omega
    · rw [if_neg h1, if_neg h2] at h
      have hx2 : x ∈ r.filterMap Item.okey := by
        rcases hx' with hx' | hx'
        · exact absurd hx'.symm h1
        · exact hx'
      have hy2 : y ∈ r.filterMap Item.okey := by
        rcases hy' with hy' | hy'
        · exact absurd hy'.symm h2
        · exact hy'
      exact posI_inj r x y hx2 hy2 (by omega)

theorem okey_mem {x : Int} {e : XElem} {o : Obj} {its : List Item} (h : Item.obj x e o ∈ its) :
    x ∈ its.filterMap Item.okey :=
  List.mem_filterMap.mpr ⟨_, h, rfl⟩

theorem posI_get : ∀ (its : List Item) (x : Int) (e : XElem) (o1 : Obj), (its.filterMap Item.okey).Nodup →
    Item.obj x e o1 ∈ its → (its.filterMap Item.oobj)[posI x its]? = some o1
  | [], _, _, _, _, h => by cases h
  | .sofa _ :: r, x, e, o1, hn, h => by
    have hm : Item.obj x e o1 ∈ r := by simpa using h
    have := posI_get r x e o1 (by simpa [List.filterMap_cons, Item.okey] using hn) hm
    simpa [List.filterMap_cons, Item.oobj, posI] using this
  | .view _ :: r, x, e, o1, hn, h => by
    have hm : Item.obj x e o1 ∈ r := by simpa using h
    have := posI_get r x e o1 (by simpa [List.filterMap_cons, Item.okey] using hn) hm
    simpa [List.filterMap_cons, Item.oobj, posI] using this
  | .obj z e' o' :: r, x, e, o1, hn, h => by
    have hn' : z ∉ r.filterMap Item.okey ∧ (r.filterMap Item.okey).Nodup := by
      simpa [List.filterMap_cons, Item.okey] using hn
    have e1 : (Item.obj z e' o' :: r).filterMap Item.oobj = o' :: r.filterMap Item.oobj := by
      simp [List.filterMap_cons, Item.oobj]
    rw [e1]
    rcases List.mem_cons.mp h with h | h
    · cases h
      simp [posI]
    · have hne : z ≠ x := by
        intro hzx; apply hn'.1; rw [hzx]; exact okey_mem h
      simp only [posI, hne, if_false, List.getElem?_cons_succ]
      exact posI_get r x e o1 hn'.2 h

theorem oobj_length : ∀ (its : List Item), (its.filterMap Item.oobj).length = (its.filterMap Item.okey).length
  | [] => rfl
  | .sofa _ :: r => by simpa [List.filterMap_cons, Item.oobj, Item.okey] using oobj_length r
  | .view _ :: r => by simpa [List.filterMap_cons, Item.oobj, Item.okey] using oobj_length r
  | .obj _ _ _ :: r => by simpa [List.filterMap_cons, Item.oobj, Item.okey] using oobj_length r

/-! ### the first pass over a list of items -/

theorem step1_sofa' (K : Consts) (ts : TypeSystem) (tsIdx : Nat) (nv : String × View) (s : Pass1)
    (hx : nv.2.sofa.xid ∉ s.sofas.map (·.1)) :
    step1 K ts tsIdx false (renderSofa nv.2.sofa) s =
      .ok { s with sofas := s.sofas ++ [(nv.2.sofa.xid, psofaOf nv)], maxId := max s.maxId nv.2.sofa.xid,
                   maxNum := max s.maxNum nv.2.sofa.sofaNum } := by
  unfold step1
  rw [if_pos (by rfl), sofa_roundtrip_aux]
  dsimp only
  rw [alistSetI_of_not_mem _ _ _ hx]
  rfl

theorem pass1_items (K : Consts) (ts : TypeSystem) (tsIdx : Nat) (H : Heap) : ∀ (its : List Item) (s : Pass1),
    (∀ it ∈ its, it.Ok K ts tsIdx) →
    (s.fss.map (·.1) ++ its.filterMap Item.okey).Nodup →
    (s.sofas.map (·.1) ++ (its.filterMap Item.sofaE).map (·.1)).Nodup →
    (s.views.map (·.1) ++ (its.filterMap (Item.viewE H)).map (·.1)).Nodup →
    ∃ (m m' : Int), pass1 K ts tsIdx false (its.map (Item.elem H)) s = .ok
      { s with heap := s.heap ++ its.filterMap Item.oobj, fss := s.fss ++ addrs s.heap.length its,
               sofas := s.sofas ++ its.filterMap Item.sofaE, views := s.views ++ its.filterMap (Item.viewE H),
               maxId := m, maxNum := m' }
  | [], s, _, _, _, _ => ⟨s.maxId, s.maxNum, by simp [pass1_nil, addrs]⟩
  | .obj x e o1 :: r, s, hok, hf, hs, hv => by
    obtain ⟨h1, h2, h3⟩ := hok _ List.mem_cons_self
    have e1 : (Item.obj x e o1 :: r).filterMap Item.okey = x :: r.filterMap Item.okey := by
      simp [List.filterMap_cons, Item.okey]
    rw [e1] at hf
    obtain ⟨hx, hf'⟩ := nodup_mid hf
    have hstep := step1_fs K ts tsIdx e s o1 x h1 h2 (h3 s.heap) hx
    obtain ⟨m, m', hm⟩ := pass1_items K ts tsIdx H r
      { s with heap := s.heap ++ [o1], fss := s.fss ++ [(x, s.heap.length)], maxId := max s.maxId x }
      (fun it hit => hok it (List.mem_cons_of_mem _ hit))
      (by simpa using hf')
      (by simpa [List.filterMap_cons, Item.sofaE] using hs)
      (by simpa [List.filterMap_cons, Item.viewE] using hv)
    refine ⟨m, m', ?_⟩
    rw [List.map_cons, pass1_cons]
    show (step1 K ts tsIdx false e s).bind _ = _
    rw [hstep]
    show pass1 K ts tsIdx false (r.map (Item.elem H)) _ = _
    rw [hm]
    simp [List.filterMap_cons, Item.oobj, Item.sofaE, Item.viewE, addrs]
  | .sofa nv :: r, s, hok, hf, hs, hv => by
    have e1 : ((Item.sofa nv :: r).filterMap Item.sofaE).map (·.1) =
        nv.2.sofa.xid :: (r.filterMap Item.sofaE).map (·.1) := by
      simp [List.filterMap_cons, Item.sofaE]
    rw [e1] at hs
    obtain ⟨hx, hs'⟩ := nodup_mid hs
    have hstep := step1_sofa' K ts tsIdx nv s hx
    obtain ⟨m, m', hm⟩ := pass1_items K ts tsIdx H r
      { s with sofas := s.sofas ++ [(nv.2.sofa.xid, psofaOf nv)], maxId := max s.maxId nv.2.sofa.xid,
               maxNum := max s.maxNum nv.2.sofa.sofaNum }
      (fun it hit => hok it (List.mem_cons_of_mem _ hit))
      (by simpa [List.filterMap_cons, Item.okey] using hf)
      (by simpa using hs')
      (by simpa [List.filterMap_cons, Item.viewE] using hv)
    refine ⟨m, m', ?_⟩
    rw [List.map_cons, pass1_cons]
    show (step1 K ts tsIdx false (renderSofa nv.2.sofa) s).bind _ = _
    rw [hstep]
    show pass1 K ts tsIdx false (r.map (Item.elem H)) _ = _
    rw [hm]
    simp [List.filterMap_cons, Item.oobj, Item.sofaE, Item.viewE, addrs]
  | .view nv :: r, s, hok, hf, hs, hv => by
    have e1 : ((Item.view nv :: r).filterMap (Item.viewE H)).map (·.1) =
        nv.2.sofa.xid :: (r.filterMap (Item.viewE H)).map (·.1) := by
      simp [List.filterMap_cons, Item.viewE]
    rw [e1] at hv
    obtain ⟨hx, hv'⟩ := nodup_mid hv
    have hstep := step1_view K ts tsIdx H nv s hx
    obtain ⟨m, m', hm⟩ := pass1_items K ts tsIdx H r
      { s with views := s.views ++ [(nv.2.sofa.xid, pviewOf H nv)] }
      (fun it hit => hok it (List.mem_cons_of_mem _ hit))
      (by simpa [List.filterMap_cons, Item.okey] using hf)
      (by simpa [List.filterMap_cons, Item.sofaE] using hs)
      (by simpa using hv')
    refine ⟨m, m', ?_⟩
    rw [List.map_cons, pass1_cons]
    show (step1 K ts tsIdx false (renderView H nv.2) s).bind _ = _
    rw [hstep]
    show pass1 K ts tsIdx false (r.map (Item.elem H)) _ = _
    rw [hm]
    simp [List.filterMap_cons, Item.oobj, Item.sofaE, Item.viewE, addrs]

/-! ### the items of the written document -/

theorem filterMap_map_none {α β γ} (f : α → β) (g : β → Option γ) (h : ∀ a, g (f a) = none) :
    ∀ l : List α, (l.map f).filterMap g = []
  | [] => rfl
  | a :: l => by rw [List.map_cons, List.filterMap_cons, h a]; exact filterMap_map_none f g h l

theorem filterMap_map_some {α β γ} (f : α → β) (g : β → Option γ) (k : α → γ) (h : ∀ a, g (f a) = some (k a)) :
    ∀ l : List α, (l.map f).filterMap g = l.map k
  | [] => rfl
  | a :: l => by rw [List.map_cons, List.filterMap_cons, h a, List.map_cons, filterMap_map_some f g k h l]

theorem get_app (H l : List Obj) (i : Nat) (o : Obj) (h : l[i]? = some o) : (H ++ l)[H.length + i]? = some o := by
  rw [List.getElem?_append_right (by omega), show H.length + i - H.length = i by omega]
  exact h

/-- what is known about the tagged elements of (a permutation of) the written document -/
structure ItemsOk (K : Consts) (ts : TypeSystem) (cass : List Cas) (c : Cas) (H : Heap) (L : List (Int × Nat))
    (tsIdx : Nat) (its : List Item) : Prop where
  keys : (its.filterMap Item.okey).Perm (0 :: L.map (·.1))
  sofas : (its.filterMap Item.sofaE).Perm (c.views.map (fun nv => (nv.2.sofa.xid, psofaOf nv)))
  views : (its.filterMap (Item.viewE H)).Perm (c.views.map (fun nv => (nv.2.sofa.xid, pviewOf H nv)))
  ok : ∀ it ∈ its, it.Ok K ts tsIdx
  null : ∃ (e0 : XElem) (o0 : Obj), Item.obj 0 e0 o0 ∈ its ∧ o0.ty = NULL_T ∧ o0.xid = some 0 ∧ o0.slots = []
  rel : ∀ q ∈ L, ∃ (e : XElem) (o1 o : Obj), Item.obj q.1 e o1 ∈ its ∧ H[q.2]? = some o ∧
    ObjRel (E1 ts cass H o) o o1 q.1

theorem ItemsOk.perm {K : Consts} {ts : TypeSystem} {cass : List Cas} {c : Cas} {H : Heap} {L : List (Int × Nat)}
    {tsIdx : Nat} {its its' : List Item} (h : ItemsOk K ts cass c H L tsIdx its) (hp : its'.Perm its) :
    ItemsOk K ts cass c H L tsIdx its' where
  keys := (hp.filterMap _).trans h.keys
  sofas := (hp.filterMap _).trans h.sofas
  views := (hp.filterMap _).trans h.views
  ok := fun it hit => h.ok it (hp.mem_iff.mp hit)
  null := by
    obtain ⟨e0, o0, hm, r⟩ := h.null
    exact ⟨e0, o0, hp.mem_iff.mpr hm, r⟩
  rel := by
    intro q hq
    obtain ⟨e, o1, o, hm, r⟩ := h.rel q hq
    exact ⟨e, o1, o, hp.mem_iff.mpr hm, r⟩

theorem trip_items (K : Consts) (ts : TypeSystem) (cass : List Cas) (H : Heap) (tsIdx : Nat) :
    ∀ (L : List (Int × Nat)) (es : List XElem) (objs : List Obj), Trip (ElemOk K ts cass H tsIdx) L es objs →
    ∃ its : List Item, its.map (Item.elem H) = es ∧ its.filterMap Item.okey = L.map (·.1) ∧
      its.filterMap Item.sofaE = [] ∧ its.filterMap (Item.viewE H) = [] ∧ (∀ it ∈ its, it.Ok K ts tsIdx) ∧
      ∀ q ∈ L, ∃ (e : XElem) (o1 o : Obj), Item.obj q.1 e o1 ∈ its ∧ H[q.2]? = some o ∧
        ObjRel (E1 ts cass H o) o o1 q.1
  | [], [], [], _ => by
    refine ⟨[], rfl, rfl, rfl, rfl, ?_, ?_⟩
    · intro it h; cases h
    · intro q h; cases h
  | q :: L, e :: es, o1 :: objs, h => by
    obtain ⟨⟨h1, h2, h3, o, ho, hrel⟩, ht⟩ := h
    obtain ⟨its, a1, a2, a3, a4, a5, a6⟩ := trip_items K ts cass H tsIdx L es objs ht
    refine ⟨.obj q.1 e o1 :: its, ?_, ?_, ?_, ?_, ?_, ?_⟩
    · rw [List.map_cons, a1]; rfl
    · simp [List.filterMap_cons, Item.okey, a2]
    · simp [List.filterMap_cons, Item.sofaE, a3]
    · simp [List.filterMap_cons, Item.viewE, a4]
    · intro it hit
      rcases List.mem_cons.mp hit with rfl | hit
      · exact ⟨h1, h2, h3⟩
      · exact a5 it hit
    · intro q' hq'
      rcases List.mem_cons.mp hq' with rfl | hq'
      · exact ⟨e, o1, o, List.mem_cons_self, ho, hrel⟩
      · obtain ⟨e', o1', o', hm, hh⟩ := a6 q' hq'
        exact ⟨e', o1', o', List.mem_cons_of_mem _ hm, hh⟩
  | [], [], _ :: _, h => by cases h
  | [], _ :: _, _, h => by cases h
  | _ :: _, [], _, h => by cases h
  | _ :: _, _ :: _, [], h => by cases h

/-- the written document is a list of items -/
theorem items_of_doc (K : Consts) (ts : TypeSystem) (cass : List Cas) (ci : Nat) (c : Cas) (hp : Heap) (tsIdx : Nat)
    (doc : XDoc) (st : St) (hc : cass[ci]? = some c)
    (hsave : saveXmi K ts cass ci hp = .ok (doc, st)) (hnull : NullOk ts)
    (hL : LOk K ts c ci st.heap (sortById st.allFs)) :
    ∃ its : List Item, doc = its.map (Item.elem st.heap) ∧
      ItemsOk K ts cass c st.heap (sortById st.allFs) tsIdx its := by
  obtain ⟨fsElems, hr, hdoc⟩ := saveXmi_doc K ts cass ci c hp doc st hc hsave
  generalize hLd : sortById st.allFs = L at hL hr ⊢
  generalize hHd : st.heap = H at hL hr hdoc ⊢
  obtain ⟨es, objs, hes, htrip⟩ := renderAll_trip K ts cass c ci H tsIdx hc L hL.flat (fun q hq => (hL.ids q hq).1)
  rw [hr] at hes
  cases hes
  obtain ⟨o0, h0ty, h0x, h0s, h0p⟩ := null_elem K ts tsIdx hnull
  obtain ⟨itsF, f1, f2, f3, f4, f5, f6⟩ := trip_items K ts cass H tsIdx L fsElems objs htrip
  have s1 : (c.views.map Item.sofa).map (Item.elem H) = c.views.map (fun p => renderSofa p.2.sofa) := by
    rw [List.map_map]; rfl
  have v1 : (c.views.map Item.view).map (Item.elem H) = c.views.map (fun p => renderView H p.2) := by
    rw [List.map_map]; rfl
  have s2 := filterMap_map_none Item.sofa Item.okey (fun _ => rfl) c.views
  have v2 := filterMap_map_none Item.view Item.okey (fun _ => rfl) c.views
  have s3 := filterMap_map_some Item.sofa Item.sofaE (fun nv => (nv.2.sofa.xid, psofaOf nv)) (fun _ => rfl) c.views
  have v3 := filterMap_map_none Item.view Item.sofaE (fun _ => rfl) c.views
  have s4 := filterMap_map_none Item.sofa (Item.viewE H) (fun _ => rfl) c.views
  have v4 := filterMap_map_some Item.view (Item.viewE H) (fun nv => (nv.2.sofa.xid, pviewOf H nv)) (fun _ => rfl) c.views
  refine ⟨Item.obj 0 { ty := NULL_T, attrs := [(ID, "0")] } o0 ::
    (itsF ++ (c.views.map Item.sofa ++ c.views.map Item.view)), ?_, ?_, ?_, ?_, ?_, ?_, ?_⟩
  · rw [hdoc, List.map_cons, List.map_append, List.map_append, f1, s1, v1]
    simp [Item.elem]
  · rw [List.filterMap_cons, List.filterMap_append, List.filterMap_append, f2, s2, v2]
    simp [Item.okey]
  · rw [List.filterMap_cons, List.filterMap_append, List.filterMap_append, f3, s3, v3]
    simp [Item.sofaE]
  · rw [List.filterMap_cons, List.filterMap_append, List.filterMap_append, f4, s4, v4]
    simp [Item.viewE]
  · intro it hit
    rcases List.mem_cons.mp hit with rfl | hit
    · exact ⟨by decide, by decide, h0p⟩
    · rcases List.mem_append.mp hit with hit | hit
      · exact f5 it hit
      · rcases List.mem_append.mp hit with hit | hit
        · obtain ⟨nv, _, rfl⟩ := List.mem_map.mp hit
          trivial
        · obtain ⟨nv, _, rfl⟩ := List.mem_map.mp hit
          trivial
  · exact ⟨_, o0, List.mem_cons_self, h0ty, h0x, h0s⟩
  · intro q hq
    obtain ⟨e, o1, o, hm, hh⟩ := f6 q hq
    exact ⟨e, o1, o, List.mem_cons_of_mem _ (List.mem_append_left _ hm), hh⟩

/-! ### the first pass over any list of items that is a permutation of the items of the written document -/

theorem pass1_of_items (K : Consts) (ts : TypeSystem) (cass : List Cas) (ci : Nat) (c : Cas) (H : Heap)
    (L : List (Int × Nat)) (tsIdx : Nat) (its : List Item) (hnd : (c.views.map (·.2.sofa.xid)).Nodup)
    (hL : LOk K ts c ci H L) (h : ItemsOk K ts cass c H L tsIdx its) :
    ∃ (na : Int → Nat) (n0 : Nat) (p : Pass1), pass1 K ts tsIdx false (its.map (Item.elem H)) { heap := H } = .ok p ∧
      NaOkP n0 L na ∧ P1SpecP ts cass c H L na n0 p := by
  have hk0 : ((0 : Int) :: L.map (·.1)).Nodup := by
    rw [List.nodup_cons]
    refine ⟨?_, hL.nodup⟩
    intro h0
    obtain ⟨q, hq, e⟩ := List.mem_map.mp h0
    exact (hL.ids q hq).2 e
  have hkn : (its.filterMap Item.okey).Nodup := h.keys.nodup_iff.mpr hk0
  have hsn : ((its.filterMap Item.sofaE).map (·.1)).Nodup := by
    rw [(h.sofas.map (·.1)).nodup_iff, List.map_map]
    exact hnd
  have hvn : ((its.filterMap (Item.viewE H)).map (·.1)).Nodup := by
    rw [(h.views.map (·.1)).nodup_iff, List.map_map]
    exact hnd
  obtain ⟨m, m', hrun⟩ := pass1_items K ts tsIdx H its { heap := H } h.ok (by simpa using hkn) (by simpa using hsn)
    (by simpa using hvn)
  have hmem0 : (0 : Int) ∈ its.filterMap Item.okey := h.keys.mem_iff.mpr List.mem_cons_self
  have hmemq : ∀ q ∈ L, q.1 ∈ its.filterMap Item.okey := fun q hq =>
    h.keys.mem_iff.mpr (List.mem_cons_of_mem _ (List.mem_map_of_mem hq))
  refine ⟨fun x => H.length + posI x its, H.length + posI 0 its, _, hrun, ⟨?_, ?_⟩, ⟨?_, ?_, ?_, rfl, ?_, ?_, ?_⟩⟩
  · intro q hq q' hq' e
    exact posI_inj its q.1 q'.1 (hmemq q hq) (hmemq q' hq') (by simpa using e)
  · intro q hq e
    have := posI_inj its 0 q.1 hmem0 (hmemq q hq) (by omega)
    exact (hL.ids q hq).2 this.symm
  · show ([] ++ addrs H.length its).Perm _
    rw [List.nil_append, addrs_eq its _ hkn]
    have := h.keys.map (fun x => (x, H.length + posI x its))
    rw [List.map_cons, List.map_map] at this
    exact this
  · exact h.sofas
  · exact h.views
  · show (H ++ its.filterMap Item.oobj).length = _
    rw [List.length_append, oobj_length, h.keys.length_eq, List.length_cons, List.length_map]
    omega
  · obtain ⟨e0, o0, hm, r⟩ := h.null
    exact ⟨o0, get_app H _ _ o0 (posI_get its 0 e0 o0 hkn hm), r⟩
  · intro q hq
    obtain ⟨e, o1, o, hm, ho, hrel⟩ := h.rel q hq
    exact ⟨o, o1, ho, get_app H _ _ o1 (posI_get its q.1 e o1 hkn hm), hrel⟩

theorem pass1_perm (K : Consts) (ts : TypeSystem) (cass : List Cas) (ci : Nat) (c : Cas) (hp : Heap) (tsIdx : Nat)
    (doc doc' : XDoc) (st : St) (hc : cass[ci]? = some c) (hnd : (c.views.map (·.2.sofa.xid)).Nodup)
    (hsave : saveXmi K ts cass ci hp = .ok (doc, st)) (hnull : NullOk ts)
    (hL : LOk K ts c ci st.heap (sortById st.allFs)) (hperm : doc'.Perm doc) :
    ∃ (na : Int → Nat) (n0 : Nat) (p : Pass1), pass1 K ts tsIdx false doc' { heap := st.heap } = .ok p ∧
      NaOkP n0 (sortById st.allFs) na ∧ P1SpecP ts cass c st.heap (sortById st.allFs) na n0 p := by
  obtain ⟨its, hdoc, hits⟩ := items_of_doc K ts cass ci c hp tsIdx doc st hc hsave hnull hL
  rw [hdoc] at hperm
  obtain ⟨its', hp', hdoc'⟩ := perm_map_inv (Item.elem st.heap) doc' its hperm
  rw [hdoc']
  exact pass1_of_items K ts cass ci c st.heap _ tsIdx its' hnd hL (hits.perm hp')

end Cassis.Xmi.LP
