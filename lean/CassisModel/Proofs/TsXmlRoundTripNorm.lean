/-
C12 round trip, layer 9: on a descriptor with pairwise distinct names whose names (type name, supertype, feature name,
range, element type) carry no surrounding whitespace, `normalize` only strips the descriptions, and the entries the
loader works on are these plus the implicit DocumentAnnotation.
-/
import CassisModel.Proofs.TsXmlRoundTripDecl

namespace Cassis.TsXml
open Cassis.TS

/-- the DocumentAnnotation declaration the loader assumes when the descriptor has none -/
def docEntry : TDesc :=
  { name := DOCUMENT_ANNOTATION, super := ANNOTATION, feats := [{ name := "language", range := "uima.cas.String" }] }

theorem eraseDups_of_nodup {α : Type} [BEq α] [LawfulBEq α] : ∀ l : List α, l.Nodup → l.eraseDups = l := by
  intro l
  induction l with
  | nil => intro _; simp
  | cons a as ih =>
    intro hn
    obtain ⟨h1, h2⟩ := List.nodup_cons.mp hn
    have : as.filter (fun b => !b == a) = as := by
      apply List.filter_eq_self.mpr
      intro b hb
      simp only [Bool.not_eq_true', beq_eq_false_iff_ne, ne_eq]
      intro e; subst e; exact h1 hb
    rw [List.eraseDups_cons, this, ih h2]

theorem filter_name_single : ∀ (d : Descriptor), (d.map (·.name)).Nodup → ∀ t ∈ d,
    d.filter (fun u => u.name == t.name) = [t] := by
  intro d
  induction d with
  | nil => intro _ t ht; cases ht
  | cons u us ih =>
    intro hn t ht
    rw [List.map_cons, List.nodup_cons] at hn
    rcases List.mem_cons.mp ht with rfl | ht'
    · rw [List.filter_cons, if_pos (beq_self_eq_true _)]
      congr 1
      apply List.filter_eq_nil_iff.mpr
      intro v hv hvn
      exact hn.1 (List.mem_map.mpr ⟨v, hv, by simpa using hvn⟩)
    · have hne : (u.name == t.name) = false := by
        apply beq_false_of_ne
        intro e
        exact hn.1 (List.mem_map.mpr ⟨t, ht', e.symm⟩)
      rw [List.filter_cons, hne]
      exact ih hn.2 t ht'

theorem filterMap_eq_map_of {α β : Type} (g : α → Option β) (f : α → β) : ∀ l : List α,
    (∀ x ∈ l, g x = some (f x)) → l.filterMap g = l.map f := by
  intro l
  induction l with
  | nil => intro _; rfl
  | cons a l ih =>
    intro h
    rw [List.filterMap_cons_some (h a List.mem_cons_self), List.map_cons,
      ih (fun x hx => h x (List.mem_cons_of_mem _ hx))]

theorem groupByName_of_nodup (d : Descriptor) (hn : (d.map (·.name)).Nodup) : groupByName d = d := by
  unfold groupByName
  simp only []
  rw [eraseDups_of_nodup _ hn, List.filterMap_map]
  conv => rhs; rw [← List.map_id d]
  apply filterMap_eq_map_of
  intro t ht
  simp only [Function.comp]
  rw [filter_name_single d hn t ht]
  simp only [List.getLast?_singleton, List.flatMap_cons, List.flatMap_nil, List.append_nil]
  rfl

theorem stripT_eq_normT {t : TDesc} (h : NamesStrippedT t) : stripT t = normT t :=
  stripT_of_stripped h

theorem normalize_of_nodup (d : Descriptor) (hn : (d.map (·.name)).Nodup) (hs : ∀ t ∈ d, NamesStrippedT t) :
    normalize d = d.map normT := by
  unfold normalize
  have hm : d.map stripT = d.map normT := List.map_congr_left (fun t ht => stripT_eq_normT (hs t ht))
  rw [hm]
  apply groupByName_of_nodup
  rw [List.map_map]
  exact hn

theorem normT_docEntry : normT docEntry = docEntry := by decide

/-- membership in the entries the loader works on -/
theorem mem_effective (d : Descriptor) (hn : (d.map (·.name)).Nodup) (hs : ∀ t ∈ d, NamesStrippedT t) (e : TDesc) :
    e ∈ effective d ↔ e ∈ d.map normT ∨ (DOCUMENT_ANNOTATION ∉ d.map (·.name) ∧ e = docEntry) := by
  unfold effective
  simp only []
  rw [normalize_of_nodup d hn hs]
  have hnames : (d.map normT).map (·.name) = d.map (·.name) := by
    rw [List.map_map]; rfl
  rw [hnames]
  split
  · rename_i hc
    have : DOCUMENT_ANNOTATION ∈ d.map (·.name) := List.contains_iff_mem.mp hc
    constructor
    · exact Or.inl
    · rintro (h | ⟨h, _⟩)
      · exact h
      · exact absurd this h
  · rename_i hc
    have : DOCUMENT_ANNOTATION ∉ d.map (·.name) := fun h => hc (List.contains_iff_mem.mpr h)
    rw [List.mem_append, List.mem_singleton]
    constructor
    · rintro (h | h)
      · exact Or.inl h
      · exact Or.inr ⟨this, h⟩
    · rintro (h | ⟨_, h⟩)
      · exact Or.inl h
      · exact Or.inr h

theorem hasDoc_iff (d : Descriptor) (hn : (d.map (·.name)).Nodup) (hs : ∀ t ∈ d, NamesStrippedT t) :
    ((normalize d).map (·.name)).contains DOCUMENT_ANNOTATION = (d.map (·.name)).contains DOCUMENT_ANNOTATION := by
  rw [normalize_of_nodup d hn hs, List.map_map]
  rfl

theorem effective_names (d : Descriptor) (hn : (d.map (·.name)).Nodup) (hs : ∀ t ∈ d, NamesStrippedT t) :
    (effective d).map (·.name) =
      if (d.map (·.name)).contains DOCUMENT_ANNOTATION then d.map (·.name)
      else d.map (·.name) ++ [DOCUMENT_ANNOTATION] := by
  unfold effective
  simp only []
  rw [normalize_of_nodup d hn hs]
  have hnames : (d.map normT).map (·.name) = d.map (·.name) := by
    rw [List.map_map]; rfl
  rw [hnames]
  split
  · exact hnames
  · rw [List.map_append, hnames]; rfl

end Cassis.TsXml
