/-
Round trip with collections, layer 3 (`buildCas`), part B: the heap invariant of the third pass and what the primitive
steps do to it (copy of `RoundTripBuildB.lean` with the expectation functions `E2c`/`E3c`).
-/
import CassisModel.Proofs.RoundTripCollDefs
import CassisModel.Proofs.RoundTripBuildA
import CassisModel.Proofs.RoundTripBuildB

namespace Cassis.Xmi.RTCB
open Cassis.TS Cassis.Traverse Cassis.Lex Cassis.Xmi Cassis.Xmi.RTB

/-! ### expectations -/

theorem E2c_eq_E3c (K : Consts) (ts : TypeSystem) (cass : List Cas) (H : Heap) (na : Int → Nat) (ia : Int → String → Nat)
    (ci' : Nat) (o : Obj) (n : String) (v : Val)
    (h : (isInstanceOf ts o.ty ANNOTATION && (n == "begin" || n == "end")) = false) :
    E2c K ts cass H na ia ci' o n v = E3c K ts H na ia ci' o n v := by
  have e : E2 ts cass H na ci' o n v = exp3 H na ci' v := exp2_eq_exp3 cass H na ci' _ o n v h
  cases v <;> first | exact e | rfl

theorem E2c_sofa (K : Consts) (ts : TypeSystem) (cass : List Cas) (H : Heap) (na : Int → Nat) (ia : Int → String → Nat)
    (ci' : Nat) (o : Obj) (v : Val) :
    E2c K ts cass H na ia ci' o "sofa" v = E3c K ts H na ia ci' o "sofa" v :=
  E2c_eq_E3c K ts cass H na ia ci' o "sofa" v (by
    have : (("sofa" : String) == "begin" || ("sofa" : String) == "end") = false := by decide
    rw [this]; simp)

/-- replacing an object that carries the id `x` -/
theorem Frz.set_some {hp : Heap} {a : Nat} {o o' : Obj} {x : Int} (h : hp[a]? = some o) (hx : o.xid = some x) :
    Frz hp (hp.set a o') :=
  Frz.set h (by rw [hx]; exact fun e => by cases e)

section
variable (K : Consts) (ts : TypeSystem) (cass : List Cas) (H : Heap) (na : Int → Nat) (ia : Int → String → Nat) (ci' : Nat)

/-- what slot `n` of the new object may hold (`w`) when the old object holds `v`; `C`: offsets already internal;
    `Kp`: the member's own sofa is on record (the slot then names the view the member was added to last) -/
def SlotOk (C Kp : Prop) (o : Obj) (n : String) (v w : Val) : Prop :=
  if n = "sofa" then (w = E3c K ts H na ia ci' o n v ∨ (Kp ∧ ∃ u, w = .sofa ci' u))
  else ((C → w = E3c K ts H na ia ci' o n v) ∧ (¬ C → w = E2c K ts cass H na ia ci' o n v))

def ObjOk (C Kp : Prop) (o o' : Obj) (x : Int) : Prop :=
  o'.ty = o.ty ∧ o'.xid = some x ∧ o'.slots.map (·.1) = o.slots.map (·.1) ∧
  ∀ (n : String) (v : Val), alistGet? o.slots n = some v →
    ∃ w, alistGet? o'.slots n = some w ∧ SlotOk K ts cass H na ia ci' C Kp o n v w

variable {K ts cass H na ia ci'}

theorem ObjOk.mono {C Kp C' Kp' : Prop} {o o' : Obj} {x : Int} (h : ObjOk K ts cass H na ia ci' C Kp o o' x)
    (hC : C ↔ C') (hK : Kp → Kp') : ObjOk K ts cass H na ia ci' C' Kp' o o' x := by
  obtain ⟨h1, h2, h3, h4⟩ := h
  refine ⟨h1, h2, h3, fun n v hv => ?_⟩
  obtain ⟨w, hw, hs⟩ := h4 n v hv
  refine ⟨w, hw, ?_⟩
  unfold SlotOk at hs ⊢
  split
  · rename_i hn
    rw [if_pos hn] at hs
    rcases hs with hs | ⟨k, hu⟩
    · exact Or.inl hs
    · exact Or.inr ⟨hK k, hu⟩
  · rename_i hn
    rw [if_neg hn] at hs
    exact ⟨fun c => hs.1 (hC.mpr c), fun c => hs.2 (fun c' => c (hC.mp c'))⟩

theorem ObjOk.nonann {C Kp C' : Prop} {o o' : Obj} {x : Int} (h : ObjOk K ts cass H na ia ci' C Kp o o' x)
    (hann : isInstanceOf ts o.ty ANNOTATION = false) : ObjOk K ts cass H na ia ci' C' Kp o o' x := by
  obtain ⟨h1, h2, h3, h4⟩ := h
  refine ⟨h1, h2, h3, fun n v hv => ?_⟩
  obtain ⟨w, hw, hs⟩ := h4 n v hv
  refine ⟨w, hw, ?_⟩
  unfold SlotOk at hs ⊢
  split
  · rename_i hn
    rw [if_pos hn] at hs
    exact hs
  · rename_i hn
    rw [if_neg hn] at hs
    have e : E2c K ts cass H na ia ci' o n v = E3c K ts H na ia ci' o n v := by
      apply E2c_eq_E3c
      rw [hann]; rfl
    rw [e] at hs ⊢
    have hw' : w = E3c K ts H na ia ci' o n v := by
      by_cases c : C
      · exact hs.1 c
      · exact hs.2 c
    exact ⟨fun _ => hw', fun _ => hw'⟩

/-- slots present in the new object are present in the old one -/
theorem ObjOk.old_slot {C Kp : Prop} {o o' : Obj} {x : Int} (h : ObjOk K ts cass H na ia ci' C Kp o o' x) {n : String}
    (hn : (alistGet? o'.slots n).isSome = true) : ∃ v, alistGet? o.slots n = some v := by
  have : (alistGet? o.slots n).isSome = true := by
    rw [aget_isSome_iff] at hn ⊢
    rw [← h.2.2.1]; exact hn
  exact Option.isSome_iff_exists.mp this

theorem ObjOk.none_slot {C Kp : Prop} {o o' : Obj} {x : Int} (h : ObjOk K ts cass H na ia ci' C Kp o o' x) {n : String}
    (hn : alistGet? o.slots n = none) : alistGet? o'.slots n = none := by
  rw [aget_none_iff] at hn ⊢
  rw [h.2.2.1]; exact hn

/-- the step of `Cas.add` -/
theorem ObjOk.add {C Kp Kp' : Prop} {o o' : Obj} {x : Int} (h : ObjOk K ts cass H na ia ci' C Kp o o' x) (hd : Handle)
    (hK : Kp → Kp') (hK' : (alistGet? o'.slots "sofa").isSome = true → Kp') :
    ObjOk K ts cass H na ia ci' C Kp' o (Cas.addObj ci' hd o' x) x := by
  obtain ⟨h1, h2, h3, h4⟩ := h
  unfold Cas.addObj
  by_cases hs : (alistGet? o'.slots "sofa").isSome = true
  · simp only [hs, if_true]
    refine ⟨h1, rfl, ?_, fun n v hv => ?_⟩
    · show (alistSet o'.slots "sofa" _).map (·.1) = _
      rw [aset_keys _ _ _ ((aget_isSome_iff _ _).mp hs)]; exact h3
    · obtain ⟨w, hw, hso⟩ := h4 n v hv
      show ∃ w, alistGet? (alistSet o'.slots "sofa" _) n = some w ∧ _
      rw [aget_set]
      by_cases hn : n = "sofa"
      · rw [if_pos hn]
        refine ⟨_, rfl, ?_⟩
        unfold SlotOk
        rw [if_pos hn]
        exact Or.inr ⟨hK' hs, _, rfl⟩
      · rw [if_neg hn]
        refine ⟨w, hw, ?_⟩
        unfold SlotOk at hso ⊢
        rw [if_neg hn] at hso ⊢
        exact hso
  · simp only [hs]
    exact ObjOk.mono (C := C) (Kp := Kp) ⟨h1, rfl, h3, h4⟩ Iff.rfl hK

/-- the step of `rehome` -/
theorem ObjOk.rehome {C Kp Kp' : Prop} {o o' : Obj} {x : Int} (h : ObjOk K ts cass H na ia ci' C Kp o o' x) {v : Val}
    (hv : alistGet? o.slots "sofa" = some v) :
    ObjOk K ts cass H na ia ci' C Kp' o { o' with slots := alistSet o'.slots "sofa" (E3c K ts H na ia ci' o "sofa" v) } x := by
  obtain ⟨h1, h2, h3, h4⟩ := h
  have hs : "sofa" ∈ o'.slots.map (·.1) := by
    rw [h3, ← aget_isSome_iff, hv]; rfl
  refine ⟨h1, h2, ?_, fun n v' hv' => ?_⟩
  · show (alistSet o'.slots "sofa" _).map (·.1) = _
    rw [aset_keys _ _ _ hs]; exact h3
  · obtain ⟨w, hw, hso⟩ := h4 n v' hv'
    show ∃ w, alistGet? (alistSet o'.slots "sofa" _) n = some w ∧ _
    rw [aget_set]
    by_cases hn : n = "sofa"
    · rw [if_pos hn]
      refine ⟨_, rfl, ?_⟩
      unfold SlotOk
      rw [if_pos hn]
      subst hn
      rw [hv] at hv'
      cases hv'
      exact Or.inl rfl
    · rw [if_neg hn]
      refine ⟨w, hw, ?_⟩
      unfold SlotOk at hso ⊢
      rw [if_neg hn] at hso ⊢
      exact hso

/-- the step of `convertOffsets` on an annotation whose old offsets are `bI`, `eI` -/
theorem ObjOk.convert {C Kp C' : Prop} {o o' : Obj} {x : Int} (h : ObjOk K ts cass H na ia ci' C Kp o o' x) (hC : ¬ C)
    (hC' : C')
    {bI eI : Int} (hb : alistGet? o.slots "begin" = some (.int bI)) (he : alistGet? o.slots "end" = some (.int eI)) :
    ObjOk K ts cass H na ia ci' C' Kp o
      { o' with slots := alistSet (alistSet o'.slots "begin" (.int bI)) "end" (.int eI) } x := by
  obtain ⟨h1, h2, h3, h4⟩ := h
  have hsb : "begin" ∈ o'.slots.map (·.1) := by
    rw [h3, ← aget_isSome_iff, hb]; rfl
  have hse : "end" ∈ o'.slots.map (·.1) := by
    rw [h3, ← aget_isSome_iff, he]; rfl
  have k1 : (alistSet o'.slots "begin" (Val.int bI)).map (·.1) = o'.slots.map (·.1) := aset_keys _ _ _ hsb
  refine ⟨h1, h2, ?_, fun n v hv => ?_⟩
  · show (alistSet (alistSet o'.slots "begin" _) "end" _).map (·.1) = _
    rw [aset_keys _ _ _ (k1 ▸ hse), k1]; exact h3
  · obtain ⟨w, hw, hso⟩ := h4 n v hv
    show ∃ w, alistGet? (alistSet (alistSet o'.slots "begin" _) "end" _) n = some w ∧ _
    rw [aget_set, aget_set]
    by_cases hne : n = "end"
    · rw [if_pos hne]
      refine ⟨_, rfl, ?_⟩
      subst hne
      rw [he] at hv; cases hv
      unfold SlotOk
      rw [if_neg (by decide)]
      exact ⟨fun _ => rfl, fun c => (c hC').elim⟩
    · rw [if_neg hne]
      by_cases hnb : n = "begin"
      · rw [if_pos hnb]
        refine ⟨_, rfl, ?_⟩
        subst hnb
        rw [hb] at hv; cases hv
        unfold SlotOk
        rw [if_neg (by decide)]
        exact ⟨fun _ => rfl, fun c => (c hC').elim⟩
      · rw [if_neg hnb]
        refine ⟨w, hw, ?_⟩
        unfold SlotOk at hso ⊢
        by_cases hns : n = "sofa"
        · rw [if_pos hns] at hso ⊢; exact hso
        · rw [if_neg hns] at hso ⊢
          refine ⟨fun _ => ?_, fun c => (c hC').elim⟩
          rw [hso.2 hC]
          apply E2c_eq_E3c
          have e1 : (n == "begin") = false := by simpa using hnb
          have e2 : (n == "end") = false := by simpa using hne
          rw [e1, e2]; simp

end

/-! ### the heap invariant -/

section
variable (K : Consts) (ts : TypeSystem) (cass : List Cas) (H : Heap) (L : List (Int × Nat)) (na : Int → Nat)
  (ia : Int → String → Nat) (ci' : Nat)

def HInv (Cp Kp : Int → Prop) (hp : Heap) : Prop :=
  ∀ q ∈ L, ∃ (o o' : Obj), H[q.2]? = some o ∧ hp[na q.1]? = some o' ∧
    ObjOk K ts cass H na ia ci' (Cp q.1) (Kp q.1) o o' q.1

variable {K ts cass H L na ia ci'}

theorem HInv.mono {Cp Kp Cp' Kp' : Int → Prop} {hp : Heap} (h : HInv K ts cass H L na ia ci' Cp Kp hp)
    (hC : ∀ q ∈ L, (Cp q.1 ↔ Cp' q.1)) (hK : ∀ q ∈ L, Kp q.1 → Kp' q.1) : HInv K ts cass H L na ia ci' Cp' Kp' hp := by
  intro q hq
  obtain ⟨o, o', ho, ho', hr⟩ := h q hq
  exact ⟨o, o', ho, ho', hr.mono (hC q hq) (hK q hq)⟩

/-- one object is replaced -/
theorem HInv.step (hna : NaOk H.length L na) (hnd : (L.map (·.1)).Nodup) {Cp Kp Cp' Kp' : Int → Prop} {hp : Heap}
    (h : HInv K ts cass H L na ia ci' Cp Kp hp) {m : Int} {am : Nat} (hm : (m, am) ∈ L) {o o' o1 : Obj}
    (ho : H[am]? = some o) (ho' : hp[na m]? = some o')
    (h1 : ObjOk K ts cass H na ia ci' (Cp' m) (Kp' m) o o1 m)
    (hC : ∀ q ∈ L, q.1 ≠ m → (Cp q.1 ↔ Cp' q.1)) (hK : ∀ q ∈ L, q.1 ≠ m → Kp q.1 → Kp' q.1) :
    HInv K ts cass H L na ia ci' Cp' Kp' (hp.set (na m) o1) := by
  intro q hq
  by_cases hqm : q.1 = m
  · obtain ⟨x, a⟩ := q
    simp only at hqm
    subst hqm
    have : a = am := addr_unique hnd hq hm
    subst this
    exact ⟨o, o1, ho, set_get_self ho', h1⟩
  · obtain ⟨p, p', hp1, hp2, hr⟩ := h q hq
    have hne : na m ≠ na q.1 := fun e => hqm (hna.inj q hq (m, am) hm e.symm)
    refine ⟨p, p', hp1, ?_, hr.mono (hC q hq hqm) (hK q hq hqm)⟩
    rw [set_get_ne hne]; exact hp2

end

end Cassis.Xmi.RTCB
