/-
Round trip with collections, layer G1, reader: association-list lemmas, grouping of the child elements,
the merged keyword arguments, feature lookup by name.
-/
import CassisModel.Proofs.RoundTripCollElemGenDefs
import CassisModel.Proofs.Features

namespace Cassis.Xmi.CG1
open Cassis.TS Cassis.Traverse Cassis.Lex

/-! ### association lists -/

theorem alistSet_absent {β} (acc : List (String × β)) (n : String) (v : β) (h : n ∉ acc.map (·.1)) :
    alistSet acc n v = acc ++ [(n, v)] := by
  induction acc with
  | nil => rfl
  | cons p rest ih =>
    obtain ⟨k', v'⟩ := p
    rw [List.map_cons, List.mem_cons, not_or] at h
    unfold alistSet
    rw [if_neg (fun e => h.1 e.symm), ih h.2]
    rfl

theorem alistSet_snoc_last {β} (acc : List (String × β)) (n : String) (v0 v : β) (h : n ∉ acc.map (·.1)) :
    alistSet (acc ++ [(n, v0)]) n v = acc ++ [(n, v)] := by
  induction acc with
  | nil => simp [alistSet]
  | cons p rest ih =>
    obtain ⟨k', v'⟩ := p
    rw [List.map_cons, List.mem_cons, not_or] at h
    rw [List.cons_append]
    unfold alistSet
    rw [if_neg (fun e => h.1 e.symm), ih h.2]
    rfl

theorem alistGet?_append_of_some {β} (l1 l2 : List (String × β)) (k : String) (v : β)
    (h : alistGet? l1 k = some v) : alistGet? (l1 ++ l2) k = some v := by
  induction l1 with
  | nil => cases h
  | cons p rest ih =>
    obtain ⟨k', v'⟩ := p
    by_cases hk : k' = k
    · subst hk; rw [alistGet?_cons_self] at h; rw [List.cons_append, alistGet?_cons_self]; exact h
    · rw [alistGet?_cons_ne _ _ _ _ hk] at h
      rw [List.cons_append, alistGet?_cons_ne _ _ _ _ hk, ih h]

theorem alistSet_append_of_some {β} (l1 l2 : List (String × β)) (k : String) (v0 v : β)
    (h : alistGet? l1 k = some v0) : alistSet (l1 ++ l2) k v = alistSet l1 k v ++ l2 := by
  induction l1 with
  | nil => cases h
  | cons p rest ih =>
    obtain ⟨k', v'⟩ := p
    by_cases hk : k' = k
    · subst hk
      rw [List.cons_append]
      unfold alistSet
      rw [if_pos rfl, if_pos rfl]; rfl
    · rw [alistGet?_cons_ne _ _ _ _ hk] at h
      rw [List.cons_append]
      unfold alistSet
      rw [if_neg hk, if_neg hk, ih h]; rfl

theorem alistGet?_getD_append {β} (l1 l2 : List (String × β)) (k : String) (d : β) (h : k ∉ l2.map (·.1)) :
    (alistGet? (l1 ++ l2) k).getD d = (alistGet? l1 k).getD d := by
  cases h1 : alistGet? l1 k with
  | none => rw [alistGet?_append_of_none _ _ _ h1, Cassis.Index.alistGet?_none_of_not_mem _ _ h]
  | some v => rw [alistGet?_append_of_some _ _ _ _ h1]

theorem alistGet?_append_not_key {β} (l1 l2 : List (String × β)) (k : String) (h : k ∉ l2.map (·.1)) :
    alistGet? (l1 ++ l2) k = alistGet? l1 k := by
  cases h1 : alistGet? l1 k with
  | none => rw [alistGet?_append_of_none _ _ _ h1, Cassis.Index.alistGet?_none_of_not_mem _ _ h]
  | some v => rw [alistGet?_append_of_some _ _ _ _ h1]

/-! ### grouping the child elements -/

theorem groupKids_run (n : String) (rest : List (String × Option String)) :
    ∀ (l : List (Option String)) (acc : List (String × List (Option String))) (l0 : List (Option String)),
      n ∉ acc.map (·.1) →
      groupKids (l.map (fun e => (n, e)) ++ rest) (acc ++ [(n, l0)]) = groupKids rest (acc ++ [(n, l0 ++ l)])
  | [], acc, l0, _ => by rw [List.map_nil, List.nil_append, List.append_nil]
  | e :: l, acc, l0, h => by
    rw [List.map_cons, List.cons_append, groupKids,
      alistGet?_append_of_none _ _ _ (Cassis.Index.alistGet?_none_of_not_mem _ _ h), alistGet?_cons_self,
      Option.getD_some, alistSet_snoc_last _ _ _ _ h, groupKids_run n rest l acc (l0 ++ [e]) h,
      List.append_assoc, List.singleton_append]

theorem groupKids_first (n : String) (rest : List (String × Option String)) (l : List (Option String))
    (acc : List (String × List (Option String))) (hl : l ≠ []) (h : n ∉ acc.map (·.1)) :
    groupKids (l.map (fun e => (n, e)) ++ rest) acc = groupKids rest (acc ++ [(n, l)]) := by
  cases l with
  | nil => exact absurd rfl hl
  | cons e l =>
    rw [List.map_cons, List.cons_append, groupKids, Cassis.Index.alistGet?_none_of_not_mem _ _ h,
      Option.getD_none, List.nil_append, alistSet_absent _ _ _ h, groupKids_run n rest l acc [e] h,
      List.singleton_append]

/-- the features with child elements -/
def gF (ck : Feature → List (Option String)) (fs : List Feature) : List Feature :=
  fs.filter (fun f => !(ck f).isEmpty)

theorem mem_gF {ck : Feature → List (Option String)} {fs : List Feature} {f : Feature} :
    f ∈ gF ck fs ↔ f ∈ fs ∧ ck f ≠ [] := by
  unfold gF
  rw [List.mem_filter]
  cases ck f <;> simp

/-- the groups -/
def gG0 (ck : Feature → List (Option String)) (fs : List Feature) : List (String × List (Option String)) :=
  (gF ck fs).map (fun f => (f.name, ck f))

theorem gF_cons_nil (ck : Feature → List (Option String)) (f : Feature) (fs : List Feature) (h : ck f = []) :
    gF ck (f :: fs) = gF ck fs := by
  unfold gF; rw [List.filter_cons_of_neg]; rw [h]; simp

theorem gF_cons_ne (ck : Feature → List (Option String)) (f : Feature) (fs : List Feature) (h : ck f ≠ []) :
    gF ck (f :: fs) = f :: gF ck fs := by
  unfold gF; rw [List.filter_cons_of_pos]
  cases hc : ck f with
  | nil => exact absurd hc h
  | cons _ _ => rfl

theorem groupKids_gKids (ck : Feature → List (Option String)) :
    ∀ (fs : List Feature) (acc : List (String × List (Option String))), (fs.map (·.name)).Nodup →
      (∀ f ∈ fs, f.name ∉ acc.map (·.1)) → groupKids (gKids ck fs) acc = acc ++ gG0 ck fs
  | [], acc, _, _ => by simp [gKids, groupKids, gG0, gF]
  | f :: fs, acc, hn, hd => by
    rw [List.map_cons, List.nodup_cons] at hn
    unfold gKids gG0
    by_cases hc : ck f = []
    · rw [gF_cons_nil ck f fs hc, hc, List.map_nil, List.nil_append]
      exact groupKids_gKids ck fs acc hn.2 (fun g hg => hd g (List.mem_cons_of_mem _ hg))
    · rw [gF_cons_ne ck f fs hc, groupKids_first _ _ _ _ hc (hd f List.mem_cons_self),
        groupKids_gKids ck fs _ hn.2, List.map_cons, List.append_assoc, List.singleton_append]
      · rfl
      · intro g hg hm
        rw [List.map_append, List.mem_append] at hm
        rcases hm with hm | hm
        · exact hd g (List.mem_cons_of_mem _ hg) hm
        · simp only [List.map_cons, List.map_nil, List.mem_singleton] at hm
          exact hn.1 (hm ▸ List.mem_map_of_mem hg)

/-! ### the merged keyword arguments -/

theorem merge_groups : ∀ (G : List (String × List (Option String))) (raw : List (String × Val)),
    (G.map (·.1)).Nodup → (∀ p ∈ G, p.1 ∉ raw.map (·.1)) →
    G.foldl (fun acc p => alistSet acc p.1 (Val.strs p.2)) raw = raw ++ G.map (fun p => (p.1, Val.strs p.2))
  | [], raw, _, _ => by simp
  | p :: G, raw, hn, hd => by
    rw [List.map_cons, List.nodup_cons] at hn
    rw [List.foldl_cons, alistSet_absent _ _ _ (hd p List.mem_cons_self), merge_groups G _ hn.2, List.map_cons,
      List.append_assoc, List.singleton_append]
    intro q hq hm
    rw [List.map_append, List.mem_append] at hm
    rcases hm with hm | hm
    · exact hd q (List.mem_cons_of_mem _ hq) hm
    · simp only [List.map_cons, List.map_nil, List.mem_singleton] at hm
      exact hn.1 (hm ▸ List.mem_map_of_mem hq)

/-! ### the attributes -/

theorem gAttrs_mem (ca : Feature → Option String) : ∀ (fs : List Feature) (p : String × String),
    p ∈ gAttrs ca fs → ∃ f ∈ fs, p.1 = f.name ∧ ca f = some p.2
  | [], p, h => by cases h
  | f :: fs, p, h => by
    unfold gAttrs at h
    rw [List.mem_append] at h
    rcases h with h | h
    · refine ⟨f, List.mem_cons_self, ?_⟩
      split at h
      · rename_i s hs; rw [List.mem_singleton] at h; rw [h]; exact ⟨rfl, hs⟩
      · cases h
    · obtain ⟨g, hg, hp⟩ := gAttrs_mem ca fs p h
      exact ⟨g, List.mem_cons_of_mem _ hg, hp⟩

theorem gAttrs_get_not_mem (ca : Feature → Option String) (fs : List Feature) (n : String)
    (h : n ∉ fs.map (·.name)) : alistGet? (gAttrs ca fs) n = none := by
  apply Cassis.Index.alistGet?_none_of_not_mem
  intro hm
  obtain ⟨p, hp, hpn⟩ := List.mem_map.mp hm
  obtain ⟨f, hf, hfe, _⟩ := gAttrs_mem ca fs p hp
  apply h
  rw [← hpn, hfe]
  exact List.mem_map_of_mem hf

theorem gAttrs_get (ca : Feature → Option String) : ∀ (fs : List Feature), (fs.map (·.name)).Nodup → ∀ f ∈ fs,
    alistGet? (gAttrs ca fs) f.name = ca f
  | [], _, f, hf => by cases hf
  | g :: fs, hn, f, hf => by
    rw [List.map_cons, List.nodup_cons] at hn
    unfold gAttrs
    by_cases hfg : g.name = f.name
    · have hfe : alistGet? (gAttrs ca fs) f.name = none :=
        gAttrs_get_not_mem ca fs f.name (by rw [← hfg]; exact hn.1)
      have hgf : g = f := by
        rcases List.mem_cons.mp hf with h | h
        · exact h.symm
        · exact absurd (hfg ▸ List.mem_map_of_mem h) hn.1
      subst hgf
      cases ht : ca g with
      | none => exact hfe
      | some s => exact alistGet?_cons_self _ _ _
    · have hf' : f ∈ fs := by
        rcases List.mem_cons.mp hf with h | h
        · exact absurd (by rw [h]) hfg
        · exact h
      rw [alistGet?_append_of_none _ _ _ ?_, gAttrs_get ca fs hn.2 f hf']
      split
      · rw [alistGet?_cons_ne _ _ _ _ hfg]; rfl
      · rfl

/-! ### feature lookup by name -/

theorem getFeature_eq_find (t : TypeRec) (n : String) :
    getFeature t n = (t.own ++ t.inh).find? (·.name == n) := by
  unfold getFeature
  rw [List.find?_append]
  cases t.own.find? (·.name == n) <;> rfl

theorem dedup_first (n : String) : ∀ (l seen : List Feature) (g : Feature),
    l.find? (·.name == n) = some g → (∀ s ∈ seen, s.name ≠ n) → g ∈ dedupFeatures l seen
  | [], _, _, h, _ => by cases h
  | f :: fs, seen, g, h, hs => by
    unfold dedupFeatures
    by_cases hf : f.name = n
    · rw [List.find?_cons_of_pos (by simpa using hf)] at h
      cases h
      rw [if_neg]
      · exact List.mem_cons_self
      · intro ha
        obtain ⟨s, hs1, hs2⟩ := List.any_eq_true.mp ha
        exact hs s hs1 ((featureEq_name hs2).trans hf)
    · rw [List.find?_cons_of_neg (by simpa using hf)] at h
      split
      · exact dedup_first n fs seen g h hs
      · refine List.mem_cons_of_mem _ (dedup_first n fs _ g h ?_)
        intro s hs'
        rcases List.mem_append.mp hs' with h1 | h1
        · exact hs s h1
        · rw [List.mem_singleton] at h1; rw [h1]; exact hf

theorem getFeature_of_mem (t : TypeRec) (hn : (ctorFields t).Nodup) (f : Feature) (hf : f ∈ allFeatures t) :
    getFeature t f.name = some f := by
  rw [getFeature_eq_find]
  cases h : (t.own ++ t.inh).find? (·.name == f.name) with
  | none => exact absurd (mem_fnames_of_mem (allFeatures_sub hf)) (find_name_none.mp h)
  | some g =>
    have hg : g ∈ allFeatures t := dedup_first f.name _ [] g h (fun s hs => by cases hs)
    rw [feat_inj_of_nodup (allFeatures t) hn g hg f hf (find_name_some h).2]

end Cassis.Xmi.CG1
