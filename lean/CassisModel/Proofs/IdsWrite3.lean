/-
C09, document level (3): the XMI writer.  Decomposition of a successful `saveXmi`, the id list of the document,
the duplicate corollary, distinctness of all ids, kept ids.
-/
import CassisModel.Proofs.IdsWrite2
import CassisModel.Proofs.Xmi

namespace Cassis.Traverse
open Cassis.TS

/-- ids of collected structures are kept ids of the initial heap or not below the initial generator -/
theorem findAllFs_id_origin (K : Consts) (ts : TypeSystem) (o : Opts) (hp : Heap) (nx : Int) (seeds : List Nat)
    (st : St) (hnx : 0 < nx) (h : findAllFs K ts o hp nx seeds = .ok st) (x : Int) (a : Nat) (hm : (x, a) ∈ st.allFs) :
    Reach K ts o hp (hp.length + 1) seeds a ∧ x ≠ 0 ∧ xidOf st.heap a = some x ∧
      (xidOf hp a = some x ∨ (xidOf hp a = none ∧ nx ≤ x)) := by
  have fut := findAllFs_fut K ts o hp nx seeds st h
  obtain ⟨hid, hx0⟩ := findAllFs_ids_aux K ts o hp nx seeds st hnx h x a hm
  have hr := findAllFs_sound_aux K ts o hp nx seeds st hnx h a (List.mem_map.mpr ⟨(x, a), hm, rfl⟩)
  refine ⟨Reach.back fut.shape hr, hx0, hid, ?_⟩
  cases h0 : xidOf hp a with
  | some y =>
    have := fut.shape.xidOf h0
    rw [hid] at this
    cases this
    exact Or.inl rfl
  | none => exact Or.inr ⟨rfl, fut.fresh a x h0 hid⟩

end Cassis.Traverse

namespace Cassis.Xmi
open Cassis.TS Cassis.Lex

theorem saveXmi_ok_inv (K : Consts) (ts : TypeSystem) (cass : List Cas) (ci : Nat) (hp : Heap) (doc : XDoc)
    (st : Traverse.St) (h : saveXmi K ts cass ci hp = .ok (doc, st)) :
    ∃ (c : Cas) (fsElems : List XElem), cass[ci]? = some c ∧
      Traverse.findAllFs K ts {} hp c.nextXid (Traverse.defaultSeeds c) = .ok st ∧
      renderAll K ts cass st.heap (sortById st.allFs) = .ok fsElems ∧
      doc = [{ ty := NULL_T, attrs := [(ID, "0")] }] ++ fsElems ++ sofaElems c ++
            c.views.map (fun p => renderView st.heap p.2) := by
  unfold saveXmi at h
  cases hc : cass[ci]? with
  | none => rw [hc] at h; cases h
  | some c =>
    rw [hc] at h
    simp only [bind, Except.bind, pure, Except.pure] at h
    cases hst : Traverse.findAllFs K ts {} hp c.nextXid (Traverse.defaultSeeds c) with
    | error err => rw [hst] at h; cases h
    | ok st' =>
      rw [hst] at h
      simp only at h
      cases hr : renderAll K ts cass st'.heap (sortById st'.allFs) with
      | error err => rw [hr] at h; cases h
      | ok fsElems =>
        rw [hr] at h
        simp only at h
        cases h
        exact ⟨c, fsElems, rfl, hst, hr, rfl⟩

theorem saveXmi_error_of (K : Consts) (ts : TypeSystem) (cass : List Cas) (ci : Nat) (hp : Heap) (c : Cas) (e : Err)
    (hc : cass[ci]? = some c)
    (h : Traverse.findAllFs K ts {} hp c.nextXid (Traverse.defaultSeeds c) = .error e) :
    saveXmi K ts cass ci hp = .error e := by
  unfold saveXmi
  rw [hc]
  simp only [bind, Except.bind, pure, Except.pure, h]

theorem saveXmi_duplicate_not_ok_aux (K : Consts) (ts : TypeSystem) (cass : List Cas) (ci : Nat) (hp : Heap) (c : Cas)
    (hc : cass[ci]? = some c) (hnx : 0 < c.nextXid)
    (hd : Traverse.ReachableDuplicate K ts {} hp (Traverse.defaultSeeds c)) (doc : XDoc) (st : Traverse.St) :
    saveXmi K ts cass ci hp ≠ .ok (doc, st) := by
  intro h
  obtain ⟨c', _, hc', hst, _, _⟩ := saveXmi_ok_inv K ts cass ci hp doc st h
  rw [hc] at hc'
  cases hc'
  exact Traverse.findAllFs_duplicate_not_ok_aux K ts {} hp c.nextXid _ hnx hd st hst

theorem saveXmi_duplicate_raises_aux (K : Consts) (ts : TypeSystem) (cass : List Cas) (ci : Nat) (hp : Heap) (c : Cas)
    (hc : cass[ci]? = some c) (hnx : 0 < c.nextXid)
    (hd : Traverse.ReachableDuplicate K ts {} hp (Traverse.defaultSeeds c))
    (hsafe : ∀ a, Traverse.Reach K ts {} hp (hp.length + 1) (Traverse.defaultSeeds c) a →
      Traverse.Expandable K ts {} hp (hp.length + 1) a) :
    saveXmi K ts cass ci hp = .error .valueError :=
  saveXmi_error_of K ts cass ci hp c _ hc
    (Traverse.findAllFs_duplicate_raises_aux K ts {} hp c.nextXid _ hnx hd hsafe)

/-! ### the id list of the document -/

theorem filterMap_of_map_some {α β} (f : α → Option β) (l : List α) (m : List β) (h : l.map f = m.map some) :
    l.filterMap f = m := by
  induction l generalizing m with
  | nil =>
    cases m with
    | nil => rfl
    | cons _ _ => cases h
  | cons a l ih =>
    cases m with
    | nil => cases h
    | cons b m =>
      simp only [List.map_cons, List.cons.injEq] at h
      rw [List.filterMap_cons, h.1, ih m h.2]

theorem attr_renderSofa_id (s : Sofa) : attr (renderSofa s) ID = some (showInt s.xid) := by
  simp only [attr, renderSofa, List.cons_append, alistGet?, if_true]

theorem attr_renderView_id (hp : Heap) (v : View) : attr (renderView hp v) ID = none := by
  simp only [attr, renderView, alistGet?]
  rw [if_neg (by decide), if_neg (by decide)]

theorem docIds_sofaElems (c : Cas) : docIds (sofaElems c) = (Cas.sofaIds c).map showInt := by
  unfold docIds sofaElems Cas.sofaIds
  apply filterMap_of_map_some
  simp only [List.map_map]
  apply List.map_congr_left
  intro p _
  exact attr_renderSofa_id _

theorem docIds_views (hp : Heap) (c : Cas) : docIds (c.views.map (fun p => renderView hp p.2)) = [] := by
  unfold docIds
  rw [List.filterMap_eq_nil_iff]
  intro e he
  obtain ⟨p, _, rfl⟩ := List.mem_map.mp he
  exact attr_renderView_id _ _

theorem showInt_zero : showInt 0 = "0" := by decide

/-- **the ids of the written document**: `0` (the NULL element), the ids of the collected structures in
    ascending order, the ids of the sofas -/
theorem saveXmi_docIds_aux (K : Consts) (ts : TypeSystem) (cass : List Cas) (ci : Nat) (hp : Heap) (c : Cas)
    (doc : XDoc) (st : Traverse.St) (hc : cass[ci]? = some c) (h : saveXmi K ts cass ci hp = .ok (doc, st)) :
    docIds doc = ((0 : Int) :: (sortById st.allFs).map (·.1) ++ Cas.sofaIds c).map showInt := by
  obtain ⟨c', fsElems, hc', hst, hr, rfl⟩ := saveXmi_ok_inv K ts cass ci hp doc st h
  rw [hc] at hc'
  cases hc'
  obtain ⟨inv, _⟩ := Traverse.findAllFs_inv K ts {} hp c.nextXid (Traverse.defaultSeeds c) st hst
  have hperm := sortById_perm_aux st.allFs
  have hids : fsElems.map (fun e => attr e ID) = ((sortById st.allFs).map (fun p => showInt p.1)).map some := by
    rw [List.map_map]
    apply renderAll_ids K ts cass st.heap _ _ hr
    intro p hp'
    exact inv.link p.1 p.2 (hperm.mem_iff.mp hp')
  have h1 : docIds fsElems = (sortById st.allFs).map (fun p => showInt p.1) := filterMap_of_map_some _ _ _ hids
  have h0 : docIds [({ ty := NULL_T, attrs := [(ID, "0")] } : XElem)] = ["0"] := by
    simp only [docIds, List.filterMap_cons, List.filterMap_nil, attr, alistGet?, if_true]
  have happ : ∀ l1 l2 : XDoc, docIds (l1 ++ l2) = docIds l1 ++ docIds l2 := fun l1 l2 => List.filterMap_append
  rw [happ, happ, happ, h0, h1, docIds_sofaElems, docIds_views, List.append_nil]
  simp only [List.map_cons, List.map_append, List.map_map, showInt_zero, List.cons_append, List.nil_append]
  rfl

theorem nodup_map_showInt (l : List Int) : (l.map showInt).Nodup ↔ l.Nodup := by
  constructor
  · intro h
    unfold List.Nodup at h
    rw [List.pairwise_map] at h
    exact h.imp (fun hne he => hne (by rw [he]))
  · intro h
    exact List.Pairwise.map showInt (fun _ _ hne he => hne (showInt_injective he)) h

theorem saveXmi_ids_distinct_iff_aux (K : Consts) (ts : TypeSystem) (cass : List Cas) (ci : Nat) (hp : Heap) (c : Cas)
    (doc : XDoc) (st : Traverse.St) (hc : cass[ci]? = some c) (h : saveXmi K ts cass ci hp = .ok (doc, st)) :
    (docIds doc).Nodup ↔ ((0 : Int) :: st.allFs.map (·.1) ++ Cas.sofaIds c).Nodup := by
  rw [saveXmi_docIds_aux K ts cass ci hp c doc st hc h, nodup_map_showInt]
  have hperm : ((0 : Int) :: (sortById st.allFs).map (·.1) ++ Cas.sofaIds c).Perm
      ((0 : Int) :: st.allFs.map (·.1) ++ Cas.sofaIds c) :=
    (((sortById_perm_aux st.allFs).map (·.1)).cons 0).append_right _
  exact hperm.nodup_iff

/-- exact condition in terms of the collected list: given a positive generator, the ids of the document are
    pairwise distinct iff the sofa ids are distinct, none is 0 and no collected structure sits on a sofa's id -/
theorem saveXmi_ids_distinct_iff'_aux (K : Consts) (ts : TypeSystem) (cass : List Cas) (ci : Nat) (hp : Heap) (c : Cas)
    (doc : XDoc) (st : Traverse.St) (hc : cass[ci]? = some c) (hnx : 0 < c.nextXid)
    (h : saveXmi K ts cass ci hp = .ok (doc, st)) :
    (docIds doc).Nodup ↔
      ((Cas.sofaIds c).Nodup ∧ (0 : Int) ∉ Cas.sofaIds c ∧ ∀ p ∈ st.allFs, p.1 ∉ Cas.sofaIds c) := by
  rw [saveXmi_ids_distinct_iff_aux K ts cass ci hp c doc st hc h]
  obtain ⟨c', _, hc', hst, _, _⟩ := saveXmi_ok_inv K ts cass ci hp doc st h
  rw [hc] at hc'
  cases hc'
  obtain ⟨inv, _⟩ := Traverse.findAllFs_inv K ts {} hp c.nextXid (Traverse.defaultSeeds c) st hst
  have h0 : (0 : Int) ∉ st.allFs.map (·.1) := by
    intro hm
    obtain ⟨p, hp', e⟩ := List.mem_map.mp hm
    exact (Traverse.findAllFs_ids_aux K ts {} hp c.nextXid _ st hnx hst p.1 p.2 hp').2 e
  rw [List.cons_append, List.nodup_cons, List.nodup_append, List.mem_append]
  constructor
  · rintro ⟨hn0, _, hs, hdis⟩
    refine ⟨hs, fun hm => hn0 (Or.inr hm), ?_⟩
    intro p hp' hm
    exact hdis p.1 (List.mem_map.mpr ⟨p, hp', rfl⟩) p.1 hm rfl
  · rintro ⟨hs, hs0, hdis⟩
    refine ⟨fun hm => hm.elim h0 hs0, inv.nodupK, hs, ?_⟩
    intro x hx y hy e
    obtain ⟨p, hp', rfl⟩ := List.mem_map.mp hx
    exact hdis p hp' (by rw [e]; exact hy)

/-- input-level sufficient condition -/
theorem saveXmi_ids_distinct_aux (K : Consts) (ts : TypeSystem) (cass : List Cas) (ci : Nat) (hp : Heap) (c : Cas)
    (doc : XDoc) (st : Traverse.St) (hc : cass[ci]? = some c) (hnx : 0 < c.nextXid)
    (hs : (Cas.sofaIds c).Nodup) (hs0 : ∀ x ∈ Cas.sofaIds c, 0 < x ∧ x < c.nextXid)
    (hfs : ∀ a x, Traverse.Reach K ts {} hp (hp.length + 1) (Traverse.defaultSeeds c) a →
      Traverse.xidOf hp a = some x → x ∉ Cas.sofaIds c)
    (h : saveXmi K ts cass ci hp = .ok (doc, st)) : (docIds doc).Nodup := by
  rw [saveXmi_ids_distinct_iff'_aux K ts cass ci hp c doc st hc hnx h]
  obtain ⟨c', _, hc', hst, _, _⟩ := saveXmi_ok_inv K ts cass ci hp doc st h
  rw [hc] at hc'
  cases hc'
  refine ⟨hs, fun hm => by have := (hs0 0 hm).1; omega, ?_⟩
  intro p hp' hm
  obtain ⟨hr, _, _, hor⟩ := Traverse.findAllFs_id_origin K ts {} hp c.nextXid _ st hnx hst p.1 p.2 hp'
  rcases hor with hk | ⟨_, hge⟩
  · exact hfs p.2 p.1 hr hk hm
  · have := (hs0 p.1 hm).2
    omega

/-! ### kept ids -/

theorem renderAll_mem (K : Consts) (ts : TypeSystem) (cass : List Cas) (hp : Heap) (l : List (Int × Nat))
    (es : List XElem) (h : renderAll K ts cass hp l = .ok es) (p : Int × Nat) (hp' : p ∈ l) :
    ∃ e ∈ es, renderFs K ts cass hp p.2 = .ok e := by
  induction l generalizing es with
  | nil => cases hp'
  | cons q qs ih =>
    unfold renderAll at h
    cases h1 : renderFs K ts cass hp q.2 with
    | error err => rw [h1] at h; cases h
    | ok e =>
      cases h2 : renderAll K ts cass hp qs with
      | error err => rw [h1, h2] at h; cases h
      | ok es' =>
        rw [h1, h2] at h
        cases h
        rcases List.mem_cons.mp hp' with rfl | hq
        · exact ⟨e, List.mem_cons_self, h1⟩
        · obtain ⟨e', he', hr'⟩ := ih es' h2 hq
          exact ⟨e', List.mem_cons_of_mem _ he', hr'⟩

theorem saveXmi_kept_ids_aux (K : Consts) (ts : TypeSystem) (cass : List Cas) (ci : Nat) (hp : Heap) (c : Cas)
    (doc : XDoc) (st : Traverse.St) (hc : cass[ci]? = some c) (hnx : 0 < c.nextXid)
    (h : saveXmi K ts cass ci hp = .ok (doc, st)) (a : Nat) (x : Int) (hx : x ≠ 0)
    (hr : Traverse.Reach K ts {} hp (hp.length + 1) (Traverse.defaultSeeds c) a)
    (hxa : Traverse.xidOf hp a = some x) :
    Traverse.xidOf st.heap a = some x ∧
    ∃ e ∈ doc, renderFs K ts cass st.heap a = .ok e ∧ attr e ID = some (showInt x) := by
  obtain ⟨c', fsElems, hc', hst, hra, rfl⟩ := saveXmi_ok_inv K ts cass ci hp doc st h
  rw [hc] at hc'
  cases hc'
  obtain ⟨hm, hxa'⟩ := Traverse.findAllFs_kept_collected K ts {} hp c.nextXid _ st hnx hst a x hx hr hxa
  refine ⟨hxa', ?_⟩
  obtain ⟨e, he, hre⟩ := renderAll_mem K ts cass st.heap _ fsElems hra (x, a) ((sortById_perm_aux st.allFs).mem_iff.mpr hm)
  refine ⟨e, ?_, hre, ?_⟩
  · simp only [List.mem_append, List.mem_cons]
    exact Or.inl (Or.inl (Or.inr he))
  · obtain ⟨o, ho, hid⟩ := renderFs_id K ts cass st.heap a e hre
    apply hid
    unfold Traverse.xidOf at hxa'
    rw [ho] at hxa'
    exact hxa'

end Cassis.Xmi
