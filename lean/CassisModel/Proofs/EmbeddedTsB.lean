/-
Helper lemmas for `Properties/C02EmbeddedTs.lean`, part B: two more facts an API history leaves behind (`Hist2`):
the range and element type of every own feature are registered and reserved names have the shape `create_feature`
gives them; a history that declares no feature on DocumentAnnotation leaves its own features as they were.
-/
import CassisModel.Spec.EmbeddedTs
import CassisModel.Proofs.MergeSelf

namespace Cassis.TS

def featOkB (ts : TypeSystem) (f : Feature) : Bool :=
  hasExact ts f.range && f.elem.all (hasExact ts) &&
  (if f.reserved then f.name == "self_" || f.name == "type_" else f.name != "self" && f.name != "type")

/-- the own features of DocumentAnnotation in a fresh type system -/
def docOwn : List Feature :=
  [{ name := "language", domain := DOCUMENT_ANNOTATION, range := "uima.cas.String" }]

structure Hist2 (ts : TypeSystem) : Prop where
  ownOk : ∀ x t, find? ts x = some t → ∀ f ∈ t.own, featOkB ts f = true
  doc : ∀ t, find? ts DOCUMENT_ANNOTATION = some t → t.own = docOwn

theorem featOkB_mono {a b : TypeSystem} (h : RegLe a b) (f : Feature) (hf : featOkB a f = true) :
    featOkB b f = true := by
  unfold featOkB at hf ⊢
  simp only [Bool.and_eq_true] at hf ⊢
  obtain ⟨⟨h1, h2⟩, h3⟩ := hf
  refine ⟨⟨h _ h1, ?_⟩, h3⟩
  cases he : f.elem with
  | none => rfl
  | some e =>
    rw [he] at h2
    simp only [Option.all_some] at h2 ⊢
    exact h _ h2

theorem hist2_builtin : Hist2 Gen.builtinTS := by
  constructor
  · have h : Gen.builtinTS.types.all (fun t => t.own.all (featOkB Gen.builtinTS)) = true := by decide +kernel
    intro x t hx f hf
    exact List.all_eq_true.mp (List.all_eq_true.mp h t (find?_mem hx)) f hf
  · have h : (find? Gen.builtinTS DOCUMENT_ANNOTATION).map (·.own) = some docOwn := by decide +kernel
    intro t ht
    rw [ht] at h
    simpa using h

/-! ### What one API call does to the own features -/

theorem createType_own (K : Consts) (ts ts' : TypeSystem) (n s : String) (d : Option String)
    (hc : Consistent ts) (hf : FeatInv ts) (hnew : hasExact ts n = false)
    (h : createType K ts n s d = .ok ts') :
    ∀ x t', find? ts' x = some t' →
      (x = n ∧ t'.own = []) ∨ (∃ t, find? ts x = some t ∧ t'.own = t.own) := by
  obtain ⟨sup, _, _, rfl⟩ := createType_shape K ts ts' n s d hc hf hnew h
  intro x t' hx
  rw [find_create ts ts.redeclared n sup.name
    { name := n, super := some sup.name, descr := d, inh := allFeatures sup } rfl hnew] at hx
  by_cases hxn : x = n
  · simp only [hxn, if_true, Option.some.injEq] at hx
    subst hx
    exact Or.inl ⟨hxn, rfl⟩
  · simp only [hxn, if_false] at hx
    cases hfx : find? ts x with
    | none => rw [hfx] at hx; cases hx
    | some t0 =>
      rw [hfx] at hx
      simp only [Option.map_some, Option.some.injEq] at hx
      subst hx
      exact Or.inr ⟨t0, rfl, upd_own _ _ _⟩

theorem addFeature_own (ts ts' : TypeSystem) (dom : String) (f : Feature)
    (hc : Consistent ts) (hf : FeatInv ts) (h : addFeature ts dom f = .ok ts') :
    ∀ x t', find? ts' x = some t' →
      ∃ t, find? ts x = some t ∧ (t'.own = t.own ∨ (x = dom ∧ t'.own = t.own ++ [f])) := by
  obtain ⟨t, ht, ⟨_, rfl⟩ | ⟨_, _, hpush⟩⟩ := addFeature_cases h
  · intro x t' hx
    exact ⟨t', hx, Or.inl rfl⟩
  · have hT := addFeature_target hc hf ht hpush
    intro x t' hx'
    have hreg : hasExact ts x = true := by
      rw [← hasExact_transfer hT.skel x]
      exact (hasExact_iff_find _ _).mpr ⟨t', hx'⟩
    obtain ⟨t0, hx⟩ := (hasExact_iff_find _ _).mp hreg
    refine ⟨t0, hx, ?_⟩
    rcases hT.cases hx hx' with ⟨hxd, rfl⟩ | ⟨_, _, _, rfl⟩ | ⟨_, rfl, _⟩
    · exact Or.inr ⟨hxd, rfl⟩
    · exact Or.inl rfl
    · exact Or.inl rfl

/-- the feature a successful `create_feature` on a dotted domain adds -/
theorem createFeature_feat (ts ts' : TypeSystem) (dom name range : String) (elem descr : Option String)
    (multi : Option Bool) (hdot : dom.contains '.' = true)
    (h : createFeature ts dom name range elem descr multi = .ok ts') :
    ∃ f, addFeature ts dom f = .ok ts' ∧ featOkB ts f = true := by
  have hres : ∀ (r : String) (e : Option String), hasExact ts r = true → e.all (hasExact ts) = true →
      featOkB ts { name := if (name == "self" || name == "type") = true then name ++ "_" else name,
                   domain := dom, range := r, elem := e, descr := descr, multi := multi,
                   reserved := name == "self" || name == "type" } = true := by
    intro r e hr he
    unfold featOkB
    simp only [hr, he, Bool.and_true, Bool.true_and]
    by_cases h1 : name = "self"
    · subst h1; decide
    · by_cases h2 : name = "type"
      · subst h2; decide
      · have e1 : (name == "self") = false := beq_false_of_ne h1
        have e2 : (name == "type") = false := beq_false_of_ne h2
        simp only [e1, e2, Bool.or_false, Bool.false_eq_true, if_false, bne, Bool.not_false, Bool.and_self]
  unfold createFeature at h
  simp only [bind, Except.bind] at h
  cases hd : getType ts dom with
  | error e => rw [hd] at h; cases h
  | ok d =>
    have hdn : d.name = dom := getType_dotted hdot hd
    rw [hd] at h; simp only at h
    rw [hdn] at h
    cases hr : getType ts range with
    | error e => rw [hr] at h; cases h
    | ok r =>
      rw [hr] at h; simp only at h
      have hrr : hasExact ts r.name = true :=
        (hasExact_iff_mem ts r.name).mpr (List.mem_map.mpr ⟨r, getType_mem hr, rfl⟩)
      cases elem with
      | none =>
        simp only [pure, Except.pure] at h
        exact ⟨_, h, hres r.name none hrr rfl⟩
      | some en =>
        simp only at h
        cases he : getType ts en with
        | error e => rw [he] at h; cases h
        | ok e =>
          rw [he] at h; simp only [pure, Except.pure] at h
          have hee : hasExact ts e.name = true :=
            (hasExact_iff_mem ts e.name).mpr (List.mem_map.mpr ⟨e, getType_mem he, rfl⟩)
          exact ⟨_, h, hres r.name (some e.name) hrr (by simpa using hee)⟩

/-! ### Through a history -/

theorem hist2_createType (ts ts' : TypeSystem) (n s : String) (d : Option String) (h : Hist ts) (h2 : Hist2 ts)
    (hnew : hasExact ts n = false) (hts : createType Gen.consts ts n s d = .ok ts') : Hist2 ts' := by
  have hown := createType_own _ ts ts' n s d h.cons h.feat hnew hts
  have hreg := (createType_reg _ ts ts' n s d hts).1
  constructor
  · intro x t' hx f hf
    rcases hown x t' hx with ⟨_, e⟩ | ⟨t, ht, e⟩
    · rw [e] at hf; cases hf
    · rw [e] at hf
      exact featOkB_mono hreg f (h2.ownOk x t ht f hf)
  · intro t' hx
    rcases hown _ t' hx with ⟨e1, _⟩ | ⟨t, ht, e⟩
    · exfalso
      have : hasExact ts DOCUMENT_ANNOTATION = true := h.grow.reg _ (by decide +kernel)
      rw [e1, hnew] at this; cases this
    · rw [e]; exact h2.doc t ht

theorem hist2_addFeature (ts ts' : TypeSystem) (dom : String) (f : Feature) (h : Hist ts) (h2 : Hist2 ts)
    (hdoc : dom ≠ DOCUMENT_ANNOTATION) (hfok : featOkB ts f = true)
    (hts : addFeature ts dom f = .ok ts') : Hist2 ts' := by
  have hown := addFeature_own ts ts' dom f h.cons h.feat hts
  have hreg : RegLe ts ts' := RegLe.of_names (names_addFeature ts ts' dom f hts)
  constructor
  · intro x t' hx g hg
    obtain ⟨t, ht, e | ⟨_, e⟩⟩ := hown x t' hx
    · rw [e] at hg
      exact featOkB_mono hreg g (h2.ownOk x t ht g hg)
    · rw [e] at hg
      rcases List.mem_append.mp hg with hg | hg
      · exact featOkB_mono hreg g (h2.ownOk x t ht g hg)
      · simp only [List.mem_singleton] at hg; subst hg
        exact featOkB_mono hreg _ hfok
  · intro t' hx
    obtain ⟨t, ht, e | ⟨e1, _⟩⟩ := hown _ t' hx
    · rw [e]; exact h2.doc t ht
    · exact absurd e1.symm hdoc

theorem hist2_history : ∀ (ops : List TsOp) (ts : TypeSystem), Hist ts → Hist2 ts → UserOnly Gen.consts ops →
    (∀ op ∈ ops, match op with
      | .createFeature dom _ _ _ _ _ => dom ≠ DOCUMENT_ANNOTATION
      | .createType _ _ _ => True) →
    Hist2 (ops.foldl (applyOp Gen.consts) ts) := by
  intro ops
  induction ops with
  | nil => intro ts _ h _ _; exact h
  | cons op ops ih =>
    intro ts h h2 hu hnd
    have hstep : Hist (applyOp Gen.consts ts op) := by
      have := hist_history [op] ts h (by
        cases op with
        | createType n s d => trivial
        | createFeature dom nm r e d m => exact ⟨hu.1, hu.2.1, trivial⟩)
      exact this
    have hnd' := fun op' hop' => hnd op' (List.mem_cons_of_mem _ hop')
    have hhead := hnd op List.mem_cons_self
    cases op with
    | createType n s d =>
      apply ih _ hstep _ hu hnd'
      simp only [applyOp]
      cases hn : hasExact ts n with
      | true => simpa using h2
      | false =>
        simp only [Bool.false_eq_true, if_false]
        cases hts : createType Gen.consts ts n s d with
        | error e => exact h2
        | ok ts' => exact hist2_createType ts ts' n s d h h2 hn hts
    | createFeature dom nm r e d m =>
      obtain ⟨_, hdot, hu'⟩ := hu
      apply ih _ hstep _ hu' hnd'
      simp only [applyOp]
      cases hts : createFeature ts dom nm r e d m with
      | error e => exact h2
      | ok ts' =>
        obtain ⟨f, hadd, hfok⟩ := createFeature_feat ts ts' dom nm r e d m hdot hts
        exact hist2_addFeature ts ts' dom f h h2 hhead hfok hadd

end Cassis.TS
