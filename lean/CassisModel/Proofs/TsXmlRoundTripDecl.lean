/-
C12 round trip, layer 6: a descriptor that lists exactly the user types of an API-built type system `ts` as the
writer renders them (descriptions stripped, `Faithful`), possibly with built-in types redeclared as the library
defines them, loads; the loaded type system is a part of `trTs ts`.
-/
import CassisModel.Proofs.TsXmlRoundTripLoad

namespace Cassis.TsXml
open Cassis.TS

/-- what `normalize` does to an entry whose name occurs once -/
def normF (f : FDesc) : FDesc := { f with descr := normDescr f.descr }
def normT (t : TDesc) : TDesc := { t with descr := normDescr t.descr, feats := t.feats.map normF }

@[simp] theorem normT_name (t : TDesc) : (normT t).name = t.name := rfl
@[simp] theorem normT_super (t : TDesc) : (normT t).super = t.super := rfl

/-- the effective descriptor against the type system it was written from -/
structure Faithful (ts : TypeSystem) (E : Descriptor) : Prop where
  user_in : ∀ t ∈ ts.types, Gen.consts.predefined.contains t.name = false → normT (renderType t) ∈ E
  user_of : ∀ e ∈ E, Gen.consts.predefined.contains e.name = false → ∃ t ∈ ts.types, e = normT (renderType t)
  pre_of : ∀ e ∈ E, Gen.consts.predefined.contains e.name = true →
    ∃ pt, find? Gen.builtinTSNoDoc e.name = some pt ∧ pt.super = some e.super ∧ e = renderType pt

/-! ### the writer and the stored name -/

theorem featWFB_spec {f : Feature} (h : featWFB f = true) :
    storedName (renderFeat f).name = f.name ∧ isReservedName (renderFeat f).name = f.reserved := by
  unfold featWFB at h
  unfold renderFeat
  simp only []
  cases hr : f.reserved with
  | false =>
    rw [hr] at h
    simp only [Bool.false_eq_true, if_false, Bool.and_eq_true, bne_iff_ne, ne_eq] at h ⊢
    have : isReservedName f.name = false := by
      unfold isReservedName
      simp [h.1, h.2]
    exact ⟨by unfold storedName; rw [this]; rfl, this⟩
  | true =>
    rw [hr] at h
    simp only [if_true, Bool.or_eq_true, beq_iff_eq] at h ⊢
    rcases h with h | h
    · rw [h]; exact ⟨by decide, by decide⟩
    · rw [h]; exact ⟨by decide, by decide⟩

theorem mkFeat_render {f0 : Feature} (h : featWFB f0 = true) (dom : String) :
    mkFeat dom (normF (renderFeat f0)) =
      { f0 with domain := dom, descr := trD f0.descr } := by
  obtain ⟨h1, h2⟩ := featWFB_spec h
  unfold mkFeat
  show ({ name := storedName (renderFeat f0).name, domain := dom, range := f0.range, elem := f0.elem,
          descr := normDescr (noEmpty f0.descr), multi := f0.multi,
          reserved := isReservedName (renderFeat f0).name } : Feature) = _
  rw [h1, h2]
  rfl

/-! ### closed facts about the two built-in tables -/

def baseOKB : Bool :=
  Gen.builtinTSNoDoc.types.all (fun tm => match find? Gen.builtinTS tm.name with
    | none => false
    | some tb => tb.super == tm.super && tb.descr == none && tm.descr == none && tb.own == tm.own &&
        tb.inh == tm.inh && (tm.own ++ tm.inh).all (fun f => f.descr == none && f.reserved == false))

theorem baseOK : baseOKB = true := by decide +kernel

theorem base_vs_builtin {n : String} {tm : TypeRec} (h : find? Gen.builtinTSNoDoc n = some tm) :
    ∃ tb, find? Gen.builtinTS n = some tb ∧ tb.super = tm.super ∧ tb.descr = none ∧ tm.descr = none ∧
      tb.own = tm.own ∧ tb.inh = tm.inh ∧ ∀ f ∈ tm.own ++ tm.inh, f.descr = none ∧ f.reserved = false := by
  have := List.all_eq_true.mp baseOK tm (find?_mem h)
  rw [find?_name h] at this
  cases hb : find? Gen.builtinTS n with
  | none => rw [hb] at this; cases this
  | some tb =>
    rw [hb] at this
    simp only [Bool.and_eq_true, beq_iff_eq, List.all_eq_true] at this
    obtain ⟨⟨⟨⟨⟨h1, h2⟩, h3⟩, h4⟩, h5⟩, h6⟩ := this
    exact ⟨tb, rfl, h1, h2, h3, h4, h5, h6⟩

theorem trD_none : trD none = none := rfl

/-! ### the built-in table is a part of `trTs ts` -/

theorem sub_base (ts : TypeSystem) (hx : XHist ts) : Sub (trTs ts) Gen.builtinTSNoDoc := by
  have key : ∀ n tm, find? Gen.builtinTSNoDoc n = some tm →
      ∃ t, find? ts n = some t ∧ t.super = tm.super ∧ t.descr = none ∧ ∀ f ∈ tm.own ++ tm.inh, f ∈ t.own ++ t.inh := by
    intro n tm hn
    obtain ⟨tb, htb, h1, h2, _, h4, h5, _⟩ := base_vs_builtin hn
    obtain ⟨t, ht, hs, hd, _⟩ := hx.hist.grow n tb htb
    obtain ⟨t', ht', hcov⟩ := grow_cov hx.hist.grow htb
    rw [ht] at ht'; cases ht'
    refine ⟨t, ht, hs.trans h1, hd.trans h2, ?_⟩
    intro f hf
    apply hcov
    show f ∈ tb.own ++ tb.inh
    rw [h4, h5]; exact hf
  intro n tm hn
  obtain ⟨t, ht, hs, hd, hcov⟩ := key n tm hn
  obtain ⟨_, _, _, _, hdn, _, _, hfn⟩ := base_vs_builtin hn
  refine ⟨trRec t, by rw [find?_trTs, ht]; rfl, ?_, ?_, ?_, ?_⟩
  · exact hs
  · show trD t.descr = tm.descr
    rw [hd, hdn]; rfl
  · intro f hf
    refine ⟨trFeat f, ?_, ?_⟩
    · show trFeat f ∈ (trRec t).own ++ (trRec t).inh
      rw [eff_trRec]
      exact List.mem_map_of_mem (hcov f hf)
    · have : trFeat f = f := by
        have hd0 := (hfn f hf).1
        cases f
        simp only [] at hd0
        subst hd0
        rfl
      rw [this]; exact featureEq_refl f
  · intro c hc
    obtain ⟨tc, htc, hsc⟩ := (base_inv.1.link n c).mp ⟨tm, hn, hc⟩
    obtain ⟨t2, ht2, hs2, _⟩ := key c tc htc
    exact ⟨trRec t2, by rw [find?_trTs, ht2]; rfl, by show t2.super = some n; rw [hs2]; exact hsc⟩

/-! ### loading a faithful descriptor -/

theorem load_of_faithful (ts : TypeSystem) (hx : XHist ts) (d0 : Descriptor)
    (hF : Faithful ts (effective d0)) :
    ∃ ts2, load Gen.consts d0 = .ok { ts2 with redeclared :=
        (if ((normalize d0).map (·.name)).contains DOCUMENT_ANNOTATION then [DOCUMENT_ANNOTATION] else []) ++
          ((effective d0).filter (fun t => Gen.consts.predefined.contains t.name)).map (·.name) } ∧
      LInv (trTs ts) ts2 ∧ Grow Gen.consts Gen.builtinTSNoDoc ts2 := by
  have hc := hx.hist.cons
  have hco : Consistent (trTs ts) :=
    consistent_of_skel (ts := ts) (ts' := trTs ts) (by simp [skel, trTs, tr, List.map_map, Function.comp_def]) hc
  have hfo : FeatInv (trTs ts) := featInv_trTs ts hx.hist.feat
  have hpre_reg : ∀ p, Gen.consts.predefined.contains p = true → hasExact ts p = true :=
    fun p hp => hx.hist.grow.reg p (builtin_pre p hp)
  apply load_succeeds (trTs ts) hco hfo d0 ?_ ?_ ?_ (sub_base ts hx)
  · -- every declaration is one of `trTs ts`
    intro e he
    cases hp : Gen.consts.predefined.contains e.name with
    | false =>
      obtain ⟨t, ht, rfl⟩ := hF.user_of e he hp
      have hpt : Gen.consts.predefined.contains t.name = false := hp
      obtain ⟨s, hs, hnf⟩ := hx.hist.nofinal t ht hpt
      have hft : find? ts t.name = some t := find?_of_mem hc.nodup ht
      have hsup : (normT (renderType t)).super = s := by
        show t.super.getD "" = s
        rw [hs]; rfl
      refine ⟨trRec t, by rw [normT_name]; show find? (trTs ts) t.name = _; rw [find?_trTs, hft]; rfl, ?_, ?_, ?_⟩
      · rw [hsup]; exact hs
      · intro _
        refine ⟨rfl, by rw [hsup]; exact hnf, ?_⟩
        intro f hf
        obtain ⟨f1, hf1, rfl⟩ := List.mem_map.mp hf
        obtain ⟨f0, hf0, rfl⟩ := List.mem_map.mp hf1
        obtain ⟨hwf, _, _⟩ := hx.ownOK t ht f0 hf0
        refine ⟨trRec t, by show find? (trTs ts) t.name = _; rw [find?_trTs, hft]; rfl, trFeat f0,
          List.mem_append_left _ (List.mem_map_of_mem hf0), ?_⟩
        show featureEq (trFeat f0) (mkFeat t.name (normF (renderFeat f0))) = true
        rw [mkFeat_render hwf]
        exact featureEq_refl _
      · intro f hf
        obtain ⟨f1, hf1, rfl⟩ := List.mem_map.mp hf
        obtain ⟨f0, hf0, rfl⟩ := List.mem_map.mp hf1
        obtain ⟨_, hr, hel⟩ := hx.ownOK t ht f0 hf0
        refine ⟨by rw [hasExact_trTs]; exact hr, ?_⟩
        intro e he'
        rw [hasExact_trTs]
        exact hel e he'
    | true =>
      obtain ⟨pt, hpt, hps, rfl⟩ := hF.pre_of e he hp
      have hn : (renderType pt).name = pt.name := rfl
      have hpn : pt.name = (renderType pt).name := rfl
      obtain ⟨tb, htb, h1, _, _, _, _, _⟩ := base_vs_builtin hpt
      obtain ⟨t, ht, hs, _⟩ := hx.hist.grow _ tb htb
      refine ⟨trRec t, by rw [find?_trTs, ht]; rfl, ?_, ?_, ?_⟩
      · show t.super = _
        rw [hs, h1]; exact hps
      · intro hq; cases hq
      · intro f hf
        obtain ⟨f0, hf0, rfl⟩ := List.mem_map.mp hf
        obtain ⟨_, hr, hel⟩ := ownOK_builtins.2 pt (find?_mem hpt) f0 hf0
        have hup : ∀ x, hasExact Gen.builtinTSNoDoc x = true → hasExact (trTs ts) x = true := by
          intro x hx'
          rw [hasExact_trTs]
          obtain ⟨tx, htx⟩ := (hasExact_iff_find _ x).mp hx'
          apply hpre_reg
          have := base_all_predef tx (find?_mem htx)
          rw [find?_name htx] at this
          exact this
        exact ⟨hup _ hr, fun e he' => hup _ (hel e he')⟩
  · -- every registered name is predefined or declared
    intro x hx'
    rw [hasExact_trTs] at hx'
    cases hp : Gen.consts.predefined.contains x with
    | true => exact Or.inl rfl
    | false =>
      right
      obtain ⟨t, ht⟩ := (hasExact_iff_find ts x).mp hx'
      have hn := find?_name ht
      have := hF.user_in t (find?_mem ht) (by rw [hn]; exact hp)
      exact List.mem_map.mpr ⟨_, this, hn⟩
  · -- redeclared built-in types agree with the table
    intro e he hp
    obtain ⟨pt, hpt, hps, rfl⟩ := hF.pre_of e he hp
    obtain ⟨_, _, _, _, _, _, _, hfn⟩ := base_vs_builtin hpt
    refine ⟨pt, hpt, hps, ?_⟩
    show (pt.own.map renderFeat).map _ = _
    rw [List.map_map]
    apply List.map_congr_left
    intro f hf
    obtain ⟨h1, h2⟩ := hfn f (List.mem_append_left _ hf)
    simp only [Function.comp, renderFeat, h1, h2, noEmpty]
    rfl

end Cassis.TsXml
