/-
Element-order independence on the whole format (`C05PermColl`), third pass, part D: the step for one member of one view.
`LoadPermBuildD.lean` with the expectation functions `E2c`/`E3c` (as `RoundTripCollBuildD.lean`); the invariant also
records that objects without id stay frozen.
-/
import CassisModel.Proofs.LoadPermCollBuildC

namespace Cassis.Xmi.LPC
open Cassis.TS Cassis.Traverse Cassis.Lex Cassis.Xmi Cassis.Xmi.RTB Cassis.Xmi.LP

section
variable {K : Consts} {ts : TypeSystem} {cass : List Cas} {ci : Nat} {c : Cas} {hp H : Heap}
  {L : List (Int × Nat)} {na : Int → Nat} {n0 : Nat} {p : Pass1} {ia : Int → String → Nat} {ci' : Nat} {o0 : Obj} {hp0 : Heap}

theorem CtxC.memberOwn_facts (ctx : CtxC K ts cass ci c hp H L na n0 p) {b : Build} (hb : BInvC K ts cass H L na ia ci' n0 o0 hp0 b)
    {m : Int} {am : Nat} (hq : (m, am) ∈ L) {o o' : Obj} (ho : H[am]? = some o) (ho' : b.heap[na m]? = some o')
    (hok : RTCB.ObjOk K ts cass H na ia ci' (m ∈ b.converted) (m ∈ b.memberSofas.map (·.1)) o o' m)
    (hnn : alistGet? o.slots "sofa" ≠ some .none) :
    (memberOwn m (na m) b).1 = (alistGet? o.slots "sofa").map (E3c K ts H na ia ci' o "sofa") ∧
    (∀ r ∈ (memberOwn m (na m) b).2, RTCB.MSOk K ts H L na ia ci' r) ∧
    (∀ x, x ∈ b.memberSofas.map (·.1) → x ∈ (memberOwn m (na m) b).2.map (·.1)) ∧
    ((alistGet? o'.slots "sofa").isSome = true → m ∈ (memberOwn m (na m) b).2.map (·.1)) := by
  unfold memberOwn
  cases hf : b.memberSofas.find? (fun q => q.1 == m) with
  | some r =>
    dsimp only
    have hr := List.mem_of_find?_eq_some hf
    have hr1 : r.1 = m := by simpa using List.find?_some hf
    obtain ⟨am', o_, v, vn, h1, h2, h3, h4, h5⟩ := hb.ms r hr
    rw [hr1] at h1
    have := addr_unique ctx.lok.nodup h1 hq
    subst this
    rw [ho] at h2
    cases h2
    refine ⟨?_, hb.ms, fun x hx => hx, fun _ => ?_⟩
    · rw [h3, h4]; rfl
    · rw [← hr1]; exact List.mem_map.mpr ⟨r, hr, rfl⟩
  | none =>
    dsimp only
    have hnk : m ∉ b.memberSofas.map (·.1) := by
      intro hin
      obtain ⟨r, hr, e⟩ := List.mem_map.mp hin
      have := List.find?_eq_none.mp hf r hr
      exact this (by simpa using e)
    have hslot : slot b.heap (na m) "sofa" = alistGet? o'.slots "sofa" := by
      show (b.heap[na m]?).bind _ = _
      rw [ho']; rfl
    rw [hslot]
    cases hs : alistGet? o'.slots "sofa" with
    | none =>
      dsimp only
      refine ⟨?_, hb.ms, fun x hx => hx, fun h => by cases h⟩
      rw [hok.none_slot' hs]; rfl
    | some w =>
      dsimp only
      obtain ⟨v, hv⟩ := hok.old_slot (n := "sofa") (by rw [hs]; rfl)
      obtain ⟨w', hw', hso⟩ := hok.2.2.2 "sofa" v hv
      rw [hs] at hw'
      cases hw'
      unfold RTCB.SlotOk at hso
      rw [if_pos rfl] at hso
      have hw : w = E3c K ts H na ia ci' o "sofa" v := hso.resolve_right (fun h => hnk h.1)
      have hshape := ctx.sofa_shape hq ho hv
      have hvn : ∃ vn, v = .sofa ci vn := by
        rcases hshape with e | e
        · rw [e] at hv; exact absurd hv hnn
        · exact e
      obtain ⟨vn, hvn⟩ := hvn
      refine ⟨?_, ?_, ?_, fun _ => ?_⟩
      · rw [hv, hw]; rfl
      · intro r hr
        rcases List.mem_append.mp hr with hr | hr
        · exact hb.ms r hr
        · rw [List.mem_singleton] at hr
          subst hr
          exact ⟨am, o, v, vn, hq, ho, hv, hw, by rw [hw, hvn]; rfl⟩
      · intro x hx
        rw [List.map_append]
        exact List.mem_append_left _ hx
      · rw [List.map_append]
        exact List.mem_append_right _ (by simp)

/-- `Cas.add` of a member whose offsets are internal -/
theorem CtxC.phase2 (ctx : CtxC K ts cass ci c hp H L na n0 p) {nv : String × View} (hnv : nv ∈ c.views)
    {e : Index.Entry} (he : e ∈ Index.all nv.2.idx) {m : Int} (hq : (m, e.oid) ∈ L)
    {o o1 : Obj} (ho : H[e.oid]? = some o) {hp1 : Heap} (ho1 : hp1[na m]? = some o1)
    {Cp Kp : Int → Prop} (hinv : RTCB.HInv K ts cass H L na ia ci' Cp Kp hp1)
    (hann : isInstanceOf ts o.ty ANNOTATION = true → Cp m)
    (hkey : (alistGet? o1.slots "sofa").isSome = true → Kp m)
    (cas : Cas) {pre : List (String × View)} {cur : View} {post : List (String × View)}
    (hviews : cas.views = pre ++ (nv.1, cur) :: post)
    (hpre : nv.1 ∉ pre.map (·.1)) (hidx : IdxFrom H nv cur.idx) :
    ∃ cur' : View,
      Cas.add ts ci' cas hp1 { view := nv.1, lenient := false } (na m) true =
        .ok ({ cas with views := pre ++ (nv.1, cur') :: post },
             hp1.set (na m) (Cas.addObj ci' { view := nv.1, lenient := false } o1 m)) ∧
      RTCB.HInv K ts cass H L na ia ci' Cp Kp (hp1.set (na m) (Cas.addObj ci' { view := nv.1, lenient := false } o1 m)) ∧
      cur'.sofa = cur.sofa ∧
      ((Index.all cur'.idx).map (·.oid)).Perm (na m :: (Index.all cur.idx).map (·.oid)) ∧
      IdxFrom H nv cur'.idx := by
  obtain ⟨o_, o1_, ho_, ho1_, hok⟩ := hinv (m, e.oid) hq
  simp only at ho_ ho1_ hok
  rw [ho] at ho_; cases ho_
  rw [ho1] at ho1_; cases ho1_
  have hokT : RTCB.ObjOk K ts cass H na ia ci' True (Kp m) o o1 m := by
    cases ha : isInstanceOf ts o.ty ANNOTATION
    · exact hok.nonann ha
    · exact hok.mono (iff_true_intro (hann ha)) id
  obtain ⟨o2, k, ho2, hk⟩ := (ctx.mok nv hnv).1 e he
  rw [ho] at ho2; cases ho2
  let h : Handle := { view := nv.1, lenient := false }
  have hbeg : alistGet? (Cas.addObj ci' h o1 m).slots "begin" = (alistGet? o.slots "begin").map (E3c K ts H na ia ci' o "begin") := by
    rw [addObj_slot_ne ci' h o1 m (by decide)]; exact hokT.slot_exp3 (by decide)
  have hend : alistGet? (Cas.addObj ci' h o1 m).slots "end" = (alistGet? o.slots "end").map (E3c K ts H na ia ci' o "end") := by
    rw [addObj_slot_ne ci' h o1 m (by decide)]; exact hokT.slot_exp3 (by decide)
  have hent := RTCB.entryOf_rel K ts H na ia ci' (a2 := na m) hbeg hend hk
  have hty : o1.ty = o.ty := hok.1
  have hget : Cas.getViewRec cas h.view = some cur := by
    unfold Cas.getViewRec
    rw [hviews]; exact aget_append_mid pre nv.1 cur post hpre
  have hnone : (Index.get cur.idx o1.ty).any
      (fun y => decide (y.b = Index.NONE_KEY) != decide (({ k with oid := na m } : Index.Entry).b = Index.NONE_KEY)) = false := by
    rw [List.any_eq_false]
    intro x hx
    obtain ⟨e2, he2, o2, k2, ho2, hty2, hk2, hb2⟩ := hidx o1.ty x hx
    have := (ctx.mok nv hnv).2 e2 he2 e he o2 o k2 k ho2 ho (hty2.trans hty) hk2 hk
    show ¬ ((decide (x.b = Index.NONE_KEY) != decide (k.b = Index.NONE_KEY)) = true)
    rw [hb2]
    by_cases h1 : k2.b = Index.NONE_KEY
    · simp [h1, this.mp h1]
    · have h2 : ¬ k.b = Index.NONE_KEY := fun h' => h1 (this.mpr h')
      simp [h1, h2]
  have hadd := add_eq ts ci' cas h (ctx.contains hq ho ▸ hty ▸ rfl : containsType ts o1.ty = true) hget hok.2.1 hent hnone
    (ho := ho1)
  refine ⟨{ cur with idx := Index.add cur.idx o1.ty { k with oid := na m } }, ?_, ?_, rfl, ?_, ?_⟩
  · rw [hadd]
    unfold Cas.setViewRec
    rw [hviews, aset_append_mid pre nv.1 _ _ post hpre]
  · exact stepP ctx.nok ctx.lok.nodup hinv hq ho ho1 (hok.add h id hkey) (fun _ _ _ => Iff.rfl) (fun _ _ _ hk => hk)
  · exact (all_add cur.idx o1.ty _).map (·.oid)
  · intro ty x hx
    rw [get_add] at hx
    split at hx
    · rename_i hty'
      rcases Index.mem_insert.mp hx with hx | hx
      · exact ⟨e, he, o, k, ho, by rw [hty', hty], hk, by rw [hx]⟩
      · rw [← hty'] at hx
        exact hidx ty x hx
    · exact hidx ty x hx

/-- one member of one view -/
theorem CtxC.member_step (ctx : CtxC K ts cass ci c hp H L na n0 p) {nv : String × View} (hnv : nv ∈ c.views) {m : Int}
    (hm : m ∈ (pviewOf H nv).members) {b : Build} (hb : BInvC K ts cass H L na ia ci' n0 o0 hp0 b)
    {pre post : List (String × View)} {cur : View} (hviews : b.cas.views = pre ++ (nv.1, cur) :: post)
    (hpre : nv.1 ∉ pre.map (·.1)) (hidx : IdxFrom H nv cur.idx) (conv : Offsets.Conv) :
    ∃ (b' : Build) (cur' : View),
      addMember1 ts ci' { view := nv.1, lenient := false } conv p.sofas p.fss m b = .ok b' ∧
      BInvC K ts cass H L na ia ci' n0 o0 hp0 b' ∧ b'.cas.views = pre ++ (nv.1, cur') :: post ∧ cur'.sofa = cur.sofa ∧
      ((Index.all cur'.idx).map (·.oid)).Perm (na m :: (Index.all cur.idx).map (·.oid)) ∧
      IdxFrom H nv cur'.idx := by
  obtain ⟨e, he, hq⟩ := ctx.member hnv hm
  obtain ⟨o, o', ho, ho', hok⟩ := hb.heap (m, e.oid) hq
  simp only at ho ho' hok
  have hgt : n0 ≠ na m := ctx.nok.ne0 _ hq
  have hnn : alistGet? o.slots "sofa" ≠ some .none := by
    have := ctx.hmem nv hnv e he
    unfold slot Traverse.slot at this
    rw [ho] at this
    exact this
  obtain ⟨own_eq, ms_ok, keys_mono, key_m⟩ := ctx.memberOwn_facts hb hq ho ho' hok hnn
  unfold addMember1
  rw [ctx.lookup hq]
  dsimp only
  rw [ho']
  dsimp only
  by_cases hcond : (!(b.converted.contains m) && isInstanceOf ts o'.ty ANNOTATION) = true
  · rw [if_pos hcond]
    simp only [Bool.and_eq_true, Bool.not_eq_true', hok.1] at hcond
    have hnc : m ∉ b.converted := by
      intro hin
      have := List.contains_iff_mem.mpr hin
      rw [hcond.1] at this
      cases this
    have hann := hcond.2
    obtain ⟨vn, v, text, o1, hs, hv, ht, hconv, hok1⟩ := ctx.convert_ann hq ho ho' hok hnc hann
    have hown : ownConv p.sofas conv (memberOwn m (na m) b).1 = convOfText (some (docText text)) := by
      rw [own_eq, hs]
      show ownConv p.sofas conv (some (.sofa ci' vn)) = _
      unfold ownConv
      dsimp only
      rw [ctx.find_sofa hv]
      dsimp only
      show convOfText ((v.sofa.text).map docText) = _
      rw [ht]; rfl
    rw [hown, hconv]
    dsimp only
    have hok1' : RTCB.ObjOk K ts cass H na ia ci' (m ∈ b.converted ++ [m]) (m ∈ (memberOwn m (na m) b).2.map (·.1)) o o1 m :=
      (hok1 (m ∈ b.converted ++ [m]) (by simp)).mono Iff.rfl (keys_mono m)
    have hinv1 : RTCB.HInv K ts cass H L na ia ci' (fun x => x ∈ b.converted ++ [m])
        (fun x => x ∈ (memberOwn m (na m) b).2.map (·.1)) (b.heap.set (na m) o1) :=
      stepP ctx.nok ctx.lok.nodup hb.heap hq ho ho' hok1'
        (fun q _ hne => by simp [hne]) (fun q _ _ hk => keys_mono _ hk)
    have hkey : (alistGet? o1.slots "sofa").isSome = true → m ∈ (memberOwn m (na m) b).2.map (·.1) := by
      intro h1
      exact key_m ((hok.isSome_iff "sofa").mpr ((hok1'.isSome_iff "sofa").mp h1))
    obtain ⟨cur', hadd, hinv2, hsofa, hperm, hidx'⟩ :=
      ctx.phase2 hnv he hq ho (set_get_self ho') hinv1 (fun _ => by simp) hkey b.cas hviews hpre hidx
    rw [hadd]
    dsimp only
    refine ⟨_, cur', rfl, ⟨hinv2, ms_ok, ?_, ?_, ?_⟩, rfl, hsofa, hperm, hidx'⟩
    · intro x hx
      rcases List.mem_append.mp hx with hx | hx
      · exact hb.cv x hx
      · rw [List.mem_singleton] at hx
        subst hx
        exact List.mem_map.mpr ⟨_, hq, rfl⟩
    · show ((b.heap.set (na m) o1).set (na m) _)[n0]? = some o0
      rw [set_get_ne hgt.symm, set_get_ne hgt.symm]; exact hb.null
    · show Frz hp0 ((b.heap.set (na m) o1).set (na m) _)
      exact (hb.frz.trans (RTCB.Frz.set_some ho' hok.2.1)).trans (RTCB.Frz.set_some (set_get_self ho') hok1'.2.1)
  · rw [if_neg hcond]
    dsimp only
    have hinv1 : RTCB.HInv K ts cass H L na ia ci' (fun x => x ∈ b.converted)
        (fun x => x ∈ (memberOwn m (na m) b).2.map (·.1)) b.heap :=
      hb.heap.mono (fun _ _ => Iff.rfl) (fun q _ hk => keys_mono _ hk)
    have hann : isInstanceOf ts o.ty ANNOTATION = true → m ∈ b.converted := by
      intro ha
      rw [hok.1, ha] at hcond
      simp only [Bool.and_true, Bool.not_eq_true', Bool.not_eq_false] at hcond
      exact List.contains_iff_mem.mp hcond
    obtain ⟨cur', hadd, hinv2, hsofa, hperm, hidx'⟩ :=
      ctx.phase2 hnv he hq ho ho' hinv1 hann key_m b.cas hviews hpre hidx
    rw [hadd]
    dsimp only
    refine ⟨_, cur', rfl, ⟨hinv2, ms_ok, hb.cv, ?_, ?_⟩, rfl, hsofa, hperm, hidx'⟩
    · show (b.heap.set (na m) _)[n0]? = some o0
      rw [set_get_ne hgt.symm]; exact hb.null
    · show Frz hp0 (b.heap.set (na m) _)
      exact hb.frz.trans (RTCB.Frz.set_some ho' hok.2.1)

end

end Cassis.Xmi.LPC
