/-
Evaluated instances for the hypothesis `NoPercentNames` of `Properties/C02EmbeddedTs.lean`: feature names that start
with `%`.  A `%TYPES` entry is ONE JSON object with the reserved members `%NAME`, `%SUPER_TYPE`, `%DESCRIPTION` and one
member per feature (`json_type[feature name] = declaration`), and the reader skips every member whose key starts with `%`
when it creates the features.  Each instance below was reproduced on the implementation
(`Cas(typesystem=ts).to_json(type_system_mode=FULL)`, then `load_cas_from_json(text)` without a type system; the same
with MINIMAL when the type is reachable from a used type); model and code agree on all of them except that for a feature
named `%DESCRIPTION` the code goes on with a `dict` as the type's description where the model stops with
`NotImplementedError` (it has no such descriptions).

type system: `x.T` (supertype TOP) with the features `plain : String` and `<name> : Integer`
-/
import CassisModel.Proofs.EmbeddedTsCounter

namespace Cassis.Json.Counter
open Cassis.TS TsOp

def pctOps (fname : String) : List TsOp :=
  [createType "x.T" "uima.cas.TOP" (some "td"), createFeature "x.T" "plain" "uima.cas.String" none none none,
   createFeature "x.T" fname "uima.cas.Integer" none (some "fd") none]

/-- what the FULL document says about `x.T` (`%SUPER_TYPE`, `%DESCRIPTION` as strings, the members holding a feature
    declaration), and what comes back: the error, or description and own feature names of the loaded `x.T` -/
def runPct (fname : String) : String :=
  let o := (pctOps fname).foldl (applyOp Gen.consts) Gen.builtinTS
  match saveJson Gen.consts o [Cas.empty] 0 [] .full with
  | .error e => s!"save: {e}"
  | .ok (doc, _) =>
    let written := ((doc.types.getD []).filter (fun t => t.name == "x.T")).map
      (fun t => (t.super, t.descr, t.feats.map (·.name)))
    match loadTs Gen.consts Gen.builtinTS true doc with
    | .error e => s!"written {written}; load: {e}"
    | .ok ts' =>
      s!"written {written}; loaded {(find? ts' "x.T").map (fun t => (t.descr, t.own.map (·.name)))}"

/- a feature `%foo` (any name other than the three reserved ones) is written and lost on load -/
#guard runPct "%foo" == "written [(uima.cas.TOP, ((some td), [plain, %foo]))]; loaded (some ((some td), [plain]))"
#guard runPct "%RANGE" == "written [(uima.cas.TOP, ((some td), [plain, %RANGE]))]; loaded (some ((some td), [plain]))"

/- a feature `%DESCRIPTION` replaces the description in the document; the reader takes the declaration for the
    description (code: the loaded type has a `dict` as description; model: not modelled) -/
#guard runPct "%DESCRIPTION" == "written [(uima.cas.TOP, (none, [plain, %DESCRIPTION]))]; load: NotImplementedError"

/- a feature `%SUPER_TYPE` replaces the supertype name in the document; the reader raises `TypeError` (unhashable) -/
#guard runPct "%SUPER_TYPE" == "written [(, ((some td), [plain, %SUPER_TYPE]))]; load: TypeError"

/- a feature `%NAME` makes the writer raise `TypeError` (unhashable `dict` as a key of `%TYPES`) -/
#guard runPct "%NAME" == "save: TypeError"

/- without such a name everything comes back -/
#guard runPct "foo" == "written [(uima.cas.TOP, ((some td), [plain, foo]))]; loaded (some ((some td), [plain, foo]))"
#guard run (pctOps "foo") == .same

/- the hypothesis `NoPercentNames` of `json_full_ts_same` is forced: each of these histories satisfies the other
    hypotheses (`UserOnlyNoDoc`, `Writable`) -/
#guard run (pctOps "%foo") == .differs
#guard run (pctOps "%DESCRIPTION") == .loadError
#guard run (pctOps "%SUPER_TYPE") == .loadError
#guard run (pctOps "%NAME") == .saveError
#guard decide (Writable Gen.consts ((pctOps "%foo").foldl (applyOp Gen.consts) Gen.builtinTS))
#guard decide (Writable Gen.consts ((pctOps "%NAME").foldl (applyOp Gen.consts) Gen.builtinTS))
#guard !decide (NoPercentNames ((pctOps "%foo").foldl (applyOp Gen.consts) Gen.builtinTS))

/-- reading a hand-written `%TYPES` section: the member `%foo` is skipped, `%NAME` as well (the reader never looks at
    it: the name is the key of the entry) -/
def handTypes (fname : String) : List JType :=
  [{ name := "x.T", super := "uima.cas.TOP",
     feats := [{ name := "plain", range := "uima.cas.String" }, { name := fname, range := "uima.cas.Integer" }] }]

def loadHand (fname : String) : String :=
  match loadEmbeddedTs Gen.consts (handTypes fname) with
  | .error e => s!"{e}"
  | .ok ts => s!"{(find? ts "x.T").map (fun t => t.own.map (·.name))}"

#guard loadHand "%foo" == "(some [plain])"
#guard loadHand "%NAME" == "(some [plain])"
#guard loadHand "%SUPER_TYPE" == "TypeError"
#guard loadHand "%DESCRIPTION" == "NotImplementedError"
#guard loadHand "foo" == "(some [plain, foo])"

end Cassis.Json.Counter
