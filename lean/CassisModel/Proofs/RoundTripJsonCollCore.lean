/-
JSON round trip with collections: assembly of the layers (writer, sofa pass, structure pass, deferred entries, views
pass, content), each taken as a hypothesis in the form of its statement (`RoundTripJsonCollDefs.lean`);
`RoundTripJsonColl.lean` supplies the proofs.  Cf. `json_core` and `json_roundtrip_flat_aux`.
-/
import CassisModel.Proofs.RoundTripJsonCollDefs

namespace Cassis.Json
open Cassis.TS Cassis.Traverse Cassis.Lex Cassis.Xmi Cassis.Xmi.RTB

theorem renderAll_eq_mapJ (K : Consts) (ts : TypeSystem) (cass : List Cas) (H : Heap) (g : Int × Nat → JFs) :
    ∀ (L : List (Int × Nat)) (es : List JFs), renderAll K ts cass H L = .ok es →
      (∀ q ∈ L, ∀ e, renderFs K ts cass H q.2 = .ok e → e = g q) → es = L.map g
  | [], es, h, _ => by
    unfold renderAll at h
    cases h; rfl
  | q :: L, es, h, hg => by
    unfold renderAll at h
    cases h1 : renderFs K ts cass H q.2 with
    | error err => rw [h1] at h; cases h
    | ok e =>
      rw [h1] at h
      cases h2 : renderAll K ts cass H L with
      | error err => rw [h2] at h; cases h
      | ok es' =>
        rw [h2] at h
        simp only [bind, Except.bind, pure, Except.pure] at h
        cases h
        rw [List.map_cons, hg q List.mem_cons_self e h1,
          renderAll_eq_mapJ K ts cass H g L es' h2 (fun q' hq' => hg q' (List.mem_cons_of_mem _ hq'))]

theorem elemOfJ_notSofa {K : Consts} {ts : TypeSystem} {cass : List Cas} {c : Cas} {ci : Nat} {H : Heap}
    {L : List (Int × Nat)} (hL : LOkJ K ts c ci H L) (q : Int × Nat) (hq : q ∈ L) :
    (elemOfJ K ts cass H q).ty ≠ SOFA := by
  obtain ⟨hcase, _⟩ := hL.coll q hq
  rcases hcase with ⟨o, t, ho, ht, _, _, _, _, hpa, hfa, _, hns, _⟩ | ⟨o, t, f, ev, ho, ht, _, _, _, _, _, _, _, hns, hk⟩
  · unfold elemOfJ
    rw [ho]
    dsimp only
    have : (isPrimitiveArray K o.ty || o.ty == FS_ARRAY) = false := by
      rw [hpa]; simpa using hfa
    rw [this]
    simp only [Bool.false_eq_true, if_false]
    rw [ht]
    exact hns
  · unfold elemOfJ
    rw [ho]
    dsimp only
    have : (isPrimitiveArray K o.ty || o.ty == FS_ARRAY) = true := by
      rcases hk with ⟨h1, _⟩ | ⟨_, h2, _⟩
      · rw [h1]; simp
      · rw [h2]; rfl
    rw [this]
    simp only [if_true]
    exact hns

/-- everything the reader does on the written document (cf. `json_core`) -/
theorem json_core_coll (hT : TravStmt) (hW : WriterStmt) (hFP : FsPassStmt) (hFX : FixUpsStmt) (hV : ViewsStmt)
    (K : Consts) (ts : TypeSystem) (cass : List Cas) (ci : Nat) (c : Cas) (hp : Heap)
    (tsIdx ci' : Nat) (doc : JDoc) (st : St)
    (hc : cass[ci]? = some c) (hwf : RTWf c hp)
    (hsave : saveJson K ts cass ci hp .none = .ok (doc, st))
    (hcoll : ∀ q ∈ st.allFs, JCollFs K ts c ci st.heap q.2)
    (hids : ∀ nv ∈ c.views, ∀ e ∈ Index.all nv.2.idx, (xidOf hp e.oid).isSome = true)
    (hdis : ∀ q ∈ st.allFs, ∀ nv ∈ c.views, q.1 ≠ nv.2.sofa.xid)
    (hmem : ∀ nv ∈ c.views, ∀ e ∈ Index.all nv.2.idx, Xmi.slot st.heap e.oid "sofa" ≠ some .none)
    (hmok : MembersOk c st.heap) :
    ∃ (ld : Loaded) (m : Int),
      loadJson K ts tsIdx ci' false false st.heap doc = .ok ld ∧ ld.ts = ts ∧
      GCtxJ K ts cass c ci hp st.heap (sortById st.allFs) ∧
      HeapRel st.heap (sortById st.allFs) (naOf st.heap (sortById st.allFs))
        (E3J st.heap (naOf st.heap (sortById st.allFs)) ci') ld.heap ∧
      ld.cas.views.map (viewContent ld.heap) = c.views.map (viewContent st.heap) ∧
      ld.cas.nextXid = m + 1 ∧ 0 ≤ m ∧ (∀ q ∈ sortById st.allFs, q.1 ≤ m) ∧
      (∀ nv ∈ c.views, nv.2.sofa.xid ≤ m ∧ nv.2.sofa.sofaNum < ld.cas.nextSofaNum) := by
  obtain ⟨hfa, fsElems, hr, hdfss, hdviews, hdtypes⟩ := saveJson_parts hc (fun nv hnv => (hwf.text_sofa nv hnv).1) hsave
  have hL : LOkJ K ts c ci st.heap (sortById st.allFs) := hT K ts ci c hp st hwf hfa hcoll
  have g : GCtxJ K ts cass c ci hp st.heap (sortById st.allFs) :=
    ⟨hc, hwf, hL, fun q hq => hdis q (mem_sortById.mp hq)⟩
  -- the writer
  have hfs : fsElems = (sortById st.allFs).map (elemOfJ K ts cass st.heap) :=
    renderAll_eq_mapJ K ts cass st.heap _ _ fsElems hr
      (fun q hq e he => hW K ts cass c ci hp st.heap _ g q hq e he)
  subst hfs
  have hviews : doc.views = c.views.map (jviewH st.heap) := by
    rw [hdviews]
    apply List.map_congr_left
    intro nv hnv
    unfold jviewOf jviewH pviewOf
    congr 2
    apply filterMap_congr'
    intro e he
    obtain ⟨y, hy⟩ := Option.isSome_iff_exists.mp (hids nv hnv e he)
    show xidOf hp e.oid = xidOf st.heap e.oid
    rw [hy, jst_ids_kept hwf hfa e.oid y hy]
  -- the sofa pass
  obtain ⟨s1, hs1, h1heap, h1fss, h1def, h1views, h1id, h1num, h1bound⟩ :=
    sofaPass_flat K ts tsIdx ci' c hp st.heap hwf ((sortById st.allFs).map (elemOfJ K ts cass st.heap)) doc.fss (by
      intro e he
      obtain ⟨q, hq, rfl⟩ := List.mem_map.mp he
      exact elemOfJ_notSofa hL q hq)
  -- the structure pass
  have inv0 : FInvJ c st.heap (sortById st.allFs) ci' s1.cas s1.maxNum s1.maxId [] s1 := by
    refine ⟨rfl, rfl, by rw [h1heap]; rfl, by rw [h1fss]; unfold fsEntries; simp, ⟨Int.le_refl _, ?_⟩, ?_, ?_⟩
    · intro q hq; cases hq
    · intro q hq; cases hq
    · intro d hd; rw [h1def] at hd; cases hd
  obtain ⟨s2, hs2, inv⟩ := hFP K ts cass c ci hp st.heap _ g tsIdx ci' s1.cas h1views s1.maxNum s1.maxId
    (sortById st.allFs) [] s1 rfl inv0
  -- the deferred entries
  have hfss : ∀ q ∈ sortById st.allFs, lookup s2.fss q.1 = some (.ref (naOf st.heap (sortById st.allFs) q.1)) := by
    intro q hq
    rw [inv.fss, lookup_append]
    have : lookup (sofaEntries ci' c.views) q.1 = none := by
      apply lookup_none_of_not_mem
      rw [sofaEntries_keys]
      intro hin
      obtain ⟨nv, hnv, e⟩ := List.mem_map.mp hin
      exact g.dis q hq nv hnv e.symm
    rw [this]
    apply lookup_of_mem_nodup
    · rw [fsEntries_keys]; exact hL.nodup
    · unfold fsEntries
      exact List.mem_map.mpr ⟨q, hq, rfl⟩
  obtain ⟨HF, hfix, hrel⟩ := hFX K ts cass c ci hp st.heap _ g ci' s2.fss hfss s2.deferred s2.heap inv.defs inv.rel
  -- the views pass
  obtain ⟨v, hvp, hvheap, hvx, hvn, hvrel, hvcontent⟩ :=
    hV K ts c ci st.heap (sortById st.allFs) (naOf st.heap (sortById st.allFs)) ci' hwf.names hwf.names_nodup
      hL hmem hmok HF hrel s2.fss hfss { s2.cas with nextXid := s2.maxId + 1, nextSofaNum := s2.maxNum + 1 }
      (by show s2.cas.views = _; rw [inv.cas]; exact h1views)
  have hload : loadJson K ts tsIdx ci' false false st.heap doc = .ok { ts := ts, cas := v.cas, heap := v.heap } := by
    unfold loadJson loadTs
    simp only [Bool.false_eq_true, if_false]
    rw [hdfss] at hs1
    rw [hdfss, hs1]
    dsimp only
    rw [fsPass_skip_sofas tsIdx _ s1 _ (by
      intro e he
      obtain ⟨nv, _, rfl⟩ := List.mem_map.mp he
      rfl), hs2]
    dsimp only
    rw [hfix]
    dsimp only
    rw [hviews, hvp]
  refine ⟨_, s2.maxId, hload, rfl, g, ?_, ?_, ?_, ?_, inv.maxId.2, ?_⟩
  · show HeapRel _ _ _ _ v.heap
    rw [hvheap]; exact hrel
  · show v.cas.views.map (viewContent v.heap) = _
    rw [hvheap]; exact hvcontent
  · show v.cas.nextXid = _
    rw [hvx]
  · have := inv.maxId.1
    omega
  · intro nv hnv
    obtain ⟨b1, b2⟩ := h1bound nv hnv
    refine ⟨by have := inv.maxId.1; omega, ?_⟩
    show _ < v.cas.nextSofaNum
    rw [hvn]
    show _ < s2.maxNum + 1
    rw [inv.num]
    omega

/-- **JSON round trip, collections included** (the statement of `Properties/C02RoundTripColl.lean`), from the layers -/
theorem json_roundtrip_coll_of (hT : TravStmt) (hW : WriterStmt) (hFP : FsPassStmt) (hFX : FixUpsStmt) (hV : ViewsStmt)
    (hC : ContentStmt)
    (K : Consts) (ts : TypeSystem) (cass : List Cas) (ci : Nat) (c : Cas) (hp : Heap)
    (tsIdx ci' : Nat) (doc : JDoc) (st : St)
    (hc : cass[ci]? = some c) (hwf : RTWf c hp)
    (hsave : saveJson K ts cass ci hp .none = .ok (doc, st))
    (hcoll : ∀ q ∈ st.allFs, JCollFs K ts c ci st.heap q.2)
    (hids : ∀ nv ∈ c.views, ∀ e ∈ Index.all nv.2.idx, (xidOf hp e.oid).isSome = true)
    (hdis : ∀ q ∈ st.allFs, ∀ nv ∈ c.views, q.1 ≠ nv.2.sofa.xid)
    (hmem : ∀ nv ∈ c.views, ∀ e ∈ Index.all nv.2.idx, Xmi.slot st.heap e.oid "sofa" ≠ some .none)
    (hmok : MembersOk c st.heap) :
    ∃ (ld : Loaded) (fss : List (Int × Val)),
      loadJson K ts tsIdx ci' false false st.heap doc = .ok ld ∧ ld.ts = ts ∧
      (∀ q ∈ st.allFs, ∃ (a' : Nat) (o o' : Obj), lookup fss q.1 = some (.ref a') ∧
          st.heap[q.2]? = some o ∧ ld.heap[a']? = some o' ∧ o'.ty = o.ty ∧ o'.xid = some q.1 ∧
          ∀ t : TypeRec, find? ts o.ty = some t → ∀ f ∈ allFeatures t,
            featContentC K ld.heap a' f = featContentC K st.heap q.2 f) ∧
      (∀ p ∈ fss, (∃ q ∈ st.allFs, q.1 = p.1) ∨ (∃ nv ∈ c.views, nv.2.sofa.xid = p.1)) ∧
      ld.cas.views.map (viewContent ld.heap) = c.views.map (viewContent st.heap) ∧
      (∀ q ∈ st.allFs, q.1 < ld.cas.nextXid) ∧
      (∀ nv ∈ c.views, nv.2.sofa.xid < ld.cas.nextXid ∧ nv.2.sofa.sofaNum < ld.cas.nextSofaNum) := by
  obtain ⟨ld, m, hload, hts, g, hrel, hviews, hnx, _, hmq, hms⟩ :=
    json_core_coll hT hW hFP hFX hV K ts cass ci c hp tsIdx ci' doc st hc hwf hsave hcoll hids hdis hmem hmok
  have hL := g.lok
  refine ⟨ld, sofaEntries ci' c.views ++ fsEntries (naOf st.heap (sortById st.allFs)) (sortById st.allFs),
    hload, hts, ?_, ?_, hviews, ?_, ?_⟩
  · intro q hq0
    have hq := mem_sortById.mpr hq0
    obtain ⟨o, o', ho, ho', hty, hx, _, _⟩ := hrel q hq
    refine ⟨naOf st.heap (sortById st.allFs) q.1, o, o', ?_, ho, ho', hty, hx, ?_⟩
    · rw [lookup_append]
      have : lookup (sofaEntries ci' c.views) q.1 = none := by
        apply lookup_none_of_not_mem
        rw [sofaEntries_keys]
        intro hin
        obtain ⟨nv, hnv, e⟩ := List.mem_map.mp hin
        exact g.dis q hq nv hnv e.symm
      rw [this]
      apply lookup_of_mem_nodup
      · rw [fsEntries_keys]; exact hL.nodup
      · unfold fsEntries
        exact List.mem_map.mpr ⟨q, hq, rfl⟩
    · intro t ht f hf
      exact hC K ts c ci st.heap (sortById st.allFs) ci' ld.heap hL hrel q hq o t ho ht f hf
  · intro p hp
    rcases List.mem_append.mp hp with h | h
    · right
      unfold sofaEntries at h
      obtain ⟨nv, hnv, rfl⟩ := List.mem_map.mp h
      exact ⟨nv, hnv, rfl⟩
    · left
      unfold fsEntries at h
      obtain ⟨q, hq, rfl⟩ := List.mem_map.mp h
      exact ⟨q, mem_sortById.mp hq, rfl⟩
  · intro q hq0
    have := hmq q (mem_sortById.mpr hq0)
    omega
  · intro nv hnv
    obtain ⟨h1, h2⟩ := hms nv hnv
    exact ⟨by omega, h2⟩

end Cassis.Json
