/-
Entry-order independence of the JSON reader on the flat fragment (`Properties/C05PermJson.lean`): assembly.

Layers (namespace `Cassis.Json.LPJ`):
* `LoadPermJsonDefs`  — `sofaPass` sees only the sofas and `fsPass` only the other structures (`sofaPass_filter`,
                        `fsPass_filter`); moving the hypotheses of the round-trip layers to the CAS with reordered
                        views (`withViews`) and to a permutation `L'` of the collected structures;
* `LoadPermJsonSofa`  — `sofaPass_anyOrder`: the sofas in any order (initial view stays first, the other views come
                        in the order of their sofas);
* `LoadPermJsonPass`  — `fsPass_flatP`: the structure pass when the id map holds the sofa entries in another order
                        than the views; `fixUps_flat` of the round trip is order-free already (it takes the id map
                        through `lookup`);
* `LoadPermJsonViews` — `viewsPass_anyOrder`: the entries of `%VIEWS` in any order;
* this file           — `json_load_perm_flat_aux`.
-/
import CassisModel.Proofs.LoadPermJsonSofa
import CassisModel.Proofs.LoadPermJsonPass
import CassisModel.Proofs.LoadPermJsonViews
import CassisModel.Proofs.RoundTripJson

namespace Cassis.Json.LPJ
open Cassis.TS Cassis.Traverse Cassis.Lex Cassis.Xmi Cassis.Xmi.RTB Cassis.Xmi.LP

/-- the sofas and the other structures of a permutation of `S.map rs ++ L.map el` -/
theorem split_perm {α β} (rs : α → JFs) (el : β → JFs) (S : List α) (L : List β) (l' : List JFs)
    (hrs : ∀ a ∈ S, (rs a).ty = SOFA) (hel : ∀ b ∈ L, (el b).ty ≠ SOFA)
    (hperm : l'.Perm (S.map rs ++ L.map el)) :
    ∃ (σ : List α) (L' : List β), σ.Perm S ∧ L'.Perm L ∧
      l'.filter (fun j => j.ty == SOFA) = σ.map rs ∧ l'.filter (fun j => j.ty != SOFA) = L'.map el := by
  have h1 := hperm.filter (fun j => j.ty == SOFA)
  rw [List.filter_append, filter_map_all rs _ S (fun a ha => by simp [hrs a ha]),
    filter_map_none el _ L (fun b hb => by simpa using hel b hb), List.append_nil] at h1
  have h2 := hperm.filter (fun j => j.ty != SOFA)
  rw [List.filter_append, filter_map_none rs _ S (fun a ha => by simp [hrs a ha]),
    filter_map_all el _ L (fun b hb => by simpa using hel b hb), List.nil_append] at h2
  obtain ⟨σ, hσ, e1⟩ := perm_map_inv rs _ S h1
  obtain ⟨L', hL', e2⟩ := perm_map_inv el _ L h2
  exact ⟨σ, L', hσ, hL', e1, e2⟩

end Cassis.Json.LPJ

namespace Cassis.Json
open Cassis.TS Cassis.Traverse Cassis.Lex Cassis.Xmi Cassis.Xmi.RTB Cassis.Xmi.LP Cassis.Json.LPJ

/-- **entry-order independence of the JSON reader on the flat fragment** -/
theorem json_load_perm_flat_aux (K : Consts) (ts : TypeSystem) (cass : List Cas) (ci : Nat) (c : Cas) (hp : Heap)
    (tsIdx ci' : Nat) (doc doc' : JDoc) (st : St)
    (hc : cass[ci]? = some c) (hwf : RTWf c hp)
    (hsave : saveJson K ts cass ci hp .none = .ok (doc, st))
    (hflat : ∀ q ∈ st.allFs, FlatFs K ts c ci st.heap q.2)
    (hjson : ∀ q ∈ st.allFs, JsonFs ts st.heap q.2)
    (hids : ∀ nv ∈ c.views, ∀ e ∈ Index.all nv.2.idx, (xidOf hp e.oid).isSome = true)
    (hdis : ∀ q ∈ st.allFs, ∀ nv ∈ c.views, q.1 ≠ nv.2.sofa.xid)
    (hmem : ∀ nv ∈ c.views, ∀ e ∈ Index.all nv.2.idx, Xmi.slot st.heap e.oid "sofa" ≠ some .none)
    (hmok : MembersOk c st.heap)
    (hpf : doc'.fss.Perm doc.fss) (hpv : doc'.views.Perm doc.views) :
    ∃ (s1 s : RState) (ld' : Loaded),
      sofaPass K ts tsIdx ci' doc'.fss doc'.fss { cas := Cas.empty, heap := st.heap } = .ok s1 ∧
      fsPass K ts tsIdx doc'.fss s1 = .ok s ∧
      loadJson K ts tsIdx ci' false false st.heap doc' = .ok ld' ∧ ld'.ts = ts ∧
      (s.fss.map (·.1)).Perm (c.views.map (·.2.sofa.xid) ++ (sortById st.allFs).map (·.1)) ∧
      (∀ q ∈ st.allFs, ∃ (a' : Nat) (o o' : Obj), lookup s.fss q.1 = some (.ref a') ∧
          st.heap[q.2]? = some o ∧ ld'.heap[a']? = some o' ∧ o'.ty = o.ty ∧ o'.xid = some q.1 ∧
          ∀ t : TypeRec, find? ts o.ty = some t → ∀ f ∈ allFeatures t,
            featContent ld'.heap a' f.name = featContent st.heap q.2 f.name) ∧
      (∀ nv ∈ c.views, lookup s.fss nv.2.sofa.xid = some (.sofa ci' nv.1)) ∧
      (ld'.cas.views.map (viewContent ld'.heap)).Perm (c.views.map (viewContent st.heap)) ∧
      (ld'.cas.views.head?).map (·.1) = some Cas.INITIAL_VIEW ∧
      (∀ q ∈ st.allFs, q.1 < ld'.cas.nextXid) ∧
      (∀ nv ∈ c.views, nv.2.sofa.xid < ld'.cas.nextXid ∧ nv.2.sofa.sofaNum < ld'.cas.nextSofaNum) := by
  obtain ⟨_, _, _, _, g, hdfss, hdviews, _⟩ :=
    json_core K ts cass ci c hp tsIdx ci' doc st hc hwf hsave hflat hjson hids hdis hmem hmok
  -- the parts of the permuted document
  obtain ⟨σ, L', hσ, hL', hσeq, hL'eq⟩ :=
    split_perm (fun p : String × View => renderSofa hp p.2.sofa) (elemOf ts cass st.heap) c.views
      (sortById st.allFs) doc'.fss (fun _ _ => rfl)
      (fun q hq => by
        obtain ⟨o, t, _, _, he', hns⟩ := elemOf_flat g q hq
        rw [he']; exact hns)
      (by rw [← hdfss]; exact hpf)
  obtain ⟨τ, hτ, hτeq⟩ := perm_map_inv (jviewH st.heap) doc'.views c.views (by rw [← hdviews]; exact hpv)
  -- the initial view among the sofas
  obtain ⟨iv, hivm, hiv⟩ : ∃ iv ∈ c.views, iv.1 = Cas.INITIAL_VIEW := by
    have := hwf.init_first
    cases hv : c.views with
    | nil => rw [hv] at this; simp at this
    | cons nv rest =>
      rw [hv] at this
      exact ⟨nv, List.mem_cons_self, by simpa using this⟩
  obtain ⟨pre, post, hsplit⟩ := List.append_of_mem (hσ.mem_iff.mpr hivm)
  subst hsplit
  have hvs : (iv :: pre ++ post).Perm c.views :=
    (List.perm_middle (l₁ := pre) (a := iv) (l₂ := post)).symm.trans hσ
  -- the CAS the layers are instantiated with: the views in the order in which the reader creates them
  have hwf' : RTWf (withViews c (iv :: pre ++ post)) hp :=
    rtwf_withViews hwf hvs (by show some iv.1 = _; rw [hiv])
  have hLok' : LOk K ts (withViews c (iv :: pre ++ post)) ci st.heap L' :=
    lok_withViews g.lok hvs hwf.names_nodup hL'
  have hsv := sameViews_set hc hvs hwf.names_nodup
  have hlt : ci < cass.length := (List.getElem?_eq_some_iff.mp hc).1
  have g' : GCtx K ts (cass.set ci (withViews c (iv :: pre ++ post))) (withViews c (iv :: pre ++ post)) ci hp
      st.heap L' :=
    ⟨List.getElem?_set_self hlt, hwf', hLok',
      fun q hq nv hnv => g.dis q (hL'.mem_iff.mp hq) nv (hvs.mem_iff.mp hnv),
      fun q hq => g.json q (hL'.mem_iff.mp hq)⟩
  have helem : L'.map (elemOf ts (cass.set ci (withViews c (iv :: pre ++ post))) st.heap) =
      L'.map (elemOf ts cass st.heap) :=
    List.map_congr_left (fun q _ => elemOf_congr hsv ts st.heap q)
  -- the sofa pass
  obtain ⟨s1, hs1, h1heap, h1fss, h1def, h1views, h1id, h1num, h1bound⟩ :=
    sofaPass_anyOrder K ts tsIdx ci' doc'.fss hp st.heap pre post iv
      (fun nv hnv => sofaOk_of_wf hwf nv (hσ.mem_iff.mp hnv))
      ((hσ.map (·.1)).nodup_iff.mpr hwf.names_nodup)
      ((hσ.map (·.2.sofa.xid)).nodup_iff.mpr hwf.sofa_ids_nodup) hiv
  have hs1' : sofaPass K ts tsIdx ci' doc'.fss doc'.fss { cas := Cas.empty, heap := st.heap } = .ok s1 := by
    rw [sofaPass_filter, hσeq]; exact hs1
  have hF0 : (sofaEntries ci' (pre ++ iv :: post)).Perm
      (sofaEntries ci' (withViews c (iv :: pre ++ post)).views) := by
    unfold sofaEntries
    exact (List.perm_middle (l₁ := pre) (a := iv) (l₂ := post)).map _
  have h1views' : s1.cas.views = bareViews (withViews c (iv :: pre ++ post)).views := h1views
  -- the structure pass
  have inv0 : FInvP (sofaEntries ci' (pre ++ iv :: post)) st.heap L' ci' s1.cas s1.maxNum s1.maxId [] s1 := by
    refine ⟨rfl, rfl, by rw [h1heap]; rfl, by rw [h1fss]; unfold fsEntries; simp, ⟨Int.le_refl _, ?_⟩, ?_, ?_⟩
    · intro q hq; cases hq
    · intro q hq; cases hq
    · intro d hd; rw [h1def] at hd; cases hd
  obtain ⟨s2, hs2, inv⟩ :=
    fsPass_flatP g' tsIdx ci' s1.cas h1views' _ hF0 s1.maxNum s1.maxId L' [] s1 rfl inv0
  have hs2' : fsPass K ts tsIdx doc'.fss s1 = .ok s2 := by
    rw [fsPass_filter, hL'eq, ← helem]; exact hs2
  -- the deferred references
  have hfss := inv.lookup_fs g' hF0
  obtain ⟨HF, hfix, hrel⟩ := fixUps_flat g' ci' s2.fss hfss s2.deferred s2.heap inv.defs inv.rel
  -- the views pass
  obtain ⟨v, hvp, hvheap, hvx, hvn, hvall, hvcontent⟩ :=
    viewsPass_anyOrder K ts (withViews c (iv :: pre ++ post)) ci st.heap L' (naOf st.heap L') ci'
      hwf'.names hwf'.names_nodup hLok'
      (fun nv hnv => hmem nv (hvs.mem_iff.mp hnv)) (membersOk_withViews hmok hvs) HF hrel s2.fss hfss
      { s2.cas with nextXid := s2.maxId + 1, nextSofaNum := s2.maxNum + 1 }
      (by show s2.cas.views = _; rw [inv.cas]; exact h1views') τ (hτ.trans hvs.symm)
  have hload : loadJson K ts tsIdx ci' false false st.heap doc' = .ok { ts := ts, cas := v.cas, heap := v.heap } := by
    unfold loadJson loadTs
    simp only [Bool.false_eq_true, if_false]
    rw [hs1']
    dsimp only
    rw [hs2']
    dsimp only
    rw [hfix]
    dsimp only
    rw [hτeq, hvp]
  have hxid : ∀ q ∈ L', xidOf HF (naOf st.heap L' q.1) = some q.1 := by
    intro q hq
    obtain ⟨o, o', _, ho', _, hx, _⟩ := hrel q hq
    unfold xidOf; rw [ho']; exact hx
  refine ⟨s1, s2, _, hs1', hs2', hload, rfl, ?_, ?_, ?_, ?_, ?_, ?_, ?_⟩
  · -- the ids the reader registered
    rw [inv.fss, List.map_append, sofaEntries_keys, fsEntries_keys]
    exact List.Perm.append (hσ.map _) (hL'.map _)
  · -- the written structures
    intro q hq0
    have hq : q ∈ L' := hL'.mem_iff.mpr (mem_sortById.mpr hq0)
    obtain ⟨o, o', ho, ho', hty, hx, _, hslots⟩ := hrel q hq
    refine ⟨naOf st.heap L' q.1, o, o', hfss q hq, ho, ?_, hty, hx, ?_⟩
    · show v.heap[_]? = _
      rw [hvheap]; exact ho'
    · intro t ht f hf
      show featContent v.heap _ _ = _
      rw [hvheap]
      obtain ⟨o2, t2, ho2, ht2, _, _, _, _, _, _, _, _, _, _, _, hfeat, _⟩ := hLok'.flat q hq
      rw [ho] at ho2; cases ho2
      rw [ht] at ht2; cases ht2
      have hff := hfeat f hf
      obtain ⟨_, _, _, _, _, _, _, _, _, _, _, w, hw, _⟩ := hfeat f hf
      have e1 : featContent st.heap q.2 f.name = dvalOf st.heap w := by
        unfold featContent Xmi.slot Traverse.slot
        rw [ho]; simp only [Option.bind_some, hw, Option.getD_some]
      have e2 : featContent HF (naOf st.heap L' q.1) f.name =
          dvalOf HF (exp3 st.heap (naOf st.heap L') ci' w) := by
        unfold featContent Xmi.slot Traverse.slot
        rw [ho']; simp only [Option.bind_some, hslots f.name w hw, Option.getD_some, E3]
      rw [e1, e2]
      apply dval_exp3 hff w hw
      intro b hb
      subst hb
      obtain ⟨x, hxb, hxl⟩ := hLok'.closed q hq o ho f.name b hw
      exact ⟨x, hxb, hxid (x, b) hxl⟩
  · -- the sofas
    intro nv hnv
    have := (pctxP g' ci' s1.cas h1views' _ hF0 L').fss_sofa nv (hvs.mem_iff.mpr hnv)
    rw [inv.fss]; exact this
  · -- the views
    show (v.cas.views.map (viewContent v.heap)).Perm _
    rw [hvheap, hvcontent]
    exact hvs.map _
  · -- the initial view is the first one
    show (v.cas.views.head?).map (·.1) = _
    have hall : All2 (ViewRelJ st.heap (naOf st.heap L')) (iv :: (pre ++ post)) v.cas.views := hvall
    cases hw : v.cas.views with
    | nil => rw [hw] at hall; exact hall.elim
    | cons w ws =>
      rw [hw] at hall
      show some w.1 = _
      rw [hall.1.1, hiv]
  · intro q hq0
    have hq : q ∈ L' := hL'.mem_iff.mpr (mem_sortById.mpr hq0)
    show q.1 < v.cas.nextXid
    rw [hvx]
    show q.1 < s2.maxId + 1
    have := inv.maxId.2 q hq
    omega
  · intro nv hnv
    obtain ⟨b1, b2⟩ := h1bound nv (hσ.mem_iff.mpr hnv)
    have := inv.maxId.1
    refine ⟨?_, ?_⟩
    · show _ < v.cas.nextXid
      rw [hvx]
      show _ < s2.maxId + 1
      omega
    · show _ < v.cas.nextSofaNum
      rw [hvn]
      show _ < s2.maxNum + 1
      rw [inv.num]
      omega

end Cassis.Json
