/-
The JSON round trip with the hypotheses the composition can supply (`Properties/C16Chain.lean`): the reader part of
`json_core` / `json_roundtrip_flat_aux`, for a document that is *described* (sofas of the views, the elements `elemOf`
of the collected structures, the view records) instead of being obtained from `saveJson`; the well-formedness of the
views is stated against an arbitrary heap `hp0`, `LOk` is a hypothesis.
-/
import CassisModel.Proofs.ChainDefs

namespace Cassis.Chain
open Cassis.TS Cassis.Traverse Cassis.Xmi Cassis.Json Cassis.Lex Cassis.Xmi.RTB

theorem json_core_weak (K : Consts) (ts : TypeSystem) (cass : List Cas) (ci : Nat) (c : Cas) (hp0 H : Heap)
    (L : List (Int × Nat)) (tsIdx ci' : Nat) (doc : JDoc)
    (hc : cass[ci]? = some c) (hwf : RTWf c hp0) (hL : LOk K ts c ci H L)
    (hdis : ∀ q ∈ L, ∀ nv ∈ c.views, q.1 ≠ nv.2.sofa.xid)
    (hjson : ∀ q ∈ L, JsonFs ts H q.2)
    (hmem : ∀ nv ∈ c.views, ∀ e ∈ Index.all nv.2.idx, Xmi.slot H e.oid "sofa" ≠ some .none)
    (hmok : MembersOk c H)
    (hdfss : doc.fss = c.views.map (fun p => Json.renderSofa hp0 p.2.sofa) ++ L.map (elemOf ts cass H))
    (hdviews : doc.views = c.views.map (jviewH H)) (hdtypes : doc.types = none) :
    ∃ (ld : Json.Loaded),
      loadJson K ts tsIdx ci' false false H doc = .ok ld ∧
      HeapRel H L (naOf H L) (E3 H (naOf H L) ci') ld.heap ∧
      ViewsRelJ H (naOf H L) c.views ld.cas.views ∧
      ld.cas.views.map (viewContent ld.heap) = c.views.map (viewContent H) := by
  have _ := hdtypes  -- not needed: with `mergeTs = false` the reader does not look at `doc.types`
  have g : GCtx K ts cass c ci hp0 H L := ⟨hc, hwf, hL, hdis, hjson⟩
  -- the sofa pass
  obtain ⟨s1, hs1, h1heap, h1fss, h1def, h1views, h1id, h1num, h1bound⟩ :=
    sofaPass_flat K ts tsIdx ci' c hp0 H hwf (L.map (elemOf ts cass H)) doc.fss (by
      intro e he
      obtain ⟨q, hq, rfl⟩ := List.mem_map.mp he
      obtain ⟨o, t, _, _, he', hns⟩ := elemOf_flat g q hq
      rw [he']; exact hns)
  -- the structure pass
  have inv0 : FInv c H L ci' s1.cas s1.maxNum s1.maxId [] s1 := by
    refine ⟨rfl, rfl, by rw [h1heap]; rfl, by rw [h1fss]; unfold fsEntries; simp, ⟨Int.le_refl _, ?_⟩, ?_, ?_⟩
    · intro q hq; cases hq
    · intro q hq; cases hq
    · intro d hd; rw [h1def] at hd; cases hd
  obtain ⟨s2, hs2, inv⟩ := fsPass_flat g tsIdx ci' s1.cas h1views s1.maxNum s1.maxId L [] s1 rfl inv0
  -- the deferred references
  have hfss : ∀ q ∈ L, Json.lookup s2.fss q.1 = some (.ref (naOf H L q.1)) := by
    intro q hq
    rw [inv.fss, lookup_append]
    have : Json.lookup (sofaEntries ci' c.views) q.1 = none := by
      apply lookup_none_of_not_mem
      rw [sofaEntries_keys]
      intro hin
      obtain ⟨nv, hnv, e⟩ := List.mem_map.mp hin
      exact g.dis q hq nv hnv e.symm
    rw [this]
    apply lookup_of_mem_nodup
    · rw [fsEntries_keys]; exact hL.nodup
    · unfold fsEntries
      exact List.mem_map.mpr ⟨q, hq, rfl⟩
  obtain ⟨HF, hfix, hrel⟩ := fixUps_flat g ci' s2.fss hfss s2.deferred s2.heap inv.defs inv.rel
  -- the views pass
  obtain ⟨v, hvp, hvheap, hvx, hvn, hvrel, hvcontent⟩ :=
    viewsPass_flat K ts c ci H L (naOf H L) ci' hwf.names hwf.names_nodup
      hL hmem hmok HF hrel s2.fss hfss { s2.cas with nextXid := s2.maxId + 1, nextSofaNum := s2.maxNum + 1 }
      (by show s2.cas.views = _; rw [inv.cas]; exact h1views)
  have hload : loadJson K ts tsIdx ci' false false H doc = .ok { ts := ts, cas := v.cas, heap := v.heap } := by
    unfold loadJson loadTs
    simp only [Bool.false_eq_true, if_false]
    rw [hdfss] at hs1
    rw [hdfss, hs1]
    dsimp only
    rw [fsPass_skip_sofas tsIdx _ s1 _ (by
      intro e he
      obtain ⟨nv, _, rfl⟩ := List.mem_map.mp he
      rfl), hs2]
    dsimp only
    rw [hfix]
    dsimp only
    rw [hdviews, hvp]
  refine ⟨_, hload, ?_, hvrel, ?_⟩
  · show HeapRel _ _ _ _ v.heap
    rw [hvheap]; exact hrel
  · show v.cas.views.map (viewContent v.heap) = _
    rw [hvheap]; exact hvcontent

/-- the conclusions of `json_roundtrip_flat` the composition uses -/
theorem json_roundtrip_weak (K : Consts) (ts : TypeSystem) (cass : List Cas) (ci : Nat) (c : Cas) (hp0 H : Heap)
    (L : List (Int × Nat)) (tsIdx ci' : Nat) (doc : JDoc)
    (hc : cass[ci]? = some c) (hwf : RTWf c hp0) (hL : LOk K ts c ci H L)
    (hdis : ∀ q ∈ L, ∀ nv ∈ c.views, q.1 ≠ nv.2.sofa.xid)
    (hjson : ∀ q ∈ L, JsonFs ts H q.2)
    (hmem : ∀ nv ∈ c.views, ∀ e ∈ Index.all nv.2.idx, Xmi.slot H e.oid "sofa" ≠ some .none)
    (hmok : MembersOk c H)
    (hdfss : doc.fss = c.views.map (fun p => Json.renderSofa hp0 p.2.sofa) ++ L.map (elemOf ts cass H))
    (hdviews : doc.views = c.views.map (jviewH H)) (hdtypes : doc.types = none) :
    ∃ (ld : Json.Loaded) (fss : List (Int × Val)),
      loadJson K ts tsIdx ci' false false H doc = .ok ld ∧
      (∀ q ∈ L, ∃ (a' : Nat) (o o' : Obj), Json.lookup fss q.1 = some (.ref a') ∧
          H[q.2]? = some o ∧ ld.heap[a']? = some o' ∧ o'.ty = o.ty ∧ o'.xid = some q.1 ∧
          ∀ t : TypeRec, find? ts o.ty = some t → ∀ f ∈ allFeatures t,
            featContent ld.heap a' f.name = featContent H q.2 f.name) ∧
      ld.cas.views.map (viewContent ld.heap) = c.views.map (viewContent H) := by
  obtain ⟨ld, hload, hrel, _, hviews⟩ :=
    json_core_weak K ts cass ci c hp0 H L tsIdx ci' doc hc hwf hL hdis hjson hmem hmok hdfss hdviews hdtypes
  have hxid : ∀ q ∈ L, xidOf ld.heap (naOf H L q.1) = some q.1 := by
    intro q hq
    obtain ⟨o, o', _, ho', _, hx, _⟩ := hrel q hq
    unfold xidOf; rw [ho']; exact hx
  refine ⟨ld, sofaEntries ci' c.views ++ fsEntries (naOf H L) L, hload, ?_, hviews⟩
  intro q hq
  obtain ⟨o, o', ho, ho', hty, hx, _, hslots⟩ := hrel q hq
  refine ⟨naOf H L q.1, o, o', ?_, ho, ho', hty, hx, ?_⟩
  · rw [lookup_append]
    have : Json.lookup (sofaEntries ci' c.views) q.1 = none := by
      apply lookup_none_of_not_mem
      rw [sofaEntries_keys]
      intro hin
      obtain ⟨nv, hnv, e⟩ := List.mem_map.mp hin
      exact hdis q hq nv hnv e.symm
    rw [this]
    apply lookup_of_mem_nodup
    · rw [fsEntries_keys]; exact hL.nodup
    · unfold fsEntries
      exact List.mem_map.mpr ⟨q, hq, rfl⟩
  · intro t ht f hf
    obtain ⟨o2, t2, ho2, ht2, _, _, _, _, _, _, _, _, _, _, _, hfeat, _⟩ := hL.flat q hq
    rw [ho] at ho2; cases ho2
    rw [ht] at ht2; cases ht2
    have hff := hfeat f hf
    obtain ⟨_, _, _, _, _, _, _, _, _, _, _, v, hv, _⟩ := hfeat f hf
    have h1 : featContent H q.2 f.name = dvalOf H v := by
      unfold featContent Xmi.slot Traverse.slot
      rw [ho]; simp only [Option.bind_some, hv, Option.getD_some]
    have h2 : featContent ld.heap (naOf H L q.1) f.name = dvalOf ld.heap (exp3 H (naOf H L) ci' v) := by
      unfold featContent Xmi.slot Traverse.slot
      rw [ho']; simp only [Option.bind_some, hslots f.name v hv, Option.getD_some, E3]
    rw [h1, h2]
    apply dval_exp3 hff v hv
    intro b hb
    subst hb
    obtain ⟨x, hxb, hxl⟩ := hL.closed q hq o ho f.name b hv
    exact ⟨x, hxb, hxid (x, b) hxl⟩

end Cassis.Chain
