/-
JSON round trip, layer 2: `parseFs` on the element written for a flat structure.
-/
import CassisModel.Proofs.RoundTripJsonWriter
import CassisModel.Proofs.RoundTripJsonSofa
import CassisModel.Proofs.Json

namespace Cassis.Json
open Cassis.TS Cassis.Traverse Cassis.Lex Cassis.Xmi Cassis.Xmi.RTB

/-! ### keys -/

/-- a feature name that the JSON format can carry as it is -/
structure NameOk (n : String) : Prop where
  at_ : n.startsWith "@" = false
  hash : n.startsWith "#" = false
  pct : n.startsWith "%" = false
  self : n ≠ "self"
  type : n ≠ "type"

def plainP (p : String × JV) : Bool := !(p.1.startsWith "@") && !(p.1.startsWith "#") && !(p.1.startsWith "%")
def refP (p : String × JV) : Bool := p.1.startsWith "@"
def numP (p : String × JV) : Bool := p.1.startsWith "#"

theorem at_startsWith (n : String) : ("@" ++ n).startsWith "@" = true := by simp
theorem at_startsWith_hash (n : String) : ("@" ++ n).startsWith "#" = false := by simp
theorem hash_startsWith (n : String) : ("#" ++ n).startsWith "#" = true := by simp
theorem hash_startsWith_at (n : String) : ("#" ++ n).startsWith "@" = false := by simp
theorem drop1_at (n : String) : String.ofList (("@" ++ n).toList.drop 1) = n := by simp
theorem drop1_hash (n : String) : String.ofList (("#" ++ n).toList.drop 1) = n := by simp

theorem renameReserved_id {n : String} (h1 : n ≠ "self") (h2 : n ≠ "type") : renameReserved n = n := by
  unfold renameReserved
  simp [h1, h2]

variable {n : String}

theorem plainP_name (h : NameOk n) (j : JV) : plainP (n, j) = true := by
  unfold plainP; simp only [h.at_, h.hash, h.pct]; rfl
theorem plainP_at (j : JV) : plainP ("@" ++ n, j) = false := by
  unfold plainP; simp only [at_startsWith]; rfl
theorem plainP_hash (j : JV) : plainP ("#" ++ n, j) = false := by
  unfold plainP; simp only [hash_startsWith, hash_startsWith_at]; rfl
theorem refP_name (h : NameOk n) (j : JV) : refP (n, j) = false := h.at_
theorem refP_at (j : JV) : refP ("@" ++ n, j) = true := at_startsWith n
theorem refP_hash (j : JV) : refP ("#" ++ n, j) = false := hash_startsWith_at n
theorem numP_name (h : NameOk n) (j : JV) : numP (n, j) = false := h.hash
theorem numP_at (j : JV) : numP ("@" ++ n, j) = false := at_startsWith_hash n
theorem numP_hash (j : JV) : numP ("#" ++ n, j) = true := hash_startsWith n

/-! ### the three kinds of members of one feature -/

/-- keyword arguments from the plain members -/
def pA (cass : List Cas) (isAnn : Bool) (o : Obj) (n : String) (v : Val) : List (String × Val) :=
  match v with
  | .int i => [(n, .int (extInt cass isAnn o n i))]
  | .str s => [(n, .str s)]
  | .bool b => [(n, .bool b)]
  | .float t => if isSpecialFloat t then [] else [(n, .float t)]
  | _ => []

/-- keyword arguments from the `#` members -/
def pB (n : String) (v : Val) : List (String × Val) :=
  match v with
  | .float t => if isSpecialFloat t then [(n, .float t)] else []
  | _ => []

/-- the id a reference member names -/
def refTarget (cass : List Cas) (H : Heap) (v : Val) : Option Int :=
  match v with
  | .sofa ci vn => ((cass[ci]?).bind (fun c => Cas.getViewRec c vn)).map (·.sofa.xid)
  | .ref b => xidOf H b
  | _ => none

/-- the `@` members -/
def pR (cass : List Cas) (H : Heap) (n : String) (v : Val) : List (String × JV) :=
  match refTarget cass H v with
  | some y => [("@" ++ n, .int y)]
  | none => []

def kw (p : String × JV) : String × Val := (renameReserved p.1, valOfJV p.2)

theorem plain_piece (cass : List Cas) (H : Heap) (isAnn : Bool) (o : Obj) (v : Val) (h : NameOk n) :
    ((jmem cass H isAnn o n v).filter plainP).map kw = pA cass isAnn o n v := by
  have hr := renameReserved_id h.self h.type
  cases v with
  | sofa ci vn =>
    unfold jmem pA
    dsimp only
    cases ((cass[ci]?).bind fun c => Cas.getViewRec c vn) with
    | none => rfl
    | some view => simp [plainP_at]
  | ref b =>
    unfold jmem pA
    dsimp only
    cases xidOf H b with
    | none => rfl
    | some x => simp [plainP_at]
  | float t =>
    unfold jmem pA
    dsimp only
    cases isSpecialFloat t with
    | true => simp [plainP_hash]
    | false => simp [plainP_name h, kw, hr, valOfJV]
  | int i => simp [jmem, pA, plainP_name h, kw, hr, valOfJV]
  | str x => simp [jmem, pA, plainP_name h, kw, hr, valOfJV]
  | bool x => simp [jmem, pA, plainP_name h, kw, hr, valOfJV]
  | _ => rfl

theorem ref_piece (cass : List Cas) (H : Heap) (isAnn : Bool) (o : Obj) (v : Val) (h : NameOk n) :
    (jmem cass H isAnn o n v).filter refP = pR cass H n v := by
  cases v with
  | sofa ci vn =>
    unfold jmem pR refTarget
    dsimp only
    cases ((cass[ci]?).bind fun c => Cas.getViewRec c vn) with
    | none => rfl
    | some view => simp [refP_at]
  | ref b =>
    unfold jmem pR refTarget
    dsimp only
    cases xidOf H b with
    | none => rfl
    | some x => simp [refP_at]
  | float t =>
    unfold jmem pR refTarget
    dsimp only
    cases isSpecialFloat t with
    | true => simp [refP_hash]
    | false => simp [refP_name h]
  | int i => simp [jmem, pR, refTarget, refP_name h]
  | str x => simp [jmem, pR, refTarget, refP_name h]
  | bool x => simp [jmem, pR, refTarget, refP_name h]
  | _ => rfl

theorem num_piece (cass : List Cas) (H : Heap) (isAnn : Bool) (o : Obj) (v : Val) (h : NameOk n) :
    parseNums ((jmem cass H isAnn o n v).filter numP) = .ok (pB n v) := by
  have hr := renameReserved_id h.self h.type
  cases v with
  | sofa ci vn =>
    unfold jmem pB
    dsimp only
    cases ((cass[ci]?).bind fun c => Cas.getViewRec c vn) with
    | none => rfl
    | some view => simp [numP_at, parseNums]
  | ref b =>
    unfold jmem pB
    dsimp only
    cases xidOf H b with
    | none => rfl
    | some x => simp [numP_at, parseNums]
  | float t =>
    unfold jmem pB
    dsimp only
    cases ht : isSpecialFloat t with
    | true =>
      have hpf : parseFloatValue (.str t) = .ok (.float t) := by
        have := parseFloatValue_special_aux t ht
        unfold floatElem at this
        rw [ht] at this
        exact this
      simp [numP_hash, parseNums, hpf, hr]
    | false => simp [numP_name h, parseNums]
  | int i => simp [jmem, pB, numP_name h, parseNums]
  | str x => simp [jmem, pB, numP_name h, parseNums]
  | bool x => simp [jmem, pB, numP_name h, parseNums]
  | _ => rfl

/-! ### list level -/

theorem flatMap_congr' {α β} {f g : α → List β} : ∀ (l : List α), (∀ x ∈ l, f x = g x) → l.flatMap f = l.flatMap g
  | [], _ => rfl
  | x :: l, h => by
    rw [List.flatMap_cons, List.flatMap_cons, h x List.mem_cons_self,
      flatMap_congr' l (fun y hy => h y (List.mem_cons_of_mem _ hy))]

theorem parseNums_append : ∀ (A B : List (String × JV)) (a b : List (String × Val)),
    parseNums A = .ok a → parseNums B = .ok b → parseNums (A ++ B) = .ok (a ++ b)
  | [], B, a, b, ha, hb => by
    cases ha; exact hb
  | p :: A, B, a, b, ha, hb => by
    rw [List.cons_append]
    unfold parseNums at ha ⊢
    cases h1 : parseFloatValue p.2 with
    | error e => rw [h1] at ha; cases ha
    | ok v =>
      rw [h1] at ha
      dsimp only at ha ⊢
      cases h2 : parseNums A with
      | error e => rw [h2] at ha; cases ha
      | ok vs =>
        rw [h2] at ha
        dsimp only at ha
        cases ha
        rw [parseNums_append A B vs b h2 hb]
        rfl

theorem parseNums_flatMap {α} (G : α → List (String × JV)) (P : α → List (String × Val)) :
    ∀ (fs : List α), (∀ f ∈ fs, parseNums (G f) = .ok (P f)) → parseNums (fs.flatMap G) = .ok (fs.flatMap P)
  | [], _ => rfl
  | f :: fs, h => by
    rw [List.flatMap_cons, List.flatMap_cons]
    exact parseNums_append _ _ _ _ (h f List.mem_cons_self)
      (parseNums_flatMap G P fs (fun g hg => h g (List.mem_cons_of_mem _ hg)))

theorem aget_append {β} (A B : List (String × β)) (k : String) :
    alistGet? (A ++ B) k = match alistGet? A k with | some v => some v | none => alistGet? B k := by
  induction A with
  | nil => rfl
  | cons p A ih =>
    obtain ⟨k', v'⟩ := p
    rw [List.cons_append,
      show alistGet? ((k', v') :: (A ++ B)) k = (if k' = k then some v' else alistGet? (A ++ B) k) from rfl,
      show alistGet? ((k', v') :: A) k = (if k' = k then some v' else alistGet? A k) from rfl]
    by_cases hk : k' = k
    · rw [if_pos hk, if_pos hk]
    · rw [if_neg hk, if_neg hk]; exact ih

theorem aget_flatMap_none {β} (P : Feature → List (String × β)) (hk : ∀ f, ∀ p ∈ P f, p.1 = f.name) (n : String) :
    ∀ (fs : List Feature), n ∉ fs.map (·.name) → alistGet? (fs.flatMap P) n = none := by
  intro fs hn
  rw [aget_none_iff]
  intro hin
  obtain ⟨p, hp, hpn⟩ := List.mem_map.mp hin
  obtain ⟨f, hf, hpf⟩ := List.mem_flatMap.mp hp
  apply hn
  rw [← hpn, hk f p hpf]
  exact List.mem_map_of_mem hf

theorem aget_flatMap_piece {β} (P : Feature → List (String × β)) (hk : ∀ f, ∀ p ∈ P f, p.1 = f.name) :
    ∀ (fs : List Feature), (fs.map (·.name)).Nodup → ∀ f ∈ fs, alistGet? (fs.flatMap P) f.name = alistGet? (P f) f.name
  | [], _, f, hf => by cases hf
  | g :: fs, hnd, f, hf => by
    rw [List.map_cons, List.nodup_cons] at hnd
    rw [List.flatMap_cons, aget_append]
    rcases List.mem_cons.mp hf with rfl | hf'
    · cases h : alistGet? (P f) f.name with
      | some v => rfl
      | none => exact aget_flatMap_none P hk f.name fs hnd.1
    · have hne : alistGet? (P g) f.name = none := by
        rw [aget_none_iff]
        intro hin
        obtain ⟨p, hp, hpn⟩ := List.mem_map.mp hin
        rw [hk g p hp] at hpn
        apply hnd.1
        rw [hpn]
        exact List.mem_map_of_mem hf'
      rw [hne]
      exact aget_flatMap_piece P hk fs hnd.2 f hf'

/-! ### `parseFs`, step by step -/

/-- the conversion of the offsets at the end of `parseFs` -/
def convStep (ts : TypeSystem) (cas : Cas) (t : TypeRec) (heap1 : Heap) (addr : Nat) : Except Err Heap :=
  if isInstanceOf ts t.name ANNOTATION then
    match Xmi.slot heap1 addr "sofa" with
    | some (.sofa _ vn) =>
      match Cas.getViewRec cas vn with
      | some view => Xmi.convertOffsets view.sofa.conv heap1 addr
      | none => .error .attributeError
    | _ => .error .attributeError
  else .ok heap1

theorem parseFs_steps (K : Consts) (ts : TypeSystem) (tsIdx : Nat) (s : RState) (e : JFs) (t : TypeRec) (x : Int)
    (nums : List (String × Val)) (o0 : Obj) (heap1 heapF : Heap) (ds : List Deferred)
    (hty : e.ty.endsWith "[]" = false) (hgt : getTypeExact ts e.ty = .ok t) (hid : e.id = some x)
    (hpa : isPrimitiveArray K t.name = false) (hfa : t.name ≠ FS_ARRAY)
    (hnums : parseNums (e.feats.filter numP) = .ok nums)
    (hcons : construct t tsIdx (some x) ((e.feats.filter plainP).map kw ++ nums) = .ok o0)
    (hres : resolveRefs renameReserved s.fss s.heap.length (e.feats.filter refP) (s.heap ++ [o0], s.deferred) = .ok (heap1, ds))
    (hconv : convStep ts s.cas t heap1 s.heap.length = .ok heapF) :
    parseFs K ts tsIdx s e =
      .ok { s with heap := heapF, fss := setFs s.fss x (.ref s.heap.length), deferred := ds, maxId := max s.maxId x } := by
  unfold parseFs
  rw [hty]
  simp only [Bool.false_eq_true, if_false]
  rw [hgt]
  dsimp only
  rw [hid]
  dsimp only
  have e1 : (e.feats.filter fun p => p.1.startsWith "#") = e.feats.filter numP := rfl
  have e2 : (e.feats.filter fun p => !(p.1.startsWith "@") && !(p.1.startsWith "#") && !(p.1.startsWith "%")) = e.feats.filter plainP := rfl
  have e3 : (e.feats.filter fun p => p.1.startsWith "@") = e.feats.filter refP := rfl
  rw [e1, e2, e3, hnums]
  dsimp only
  have hfa' : (t.name == FS_ARRAY) = false := by simp [hfa]
  rw [hpa, hfa']
  simp only [Bool.false_eq_true, if_false]
  have e4 : (e.feats.filter plainP).map (fun p => (renameReserved p.1, valOfJV p.2)) = (e.feats.filter plainP).map kw := rfl
  rw [e4, hcons]
  dsimp only
  rw [hres]
  dsimp only
  show (match convStep ts s.cas t heap1 s.heap.length with
    | .error e => (Except.error e : Except Err RState)
    | .ok heap => Except.ok { s with heap := heap, fss := setFs s.fss x (.ref s.heap.length), deferred := ds, maxId := max s.maxId x }) = _
  rw [hconv]

/-! ### references -/

def setObj (oc : Obj) (k : String) (v : Val) : Obj := { oc with slots := alistSet oc.slots k v }

theorem get_last {α} (pre : List α) (x : α) : (pre ++ [x])[pre.length]? = some x := by simp

theorem set_last {α} (pre : List α) (x y : α) : (pre ++ [x]).set pre.length y = pre ++ [y] := by simp

theorem setSlot_last (pre : Heap) (oc : Obj) (k : String) (v w : Val) (h : alistGet? oc.slots k = some w) :
    Heap.setSlot (pre ++ [oc]) pre.length k v = .ok (pre ++ [setObj oc k v]) := by
  rw [setSlot_existing v (get_last pre oc) h, set_last]
  rfl

/-- the object after the references of the features `fs` have been looked up -/
def resObj (fss : List (Int × Val)) (tgt : Feature → Option Int) : List Feature → Obj → Obj
  | [], oc => oc
  | f :: fs, oc =>
    resObj fss tgt fs (match (tgt f).bind (lookup fss) with
      | some tv => setObj oc f.name tv
      | none => oc)

/-- the references of the features `fs` whose targets are not yet known -/
def resDef (fss : List (Int × Val)) (tgt : Feature → Option Int) (addr : Nat) : List Feature → List Deferred
  | [] => []
  | f :: fs =>
    (match tgt f with
     | some y =>
       match lookup fss y with
       | some _ => []
       | none => [{ addr := addr, slot := f.name, target := some y, elems := none }]
     | none => []) ++ resDef fss tgt addr fs

def refMem (tgt : Feature → Option Int) (f : Feature) : List (String × JV) :=
  match tgt f with
  | some y => [("@" ++ f.name, .int y)]
  | none => []

theorem setObj_keys (oc : Obj) (k : String) (v : Val) (h : k ∈ oc.slots.map (·.1)) :
    (setObj oc k v).slots.map (·.1) = oc.slots.map (·.1) := aset_keys _ _ _ h

theorem resolveRefs_flat (fss : List (Int × Val)) (tgt : Feature → Option Int) (pre : Heap) :
    ∀ (fs : List Feature) (oc : Obj) (ds : List Deferred),
      (∀ f ∈ fs, f.name ≠ "self" ∧ f.name ≠ "type" ∧ f.name ∈ oc.slots.map (·.1)) →
      resolveRefs renameReserved fss pre.length (fs.flatMap (refMem tgt)) (pre ++ [oc], ds) =
        .ok (pre ++ [resObj fss tgt fs oc], ds ++ resDef fss tgt pre.length fs)
  | [], oc, ds, _ => by
    simp [resolveRefs, resObj, resDef]
  | f :: fs, oc, ds, h => by
    obtain ⟨h1, h2, h3⟩ := h f List.mem_cons_self
    have hrest : ∀ oc' : Obj, oc'.slots.map (·.1) = oc.slots.map (·.1) →
        ∀ g ∈ fs, g.name ≠ "self" ∧ g.name ≠ "type" ∧ g.name ∈ oc'.slots.map (·.1) := by
      intro oc' hk g hg
      obtain ⟨g1, g2, g3⟩ := h g (List.mem_cons_of_mem _ hg)
      exact ⟨g1, g2, by rw [hk]; exact g3⟩
    rw [List.flatMap_cons]
    unfold refMem resObj resDef
    cases ht : tgt f with
    | none =>
      dsimp only
      rw [List.nil_append, List.nil_append]
      have := resolveRefs_flat fss tgt pre fs oc ds (hrest oc rfl)
      unfold refMem at this
      rw [this]
      rfl
    | some y =>
      dsimp only
      rw [List.cons_append, List.nil_append]
      unfold resolveRefs
      dsimp only
      rw [drop1_at, renameReserved_id h1 h2]
      cases hl : lookup fss y with
      | some tv =>
        dsimp only [Option.bind_some]
        rw [hl]
        dsimp only
        obtain ⟨w, hw⟩ := Option.isSome_iff_exists.mp ((aget_isSome_iff oc.slots f.name).mpr h3)
        rw [setSlot_last pre oc f.name tv w hw]
        dsimp only
        have := resolveRefs_flat fss tgt pre fs (setObj oc f.name tv) ds (hrest _ (setObj_keys oc f.name tv h3))
        unfold refMem at this
        rw [this, List.nil_append]
      | none =>
        dsimp only [Option.bind_some]
        rw [hl]
        dsimp only
        have := resolveRefs_flat fss tgt pre fs oc (ds ++ [{ addr := pre.length, slot := f.name, target := some y, elems := none }]) (hrest oc rfl)
        unfold refMem at this
        rw [this, List.append_assoc]

section
variable (fss : List (Int × Val)) (tgt : Feature → Option Int)

theorem resObj_fields : ∀ (fs : List Feature) (oc : Obj),
    (resObj fss tgt fs oc).ty = oc.ty ∧ (resObj fss tgt fs oc).xid = oc.xid ∧ (resObj fss tgt fs oc).ts = oc.ts
  | [], _ => ⟨rfl, rfl, rfl⟩
  | f :: fs, oc => by
    unfold resObj
    cases (tgt f).bind (lookup fss) with
    | none => exact resObj_fields fs oc
    | some tv => exact resObj_fields fs (setObj oc f.name tv)

theorem resObj_keys : ∀ (fs : List Feature) (oc : Obj), (∀ f ∈ fs, f.name ∈ oc.slots.map (·.1)) →
    (resObj fss tgt fs oc).slots.map (·.1) = oc.slots.map (·.1)
  | [], _, _ => rfl
  | f :: fs, oc, h => by
    unfold resObj
    cases (tgt f).bind (lookup fss) with
    | none => exact resObj_keys fs oc (fun g hg => h g (List.mem_cons_of_mem _ hg))
    | some tv =>
      dsimp only
      have hk := setObj_keys oc f.name tv (h f List.mem_cons_self)
      rw [resObj_keys fs (setObj oc f.name tv) (fun g hg => by rw [hk]; exact h g (List.mem_cons_of_mem _ hg)), hk]

theorem resObj_other (n : String) : ∀ (fs : List Feature) (oc : Obj), n ∉ fs.map (·.name) →
    alistGet? (resObj fss tgt fs oc).slots n = alistGet? oc.slots n
  | [], _, _ => rfl
  | f :: fs, oc, h => by
    rw [List.map_cons, List.mem_cons, not_or] at h
    unfold resObj
    cases (tgt f).bind (lookup fss) with
    | none => exact resObj_other n fs oc h.2
    | some tv =>
      dsimp only
      rw [resObj_other n fs _ h.2]
      exact alistGet?_set_other _ _ _ _ h.1

theorem resObj_at : ∀ (fs : List Feature) (oc : Obj), (fs.map (·.name)).Nodup → ∀ f ∈ fs,
    alistGet? (resObj fss tgt fs oc).slots f.name =
      match (tgt f).bind (lookup fss) with
      | some tv => some tv
      | none => alistGet? oc.slots f.name
  | [], _, _, f, hf => by cases hf
  | g :: fs, oc, hnd, f, hf => by
    rw [List.map_cons, List.nodup_cons] at hnd
    rcases List.mem_cons.mp hf with rfl | hf'
    · unfold resObj
      rw [resObj_other fss tgt f.name fs _ hnd.1]
      cases (tgt f).bind (lookup fss) with
      | none => rfl
      | some tv => exact alistGet?_set_same _ _ _
    · have hne : f.name ≠ g.name := by
        intro e
        apply hnd.1
        rw [← e]
        exact List.mem_map_of_mem hf'
      unfold resObj
      rw [resObj_at fs _ hnd.2 f hf']
      cases (tgt f).bind (lookup fss) with
      | some tv => rfl
      | none =>
        dsimp only
        cases (tgt g).bind (lookup fss) with
        | none => rfl
        | some tv' => exact alistGet?_set_other _ _ _ _ hne

theorem resDef_mem (addr : Nat) : ∀ (fs : List Feature), ∀ f ∈ fs, ∀ y, tgt f = some y → lookup fss y = none →
    ({ addr := addr, slot := f.name, target := some y, elems := none } : Deferred) ∈ resDef fss tgt addr fs
  | [], f, hf, _, _, _ => by cases hf
  | g :: fs, f, hf, y, ht, hl => by
    unfold resDef
    rcases List.mem_cons.mp hf with rfl | hf'
    · rw [ht]
      dsimp only
      rw [hl]
      exact List.mem_append_left _ List.mem_cons_self
    · exact List.mem_append_right _ (resDef_mem addr fs f hf' y ht hl)

theorem resDef_sound (addr : Nat) : ∀ (fs : List Feature), ∀ d ∈ resDef fss tgt addr fs,
    ∃ f ∈ fs, ∃ y, tgt f = some y ∧ lookup fss y = none ∧
      d = { addr := addr, slot := f.name, target := some y, elems := none }
  | [], d, hd => by cases hd
  | g :: fs, d, hd => by
    unfold resDef at hd
    rcases List.mem_append.mp hd with hd | hd
    · cases ht : tgt g with
      | none => rw [ht] at hd; cases hd
      | some y =>
        rw [ht] at hd
        dsimp only at hd
        cases hl : lookup fss y with
        | some tv => rw [hl] at hd; cases hd
        | none =>
          rw [hl] at hd
          rw [List.mem_singleton] at hd
          exact ⟨g, List.mem_cons_self, y, ht, hl, hd⟩
    · obtain ⟨f, hf, y, h1, h2, h3⟩ := resDef_sound addr fs d hd
      exact ⟨f, List.mem_cons_of_mem _ hf, y, h1, h2, h3⟩

end

end Cassis.Json
