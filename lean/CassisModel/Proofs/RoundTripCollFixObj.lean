/-
Fixpoint of the XMI round trip with collections, per structure: the loaded counterpart of a collected structure is in
the fragment `CollFs` again (in the loaded CAS), is rendered as the identical element, and its targets are the loaded
counterparts of the targets of the written structure (`ObjFix`, `fix_obj`).
-/
import CassisModel.Proofs.RoundTripCollFixFeatList

namespace Cassis.Xmi.CFX
open Cassis.TS Cassis.Traverse Cassis.Lex Cassis.Xmi

/-- the statement per collected structure -/
structure ObjFix (K : Consts) (ts : TypeSystem) (cass cass' : List Cas) (c' : Cas) (ci' : Nat) (H hpL : Heap)
    (L : List (Int × Nat)) (na : Int → Nat) (q : Int × Nat) : Prop where
  coll : CollFs K ts c' ci' hpL (na q.1)
  render : renderFs K ts cass' hpL (na q.1) = renderFs K ts cass H q.2
  fwd : ∀ b', Target K ts hpL (na q.1) b' → ∃ q' ∈ L, b' = na q'.1
  bwd : ∀ b x, Target K ts H q.2 b → (x, b) ∈ L → Target K ts hpL (na q.1) (na x)

theorem renderFeatures_congr {K : Consts} {ts : TypeSystem} {cass cass' : List Cas} {H hpL : Heap} {a a' : Nat}
    {isAnn : Bool} : ∀ (fs : List Feature),
      (∀ f ∈ fs, renderFeature K ts cass' hpL a' isAnn f = renderFeature K ts cass H a isAnn f) →
      renderFeatures K ts cass' hpL a' isAnn fs = renderFeatures K ts cass H a isAnn fs
  | [], _ => rfl
  | f :: fs, h => by
    simp only [renderFeatures]
    rw [h f List.mem_cons_self, renderFeatures_congr fs (fun g hg => h g (List.mem_cons_of_mem _ hg))]

/-- a target is a target through one of the features, or an element of the FSArray object itself -/
theorem target_cases {K : Consts} {ts : TypeSystem} {H : Heap} {a b : Nat} {o : Obj} {t : TypeRec}
    (ho : H[a]? = some o) (ht : find? ts o.ty = some t) (hb : Target K ts H a b) :
    (∃ f ∈ allFeatures t, CT.FT K H o f b) ∨
    (o.ty = FS_ARRAY ∧ ∃ l : List (Option Nat), alistGet? o.slots "elements" = some (.refs l) ∧ some b ∈ l) := by
  obtain ⟨o', t', ho', ht', hcase⟩ := hb
  rw [ho] at ho'; cases ho'
  rw [ht] at ht'; cases ht'
  rcases hcase with ⟨f, hf, h1, h2⟩ | ⟨f, hf, h1, h2, c', l, h3, h4, h5⟩ | ⟨f, hf, h1, h2, c', hs, h3, h4, h5⟩ | h
  · exact .inl ⟨f, hf, .inl ⟨h1, h2⟩⟩
  · exact .inl ⟨f, hf, .inr (.inl ⟨h1, h2, c', l, h3, h4, h5⟩)⟩
  · exact .inl ⟨f, hf, .inr (.inr ⟨h1, h2, c', hs, h3, h4, h5⟩)⟩
  · exact .inr h

section
variable {K : Consts} {ts : TypeSystem} {cass cass' : List Cas} {c c' : Cas} {ci ci' : Nat} {hp H hpL : Heap}
  {L : List (Int × Nat)} {na : Int → Nat} {ia : Int → String → Nat}

/-! ### general structures -/

theorem fix_gen (hc : cass[ci]? = some c) (hc' : cass'[ci']? = some c') (hwf : RTWf c hp) (hL : LOkC K ts c ci H L)
    (hrel : HeapRel H L na (E3c K ts H na ia ci') hpL) (hcolls : CollsAt K ts H L na ia hpL)
    (hviews : ViewsRel H na c c') (q : Int × Nat) (hq : q ∈ L) (hgen : GenFs K ts c ci H q.2) :
    ObjFix K ts cass cass' c' ci' H hpL L na q := by
  obtain ⟨o, t, ho, ht, htn, g1, g2, g3, hpa, hfa, g6, g7, g8, hnd, hsl, hfeat, hann⟩ := hgen
  obtain ⟨o1, o', ho1, ho', hty, hx', hkeys, hslots⟩ := hrel q hq
  rw [ho] at ho1; cases ho1
  have hxid : ∀ q ∈ L, xidOf hpL (na q.1) = some q.1 := by
    intro q hq
    obtain ⟨_, o2, _, ho2, _, hx2, _⟩ := hrel q hq
    unfold xidOf; rw [ho2]; exact hx2
  have h : Loc K ts c ci H L na ia ci' hpL q o o' t := ⟨hL, hxid, hcolls, hq, ho, ho', hty, hkeys, hslots, ht⟩
  have r : RCtx cass cass' c c' ci ci' hp H na (isInstanceOf ts o.ty ANNOTATION) o := ⟨hc, hc', hwf, hviews, hann⟩
  have hff : ∀ f ∈ allFeatures t,
      FeatFix K ts cass cass' c' ci' H hpL L na q.2 (na q.1) (isInstanceOf ts o.ty ANNOTATION) o o' f :=
    fun f hf => fix_feat h r hnd hf (hfeat f hf)
  have ht' : find? ts o'.ty = some t := by rw [hty]; exact ht
  refine ⟨.inl ⟨o', t, ho', ?_⟩, ?_, ?_, ?_⟩
  · rw [hty, hkeys]
    exact ⟨ht, htn, g1, g2, g3, hpa, hfa, g6, g7, g8, hnd, hsl, fun f hf => (hff f hf).coll, r.ann' h⟩
  · have hgt : getType ts o.ty = .ok t := getType_of_find ht
    have hfa' : (o.ty == FS_ARRAY) = false := by simp [hfa]
    unfold renderFs
    simp only [ho, ho', pure, Except.pure, bind, Except.bind, hty, hpa, hfa', Bool.or_self, Bool.false_eq_true,
      if_false, hgt, hx', h.ox]
    rw [renderFeatures_congr (allFeatures t) (fun f hf => (hff f hf).render)]
  · intro b' hb'
    rcases target_cases ho' ht' hb' with ⟨f, hf, hft⟩ | ⟨hfs, _⟩
    · exact (hff f hf).fwd b' hft
    · rw [hty] at hfs; exact absurd hfs hfa
  · intro b x hb hx
    rcases target_cases ho ht hb with ⟨f, hf, hft⟩ | ⟨hfs, _⟩
    · exact target_of_ft ho' ht' hf ((hff f hf).bwd b x hft hx)
    · exact absurd hfs hfa

/-! ### array objects -/

/-- the targets of an array object: the elements of an FSArray -/
theorem target_arr {a b : Nat} {o : Obj} {t : TypeRec} {f : Feature} {ev : Val}
    (ho : H[a]? = some o) (ht : find? ts o.ty = some t) (hall : allFeatures t = [f]) (hfn : f.name = "elements")
    (hfr : f.range = TOP) (hsl : o.slots = [("elements", ev)]) (hnoref : ∀ b, ev ≠ .ref b)
    (hb : Target K ts H a b) : o.ty = FS_ARRAY ∧ ∃ l, ev = .refs l ∧ some b ∈ l := by
  have hel : alistGet? o.slots "elements" = some ev := by rw [hsl]; exact CAR.get_elems _
  rcases target_cases ho ht hb with ⟨g, hgm, hft⟩ | ⟨hty, l, h3, h4⟩
  · rw [hall] at hgm
    have := List.mem_singleton.mp hgm
    subst this
    rcases hft with ⟨_, h2⟩ | ⟨_, h2, _⟩ | ⟨_, h2, _⟩
    · rw [hfn, hel] at h2
      cases h2
      exact absurd rfl (hnoref b)
    · rw [hfr] at h2; exact absurd h2 (by decide)
    · rw [hfr] at h2; exact absurd h2 (by decide)
  · rw [hel] at h3; cases h3
    exact ⟨hty, l, rfl, h4⟩

theorem elemsExp_noref (H : Heap) (na : Int → Nat) (ev : Val) (b : Nat) : elemsExp H na ev ≠ .ref b := by
  cases ev with
  | refs l => intro h; cases h
  | ints l => cases l <;> (intro h; cases h)
  | bools l => cases l <;> (intro h; cases h)
  | floats l => cases l <;> (intro h; cases h)
  | strs l => cases l <;> (intro h; cases h)
  | _ => intro h; cases h

theorem E3c_noref {o : Obj} {n : String} {ev : Val} (h : ∀ b, ev ≠ .ref b) (b : Nat) :
    E3c K ts H na ia ci' o n ev ≠ .ref b := by
  cases ev with
  | ref a => exact absurd rfl (h a)
  | refs l => exact elemsExp_noref H na (.refs l) b
  | ints l => exact elemsExp_noref H na (.ints l) b
  | bools l => exact elemsExp_noref H na (.bools l) b
  | floats l => exact elemsExp_noref H na (.floats l) b
  | strs l => exact elemsExp_noref H na (.strs l) b
  | _ => intro hh; cases hh

theorem fix_arr (hL : LOkC K ts c ci H L)
    (hrel : HeapRel H L na (E3c K ts H na ia ci') hpL) (q : Int × Nat) (hq : q ∈ L) (harr : ArrFs K ts H q.2) :
    ObjFix K ts cass cass' c' ci' H hpL L na q := by
  obtain ⟨o, t, f, ev, ho, ht, htn, hsup, hall, hfn, hfr, hres, hsl, hna, hshape⟩ := harr
  obtain ⟨o1, o', ho1, ho', hty, hx', hkeys, hslots⟩ := hrel q hq
  rw [ho] at ho1; cases ho1
  have hox : o.xid = some q.1 := by
    have := (hL.ids q hq).1
    unfold xidOf at this; rw [ho] at this; exact this
  have hxid : ∀ q ∈ L, xidOf hpL (na q.1) = some q.1 := by
    intro q hq
    obtain ⟨_, o2, _, ho2, _, hx2, _⟩ := hrel q hq
    unfold xidOf; rw [ho2]; exact hx2
  have ht' : find? ts o'.ty = some t := by rw [hty]; exact ht
  have hel : alistGet? o.slots "elements" = some ev := by rw [hsl]; exact CAR.get_elems _
  obtain ⟨w, hw⟩ := CAR.keys_elems o'.slots (by rw [hkeys, hsl]; rfl)
  have hwe : w = E3c K ts H na ia ci' o "elements" ev := by
    have := hslots _ _ hel
    rw [hw, CAR.get_elems] at this
    exact Option.some.inj this
  -- the targets of the written structure are collected
  have hres' : ∀ b, Target K ts H q.2 b →
      ∃ x, xidOf H b = some x ∧ (x, b) ∈ L ∧ xidOf hpL (na x) = some x ∧ x ≠ 0 := by
    intro b hb
    obtain ⟨x, hx, hxl⟩ := hL.closed q hq b hb
    exact ⟨x, hx, hxl, hxid _ hxl, (hL.ids _ hxl).2⟩
  -- the loaded structure is an array object, given the shape of its elements
  have mk : ( (o.ty = FS_ARRAY ∧ isPrimitiveArray K FS_ARRAY = false ∧ isInstanceOf ts FS_ARRAY STRING_ARRAY = false ∧
        (w = .none ∨ FsElems hpL w))
      ∨ (o.ty = STRING_ARRAY ∧ isPrimitiveArray K STRING_ARRAY = true ∧ StrElems w)
      ∨ (PrimArrTy o.ty ∧ isPrimitiveArray K o.ty = true ∧ isInstanceOf ts o.ty STRING_ARRAY = false ∧
        (w = .none ∨ PrimElems o.ty w)) ) → CollFs K ts c' ci' hpL (na q.1) := by
    intro hs
    refine .inr ⟨o', t, f, w, ho', ?_⟩
    rw [hty]
    exact ⟨ht, htn, hsup, hall, hfn, hfr, hres, hw, hna, hs⟩
  -- the elements are never a reference
  have hnr : ∀ b, ev ≠ .ref b := by
    intro b hb
    subst hb
    rcases hshape with ⟨_, _, _, h | ⟨l, h, _⟩⟩ | ⟨_, _, h | ⟨l, h⟩⟩ | ⟨_, _, _, h | h⟩
    · cases h
    · cases h
    · cases h
    · cases h
    · cases h
    · rcases h with h | ⟨_, l, h⟩ | ⟨_, l, h, _⟩ | ⟨_, l, h⟩ | ⟨_, l, h, _⟩ <;> cases h
  have hnr' : ∀ b, w ≠ .ref b := by
    intro b
    rw [hwe]
    exact E3c_noref hnr b
  -- no targets on either side
  have notgt : o.ty ≠ FS_ARRAY ∨ (ev = .none ∧ w = .none) →
      (∀ b', Target K ts hpL (na q.1) b' → ∃ q' ∈ L, b' = na q'.1) ∧
      (∀ b x, Target K ts H q.2 b → (x, b) ∈ L → Target K ts hpL (na q.1) (na x)) := by
    intro hno
    constructor
    · intro b' hb'
      obtain ⟨hfs, l, hl, _⟩ := target_arr ho' ht' hall hfn hfr hw hnr' hb'
      rcases hno with hno | ⟨_, hno⟩
      · rw [hty] at hfs; exact absurd hfs hno
      · rw [hno] at hl; cases hl
    · intro b x hb _
      obtain ⟨hfs, l, hl, _⟩ := target_arr ho ht hall hfn hfr hsl hnr hb
      rcases hno with hno | ⟨hno, _⟩
      · exact absurd hfs hno
      · rw [hno] at hl; cases hl
  rcases hshape with ⟨hfs, k1, k2, hev⟩ | ⟨hsa, k1, hev⟩ | ⟨hpr, k1, k2, hev⟩
  · -- FSArray
    have hb : (isPrimitiveArray K o.ty || o.ty == FS_ARRAY) = true := by rw [hfs]; simp
    have hb' : (isPrimitiveArray K o'.ty || o'.ty == FS_ARRAY) = true := by rw [hty]; exact hb
    rcases hev with rfl | ⟨l, rfl, hok⟩
    · have hwn : w = .none := hwe
      subst hwn
      obtain ⟨n1, n2⟩ := notgt (.inr ⟨rfl, rfl⟩)
      refine ⟨mk (.inl ⟨hfs, k1, k2, .inl rfl⟩), ?_, n1, n2⟩
      rw [CAR.render_none K ts cass' ho' hw hx' hb', CAR.render_none K ts cass ho hsl hox hb, hty]
    · have hres : ∀ b ∈ l, ∃ x, xidOf H b = some x ∧ (x, b) ∈ L ∧ xidOf hpL (na x) = some x ∧ x ≠ 0 := by
        intro b hb
        exact hres' b ⟨o, t, ho, ht, .inr (.inr (.inr ⟨hfs, l.map some, hel, List.mem_map_of_mem hb⟩))⟩
      have hww : w = .refs ((l.map (fun b => na (CAR.idOf H b))).map some) := by
        rw [hwe, ← fs_exp H na l (fun b hb => (hres b hb).imp (fun x hx => hx.1))]
        rfl
      subst hww
      have hok' : ∀ b' ∈ l.map (fun b => na (CAR.idOf H b)), RefOk hpL b' := by
        intro b' hb'
        obtain ⟨b, hb, rfl⟩ := List.mem_map.mp hb'
        obtain ⟨x, h1, _, h3, h4⟩ := hres b hb
        rw [idOf_eq h1]
        exact refOk_new h3 h4
      have hfs' : o'.ty = FS_ARRAY := by rw [hty]; exact hfs
      have hel' : alistGet? o'.slots "elements" = some (.refs ((l.map (fun b => na (CAR.idOf H b))).map some)) := by
        rw [hw]; exact CAR.get_elems _
      refine ⟨mk (.inl ⟨hfs, k1, k2, .inr ⟨_, rfl, hok'⟩⟩), ?_, ?_, ?_⟩
      · rw [CAR.render_refs K ts cass' _ _ ho' hw hx' hfs' (by rw [hfs']; exact k2) (CG1.refIds_ok hpL _ hok'),
          CAR.render_refs K ts cass _ _ ho hsl hox hfs (by rw [hfs]; exact k2) (CG1.refIds_ok H l hok), hty]
        rw [List.map_map]
        congr 6
        apply List.map_congr_left
        intro b hb
        obtain ⟨x, h1, _, h3, _⟩ := hres b hb
        simp only [Function.comp, idOf_eq h1]
        exact idTok_new h1 h3
      · intro b' hb'
        obtain ⟨_, l2, hl2, hb2⟩ := target_arr ho' ht' hall hfn hfr hw (fun b h => by cases h) hb'
        cases hl2
        obtain ⟨b1, hb1, hbe⟩ := List.mem_map.mp hb2
        cases hbe
        obtain ⟨b, hb, rfl⟩ := List.mem_map.mp hb1
        obtain ⟨x, h1, h2, _⟩ := hres b hb
        exact ⟨_, h2, by rw [idOf_eq h1]⟩
      · intro b x hb hx
        obtain ⟨_, l2, hl2, hb2⟩ := target_arr ho ht hall hfn hfr hsl (fun b h => by cases h) hb
        cases hl2
        obtain ⟨b1, hb1, hbe⟩ := List.mem_map.mp hb2
        cases hbe
        refine ⟨o', t, ho', ht', .inr (.inr (.inr ⟨hfs', _, hel', ?_⟩))⟩
        refine List.mem_map_of_mem (List.mem_map.mpr ⟨b, hb1, ?_⟩)
        rw [idOf_eq (hL.ids _ hx).1]
  · -- StringArray
    have hne : o.ty ≠ FS_ARRAY := by rw [hsa]; decide
    obtain ⟨n1, n2⟩ := notgt (.inl hne)
    have hb : (isPrimitiveArray K o.ty || o.ty == FS_ARRAY) = true := by rw [hsa, k1]; rfl
    have hb' : (isPrimitiveArray K o'.ty || o'.ty == FS_ARRAY) = true := by rw [hty]; exact hb
    have hinst : isInstanceOf ts o.ty STRING_ARRAY = true := by rw [hsa]; exact CAR.strArr_self ts
    have hinst' : isInstanceOf ts o'.ty STRING_ARRAY = true := by rw [hty]; exact hinst
    have hempty : (ev = .refs [] ∨ ev = .strs []) → ObjFix K ts cass cass' c' ci' H hpL L na q := by
      intro hemp
      have hwn : w = .refs [] := by
        rw [hwe]; rcases hemp with rfl | rfl <;> rfl
      subst hwn
      refine ⟨mk (.inr (.inl ⟨hsa, k1, .inl rfl⟩)), ?_, n1, n2⟩
      rw [CAR.render_strNil K ts cass' ho' hw hx' hb' hinst', hty]
      rcases hemp with rfl | rfl
      · rw [CAR.render_strNil K ts cass ho hsl hox hb hinst]
      · rw [CAR.render_strs K ts cass [] ho hsl hox hb hinst]
        rfl
    rcases hev with he | ⟨l, rfl⟩
    · exact hempty (.inl he)
    · cases l with
      | nil => exact hempty (.inr rfl)
      | cons e l =>
        have hwn : w = .strs ((e :: l).map normTxt) := hwe
        subst hwn
        refine ⟨mk (.inr (.inl ⟨hsa, k1, .inr ⟨_, rfl⟩⟩)), ?_, n1, n2⟩
        rw [CAR.render_strs K ts cass' _ ho' hw hx' hb' hinst', CAR.render_strs K ts cass _ ho hsl hox hb hinst, hty]
        have hk : ((e :: l).map normTxt).map (fun e => ("elements", normTxt e))
            = (e :: l).map (fun e => ("elements", normTxt e)) := by
          rw [List.map_map]
          apply List.map_congr_left
          intro e' _
          simp only [Function.comp, normTxt_idem]
        rw [hk]
  · -- primitive arrays
    have hne : o.ty ≠ FS_ARRAY := (CAR.primArrTy_ne hpr).1
    obtain ⟨n1, n2⟩ := notgt (.inl hne)
    have hb : (isPrimitiveArray K o.ty || o.ty == FS_ARRAY) = true := by rw [k1]; rfl
    have hb' : (isPrimitiveArray K o'.ty || o'.ty == FS_ARRAY) = true := by rw [hty]; exact hb
    rcases hev with rfl | hP
    · have hwn : w = .none := hwe
      subst hwn
      refine ⟨mk (.inr (.inr ⟨hpr, k1, k2, .inl rfl⟩)), ?_, n1, n2⟩
      rw [CAR.render_none K ts cass' ho' hw hx' hb', CAR.render_none K ts cass ho hsl hox hb, hty]
    · have hwn : w = elemsExp H na ev := by
        rw [hwe]
        have := CAR.primElems_list hP
        cases ev <;> first | rfl | cases this
      subst hwn
      have hP' := primElems_exp H na hP
      obtain ⟨hnone, s, hsp⟩ := CG1.showPrimArray_ok hP
      obtain ⟨hnone', _, _⟩ := CG1.showPrimArray_ok hP'
      refine ⟨mk (.inr (.inr ⟨hpr, k1, k2, .inr hP'⟩)), ?_, n1, n2⟩
      rw [CAR.render_prim K ts cass' _ s ho' hw hx' hnone' (by rw [hty]; exact k1) (by rw [hty]; exact hne)
          (by rw [hty]; exact k2) (by rw [hty, showPrimArray_exp H na hP]; exact hsp),
        CAR.render_prim K ts cass ev s ho hsl hox hnone k1 hne k2 hsp, hty]

/-! ### every collected structure -/

theorem fix_obj (hc : cass[ci]? = some c) (hc' : cass'[ci']? = some c') (hwf : RTWf c hp) (hL : LOkC K ts c ci H L)
    (hrel : HeapRel H L na (E3c K ts H na ia ci') hpL) (hcolls : CollsAt K ts H L na ia hpL)
    (hviews : ViewsRel H na c c') (q : Int × Nat) (hq : q ∈ L) :
    ObjFix K ts cass cass' c' ci' H hpL L na q := by
  rcases hL.coll q hq with hg | ha
  · exact fix_gen hc hc' hwf hL hrel hcolls hviews q hq hg
  · exact fix_arr hL hrel q hq ha

end

end Cassis.Xmi.CFX
