/-
Soundness of the Boolean checkers of `Spec/RoundTripJsonCollCheck.lean`: each `…B … = true` implies the corresponding
part of the fragment `JCollFs` (`Spec/RoundTripJsonCollFrag.lean`); `jcollAppliesB_hyps` gives every hypothesis of
`json_roundtrip_coll` from `jcollAppliesB … = true` (parallel to `collAppliesB_hyps`, `Proofs/RoundTripCollCheck.lean`).
-/
import CassisModel.Spec.RoundTripJsonCollCheck
import CassisModel.Proofs.RoundTripCollCheck
import CassisModel.Proofs.RoundTripJsonDemo

namespace Cassis.Json
open Cassis.TS Cassis.Traverse Cassis.Xmi

/-! ### `JsonFs` -/

theorem jsonOkB_eq : jsonOkB = Demo.jsonFsB := rfl

theorem jsonOkB_sound (ts : TypeSystem) (hp : Heap) (a : Nat) (h : jsonOkB ts hp a = true) : JsonFs ts hp a := by
  rw [jsonOkB_eq] at h
  exact Demo.jsonFsB_sound ts hp a h

/-! ### features of a general structure -/

theorem spineEndsB_sound (hp : Heap) (b : Nat) (h : spineEndsB hp b = true) : SpineEnds hp b := by
  unfold spineEndsB at h
  cases hc : collectList hp (hp.length + 1) (.ref b) with
  | error e => rw [hc] at h; exact absurd h (by simp)
  | ok hs => exact ⟨hs, hc⟩

theorem jrefOkB_sound (K : Consts) (hp : Heap) (f : Feature) (v : Val) (h : jrefOkB K hp f v = true) :
    v = .none ∨ ∃ b : Nat, v = .ref b ∧ (isInline K f = true → isArray K f.range = false → SpineEnds hp b) := by
  cases v with
  | none => exact .inl rfl
  | ref b =>
    simp only [jrefOkB, Bool.or_eq_true, Bool.not_eq_true'] at h
    refine .inr ⟨b, rfl, fun hi ha => ?_⟩
    rcases h with (h | h) | h
    · rw [hi] at h; exact absurd h (by simp)
    · rw [ha] at h; exact absurd h (by simp)
    · exact spineEndsB_sound hp b h
  | int i => exact absurd h (by simp [jrefOkB])
  | str s => exact absurd h (by simp [jrefOkB])
  | bool b => exact absurd h (by simp [jrefOkB])
  | float t => exact absurd h (by simp [jrefOkB])
  | sofa a b => exact absurd h (by simp [jrefOkB])
  | refs l => exact absurd h (by simp [jrefOkB])
  | ints l => exact absurd h (by simp [jrefOkB])
  | floats l => exact absurd h (by simp [jrefOkB])
  | bools l => exact absurd h (by simp [jrefOkB])
  | strs l => exact absurd h (by simp [jrefOkB])
  | attr t => exact absurd h (by simp [jrefOkB])

theorem jfeatOkB_sound (K : Consts) (ts : TypeSystem) (c : Cas) (ci : Nat) (hp : Heap) (isAnn : Bool) (o : Obj)
    (f : Feature) (h : jfeatOkB K ts c ci hp isAnn o f = true) : JFeatOk K ts c ci hp isAnn o f := by
  unfold jfeatOkB at h
  simp only [Bool.and_eq_true, decide_eq_true_eq] at h
  obtain ⟨⟨⟨⟨⟨h1, h2⟩, h3⟩, h4⟩, h5⟩, h6⟩ := h
  refine ⟨h1, h2, h3, h4, h5, ?_⟩
  cases hv : alistGet? o.slots f.name with
  | none => rw [hv] at h6; exact absurd h6 (by simp)
  | some v =>
    rw [hv] at h6
    refine ⟨v, rfl, ?_⟩
    simp only [Bool.or_eq_true, Bool.and_eq_true, decide_eq_true_eq, Bool.not_eq_true'] at h6
    rcases h6 with (⟨a, b⟩ | ⟨⟨a, b⟩, c'⟩) | ⟨⟨⟨⟨⟨a, b⟩, c'⟩, d⟩, e⟩, g⟩
    · exact .inl ⟨a, sofaOkB_sound _ _ _ _ b⟩
    · exact .inr (.inl ⟨a, b, primOkB_sound _ _ c'⟩)
    · exact .inr (.inr ⟨a, b, c', d, e, jrefOkB_sound K hp f v g⟩)

/-! ### structures -/

theorem jgenFsB_sound (K : Consts) (ts : TypeSystem) (c : Cas) (ci : Nat) (hp : Heap) (a : Nat)
    (h : jgenFsB K ts c ci hp a = true) : JGenFs K ts c ci hp a := by
  unfold jgenFsB at h
  cases ho : hp[a]? with
  | none => rw [ho] at h; exact absurd h (by simp)
  | some o =>
    rw [ho] at h
    simp only at h
    cases ht : find? ts o.ty with
    | none => rw [ht] at h; exact absurd h (by simp)
    | some t =>
      rw [ht] at h
      simp only [Bool.and_eq_true, decide_eq_true_eq, List.all_eq_true, Bool.or_eq_true, Bool.not_eq_true'] at h
      obtain ⟨⟨⟨⟨⟨⟨⟨⟨⟨⟨⟨⟨h1, h2⟩, h3⟩, h4⟩, h5⟩, h6⟩, h7⟩, h8⟩, h9⟩, h10⟩, h11⟩, h12⟩, h13⟩ := h
      refine ⟨o, t, ho, ht, h1, h2, h3, h4, h5, h6, h7, h8, h9, h10, h11, ?_, ?_⟩
      · intro f hf; exact jfeatOkB_sound _ _ _ _ _ _ _ _ (h12 f hf)
      · intro hann
        rcases h13 with h13 | h13
        · rw [hann] at h13; exact absurd h13 (by simp)
        · exact annOkB_sound _ _ _ h13

theorem floatArrTyB_false (r : String) (h : floatArrTyB r = false) : ¬ FloatArrTy r := by
  unfold floatArrTyB at h
  simp only [Bool.or_eq_false_iff, decide_eq_false_iff_not] at h
  intro hf
  rcases hf with hf | hf
  · exact h.1 hf
  · exact h.2 hf

theorem jprimElemsB_sound (ty : String) (ev : Val) (h : jprimElemsB ty ev = true) : JPrimElems ty ev := by
  cases ev with
  | refs l =>
    simp only [jprimElemsB] at h
    exact .inl (by rw [CC.isEmpty_eq_nil l h])
  | ints l =>
    simp only [jprimElemsB, Bool.or_eq_true, decide_eq_true_eq, Bool.not_eq_true'] at h
    by_cases hb : ty = "uima.cas.ByteArray"
    · exact .inr (.inl ⟨hb, l, rfl⟩)
    · rcases h with h | h
      · exact absurd h hb
      · exact .inr (.inr (.inr ⟨hb, floatArrTyB_false ty h, .inl ⟨l, rfl⟩⟩))
  | floats l =>
    simp only [jprimElemsB] at h
    exact .inr (.inr (.inl ⟨CC.floatArrTyB_sound ty h, l, rfl⟩))
  | bools l =>
    simp only [jprimElemsB, Bool.and_eq_true, decide_eq_true_eq, Bool.not_eq_true'] at h
    exact .inr (.inr (.inr ⟨h.1, floatArrTyB_false ty h.2, .inr (.inl ⟨l, rfl⟩)⟩))
  | strs l =>
    simp only [jprimElemsB, Bool.and_eq_true, decide_eq_true_eq, Bool.not_eq_true'] at h
    exact .inr (.inr (.inr ⟨h.1, floatArrTyB_false ty h.2, .inr (.inr ⟨l, rfl⟩)⟩))
  | none => exact absurd h (by simp [jprimElemsB])
  | int i => exact absurd h (by simp [jprimElemsB])
  | str s => exact absurd h (by simp [jprimElemsB])
  | bool b => exact absurd h (by simp [jprimElemsB])
  | float t => exact absurd h (by simp [jprimElemsB])
  | ref a => exact absurd h (by simp [jprimElemsB])
  | sofa a b => exact absurd h (by simp [jprimElemsB])
  | attr t => exact absurd h (by simp [jprimElemsB])

theorem isRefsV_sound (ev : Val) (h : isRefsV ev = true) : ∃ l : List (Option Nat), ev = .refs l := by
  cases ev with
  | refs l => exact ⟨l, rfl⟩
  | none => exact absurd h (by simp [isRefsV])
  | int i => exact absurd h (by simp [isRefsV])
  | str s => exact absurd h (by simp [isRefsV])
  | bool b => exact absurd h (by simp [isRefsV])
  | float t => exact absurd h (by simp [isRefsV])
  | ref a => exact absurd h (by simp [isRefsV])
  | sofa a b => exact absurd h (by simp [isRefsV])
  | ints l => exact absurd h (by simp [isRefsV])
  | floats l => exact absurd h (by simp [isRefsV])
  | bools l => exact absurd h (by simp [isRefsV])
  | strs l => exact absurd h (by simp [isRefsV])
  | attr t => exact absurd h (by simp [isRefsV])

theorem jarrFsB_sound (K : Consts) (ts : TypeSystem) (hp : Heap) (a : Nat)
    (h : jarrFsB K ts hp a = true) : JArrFs K ts hp a := by
  unfold jarrFsB at h
  cases ho : hp[a]? with
  | none => rw [ho] at h; exact absurd h (by simp)
  | some o =>
    rw [ho] at h
    simp only at h
    cases ht : find? ts o.ty with
    | none => rw [ht] at h; exact absurd h (by simp)
    | some t =>
      rw [ht] at h
      simp only at h
      split at h
      · rename_i f n ev hfs hsl
        simp only [Bool.and_eq_true, decide_eq_true_eq] at h
        obtain ⟨⟨⟨⟨⟨⟨⟨h1, h2⟩, h3⟩, h4⟩, h5⟩, h6⟩, h7⟩, h8⟩ := h
        subst h5
        refine ⟨o, t, f, ev, ho, ht, h1, h2, hfs, h3, h4, hsl, h6, h7, ?_⟩
        simp only [Bool.or_eq_true, Bool.and_eq_true, decide_eq_true_eq] at h8
        rcases h8 with ⟨⟨a1, a2⟩, a3⟩ | ⟨⟨a1, a2⟩, a3⟩
        · exact .inl ⟨a1, a2, isRefsV_sound ev a3⟩
        · exact .inr ⟨a1, a2, jprimElemsB_sound _ ev a3⟩
      · exact absurd h (by simp)

theorem jcollFsB_sound (K : Consts) (ts : TypeSystem) (c : Cas) (ci : Nat) (hp : Heap) (a : Nat)
    (h : jcollFsB K ts c ci hp a = true) : JCollFs K ts c ci hp a := by
  unfold jcollFsB at h
  rw [Bool.and_eq_true, Bool.or_eq_true] at h
  refine ⟨?_, jsonOkB_sound ts hp a h.2⟩
  rcases h.1 with h1 | h1
  · exact .inl (jgenFsB_sound K ts c ci hp a h1)
  · exact .inr (jarrFsB_sound K ts hp a h1)

/-! ### the test -/

theorem memberIdsB_sound (c : Cas) (hp : Heap) (h : memberIdsB c hp = true) :
    ∀ nv ∈ c.views, ∀ e ∈ Index.all nv.2.idx, (xidOf hp e.oid).isSome = true := by
  unfold memberIdsB at h
  simp only [List.all_eq_true] at h
  exact h

/-- the test implies every hypothesis of `json_roundtrip_coll` -/
theorem jcollAppliesB_hyps (K : Consts) (ts : TypeSystem) (cass : List Cas) (ci : Nat) (hp : Heap)
    (h : jcollAppliesB K ts cass ci hp = true) :
    ∃ (c : Cas) (doc : JDoc) (st : Traverse.St), cass[ci]? = some c ∧
      saveJson K ts cass ci hp .none = .ok (doc, st) ∧ RTWf c hp ∧
      (∀ q ∈ st.allFs, JCollFs K ts c ci st.heap q.2) ∧
      (∀ nv ∈ c.views, ∀ e ∈ Index.all nv.2.idx, (xidOf hp e.oid).isSome = true) ∧
      (∀ q ∈ st.allFs, ∀ nv ∈ c.views, q.1 ≠ nv.2.sofa.xid) ∧
      (∀ nv ∈ c.views, ∀ e ∈ Index.all nv.2.idx, Xmi.slot st.heap e.oid "sofa" ≠ some .none) ∧
      MembersOk c st.heap := by
  unfold jcollAppliesB at h
  cases hc : cass[ci]? with
  | none => rw [hc] at h; exact absurd h (by simp)
  | some c =>
    rw [hc] at h
    simp only at h
    cases hs : saveJson K ts cass ci hp .none with
    | error e => rw [hs] at h; exact absurd h (by simp)
    | ok r =>
      obtain ⟨doc, st⟩ := r
      rw [hs] at h
      simp only [Bool.and_eq_true, List.all_eq_true] at h
      obtain ⟨⟨⟨⟨⟨h1, h2⟩, h3⟩, h4⟩, h5⟩, h6⟩ := h
      exact ⟨c, doc, st, rfl, rfl, rtWfB_sound c hp h1,
        fun q hq => jcollFsB_sound K ts c ci st.heap q.2 (h2 q hq),
        memberIdsB_sound c hp h3,
        disjointB_sound st.allFs c h4, memSofaB_sound c st.heap h5, membersOkB_sound c st.heap h6⟩

end Cassis.Json
