/-
C20 across two heaps, layer 3: related values give equal cells, corresponding structures equal rows, the two sides equal
sections — given anchor maps that answer alike for "the same key".
-/
import CassisModel.Proofs.ComparableIsoAnchors
import CassisModel.Proofs.ComparableFuel

namespace Cassis.Comparable
open Cassis.TS Cassis.Traverse

theorem mapM_elemCell_rel (K : Consts) (hp hp' : Heap) (byId byId' : List (Option Int × String)) (f f' : Nat)
    (R : Nat → Nat → Prop)
    (hR : ∀ a a', R a a' → renderVal K hp' byId' f' (.ref a') = renderVal K hp byId f (.ref a)) :
    ∀ (l l' : List (Option Nat)), RefsRel R l l' →
      l'.mapM (elemCell K hp' byId' f') = l.mapM (elemCell K hp byId f)
  | [], [], _ => rfl
  | [], _ :: _, h => h.elim
  | none :: l, [], h => h.elim
  | some _ :: l, [], h => h.elim
  | none :: l, none :: l', h => by
    rw [List.mapM_cons, List.mapM_cons, mapM_elemCell_rel K hp hp' byId byId' f f' R hR l l' h]
    rfl
  | none :: l, some _ :: l', h => h.elim
  | some _ :: l, none :: l', h => h.elim
  | some a :: l, some a' :: l', h => by
    rw [List.mapM_cons, List.mapM_cons, mapM_elemCell_rel K hp hp' byId byId' f f' R hR l l' h.2]
    show (do let b ← renderVal K hp' byId' f' (.ref a'); _) = (do let b ← renderVal K hp byId f (.ref a); _)
    rw [hR a a' h.1]

/-! ### related values -/

/-- the two anchor maps answer alike for the same key -/
def AnchRel (hp hp' : Heap) (addrs : List Nat) (φ : Nat → Nat) (byId byId' : List (Option Int × String)) : Prop :=
  ∀ a a', SameKey hp hp' addrs φ a a' → getById byId' (xidOf hp' a') = getById byId (xidOf hp a)

theorem AnchRel.of_keysRel {hp hp' : Heap} {addrs : List Nat} {φ : Nat → Nat} {byId byId' : List (Option Int × String)}
    (h : KeysRel hp hp' addrs φ byId byId') : AnchRel hp hp' addrs φ byId byId' :=
  fun _ _ hk => getById_rel hk byId byId' h

theorem renderVal_rel (K : Consts) (hp hp' : Heap) (addrs : List Nat) (φ : Nat → Nat)
    (byId byId' : List (Option Int × String)) (hA : AnchRel hp hp' addrs φ byId byId') :
    ∀ (d : Nat) (v v' : Val), ValRel K hp hp' (SameKey hp hp' addrs φ) d v v' →
      ∀ (f f' : Nat), d ≤ f → d ≤ f' → renderVal K hp' byId' f' v' = renderVal K hp byId f v
  | 0, v, v', h, f, f', _, _ => renderVal_sameCell K hp hp' byId byId' f f' h
  | d+1, v, v', h, f, f', hf, hf' => by
    obtain ⟨g, rfl⟩ : ∃ g, f = g + 1 := ⟨f - 1, by omega⟩
    obtain ⟨g', rfl⟩ : ∃ g', f' = g' + 1 := ⟨f' - 1, by omega⟩
    have hg : d ≤ g := by omega
    have hg' : d ≤ g' := by omega
    rcases h with h | ⟨a, a', rfl, rfl, h1, h2, hk⟩ | ⟨a, a', rfl, rfl, h1, h2, he⟩ | ⟨l, l', rfl, rfl, hl⟩ | ⟨h1, h2⟩
    · exact renderVal_sameCell K hp hp' byId byId' _ _ h
    · rw [renderVal_ref_fs K hp byId g h1, renderVal_ref_fs K hp' byId' g' h2, hA a a' hk]
    · rcases he with ⟨e1, e2⟩ | ⟨e1, e2⟩ | ⟨w, w', e1, e2, n1, n2, hw⟩
      · rw [renderVal_ref_arr_noslot K hp byId g h1 e1, renderVal_ref_arr_noslot K hp' byId' g' h2 e2]
      · rw [renderVal_ref_arr_none K hp byId g h1 e1, renderVal_ref_arr_none K hp' byId' g' h2 e2]
      · rw [renderVal_ref_arr K hp byId g h1 e1 n1, renderVal_ref_arr K hp' byId' g' h2 e2 n2]
        exact renderVal_rel K hp hp' addrs φ byId byId' hA d w w' hw g g' hg hg'
    · rw [renderVal_refs, renderVal_refs,
        mapM_elemCell_rel K hp hp' byId byId' g g' _
          (fun a a' hr => renderVal_rel K hp hp' addrs φ byId byId' hA d (.ref a) (.ref a') hr g g' hg hg') l l' hl]
    · rw [renderVal_emptyList K hp byId g h1, renderVal_emptyList K hp' byId' g' h2]

/-! ### rows -/

section
variable {K : Consts} {cass cass' : List Cas} {hp hp' : Heap} {indexed indexed' addrs addrs' : List Nat} {φ : Nat → Nat}

theorem Iso.renderSlot (h : Iso K cass cass' hp hp' indexed indexed' addrs addrs' φ)
    {byId byId' : List (Option Int × String)} (hA : AnchRel hp hp' addrs φ byId byId') {a : Nat} (ha : a ∈ addrs)
    {n : String} (hn : n ≠ "sofa") :
    renderVal K hp' byId' (2 * hp'.length + 2) ((slot hp' (φ a) n).getD .none)
      = renderVal K hp byId (2 * hp.length + 2) ((slot hp a n).getD .none) := by
  obtain ⟨d, hd⟩ := h.slots a ha n hn
  -- a budget that covers the depth of the relation and both budgets of the model; the latter are saturated
  have h1 := renderVal_rel K hp hp' addrs φ byId byId' hA d _ _ hd
    (d + (2 * hp.length + 2) + (2 * hp'.length + 2)) (d + (2 * hp.length + 2) + (2 * hp'.length + 2))
    (by omega) (by omega)
  rw [renderVal_saturated K hp' byId' _ (by omega), renderVal_saturated K hp byId _ (by omega)] at h1
  exact h1

theorem Iso.renderCols (h : Iso K cass cass' hp hp' indexed indexed' addrs addrs' φ)
    {byId byId' : List (Option Int × String)} (hA : AnchRel hp hp' addrs φ byId byId') {a : Nat} (ha : a ∈ addrs) :
    ∀ (cols : List String), (∀ n ∈ cols, n ≠ "sofa") →
      Comparable.renderCols K hp' byId' (φ a) cols = Comparable.renderCols K hp byId a cols
  | [], _ => rfl
  | n :: ns, hc => by
    rw [Comparable.renderCols, Comparable.renderCols, h.renderSlot hA ha (hc n List.mem_cons_self),
      Iso.renderCols h hA ha ns (fun m hm => hc m (List.mem_cons_of_mem _ hm))]

theorem columns_ne_sofa (t : TypeRec) : ∀ n ∈ columns t, n ≠ "sofa" := by
  intro n hn
  unfold columns at hn
  have := (List.mem_filter.1 hn).2
  simpa using this

theorem Iso.isArrayFs (h : Iso K cass cass' hp hp' indexed indexed' addrs addrs' φ) {a : Nat} (ha : a ∈ addrs) :
    isArrayFs K hp' (φ a) = Comparable.isArrayFs K hp a := by
  unfold Comparable.isArrayFs
  rw [h.ty a ha]

theorem Iso.renderRow (h : Iso K cass cass' hp hp' indexed indexed' addrs addrs' φ)
    {byId byId' : List (Option Int × String)} (hA : AnchRel hp hp' addrs φ byId byId') (t : TypeRec) (annType : Bool)
    {a : Nat} (ha : a ∈ addrs) :
    Comparable.renderRow K cass' hp' byId' t annType (φ a) = Comparable.renderRow K cass hp byId t annType a := by
  unfold Comparable.renderRow
  rw [hA a (φ a) (h.key a ha), h.isAnnot ha, h.isArrayFs ha, h.renderCols hA ha (columns t) (columns_ne_sofa t)]
  have hcov : (annType && Comparable.isAnnot hp a) = true →
      Cas.coveredText cass' hp' (φ a) = Cas.coveredText cass hp a := by
    intro hc
    rw [Bool.and_eq_true] at hc
    exact h.covered a ha hc.2
  have hel := h.renderSlot hA ha (n := "elements") (by decide)
  by_cases harr : Comparable.isArrayFs K hp a = true
  · have hsome := h.elems a ha harr
    cases h1 : slot hp a "elements" with
    | none =>
      cases h2 : slot hp' (φ a) "elements" with
      | none =>
        by_cases hc : (annType && Comparable.isAnnot hp a) = true
        · simp only [hc, if_true, hcov hc]
        · simp only [hc, Bool.false_eq_true, if_false]
      | some v' => rw [h1, h2] at hsome; cases hsome
    | some v =>
      cases h2 : slot hp' (φ a) "elements" with
      | none => rw [h1, h2] at hsome; cases hsome
      | some v' =>
        rw [h1, h2] at hel
        simp only [Option.getD_some] at hel
        by_cases hc : (annType && Comparable.isAnnot hp a) = true
        · simp only [hc, if_true, hcov hc, hel]
        · simp only [hc, Bool.false_eq_true, if_false, hel]
  · by_cases hc : (annType && Comparable.isAnnot hp a) = true
    · simp only [hc, if_true, hcov hc, harr, Bool.false_eq_true, if_false]
    · simp only [hc, Bool.false_eq_true, if_false, harr]

theorem Iso.renderRows (h : Iso K cass cass' hp hp' indexed indexed' addrs addrs' φ)
    {byId byId' : List (Option Int × String)} (hA : AnchRel hp hp' addrs φ byId byId') (t : TypeRec) (annType : Bool) :
    ∀ (l : List Nat), (∀ a ∈ l, a ∈ addrs) →
      Comparable.renderRows K cass' hp' byId' t annType (l.map φ) = Comparable.renderRows K cass hp byId t annType l
  | [], _ => rfl
  | a :: l, hl => by
    rw [List.map_cons, Comparable.renderRows, Comparable.renderRows,
      h.renderRow hA t annType (hl a List.mem_cons_self),
      Iso.renderRows h hA t annType l (fun b hb => hl b (List.mem_cons_of_mem _ hb))]

theorem Iso.renderSections (h : Iso K cass cass' hp hp' indexed indexed' addrs addrs' φ) (ts : TypeSystem) (o : Opts)
    {byId byId' : List (Option Int × String)} (hA : AnchRel hp hp' addrs φ byId byId') :
    ∀ (L : List (String × List Nat)), (∀ p ∈ L, ∀ a ∈ p.2, a ∈ addrs) →
      Comparable.renderSections K ts cass' hp' o byId' (L.map (fun p => (p.1, p.2.map φ)))
        = Comparable.renderSections K ts cass hp o byId L
  | [], _ => rfl
  | (tn, fss) :: L, hL => by
    have ih := Iso.renderSections h ts o hA L (fun p hp => hL p (List.mem_cons_of_mem _ hp))
    rw [List.map_cons, Comparable.renderSections, Comparable.renderSections, ih]
    simp only [h.renderRows hA _ _ fss (hL (tn, fss) List.mem_cons_self)]

end

end Cassis.Comparable
