/-
Helper lemmas for `Properties/C13PermSub.lean`, part YB: the replay of a declaration that moves a type `d.name` *with its
subtree* from its present supertype `c` down to the declared one, inside a type system `o` in which the declared
supertype is an ancestor of `d.name`: the step cannot fail (everything the subtree meets is an effective feature, in
`o`, of the type that meets it) and stays inside `o`.
-/
import CassisModel.Proofs.MergePermYA

namespace Cassis.TS

variable {X : String → Prop}

theorem subP_relink (o ts : TypeSystem) (name oldSup newSup : String) (ex : TypeRec) (hc : Consistent ts)
    (hs : SubP o X ts) (hX : X name) (hex : find? ts name = some ex) (hsup : ex.super = some oldSup)
    (hne : oldSup ≠ newSup) (hnn : name ≠ newSup) (hanc : Anc o newSup name) :
    SubP o X (relink ts name oldSup newSup) := by
  have hregn : hasExact ts name = true := (hasExact_iff_find _ _).mpr ⟨ex, hex⟩
  have hno : name ≠ oldSup := by
    intro e
    exact not_anc_of_super hc hex hsup (by rw [← e]; exact Anc.refl _ hregn)
  intro y r hr
  rw [find_relink ts name oldSup newSup y hc.nodup] at hr
  cases hf0 : find? ts y with
  | none => rw [hf0] at hr; cases hr
  | some r0 =>
    rw [hf0] at hr
    simp only [Option.map_some, Option.some.injEq] at hr
    subst hr
    obtain ⟨to, hto, hr0⟩ := hs y r0 hf0
    have hyn : r0.name = y := find?_name hf0
    refine ⟨to, hto, ?_, ?_, ?_, ?_⟩
    · intro hXy
      have : r0.name ≠ name := by rw [hyn]; intro e; exact hXy (e ▸ hX)
      rw [relinkRec_super, if_neg this]; exact hr0.super hXy
    · intro s hss
      rw [relinkRec_super] at hss
      split at hss
      · rename_i e
        cases hss
        rw [← hyn, e]; exact hanc
      · exact hr0.superW s hss
    · intro f hfm
      simp only [eff, relinkRec_own, relinkRec_inh] at hfm
      exact hr0.feats f hfm
    · intro k hk
      rcases (relinkRec_children name oldSup newSup r0 k hno hnn hne).mp hk with ⟨h1, _⟩ | ⟨h1, h2⟩
      · exact hr0.kids k h1
      · rw [h2, ← hyn, h1]; exact hanc

/-- giving the subtree of `r` features that `o` gives to `r` cannot fail and stays inside `o` -/
theorem inheritFrom_subP (o : TypeSystem) (hfo : FeatInv o) (r : String) :
    ∀ (fs : List Feature) (ts : TypeSystem), Consistent ts → SubP o X ts → hasExact ts r = true →
      (∀ f ∈ fs, CovIn o r f) → ∃ ts', inheritFrom ts r fs = .ok ts' ∧ SubP o X ts' ∧ skel ts' = skel ts := by
  intro fs
  induction fs with
  | nil => intro ts _ hs _ _; exact ⟨ts, rfl, hs, rfl⟩
  | cons f fs ih =>
    intro ts hc hs hreg hcov
    have hcf := hcov f List.mem_cons_self
    have hdc : subtreeClash ts r f = false := by
      unfold subtreeClash
      apply List.any_eq_false.mpr
      intro x hx hp
      have hax : Anc ts r x := (descendants_eq_closure_aux ts hc r x hreg).mp hx
      split at hp
      · cases hp
      · rename_i tx htx
        split at hp
        · rename_i g hg
          have hgm : g ∈ tx.own := List.mem_of_find?_eq_some hg
          have hgn : g.name = f.name := by
            have := List.find?_some hg
            simpa using this
          obtain ⟨to, hto, hr⟩ := hs x tx htx
          obtain ⟨g0, hg0, hgg⟩ := hr.feats g (List.mem_append_left _ hgm)
          obtain ⟨tc, htc, f0, hf0, hff⟩ := covIn_anc hfo hcf (anc_subP hs hax)
          rw [hto] at htc; cases htc
          have := cov_agree hfo hto hg0 hf0 hgg hff hgn
          rw [this] at hp; cases hp
        · cases hp
    obtain ⟨a1, a2⟩ := push_subP (X := X) o hfo f (ts.types.length + 1) ts [r] hs
      (by intro c hc'; simp only [List.mem_singleton] at hc'; subst hc'; exact hcf)
    simp only [inheritFrom, hdc, Bool.false_eq_true, if_false]
    cases hp : pushInherited f (ts.types.length + 1) ts [r] with
    | error e => exact absurd (a1 e hp ▸ hp) (pushInherited_ne_fuel f ts [r])
    | ok ts1 =>
      simp only
      have hsk1 := skel_pushInherited f _ ts [r] ts1 hc.nodup hp
      obtain ⟨ts', h', hs', hsk'⟩ := ih ts1 (consistent_of_skel hsk1 hc) (a2 ts1 hp)
        (by rw [hasExact_transfer hsk1]; exact hreg) (fun f' hf' => hcov f' (List.mem_cons_of_mem _ hf'))
      exact ⟨ts', h', hs', hsk'.trans hsk1⟩

/-- the re-parenting branch of a replayed step, for a type with or without subtypes -/
theorem stepP_reparentY (K : Consts) (o : TypeSystem) (hfo : FeatInv o) (hco : Consistent o) (s : MState) (d : Decl)
    (hc : Consistent s.ts) (hf : FeatInv s.ts) (hs : SubP o X s.ts) (hX : X d.name)
    (t : TypeRec) (he : find? s.ts d.name = some t) (c : String) (hts : t.super = some c)
    (r2 : hasExact s.ts d.super = true) (hmax : Anc s.ts c d.super) (hne : d.super ≠ c)
    (tn : TypeRec) (htn : find? o d.name = some tn) (hanc : Anc o d.super d.name) (hxn : d.super ≠ d.name)
    (hcov : ∀ f ∈ d.own, ∃ g ∈ eff tn, featureEq g f = true) (hu : K.predefined.contains d.name = false) :
    ∃ s', processDecl K s d = .ok s' ∧ SubP o X s'.ts := by
  obtain ⟨ns, hns⟩ := (hasExact_iff_find _ _).mp r2
  have hregn : hasExact s.ts d.name = true := (hasExact_iff_find _ _).mpr ⟨t, he⟩
  have hregc : hasExact s.ts c = true := hc.superReg t (find?_mem he) c hts
  have sub1 : subsumes s.ts c d.super = true :=
    (subsumes_iff_ancestor_aux s.ts hc _ _ hregc r2).mpr hmax
  have hnanc : ¬ Anc s.ts d.name d.super := by
    intro h
    exact hxn (anc_antisymm hco hanc (anc_subP hs h))
  have hnot : subsumes s.ts d.name d.super = false := by
    cases hsb : subsumes s.ts d.name d.super with
    | false => rfl
    | true => exact absurd ((subsumes_iff_ancestor_aux s.ts hc _ _ hregn r2).mp hsb) hnanc
  -- the features of the new supertype are, in `o`, features of `d.name`
  have hcovx : ∀ f ∈ allFeatures ns, CovIn o d.name f := by
    intro f hfm
    obtain ⟨xo, hxo, hrx⟩ := hs d.super ns hns
    obtain ⟨g0, hg0, hgg⟩ := hrx.feats f (allFeatures_sub hfm)
    exact covIn_anc hfo ⟨xo, hxo, g0, hg0, hgg⟩ hanc
  have hc1 := consistent_relink s.ts d.name c d.super t hc he hts (fun e => hne e.symm) r2 hnanc
  have hs1 : SubP o X (relink s.ts d.name c d.super) :=
    subP_relink o s.ts d.name c d.super t hc hs hX he hts (fun e => hne e.symm) (fun e => hxn e.symm) hanc
  have hreg1 : hasExact (relink s.ts d.name c d.super) d.name = true :=
    RegLe.of_perm (names_relink_perm s.ts d.name c d.super) d.name hregn
  obtain ⟨ts0, hi0, hs0, hsk0⟩ := inheritFrom_subP o hfo d.name (allFeatures ns) _ hc1 hs1 hreg1 hcovx
  have h0 : reparent s.ts d.name c d.super = .ok ts0 := by
    unfold reparent
    simp only [hnot, Bool.false_eq_true, if_false, hns]
    exact hi0
  have hc0 : Consistent ts0 := consistent_of_skel hsk0 hc1
  have hf0 : FeatInv ts0 := featInv_reparent s.ts ts0 d.name c d.super t hc hf he hts hne hmax h0
  have hreg0 : hasExact ts0 d.name = true := by rw [hasExact_transfer hsk0]; exact hreg1
  have hcovIn : ∀ f ∈ d.own, CovIn o d.name f := fun f hfm => ⟨tn, htn, hcov f hfm⟩
  obtain ⟨ts2, h2, _, _, hs2, _, _⟩ :=
    addOwnFeatures_stepP K o hfo d.name hu d.own ts0 hc0 hf0 hs0 hreg0 hcovIn
  refine ⟨{ ts := ts2, merged := if s.merged.contains d.name then s.merged else s.merged ++ [d.name] }, ?_, hs2⟩
  rw [processDecl_reparent K s d t c he hts hne hregc r2 sub1, h0]
  simp only
  rw [h2]

end Cassis.TS
