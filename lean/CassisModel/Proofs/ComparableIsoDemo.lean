/-
Non-vacuity for `Properties/C20Iso.lean`: the instance of `Proofs/RoundTripDemo.lean` satisfies `Distinct` as well.
-/
import CassisModel.Proofs.ComparableIsoXmi
import CassisModel.Proofs.RoundTripDemo
import CassisModel.Proofs.RoundTripJsonDemo

namespace Cassis.Comparable
open Cassis.TS Cassis.Traverse Cassis.Xmi

theorem demo_distinct_lit : Distinct Demo.hpS [0, 1] := by
  unfold Distinct
  decide +kernel

/-- the collected structures of the demo instance have pairwise different offsets -/
theorem demo_distinct {doc : XDoc} {st : St}
    (hs : saveXmi Demo.K Demo.demoTS [Demo.demo.1] 0 Demo.demo.2 = .ok (doc, st)) :
    Distinct st.heap (st.allFs.map (·.2)) := by
  rw [Demo.demo_lit, Demo.demoTS_eq] at hs
  have h := Demo.save_lit
  rw [hs] at h
  simp only [Except.toOption, Option.map_some, Option.some.injEq, Prod.mk.injEq] at h
  rw [h.1, h.2]
  exact demo_distinct_lit

/-- … for the JSON writer as well (it collects the same structures) -/
theorem demo_distinctJ {doc : Json.JDoc} {st : St}
    (hs : Json.saveJson Demo.K Demo.demoTS [Demo.demo.1] 0 Demo.demo.2 .none = .ok (doc, st)) :
    Distinct st.heap (st.allFs.map (·.2)) := by
  rw [Demo.demo_lit, Demo.demoTS_eq] at hs
  have h := Json.Demo.save_litJ
  rw [hs] at h
  simp only [Except.toOption, Option.map_some, Option.some.injEq, Prod.mk.injEq] at h
  rw [h.1, h.2]
  exact demo_distinct_lit

end Cassis.Comparable
