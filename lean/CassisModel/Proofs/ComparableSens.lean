/-
The `_aux` proofs of `Properties/C20Sens.lean`: sensitivity of the complete table.
-/
import CassisModel.Proofs.ComparableSensText

namespace Cassis.Comparable
open Cassis.TS Cassis.Traverse Cassis.Lex

theorem mem_columns_ne_sofa {t : TypeRec} {f : String} (hf : f ∈ columns t) : f ≠ "sofa" := by
  unfold columns at hf
  have := (List.mem_filter.1 hf).2
  simpa using this

/-! ### 1. primitive feature value -/

theorem renderFrom_prim_sensitive_aux (K : Consts) (ts : TypeSystem) (cass : List Cas) (hp hp' : Heap) (o : Opts)
    (hsh hsh' : Nat → Int) (indexed indexed' addrs addrs' : List Nat)
    (hperm : addrs.Perm addrs') (hidx : ∀ x, x ∈ indexed ↔ x ∈ indexed') (hn : addrs.Nodup) (hd : Distinct hp addrs)
    (a : Nat) (f : String) (p p' : Val) (t : TypeRec)
    (ha : a ∈ addrs) (hex : o.exclude.contains (tyOf hp a) = false) (harr : isArrayFs K hp a = false)
    (ht : getType ts (tyOf hp a) = .ok t) (hf : f ∈ columns t) (hfb : f ≠ "begin") (hfe : f ≠ "end")
    (hs : slot hp a f = some p) (hset : Heap.setSlot hp a f p' = .ok hp') (hdiff : PrimDiffer p p')
    (secs secs' : List Section)
    (h : renderFrom K ts cass hp o hsh indexed addrs = .ok secs)
    (h' : renderFrom K ts cass hp' o hsh' indexed' addrs' = .ok secs') : secs ≠ secs' := by
  have u := setSlot_upd hs hset
  have ag := u.agreeSort hfb hfe
  have h'' := normalise (hsh := hsh) hperm hidx hn (ag.distinct hd) h'
  refine col_sens ag h h'' a ha hex harr t ht f hf ?_
  intro st st' _ _
  simp only [hs, u.same, Option.getD_some]
  exact cellNe_prim hdiff

/-! ### 3. reference target -/

theorem renderFrom_ref_sensitive_aux (K : Consts) (ts : TypeSystem) (cass : List Cas) (hp hp' : Heap) (o : Opts)
    (hsh hsh' : Nat → Int) (indexed indexed' addrs addrs' : List Nat)
    (hperm : addrs.Perm addrs') (hidx : ∀ x, x ∈ indexed ↔ x ∈ indexed') (hn : addrs.Nodup) (hd : Distinct hp addrs)
    (hx : XidInj hp addrs)
    (a : Nat) (f : String) (x y : Nat) (t : TypeRec)
    (ha : a ∈ addrs) (hex : o.exclude.contains (tyOf hp a) = false) (harr : isArrayFs K hp a = false)
    (ht : getType ts (tyOf hp a) = .ok t) (hf : f ∈ columns t) (hfb : f ≠ "begin") (hfe : f ≠ "end")
    (hs : slot hp a f = some (.ref x)) (hset : Heap.setSlot hp a f (.ref y) = .ok hp')
    (hxy : x ≠ y) (hxa : x ∈ addrs) (hya : y ∈ addrs)
    (hxarr : isArrayFs K hp x = false) (hyarr : isArrayFs K hp y = false)
    (px : AnchorPlain cass hp indexed o x) (py : AnchorPlain cass hp indexed o y)
    (secs secs' : List Section)
    (h : renderFrom K ts cass hp o hsh indexed addrs = .ok secs)
    (h' : renderFrom K ts cass hp' o hsh' indexed' addrs' = .ok secs') : secs ≠ secs' := by
  have u := setSlot_upd hs hset
  have agA := u.agreeAnchor hfb hfe (mem_columns_ne_sofa hf)
  have ag := agA.toAgreeSort
  have h'' := normalise (hsh := hsh) hperm hidx hn (ag.distinct hd) h'
  refine col_sens ag h h'' a ha hex harr t ht f hf ?_
  intro st st' hg hg'
  have : st' = st := anchors_same agA hg hg'
  subst this
  simp only [hs, u.same, Option.getD_some]
  have inv := genAnchors_spec (ltFs hp hsh) hx st' hg
  refine cellNe_ref hxarr (by rw [isArrayFs_congr u.ty]; exact hyarr) ?_
  obtain ⟨s, s', h1, h2, h3⟩ := anchors_distinct inv x y hxa hya hxy px py
  exact ⟨s, s', h1, by rw [u.xid]; exact h2, h3⟩

/-! ### 4. array elements -/

theorem getElem?_set_self' {α : Type} (l : List α) (i : Nat) (v w : α) (h : l[i]? = some v) :
    (l.set i w)[i]? = some w := by
  have hlt : i < l.length := by
    rcases Nat.lt_or_ge i l.length with h1 | h1
    · exact h1
    · rw [List.getElem?_eq_none h1] at h; cases h
  rw [List.getElem?_set]
  simp [hlt]

theorem primArrDiffer_ne_none {v v' : Val} (h : PrimArrDiffer v v') : v ≠ .none ∧ v' ≠ .none := by
  cases v <;> cases v' <;> simp only [PrimArrDiffer] at h <;> exact ⟨by simp, by simp⟩

/-- the cell-level core of the FSArray clause -/
theorem fsarray_cellNe {K : Consts} {cass : List Cas} {hp hp' : Heap} {o : Opts} {indexed addrs : List Nat}
    {st : AnchorSt} {arr : Nat} {l : List (Option Nat)} {i x y : Nat}
    (u : HeapUpd hp hp' arr "elements" (.refs (l.set i (some y))))
    (inv : AInv cass hp indexed o addrs st)
    (hi : l[i]? = some (some x))
    (hxy : x ≠ y) (hxa : x ∈ addrs) (hya : y ∈ addrs)
    (hxarr : isArrayFs K hp x = false) (hyarr : isArrayFs K hp y = false)
    (px : AnchorPlain cass hp indexed o x) (py : AnchorPlain cass hp indexed o y) :
    CellNe K hp hp' st.byId st.byId (.refs l) (.refs (l.set i (some y))) := by
  refine cellNe_refs hi (getElem?_set_self' l i _ _ hi) ?_
  refine cellNe_ref hxarr (by rw [isArrayFs_congr u.ty]; exact hyarr) ?_
  obtain ⟨s, s', h1, h2, h3⟩ := anchors_distinct inv x y hxa hya hxy px py
  exact ⟨s, s', h1, by rw [u.xid]; exact h2, h3⟩

theorem elements_ne : ("elements" : String) ≠ "begin" ∧ ("elements" : String) ≠ "end" ∧ ("elements" : String) ≠ "sofa" := by
  decide

theorem renderFrom_fsarray_elem_sensitive_aux (K : Consts) (ts : TypeSystem) (cass : List Cas) (hp hp' : Heap) (o : Opts)
    (hsh hsh' : Nat → Int) (indexed indexed' addrs addrs' : List Nat)
    (hperm : addrs.Perm addrs') (hidx : ∀ x, x ∈ indexed ↔ x ∈ indexed') (hn : addrs.Nodup) (hd : Distinct hp addrs)
    (hx : XidInj hp addrs)
    (a : Nat) (f : String) (arr : Nat) (l : List (Option Nat)) (i x y : Nat) (t : TypeRec)
    (ha : a ∈ addrs) (hex : o.exclude.contains (tyOf hp a) = false) (harr : isArrayFs K hp a = false)
    (ht : getType ts (tyOf hp a) = .ok t) (hf : f ∈ columns t)
    (hs : slot hp a f = some (.ref arr)) (hisarr : isArrayFs K hp arr = true)
    (hel : slot hp arr "elements" = some (.refs l)) (hi : l[i]? = some (some x))
    (hset : Heap.setSlot hp arr "elements" (.refs (l.set i (some y))) = .ok hp')
    (hxy : x ≠ y) (hxa : x ∈ addrs) (hya : y ∈ addrs)
    (hxarr : isArrayFs K hp x = false) (hyarr : isArrayFs K hp y = false)
    (px : AnchorPlain cass hp indexed o x) (py : AnchorPlain cass hp indexed o y)
    (secs secs' : List Section)
    (h : renderFrom K ts cass hp o hsh indexed addrs = .ok secs)
    (h' : renderFrom K ts cass hp' o hsh' indexed' addrs' = .ok secs') : secs ≠ secs' := by
  have u := setSlot_upd hel hset
  have agA := u.agreeAnchor elements_ne.1 elements_ne.2.1 elements_ne.2.2
  have ag := agA.toAgreeSort
  have h'' := normalise (hsh := hsh) hperm hidx hn (ag.distinct hd) h'
  have hane : a ≠ arr := by
    intro e; subst e; rw [harr] at hisarr; cases hisarr
  have hs' : slot hp' a f = some (.ref arr) := by rw [u.other a f (Or.inl hane)]; exact hs
  refine col_sens ag h h'' a ha hex harr t ht f hf ?_
  intro st st' hg hg'
  have : st' = st := anchors_same agA hg hg'
  subst this
  simp only [hs, hs', Option.getD_some]
  have inv := genAnchors_spec (ltFs hp hsh) hx st' hg
  exact cellNe_deref hisarr (by rw [isArrayFs_congr u.ty]; exact hisarr) hel u.same (by simp) (by simp)
    (fsarray_cellNe u inv hi hxy hxa hya hxarr hyarr px py)

theorem renderFrom_fsarray_elem_sensitive_own_aux (K : Consts) (ts : TypeSystem) (cass : List Cas) (hp hp' : Heap)
    (o : Opts) (hsh hsh' : Nat → Int) (indexed indexed' addrs addrs' : List Nat)
    (hperm : addrs.Perm addrs') (hidx : ∀ x, x ∈ indexed ↔ x ∈ indexed') (hn : addrs.Nodup) (hd : Distinct hp addrs)
    (hx : XidInj hp addrs)
    (arr : Nat) (l : List (Option Nat)) (i x y : Nat)
    (ha : arr ∈ addrs) (hex : o.exclude.contains (tyOf hp arr) = false) (hisarr : isArrayFs K hp arr = true)
    (hel : slot hp arr "elements" = some (.refs l)) (hi : l[i]? = some (some x))
    (hset : Heap.setSlot hp arr "elements" (.refs (l.set i (some y))) = .ok hp')
    (hxy : x ≠ y) (hxa : x ∈ addrs) (hya : y ∈ addrs)
    (hxarr : isArrayFs K hp x = false) (hyarr : isArrayFs K hp y = false)
    (px : AnchorPlain cass hp indexed o x) (py : AnchorPlain cass hp indexed o y)
    (secs secs' : List Section)
    (h : renderFrom K ts cass hp o hsh indexed addrs = .ok secs)
    (h' : renderFrom K ts cass hp' o hsh' indexed' addrs' = .ok secs') : secs ≠ secs' := by
  have u := setSlot_upd hel hset
  have agA := u.agreeAnchor elements_ne.1 elements_ne.2.1 elements_ne.2.2
  have ag := agA.toAgreeSort
  have h'' := normalise (hsh := hsh) hperm hidx hn (ag.distinct hd) h'
  refine elems_sens ag h h'' arr ha hex hisarr _ _ hel u.same ?_
  intro st st' hg hg'
  have : st' = st := anchors_same agA hg hg'
  subst this
  have inv := genAnchors_spec (ltFs hp hsh) hx st' hg
  exact fsarray_cellNe u inv hi hxy hxa hya hxarr hyarr px py

theorem renderFrom_primarray_sensitive_aux (K : Consts) (ts : TypeSystem) (cass : List Cas) (hp hp' : Heap) (o : Opts)
    (hsh hsh' : Nat → Int) (indexed indexed' addrs addrs' : List Nat)
    (hperm : addrs.Perm addrs') (hidx : ∀ x, x ∈ indexed ↔ x ∈ indexed') (hn : addrs.Nodup) (hd : Distinct hp addrs)
    (a : Nat) (f : String) (arr : Nat) (v v' : Val) (t : TypeRec)
    (ha : a ∈ addrs) (hex : o.exclude.contains (tyOf hp a) = false) (harr : isArrayFs K hp a = false)
    (ht : getType ts (tyOf hp a) = .ok t) (hf : f ∈ columns t)
    (hs : slot hp a f = some (.ref arr)) (hisarr : isArrayFs K hp arr = true)
    (hel : slot hp arr "elements" = some v)
    (hset : Heap.setSlot hp arr "elements" v' = .ok hp') (hdiff : PrimArrDiffer v v')
    (secs secs' : List Section)
    (h : renderFrom K ts cass hp o hsh indexed addrs = .ok secs)
    (h' : renderFrom K ts cass hp' o hsh' indexed' addrs' = .ok secs') : secs ≠ secs' := by
  have u := setSlot_upd hel hset
  have ag := u.agreeSort elements_ne.1 elements_ne.2.1
  have h'' := normalise (hsh := hsh) hperm hidx hn (ag.distinct hd) h'
  have hane : a ≠ arr := by
    intro e; subst e; rw [harr] at hisarr; cases hisarr
  have hs' : slot hp' a f = some (.ref arr) := by rw [u.other a f (Or.inl hane)]; exact hs
  refine col_sens ag h h'' a ha hex harr t ht f hf ?_
  intro st st' _ _
  simp only [hs, hs', Option.getD_some]
  obtain ⟨n1, n2⟩ := primArrDiffer_ne_none hdiff
  exact cellNe_deref hisarr (by rw [isArrayFs_congr u.ty]; exact hisarr) hel u.same n1 n2 (cellNe_primArr hdiff)

theorem renderFrom_primarray_sensitive_own_aux (K : Consts) (ts : TypeSystem) (cass : List Cas) (hp hp' : Heap)
    (o : Opts) (hsh hsh' : Nat → Int) (indexed indexed' addrs addrs' : List Nat)
    (hperm : addrs.Perm addrs') (hidx : ∀ x, x ∈ indexed ↔ x ∈ indexed') (hn : addrs.Nodup) (hd : Distinct hp addrs)
    (arr : Nat) (v v' : Val)
    (ha : arr ∈ addrs) (hex : o.exclude.contains (tyOf hp arr) = false) (hisarr : isArrayFs K hp arr = true)
    (hel : slot hp arr "elements" = some v)
    (hset : Heap.setSlot hp arr "elements" v' = .ok hp') (hdiff : PrimArrDiffer v v')
    (secs secs' : List Section)
    (h : renderFrom K ts cass hp o hsh indexed addrs = .ok secs)
    (h' : renderFrom K ts cass hp' o hsh' indexed' addrs' = .ok secs') : secs ≠ secs' := by
  have u := setSlot_upd hel hset
  have ag := u.agreeSort elements_ne.1 elements_ne.2.1
  have h'' := normalise (hsh := hsh) hperm hidx hn (ag.distinct hd) h'
  refine elems_sens ag h h'' arr ha hex hisarr _ _ hel u.same ?_
  intro st st' _ _
  exact cellNe_primArr hdiff

/-! ### 5. view -/

theorem sofa_ne : ("sofa" : String) ≠ "begin" ∧ ("sofa" : String) ≠ "end" := by decide

theorem renderFrom_view_sensitive_aux (K : Consts) (ts : TypeSystem) (cass : List Cas) (hp hp' : Heap) (o : Opts)
    (hsh hsh' : Nat → Int) (indexed indexed' addrs addrs' : List Nat)
    (hperm : addrs.Perm addrs') (hidx : ∀ x, x ∈ indexed ↔ x ∈ indexed') (hn : addrs.Nodup) (hd : Distinct hp addrs)
    (hx : XidInj hp addrs)
    (a ci ci' : Nat) (vn vn' : String) (c c' : Cas) (v v' : View)
    (ha : a ∈ addrs) (hex : o.exclude.contains (tyOf hp a) = false)
    (hs : slot hp a "sofa" = some (.sofa ci vn)) (hset : Heap.setSlot hp a "sofa" (.sofa ci' vn') = .ok hp')
    (hc : cass[ci]? = some c) (hv : Cas.getViewRec c vn = some v)
    (hc' : cass[ci']? = some c') (hv' : Cas.getViewRec c' vn' = some v')
    (hne : v.sofa.sofaID ≠ v'.sofa.sofaID) (hp1 : NoParenEnd v.sofa.sofaID) (hp2 : NoParenEnd v'.sofa.sofaID)
    (secs secs' : List Section)
    (h : renderFrom K ts cass hp o hsh indexed addrs = .ok secs)
    (h' : renderFrom K ts cass hp' o hsh' indexed' addrs' = .ok secs') : secs ≠ secs' := by
  have u := setSlot_upd hs hset
  have ag := u.agreeSort sofa_ne.1 sofa_ne.2
  have h'' := normalise (hsh := hsh) hperm hidx hn (ag.distinct hd) h'
  refine anchor_sens ag h h'' a ha hex ?_
  intro st st' hg hg'
  have inv := genAnchors_spec (ltFs hp hsh) hx st hg
  have inv' := genAnchors_spec (ltFs hp' hsh) (hx.congr u.xid) st' hg'
  obtain ⟨s, n, h1, h2, _⟩ := inv.has a ha
  obtain ⟨s', n', h1', h2', _⟩ := inv'.has a ha
  unfold anchorCell
  rw [h2, h2']
  intro e
  have e' : withCount s n = withCount s' n' := Cell.str.inj e
  obtain ⟨view, hvw, hs1⟩ := anchorOf_ok h1
  rw [viewPart_sofa hs hc hv] at hvw
  cases hvw
  obtain ⟨view', hvw', hs1'⟩ := anchorOf_ok h1'
  rw [viewPart_sofa u.same hc' hv'] at hvw'
  cases hvw'
  have hpre : shortName (tyOf hp' a) ++ offPart hp' a ++ markPart indexed o a =
      shortName (tyOf hp a) ++ offPart hp a ++ markPart indexed o a := by
    rw [ag.ty]
    unfold offPart
    rw [ag.ann, ag.beg, ag.en]
  rw [hpre] at hs1'
  obtain ⟨es, _⟩ := withCount_inj s s' n n' (by rw [hs1]; exact noParenEnd_of_sofa _ _ hp1)
    (by rw [hs1']; exact noParenEnd_of_sofa _ _ hp2) e'
  rw [hs1, hs1'] at es
  have el := congrArg String.toList es
  simp only [String.toList_append] at el
  have el2 := List.append_cancel_left (List.append_cancel_left el)
  exact hne (String.toList_inj.1 el2)

/-! ### 6. indexed status -/

theorem renderFrom_indexed_sensitive_aux (K : Consts) (ts : TypeSystem) (cass : List Cas) (hp : Heap) (o : Opts)
    (hsh hsh' : Nat → Int) (indexed indexed' addrs addrs' : List Nat)
    (hperm : addrs.Perm addrs') (hn : addrs.Nodup) (hd : Distinct hp addrs) (hx : XidInj hp addrs)
    (a : Nat) (ha : a ∈ addrs) (hex : o.exclude.contains (tyOf hp a) = false)
    (hmark : o.markIndexed = true) (hin : a ∈ indexed) (hnin : a ∉ indexed')
    (secs secs' : List Section)
    (h : renderFrom K ts cass hp o hsh indexed addrs = .ok secs)
    (h' : renderFrom K ts cass hp o hsh' indexed' addrs' = .ok secs') : secs ≠ secs' := by
  have h'' := normalise (hsh := hsh) (indexed := indexed') hperm (fun _ => Iff.rfl) hn hd h'
  refine anchor_sens (AgreeSort.refl hp) h h'' a ha hex ?_
  intro st st' hg hg'
  have inv := genAnchors_spec (ltFs hp hsh) hx st hg
  have inv' := genAnchors_spec (ltFs hp hsh) hx st' hg'
  obtain ⟨s, n, h1, h2, _⟩ := inv.has a ha
  obtain ⟨s', n', h1', h2', _⟩ := inv'.has a ha
  unfold anchorCell
  rw [h2, h2']
  intro e
  have e' : withCount s n = withCount s' n' := Cell.str.inj e
  obtain ⟨view, hvw, hs1⟩ := anchorOf_ok h1
  obtain ⟨view', hvw', hs1'⟩ := anchorOf_ok h1'
  rw [hvw] at hvw'
  cases hvw'
  have m1 : markPart indexed o a = "*" := by
    unfold markPart
    simp [hmark, hin]
  have m2 : markPart indexed' o a = "" := by
    unfold markPart
    simp [hnin]
  rw [m1] at hs1
  rw [m2] at hs1'
  have el := congrArg String.toList e'
  rw [withCount_toList, withCount_toList, hs1, hs1'] at el
  simp only [String.toList_append, List.append_assoc] at el
  have el2 := List.append_cancel_left (List.append_cancel_left el)
  have star : ("*" : String).toList = ['*'] := rfl
  have emp : ("" : String).toList = [] := rfl
  rw [star, emp] at el2
  simp only [List.cons_append, List.nil_append] at el2
  rcases viewPart_shape hvw with hv0 | ⟨sid, hv1⟩
  · subst hv0
    rw [emp] at el2
    simp only [List.nil_append] at el2
    rcases cntL_cases n' with h0 | ⟨r, h0⟩
    · rw [h0] at el2; cases el2
    · rw [h0] at el2
      simp only [List.cons.injEq] at el2
      exact absurd el2.1 (by decide)
  · subst hv1
    simp only [String.toList_append] at el2
    have at_ : ("@" : String).toList = ['@'] := rfl
    rw [at_] at el2
    simp only [List.cons_append, List.nil_append, List.cons.injEq] at el2
    exact absurd el2.1 (by decide)

/-! ### 2. offsets -/

theorem isAnnot_upd_int {hp hp' : Heap} {a : Nat} {f : String} {p p' : Int} (u : HeapUpd hp hp' a f (.int p'))
    (hs : slot hp a f = some (.int p)) (c : Nat) : isAnnot hp' c = isAnnot hp c := by
  have key : ∀ n, (∃ i j, slot hp' c n = some (.int i) ∧ slot hp c n = some (.int j)) ∨
      slot hp' c n = slot hp c n := by
    intro n
    by_cases hcn : c = a ∧ n = f
    · obtain ⟨rfl, rfl⟩ := hcn
      exact Or.inl ⟨p', p, u.same, hs⟩
    · refine Or.inr (u.other c n ?_)
      by_cases hc : c = a
      · exact Or.inr (fun hn => hcn ⟨hc, hn⟩)
      · exact Or.inl hc
  unfold isAnnot
  rcases key "begin" with ⟨i, j, h1, h2⟩ | h1 <;> rcases key "end" with ⟨i', j', h3, h4⟩ | h3
  · rw [h1, h2, h3, h4]
  · rw [h1, h2, h3]
    cases slot hp c "end" with
    | none => rfl
    | some w => cases w <;> rfl
  · rw [h1, h3, h4]
    cases slot hp c "begin" with
    | none => rfl
    | some w => cases w <;> rfl
  · rw [h1, h3]

theorem renderFrom_offset_sensitive_aux (K : Consts) (ts : TypeSystem) (cass : List Cas) (hp hp' : Heap) (o : Opts)
    (hsh hsh' : Nat → Int) (indexed indexed' addrs addrs' : List Nat)
    (hperm : addrs.Perm addrs') (hidx : ∀ x, x ∈ indexed ↔ x ∈ indexed') (hn : addrs.Nodup)
    (hd : Distinct hp addrs) (hd' : Distinct hp' addrs) (hx : XidInj hp addrs)
    (a : Nat) (f : String) (p p' : Int)
    (ha : a ∈ addrs) (hex : o.exclude.contains (tyOf hp a) = false) (hann : isAnnot hp a = true)
    (hf : f = "begin" ∨ f = "end")
    (hs : slot hp a f = some (.int p)) (hset : Heap.setSlot hp a f (.int p') = .ok hp') (hne : p ≠ p')
    (secs secs' : List Section)
    (h : renderFrom K ts cass hp o hsh indexed addrs = .ok secs)
    (h' : renderFrom K ts cass hp' o hsh' indexed' addrs' = .ok secs') : secs ≠ secs' := by
  have u := setSlot_upd hs hset
  have h'' := normalise (hsh := hsh) hperm hidx hn hd' h'
  intro heq
  subst heq
  obtain ⟨st, st', t, hg, hg', _, c, r, hc, hcty, hr, hr'⟩ := rows_nonpos u.ty h h'' a ha hex
  have e1 := renderRow_head hr
  have e2 := renderRow_head hr'
  rw [e1] at e2
  have e3 := Option.some.inj e2
  have inv := genAnchors_spec (ltFs hp hsh) hx st hg
  have inv' := genAnchors_spec (ltFs hp' hsh) (hx.congr u.xid) st' hg'
  obtain ⟨s, n, h1, h2, _⟩ := inv.has c hc
  obtain ⟨s', n', h1', h2', _⟩ := inv'.has a ha
  unfold anchorCell at e3
  rw [h2, h2'] at e3
  have e4 : withCount s n = withCount s' n' := Cell.str.inj e3
  -- both structures carry offsets
  have hann' : isAnnot hp' a = true := by rw [isAnnot_upd_int u hs]; exact hann
  have hcann : isAnnot hp c = true := by
    by_cases hca : c = a
    · subst hca; exact hann
    · exact (hd c hc a ha hca hcty).1
  obtain ⟨rest, hl⟩ := anchor_annot_toList hcann h1
  obtain ⟨rest', hl'⟩ := anchor_annot_toList hann' h1'
  have el := congrArg String.toList e4
  rw [withCount_toList, withCount_toList, hl, hl', u.ty, hcty] at el
  simp only [List.append_assoc, List.cons_append] at el
  have el2 := List.append_cancel_left el
  obtain ⟨hb, he⟩ := offsets_split _ _ _ _ _ _ el2
  by_cases hca : c = a
  · subst hca
    rcases hf with rfl | rfl
    · have b1 : beginOf hp c = p := by unfold beginOf; rw [hs]
      have b2 : beginOf hp' c = p' := by unfold beginOf; rw [u.same]
      rw [b1, b2] at hb
      exact hne hb
    · have b1 : endOf hp c = p := by unfold endOf; rw [hs]
      have b2 : endOf hp' c = p' := by unfold endOf; rw [u.same]
      rw [b1, b2] at he
      exact hne he
  · have hb' : beginOf hp' c = beginOf hp c := by
      unfold beginOf; rw [u.other c _ (Or.inl hca)]
    have he' : endOf hp' c = endOf hp c := by
      unfold endOf; rw [u.other c _ (Or.inl hca)]
    have := (hd' c hc a ha hca (by rw [u.ty, u.ty]; exact hcty)).2.2
    rw [hb', he', hb, he] at this
    rcases this with h | h <;> exact h rfl

end Cassis.Comparable
