/-
Round trip with collections, layer IA, part C: the id list of an inlined FSArray is resolved to the new addresses;
`postFeature` on an inlined array feature, branch by branch.
-/
import CassisModel.Proofs.RoundTripCollStmts
import CassisModel.Properties.C01

namespace Cassis.Xmi.CIA
open Cassis.TS Cassis.Traverse Cassis.Lex Cassis.Xmi

/-! ### the ids of an FSArray -/

theorem fs_ids (H : Heap) (fss : List (Int × Nat)) (na : Int → Nat) (l : List Nat)
    (h : ∀ b ∈ l, Resolves H fss na b) :
    ∃ ids : List Int, l.map (idTok H) = ids.map showInt ∧
      List.Forall₂ (fun i t => lookupFs fss i = .ok t) ids (ids.map na) ∧
      (ids.map na).map some = (l.map some).map (fun r => r.bind (fun b => (xidOf H b).map na)) := by
  induction l with
  | nil => exact ⟨[], rfl, List.Forall₂.nil, rfl⟩
  | cons b rest ih =>
    obtain ⟨ids, h1, h2, h3⟩ := ih (fun x hx => h x (List.mem_cons_of_mem _ hx))
    obtain ⟨x, hx, hlook⟩ := h b List.mem_cons_self
    refine ⟨x :: ids, ?_, ?_, ?_⟩
    · rw [List.map_cons, List.map_cons, h1]
      unfold idTok
      simp only [hx]
    · rw [List.map_cons]
      exact List.Forall₂.cons hlook h2
    · rw [List.map_cons, List.map_cons, h3]
      simp only [List.map_cons, Option.bind, hx, Option.map]

theorem fs_resolve (H : Heap) (fss : List (Int × Nat)) (na : Int → Nat) (l : List Nat)
    (h : ∀ b ∈ l, Resolves H fss na b) :
    ∃ targets : List Nat, resolveIds fss (splitWs (joinSp (l.map (idTok H)))) = .ok targets ∧
      Val.refs (targets.map some) = elemsExp H na (.refs (l.map some)) := by
  obtain ⟨ids, h1, h2, h3⟩ := fs_ids H fss na l h
  refine ⟨ids.map na, ?_, ?_⟩
  · rw [h1]; exact resolveIds_showIds fss ids (ids.map na) h2
  · rw [h3]; rfl

/-! ### `postFeature` on an inlined array feature -/

/-- primitive array range, the attribute is there -/
theorem postFeature_parr_str (K : Consts) (ts : TypeSystem) (tsIdx ci' : Nat) (sofas : List (Int × PSofa))
    (fss : List (Int × Nat)) (hpX : Heap) (a : Nat) (ty : String) (f : Feature) (o1 : Obj) (s : String) (ev : Val)
    (hname : f.name ≠ "sofa") (hprim : isPrimitive K ts f.range = false)
    (hty : isPrimitiveArray K ty = false) (hr1 : isPrimitiveArray K f.range = true)
    (hm : f.multi.getD false = false)
    (h1 : hpX[a]? = some o1) (h2 : alistGet? o1.slots f.name = some (.str s))
    (hparse : parsePrimArrayStr f.range s = .ok ev) :
    postFeature K ts tsIdx ci' sofas fss hpX a ty false f =
      Heap.setSlot (hpX ++ [{ ty := f.range, ts := tsIdx, xid := none, slots := [("elements", ev)] }]) a f.name
        (.ref hpX.length) := by
  unfold postFeature
  simp only [rtp_slot h1 h2]
  simp only [beq_eq_false_iff_ne.2 hname, Bool.false_eq_true, if_false, hprim, hty, hr1, hm, Bool.false_and,
    Bool.not_false, Bool.and_self, if_true, hparse]
  rfl

/-- primitive array range, no attribute -/
theorem postFeature_parr_none (K : Consts) (ts : TypeSystem) (tsIdx ci' : Nat) (sofas : List (Int × PSofa))
    (fss : List (Int × Nat)) (hpX : Heap) (a : Nat) (ty : String) (f : Feature) (o1 : Obj)
    (hname : f.name ≠ "sofa") (hprim : isPrimitive K ts f.range = false)
    (hty : isPrimitiveArray K ty = false) (hr1 : isPrimitiveArray K f.range = true)
    (hm : f.multi.getD false = false)
    (h1 : hpX[a]? = some o1) (h2 : alistGet? o1.slots f.name = some .none) :
    postFeature K ts tsIdx ci' sofas fss hpX a ty false f = .ok hpX := by
  unfold postFeature
  simp only [rtp_slot h1 h2]
  simp only [beq_eq_false_iff_ne.2 hname, Bool.false_eq_true, if_false, hprim, hty, hr1, hm, Bool.false_and,
    Bool.not_false, Bool.and_self, if_true]
  rfl

/-- primitive array range, the array was built in the first pass (child elements of a StringArray) -/
theorem postFeature_parr_ref (K : Consts) (ts : TypeSystem) (tsIdx ci' : Nat) (sofas : List (Int × PSofa))
    (fss : List (Int × Nat)) (hpX : Heap) (a : Nat) (ty : String) (f : Feature) (o1 : Obj) (addr : Nat)
    (hname : f.name ≠ "sofa") (hprim : isPrimitive K ts f.range = false)
    (hty : isPrimitiveArray K ty = false) (hr1 : isPrimitiveArray K f.range = true)
    (hm : f.multi.getD false = false)
    (h1 : hpX[a]? = some o1) (h2 : alistGet? o1.slots f.name = some (.ref addr)) :
    postFeature K ts tsIdx ci' sofas fss hpX a ty false f = .ok hpX := by
  unfold postFeature
  simp only [rtp_slot h1 h2]
  simp only [beq_eq_false_iff_ne.2 hname, Bool.false_eq_true, if_false, hprim, hty, hr1, hm, Bool.false_and,
    Bool.not_false, Bool.and_self, if_true]
  rfl

/-- FSArray range, no attribute -/
theorem postFeature_fsarr_none (K : Consts) (ts : TypeSystem) (tsIdx ci' : Nat) (sofas : List (Int × PSofa))
    (fss : List (Int × Nat)) (hpX : Heap) (a : Nat) (ty : String) (f : Feature) (o1 : Obj)
    (hname : f.name ≠ "sofa") (hprim : isPrimitive K ts f.range = false)
    (hty : isPrimitiveArray K ty = false) (hr1 : isPrimitiveArray K f.range = false)
    (hr2 : isPrimitiveList K f.range = false)
    (h1 : hpX[a]? = some o1) (h2 : alistGet? o1.slots f.name = some .none) :
    postFeature K ts tsIdx ci' sofas fss hpX a ty false f = .ok hpX :=
  postFeature_ref_none K ts tsIdx ci' sofas fss hpX a ty f o1 hname hprim hty hr1 hr2 h1 h2

/-- FSArray range, the id list is there -/
theorem postFeature_fsarr_str (K : Consts) (ts : TypeSystem) (tsIdx ci' : Nat) (sofas : List (Int × PSofa))
    (fss : List (Int × Nat)) (hpX : Heap) (a : Nat) (ty : String) (f : Feature) (o1 : Obj) (s : String)
    (targets : List Nat)
    (hname : f.name ≠ "sofa") (hprim : isPrimitive K ts f.range = false)
    (hty : isPrimitiveArray K ty = false) (hr1 : isPrimitiveArray K f.range = false)
    (hr2 : isPrimitiveList K f.range = false) (hr3 : f.range = FS_ARRAY)
    (hm : f.multi.getD false = false)
    (h1 : hpX[a]? = some o1) (h2 : alistGet? o1.slots f.name = some (.str s))
    (hres : resolveIds fss (splitWs s) = .ok targets) :
    postFeature K ts tsIdx ci' sofas fss hpX a ty false f =
      Heap.setSlot
        (hpX ++ [{ ty := FS_ARRAY, ts := tsIdx, xid := none, slots := [("elements", .refs (targets.map some))] }])
        a f.name (.ref hpX.length) := by
  unfold postFeature
  simp only [rtp_slot h1 h2]
  rw [hr3] at hprim hr1 hr2
  simp only [beq_eq_false_iff_ne.2 hname, Bool.false_eq_true, if_false, hprim, hty, hr1, hr2, hm, Bool.false_and,
    hr3, beq_self_eq_true, Bool.not_false, Bool.and_self, Bool.or_true, if_true, hres]
  rfl

end Cassis.Xmi.CIA
