/-
The MINIMAL counterpart of `json_full_ts_same`, part B: the type system `emb` built from a closed list `R` of written
records (`loadEmbedded_on`) agrees with the original `o` — in the sense of the JSON reader, `TypeAgree` — on every name
that is registered in a fresh type system or declared by `R`; so does the result of merging `emb` into a fresh type system.
(The two type systems do *not* declare the same: `emb` lacks the types outside `R` and the corresponding children.)
-/
import CassisModel.Proofs.EmbeddedTsMinA
import CassisModel.Proofs.RoundTripJsonEmb

namespace Cassis.Json
open Cassis.TS

theorem builtin_names : ∀ t ∈ Gen.builtinTS.types,
    Gen.consts.predefined.contains t.name = true ∨ t.name = DOCUMENT_ANNOTATION := by
  have h : Gen.builtinTS.types.all (fun t => Gen.consts.predefined.contains t.name || t.name == DOCUMENT_ANNOTATION) = true := by
    decide +kernel
  intro t ht
  have := List.all_eq_true.mp h t ht
  rcases Bool.or_eq_true_iff.mp this with h1 | h1
  · exact Or.inl h1
  · exact Or.inr (by simpa using h1)

/-- the names the reader may ask about are closed under "supertype" -/
theorem regName_super {o : TypeSystem} (ho : Hist o) {R : List TypeRec} (hR : RecsOk o R) {n s : String} {t : TypeRec}
    (hn : RegName R n) (ht : find? o n = some t) (hs : t.super = some s) : RegName R s := by
  rcases hn with hb | ⟨r, hr, hrn⟩
  · obtain ⟨tb, htb⟩ := (hasExact_iff_find _ _).mp hb
    obtain ⟨to, hto, hsup, _⟩ := ho.grow n tb htb
    rw [ht] at hto; cases hto
    left
    exact consistent_builtins_aux.1.superReg tb (find?_mem htb) s (by rw [← hsup]; exact hs)
  · have hro : find? o r.name = some r :=
      find?_of_mem ho.cons.nodup ((mem_fullRecs _ _ _).mp (hR.sub r hr)).1
    rw [hrn, ht] at hro; cases hro
    exact hR.supClosed t hr s hs

/-- the own features of every such type are covered by the embedded type system -/
theorem own_cover {o emb : TypeSystem} (ho : Hist o) (ho2 : Hist2 o) (hi : EInv o emb) {R : List TypeRec}
    (hR : RecsOk o R)
    (hcov : ∀ t ∈ R, ∃ t', find? emb t.name = some t' ∧ ∀ f ∈ t.own, ∃ g ∈ eff t', featureEq g f = true)
    {n : String} {t : TypeRec} (hn : RegName R n) (ht : find? o n = some t) :
    ∃ te, find? emb n = some te ∧ ∀ f ∈ t.own, ∃ g ∈ eff te, featureEq g f = true := by
  rcases hn with hb | ⟨r, hr, hrn⟩
  · obtain ⟨tb, htb⟩ := (hasExact_iff_find _ _).mp hb
    obtain ⟨to, hto, _, _, _, _, hown⟩ := ho.grow n tb htb
    rw [ht] at hto; cases hto
    obtain ⟨te, hte, _, _, hsubown, _, hown'⟩ := hi.grow n tb htb
    refine ⟨te, hte, ?_⟩
    intro f hf
    refine ⟨f, List.mem_append_left _ ?_, featureEq_refl f⟩
    rcases builtin_names tb (find?_mem htb) with hp | hd
    · rw [find?_name htb] at hp
      rw [hown' hp, ← hown hp]; exact hf
    · rw [find?_name htb] at hd
      subst hd
      have h1 : t.own = docOwn := ho2.doc t ht
      have h2 : tb.own = docOwn := hist2_builtin.doc tb htb
      apply hsubown
      rw [h2, ← h1]; exact hf
  · have hro : find? o r.name = some r :=
      find?_of_mem ho.cons.nodup ((mem_fullRecs _ _ _).mp (hR.sub r hr)).1
    rw [hrn, ht] at hro; cases hro
    obtain ⟨te, hte, hc⟩ := hcov t hr
    rw [hrn] at hte
    exact ⟨te, hte, hc⟩

/-- … and so are all effective features (supertypes first) -/
theorem eff_cover {o emb : TypeSystem} (ho : Hist o) (ho2 : Hist2 o) (hi : EInv o emb) {R : List TypeRec}
    (hR : RecsOk o R)
    (hcov : ∀ t ∈ R, ∃ t', find? emb t.name = some t' ∧ ∀ f ∈ t.own, ∃ g ∈ eff t', featureEq g f = true) :
    ∀ i (hil : i < o.types.length), RegName R (o.types[i]).name →
      ∃ te, find? emb (o.types[i]).name = some te ∧ ∀ f ∈ eff o.types[i], ∃ g ∈ eff te, featureEq g f = true := by
  intro i
  induction i using Nat.strongRecOn with
  | ind i ih =>
    intro hil hn
    have ht : o.types[i] ∈ o.types := List.getElem_mem hil
    have hfi : find? o (o.types[i]).name = some o.types[i] := find?_of_mem ho.cons.nodup ht
    obtain ⟨te, hte, hown⟩ := own_cover ho ho2 hi hR hcov hn hfi
    refine ⟨te, hte, ?_⟩
    intro f hf
    rcases List.mem_append.mp hf with hf | hf
    · exact hown f hf
    · cases hsup : (o.types[i]).super with
      | none =>
        rw [ho.feat.rootInh _ ht hsup] at hf; cases hf
      | some s =>
        obtain ⟨j, hj, hjl, hjn⟩ := ho.cons.topo i hil s hsup
        have hps : find? o s = some o.types[j] := by
          rw [← hjn]; exact find?_getElem ho.cons.nodup j hjl
        have hns : RegName R (o.types[j]).name := by
          rw [hjn]; exact regName_super ho hR hn hfi hsup
        obtain ⟨pe, hpe, hpcov⟩ := ih j hj hjl hns
        rw [hjn] at hpe
        have hn1 : f.name ∈ fnames (o.types[j]).own ∨ f.name ∈ fnames (o.types[j]).inh :=
          (ho.feat.inherit' ht hsup hps f.name).mp (mem_fnames_of_mem hf)
        rw [← List.mem_append, ← fnames_append] at hn1
        obtain ⟨f1, hf1, hf1n⟩ := mem_fnames.mp hn1
        have hf1f : featureEq f1 f = true := ho.feat.inheritEq' ht hsup hps f hf f1 hf1 hf1n
        obtain ⟨g1, hg1, hg1f⟩ := hpcov f1 hf1
        obtain ⟨to, hto, hr⟩ := hi.sub _ te hte
        rw [hfi] at hto; cases hto
        have hsm : te.super = some s := by rw [← hr.super]; exact hsup
        have htem : te ∈ emb.types := find?_mem hte
        have hn2 : g1.name ∈ fnames te.inh := by
          rw [hi.feat.inherit' htem hsm hpe, ← List.mem_append, ← fnames_append]
          exact mem_fnames_of_mem hg1
        obtain ⟨g2, hg2, hg2n⟩ := mem_fnames.mp hn2
        have h12 : featureEq g1 g2 = true := hi.feat.inheritEq' htem hsm hpe g2 hg2 g1 hg1 hg2n.symm
        exact ⟨g2, List.mem_append_right _ hg2,
          featureEq_trans (featureEq_symm h12) (featureEq_trans hg1f hf1f)⟩

/-! ### ancestors -/

theorem anc_of_sub {o emb : TypeSystem} (hs : Sub o emb) {a b : String} (h : Anc emb a b) : Anc o a b := by
  induction h with
  | refl ha =>
    obtain ⟨te, hte⟩ := (hasExact_iff_find _ _).mp ha
    obtain ⟨to, hto, _⟩ := hs a te hte
    exact Anc.refl a ((hasExact_iff_find _ _).mpr ⟨to, hto⟩)
  | step b s tb hb hsup _ ih =>
    obtain ⟨to, hto, hr⟩ := hs b tb hb
    exact Anc.step a b s to hto (by rw [hr.super]; exact hsup) ih

theorem anc_into_sub {o emb : TypeSystem} (hc : Consistent emb) (hs : Sub o emb) {a b : String} (h : Anc o a b)
    (hb : hasExact emb b = true) : Anc emb a b := by
  induction h with
  | refl _ => exact Anc.refl a hb
  | step b s tb hfb hsup _ ih =>
    obtain ⟨te, hte⟩ := (hasExact_iff_find _ _).mp hb
    obtain ⟨to, hto, hr⟩ := hs b te hte
    rw [hfb] at hto; cases hto
    have hse : te.super = some s := by rw [← hr.super]; exact hsup
    exact Anc.step a b s te hte hse (ih (hc.superReg te (find?_mem hte) s hse))

/-- **agreement of the original and the embedded type system** on the names `R` or a fresh type system declare -/
theorem typeAgree_emb {o emb : TypeSystem} (ho : Hist o) (ho2 : Hist2 o) (hi : EInv o emb) {R : List TypeRec}
    (hR : RecsOk o R)
    (hcov : ∀ t ∈ R, ∃ t', find? emb t.name = some t' ∧ ∀ f ∈ t.own, ∃ g ∈ eff t', featureEq g f = true)
    (n : String) (hn : RegName R n) : TypeAgree o emb n := by
  -- `n` is registered in `o`
  have hreg : hasExact o n = true := by
    rcases hn with hb | ⟨r, hr, hrn⟩
    · exact ho.grow.reg n hb
    · rw [← hrn]
      exact (hasExact_iff_mem o _).mpr (List.mem_map.mpr ⟨r, ((mem_fullRecs _ _ _).mp (hR.sub r hr)).1, rfl⟩)
  obtain ⟨t, ht⟩ := (hasExact_iff_find _ _).mp hreg
  obtain ⟨i, hil, e⟩ := find?_idx ht
  have hn' : RegName R (o.types[i]).name := by rw [e, find?_name ht]; exact hn
  obtain ⟨te, hte, hc⟩ := eff_cover ho ho2 hi hR hcov i hil hn'
  rw [e, find?_name ht] at hte
  rw [e] at hc
  obtain ⟨to, hto, hr⟩ := hi.sub n te hte
  rw [ht] at hto; cases hto
  unfold TypeAgree
  rw [getType_of_find ht, getType_of_find hte]
  refine ⟨by rw [find?_name hte, find?_name ht], ?_, ?_⟩
  · intro x
    have hperm := keys_perm_of_cover t te hc hr.feats
    have key : ∀ (l : List Feature), x ∈ l.map (·.name) ↔ ∃ k ∈ l.map featKey, k.1 = x := by
      intro l
      simp only [List.mem_map]
      constructor
      · rintro ⟨f, hf, rfl⟩; exact ⟨featKey f, ⟨f, hf, rfl⟩, rfl⟩
      · rintro ⟨k, ⟨f, hf, rfl⟩, hk⟩; exact ⟨f, hf, hk⟩
    unfold ctorFields
    rw [key, key]
    constructor
    · rintro ⟨k, hk, hx⟩; exact ⟨k, hperm.mem_iff.mp hk, hx⟩
    · rintro ⟨k, hk, hx⟩; exact ⟨k, hperm.mem_iff.mpr hk, hx⟩
  · rw [find?_name ht]
    have hann : hasExact Gen.builtinTS ANNOTATION = true := by decide +kernel
    have hne : hasExact emb n = true := (hasExact_iff_find _ _).mpr ⟨te, hte⟩
    have h1 := isInstanceOf_iff_ancestor_aux o ho.cons ANNOTATION n (ho.grow.reg _ hann) hreg
    have h2 := isInstanceOf_iff_ancestor_aux emb hi.cons ANNOTATION n (hi.grow.reg _ hann) hne
    rw [Bool.eq_iff_iff, h1, h2]
    exact ⟨anc_of_sub hi.sub, fun h => anc_into_sub hi.cons hi.sub h hne⟩

/-! ### composing agreements -/

theorem typeAgree_trans {a b c : TypeSystem} {n : String} (h1 : TypeAgree a b n) (h2 : TypeAgree b c n) :
    TypeAgree a c n := by
  unfold TypeAgree at h1 h2 ⊢
  cases ha : getType a n with
  | error e =>
    cases hb : getType b n with
    | error e' =>
      rw [ha, hb] at h1
      cases hc : getType c n with
      | error e'' => rw [hb, hc] at h2; dsimp only at h1 h2 ⊢; rw [h2, h1]
      | ok tc => rw [hb, hc] at h2; exact h2.elim
    | ok tb => rw [ha, hb] at h1; exact h1.elim
  | ok ta =>
    cases hb : getType b n with
    | error e' => rw [ha, hb] at h1; exact h1.elim
    | ok tb =>
      rw [ha, hb] at h1
      cases hc : getType c n with
      | error e'' => rw [hb, hc] at h2; exact h2.elim
      | ok tc =>
        rw [hb, hc] at h2
        obtain ⟨n1, f1, i1⟩ := h1
        obtain ⟨n2, f2, i2⟩ := h2
        refine ⟨n2.trans n1, fun x => (f2 x).trans (f1 x), ?_⟩
        rw [← i1, ← n1, i2]

/-- … and of the original and the *merged* embedded type system (what `loadTs` returns) -/
theorem typeAgree_merged {o : TypeSystem} (ho : Hist o) (ho2 : Hist2 o) (hw : Writable Gen.consts o)
    (hpc : NoPercentNames o) {R : List TypeRec} (hR : RecsOk o R) :
    ∃ emb m, loadEmbeddedTs Gen.consts (R.map (renderTypeDecl0 Gen.consts)) = .ok emb ∧
      merge Gen.consts Gen.builtinTS [Gen.builtinTS, emb] = .ok m ∧ Consistent m ∧
      ∀ n, RegName R n → TypeAgree o m n := by
  obtain ⟨emb, hload, hemb, hi, hcov⟩ := loadEmbedded_on ho ho2 hw hpc hR
  obtain ⟨m, hm, hsame, hcm⟩ := merge_same_of_cons emb hemb [Gen.builtinTS, emb] (by simp) (by simp)
  refine ⟨emb, m, hload, hm, hcm, ?_⟩
  intro n hn
  exact typeAgree_trans (typeAgree_emb ho ho2 hi hR hcov n hn) (typeAgree_of_sameTs hsame hi.cons hcm n)

end Cassis.Json
