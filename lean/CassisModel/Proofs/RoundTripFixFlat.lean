/-
Fixpoint of the round trip: the loaded structures are flat again (in the loaded CAS) and render to the same elements.
-/
import CassisModel.Proofs.RoundTripDefs
import CassisModel.Proofs.RoundTripGlue
import CassisModel.Proofs.XmiOffsets

namespace Cassis.Xmi
open Cassis.TS Cassis.Traverse Cassis.Lex

theorem alistGet?_mem {β} : ∀ (l : List (String × β)) (n : String) (v : β), alistGet? l n = some v → (n, v) ∈ l
  | [], n, v, h => by simp [alistGet?] at h
  | (k, w) :: rest, n, v, h => by
    unfold alistGet? at h
    by_cases hk : k = n
    · rw [if_pos hk] at h
      cases h
      subst hk
      exact List.mem_cons_self
    · rw [if_neg hk] at h
      exact List.mem_cons_of_mem _ (alistGet?_mem rest n v h)

/-- the loaded views answer the same lookups as the written ones -/
theorem viewsRelL_get {H : Heap} {na : Int → Nat} : ∀ (l l' : List (String × View)) (vn : String) (v : View),
    ViewsRelL H na l l' → alistGet? l vn = some v →
    ∃ v', alistGet? l' vn = some v' ∧ ViewRel H na (vn, v) (vn, v')
  | [], _, vn, v, _, h => by simp [alistGet?] at h
  | (k, w) :: r, [], vn, v, hr, h => False.elim hr
  | (k, w) :: r, (k', w') :: r', vn, v, hr, h => by
    obtain ⟨h1, h2⟩ := hr
    have hk : k' = k := h1.1
    unfold alistGet? at h ⊢
    by_cases hkn : k = vn
    · rw [if_pos hkn] at h
      rw [if_pos (hk.trans hkn)]
      cases h
      subst hkn
      cases hk
      exact ⟨w', rfl, h1⟩
    · rw [if_neg hkn] at h
      rw [if_neg (by rw [hk]; exact hkn)]
      exact viewsRelL_get r r' vn v h2 h

theorem heapRel_xid {H : Heap} {L : List (Int × Nat)} {na : Int → Nat} {E : Obj → String → Val → Val} {hpL : Heap}
    (hrel : HeapRel H L na E hpL) {q : Int × Nat} (hq : q ∈ L) : xidOf hpL (na q.1) = some q.1 := by
  obtain ⟨o, o', _, h2, h3⟩ := hrel q hq
  unfold xidOf
  rw [h2]
  exact h3.2.1

/-- the reader's converter and the setter's converter agree on every offset inside the text -/
theorem conv_p2e_eq (text : List Nat) (hs : ∀ cp ∈ text, Offsets.IsScalar cp) (k : Nat) (hk : k ≤ text.length) :
    Offsets.pythonToExternal (convOfText (some (docText text))) k
      = Offsets.pythonToExternal (some (Offsets.table text)) k := by
  by_cases hne : text = []
  · subst hne
    have : k = 0 := by simpa using hk
    subst this
    rfl
  · rw [convOfText_docText_aux text hs hne]
    rfl

theorem flatFeat_new {K : Consts} {ts : TypeSystem} {c : Cas} {ci : Nat} {H : Heap} {L : List (Int × Nat)}
    {na : Int → Nat} {ci' : Nat} {c' : Cas} {hpL : Heap}
    (hL : LOk K ts c ci H L) (hrel : HeapRel H L na (E3 H na ci') hpL) (hviews : ViewsRel H na c c')
    {q : Int × Nat} (hq : q ∈ L) {o o' : Obj} (hHo : H[q.2]? = some o) (hor : ObjRel (E3 H na ci' o) o o' q.1)
    (isAnn : Bool) (f : Feature) (hf : FlatFeat K ts c ci H isAnn o f) : FlatFeat K ts c' ci' hpL isAnn o' f := by
  obtain ⟨a1, a2, a3, a4, a5, a6, a7, a8, a9, a10, a11, v, hv, hd⟩ := hf
  refine ⟨a1, a2, a3, a4, a5, a6, a7, a8, a9, a10, a11, exp3 H na ci' v, hor.2.2.2 _ _ hv, ?_⟩
  rcases hd with ⟨hn, hs⟩ | ⟨hn, hp, hs⟩ | ⟨hn, hp, ha, hl, hb1, hb2, hb3, hs⟩
  · left
    refine ⟨hn, ?_⟩
    rcases hs with ⟨vn, rfl, hsome⟩ | ⟨rfl, hA⟩
    · left
      refine ⟨vn, rfl, ?_⟩
      cases hg : Cas.getViewRec c vn with
      | none => rw [hg] at hsome; cases hsome
      | some w =>
        obtain ⟨w', hw', _⟩ := viewsRelL_get _ _ vn w hviews hg
        show (alistGet? c'.views vn).isSome = true
        rw [hw']
        rfl
    · right
      exact ⟨rfl, hA⟩
  · right; left
    refine ⟨hn, hp, ?_⟩
    rcases hs with rfl | ⟨hr, i, rfl⟩ | ⟨hr, s, rfl⟩ | ⟨hr, b, rfl⟩ | ⟨hr, t, rfl⟩
    · left; rfl
    · right; left; exact ⟨hr, i, rfl⟩
    · right; right; left; exact ⟨hr, s, rfl⟩
    · right; right; right; left; exact ⟨hr, b, rfl⟩
    · right; right; right; right; exact ⟨hr, t, rfl⟩
  · right; right
    refine ⟨hn, hp, ha, hl, hb1, hb2, hb3, ?_⟩
    rcases hs with rfl | ⟨b, rfl, hsome, hne0⟩
    · left; rfl
    · right
      obtain ⟨x, hx, hxL⟩ := hL.closed q hq o hHo f.name b hv
      have hxn : xidOf hpL (na x) = some x := heapRel_xid hrel hxL
      refine ⟨na x, ?_, ?_, ?_⟩
      · simp only [exp3, hx]
      · rw [hxn]; rfl
      · rw [hxn]
        intro h
        exact (hL.ids _ hxL).2 (Option.some.inj h)

set_option linter.unusedVariables false in
theorem new_flat (K : Consts) (ts : TypeSystem) (cass : List Cas) (ci : Nat) (c : Cas) (hp H : Heap)
    (L : List (Int × Nat)) (na : Int → Nat) (ci' : Nat) (c' : Cas) (hpL : Heap)
    (hc : cass[ci]? = some c) (hwf : RTWf c hp) (hL : LOk K ts c ci H L)
    (hrel : HeapRel H L na (E3 H na ci') hpL) (hviews : ViewsRel H na c c') :
    ∀ q ∈ L, FlatFs K ts c' ci' hpL (na q.1) := by
  intro q hq
  obtain ⟨o, o', hHo, hLo', hor⟩ := hrel q hq
  obtain ⟨o1, t, ho1, hfind, htn, h1, h2, h3, h4, h5, h6, h7, h8, h9, h10, hfeat, hann⟩ := hL.flat q hq
  rw [hHo] at ho1
  cases ho1
  obtain ⟨hty, hxid, hnames, hslots⟩ := hor
  refine ⟨o', t, hLo', ?_⟩
  rw [hty, hnames]
  refine ⟨hfind, htn, h1, h2, h3, h4, h5, h6, h7, h8, h9, h10, ?_, ?_⟩
  · intro f hf
    exact flatFeat_new hL hrel hviews hq hHo ⟨hty, hxid, hnames, hslots⟩ _ f (hfeat f hf)
  · intro hA
    obtain ⟨vn, v, text, b, e, hs, hv, ht, hb, he, hbl, hel⟩ := hann hA
    obtain ⟨v', hv', hvr⟩ := viewsRelL_get _ _ vn v hviews hv
    exact ⟨vn, v', text, b, e, hslots _ _ hs, hv', hvr.2.2.2.2.1.trans ht, hslots _ _ hb, hslots _ _ he, hbl, hel⟩

theorem extInt_new {cass cass' : List Cas} {ci ci' : Nat} {c c' : Cas} {hp H : Heap} {na : Int → Nat}
    (hc : cass[ci]? = some c) (hc' : cass'[ci']? = some c') (hwf : RTWf c hp) (hviews : ViewsRel H na c c')
    {o o' : Obj} {x : Int} (hor : ObjRel (E3 H na ci' o) o o' x) (isAnn : Bool)
    (hann : isAnn = true →
      ∃ (vn : String) (v : View) (text : List Nat) (b e : Nat),
        alistGet? o.slots "sofa" = some (.sofa ci vn) ∧ Cas.getViewRec c vn = some v ∧ v.sofa.text = some text ∧
        alistGet? o.slots "begin" = some (.int b) ∧ alistGet? o.slots "end" = some (.int e) ∧
        b ≤ text.length ∧ e ≤ text.length)
    {n : String} {i : Int} (hi : alistGet? o.slots n = some (.int i)) :
    extInt cass' isAnn o' n i = extInt cass isAnn o n i := by
  unfold extInt
  by_cases hcond : (isAnn && (n == "begin" || n == "end")) = true
  · rw [if_pos hcond, if_pos hcond]
    have hA : isAnn = true := by
      simp only [Bool.and_eq_true] at hcond
      exact hcond.1
    have hN : n = "begin" ∨ n = "end" := by
      simp only [Bool.and_eq_true, Bool.or_eq_true, beq_iff_eq] at hcond
      exact hcond.2
    obtain ⟨vn, v, text, b, e, hs, hv, ht, hb, he, hbl, hel⟩ := hann hA
    have hs' : alistGet? o'.slots "sofa" = some (.sofa ci' vn) := hor.2.2.2 _ _ hs
    obtain ⟨v', hv', hvr⟩ := viewsRelL_get _ _ vn v hviews hv
    have hmem : (vn, v) ∈ c.views := alistGet?_mem _ _ _ hv
    have hconv : v.sofa.conv = some (Offsets.table text) := hwf.conv _ hmem text ht
    have hconv' : v'.sofa.conv = convOfText (some (docText text)) := by
      have := hvr.2.2.2.2.2.2.1
      simp only [ht, Option.map_some] at this
      exact this
    have hsc : ∀ cp ∈ text, Offsets.IsScalar cp := hwf.scalar _ hmem text ht
    have key : ∃ k : Nat, k ≤ text.length ∧ i = (k : Int) := by
      rcases hN with rfl | rfl
      · rw [hb] at hi; cases hi; exact ⟨b, hbl, rfl⟩
      · rw [he] at hi; cases hi; exact ⟨e, hel, rfl⟩
    obtain ⟨k, hk, rfl⟩ := key
    rw [hs, hs']
    simp only [hc, hc', Option.bind_some]
    have e1 : Cas.getViewRec c vn = some v := hv
    have e2 : Cas.getViewRec c' vn = some v' := hv'
    rw [e1, e2]
    simp only [hconv, hconv', Int.toNat_natCast, conv_p2e_eq text hsc k hk]
  · rw [if_neg hcond, if_neg hcond]

theorem flatTok_new {K : Consts} {ts : TypeSystem} {cass cass' : List Cas} {ci ci' : Nat} {c c' : Cas} {hp H : Heap}
    {L : List (Int × Nat)} {na : Int → Nat} {hpL : Heap}
    (hc : cass[ci]? = some c) (hc' : cass'[ci']? = some c') (hwf : RTWf c hp)
    (hL : LOk K ts c ci H L) (hrel : HeapRel H L na (E3 H na ci') hpL) (hviews : ViewsRel H na c c')
    {q : Int × Nat} (hq : q ∈ L) {o o' : Obj} (hHo : H[q.2]? = some o) (hor : ObjRel (E3 H na ci' o) o o' q.1)
    (isAnn : Bool)
    (hann : isAnn = true →
      ∃ (vn : String) (v : View) (text : List Nat) (b e : Nat),
        alistGet? o.slots "sofa" = some (.sofa ci vn) ∧ Cas.getViewRec c vn = some v ∧ v.sofa.text = some text ∧
        alistGet? o.slots "begin" = some (.int b) ∧ alistGet? o.slots "end" = some (.int e) ∧
        b ≤ text.length ∧ e ≤ text.length)
    (f : Feature) (hf : FlatFeat K ts c ci H isAnn o f) :
    flatTok cass' hpL isAnn o' f.name ((alistGet? o'.slots f.name).getD .none)
      = flatTok cass H isAnn o f.name ((alistGet? o.slots f.name).getD .none) := by
  obtain ⟨_, _, _, _, _, _, _, _, _, _, _, v, hv, hd⟩ := hf
  have hv' : alistGet? o'.slots f.name = some (exp3 H na ci' v) := hor.2.2.2 _ _ hv
  rw [hv, hv']
  simp only [Option.getD_some]
  rcases hd with ⟨hn, hs⟩ | ⟨hn, hp, hs⟩ | ⟨hn, hp, ha, hl, hb1, hb2, hb3, hs⟩
  · rcases hs with ⟨vn, rfl, hsome⟩ | ⟨rfl, hA⟩
    · cases hg : Cas.getViewRec c vn with
      | none => rw [hg] at hsome; cases hsome
      | some w =>
        obtain ⟨w', hw', hvr⟩ := viewsRelL_get _ _ vn w hviews hg
        have e2 : Cas.getViewRec c' vn = some w' := hw'
        simp only [exp3, flatTok, hc, hc', Option.bind_some, hg, e2, Option.map_some]
        have : w'.sofa.xid = w.sofa.xid := hvr.2.2.1
        rw [this]
    · rfl
  · rcases hs with rfl | ⟨hr, i, rfl⟩ | ⟨hr, s, rfl⟩ | ⟨hr, b, rfl⟩ | ⟨hr, t, rfl⟩
    · rfl
    · simp only [exp3, flatTok]
      rw [extInt_new hc hc' hwf hviews hor isAnn hann hv]
    · rfl
    · rfl
    · rfl
  · rcases hs with rfl | ⟨b, rfl, hsome, hne0⟩
    · rfl
    · obtain ⟨x, hx, hxL⟩ := hL.closed q hq o hHo f.name b hv
      have hxn : xidOf hpL (na x) = some x := heapRel_xid hrel hxL
      simp only [exp3, flatTok, hx, hxn]

theorem flatAttrs_congr {cass cass' : List Cas} {H hpL : Heap} {isAnn : Bool} {o o' : Obj} :
    ∀ (fs : List Feature),
      (∀ f ∈ fs, flatTok cass' hpL isAnn o' f.name ((alistGet? o'.slots f.name).getD .none)
        = flatTok cass H isAnn o f.name ((alistGet? o.slots f.name).getD .none)) →
      flatAttrs cass' hpL isAnn o' fs = flatAttrs cass H isAnn o fs
  | [], _ => rfl
  | f :: fs, h => by
    simp only [flatAttrs]
    rw [h f List.mem_cons_self, flatAttrs_congr fs (fun g hg => h g (List.mem_cons_of_mem _ hg))]

theorem flatAttrsW_congr {cass cass' : List Cas} {H hpL : Heap} {isAnn : Bool} {o o' : Obj} :
    ∀ (fs : List Feature),
      (∀ f ∈ fs, flatTok cass' hpL isAnn o' f.name ((alistGet? o'.slots f.name).getD .none)
        = flatTok cass H isAnn o f.name ((alistGet? o.slots f.name).getD .none)) →
      flatAttrsW cass' hpL isAnn o' fs = flatAttrsW cass H isAnn o fs
  | [], _ => rfl
  | f :: fs, h => by
    simp only [flatAttrsW]
    rw [h f List.mem_cons_self, flatAttrsW_congr fs (fun g hg => h g (List.mem_cons_of_mem _ hg))]

theorem new_elem (K : Consts) (ts : TypeSystem) (cass : List Cas) (ci : Nat) (c : Cas) (hp H : Heap)
    (L : List (Int × Nat)) (na : Int → Nat) (cass' : List Cas) (ci' : Nat) (c' : Cas) (hpL : Heap)
    (hc : cass[ci]? = some c) (hc' : cass'[ci']? = some c') (hwf : RTWf c hp) (hL : LOk K ts c ci H L)
    (hrel : HeapRel H L na (E3 H na ci') hpL) (hviews : ViewsRel H na c c') :
    ∀ q ∈ L, ∀ (o o' : Obj) (t : TypeRec), H[q.2]? = some o → hpL[na q.1]? = some o' → find? ts o.ty = some t →
      flatElem ts cass' hpL q.1 o' t = flatElem ts cass H q.1 o t := by
  intro q hq o o' t hHo hLo' hfind
  obtain ⟨o0, o0', h0, h0', hor⟩ := hrel q hq
  rw [hHo] at h0
  cases h0
  rw [hLo'] at h0'
  cases h0'
  obtain ⟨o1, t1, ho1, hfind1, htn, h1, h2, h3, h4, h5, h6, h7, h8, h9, h10, hfeat, hann⟩ := hL.flat q hq
  rw [hHo] at ho1
  cases ho1
  rw [hfind] at hfind1
  cases hfind1
  unfold flatElem
  rw [hor.1]
  rw [flatAttrsW_congr (allFeatures t) (fun f hf =>
    flatTok_new hc hc' hwf hL hrel hviews hq hHo hor _ hann f (hfeat f hf))]

end Cassis.Xmi
