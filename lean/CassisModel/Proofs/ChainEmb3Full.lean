/-
`json_full_ts_multi` under the LOCAL condition `FlagCoherentChain`, up to the provenance of the REBUILT type system
(`InhAnc ts'`, `OwnLike o ts'`, `Consistent ts'` remain hypotheses): the original's side is discharged
(`inhAnc_history`, `hist_history`, `json_full_ts_same`).
-/
import CassisModel.Proofs.ChainEmb3Hist2
import CassisModel.Properties.C02EmbeddedTs

namespace Cassis.ChainE
open Cassis.TS Cassis.Json

theorem json_full_ts_multi_chain_of_prov_aux (ops : List TsOp) (hu : UserOnlyNoDoc Gen.consts ops)
    (hw : Writable Gen.consts (ops.foldl (applyOp Gen.consts) Gen.builtinTS))
    (hpc : NoPercentNames (ops.foldl (applyOp Gen.consts) Gen.builtinTS))
    (hfc : FlagCoherentChain Gen.consts (ops.foldl (applyOp Gen.consts) Gen.builtinTS))
    (cass : List Cas) (ci : Nat) (hp : Heap) (doc : JDoc) (st : Traverse.St)
    (hsave : saveJson Gen.consts (ops.foldl (applyOp Gen.consts) Gen.builtinTS) cass ci hp .full = .ok (doc, st))
    (ts' : TypeSystem) (hl : loadTs Gen.consts Gen.builtinTS true doc = .ok ts')
    (hcm : Consistent ts') (ham : InhAnc ts')
    (hlike : OwnLike (ops.foldl (applyOp Gen.consts) Gen.builtinTS) ts') :
    MultiResAgree Gen.consts (ops.foldl (applyOp Gen.consts) Gen.builtinTS) ts' := by
  obtain ⟨ts'', hl'', hsame⟩ := json_full_ts_same ops hu hw hpc cass ci hp doc st hsave
  rw [hl] at hl''; cases hl''
  have ho := hist_history ops _ hist_builtin hu.1
  have hao := inhAnc_history ops _ hist_builtin inhAnc_builtin hu.1
  exact multiRes_of_chain ho.cons ho.feat hao hcm ham hlike hsame hfc

end Cassis.ChainE
