/-
C16 with collections: the JSON half of the chain with the hypotheses the composition can supply (cf.
`ChainJsonCore.lean` for the flat fragment).

* the writer *succeeds* on structures of the JSON fragment (`renderFs_ok`; `writer_collJ` only describes the result of
  a successful call);
* the reader part of `json_core_coll` for a document that is *described* (sofas of the views, the elements `elemOfJ` of
  the collected structures, the view records): `LOkJ` is a hypothesis, the well-formedness of the views is stated against
  an arbitrary heap `hp0` (`json_roundtrip_coll_weak`).
-/
import CassisModel.Proofs.RoundTripJsonColl
import CassisModel.Proofs.ChainDefs

namespace Cassis.ChainC
open Cassis.TS Cassis.Traverse Cassis.Xmi Cassis.Json Cassis.Lex Cassis.Xmi.RTB

/-! ### the writer succeeds -/

theorem arrayElements_ok {K : Consts} {ts : TypeSystem} {hp : Heap} {a : Nat} (h : JArrFs K ts hp a) {o : Obj}
    (ho : hp[a]? = some o) : ∃ el, arrayElements hp o.ty (alistGet? o.slots "elements") = .ok el := by
  obtain ⟨o', t, f, ev, ho', _, _, _, _, _, _, hsl, _, _, hk⟩ := h
  rw [ho] at ho'; cases ho'
  have hel : alistGet? o.slots "elements" = some ev := by
    rw [hsl]; simp [alistGet?]
  rw [hel]
  rcases hk with ⟨hty, _, l, rfl⟩ | ⟨hnf, _, hp_⟩
  · rw [hty]
    cases l with
    | nil => exact ⟨_, rfl⟩
    | cons r l =>
      unfold arrayElements
      have h1 : (FS_ARRAY == "uima.cas.ByteArray") = false := by decide
      have h2 : (FS_ARRAY == "uima.cas.DoubleArray" || FS_ARRAY == "uima.cas.FloatArray") = false := by decide
      simp only [h1, h2, beq_self_eq_true, if_true, Bool.false_eq_true, if_false]
      exact ⟨_, rfl⟩
  · have hnf' : (o.ty == FS_ARRAY) = false := by simpa using hnf
    rcases hp_ with rfl | ⟨hb, l, rfl⟩ | ⟨hf, l, rfl⟩ | ⟨hnb, hnfl, hl⟩
    · exact ⟨_, rfl⟩
    · rw [hb]
      cases l with
      | nil => exact ⟨none, by unfold arrayElements; simp only [beq_self_eq_true, if_true]⟩
      | cons i l => exact ⟨some (.ints (i :: l)), by unfold arrayElements; simp only [beq_self_eq_true, if_true]⟩
    · have hnb : (o.ty == "uima.cas.ByteArray") = false := by
        rcases hf with h | h <;> rw [h] <;> decide
      have hfl : (o.ty == "uima.cas.DoubleArray" || o.ty == "uima.cas.FloatArray") = true := by
        rcases hf with h | h <;> rw [h] <;> decide
      cases l with
      | nil => exact ⟨none, by unfold arrayElements; simp only [hnb, hfl, if_true, Bool.false_eq_true, if_false]⟩
      | cons i l => exact ⟨some (.flts ((i :: l).map floatElem)), by unfold arrayElements; simp only [hnb, hfl, if_true, Bool.false_eq_true, if_false]⟩
    · have hnb' : (o.ty == "uima.cas.ByteArray") = false := by simpa using hnb
      have hfl : (o.ty == "uima.cas.DoubleArray" || o.ty == "uima.cas.FloatArray") = false := by
        cases h1 : (o.ty == "uima.cas.DoubleArray")
        · cases h2 : (o.ty == "uima.cas.FloatArray")
          · rfl
          · exact absurd (.inl (eq_of_beq h2)) hnfl
        · exact absurd (.inr (eq_of_beq h1)) hnfl
      rcases hl with ⟨l, rfl⟩ | ⟨l, rfl⟩ | ⟨l, rfl⟩
      · cases l with
        | nil => exact ⟨none, by unfold arrayElements; simp only [hnb', hfl, hnf', Bool.false_eq_true, if_false]⟩
        | cons i l => exact ⟨some (.ints (i :: l)), by unfold arrayElements; simp only [hnb', hfl, hnf', Bool.false_eq_true, if_false]⟩
      · cases l with
        | nil => exact ⟨none, by unfold arrayElements; simp only [hnb', hfl, hnf', Bool.false_eq_true, if_false]⟩
        | cons i l => exact ⟨some (.bools (i :: l)), by unfold arrayElements; simp only [hnb', hfl, hnf', Bool.false_eq_true, if_false]⟩
      · cases l with
        | nil => exact ⟨none, by unfold arrayElements; simp only [hnb', hfl, hnf', Bool.false_eq_true, if_false]⟩
        | cons i l => exact ⟨some (.strs (i :: l)), by unfold arrayElements; simp only [hnb', hfl, hnf', Bool.false_eq_true, if_false]⟩

/-- the writer succeeds on a collected structure of the JSON fragment and writes `elemOfJ` -/
theorem renderFs_ok {K : Consts} {ts : TypeSystem} {cass : List Cas} {c : Cas} {ci : Nat} {H : Heap}
    {L : List (Int × Nat)} (hc : cass[ci]? = some c) (hL : LOkJ K ts c ci H L)
    (hsr : ∀ q ∈ L, ∀ o t, H[q.2]? = some o → find? ts o.ty = some t → ∀ f ∈ allFeatures t, SofaRangeOk K ts o f)
    (q : Int × Nat) (hq : q ∈ L) : Json.renderFs K ts cass H q.2 = .ok (elemOfJ K ts cass H q) := by
  obtain ⟨hkind, hjson⟩ := hL.coll q hq
  have hid := (hL.ids q hq).1
  rcases hkind with hgen | harr
  · obtain ⟨o, ho⟩ : ∃ o, H[q.2]? = some o := by
      obtain ⟨o, _, ho, _⟩ := hgen; exact ⟨o, ho⟩
    obtain ⟨hcond, t, ht⟩ := jgen_cond hgen ho
    have hE : elemOfJ K ts cass H q = flatJFs ts cass H q.1 o t := by
      unfold elemOfJ
      rw [ho]; dsimp only
      rw [hcond, ht]
      simp
    rw [hE]
    exact renderFs_genJ K ts cass c ci H q.2 q.1 o t hc hgen ho ht hid
      (fun f hf => ((hjson o t ho ht).2 f hf).2.2.2) (hsr q hq o t ho ht)
      (fun n b hb => by
        obtain ⟨x, hx, _⟩ := hL.closed q hq o ho n b hb
        rw [hx]; rfl)
  · obtain ⟨o, ho⟩ : ∃ o, H[q.2]? = some o := by
      obtain ⟨o, _, _, _, ho, _⟩ := harr; exact ⟨o, ho⟩
    have hcond := jarr_cond harr ho
    have hE : elemOfJ K ts cass H q = arrJFs H q.1 o := by
      unfold elemOfJ
      rw [ho]; dsimp only
      rw [hcond]
      simp
    rw [hE]
    obtain ⟨el, hel⟩ := arrayElements_ok harr ho
    have hs : Xmi.slot H q.2 "elements" = alistGet? o.slots "elements" := by
      unfold Xmi.slot Traverse.slot; rw [ho]; rfl
    have hxid : o.xid = some q.1 := by
      unfold xidOf at hid; rw [ho] at hid; exact hid
    unfold Json.renderFs
    simp only [bind, Except.bind, pure, Except.pure]
    rw [ho]
    dsimp only
    rw [hcond, hs]
    simp only [if_true]
    rw [hel]
    dsimp only
    unfold arrJFs arrElemsJ
    rw [hel, hxid]

theorem renderAll_ok (K : Consts) (ts : TypeSystem) (cass : List Cas) (H : Heap) (g : Int × Nat → JFs) :
    ∀ (L : List (Int × Nat)), (∀ q ∈ L, Json.renderFs K ts cass H q.2 = .ok (g q)) →
      Json.renderAll K ts cass H L = .ok (L.map g)
  | [], _ => rfl
  | q :: L, h => by
    unfold Json.renderAll
    rw [h q List.mem_cons_self, renderAll_ok K ts cass H g L (fun q' hq' => h q' (List.mem_cons_of_mem _ hq'))]
    rfl

/-! ### the reader on a described document -/

theorem json_core_coll_weak (K : Consts) (ts : TypeSystem) (cass : List Cas) (ci : Nat) (c : Cas) (hp0 H : Heap)
    (L : List (Int × Nat)) (tsIdx ci' : Nat) (doc : JDoc)
    (hc : cass[ci]? = some c) (hwf : RTWf c hp0) (hL : LOkJ K ts c ci H L)
    (hdis : ∀ q ∈ L, ∀ nv ∈ c.views, q.1 ≠ nv.2.sofa.xid)
    (hmem : ∀ nv ∈ c.views, ∀ e ∈ Index.all nv.2.idx, Xmi.slot H e.oid "sofa" ≠ some .none)
    (hmok : MembersOk c H)
    (hdfss : doc.fss = c.views.map (fun p => Json.renderSofa hp0 p.2.sofa) ++ L.map (elemOfJ K ts cass H))
    (hdviews : doc.views = c.views.map (jviewH H)) :
    ∃ (ld : Json.Loaded),
      loadJson K ts tsIdx ci' false false H doc = .ok ld ∧
      HeapRel H L (naOf H L) (E3J H (naOf H L) ci') ld.heap ∧
      ld.cas.views.map (viewContent ld.heap) = c.views.map (viewContent H) ∧
      ViewsRelJ H (naOf H L) c.views ld.cas.views ∧
      (∃ m : Int, ld.cas.nextXid = m + 1 ∧ 0 ≤ m ∧ (∀ q ∈ L, q.1 ≤ m) ∧ ∀ nv ∈ c.views, nv.2.sofa.xid ≤ m) := by
  have g : GCtxJ K ts cass c ci hp0 H L := ⟨hc, hwf, hL, hdis⟩
  -- the sofa pass
  obtain ⟨s1, hs1, h1heap, h1fss, h1def, h1views, h1id, h1num, h1bound⟩ :=
    sofaPass_flat K ts tsIdx ci' c hp0 H hwf (L.map (elemOfJ K ts cass H)) doc.fss (by
      intro e he
      obtain ⟨q, hq, rfl⟩ := List.mem_map.mp he
      exact elemOfJ_notSofa hL q hq)
  -- the structure pass
  have inv0 : FInvJ c H L ci' s1.cas s1.maxNum s1.maxId [] s1 := by
    refine ⟨rfl, rfl, by rw [h1heap]; rfl, by rw [h1fss]; unfold fsEntries; simp, ⟨Int.le_refl _, ?_⟩, ?_, ?_⟩
    · intro q hq; cases hq
    · intro q hq; cases hq
    · intro d hd; rw [h1def] at hd; cases hd
  obtain ⟨s2, hs2, inv⟩ := fsPass_collJ parseGen_collJ parseArr_collJ K ts cass c ci hp0 H _ g tsIdx ci' s1.cas h1views
    s1.maxNum s1.maxId L [] s1 rfl inv0
  -- the deferred entries
  have hfss : ∀ q ∈ L, Json.lookup s2.fss q.1 = some (.ref (naOf H L q.1)) := by
    intro q hq
    rw [inv.fss, lookup_append]
    have : Json.lookup (sofaEntries ci' c.views) q.1 = none := by
      apply lookup_none_of_not_mem
      rw [sofaEntries_keys]
      intro hin
      obtain ⟨nv, hnv, e⟩ := List.mem_map.mp hin
      exact g.dis q hq nv hnv e.symm
    rw [this]
    apply lookup_of_mem_nodup
    · rw [fsEntries_keys]; exact hL.nodup
    · unfold fsEntries
      exact List.mem_map.mpr ⟨q, hq, rfl⟩
  obtain ⟨HF, hfix, hrel⟩ := fixUps_collJ K ts cass c ci hp0 H _ g ci' s2.fss hfss s2.deferred s2.heap inv.defs inv.rel
  -- the views pass
  obtain ⟨v, hvp, hvheap, hvx, hvn, hvrel, hvcontent⟩ :=
    views_collJ K ts c ci H L (naOf H L) ci' hwf.names hwf.names_nodup
      hL hmem hmok HF hrel s2.fss hfss { s2.cas with nextXid := s2.maxId + 1, nextSofaNum := s2.maxNum + 1 }
      (by show s2.cas.views = _; rw [inv.cas]; exact h1views)
  have hload : loadJson K ts tsIdx ci' false false H doc = .ok { ts := ts, cas := v.cas, heap := v.heap } := by
    unfold loadJson loadTs
    simp only [Bool.false_eq_true, if_false]
    rw [hdfss] at hs1
    rw [hdfss, hs1]
    dsimp only
    rw [fsPass_skip_sofas tsIdx _ s1 _ (by
      intro e he
      obtain ⟨nv, _, rfl⟩ := List.mem_map.mp he
      rfl), hs2]
    dsimp only
    rw [hfix]
    dsimp only
    rw [hdviews, hvp]
  refine ⟨_, hload, ?_, ?_, hvrel, s2.maxId, ?_, ?_, inv.maxId.2, ?_⟩
  · show HeapRel _ _ _ _ v.heap
    rw [hvheap]; exact hrel
  · show v.cas.views.map (viewContent v.heap) = _
    rw [hvheap]; exact hvcontent
  · show v.cas.nextXid = _
    rw [hvx]
  · have := inv.maxId.1
    omega
  · intro nv hnv
    obtain ⟨b1, _⟩ := h1bound nv hnv
    have := inv.maxId.1
    omega

/-- the conclusions of `json_roundtrip_coll` the composition uses -/
theorem json_roundtrip_coll_weak (K : Consts) (ts : TypeSystem) (cass : List Cas) (ci : Nat) (c : Cas) (hp0 H : Heap)
    (L : List (Int × Nat)) (tsIdx ci' : Nat) (doc : JDoc)
    (hc : cass[ci]? = some c) (hwf : RTWf c hp0) (hL : LOkJ K ts c ci H L)
    (hdis : ∀ q ∈ L, ∀ nv ∈ c.views, q.1 ≠ nv.2.sofa.xid)
    (hmem : ∀ nv ∈ c.views, ∀ e ∈ Index.all nv.2.idx, Xmi.slot H e.oid "sofa" ≠ some .none)
    (hmok : MembersOk c H)
    (hdfss : doc.fss = c.views.map (fun p => Json.renderSofa hp0 p.2.sofa) ++ L.map (elemOfJ K ts cass H))
    (hdviews : doc.views = c.views.map (jviewH H)) :
    ∃ (ld : Json.Loaded) (fss : List (Int × Val)),
      loadJson K ts tsIdx ci' false false H doc = .ok ld ∧
      (∀ q ∈ L, ∃ (a' : Nat) (o o' : Obj), Json.lookup fss q.1 = some (.ref a') ∧
          H[q.2]? = some o ∧ ld.heap[a']? = some o' ∧ o'.ty = o.ty ∧ o'.xid = some q.1 ∧
          ∀ t : TypeRec, find? ts o.ty = some t → ∀ f ∈ allFeatures t,
            featContentC K ld.heap a' f = featContentC K H q.2 f) ∧
      ld.cas.views.map (viewContent ld.heap) = c.views.map (viewContent H) := by
  obtain ⟨ld, hload, hrel, hviews, _, _⟩ :=
    json_core_coll_weak K ts cass ci c hp0 H L tsIdx ci' doc hc hwf hL hdis hmem hmok hdfss hdviews
  refine ⟨ld, sofaEntries ci' c.views ++ fsEntries (naOf H L) L, hload, ?_, hviews⟩
  intro q hq
  obtain ⟨o, o', ho, ho', hty, hx, _, _⟩ := hrel q hq
  refine ⟨naOf H L q.1, o, o', ?_, ho, ho', hty, hx, ?_⟩
  · rw [lookup_append]
    have : Json.lookup (sofaEntries ci' c.views) q.1 = none := by
      apply lookup_none_of_not_mem
      rw [sofaEntries_keys]
      intro hin
      obtain ⟨nv, hnv, e⟩ := List.mem_map.mp hin
      exact hdis q hq nv hnv e.symm
    rw [this]
    apply lookup_of_mem_nodup
    · rw [fsEntries_keys]; exact hL.nodup
    · unfold fsEntries
      exact List.mem_map.mpr ⟨q, hq, rfl⟩
  · intro t ht f hf
    exact content_collJ K ts c ci H L ci' ld.heap hL hrel q hq o t ho ht f hf

end Cassis.ChainC
