/-
`getTypeExact` (`TypeSystem.get_type(name, match_exactly=True)`, used by the XMI and JSON loaders to resolve the type an
element names) against `getType` (`match_exactly=False`): they agree whenever the exact lookup succeeds, and on every
name with a dot; on a name without a dot that is not registered `getTypeExact` fails where `getType` may find a type by
short name (finding L1).
-/
import CassisModel.Model.TypeSystem

namespace Cassis.TS

theorem getTypeExact_of_find {ts : TypeSystem} {n : String} {t : TypeRec} (h : find? ts n = some t) :
    getTypeExact ts n = .ok t := by
  unfold getTypeExact; rw [h]

theorem getType_ok_of_find {ts : TypeSystem} {n : String} {t : TypeRec} (h : find? ts n = some t) :
    getType ts n = .ok t := by
  unfold getType; rw [h]

theorem getTypeExact_eq_getType_of_find {ts : TypeSystem} {n : String} {t : TypeRec} (h : find? ts n = some t) :
    getTypeExact ts n = .ok t ∧ getType ts n = .ok t :=
  ⟨getTypeExact_of_find h, getType_ok_of_find h⟩

theorem getTypeExact_ok_iff {ts : TypeSystem} {n : String} {t : TypeRec} :
    getTypeExact ts n = .ok t ↔ find? ts n = some t := by
  unfold getTypeExact
  cases h : find? ts n with
  | none => simp
  | some t' => simp

theorem getTypeExact_error {ts : TypeSystem} {n : String} {e : Err} (h : getTypeExact ts n = .error e) :
    find? ts n = none ∧ e = .typeNotFound := by
  unfold getTypeExact at h
  cases hf : find? ts n with
  | none => rw [hf] at h; cases h; exact ⟨rfl, rfl⟩
  | some t' => rw [hf] at h; cases h

theorem getTypeExact_of_find_none {ts : TypeSystem} {n : String} (h : find? ts n = none) :
    getTypeExact ts n = .error .typeNotFound := by
  unfold getTypeExact; rw [h]

theorem getTypeExact_isSome {ts : TypeSystem} {n : String} :
    (find? ts n).isSome = true ↔ ∃ t, getTypeExact ts n = .ok t := by
  unfold getTypeExact
  cases h : find? ts n with
  | none => simp
  | some t' => simp

theorem getType_of_getTypeExact {ts : TypeSystem} {n : String} {t : TypeRec} (h : getTypeExact ts n = .ok t) :
    getType ts n = .ok t :=
  getType_ok_of_find (getTypeExact_ok_iff.mp h)

/-- on a registered name, or a name with a dot, the two lookups coincide -/
theorem getTypeExact_eq_getType_of_hasDot {ts : TypeSystem} {n : String} (h : hasDot n = true) :
    getTypeExact ts n = getType ts n := by
  unfold getTypeExact getType
  cases find? ts n with
  | none => simp [h]
  | some t => rfl

/-- when `getType` succeeds through the exact lookup (the name is registered) `getTypeExact` gives the same record -/
theorem getTypeExact_of_getType {ts : TypeSystem} {n : String} {t : TypeRec} (h : getType ts n = .ok t)
    (hf : (find? ts n).isSome = true) : getTypeExact ts n = .ok t := by
  cases hfn : find? ts n with
  | none => rw [hfn] at hf; cases hf
  | some t' =>
    have := getType_ok_of_find hfn
    rw [h] at this; cases this
    exact getTypeExact_of_find hfn

/-- `getTypeExact` returns a record with the name asked for -/
theorem getTypeExact_name {ts : TypeSystem} {n : String} {t : TypeRec} (h : getTypeExact ts n = .ok t) : t.name = n := by
  have := List.find?_some (getTypeExact_ok_iff.mp h)
  simpa using this

theorem getTypeExact_mem {ts : TypeSystem} {n : String} {t : TypeRec} (h : getTypeExact ts n = .ok t) : t ∈ ts.types :=
  List.mem_of_find?_eq_some (getTypeExact_ok_iff.mp h)

end Cassis.TS
