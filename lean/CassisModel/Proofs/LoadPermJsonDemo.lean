/-
Non-vacuity of `json_load_perm_flat` (`Properties/C05PermJson.lean`): an instance with THREE views, so that the order of
the views of the loaded CAS can differ from the written one.

The type system of `RoundTripDemo.lean` (built-in types plus the annotation type `x.Tok` with an Integer feature `n` and
a reference feature `next`), a CAS with the views `_InitialView` (text `a😀b`), `v2` (text `😀bc`), `v3` (text `d`),
five `x.Tok` structures: references across views, a cycle, a self reference, one structure that is only reachable and
gets its id from the writer, one to two members per view.  Every hypothesis of the theorem holds (`demoP_hyps`, by kernel
evaluation of the sound Boolean checkers of `Spec/RoundTripCheck.lean` and `RoundTripJsonDemo.lean`).
-/
import CassisModel.Proofs.RoundTripJsonDemo
import CassisModel.Proofs.RoundTripCheck

namespace Cassis.Json.PermDemo
open Cassis Cassis.TS Cassis.Traverse

abbrev K : Consts := Xmi.Demo.K
abbrev tsP : TypeSystem := Xmi.Demo.demoTS'

def casP : Cas :=
  { views := [("_InitialView",
      { sofa := { sofaID := "_InitialView", sofaNum := 1, xid := 1, text := some [97, 128512, 98],
                  mime := some "text/plain", uri := none, arr := .none, conv := some [0, 1, 3, 4] },
        idx := [("x.Tok", [{ b := 0, e := 2, oid := 0 }])] }),
      ("v2",
      { sofa := { sofaID := "v2", sofaNum := 2, xid := 4, text := some [128512, 98, 99],
                  mime := none, uri := none, arr := .none, conv := some [0, 2, 3, 4] },
        idx := [("x.Tok", [{ b := 0, e := 1, oid := 2 }, { b := 1, e := 2, oid := 3 }])] }),
      ("v3",
      { sofa := { sofaID := "v3", sofaNum := 3, xid := 8, text := some [100],
                  mime := none, uri := none, arr := .none, conv := some [0, 1] },
        idx := [("x.Tok", [{ b := 0, e := 1, oid := 4 }])] })],
    nextXid := 9, nextSofaNum := 4 }

def hpP : Heap :=
  [ { ty := "x.Tok", ts := 0, xid := some 2, slots := [("n", .int 7), ("next", .ref 1), ("begin", .int 0), ("end", .int 2), ("sofa", .sofa 0 "_InitialView")] },
    { ty := "x.Tok", ts := 0, xid := none, slots := [("n", .none), ("next", .ref 2), ("begin", .int 2), ("end", .int 3), ("sofa", .sofa 0 "_InitialView")] },
    { ty := "x.Tok", ts := 0, xid := some 6, slots := [("n", .int 1), ("next", .ref 0), ("begin", .int 0), ("end", .int 1), ("sofa", .sofa 0 "v2")] },
    { ty := "x.Tok", ts := 0, xid := some 5, slots := [("n", .int 2), ("next", .ref 3), ("begin", .int 1), ("end", .int 2), ("sofa", .sofa 0 "v2")] },
    { ty := "x.Tok", ts := 0, xid := some 7, slots := [("n", .int 3), ("next", .none), ("begin", .int 0), ("end", .int 1), ("sofa", .sofa 0 "v3")] } ]

/-- the heap after the writer has assigned the missing id -/
def hpS : Heap :=
  [ { ty := "x.Tok", ts := 0, xid := some 2, slots := [("n", .int 7), ("next", .ref 1), ("begin", .int 0), ("end", .int 2), ("sofa", .sofa 0 "_InitialView")] },
    { ty := "x.Tok", ts := 0, xid := some 9, slots := [("n", .none), ("next", .ref 2), ("begin", .int 2), ("end", .int 3), ("sofa", .sofa 0 "_InitialView")] },
    { ty := "x.Tok", ts := 0, xid := some 6, slots := [("n", .int 1), ("next", .ref 0), ("begin", .int 0), ("end", .int 1), ("sofa", .sofa 0 "v2")] },
    { ty := "x.Tok", ts := 0, xid := some 5, slots := [("n", .int 2), ("next", .ref 3), ("begin", .int 1), ("end", .int 2), ("sofa", .sofa 0 "v2")] },
    { ty := "x.Tok", ts := 0, xid := some 7, slots := [("n", .int 3), ("next", .none), ("begin", .int 0), ("end", .int 1), ("sofa", .sofa 0 "v3")] } ]

theorem save_lit : (saveJson K tsP [casP] 0 hpP .none).toOption.map (fun r => (r.2.heap, r.2.allFs)) =
    some (hpS, [(2, 0), (6, 2), (5, 3), (7, 4), (9, 1)]) := by
  decide +kernel

theorem rtwf : Xmi.RTWf casP hpP := Xmi.rtWfB_sound _ _ (by decide +kernel)

theorem flat0 : Xmi.flatFsB K tsP casP 0 hpS 0 = true := by decide +kernel
theorem flat1 : Xmi.flatFsB K tsP casP 0 hpS 1 = true := by decide +kernel
theorem flat2 : Xmi.flatFsB K tsP casP 0 hpS 2 = true := by decide +kernel
theorem flat3 : Xmi.flatFsB K tsP casP 0 hpS 3 = true := by decide +kernel
theorem flat4 : Xmi.flatFsB K tsP casP 0 hpS 4 = true := by decide +kernel

theorem json_all : ∀ a ∈ [0, 1, 2, 3, 4], Demo.jsonFsB tsP hpS a = true := by decide +kernel

theorem member_ids : ∀ nv ∈ casP.views, ∀ e ∈ Index.all nv.2.idx, (xidOf hpP e.oid).isSome = true := by
  decide +kernel

theorem disjoint_ids : Xmi.disjointB [(2, 0), (6, 2), (5, 3), (7, 4), (9, 1)] casP = true := by decide +kernel
theorem members_sofa : Xmi.memSofaB casP hpS = true := by decide +kernel
theorem membersOk : Xmi.membersOkB casP hpS = true := by decide +kernel

/-- **non-vacuity**: every hypothesis of `json_load_perm_flat` holds for `K := Gen.consts`, the type system `tsP`,
    `cass := [casP]`, `ci := 0`, `c := casP`, `hp := hpP` and the `(doc, st)` that `saveJson` returns -/
theorem demoP_hyps : ∃ (doc : JDoc) (st : Traverse.St),
    saveJson K tsP [casP] 0 hpP .none = .ok (doc, st) ∧
    [casP][0]? = some casP ∧ Xmi.RTWf casP hpP ∧
    (∀ q ∈ st.allFs, Xmi.FlatFs K tsP casP 0 st.heap q.2) ∧
    (∀ q ∈ st.allFs, JsonFs tsP st.heap q.2) ∧
    (∀ nv ∈ casP.views, ∀ e ∈ Index.all nv.2.idx, (xidOf hpP e.oid).isSome = true) ∧
    (∀ q ∈ st.allFs, ∀ nv ∈ casP.views, q.1 ≠ nv.2.sofa.xid) ∧
    (∀ nv ∈ casP.views, ∀ e ∈ Index.all nv.2.idx, Xmi.slot st.heap e.oid "sofa" ≠ some .none) ∧
    Xmi.MembersOk casP st.heap := by
  cases h : saveJson K tsP [casP] 0 hpP .none with
  | error e =>
    have hs := save_lit
    rw [h] at hs
    simp [Except.toOption] at hs
  | ok r =>
    have hs := save_lit
    rw [h] at hs
    simp only [Except.toOption, Option.map_some, Option.some.injEq, Prod.mk.injEq] at hs
    obtain ⟨hheap, hall⟩ := hs
    refine ⟨r.1, r.2, rfl, rfl, rtwf, ?_, ?_, member_ids, ?_, ?_, ?_⟩
    · rw [hheap, hall]
      intro q hq
      simp only [List.mem_cons, List.not_mem_nil, or_false] at hq
      rcases hq with rfl | rfl | rfl | rfl | rfl
      · exact Xmi.flatFsB_sound _ _ _ _ _ _ flat0
      · exact Xmi.flatFsB_sound _ _ _ _ _ _ flat2
      · exact Xmi.flatFsB_sound _ _ _ _ _ _ flat3
      · exact Xmi.flatFsB_sound _ _ _ _ _ _ flat4
      · exact Xmi.flatFsB_sound _ _ _ _ _ _ flat1
    · rw [hheap, hall]
      intro q hq
      simp only [List.mem_cons, List.not_mem_nil, or_false] at hq
      rcases hq with rfl | rfl | rfl | rfl | rfl <;>
        exact Demo.jsonFsB_sound _ _ _ (json_all _ (by decide))
    · rw [hall]; exact Xmi.disjointB_sound _ _ disjoint_ids
    · rw [hheap]; exact Xmi.memSofaB_sound _ _ members_sofa
    · rw [hheap]; exact Xmi.membersOkB_sound _ _ membersOk

/-- the written document read with its `%FEATURE_STRUCTURES` reversed (structures before the sofas, `v3` before `v2`
    before `_InitialView`): the reader's views are `_InitialView`, `v3`, `v2` — the initial view first, the other views
    in the order of their sofas in the document.  So the views of the loaded CAS are a permutation of the written
    ones and in general not the same list. -/
theorem reversed_view_order :
    (saveJson K tsP [casP] 0 hpP .none).toOption.bind (fun r =>
      (sofaPass K tsP 0 1 r.1.fss.reverse r.1.fss.reverse { cas := Cas.empty, heap := r.2.heap }).toOption.map
        (fun s => s.cas.views.map (·.1))) = some ["_InitialView", "v3", "v2"] := by
  decide +kernel

end Cassis.Json.PermDemo
