/-
JSON round trip with collections, layers FP and FX: the second pass (`fsPass`) over the written document and the
deferred references and FSArray elements (`fixUps`).  Cf. `RoundTripJsonPass.lean` (the flat versions).
-/
import CassisModel.Proofs.RoundTripJsonCollDefs

namespace Cassis.Json
open Cassis.TS Cassis.Traverse Cassis.Lex Cassis.Xmi Cassis.Xmi.RTB

section
variable {K : Consts} {ts : TypeSystem} {cass : List Cas} {c : Cas} {ci : Nat} {hp H : Heap} {L : List (Int × Nat)}

/-! ### the context of `parseFs` -/

theorem GCtxJ.pctx (g : GCtxJ K ts cass c ci hp H L) (ci' : Nat) (cas1 : Cas) (hv : cas1.views = bareViews c.views)
    (L1 : List (Int × Nat)) :
    PCtx cass c ci H L (naOf H L) ci' (sofaEntries ci' c.views ++ fsEntries (naOf H L) L1) cas1 where
  hc := g.hc
  closed := g.lok.closed
  fss_sofa := by
    intro nv hnv
    rw [lookup_append]
    have : lookup (sofaEntries ci' c.views) nv.2.sofa.xid = some (.sofa ci' nv.1) := by
      apply lookup_of_mem_nodup
      · rw [sofaEntries_keys]; exact g.wf.sofa_ids_nodup
      · unfold sofaEntries
        exact List.mem_map.mpr ⟨nv, hnv, rfl⟩
    rw [this]
  fss_ref := by
    intro q hq tv h
    rw [lookup_append] at h
    have : lookup (sofaEntries ci' c.views) q.1 = none := by
      apply lookup_none_of_not_mem
      rw [sofaEntries_keys]
      intro hin
      obtain ⟨nv, hnv, e⟩ := List.mem_map.mp hin
      exact g.dis q hq nv hnv e.symm
    rw [this] at h
    exact fsEntries_val _ _ _ _ (lookup_mem _ _ _ h)
  views := hv
  conv := g.wf.conv

/-! ### the written element -/

theorem elemOfJ_gen (q : Int × Nat) (o : Obj) (t : TypeRec) (ho : H[q.2]? = some o) (ht : find? ts o.ty = some t)
    (hpa : isPrimitiveArray K o.ty = false) (hfa : o.ty ≠ FS_ARRAY) :
    elemOfJ K ts cass H q = flatJFs ts cass H q.1 o t := by
  unfold elemOfJ
  rw [ho]
  dsimp only
  have h2 : (o.ty == FS_ARRAY) = false := by simpa using hfa
  rw [hpa, h2]
  simp only [Bool.or_self, Bool.false_eq_true, if_false]
  rw [ht]

theorem elemOfJ_arr (q : Int × Nat) (o : Obj) (ho : H[q.2]? = some o)
    (h : o.ty = FS_ARRAY ∨ isPrimitiveArray K o.ty = true) :
    elemOfJ K ts cass H q = arrJFs H q.1 o := by
  unfold elemOfJ
  rw [ho]
  dsimp only
  have : (isPrimitiveArray K o.ty || o.ty == FS_ARRAY) = true := by
    rcases h with h | h
    · have h2 : (o.ty == FS_ARRAY) = true := by simpa using h
      rw [h2, Bool.or_true]
    · rw [h, Bool.true_or]
  rw [this]
  simp only [if_true]

/-- the slot values of a general structure are not raw element lists -/
theorem jgen_plain {o : Obj} {t : TypeRec} {isAnn : Bool}
    (hkeys : o.slots.map (·.1) = (ctorFields t).eraseDups)
    (hfeat : ∀ f ∈ allFeatures t, JFeatOk K ts c ci H isAnn o f) {n : String} {v : Val}
    (hv : alistGet? o.slots n = some v) : plainV v = true := by
  obtain ⟨f, hf, rfl⟩ := flat_slot_feature hkeys hv
  obtain ⟨_, _, _, _, _, v', hv', hc⟩ := hfeat f hf
  rw [hv] at hv'; cases hv'
  rcases hc with ⟨_, ⟨vn, e, _⟩ | ⟨e, _⟩⟩ | ⟨_, _, e | ⟨_, i, e⟩ | ⟨_, s, e⟩ | ⟨_, b, e⟩ | ⟨_, t', e⟩⟩ |
      ⟨_, _, _, _, _, e | ⟨b, e, _⟩⟩ <;> subst e <;> rfl

theorem ObjPendJ.of_plain {na : Int → Nat} {ci' addr : Nat} {ds : List Deferred} {o o' : Obj} {x : Int}
    (h : ObjPend H na ci' addr ds o o' x) (hpl : ∀ n v, alistGet? o.slots n = some v → plainV v = true) :
    ObjPendJ H na ci' addr ds o o' x := by
  obtain ⟨h1, h2, h3, h4⟩ := h
  refine ⟨h1, h2, h3, fun n v hv => ?_⟩
  rcases h4 n v hv with h | h
  · left; rw [exp3J_plain _ _ _ _ (hpl n v hv)]; exact h
  · exact Or.inr (Or.inl h)

/-- one step of the second pass: `parseFs` on the element of a collected structure -/
theorem parseFs_collJ (hpg : ParseGenStmt) (hpa : ParseArrStmt) (g : GCtxJ K ts cass c ci hp H L)
    (tsIdx ci' : Nat) (cas1 : Cas) (hv : cas1.views = bareViews c.views) (L1 : List (Int × Nat)) (s : RState)
    (hfss : s.fss = sofaEntries ci' c.views ++ fsEntries (naOf H L) L1) (hcas : s.cas = cas1)
    (q : Int × Nat) (hq : q ∈ L) :
    ∃ (o o' : Obj) (ds : List Deferred), H[q.2]? = some o ∧ (elemOfJ K ts cass H q).ty ≠ SOFA ∧
      parseFs K ts tsIdx s (elemOfJ K ts cass H q) =
        .ok { s with heap := s.heap ++ [o'], fss := setFs s.fss q.1 (.ref s.heap.length),
                     deferred := s.deferred ++ ds, maxId := max s.maxId q.1 } ∧
      ObjPendJ H (naOf H L) ci' s.heap.length ds o o' q.1 ∧ (∀ d ∈ ds, DefOkJ H s.heap.length o d) := by
  obtain ⟨hga, hjson⟩ := g.lok.coll q hq
  rcases hga with hgen | harr
  · have hgen' := hgen
    obtain ⟨o, t, ho, ht, _, _, _, _, hprim, hfa, _, hns, _, _, hkeys, hfeat, _⟩ := hgen'
    have he := elemOfJ_gen (K := K) (cass := cass) q o t ho ht hprim hfa
    obtain ⟨o', ds, hparse, hpend, hdef⟩ :=
      hpg K ts cass c ci H L (naOf H L) ci' _ cas1 tsIdx (g.pctx ci' cas1 hv L1) s hfss hcas q hq o t ho ht hgen hjson
    refine ⟨o, o', ds, ho, ?_, ?_, ?_, ?_⟩
    · rw [he]; exact hns
    · rw [he]; exact hparse
    · exact ObjPendJ.of_plain hpend (fun n v hv => jgen_plain hkeys hfeat hv)
    · exact fun d hd => Or.inl (hdef d hd)
  · have harr' := harr
    obtain ⟨o, t, f, ev, ho, _, _, _, _, _, _, _, _, hns, hty⟩ := harr'
    have he := elemOfJ_arr (K := K) (ts := ts) (cass := cass) q o ho (by
      rcases hty with ⟨h, _⟩ | ⟨_, h, _⟩
      · exact Or.inl h
      · exact Or.inr h)
    obtain ⟨o', ds, hparse, hpend, hdef⟩ := hpa K ts H (naOf H L) ci' tsIdx s q.1 q.2 o ho harr hjson
    refine ⟨o, o', ds, ho, ?_, ?_, hpend, hdef⟩
    · rw [he]; exact hns
    · rw [he]; exact hparse

/-! ### the second pass -/

theorem fsPass_collJ_aux (hpg : ParseGenStmt) (hpa : ParseArrStmt) (g : GCtxJ K ts cass c ci hp H L)
    (tsIdx ci' : Nat) (cas1 : Cas) (hv : cas1.views = bareViews c.views) (m0 m1 : Int) :
    ∀ (L2 L1 : List (Int × Nat)) (s : RState), L = L1 ++ L2 → FInvJ c H L ci' cas1 m0 m1 L1 s →
      ∃ s', fsPass K ts tsIdx (L2.map (elemOfJ K ts cass H)) s = .ok s' ∧ FInvJ c H L ci' cas1 m0 m1 L s'
  | [], L1, s, hL, inv => by
    rw [List.append_nil] at hL
    subst hL
    exact ⟨s, rfl, inv⟩
  | q :: L2, L1, s, hL, inv => by
    have hq : q ∈ L := by rw [hL]; exact List.mem_append_right _ List.mem_cons_self
    obtain ⟨o, o', ds, ho, hns, hparse, hpend, hdef⟩ :=
      parseFs_collJ hpg hpa g tsIdx ci' cas1 hv L1 s inv.fss inv.cas q hq
    have hnd : ((L1 ++ q :: L2).map (·.1)).Nodup := by rw [← hL]; exact g.lok.nodup
    have hq1 : q.1 ∉ L1.map (·.1) := by
      rw [List.map_append, List.map_cons] at hnd
      intro hin
      exact (List.nodup_append.mp hnd).2.2 _ hin _ List.mem_cons_self rfl
    have hna : naOf H L q.1 = s.heap.length := by
      unfold naOf
      rw [inv.len, hL, posOf_append_self q L2 L1 hq1]
    have hfsnew : setFs s.fss q.1 (.ref s.heap.length) = sofaEntries ci' c.views ++ fsEntries (naOf H L) (L1 ++ [q]) := by
      rw [setFs_new]
      · rw [inv.fss, List.append_assoc]
        congr 1
        unfold fsEntries
        rw [List.map_append, List.map_cons, List.map_nil, hna]
      · rw [inv.fss, List.map_append, sofaEntries_keys, fsEntries_keys]
        intro hin
        rcases List.mem_append.mp hin with hin | hin
        · obtain ⟨nv, hnv, e⟩ := List.mem_map.mp hin
          exact g.dis q hq nv hnv e.symm
        · exact hq1 hin
    have inv' : FInvJ c H L ci' cas1 m0 m1 (L1 ++ [q])
        { s with heap := s.heap ++ [o'], fss := setFs s.fss q.1 (.ref s.heap.length),
                 deferred := s.deferred ++ ds, maxId := max s.maxId q.1 } := by
      refine ⟨inv.cas, inv.num, ?_, hfsnew, ⟨?_, ?_⟩, ?_, ?_⟩
      · show (s.heap ++ [o']).length = _
        rw [List.length_append, List.length_append, inv.len]
        simp only [List.length_cons, List.length_nil]
        omega
      · show m1 ≤ max s.maxId q.1
        have := inv.maxId.1
        omega
      · intro q' hq'
        show q'.1 ≤ max s.maxId q.1
        rcases List.mem_append.mp hq' with h | h
        · have := inv.maxId.2 q' h
          omega
        · rw [List.mem_singleton] at h
          subst h
          omega
      · intro q' hq'
        rcases List.mem_append.mp hq' with h | h
        · obtain ⟨o1, o1', h1, h2, h3⟩ := inv.rel q' h
          refine ⟨o1, o1', h1, ?_, h3.mono (fun d hd => List.mem_append_left _ hd)⟩
          show (s.heap ++ [o'])[naOf H L q'.1]? = some o1'
          have hlt : naOf H L q'.1 < s.heap.length := (List.getElem?_eq_some_iff.mp h2).1
          rw [List.getElem?_append_left hlt]
          exact h2
        · rw [List.mem_singleton] at h
          subst h
          refine ⟨o, o', ho, ?_, ?_⟩
          · show (s.heap ++ [o'])[naOf H L q'.1]? = some o'
            rw [hna]; exact get_last _ _
          · rw [hna]
            exact hpend.mono (fun d hd => List.mem_append_right _ hd)
      · intro d hd
        rcases List.mem_append.mp hd with h | h
        · obtain ⟨q', hq', o1, h1, h2⟩ := inv.defs d h
          exact ⟨q', List.mem_append_left _ hq', o1, h1, h2⟩
        · exact ⟨q, List.mem_append_right _ List.mem_cons_self, o, ho, by rw [hna]; exact hdef d h⟩
    obtain ⟨s', hs', inv''⟩ := fsPass_collJ_aux hpg hpa g tsIdx ci' cas1 hv m0 m1 L2 (L1 ++ [q]) _
      (by rw [hL, List.append_assoc]; rfl) inv'
    refine ⟨s', ?_, inv''⟩
    rw [List.map_cons]
    unfold fsPass
    have hty : ((elemOfJ K ts cass H q).ty != SOFA) = true := by simpa using hns
    rw [hty]
    simp only [if_true]
    rw [hparse]
    dsimp only
    exact hs'

end

/-- **FP** the second pass over the written structures -/
theorem fsPass_collJ (hpg : ParseGenStmt) (hpa : ParseArrStmt) : FsPassStmt := by
  intro K ts cass c ci hp H L g tsIdx ci' cas1 hv m0 m1 L2 L1 s hL inv
  exact fsPass_collJ_aux hpg hpa g tsIdx ci' cas1 hv m0 m1 L2 L1 s hL inv

/-! ### deferred references and FSArray elements -/

theorem idOf_eq_xidOf (H : Heap) (b : Nat) : Cassis.Json.idOf H b = xidOf H b := rfl

/-- a waiting slot does not wait for an entry of another object or another slot -/
theorem PendJ.tail {H : Heap} {addr : Nat} {d : Deferred} {ds : List Deferred} {n : String} {v : Val}
    (h : PendJ H addr (d :: ds) n v) (hne : d.addr ≠ addr ∨ d.slot ≠ n) : PendJ H addr ds n v := by
  rcases h with ⟨b, y, e1, e2, hm⟩ | ⟨l, e1, e2, hm⟩
  · refine Or.inl ⟨b, y, e1, e2, ?_⟩
    rcases List.mem_cons.mp hm with e | hm'
    · exfalso
      rcases hne with h | h
      · exact h (by rw [← e])
      · exact h (by rw [← e])
    · exact hm'
  · refine Or.inr ⟨l, e1, e2, ?_⟩
    rcases List.mem_cons.mp hm with e | hm'
    · exfalso
      rcases hne with h | h
      · exact h (by rw [← e]; rfl)
      · exact h (by rw [← e, e2]; rfl)
    · exact hm'

/-- the elements of an FSArray, resolved -/
theorem elems_resolve (H : Heap) (na : Int → Nat) (fssF : List (Int × Val)) (F : Option Int → Option Nat)
    (hF : ∀ oi, F oi = match oi.bind (lookup fssF) with
          | some (.ref a) => some a
          | _ => none) :
    ∀ (l : List (Option Nat)),
      (∀ b : Nat, some b ∈ l → ∃ y : Int, xidOf H b = some y ∧ lookup fssF y = some (.ref (na y))) →
      (l.map (refOf H)).map F = l.map (fun r => r.bind (fun b => (xidOf H b).map na))
  | [], _ => rfl
  | r :: l, h => by
    rw [List.map_cons, List.map_cons, List.map_cons,
      elems_resolve H na fssF F hF l (fun b hb => h b (List.mem_cons_of_mem _ hb))]
    congr 1
    rw [hF]
    cases r with
    | none => rfl
    | some b =>
      obtain ⟨y, hy, hl⟩ := h b List.mem_cons_self
      show (match (Cassis.Json.idOf H b).bind (lookup fssF) with
          | some (.ref a) => some a
          | _ => none) = (xidOf H b).map na
      rw [idOf_eq_xidOf, hy]
      dsimp only [Option.bind_some, Option.map_some]
      rw [hl]

section
variable {K : Consts} {ts : TypeSystem} {cass : List Cas} {c : Cas} {ci : Nat} {hp H : Heap} {L : List (Int × Nat)}

/-- one deferred entry: the slot `n` of the counterpart of `q` gets its final value -/
theorem fix_step (hnd : (L.map (·.1)).Nodup) (ci' : Nat) (d : Deferred) (ds : List Deferred) (heap : Heap)
    (q : Int × Nat) (hq : q ∈ L) (o : Obj) (ho : H[q.2]? = some o) (n : String) (v0 : Val)
    (hda : d.addr = naOf H L q.1) (hds : d.slot = n) (hsl : alistGet? o.slots n = some v0)
    (hrel : PRelJ H L ci' heap (d :: ds)) :
    ∃ heap1, Heap.setSlot heap d.addr d.slot (exp3J H (naOf H L) ci' v0) = .ok heap1 ∧ PRelJ H L ci' heap1 ds := by
  obtain ⟨o_, o', ho_, ho', hty, hxid, hkeys, hslots⟩ := hrel q hq
  rw [ho] at ho_; cases ho_
  have hn' : ∃ w, alistGet? o'.slots n = some w := by
    apply Option.isSome_iff_exists.mp
    rw [aget_isSome_iff, hkeys, ← aget_isSome_iff, hsl]; rfl
  obtain ⟨w, hw⟩ := hn'
  refine ⟨heap.set (naOf H L q.1) (setObj o' n (exp3J H (naOf H L) ci' v0)), ?_, ?_⟩
  · rw [hda, hds]
    exact setSlot_existing _ ho' hw
  · intro q2 hq2
    by_cases hsame : naOf H L q2.1 = naOf H L q.1
    · have hid := naOf_inj H L q2 hq2 q hq hsame
      have hq2' : q2 = q := by
        obtain ⟨x2, a2⟩ := q2
        obtain ⟨x, a⟩ := q
        simp only at hid
        subst hid
        rw [addr_unique hnd hq2 hq]
      subst hq2'
      refine ⟨o, setObj o' n (exp3J H (naOf H L) ci' v0), ho, set_get_self ho', hty, hxid, ?_, ?_⟩
      · rw [setObj_keys _ _ _ ((aget_isSome_iff _ _).mp (by rw [hw]; rfl)), hkeys]
      · intro n2 v2 hv2
        show alistGet? (alistSet o'.slots n _) n2 = _ ∨ _
        by_cases hn2 : n2 = n
        · subst hn2
          left
          rw [alistGet?_set_same]
          rw [hsl] at hv2
          cases hv2
          rfl
        · rw [alistGet?_set_other _ _ _ _ hn2]
          rcases hslots n2 v2 hv2 with h | h
          · exact Or.inl h
          · exact Or.inr (h.tail (Or.inr (by rw [hds]; exact fun e => hn2 e.symm)))
    · obtain ⟨o2, o2', h1, h2, t1, t2, t3, t4⟩ := hrel q2 hq2
      refine ⟨o2, o2', h1, ?_, t1, t2, t3, ?_⟩
      · rw [set_get_ne (Ne.symm hsame)]; exact h2
      · intro n2 v2 hv2
        rcases t4 n2 v2 hv2 with h | h
        · exact Or.inl h
        · exact Or.inr (h.tail (Or.inl (by rw [hda]; exact fun e => hsame e.symm)))

theorem fixUps_collJ_aux (g : GCtxJ K ts cass c ci hp H L) (ci' : Nat) (fssF : List (Int × Val))
    (hfss : ∀ q ∈ L, lookup fssF q.1 = some (.ref (naOf H L q.1))) :
    ∀ (ds : List Deferred) (heap : Heap), (∀ d ∈ ds, DefCJ H L d) → PRelJ H L ci' heap ds →
      ∃ heap', fixUps fssF ds heap = .ok heap' ∧ HeapRel H L (naOf H L) (E3J H (naOf H L) ci') heap'
  | [], heap, _, hrel => by
    refine ⟨heap, rfl, ?_⟩
    intro q hq
    obtain ⟨o, o', ho, ho', h1, h2, h3, h4⟩ := hrel q hq
    refine ⟨o, o', ho, ho', h1, h2, h3, ?_⟩
    intro n v hv
    rcases h4 n v hv with h | ⟨_, _, _, _, hm⟩ | ⟨_, _, _, hm⟩
    · exact h
    · cases hm
    · cases hm
  | d :: ds, heap, hdc, hrel => by
    obtain ⟨q, hq, o, ho, hd⟩ := hdc d List.mem_cons_self
    rcases hd with ⟨n, b, y, hd, hsl, hy⟩ | ⟨l, hd, hsl⟩
    · -- a single deferred reference
      obtain ⟨y', hy', hyL⟩ := g.lok.closed q hq o ho n b hsl
      rw [hy] at hy'; cases hy'
      have hval : (d.target.bind (lookup fssF)).getD .none = exp3J H (naOf H L) ci' (.ref b) := by
        rw [hd]
        dsimp only [Option.bind_some]
        rw [hfss _ hyL]
        show Val.ref (naOf H L y) = exp3 H (naOf H L) ci' (.ref b)
        unfold exp3
        dsimp only
        rw [hy]
      obtain ⟨heap1, hstep, hrel'⟩ := fix_step g.lok.nodup ci' d ds heap q hq o ho n (.ref b)
        (by rw [hd]) (by rw [hd]) hsl hrel
      obtain ⟨heap', hfix, hfin⟩ := fixUps_collJ_aux g ci' fssF hfss ds heap1
        (fun d' hd' => hdc d' (List.mem_cons_of_mem _ hd')) hrel'
      refine ⟨heap', ?_, hfin⟩
      unfold fixUps
      have he : d.elems = none := by rw [hd]
      rw [he]
      dsimp only
      rw [hval, hstep]
      exact hfix
    · -- the deferred elements of an FSArray
      have hres : ∀ F : Option Int → Option Nat, (∀ oi, F oi = match oi.bind (lookup fssF) with
            | some (.ref a) => some a
            | _ => none) →
          (l.map (refOf H)).map F = l.map (fun r => r.bind (fun b => (xidOf H b).map (naOf H L))) := by
        intro F hF
        apply elems_resolve H (naOf H L) fssF F hF
        intro b hb
        obtain ⟨y, hy, hyL⟩ := g.lok.closedE q hq o ho l hsl b hb
        exact ⟨y, hy, hfss _ hyL⟩
      obtain ⟨heap1, hstep, hrel'⟩ := fix_step g.lok.nodup ci' d ds heap q hq o ho "elements" (.refs l)
        (by rw [hd]; rfl) (by rw [hd]; rfl) hsl hrel
      obtain ⟨heap', hfix, hfin⟩ := fixUps_collJ_aux g ci' fssF hfss ds heap1
        (fun d' hd' => hdc d' (List.mem_cons_of_mem _ hd')) hrel'
      refine ⟨heap', ?_, hfin⟩
      unfold fixUps
      have he : d.elems = some (l.map (refOf H)) := by rw [hd]; rfl
      rw [he]
      dsimp only
      rw [hres]
      · have : exp3J H (naOf H L) ci' (.refs l) =
            .refs (l.map (fun r => r.bind (fun b => (xidOf H b).map (naOf H L)))) := rfl
        rw [this] at hstep
        rw [hstep]
        exact hfix
      · intro oi; rfl

end

/-- **FX** the deferred references and FSArray elements -/
theorem fixUps_collJ : FixUpsStmt := by
  intro K ts cass c ci hp H L g ci' fssF hfss ds heap hdc hrel
  exact fixUps_collJ_aux g ci' fssF hfss ds heap hdc hrel

end Cassis.Json
