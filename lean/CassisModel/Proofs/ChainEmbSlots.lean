/-
C16 with an embedded type system, the chain JSON → CAS → XMI → CAS, part 4: every object the JSON reader makes carries
one slot per constructor field of its type, *in the order of the type system the reader runs with* (`SlotsOk`,
`Proofs/ChainEmbFrag.lean`).  The reader makes objects through the constructor of the type `get_type` answers (`construct`)
and afterwards only sets existing slots (`Heap.setSlot`, `Cas.add`), which keeps type and slot names.
-/
import CassisModel.Proofs.ChainEmbFrag
import CassisModel.Proofs.RoundTripJsonEmbViews
import CassisModel.Proofs.RoundTripPost

namespace Cassis.ChainE
open Cassis.TS Cassis.Traverse Cassis.Json

/-- type and slot names of the object at an address -/
def keysAt (hp : Heap) (a : Nat) : Option (String × List String) :=
  (hp[a]?).map (fun o => (o.ty, o.slots.map (·.1)))

/-- every object from address `n0` on has the slot names of a registered type of its name -/
def KInv (ts : TypeSystem) (n0 : Nat) (hp : Heap) : Prop :=
  ∀ a, n0 ≤ a → ∀ k, keysAt hp a = some k → ∃ t ∈ ts.types, k = (t.name, (ctorFields t).eraseDups)

theorem kinv_of_keys {ts : TypeSystem} {n0 : Nat} {hp hp1 : Heap} (h : ∀ b, keysAt hp1 b = keysAt hp b)
    (hk : KInv ts n0 hp) : KInv ts n0 hp1 := by
  intro a ha k hka
  rw [h] at hka
  exact hk a ha k hka

theorem keysAt_set {hp : Heap} {a : Nat} {o o' : Obj} (ho : hp[a]? = some o) (hty : o'.ty = o.ty)
    (hsl : o'.slots.map (·.1) = o.slots.map (·.1)) (b : Nat) : keysAt (hp.set a o') b = keysAt hp b := by
  unfold keysAt
  rw [List.getElem?_set]
  by_cases hab : a = b
  · subst hab
    rw [if_pos rfl, ho]
    split
    · simp only [Option.map_some, hty, hsl]
    · rename_i hlt
      rw [List.getElem?_eq_none (by omega)] at ho; cases ho
  · rw [if_neg hab]

theorem keysAt_setSlot {hp hp1 : Heap} {a : Nat} {n : String} {v : Val} (h : Heap.setSlot hp a n v = .ok hp1) (b : Nat) :
    keysAt hp1 b = keysAt hp b := by
  obtain ⟨o, ho, hcase⟩ := Cassis.Heap.setSlot_ok_cases hp hp1 a n v h
  rcases hcase with ⟨w, hw, rfl⟩ | ⟨_, _, x, rfl⟩
  · exact keysAt_set (o' := { o with slots := alistSet o.slots n v }) ho rfl
      (Cassis.Xmi.rtp_alistSet_keys _ _ _ _ hw) b
  · exact keysAt_set (o' := { o with xid := x }) ho rfl rfl b

theorem resolveRefs_keys (rn : String → String) (fss : List (Int × Val)) (addr : Nat) :
    ∀ (l : List (String × JV)) (hp : Heap) (d : List Deferred) (r : Heap × List Deferred),
      resolveRefs rn fss addr l (hp, d) = .ok r → ∀ b, keysAt r.1 b = keysAt hp b := by
  intro l
  induction l with
  | nil => intro hp d r h b; cases h; rfl
  | cons p rest ih =>
    intro hp d r h b
    unfold resolveRefs at h
    dsimp only at h
    split at h
    · rename_i tv _
      cases hs : Heap.setSlot hp addr (rn (String.ofList (p.1.toList.drop 1))) tv with
      | error e => rw [hs] at h; cases h
      | ok hp1 =>
        rw [hs] at h
        rw [ih hp1 d r h b, keysAt_setSlot hs]
    · exact ih hp _ r h b

theorem convertOffsets_keys {conv : Offsets.Conv} {hp hp1 : Heap} {a : Nat} (h : Xmi.convertOffsets conv hp a = .ok hp1)
    (b : Nat) : keysAt hp1 b = keysAt hp b := by
  obtain ⟨cv, hcv⟩ := convertOffsets_eq conv
  rw [hcv] at h
  cases hb : Traverse.slot hp a "begin" with
  | none => rw [hb] at h; cases h
  | some v =>
    rw [hb] at h
    dsimp only at h
    cases hs : Heap.setSlot hp a "begin" (cv v) with
    | error e => rw [hs] at h; cases h
    | ok x =>
      rw [hs] at h
      dsimp only at h
      cases he : Traverse.slot x a "end" with
      | none => rw [he] at h; cases h
      | some w =>
        rw [he] at h
        rw [keysAt_setSlot h, keysAt_setSlot hs]

theorem fixUps_keys (fss : List (Int × Val)) : ∀ (l : List Deferred) {hp hp1 : Heap}, fixUps fss l hp = .ok hp1 →
    ∀ b, keysAt hp1 b = keysAt hp b := by
  obtain ⟨val, hval⟩ := fixUps_cons_eq
  intro l
  induction l with
  | nil => intro hp hp1 h b; cases h; rfl
  | cons d rest ih =>
    intro hp hp1 h b
    rw [hval] at h
    cases hs : Heap.setSlot hp d.addr d.slot (val fss d) with
    | error e => rw [hs] at h; cases h
    | ok x =>
      rw [hs] at h
      rw [ih h b, keysAt_setSlot hs]

/-! ### `Cas.add` -/

theorem addObj_keys (cas : Nat) (h : Handle) (o : Obj) (x : Int) :
    (addObj cas h o x).ty = o.ty ∧ (addObj cas h o x).slots.map (·.1) = o.slots.map (·.1) := by
  refine ⟨rfl, ?_⟩
  unfold addObj
  dsimp only
  split
  · rename_i hs
    obtain ⟨w, hw⟩ := Option.isSome_iff_exists.mp hs
    exact Cassis.Xmi.rtp_alistSet_keys _ _ _ _ hw
  · rfl

theorem add_keys {ts : TypeSystem} {ci : Nat} {c : Cas} {hp : Heap} {hd : Handle} {a : Nat} {keep : Bool} {r : Cas × Heap}
    (hr : Cas.add ts ci c hp hd a keep = .ok r) (b : Nat) : keysAt r.2 b = keysAt hp b := by
  rw [add_eq] at hr
  cases ho : hp[a]? with
  | none => rw [ho] at hr; cases hr
  | some o =>
    rw [ho] at hr
    dsimp only at hr
    split at hr
    · cases hr
    · unfold addCore at hr
      cases hc : Cas.cur c hd with
      | error e => rw [hc] at hr; cases hr
      | ok v =>
        rw [hc] at hr
        dsimp only at hr
        cases he : Cas.entryOf (addObj ci hd o (pickId keep c o.xid).1) a with
        | error e => rw [he] at hr; cases hr
        | ok e =>
          rw [he] at hr
          dsimp only at hr
          split at hr
          · cases hr
          · cases hr
            exact keysAt_set ho (addObj_keys ci hd o _).1 (addObj_keys ci hd o _).2 b

theorem addJMembers_keys {ts : TypeSystem} (ci : Nat) (hd : Handle) (fss : List (Int × Val)) :
    ∀ (ms : List Int) {v v' : VState}, addJMembers ts ci hd fss ms v = .ok v' → ∀ b, keysAt v'.heap b = keysAt v.heap b := by
  intro ms
  induction ms with
  | nil => intro v v' h b; unfold addJMembers at h; cases h; rfl
  | cons m rest ih =>
    intro v v' h b
    unfold addJMembers at h
    cases hl : lookup fss m with
    | none => rw [hl] at h; cases h
    | some w =>
      rw [hl] at h
      cases w with
      | ref a =>
        dsimp only at h
        cases hadd : Cas.add ts ci v.cas v.heap hd a true with
        | error e => rw [hadd] at h; cases h
        | ok r =>
          rw [hadd] at h
          obtain ⟨c', heap'⟩ := r
          dsimp only at h
          have k1 : ∀ b, keysAt heap' b = keysAt v.heap b := add_keys hadd
          split at h
          · cases h
          · rename_i heap'' hr
            have k2 : ∀ b, keysAt heap'' b = keysAt heap' b := by
              intro b
              split at hr
              · split at hr
                · exact keysAt_setSlot hr b
                · cases hr; rfl
              · cases hr; rfl
            rw [ih h b]
            dsimp only
            rw [k2, k1]
      | _ => cases h

theorem viewsPass_keys {ts : TypeSystem} (ci : Nat) (lenient : Bool) (fss : List (Int × Val)) :
    ∀ (l : List JView) {v v' : VState}, viewsPass ts ci lenient fss l v = .ok v' →
      ∀ b, keysAt v'.heap b = keysAt v.heap b := by
  intro l
  induction l with
  | nil => intro v v' h b; unfold viewsPass at h; cases h; rfl
  | cons jv rest ih =>
    intro v v' h b
    unfold viewsPass at h
    dsimp only at h
    split at h
    · cases h
    · rename_i c hc
      cases ha : addJMembers ts ci { view := jv.name, lenient := lenient } fss jv.members { v with cas := c } with
      | error e => rw [ha] at h; cases h
      | ok v1 =>
        rw [ha] at h
        rw [ih h b, addJMembers_keys ci _ fss jv.members ha b]

/-! ### parsing -/

theorem construct_keys {t : TypeRec} {tsIdx : Nat} {x : Option Int} {kw : List (String × Val)} {o : Obj}
    (h : construct t tsIdx x kw = .ok o) : o.ty = t.name ∧ o.slots.map (·.1) = (ctorFields t).eraseDups := by
  unfold construct at h
  dsimp only at h
  split at h
  · cases h
  · cases h
    refine ⟨rfl, ?_⟩
    simp only [List.map_map]
    exact List.map_id' _

theorem kinv_push {ts : TypeSystem} {n0 : Nat} {hp : Heap} {o : Obj} {t : TypeRec} (ht : t ∈ ts.types)
    (hty : o.ty = t.name) (hsl : o.slots.map (·.1) = (ctorFields t).eraseDups) (hk : KInv ts n0 hp) :
    KInv ts n0 (hp ++ [o]) := by
  intro a ha k hka
  unfold keysAt at hka
  by_cases hlt : a < hp.length
  · rw [List.getElem?_append_left hlt] at hka
    exact hk a ha k hka
  · rw [List.getElem?_append_right (by omega)] at hka
    cases hd : a - hp.length with
    | zero =>
      rw [hd] at hka
      simp only [List.getElem?_cons_zero, Option.map_some, Option.some.injEq] at hka
      exact ⟨t, ht, by rw [← hka, hty, hsl]⟩
    | succ n => rw [hd] at hka; simp at hka

theorem parseFsWith_kinv {K : Consts} {ts : TypeSystem} {t : TypeRec} (ht : t ∈ ts.types) {isAnn : Bool} {tsIdx : Nat}
    {s s' : RState} {j : JFs} {n0 : Nat} (h : parseFsWith K t isAnn tsIdx s j = .ok s') (hk : KInv ts n0 s.heap) :
    KInv ts n0 s'.heap := by
  unfold parseFsWith at h
  cases hid : j.id with
  | none => rw [hid] at h; cases h
  | some fsId =>
    rw [hid] at h
    dsimp only at h
    cases hn : parseNums (j.feats.filter (fun p => p.1.startsWith "#")) with
    | error e => rw [hn] at h; cases h
    | ok nums =>
      rw [hn] at h
      dsimp only at h
      split at h
      · cases h
      · rename_i kwargs deferred0 hr
        clear hr
        cases hc : construct t tsIdx (some fsId) kwargs with
        | error e => rw [hc] at h; cases h
        | ok o =>
          rw [hc] at h
          dsimp only at h
          obtain ⟨hty, hsl⟩ := construct_keys hc
          have k0 : KInv ts n0 (s.heap ++ [o]) := kinv_push ht hty hsl hk
          cases hrr : resolveRefs renameReserved s.fss s.heap.length (j.feats.filter (fun p => p.1.startsWith "@"))
              (s.heap ++ [o], deferred0) with
          | error e => rw [hrr] at h; cases h
          | ok r =>
            rw [hrr] at h
            obtain ⟨heap1, def1⟩ := r
            dsimp only at h
            have k1 : KInv ts n0 heap1 := kinv_of_keys (resolveRefs_keys _ _ _ _ _ _ _ hrr) k0
            split at h
            · cases h
            · rename_i heap2 hr2
              cases h
              dsimp only
              split at hr2
              · split at hr2
                · split at hr2
                  · exact kinv_of_keys (convertOffsets_keys hr2) k1
                  · cases hr2
                · cases hr2
              · cases hr2
                exact k1

theorem parseFs_kinv {K : Consts} {ts : TypeSystem} {tsIdx : Nat} {s s' : RState} {j : JFs} {n0 : Nat}
    (h : parseFs K ts tsIdx s j = .ok s') (hk : KInv ts n0 s.heap) : KInv ts n0 s'.heap := by
  rw [parseFs_eq] at h
  cases hg : getTypeExact ts (fsTypeName j) with
  | error e => rw [hg] at h; cases h
  | ok t =>
    rw [hg] at h
    exact parseFsWith_kinv (getType_mem (getType_of_getTypeExact hg)) h hk

theorem parseSofa_heap {ci : Nat} {s s' : RState} {j : JFs} (h : parseSofa ci s j = .ok s') : s'.heap = s.heap := by
  unfold parseSofa at h
  simp only [bind, Except.bind, pure, Except.pure] at h
  repeat' split at h
  all_goals first
    | (cases h; rfl)
    | cases h

theorem parseById_kinv {K : Consts} {ts : TypeSystem} {tsIdx : Nat} {i : Int} {n0 : Nat} :
    ∀ (l : List JFs) {s s' : RState}, parseById K ts tsIdx i l s = .ok s' → KInv ts n0 s.heap → KInv ts n0 s'.heap := by
  intro l
  induction l with
  | nil => intro s s' h hk; unfold parseById at h; cases h; exact hk
  | cons j rest ih =>
    intro s s' h hk
    unfold parseById at h
    split at h
    · cases hp : parseFs K ts tsIdx s j with
      | error e => rw [hp] at h; cases h
      | ok s1 =>
        rw [hp] at h
        exact ih h (parseFs_kinv hp hk)
    · exact ih h hk

theorem sofaPass_kinv {K : Consts} {ts : TypeSystem} {tsIdx ci : Nat} {all : List JFs} {n0 : Nat} :
    ∀ (l : List JFs) {s s' : RState}, sofaPass K ts tsIdx ci all l s = .ok s' → KInv ts n0 s.heap → KInv ts n0 s'.heap := by
  intro l
  induction l with
  | nil => intro s s' h hk; unfold sofaPass at h; cases h; exact hk
  | cons j rest ih =>
    intro s s' h hk
    unfold sofaPass at h
    split at h
    · dsimp only at h
      split at h
      · cases h
      · rename_i s1 hr
        have k1 : KInv ts n0 s1.heap := by
          split at hr
          · split at hr
            · exact parseById_kinv all hr hk
            · cases hr; exact hk
          · cases hr; exact hk
        cases hps : parseSofa ci s1 j with
        | error e => rw [hps] at h; cases h
        | ok s2 =>
          rw [hps] at h
          exact ih h (by rw [parseSofa_heap hps]; exact k1)
    · exact ih h hk

theorem fsPass_kinv {K : Consts} {ts : TypeSystem} {tsIdx : Nat} {n0 : Nat} :
    ∀ (l : List JFs) {s s' : RState}, fsPass K ts tsIdx l s = .ok s' → KInv ts n0 s.heap → KInv ts n0 s'.heap := by
  intro l
  induction l with
  | nil => intro s s' h hk; unfold fsPass at h; cases h; exact hk
  | cons j rest ih =>
    intro s s' h hk
    unfold fsPass at h
    split at h
    · cases hp : parseFs K ts tsIdx s j with
      | error e => rw [hp] at h; cases h
      | ok s1 =>
        rw [hp] at h
        exact ih h (parseFs_kinv hp hk)
    · exact ih h hk

/-! ### the reader -/

/-- every object the reader adds to the heap has the slot names of a registered type of its name, in order -/
theorem loadJson_kinv {K : Consts} {ts : TypeSystem} {tsIdx ci : Nat} {lenient : Bool} {hp : Heap} {doc : JDoc}
    {ld : Loaded} (h : loadJson K ts tsIdx ci lenient false hp doc = .ok ld) : KInv ts hp.length ld.heap := by
  unfold loadJson loadTs at h
  simp only [Bool.false_eq_true, if_false] at h
  have k0 : KInv ts hp.length hp := by
    intro a ha k hka
    unfold keysAt at hka
    rw [List.getElem?_eq_none ha] at hka
    cases hka
  cases h1 : sofaPass K ts tsIdx ci doc.fss doc.fss { cas := Cas.empty, heap := hp } with
  | error e => rw [h1] at h; cases h
  | ok s1 =>
    rw [h1] at h
    dsimp only at h
    have k1 := sofaPass_kinv doc.fss h1 k0
    cases h2 : fsPass K ts tsIdx doc.fss s1 with
    | error e => rw [h2] at h; cases h
    | ok s =>
      rw [h2] at h
      dsimp only at h
      have k2 := fsPass_kinv doc.fss h2 k1
      cases h3 : fixUps s.fss s.deferred s.heap with
      | error e => rw [h3] at h; cases h
      | ok heap =>
        rw [h3] at h
        dsimp only at h
        have k3 : KInv ts hp.length heap := kinv_of_keys (fixUps_keys _ _ h3) k2
        split at h
        · cases h
        · rename_i v hv
          cases h
          dsimp only
          exact kinv_of_keys (viewsPass_keys ci lenient s.fss doc.views hv) k3

/-- … hence `SlotsOk`, when every type name is registered once -/
theorem loadJson_slotsOk {K : Consts} {ts : TypeSystem} {tsIdx ci : Nat} {lenient : Bool} {hp : Heap} {doc : JDoc}
    {ld : Loaded} (hn : (ts.types.map (·.name)).Nodup) (h : loadJson K ts tsIdx ci lenient false hp doc = .ok ld)
    {a : Nat} (ha : hp.length ≤ a) : SlotsOk ts ld.heap a := by
  intro o t ho ht
  obtain ⟨t1, ht1, hk⟩ := loadJson_kinv h a ha (o.ty, o.slots.map (·.1)) (by unfold keysAt; rw [ho]; rfl)
  simp only [Prod.mk.injEq] at hk
  have e : find? ts o.ty = some t1 := by rw [hk.1]; exact find?_of_mem hn ht1
  rw [ht] at e
  cases e
  exact hk.2

end Cassis.ChainE
