/-
Element-order independence on the whole format (`C05PermColl`), third pass, part C: the context of the proof, lookups,
the conversion of one annotation.  `LoadPermBuildC.lean` (permuted tables, `cas:NULL` object anywhere) with the
modifications `RoundTripCollBuildC.lean` makes to `RoundTripBuildC.lean` (`LOkW`, expectation functions `E2c`/`E3c`,
objects without id stay frozen); everything that does not mention the context is reused from `RTB`, `RTCB`, `LP`.
-/
import CassisModel.Proofs.LoadPermCollDefs
import CassisModel.Proofs.LoadPermBuildE
import CassisModel.Proofs.RoundTripCollBuildF

namespace Cassis.Xmi.LPC
open Cassis.TS Cassis.Traverse Cassis.Lex Cassis.Xmi Cassis.Xmi.RTB Cassis.Xmi.LP

/-- one object is replaced (`RTCB.HInv.step` with the injectivity of `na` only) -/
theorem stepP {K : Consts} {ts : TypeSystem} {cass : List Cas} {H : Heap} {L : List (Int × Nat)} {na : Int → Nat}
    {ia : Int → String → Nat} {ci' n0 : Nat}
    (hna : NaOkP n0 L na) (hnd : (L.map (·.1)).Nodup) {Cp Kp Cp' Kp' : Int → Prop} {hp : Heap}
    (h : RTCB.HInv K ts cass H L na ia ci' Cp Kp hp) {m : Int} {am : Nat} (hm : (m, am) ∈ L) {o o' o1 : Obj}
    (ho : H[am]? = some o) (ho' : hp[na m]? = some o')
    (h1 : RTCB.ObjOk K ts cass H na ia ci' (Cp' m) (Kp' m) o o1 m)
    (hC : ∀ q ∈ L, q.1 ≠ m → (Cp q.1 ↔ Cp' q.1)) (hK : ∀ q ∈ L, q.1 ≠ m → Kp q.1 → Kp' q.1) :
    RTCB.HInv K ts cass H L na ia ci' Cp' Kp' (hp.set (na m) o1) := by
  intro q hq
  by_cases hqm : q.1 = m
  · obtain ⟨x, a⟩ := q
    simp only at hqm
    subst hqm
    have : a = am := addr_unique hnd hq hm
    subst this
    exact ⟨o, o1, ho, set_get_self ho', h1⟩
  · obtain ⟨p, p', hp1, hp2, hr⟩ := h q hq
    have hne : na m ≠ na q.1 := fun e => hqm (hna.inj q hq (m, am) hm e.symm)
    refine ⟨p, p', hp1, ?_, hr.mono (hC q hq hqm) (hK q hq hqm)⟩
    rw [set_get_ne hne]; exact hp2

/-- the hypotheses of the third pass -/
structure CtxC (K : Consts) (ts : TypeSystem) (cass : List Cas) (ci : Nat) (c : Cas) (hp H : Heap)
    (L : List (Int × Nat)) (na : Int → Nat) (n0 : Nat) (p : Pass1) : Prop where
  hc : cass[ci]? = some c
  wf : RTWf c hp
  lok : LOkW ts c ci H L
  nok : NaOkP n0 L na
  p1 : P1WP c H L na n0 p
  hmem : ∀ nv ∈ c.views, ∀ e ∈ Index.all nv.2.idx, slot H e.oid "sofa" ≠ some .none
  mok : MembersOk c H

/-- the invariant of the third pass (`RTCB.BInv` with the `cas:NULL` object at `n0`) -/
structure BInvC (K : Consts) (ts : TypeSystem) (cass : List Cas) (H : Heap) (L : List (Int × Nat)) (na : Int → Nat)
    (ia : Int → String → Nat) (ci' : Nat) (n0 : Nat) (o0 : Obj) (hp0 : Heap) (b : Build) : Prop where
  heap : RTCB.HInv K ts cass H L na ia ci' (fun x => x ∈ b.converted) (fun x => x ∈ b.memberSofas.map (·.1)) b.heap
  ms : ∀ r ∈ b.memberSofas, RTCB.MSOk K ts H L na ia ci' r
  cv : ∀ x ∈ b.converted, x ∈ L.map (·.1)
  null : b.heap[n0]? = some o0
  frz : Frz hp0 b.heap

section
variable {K : Consts} {ts : TypeSystem} {cass : List Cas} {ci : Nat} {c : Cas} {hp H : Heap}
  {L : List (Int × Nat)} {na : Int → Nat} {n0 : Nat} {p : Pass1}

/-! ### lookups -/

theorem CtxC.id_ne_zero (ctx : CtxC K ts cass ci c hp H L na n0 p) {m : Int} {am : Nat} (h : (m, am) ∈ L) : m ≠ 0 :=
  (ctx.lok.ids _ h).2

theorem CtxC.lookup (ctx : CtxC K ts cass ci c hp H L na n0 p) {m : Int} {am : Nat} (h : (m, am) ∈ L) :
    lookupFs p.fss m = .ok (na m) :=
  ctx.p1.lookup (idsOk_of_lokW ctx.lok) h

theorem CtxC.zero_not_id (ctx : CtxC K ts cass ci c hp H L na n0 p) : (0 : Int) ∉ L.map (·.1) := by
  intro h
  obtain ⟨q, hq, e⟩ := List.mem_map.mp h
  exact (ctx.lok.ids q hq).2 e

theorem CtxC.find_sofa (ctx : CtxC K ts cass ci c hp H L na n0 p) {vn : String} {v : View}
    (h : Cas.getViewRec c vn = some v) :
    p.sofas.find? (fun q => q.2.sofaID == vn) = some (v.sofa.xid, psofaOf (vn, v)) :=
  ctx.p1.find_sofa_name ctx.wf.names ctx.wf.names_nodup (nv := (vn, v)) (Cas.alistGet?_some_mem h)

theorem CtxC.members_of (ctx : CtxC K ts cass ci c hp H L na n0 p) {nv : String × View} (hnv : nv ∈ c.views) :
    membersOf p.views (psofaOf nv) = (pviewOf H nv).members :=
  ctx.p1.members_of ctx.wf.sofa_ids_nodup hnv

/-- a member id of a view is the id of a collected structure that the old index holds -/
theorem CtxC.member (ctx : CtxC K ts cass ci c hp H L na n0 p) {nv : String × View} (hnv : nv ∈ c.views) {m : Int}
    (hm : m ∈ (pviewOf H nv).members) : ∃ e ∈ Index.all nv.2.idx, (m, e.oid) ∈ L := by
  unfold pviewOf at hm
  simp only at hm
  rw [mem_sortInts, List.mem_filterMap] at hm
  obtain ⟨e, he, hx⟩ := hm
  obtain ⟨x, hx'⟩ := ctx.lok.members nv hnv e he
  have := (ctx.lok.ids _ hx').1
  simp only at this
  rw [this] at hx
  cases hx
  exact ⟨e, he, hx'⟩

/-! ### old objects -/

/-- the `sofa` slot of a collected structure holds a sofa of the CAS or `None` -/
theorem CtxC.sofa_shape (ctx : CtxC K ts cass ci c hp H L na n0 p) {m : Int} {am : Nat} (h : (m, am) ∈ L) {o : Obj}
    (ho : H[am]? = some o) {v : Val} (hv : alistGet? o.slots "sofa" = some v) :
    v = .none ∨ ∃ vn, v = .sofa ci vn :=
  ctx.lok.sofa_shape _ h o ho v hv

theorem CtxC.contains (ctx : CtxC K ts cass ci c hp H L na n0 p) {m : Int} {am : Nat} (h : (m, am) ∈ L) {o : Obj}
    (ho : H[am]? = some o) : containsType ts o.ty = true := by
  obtain ⟨t, hf⟩ := ctx.lok.reg _ h o ho
  exact containsType_of_find hf

end

/-! ### converting one annotation -/

section
variable {K : Consts} {ts : TypeSystem} {cass : List Cas} {ci : Nat} {c : Cas} {hp H : Heap}
  {L : List (Int × Nat)} {na : Int → Nat} {n0 : Nat} {p : Pass1} {ia : Int → String → Nat} {ci' : Nat}

theorem CtxC.convert_ann (ctx : CtxC K ts cass ci c hp H L na n0 p) {m : Int} {am : Nat} (hq : (m, am) ∈ L) {o o' : Obj}
    {hpX : Heap} (ho : H[am]? = some o) (ho' : hpX[na m]? = some o') {C Kp : Prop}
    (hok : RTCB.ObjOk K ts cass H na ia ci' C Kp o o' m) (hC : ¬ C) (hann : isInstanceOf ts o.ty ANNOTATION = true) :
    ∃ (vn : String) (v : View) (text : List Nat) (o1 : Obj),
      alistGet? o.slots "sofa" = some (.sofa ci vn) ∧ Cas.getViewRec c vn = some v ∧ v.sofa.text = some text ∧
      convertOffsets (convOfText (some (docText text))) hpX (na m) = .ok (hpX.set (na m) o1) ∧
      ∀ C' : Prop, C' → RTCB.ObjOk K ts cass H na ia ci' C' Kp o o1 m := by
  obtain ⟨vn, v, text, b, e, hs, hv, ht, hb, he, hbl, hel⟩ := ctx.lok.ann _ hq o ho hann
  have hvm : (vn, v) ∈ c.views := Cas.alistGet?_some_mem hv
  have hconv : v.sofa.conv = some (Offsets.table text) := ctx.wf.conv _ hvm text ht
  have hsc : ∀ cp ∈ text, Offsets.IsScalar cp := ctx.wf.scalar _ hvm text ht
  -- the new slots
  obtain ⟨wb, hwb, hsb⟩ := hok.2.2.2 "begin" _ hb
  obtain ⟨we, hwe, hse⟩ := hok.2.2.2 "end" _ he
  unfold RTCB.SlotOk at hsb hse
  rw [if_neg (by decide)] at hsb hse
  have eb := hsb.2 hC
  have ee := hse.2 hC
  change wb = E2 ts cass H na ci' o "begin" (.int b) at eb
  change we = E2 ts cass H na ci' o "end" (.int e) at ee
  unfold E2 exp2 at eb ee
  rw [hann] at eb ee
  simp only at eb ee
  rw [extInt_ann cass ctx.hc hs hv "begin" (Or.inl rfl) b, hconv] at eb
  rw [extInt_ann cass ctx.hc hs hv "end" (Or.inr rfl) e, hconv] at ee
  subst eb ee
  refine ⟨vn, v, text, _, hs, hv, ht, convertOffsets_eq _ ho' hwb hwe, ?_⟩
  intro C' hC'
  rw [cvI_restores text hsc b hbl, cvI_restores text hsc e hel]
  exact hok.convert hC hC' hb he

end

end Cassis.Xmi.LPC
