/-
The JSON round trip with collections (`Properties/C02RoundTripColl.lean`): the layers put together.

| layer | file | theorem |
|---|---|---|
| defs, statements | `RoundTripJsonCollDefs.lean` | `LOkJ GCtxJ FInvJ ObjPendJ exp3J elemOfJ`, `TravStmt … ContentStmt` |
| T traversal (`includeInlinable := true`) | `RoundTripJsonCollTrav.lean` | `trav_collJ` |
| W writer (general structures, array objects) | `RoundTripJsonCollWriter.lean` | `writer_collJ` |
| PG `parseFs`, general structure | `RoundTripJsonCollParseGen.lean` | `parseGen_collJ` |
| PA `parseFs`, array object | `RoundTripJsonCollParseArr.lean` | `parseArr_collJ` |
| FP/FX second pass, deferred entries | `RoundTripJsonCollPass.lean` | `fsPass_collJ`, `fixUps_collJ` |
| V views pass | `RoundTripJsonCollViews.lean` | `views_collJ` |
| C deep content | `RoundTripJsonCollContent.lean` | `content_collJ` |
| assembly | `RoundTripJsonCollCore.lean` | `json_core_coll`, `json_roundtrip_coll_of` |
| common fragment | `RoundTripJsonCollOfColl.lean` | `jcollFs_of_collFs_aux` |
-/
import CassisModel.Proofs.RoundTripJsonCollCore
import CassisModel.Proofs.RoundTripJsonCollTrav
import CassisModel.Proofs.RoundTripJsonCollWriter
import CassisModel.Proofs.RoundTripJsonCollParseGen
import CassisModel.Proofs.RoundTripJsonCollParseArr
import CassisModel.Proofs.RoundTripJsonCollPass
import CassisModel.Proofs.RoundTripJsonCollViews
import CassisModel.Proofs.RoundTripJsonCollContent
import CassisModel.Proofs.RoundTripJsonCollOfColl

namespace Cassis.Json
open Cassis.TS Cassis.Traverse Cassis.Xmi

/-- **JSON round trip, collections included** -/
theorem json_roundtrip_coll_aux (K : Consts) (ts : TypeSystem) (cass : List Cas) (ci : Nat) (c : Cas) (hp : Heap)
    (tsIdx ci' : Nat) (doc : JDoc) (st : St)
    (hc : cass[ci]? = some c) (hwf : RTWf c hp)
    (hsave : saveJson K ts cass ci hp .none = .ok (doc, st))
    (hcoll : ∀ q ∈ st.allFs, JCollFs K ts c ci st.heap q.2)
    (hids : ∀ nv ∈ c.views, ∀ e ∈ Index.all nv.2.idx, (xidOf hp e.oid).isSome = true)
    (hdis : ∀ q ∈ st.allFs, ∀ nv ∈ c.views, q.1 ≠ nv.2.sofa.xid)
    (hmem : ∀ nv ∈ c.views, ∀ e ∈ Index.all nv.2.idx, Xmi.slot st.heap e.oid "sofa" ≠ some .none)
    (hmok : MembersOk c st.heap) :
    ∃ (ld : Loaded) (fss : List (Int × Val)),
      loadJson K ts tsIdx ci' false false st.heap doc = .ok ld ∧ ld.ts = ts ∧
      (∀ q ∈ st.allFs, ∃ (a' : Nat) (o o' : Obj), lookup fss q.1 = some (.ref a') ∧
          st.heap[q.2]? = some o ∧ ld.heap[a']? = some o' ∧ o'.ty = o.ty ∧ o'.xid = some q.1 ∧
          ∀ t : TypeRec, find? ts o.ty = some t → ∀ f ∈ allFeatures t,
            featContentC K ld.heap a' f = featContentC K st.heap q.2 f) ∧
      (∀ p ∈ fss, (∃ q ∈ st.allFs, q.1 = p.1) ∨ (∃ nv ∈ c.views, nv.2.sofa.xid = p.1)) ∧
      ld.cas.views.map (viewContent ld.heap) = c.views.map (viewContent st.heap) ∧
      (∀ q ∈ st.allFs, q.1 < ld.cas.nextXid) ∧
      (∀ nv ∈ c.views, nv.2.sofa.xid < ld.cas.nextXid ∧ nv.2.sofa.sofaNum < ld.cas.nextSofaNum) :=
  json_roundtrip_coll_of trav_collJ writer_collJ (fsPass_collJ parseGen_collJ parseArr_collJ) fixUps_collJ views_collJ
    content_collJ K ts cass ci c hp tsIdx ci' doc st hc hwf hsave hcoll hids hdis hmem hmok

/-- the flat fragment of `json_roundtrip_flat` is part of the fragment -/
theorem jcollFs_of_flatFs_aux (K : Consts) (ts : TypeSystem) (c : Cas) (ci : Nat) (hp : Heap) (a : Nat)
    (h : FlatFs K ts c ci hp a) (hj : JsonFs ts hp a) : JCollFs K ts c ci hp a := by
  obtain ⟨o, t, h1, h2, h3, h4, h5, h6, h7, h8, h9, h10, h11, h12, h13, hfeat, hann⟩ := h
  exact ⟨Or.inl (jgenFs_of_genFs K ts c ci hp a
    ⟨o, t, h1, h2, h3, h4, h5, h6, h7, h8, h9, h10, h11, h12, h13, fun f hf => Or.inl (hfeat f hf), hann⟩), hj⟩

end Cassis.Json
