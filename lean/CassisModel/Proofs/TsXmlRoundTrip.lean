/-
Proofs for `Properties/C12RoundTrip.lean`: the descriptor round trip as one statement, for every declaration order,
with or without redeclared built-in types / DocumentAnnotation.

Layers: `TsXmlRoundTripTopo` (dependency order exists), `…Inv` (history invariants), `…Trim` (the target type
system), `…Run`, `…Load` (the loader succeeds under the simulation invariant), `…Decl` (faithful descriptors load),
`…SameA/B` (record-by-record comparison, `SameXml`), `…Emit` (re-emission), `…Norm` (`normalize` on distinct, unpadded
names), `…Strip` (what the writer emits is unpadded under `StrippedNames`).
-/
import CassisModel.Proofs.TsXmlRoundTripEmit
import CassisModel.Proofs.TsXmlRoundTripNorm
import CassisModel.Proofs.TsXmlRoundTripStrip

namespace Cassis.TsXml
open Cassis.TS

/-! ### closed facts -/

theorem doc_not_predef : Gen.consts.predefined.contains DOCUMENT_ANNOTATION = false := by decide

theorem trimT_docEntry : trimT docEntry = docEntry := by decide

theorem normT_render_base {n : String} {pt : TypeRec} (h : find? Gen.builtinTSNoDoc n = some pt) :
    normT (renderType pt) = renderType pt := by
  obtain ⟨_, _, _, _, hdn, _, _, hfn⟩ := base_vs_builtin h
  unfold normT renderType
  simp only [hdn, TDesc.mk.injEq, true_and]
  refine ⟨rfl, ?_⟩
  rw [List.map_map]
  conv => rhs; rw [← List.map_id (pt.own.map renderFeat), List.map_map]
  apply List.map_congr_left
  intro f hf
  have := (hfn f (List.mem_append_left _ hf)).1
  simp only [Function.comp, normF, renderFeat, this, id]
  rfl

/-- the DocumentAnnotation record of an API-built type system is the built-in one -/
theorem doc_rec {ts : TypeSystem} (hx : XHist ts) :
    ∃ t, find? ts DOCUMENT_ANNOTATION = some t ∧ renderType t = docEntry := by
  have hb : (find? Gen.builtinTS DOCUMENT_ANNOTATION).map (fun tb => (tb.super, tb.descr, tb.own)) =
      some (some ANNOTATION, none, [{ name := "language", domain := DOCUMENT_ANNOTATION, range := "uima.cas.String" }]) := by
    decide +kernel
  cases htb : find? Gen.builtinTS DOCUMENT_ANNOTATION with
  | none => rw [htb] at hb; cases hb
  | some tb =>
    rw [htb] at hb
    simp only [Option.map_some, Option.some.injEq, Prod.mk.injEq] at hb
    obtain ⟨h1, h2, h3⟩ := hb
    obtain ⟨t, ht, hs, hd, _, _, ho⟩ := hx.growDoc _ tb htb
    refine ⟨t, ht, ?_⟩
    have hown : t.own = tb.own := ho (by decide)
    unfold renderType
    rw [find?_name ht, hs, hd, hown, h1, h2, h3]
    decide

/-! ### the main statement, general form -/

theorem tsxml_roundtrip_core (ops : List TsOp) (h : UserOnlyNoDoc Gen.consts ops)
    (hns : NoShadow (ops.foldl (applyOp Gen.consts) Gen.builtinTS))
    (hsn : StrippedNames Gen.consts (ops.foldl (applyOp Gen.consts) Gen.builtinTS))
    (d d' pre : Descriptor) (hd : toDescriptor Gen.consts (ops.foldl (applyOp Gen.consts) Gen.builtinTS) = .ok d)
    (hpre : ∀ e ∈ pre, (Gen.consts.predefined.contains e.name = true ∧
      (find? Gen.builtinTSNoDoc e.name).map renderType = some e) ∨ e = docEntry)
    (hnt : ∀ e ∈ pre, e.name ≠ TOP) (hnd : pre.Nodup)
    (hp : d'.Perm (pre ++ d)) :
    ∃ ts' preOut, load Gen.consts d' = .ok ts' ∧
      SameXml (ops.foldl (applyOp Gen.consts) Gen.builtinTS) ts' ∧
      toDescriptor Gen.consts ts' = .ok (preOut ++ d.map trimT) ∧
      preOut.map (·.name) = sortStrs (pre.map (·.name)).eraseDups ∧
      ∀ e ∈ preOut, (find? Gen.builtinTSNoDoc e.name).map renderType = some e ∨ e = docEntry := by
  generalize hts : ops.foldl (applyOp Gen.consts) Gen.builtinTS = ts at hns hsn hd ⊢
  have hx : XHist ts := hts ▸ xhist_history ops _ xhist_builtin h
  have hc := hx.hist.cons
  have hdeq := toDescriptor_hist hx.red d hd
  -- the emitted entries are the rendered user types
  have hdmem : ∀ e, e ∈ d ↔ ∃ t ∈ userL ts, e = renderType t := by
    intro e
    rw [hdeq, List.mem_map]
    constructor
    · rintro ⟨t, ht, rfl⟩
      exact ⟨t, (user_sorted_perm ts).mem_iff.mp ht, rfl⟩
    · rintro ⟨t, ht, rfl⟩
      exact ⟨t, (user_sorted_perm ts).mem_iff.mpr ht, rfl⟩
  have hdn : (d.map (·.name)).Nodup := by
    rw [hdeq]
    have p := ((user_sorted_perm ts).map renderType).map (·.name)
    refine p.nodup_iff.mpr ?_
    rw [List.map_map]
    exact userL_names_nodup hc.nodup
  -- the redeclared entries
  have hpre_cases : ∀ e ∈ pre, (Gen.consts.predefined.contains e.name = true ∧
      ∃ pt, find? Gen.builtinTSNoDoc e.name = some pt ∧ e = renderType pt) ∨ e = docEntry := by
    intro e he
    rcases hpre e he with ⟨h1, h2⟩ | h2
    · left
      refine ⟨h1, ?_⟩
      cases hf : find? Gen.builtinTSNoDoc e.name with
      | none => rw [hf] at h2; cases h2
      | some pt =>
        rw [hf] at h2
        simp only [Option.map_some, Option.some.injEq] at h2
        exact ⟨pt, rfl, h2.symm⟩
    · exact Or.inr h2
  have hpre_name : ∀ e1 ∈ pre, ∀ e2 ∈ pre, e1.name = e2.name → e1 = e2 := by
    intro e1 h1 e2 h2 e
    rcases hpre e1 h1 with ⟨p1, q1⟩ | q1 <;> rcases hpre e2 h2 with ⟨p2, q2⟩ | q2
    · rw [e] at q1
      rw [q1] at q2
      exact Option.some.inj q2
    · subst q2
      rw [e] at p1
      have := doc_not_predef
      rw [show docEntry.name = DOCUMENT_ANNOTATION from rfl] at p1
      rw [p1] at this; cases this
    · subst q1
      rw [← e] at p2
      have := doc_not_predef
      rw [show docEntry.name = DOCUMENT_ANNOTATION from rfl] at p2
      rw [p2] at this; cases this
    · rw [q1, q2]
  have hpn : (pre.map (·.name)).Nodup := by
    have hpw : pre.Pairwise (fun (a b : TDesc) => a.name ≠ b.name) :=
      List.Pairwise.imp_of_mem (fun ha hb hab e => hab (hpre_name _ ha _ hb e)) hnd
    exact List.Pairwise.map (fun (t : TDesc) => t.name) (fun a b hab => hab) hpw
  have hpre_nd : ∀ e ∈ pre, Gen.consts.predefined.contains e.name = true ∨ e.name = DOCUMENT_ANNOTATION := by
    intro e he
    rcases hpre e he with ⟨p1, _⟩ | q1
    · exact Or.inl p1
    · right; rw [q1]; rfl
  have hd_nd : ∀ u ∈ d, Gen.consts.predefined.contains u.name = false ∧ u.name ≠ DOCUMENT_ANNOTATION := by
    intro u hu
    obtain ⟨t, ht, rfl⟩ := (hdmem u).mp hu
    obtain ⟨_, h2, h3⟩ := mem_userL.mp ht
    exact ⟨h2, h3⟩
  have hdisj : ∀ e ∈ pre, ∀ u ∈ d, e.name ≠ u.name := by
    intro e he u hu heq
    obtain ⟨h2, h3⟩ := hd_nd u hu
    rcases hpre_nd e he with p | p
    · rw [heq, h2] at p; cases p
    · exact h3 (heq ▸ p)
  have hd'n : (d'.map (·.name)).Nodup := by
    refine (hp.map (·.name)).nodup_iff.mpr ?_
    rw [List.map_append, List.nodup_append]
    refine ⟨hpn, hdn, ?_⟩
    intro a ha b hb e
    obtain ⟨x, hx1, rfl⟩ := List.mem_map.mp ha
    obtain ⟨y, hy1, rfl⟩ := List.mem_map.mp hb
    exact hdisj x hx1 y hy1 e
  -- no name of the descriptor carries surrounding whitespace: the reader's stripping changes descriptions only
  have hd's : ∀ e ∈ d', NamesStrippedT e := by
    intro e he
    rcases List.mem_append.mp (hp.mem_iff.mp he) with hpe | hde
    · rcases hpre_cases e hpe with ⟨_, pt, hpt, rfl⟩ | rfl
      · exact base_stripped hpt
      · exact docEntry_stripped
    · obtain ⟨t, ht, rfl⟩ := (hdmem e).mp hde
      exact rendered_user_stripped hc hx.ownOK hsn ht
  -- DocumentAnnotation is named by the descriptor iff it is redeclared
  have hdocin : DOCUMENT_ANNOTATION ∈ d'.map (·.name) ↔ docEntry ∈ pre := by
    constructor
    · intro hm
      obtain ⟨e0, he0, hn0⟩ := List.mem_map.mp hm
      rcases List.mem_append.mp (hp.mem_iff.mp he0) with hpe | hde
      · rcases hpre e0 hpe with ⟨p1, _⟩ | q1
        · rw [hn0, doc_not_predef] at p1; cases p1
        · rw [← q1]; exact hpe
      · exact absurd hn0 (hd_nd e0 hde).2
    · intro hm
      exact List.mem_map.mpr ⟨docEntry, hp.mem_iff.mpr (List.mem_append_left _ hm), rfl⟩
  have hnormB : ∀ e0 ∈ pre, normT e0 = e0 := by
    intro e0 he0
    rcases hpre_cases e0 he0 with ⟨_, pt, hpt, rfl⟩ | rfl
    · exact normT_render_base hpt
    · exact normT_docEntry
  -- the entries the loader works on
  have hmem : ∀ e, e ∈ effective d' ↔
      e ∈ pre ∨ (∃ t ∈ userL ts, e = normT (renderType t)) ∨ e = docEntry := by
    intro e
    rw [mem_effective d' hd'n hd's e, List.mem_map]
    constructor
    · rintro (⟨e0, he0, rfl⟩ | ⟨_, rfl⟩)
      · rcases List.mem_append.mp (hp.mem_iff.mp he0) with hpe | hde
        · left; rw [hnormB e0 hpe]; exact hpe
        · obtain ⟨t, ht, rfl⟩ := (hdmem e0).mp hde
          exact Or.inr (Or.inl ⟨t, ht, rfl⟩)
      · exact Or.inr (Or.inr rfl)
    · rintro (hpe | ⟨t, ht, rfl⟩ | rfl)
      · exact Or.inl ⟨e, hp.mem_iff.mpr (List.mem_append_left _ hpe), hnormB e hpe⟩
      · exact Or.inl ⟨renderType t, hp.mem_iff.mpr (List.mem_append_right _ ((hdmem _).mpr ⟨t, ht, rfl⟩)), rfl⟩
      · by_cases hdoc : DOCUMENT_ANNOTATION ∈ d'.map (·.name)
        · have := hdocin.mp hdoc
          exact Or.inl ⟨docEntry, hp.mem_iff.mpr (List.mem_append_left _ this), normT_docEntry⟩
        · exact Or.inr ⟨hdoc, rfl⟩
  obtain ⟨tdoc, htdoc, hrdoc⟩ := doc_rec hx
  -- the descriptor is faithful
  have hF : Faithful ts (effective d') := by
    refine ⟨?_, ?_, ?_⟩
    · intro t ht hu
      rw [hmem]
      by_cases hdn' : t.name = DOCUMENT_ANNOTATION
      · right; right
        have : find? ts t.name = some t := find?_of_mem hc.nodup ht
        rw [hdn', htdoc] at this
        cases this
        rw [hrdoc]; exact normT_docEntry
      · exact Or.inr (Or.inl ⟨t, mem_userL.mpr ⟨ht, hu, hdn'⟩, rfl⟩)
    · intro e he hu
      rcases (hmem e).mp he with hpe | ⟨t, ht, rfl⟩ | rfl
      · rcases hpre e hpe with ⟨p1, _⟩ | rfl
        · rw [hu] at p1; cases p1
        · exact ⟨tdoc, find?_mem htdoc, by rw [hrdoc]; exact normT_docEntry.symm⟩
      · exact ⟨t, (mem_userL.mp ht).1, rfl⟩
      · exact ⟨tdoc, find?_mem htdoc, by rw [hrdoc]; exact normT_docEntry.symm⟩
    · intro e he hpd
      rcases (hmem e).mp he with hpe | ⟨t, ht, rfl⟩ | rfl
      · rcases hpre_cases e hpe with ⟨_, pt, hpt, rfl⟩ | rfl
        · refine ⟨pt, hpt, ?_, rfl⟩
          cases hs : pt.super with
          | none =>
            have := base_inv.1.onlyRoot pt (find?_mem hpt) hs
            exact absurd this (hnt _ hpe)
          | some s =>
            show some s = some (pt.super.getD "")
            rw [hs]; rfl
        · rw [show docEntry.name = DOCUMENT_ANNOTATION from rfl, doc_not_predef] at hpd; cases hpd
      · have := (mem_userL.mp ht).2.1
        rw [normT_name] at hpd
        rw [show (renderType t).name = t.name from rfl, this] at hpd; cases hpd
      · rw [show docEntry.name = DOCUMENT_ANNOTATION from rfl, doc_not_predef] at hpd; cases hpd
  obtain ⟨ts2, hload, hinv, hgrow⟩ := load_of_faithful ts hx d' hF
  generalize hR : ((if ((normalize d').map (·.name)).contains DOCUMENT_ANNOTATION then [DOCUMENT_ANNOTATION] else []) ++
      ((effective d').filter (fun t => Gen.consts.predefined.contains t.name)).map (·.name)) = R at hload
  have L : Loaded ts d' ts2 R := ⟨hx, hns, hF, hload, hinv, hgrow⟩
  -- what is remembered as redeclared
  have hRmem : ∀ x, x ∈ R ↔ x ∈ pre.map (·.name) := by
    intro x
    rw [← hR, List.mem_append, hasDoc_iff d' hd'n hd's]
    constructor
    · rintro (h1 | h1)
      · split at h1
        · rename_i hcd
          simp only [List.mem_singleton] at h1
          subst h1
          exact List.mem_map.mpr ⟨docEntry, hdocin.mp (List.contains_iff_mem.mp hcd), rfl⟩
        · cases h1
      · obtain ⟨e, he, rfl⟩ := List.mem_map.mp h1
        obtain ⟨he1, he2⟩ := List.mem_filter.mp he
        rcases (hmem e).mp he1 with hpe | ⟨t, ht, rfl⟩ | rfl
        · exact List.mem_map.mpr ⟨e, hpe, rfl⟩
        · have := (mem_userL.mp ht).2.1
          rw [show (normT (renderType t)).name = t.name from rfl, this] at he2; cases he2
        · rw [show docEntry.name = DOCUMENT_ANNOTATION from rfl, doc_not_predef] at he2; cases he2
    · intro hm
      obtain ⟨e0, he0, rfl⟩ := List.mem_map.mp hm
      rcases hpre e0 he0 with ⟨p1, _⟩ | rfl
      · right
        exact List.mem_map.mpr ⟨e0, List.mem_filter.mpr ⟨(hmem e0).mpr (Or.inl he0), p1⟩, rfl⟩
      · left
        have : (d'.map (·.name)).contains DOCUMENT_ANNOTATION = true :=
          List.contains_iff_mem.mpr (hdocin.mpr he0)
        rw [this]
        simp
        rfl
  have hRreg : ∀ n ∈ R, hasExact ts2 n = true := by
    intro n hn
    obtain ⟨e0, he0, rfl⟩ := List.mem_map.mp ((hRmem n).mp hn)
    rcases hpre e0 he0 with ⟨p1, _⟩ | rfl
    · exact hgrow.reg _ (base_predef_reg _ p1)
    · exact (names_iff L _).mpr ((hasExact_iff_find ts _).mpr ⟨tdoc, htdoc⟩)
  obtain ⟨preOut, hemit, hnames, hall⟩ := emit_loaded L hRreg d hd
  refine ⟨{ ts2 with redeclared := R }, preOut, hload, sameXml_loaded L, hemit, ?_, ?_⟩
  · rw [hnames]
    apply sortStrs_perm_eq
    rw [List.perm_ext_iff_of_nodup (Det.nodup_eraseDups _) (Det.nodup_eraseDups _)]
    intro x
    rw [List.mem_eraseDups, List.mem_eraseDups]
    exact hRmem x
  · intro e he
    obtain ⟨t', ht', rfl⟩ := hall e he
    have hn' : (renderType t').name ∈ R := by
      have : (renderType t').name ∈ preOut.map (·.name) := List.mem_map.mpr ⟨_, he, rfl⟩
      rw [hnames] at this
      have := (sortStrs_perm _).mem_iff.mp this
      rwa [List.mem_eraseDups] at this
    obtain ⟨e0, he0, hn0⟩ := List.mem_map.mp ((hRmem _).mp hn')
    rcases hpre_cases e0 he0 with ⟨p1, pt, hpt, rfl⟩ | rfl
    · left
      have hn1 : (renderType t').name = pt.name := hn0.symm
      rw [show (renderType pt).name = pt.name from rfl] at hpt p1
      rw [hn1, hpt]
      simp only [Option.map_some, Option.some.injEq]
      obtain ⟨t'', ht'', hs, hdsc, _, _, ho⟩ := hgrow _ pt hpt
      rw [hn1, ht''] at ht'
      cases ht'
      unfold renderType
      rw [hs, hdsc, ho p1, find?_name hpt, find?_name ht'']
    · right
      have hn1 : (renderType t').name = DOCUMENT_ANNOTATION := hn0.symm
      rw [hn1] at ht'
      obtain ⟨t'', ht'', hs, hdsc, ho, _⟩ := rec_corr L htdoc
      rw [ht'] at ht''; cases ht''
      rw [render_corr ((find?_name ht').trans (find?_name htdoc).symm) hs hdsc ho, hrdoc]
      exact trimT_docEntry

/-! ### the statements of `Properties/C12RoundTrip.lean` -/

theorem tsxml_roundtrip_aux (ops : List TsOp) (h : UserOnlyNoDoc Gen.consts ops)
    (hns : NoShadow (ops.foldl (applyOp Gen.consts) Gen.builtinTS))
    (hsn : StrippedNames Gen.consts (ops.foldl (applyOp Gen.consts) Gen.builtinTS))
    (d d' : Descriptor) (hd : toDescriptor Gen.consts (ops.foldl (applyOp Gen.consts) Gen.builtinTS) = .ok d)
    (hp : d'.Perm d) :
    ∃ ts', load Gen.consts d' = .ok ts' ∧
      SameXml (ops.foldl (applyOp Gen.consts) Gen.builtinTS) ts' ∧
      toDescriptor Gen.consts ts' = .ok (d.map trimT) := by
  obtain ⟨ts', preOut, h1, h2, h3, h4, _⟩ := tsxml_roundtrip_core ops h hns hsn d d' [] hd
    (fun e he => by cases he) (fun e he => by cases he) List.nodup_nil (by simpa using hp)
  refine ⟨ts', h1, h2, ?_⟩
  have : preOut = [] := by
    have h5 : preOut.map (·.name) = [] := by rw [h4]; decide
    exact List.map_eq_nil_iff.mp h5
  rw [h3, this, List.nil_append]

/-- the second statement, with the two hypotheses its original form lacks (`hnt`, `hnd`; see the counterexamples in
    `Spec/TsXmlRoundTripCheck.lean`) and a redeclared DocumentAnnotation allowed among the redeclarations -/
theorem tsxml_roundtrip_redeclared_aux (ops : List TsOp) (h : UserOnlyNoDoc Gen.consts ops)
    (hns : NoShadow (ops.foldl (applyOp Gen.consts) Gen.builtinTS))
    (hsn : StrippedNames Gen.consts (ops.foldl (applyOp Gen.consts) Gen.builtinTS))
    (d d' pre : Descriptor) (hd : toDescriptor Gen.consts (ops.foldl (applyOp Gen.consts) Gen.builtinTS) = .ok d)
    (hpre : ∀ e ∈ pre, (Gen.consts.predefined.contains e.name = true ∧
      (find? Gen.builtinTSNoDoc e.name).map renderType = some e) ∨ e = docEntry)
    (hnt : ∀ e ∈ pre, e.name ≠ TOP) (hnd : pre.Nodup)
    (hp : d'.Perm (pre ++ d)) :
    ∃ ts' preOut, load Gen.consts d' = .ok ts' ∧
      SameXml (ops.foldl (applyOp Gen.consts) Gen.builtinTS) ts' ∧
      toDescriptor Gen.consts ts' = .ok (preOut ++ d.map trimT) ∧
      preOut.map (·.name) = sortStrs (pre.map (·.name)).eraseDups ∧
      ∀ e ∈ preOut, (find? Gen.builtinTSNoDoc e.name).map renderType = some e ∨ e = docEntry :=
  tsxml_roundtrip_core ops h hns hsn d d' pre hd hpre hnt hnd hp

/-- a descriptor that declares DocumentAnnotation itself (as the library defines it): the re-emitted descriptor
    starts with that declaration -/
theorem tsxml_roundtrip_docann_aux (ops : List TsOp) (h : UserOnlyNoDoc Gen.consts ops)
    (hns : NoShadow (ops.foldl (applyOp Gen.consts) Gen.builtinTS))
    (hsn : StrippedNames Gen.consts (ops.foldl (applyOp Gen.consts) Gen.builtinTS))
    (d d' : Descriptor) (hd : toDescriptor Gen.consts (ops.foldl (applyOp Gen.consts) Gen.builtinTS) = .ok d)
    (hp : d'.Perm (docEntry :: d)) :
    ∃ ts', load Gen.consts d' = .ok ts' ∧
      SameXml (ops.foldl (applyOp Gen.consts) Gen.builtinTS) ts' ∧
      toDescriptor Gen.consts ts' = .ok (docEntry :: d.map trimT) := by
  obtain ⟨ts', preOut, h1, h2, h3, h4, h5⟩ := tsxml_roundtrip_core ops h hns hsn d d' [docEntry] hd
    (fun e he => Or.inr (List.mem_singleton.mp he))
    (fun e he => by rw [List.mem_singleton.mp he]; decide) (by simp) hp
  refine ⟨ts', h1, h2, ?_⟩
  have h6 : preOut.map (·.name) = [DOCUMENT_ANNOTATION] := by rw [h4]; decide
  cases preOut with
  | nil => cases h6
  | cons e rest =>
    cases rest with
    | cons e2 rest2 => simp at h6
    | nil =>
      simp only [List.map_cons, List.map_nil, List.cons.injEq, and_true] at h6
      rcases h5 e List.mem_cons_self with hb | rfl
      · rw [h6] at hb
        have : find? Gen.builtinTSNoDoc DOCUMENT_ANNOTATION = none := by decide +kernel
        rw [this] at hb
        cases hb
      · exact h3

end Cassis.TsXml
