/-
C20 across two heaps with a *semantic* condition on the slots (`IsoR`): the structure `Iso` (`Spec/ComparableIso.lean`)
relates slot values by `ValRel` to a finite nesting depth, which a cyclic nesting of arrays does not have — although both
sides then fail alike.  `IsoR` asks instead that corresponding slots are rendered alike whenever the two anchor maps
answer alike (`cells`) and that integer slots agree (`ints`); everything else is as in `Iso`.  The proofs are those of
`Proofs/ComparableIsoBasic/Anchors/Render/ComparableIso.lean` with `IsoR` in place of `Iso` (only `intOf` and
`renderSlot` differ); `Iso.toIsoR` shows that `IsoR` is the more general notion.
-/
import CassisModel.Proofs.ComparableIso

namespace Cassis.Comparable
open Cassis.TS Cassis.Traverse

structure IsoR (K : Consts) (cass cass' : List Cas) (hp hp' : Heap) (indexed indexed' addrs addrs' : List Nat)
    (φ : Nat → Nat) : Prop where
  bij : (addrs.map φ).Perm addrs'
  nodup : addrs'.Nodup
  idx : ∀ a ∈ addrs, (a ∈ indexed ↔ φ a ∈ indexed')
  ty : ∀ a ∈ addrs, tyOf hp' (φ a) = tyOf hp a
  key : ∀ a ∈ addrs, SameKey hp hp' addrs φ a (φ a)
  view : ∀ a ∈ addrs, viewTag cass' hp' (φ a) = viewTag cass hp a
  covered : ∀ a ∈ addrs, isAnnot hp a = true → Cas.coveredText cass' hp' (φ a) = Cas.coveredText cass hp a
  /-- integer slots (the offsets) agree -/
  ints : ∀ a ∈ addrs, ∀ n : String, n ≠ "sofa" → intOf (slot hp' (φ a) n) = intOf (slot hp a n)
  /-- every slot but `sofa` is rendered alike, given anchor maps that answer alike for the same key -/
  cells : ∀ (byId byId' : List (Option Int × String)), AnchRel hp hp' addrs φ byId byId' →
    ∀ a ∈ addrs, ∀ n : String, n ≠ "sofa" →
      renderVal K hp' byId' (2 * hp'.length + 2) ((slot hp' (φ a) n).getD .none)
        = renderVal K hp byId (2 * hp.length + 2) ((slot hp a n).getD .none)
  elems : ∀ a ∈ addrs, isArrayFs K hp a = true →
    (slot hp' (φ a) "elements").isSome = (slot hp a "elements").isSome

theorem Iso.toIsoR {K : Consts} {cass cass' : List Cas} {hp hp' : Heap} {indexed indexed' addrs addrs' : List Nat}
    {φ : Nat → Nat} (h : Iso K cass cass' hp hp' indexed indexed' addrs addrs' φ) :
    IsoR K cass cass' hp hp' indexed indexed' addrs addrs' φ :=
  { bij := h.bij, nodup := h.nodup, idx := h.idx, ty := h.ty, key := h.key, view := h.view, covered := h.covered,
    ints := fun _ ha _ hn => h.intOf ha hn,
    cells := fun _ _ hA _ ha _ hn => h.renderSlot hA ha hn,
    elems := h.elems }

section
variable {K : Consts} {cass cass' : List Cas} {hp hp' : Heap} {indexed indexed' addrs addrs' : List Nat} {φ : Nat → Nat}

theorem IsoR.intOf (h : IsoR K cass cass' hp hp' indexed indexed' addrs addrs' φ) {a : Nat} (ha : a ∈ addrs) {n : String}
    (hn : n ≠ "sofa") : intOf (slot hp' (φ a) n) = Comparable.intOf (slot hp a n) := h.ints a ha n hn

theorem IsoR.isAnnot (h : IsoR K cass cass' hp hp' indexed indexed' addrs addrs' φ) {a : Nat} (ha : a ∈ addrs) :
    isAnnot hp' (φ a) = Comparable.isAnnot hp a := by
  rw [isAnnot_eq, isAnnot_eq, h.intOf ha (by decide), h.intOf ha (by decide)]

theorem IsoR.beginOf (h : IsoR K cass cass' hp hp' indexed indexed' addrs addrs' φ) {a : Nat} (ha : a ∈ addrs) :
    beginOf hp' (φ a) = Comparable.beginOf hp a := by
  rw [beginOf_eq, beginOf_eq, h.intOf ha (by decide)]

theorem IsoR.endOf (h : IsoR K cass cass' hp hp' indexed indexed' addrs addrs' φ) {a : Nat} (ha : a ∈ addrs) :
    endOf hp' (φ a) = Comparable.endOf hp a := by
  rw [endOf_eq, endOf_eq, h.intOf ha (by decide)]

theorem IsoR.nodup_map (h : IsoR K cass cass' hp hp' indexed indexed' addrs addrs' φ) : (addrs.map φ).Nodup :=
  h.bij.nodup_iff.mpr h.nodup

theorem IsoR.inj (h : IsoR K cass cass' hp hp' indexed indexed' addrs addrs' φ) {a b : Nat} (ha : a ∈ addrs)
    (hb : b ∈ addrs) (hab : φ a = φ b) : a = b := by
  have hn := h.nodup_map
  unfold List.Nodup at hn
  rw [List.pairwise_map] at hn
  exact inj_of_pairwise φ addrs hn a ha b hb hab

/-- the side condition transfers -/
theorem IsoR.distinct_map (h : IsoR K cass cass' hp hp' indexed indexed' addrs addrs' φ) (hd : Distinct hp addrs) :
    Distinct hp' (addrs.map φ) := by
  intro a' ha' b' hb' hne hty
  obtain ⟨a, ha, rfl⟩ := List.mem_map.mp ha'
  obtain ⟨b, hb, rfl⟩ := List.mem_map.mp hb'
  have hab : a ≠ b := fun e => hne (by rw [e])
  rw [h.ty a ha, h.ty b hb] at hty
  obtain ⟨h1, h2, h3⟩ := hd a ha b hb hab hty
  rw [h.isAnnot ha, h.isAnnot hb, h.beginOf ha, h.beginOf hb, h.endOf ha, h.endOf hb]
  exact ⟨h1, h2, h3⟩

theorem IsoR.distinct (h : IsoR K cass cass' hp hp' indexed indexed' addrs addrs' φ) (hd : Distinct hp addrs) :
    Distinct hp' addrs' := by
  have hm := h.distinct_map hd
  intro a ha b hb
  exact hm a (h.bij.mem_iff.mpr ha) b (h.bij.mem_iff.mpr hb)

end

section
variable {K : Consts} {cass cass' : List Cas} {hp hp' : Heap} {indexed indexed' addrs addrs' : List Nat} {φ : Nat → Nat}

theorem IsoR.typeKeys_map (h : IsoR K cass cass' hp hp' indexed indexed' addrs addrs' φ) :
    typeKeys hp' (addrs.map φ) = typeKeys hp addrs := by
  unfold typeKeys
  rw [List.map_map]
  congr 1
  apply List.map_congr_left
  intro a ha
  exact h.ty a ha

theorem IsoR.group_map (h : IsoR K cass cass' hp hp' indexed indexed' addrs addrs' φ) (t : String) :
    group hp' (addrs.map φ) t = (group hp addrs t).map φ := by
  unfold group
  rw [List.filter_map]
  congr 1
  apply List.filter_congr
  intro a ha
  simp only [Function.comp_apply, h.ty a ha]

theorem IsoR.ltFs_map (h : IsoR K cass cass' hp hp' indexed indexed' addrs addrs' φ) (hd : Distinct hp addrs)
    (hsh hsh' : Nat → Int) (t : String) {a b : Nat} (ha : a ∈ group hp addrs t) (hb : b ∈ group hp addrs t) :
    ltFs hp' hsh' (φ a) (φ b) = ltFs hp hsh a b := by
  obtain ⟨ha1, ha2⟩ := List.mem_filter.1 ha
  obtain ⟨hb1, hb2⟩ := List.mem_filter.1 hb
  rw [beq_iff_eq] at ha2 hb2
  by_cases hab : a = b
  · subst hab
    rw [ltFs_self, ltFs_self]
  · obtain ⟨sa, sb, _⟩ := hd a ha1 b hb1 hab (by rw [ha2, hb2])
    have hab' : φ a ≠ φ b := fun e => hab (h.inj ha1 hb1 e)
    rw [Bool.eq_iff_iff, ltFs_annot hp hsh a b sa sb,
      ltFs_annot hp' hsh' (φ a) (φ b) (by rw [h.isAnnot ha1]; exact sa) (by rw [h.isAnnot hb1]; exact sb),
      h.beginOf ha1, h.beginOf hb1, h.endOf ha1, h.endOf hb1]
    obtain ⟨_, _, hne⟩ := hd a ha1 b hb1 hab (by rw [ha2, hb2])
    constructor
    · intro hh; exact ⟨hab, by omega⟩
    · intro hh; exact ⟨hab', by omega⟩

/-- the sorted lists of the image are the images of the sorted lists -/
theorem IsoR.sorted_map (h : IsoR K cass cass' hp hp' indexed indexed' addrs addrs' φ) (hd : Distinct hp addrs)
    (hsh hsh' : Nat → Int) :
    (sortNames (typeKeys hp' (addrs.map φ))).map (fun t => (t, sortFs (ltFs hp' hsh') (group hp' (addrs.map φ) t)))
      = ((sortNames (typeKeys hp addrs)).map (fun t => (t, sortFs (ltFs hp hsh) (group hp addrs t)))).map
          (fun p => (p.1, p.2.map φ)) := by
  rw [h.typeKeys_map, List.map_map]
  apply List.map_congr_left
  intro t _
  simp only [Function.comp_apply, h.group_map t]
  rw [sortFs_map (ltFs hp hsh) (ltFs hp' hsh') φ _ (fun x hx y hy => h.ltFs_map hd hsh hsh' t hx hy)]

end

section
variable {K : Consts} {cass cass' : List Cas} {hp hp' : Heap} {indexed indexed' addrs addrs' : List Nat} {φ : Nat → Nat}

theorem IsoR.anchorOf (h : IsoR K cass cass' hp hp' indexed indexed' addrs addrs' φ) (o : Opts) {a : Nat}
    (ha : a ∈ addrs) : anchorOf cass' hp' indexed' o (φ a) = Comparable.anchorOf cass hp indexed o a := by
  have hc : indexed'.contains (φ a) = indexed.contains a := by
    rw [Bool.eq_iff_iff, List.contains_iff_mem, List.contains_iff_mem]
    exact (h.idx a ha).symm
  rw [anchorOf_eq_iso, anchorOf_eq_iso, h.view a ha, h.ty a ha, h.isAnnot ha, h.beginOf ha, h.endOf ha, hc]

end

section
variable {K : Consts} {cass cass' : List Cas} {hp hp' : Heap} {indexed indexed' addrs addrs' : List Nat} {φ : Nat → Nat}

theorem IsoR.anchorStep (h : IsoR K cass cass' hp hp' indexed indexed' addrs addrs' φ) (o : Opts) {a : Nat}
    (ha : a ∈ addrs) {st st' : AnchorSt} (hst : StRel hp hp' addrs φ st st') :
    ExRel (StRel hp hp' addrs φ) (Comparable.anchorStep cass hp indexed o st a)
      (Comparable.anchorStep cass' hp' indexed' o st' (φ a)) := by
  unfold Comparable.anchorStep
  rw [h.anchorOf o ha, hst.1]
  cases Comparable.anchorOf cass hp indexed o a with
  | error e => exact ExRel.err e
  | ok s =>
    apply ExRel.ok_ok
    exact ⟨rfl, setById_rel ha (h.key a ha) _ _ _ hst.2⟩

theorem IsoR.anchorsOfList (h : IsoR K cass cass' hp hp' indexed indexed' addrs addrs' φ) (o : Opts) :
    ∀ (l : List Nat), (∀ a ∈ l, a ∈ addrs) → ∀ {st st' : AnchorSt}, StRel hp hp' addrs φ st st' →
      ExRel (StRel hp hp' addrs φ) (Comparable.anchorsOfList cass hp indexed o l st)
        (Comparable.anchorsOfList cass' hp' indexed' o (l.map φ) st')
  | [], _, _, _, hst => ExRel.ok_ok hst
  | a :: l, hl, st, st', hst => by
    have h1 := h.anchorStep o (hl a List.mem_cons_self) hst
    simp only [List.map_cons, Comparable.anchorsOfList]
    cases hs : Comparable.anchorStep cass hp indexed o st a with
    | error e =>
      cases hs' : Comparable.anchorStep cass' hp' indexed' o st' (φ a) with
      | error e' => rw [hs, hs'] at h1; exact h1
      | ok s' => rw [hs, hs'] at h1; exact h1.elim
    | ok s =>
      cases hs' : Comparable.anchorStep cass' hp' indexed' o st' (φ a) with
      | error e' => rw [hs, hs'] at h1; exact h1.elim
      | ok s' =>
        rw [hs, hs'] at h1
        exact IsoR.anchorsOfList h o l (fun b hb => hl b (List.mem_cons_of_mem _ hb)) h1

theorem IsoR.genAnchors (h : IsoR K cass cass' hp hp' indexed indexed' addrs addrs' φ) (ts : TypeSystem) (o : Opts)
    (sorted sorted' : List (String × List Nat)) :
    ∀ (L : List (String × List Nat)), (∀ p ∈ L, ∀ a ∈ p.2, a ∈ addrs) → ∀ {st st' : AnchorSt},
      StRel hp hp' addrs φ st st' →
      ExRel (StRel hp hp' addrs φ) (Comparable.genAnchors ts cass hp indexed o sorted L st)
        (Comparable.genAnchors ts cass' hp' indexed' o sorted' (L.map (fun p => (p.1, p.2.map φ))) st')
  | [], _, _, _, hst => ExRel.ok_ok hst
  | (t, fss) :: L, hL, st, st', hst => by
    simp only [List.map_cons, Comparable.genAnchors]
    cases getType ts t with
    | error e => exact ExRel.err e
    | ok _ =>
      simp only
      have h1 := h.anchorsOfList o fss (hL (t, fss) List.mem_cons_self) hst
      cases hs : Comparable.anchorsOfList cass hp indexed o fss st with
      | error e =>
        cases hs' : Comparable.anchorsOfList cass' hp' indexed' o (fss.map φ) st' with
        | error e' => rw [hs, hs'] at h1; exact h1
        | ok s' => rw [hs, hs'] at h1; exact h1.elim
      | ok s =>
        cases hs' : Comparable.anchorsOfList cass' hp' indexed' o (fss.map φ) st' with
        | error e' => rw [hs, hs'] at h1; exact h1.elim
        | ok s' =>
          rw [hs, hs'] at h1
          exact IsoR.genAnchors h ts o sorted sorted' L (fun p hp => hL p (List.mem_cons_of_mem _ hp)) h1

end

section
variable {K : Consts} {cass cass' : List Cas} {hp hp' : Heap} {indexed indexed' addrs addrs' : List Nat} {φ : Nat → Nat}

theorem IsoR.renderSlot (h : IsoR K cass cass' hp hp' indexed indexed' addrs addrs' φ)
    {byId byId' : List (Option Int × String)} (hA : AnchRel hp hp' addrs φ byId byId') {a : Nat} (ha : a ∈ addrs)
    {n : String} (hn : n ≠ "sofa") :
    renderVal K hp' byId' (2 * hp'.length + 2) ((slot hp' (φ a) n).getD .none)
      = renderVal K hp byId (2 * hp.length + 2) ((slot hp a n).getD .none) :=
  h.cells byId byId' hA a ha n hn

theorem IsoR.renderCols (h : IsoR K cass cass' hp hp' indexed indexed' addrs addrs' φ)
    {byId byId' : List (Option Int × String)} (hA : AnchRel hp hp' addrs φ byId byId') {a : Nat} (ha : a ∈ addrs) :
    ∀ (cols : List String), (∀ n ∈ cols, n ≠ "sofa") →
      Comparable.renderCols K hp' byId' (φ a) cols = Comparable.renderCols K hp byId a cols
  | [], _ => rfl
  | n :: ns, hc => by
    rw [Comparable.renderCols, Comparable.renderCols, h.renderSlot hA ha (hc n List.mem_cons_self),
      IsoR.renderCols h hA ha ns (fun m hm => hc m (List.mem_cons_of_mem _ hm))]

theorem IsoR.isArrayFs (h : IsoR K cass cass' hp hp' indexed indexed' addrs addrs' φ) {a : Nat} (ha : a ∈ addrs) :
    isArrayFs K hp' (φ a) = Comparable.isArrayFs K hp a := by
  unfold Comparable.isArrayFs
  rw [h.ty a ha]

theorem IsoR.renderRow (h : IsoR K cass cass' hp hp' indexed indexed' addrs addrs' φ)
    {byId byId' : List (Option Int × String)} (hA : AnchRel hp hp' addrs φ byId byId') (t : TypeRec) (annType : Bool)
    {a : Nat} (ha : a ∈ addrs) :
    Comparable.renderRow K cass' hp' byId' t annType (φ a) = Comparable.renderRow K cass hp byId t annType a := by
  unfold Comparable.renderRow
  rw [hA a (φ a) (h.key a ha), h.isAnnot ha, h.isArrayFs ha, h.renderCols hA ha (columns t) (columns_ne_sofa t)]
  have hcov : (annType && Comparable.isAnnot hp a) = true →
      Cas.coveredText cass' hp' (φ a) = Cas.coveredText cass hp a := by
    intro hc
    rw [Bool.and_eq_true] at hc
    exact h.covered a ha hc.2
  have hel := h.renderSlot hA ha (n := "elements") (by decide)
  by_cases harr : Comparable.isArrayFs K hp a = true
  · have hsome := h.elems a ha harr
    cases h1 : slot hp a "elements" with
    | none =>
      cases h2 : slot hp' (φ a) "elements" with
      | none =>
        by_cases hc : (annType && Comparable.isAnnot hp a) = true
        · simp only [hc, if_true, hcov hc]
        · simp only [hc, Bool.false_eq_true, if_false]
      | some v' => rw [h1, h2] at hsome; cases hsome
    | some v =>
      cases h2 : slot hp' (φ a) "elements" with
      | none => rw [h1, h2] at hsome; cases hsome
      | some v' =>
        rw [h1, h2] at hel
        simp only [Option.getD_some] at hel
        by_cases hc : (annType && Comparable.isAnnot hp a) = true
        · simp only [hc, if_true, hcov hc, hel]
        · simp only [hc, Bool.false_eq_true, if_false, hel]
  · by_cases hc : (annType && Comparable.isAnnot hp a) = true
    · simp only [hc, if_true, hcov hc, harr, Bool.false_eq_true, if_false]
    · simp only [hc, Bool.false_eq_true, if_false, harr]

theorem IsoR.renderRows (h : IsoR K cass cass' hp hp' indexed indexed' addrs addrs' φ)
    {byId byId' : List (Option Int × String)} (hA : AnchRel hp hp' addrs φ byId byId') (t : TypeRec) (annType : Bool) :
    ∀ (l : List Nat), (∀ a ∈ l, a ∈ addrs) →
      Comparable.renderRows K cass' hp' byId' t annType (l.map φ) = Comparable.renderRows K cass hp byId t annType l
  | [], _ => rfl
  | a :: l, hl => by
    rw [List.map_cons, Comparable.renderRows, Comparable.renderRows,
      h.renderRow hA t annType (hl a List.mem_cons_self),
      IsoR.renderRows h hA t annType l (fun b hb => hl b (List.mem_cons_of_mem _ hb))]

theorem IsoR.renderSections (h : IsoR K cass cass' hp hp' indexed indexed' addrs addrs' φ) (ts : TypeSystem) (o : Opts)
    {byId byId' : List (Option Int × String)} (hA : AnchRel hp hp' addrs φ byId byId') :
    ∀ (L : List (String × List Nat)), (∀ p ∈ L, ∀ a ∈ p.2, a ∈ addrs) →
      Comparable.renderSections K ts cass' hp' o byId' (L.map (fun p => (p.1, p.2.map φ)))
        = Comparable.renderSections K ts cass hp o byId L
  | [], _ => rfl
  | (tn, fss) :: L, hL => by
    have ih := IsoR.renderSections h ts o hA L (fun p hp => hL p (List.mem_cons_of_mem _ hp))
    rw [List.map_cons, Comparable.renderSections, Comparable.renderSections, ih]
    simp only [h.renderRows hA _ _ fss (hL (tn, fss) List.mem_cons_self)]

end

theorem renderFrom_isoR (K : Consts) (ts : TypeSystem) (cass cass' : List Cas) (hp hp' : Heap) (o : Opts)
    (hsh hsh' : Nat → Int) (indexed indexed' addrs addrs' : List Nat) (φ : Nat → Nat)
    (hiso : IsoR K cass cass' hp hp' indexed indexed' addrs addrs' φ) (hd : Distinct hp addrs) :
    renderFrom K ts cass' hp' o hsh' indexed' addrs' = renderFrom K ts cass hp o hsh indexed addrs := by
  rw [← renderFrom_perm_invariant_aux K ts cass' hp' o hsh' hsh' indexed' indexed' (addrs.map φ) addrs' hiso.bij
    (fun _ => Iff.rfl) hiso.nodup_map (hiso.distinct_map hd)]
  unfold renderFrom
  simp only []
  rw [hiso.sorted_map hd hsh hsh']
  have hmem := sorted_mem hp hsh addrs
  generalize (sortNames (typeKeys hp addrs)).map (fun t => (t, sortFs (ltFs hp hsh) (group hp addrs t))) = S at hmem
  have h1 := hiso.genAnchors ts o S (S.map (fun p => (p.1, p.2.map φ))) S hmem (StRel.init hp hp' addrs φ)
  cases hs : genAnchors ts cass hp indexed o S S {} with
  | error e =>
    cases hs' : genAnchors ts cass' hp' indexed' o (S.map (fun p => (p.1, p.2.map φ)))
        (S.map (fun p => (p.1, p.2.map φ))) {} with
    | error e' => rw [hs, hs'] at h1; rw [show e' = e from h1.symm]
    | ok s' => rw [hs, hs'] at h1; exact h1.elim
  | ok s =>
    cases hs' : genAnchors ts cass' hp' indexed' o (S.map (fun p => (p.1, p.2.map φ)))
        (S.map (fun p => (p.1, p.2.map φ))) {} with
    | error e' => rw [hs, hs'] at h1; exact h1.elim
    | ok s' =>
      rw [hs, hs'] at h1
      exact hiso.renderSections ts o (AnchRel.of_keysRel h1.2) S hmem


end Cassis.Comparable
