/-
Proofs for `Properties/C12.lean`: the type-system descriptor codec model (`Model/TsXml.lean`).
-/
import CassisModel.Spec.TsXml
import CassisModel.Proofs.TsXmlStrip
import CassisModel.Proofs.Features
import CassisModel.Proofs.Json

namespace Cassis.TsXml
open Cassis.TS

/-! ### the writer on one feature -/

theorem renderFeat_mk_aux (fd : FDesc) (dom : String) :
    renderFeat { name := storedName fd.name, domain := dom, range := fd.range, elem := fd.elem,
                 descr := fd.descr, multi := fd.multi, reserved := isReservedName fd.name } = emitted fd := by
  obtain ⟨name, descr, range, multi, elem⟩ := fd
  simp only [renderFeat, emitted, storedName]
  cases h : isReservedName name with
  | false => simp
  | true =>
    simp only [if_true, String.toList_append]
    have : ("_" : String).toList = ['_'] := by decide
    rw [this, List.dropLast_concat, String.ofList_toList]

/-! ### dependency order -/

theorem creationOrder_sound_aux (d : Descriptor) (order : List String) (h : creationOrder d = .ok order) :
    (∀ t ∈ d, t.name ∈ order) ∧
    ∀ t ∈ d, t.super ≠ t.name → ∀ i j : Nat, order[i]? = some t.name → order[j]? = some t.super → j < i := by
  unfold creationOrder at h
  obtain ⟨h1, h2⟩ := Json.toposort_sound_aux _ _ h
  refine ⟨?_, ?_⟩
  · intro t ht
    exact h1 { name := t.name, super := t.super } (List.mem_map.mpr ⟨t, ht, rfl⟩)
  · intro t ht hne i j hi hj
    exact h2 { name := t.name, super := t.super } (List.mem_map.mpr ⟨t, ht, rfl⟩) hne i j hi hj

/-! ### redeclared built-in types -/

theorem checkPredefined_spec (K : Consts) (base : TypeSystem) (d : Descriptor) (redecl : List String)
    (h : checkPredefined K base d = .ok redecl) (t : TDesc) (ht : t ∈ d)
    (hp : K.predefined.contains t.name = true) :
    t.name ∈ redecl ∧
    ∃ pt : TypeRec, find? base t.name = some pt ∧ pt.super = some t.super ∧
      (t.feats.map (fun f => featKey f.name f.descr f.range f.elem)).Perm
        (pt.own.map (fun f => featKey f.name f.descr f.range f.elem)) := by
  induction d generalizing redecl with
  | nil => cases ht
  | cons u us ih =>
    unfold checkPredefined at h
    split at h
    · rename_i hup
      split at h
      · cases h
      · rename_i pt hpt
        split at h
        · cases h
        · rename_i hsup
          simp only [] at h
          split at h
          · cases h
          · rename_i hab
            split at h
            · cases h
            · rename_i r hr
              cases h
              rcases List.mem_cons.mp ht with rfl | ht'
              · refine ⟨List.mem_cons_self, pt, hpt, ?_, ?_⟩
                · simpa using hsup
                · have hab' : ((t.feats.map (fun f => featKey f.name f.descr f.range f.elem)).toArray.qsort
                      (fun x y => x.1 < y.1)).toList =
                    ((pt.own.map (fun f => featKey f.name f.descr f.range f.elem)).toArray.qsort
                      (fun x y => x.1 < y.1)).toList := by
                    simpa using hab
                  have p1 := QSort.qsort_toList_perm (t.feats.map (fun f => featKey f.name f.descr f.range f.elem))
                    (fun x y => x.1 < y.1)
                  have p2 := QSort.qsort_toList_perm (pt.own.map (fun f => featKey f.name f.descr f.range f.elem))
                    (fun x y => x.1 < y.1)
                  exact p1.symm.trans (hab' ▸ p2)
              · obtain ⟨h1, h2⟩ := ih r hr ht'
                exact ⟨List.mem_cons_of_mem _ h1, h2⟩
    · rename_i hup
      rcases List.mem_cons.mp ht with rfl | ht'
      · exact absurd hp hup
      · exact ih redecl h ht'

theorem checkPredefined_super_diff_error_aux (base : TypeSystem) (d : Descriptor) (t : TDesc) (pt : TypeRec)
    (ht : t ∈ d) (hp : Gen.consts.predefined.contains t.name = true)
    (hb : ∀ u ∈ d, Gen.consts.predefined.contains u.name = true → (find? base u.name).isSome)
    (hpt : find? base t.name = some pt) (hs : pt.super ≠ some t.super) :
    checkPredefined Gen.consts base d = .error .valueError := by
  induction d with
  | nil => cases ht
  | cons u us ih =>
    have ihu : t ∈ us → checkPredefined Gen.consts base us = .error .valueError :=
      fun h => ih h (fun v hv => hb v (List.mem_cons_of_mem _ hv))
    unfold checkPredefined
    by_cases hup : Gen.consts.predefined.contains u.name = true
    · rw [if_pos hup]
      have hsome := hb u List.mem_cons_self hup
      cases hfu : find? base u.name with
      | none => rw [hfu] at hsome; cases hsome
      | some pu =>
        simp only []
        by_cases hsu : (pu.super != some u.super) = true
        · rw [if_pos hsu]
        · rw [if_neg hsu]
          split
          · rfl
          · rcases List.mem_cons.mp ht with rfl | ht'
            · rw [hpt] at hfu; cases hfu
              exact absurd (by simpa using hs) hsu
            · rw [ihu ht']
    · rw [if_neg hup]
      rcases List.mem_cons.mp ht with rfl | ht'
      · exact absurd hp hup
      · exact ihu ht'

/-! ### the normalised descriptor has pairwise distinct names -/

theorem nodup_eraseDups {α} [BEq α] [LawfulBEq α] : ∀ (n : Nat) (l : List α), l.length ≤ n → l.eraseDups.Nodup := by
  intro n
  induction n with
  | zero =>
    intro l hl
    have : l = [] := List.length_eq_zero_iff.mp (by omega)
    subst this
    simp
  | succ n ih =>
    intro l hl
    cases l with
    | nil => simp
    | cons a as =>
      rw [List.eraseDups_cons, List.nodup_cons]
      refine ⟨?_, ih _ ?_⟩
      · intro hm
        rw [List.mem_eraseDups, List.mem_filter] at hm
        simp at hm
      · have := List.length_filter_le (fun b => !b == a) as
        simp only [List.length_cons] at hl
        omega

theorem nodup_filterMap_name (g : String → Option TDesc) (hg : ∀ n r, g n = some r → r.name = n) :
    ∀ (l : List String), l.Nodup →
      ((l.filterMap g).map (·.name)).Nodup ∧ ∀ x ∈ (l.filterMap g).map (·.name), x ∈ l := by
  intro l
  induction l with
  | nil => intro _; simp
  | cons a l ih =>
    intro hn
    obtain ⟨ha, hl⟩ := List.nodup_cons.mp hn
    obtain ⟨ih1, ih2⟩ := ih hl
    cases hga : g a with
    | none =>
      rw [List.filterMap_cons_none hga]
      exact ⟨ih1, fun x hx => List.mem_cons_of_mem _ (ih2 x hx)⟩
    | some r =>
      rw [List.filterMap_cons_some hga, List.map_cons, hg a r hga]
      refine ⟨List.nodup_cons.mpr ⟨fun hm => ha (ih2 a hm), ih1⟩, ?_⟩
      intro x hx
      rcases List.mem_cons.mp hx with rfl | hx
      · exact List.mem_cons_self
      · exact List.mem_cons_of_mem _ (ih2 x hx)

theorem groupByName_nodup (d0 : Descriptor) : ((groupByName d0).map (·.name)).Nodup := by
  unfold groupByName
  simp only []
  refine (nodup_filterMap_name _ ?_ _ (nodup_eraseDups _ _ (Nat.le_refl _))).1
  intro n r hr
  split at hr
  · rename_i t ht
    cases hr
    simp only []
    have hm : t ∈ d0.filter (fun t => t.name == n) := List.mem_of_getLast? ht
    simpa using (List.mem_filter.mp hm).2
  · cases hr

/-- the reader strips every text first and keys the declarations by the stripped name -/
theorem normalize_nodup (d0 : Descriptor) : ((normalize d0).map (·.name)).Nodup :=
  groupByName_nodup _

theorem effective_nodup (d0 : Descriptor) : ((effective d0).map (·.name)).Nodup := by
  unfold effective
  simp only []
  split
  · exact normalize_nodup d0
  · rename_i hc
    rw [List.map_append]
    refine List.nodup_append.mpr ⟨normalize_nodup d0, by simp, ?_⟩
    intro a ha b hb e
    simp only [List.map_cons, List.map_nil, List.mem_singleton] at hb
    subst hb; subst e
    exact hc (List.contains_iff_mem.mpr ha)

theorem dfind_of_mem : ∀ (d : Descriptor), (d.map (·.name)).Nodup → ∀ t ∈ d,
    d.find? (fun u => u.name == t.name) = some t := by
  intro d
  induction d with
  | nil => intro _ t ht; cases ht
  | cons u us ih =>
    intro hn t ht
    obtain ⟨hu, hus⟩ := List.nodup_cons.mp hn
    rw [List.find?_cons]
    rcases List.mem_cons.mp ht with rfl | ht'
    · simp
    · have hne : (u.name == t.name) = false := by
        apply beq_false_of_ne
        intro e
        exact hu (List.mem_map.mpr ⟨t, ht', e.symm⟩)
      rw [hne]
      exact ih hus t ht'

theorem dfind_some {d : Descriptor} {n : String} {t : TDesc} (h : d.find? (fun u => u.name == n) = some t) :
    t ∈ d ∧ t.name = n :=
  ⟨List.mem_of_find?_eq_some h, by simpa using List.find?_some h⟩

/-! ### resolvability -/

theorem featsResolvable_spec (ok : String → Bool) : ∀ (fs : List FDesc), featsResolvable ok fs = true →
    ∀ f ∈ fs, ok f.range = true ∧ ∀ e, f.elem = some e → ok e = true := by
  intro fs
  induction fs with
  | nil => intro _ f hf; cases hf
  | cons g gs ih =>
    intro h f hf
    unfold featsResolvable at h
    simp only [Bool.and_eq_true] at h
    rcases List.mem_cons.mp hf with rfl | hf'
    · refine ⟨h.1.1, ?_⟩
      intro e he
      have := h.1.2
      rw [he] at this
      exact this
    · exact ih h.2 f hf'

theorem allResolvable_spec (ok : String → Bool) : ∀ (d : Descriptor), allResolvable ok d = true →
    ∀ t ∈ d, ok t.super = true ∧ ∀ f ∈ t.feats, ok f.range = true ∧ ∀ e, f.elem = some e → ok e = true := by
  intro d
  induction d with
  | nil => intro _ t ht; cases ht
  | cons u us ih =>
    intro h t ht
    unfold allResolvable at h
    simp only [Bool.and_eq_true] at h
    rcases List.mem_cons.mp ht with rfl | ht'
    · exact ⟨h.1.1, featsResolvable_spec ok _ h.1.2⟩
    · exact ih h.2 t ht'

/-! ### the invariants along type creation -/

/-- the C10/C11 invariants -/
def Inv (ts : TypeSystem) : Prop := Consistent ts ∧ FeatInv ts

/-- a record keeps everything but its `children` -/
def SameRec (t t' : TypeRec) : Prop :=
  t'.name = t.name ∧ t'.super = t.super ∧ t'.descr = t.descr ∧ t'.own = t.own ∧ t'.inh = t.inh

theorem SameRec.refl (t : TypeRec) : SameRec t t := ⟨rfl, rfl, rfl, rfl, rfl⟩

theorem SameRec.trans {a b c : TypeRec} (h1 : SameRec a b) (h2 : SameRec b c) : SameRec a c :=
  ⟨h2.1.trans h1.1, h2.2.1.trans h1.2.1, h2.2.2.1.trans h1.2.2.1, h2.2.2.2.1.trans h1.2.2.2.1,
    h2.2.2.2.2.trans h1.2.2.2.2⟩

theorem upd_descr (sup n : String) (t : TypeRec) : (upd sup n t).descr = t.descr := by
  unfold upd; split <;> rfl

theorem inv_redeclared (ts : TypeSystem) (red : List String) (h : Inv ts) :
    Inv { ts with redeclared := red } := by
  refine ⟨consistent_of_skel (ts := ts) rfl h.1, ?_⟩
  obtain ⟨h1, h2, h3, h4, h5, h6⟩ := h.2
  exact ⟨h1, h2, h3, h4, h5, h6⟩

theorem createType_not_has (K : Consts) (ts ts' : TypeSystem) (n s : String) (d : Option String)
    (hp : K.predefined.contains n = false) (h : createType K ts n s d = .ok ts') : hasExact ts n = false := by
  cases hx : hasExact ts n with
  | false => rfl
  | true =>
    exfalso
    unfold createType at h
    simp only [hx, hp, Bool.not_false, Bool.and_self, if_true, bind, Except.bind, throw, throwThe,
      MonadExceptOf.throw, pure, Except.pure] at h
    split at h <;> cases h

theorem createType_step (K : Consts) (ts ts' : TypeSystem) (n s : String) (dsc : Option String)
    (hi : Inv ts) (hp : K.predefined.contains n = false) (h : createType K ts n s dsc = .ok ts') :
    hasExact ts n = false ∧ Inv ts' ∧
    (∃ sup, getType ts s = .ok sup ∧
      find? ts' n = some { name := n, super := some sup.name, descr := dsc, inh := allFeatures sup }) ∧
    (∀ x t, find? ts x = some t → ∃ t', find? ts' x = some t' ∧ SameRec t t') ∧
    (∀ x t', find? ts' x = some t' → x = n ∨ ∃ t, find? ts x = some t) := by
  have hnew := createType_not_has K ts ts' n s dsc hp h
  refine ⟨hnew, ⟨consistent_createType_aux K ts ts' n s dsc hi.1 hnew h,
    featInv_createType_aux K ts ts' n s dsc hi.1 hi.2 hnew h⟩, ?_⟩
  obtain ⟨sup, hsup, _, rfl⟩ := createType_shape K ts ts' n s dsc hi.1 hi.2 hnew h
  have hfind := find_create ts ts.redeclared n sup.name
    { name := n, super := some sup.name, descr := dsc, inh := allFeatures sup } rfl hnew
  refine ⟨⟨sup, hsup, ?_⟩, ?_, ?_⟩
  · rw [hfind, if_pos rfl]
  · intro x t hx
    have hxn : x ≠ n := by
      intro e; subst e; rw [find?_none_of_not_has hnew] at hx; cases hx
    refine ⟨upd sup.name n t, ?_, upd_name _ _ _, upd_super _ _ _, upd_descr _ _ _, upd_own _ _ _, upd_inh _ _ _⟩
    rw [hfind, if_neg hxn, hx]; rfl
  · intro x t' hx
    by_cases hxn : x = n
    · exact Or.inl hxn
    · right
      rw [hfind, if_neg hxn] at hx
      cases hq : find? ts x with
      | none => rw [hq] at hx; cases hx
      | some t => exact ⟨t, rfl⟩

structure CreateSpec (K : Consts) (d : Descriptor) (ns : List String) (ts ts' : TypeSystem)
    (created : List String) : Prop where
  inv : Inv ts'
  filt : created = ns.filter (fun n => !K.predefined.contains n)
  nodup : created.Nodup
  fresh : ∀ n ∈ created, hasExact ts n = false
  decl : ∀ n ∈ created, ∃ t, d.find? (fun u => u.name == n) = some t
  keep : ∀ x t, find? ts x = some t → ∃ t', find? ts' x = some t' ∧ SameRec t t'
  back : ∀ x t', find? ts' x = some t' → x ∈ created ∨ ∃ t, find? ts x = some t
  made : ∀ n ∈ created, ∀ t, d.find? (fun u => u.name == n) = some t →
    ∃ r, find? ts' n = some r ∧ r.descr = t.descr ∧ r.own = []
  sup : ∀ pre n post, ns = pre ++ n :: post → K.predefined.contains n = false →
    ∀ t, d.find? (fun u => u.name == n) = some t →
      (hasExact ts t.super = true ∨ (t.super ∈ pre ∧ K.predefined.contains t.super = false)) →
      ∃ r, find? ts' n = some r ∧ r.super = some t.super

theorem createTypes_spec (K : Consts) (d : Descriptor) : ∀ (ns : List String) (ts ts' : TypeSystem)
    (created : List String), Inv ts → createTypes K d ns ts = .ok (ts', created) →
    CreateSpec K d ns ts ts' created := by
  intro ns
  induction ns with
  | nil =>
    intro ts ts' created hi h
    unfold createTypes at h
    cases h
    exact ⟨hi, rfl, List.nodup_nil, fun n hn => (by cases hn), fun n hn => (by cases hn),
      fun x t hx => ⟨t, hx, SameRec.refl t⟩, fun x t' hx => Or.inr ⟨t', hx⟩, fun n hn => (by cases hn),
      fun pre n post e => (by simp at e)⟩
  | cons n ns ih =>
    intro ts ts' created hi h
    unfold createTypes at h
    split at h
    · -- a predefined name is skipped
      rename_i hpn
      have S := ih ts ts' created hi h
      refine ⟨S.inv, ?_, S.nodup, S.fresh, S.decl, S.keep, S.back, S.made, ?_⟩
      · rw [List.filter_cons, hpn]; exact S.filt
      · intro pre m post e hpm t ht hcond
        cases pre with
        | nil =>
          simp only [List.nil_append, List.cons.injEq] at e
          rw [← e.1, hpn] at hpm; cases hpm
        | cons p pre' =>
          simp only [List.cons_append, List.cons.injEq] at e
          obtain ⟨rfl, e2⟩ := e
          apply S.sup pre' m post e2 hpm t ht
          rcases hcond with h1 | ⟨h1, h2⟩
          · exact Or.inl h1
          · rcases List.mem_cons.mp h1 with e3 | h3
            · rw [e3, hpn] at h2; cases h2
            · exact Or.inr ⟨h3, h2⟩
    · rename_i hpn
      have hpn' : K.predefined.contains n = false := by simpa using hpn
      split at h
      · cases h
      · rename_i t htd
        have htn : t.name = n := (dfind_some htd).2
        split at h
        · cases h
        · rename_i tsA hA
          split at h
          · cases h
          · rename_i ts2 created' hrest
            cases h
            rw [htn] at hA
            obtain ⟨hnew, hiA, ⟨sup, hsup, hfn⟩, hkeepA, hbackA⟩ :=
              createType_step K ts tsA n t.super t.descr hi hpn' hA
            have S := ih tsA ts' created' hiA hrest
            have hregA : ∀ x, hasExact ts x = true → hasExact tsA x = true := by
              intro x hx
              obtain ⟨t0, ht0⟩ := (hasExact_iff_find ts x).mp hx
              obtain ⟨t1, ht1, _⟩ := hkeepA x t0 ht0
              exact (hasExact_iff_find tsA x).mpr ⟨t1, ht1⟩
            have hnA : hasExact tsA n = true := (hasExact_iff_find tsA n).mpr ⟨_, hfn⟩
            have hnnot : n ∉ created' := by
              intro hm; rw [S.fresh n hm] at hnA; cases hnA
            refine ⟨S.inv, ?_, ?_, ?_, ?_, ?_, ?_, ?_, ?_⟩
            · rw [List.filter_cons, hpn', Bool.not_false, if_pos rfl, ← S.filt]
            · exact List.nodup_cons.mpr ⟨hnnot, S.nodup⟩
            · intro m hm
              rcases List.mem_cons.mp hm with rfl | hm'
              · exact hnew
              · cases hx : hasExact ts m with
                | false => rfl
                | true => have := hregA m hx; rw [S.fresh m hm'] at this; cases this
            · intro m hm
              rcases List.mem_cons.mp hm with rfl | hm'
              · exact ⟨t, htd⟩
              · exact S.decl m hm'
            · intro x t0 hx
              obtain ⟨t1, ht1, s1⟩ := hkeepA x t0 hx
              obtain ⟨t2, ht2, s2⟩ := S.keep x t1 ht1
              exact ⟨t2, ht2, s1.trans s2⟩
            · intro x t2 hx
              rcases S.back x t2 hx with hm | ⟨t1, ht1⟩
              · exact Or.inl (List.mem_cons_of_mem _ hm)
              · rcases hbackA x t1 ht1 with rfl | h0
                · exact Or.inl List.mem_cons_self
                · exact Or.inr h0
            · intro m hm u hu
              rcases List.mem_cons.mp hm with rfl | hm'
              · rw [htd] at hu; cases hu
                obtain ⟨r, hr, sr⟩ := S.keep m _ hfn
                exact ⟨r, hr, sr.2.2.1, sr.2.2.2.1⟩
              · exact S.made m hm' u hu
            · intro pre m post e hpm u hu hcond
              cases pre with
              | nil =>
                simp only [List.nil_append, List.cons.injEq] at e
                obtain ⟨rfl, _⟩ := e
                rw [htd] at hu; cases hu
                obtain ⟨r, hr, sr⟩ := S.keep n _ hfn
                refine ⟨r, hr, ?_⟩
                rw [sr.2.1]
                rcases hcond with h1 | ⟨h1, _⟩
                · obtain ⟨ps, hps⟩ := (hasExact_iff_find ts _).mp h1
                  have : getType ts t.super = .ok ps := by simp [getType, hps]
                  rw [this] at hsup
                  cases hsup
                  rw [find?_name hps]
                · cases h1
              | cons p pre' =>
                simp only [List.cons_append, List.cons.injEq] at e
                obtain ⟨rfl, e2⟩ := e
                apply S.sup pre' m post e2 hpm u hu
                rcases hcond with h1 | ⟨h1, h2⟩
                · exact Or.inl (hregA _ h1)
                · rcases List.mem_cons.mp h1 with e3 | h3
                  · left; rw [e3]; exact hnA
                  · exact Or.inr ⟨h3, h2⟩

/-! ### adding the declared features -/

/-- the feature `create_feature` stores for a declaration -/
def mkFeat (dom : String) (f : FDesc) : Feature :=
  { name := storedName f.name, domain := dom, range := f.range, elem := f.elem, descr := f.descr,
    multi := f.multi, reserved := isReservedName f.name }

theorem createFeature_exact (ts : TypeSystem) (dom : String) (f : FDesc)
    (hd : hasExact ts dom = true) (hr : hasExact ts f.range = true)
    (he : ∀ e, f.elem = some e → hasExact ts e = true) :
    createFeature ts dom f.name f.range f.elem f.descr f.multi = addFeature ts dom (mkFeat dom f) := by
  obtain ⟨td, htd⟩ := (hasExact_iff_find ts dom).mp hd
  obtain ⟨tr, htr⟩ := (hasExact_iff_find ts f.range).mp hr
  have g1 : getType ts dom = .ok td := by simp [getType, htd]
  have g2 : getType ts f.range = .ok tr := by simp [getType, htr]
  unfold createFeature
  simp only [bind, Except.bind, g1, g2, find?_name htd, find?_name htr]
  cases hel : f.elem with
  | none =>
    simp only [pure, Except.pure, mkFeat, storedName, isReservedName, hel]
    rfl
  | some e =>
    obtain ⟨te, hte⟩ := (hasExact_iff_find ts e).mp (he e hel)
    have g3 : getType ts e = .ok te := by simp [getType, hte]
    simp only [pure, Except.pure, g3, find?_name hte, mkFeat, storedName, isReservedName, hel]
    rfl

/-- one record across a feature operation: only the feature lists grow -/
def GrowRec (t t' : TypeRec) : Prop :=
  t'.name = t.name ∧ t'.super = t.super ∧ t'.descr = t.descr ∧ ∃ ex, t'.inh = t.inh ++ ex

theorem GrowRec.refl (t : TypeRec) : GrowRec t t := ⟨rfl, rfl, rfl, [], by simp⟩

theorem GrowRec.trans {a b c : TypeRec} (h1 : GrowRec a b) (h2 : GrowRec b c) : GrowRec a c := by
  obtain ⟨n1, s1, d1, e1, i1⟩ := h1
  obtain ⟨n2, s2, d2, e2, i2⟩ := h2
  exact ⟨n2.trans n1, s2.trans s1, d2.trans d1, e1 ++ e2, by rw [i2, i1, List.append_assoc]⟩

theorem GrowRec.inh_mem {t t' : TypeRec} (h : GrowRec t t') {g : Feature} (hg : g ∈ t.inh) : g ∈ t'.inh := by
  obtain ⟨_, _, _, ex, e⟩ := h
  rw [e]; exact List.mem_append_left _ hg

theorem GrowRec.inh_name {t t' : TypeRec} (h : GrowRec t t') {n : String} (hn : n ∈ fnames t.inh) :
    n ∈ fnames t'.inh := by
  obtain ⟨g, hg, e⟩ := mem_fnames.mp hn
  exact mem_fnames.mpr ⟨g, h.inh_mem hg, e⟩

theorem addFeature_step (ts ts' : TypeSystem) (dom : String) (f : Feature) (hi : Inv ts)
    (h : addFeature ts dom f = .ok ts') :
    Inv ts' ∧ skel ts' = skel ts ∧
    ∀ x t, find? ts x = some t → ∃ t', find? ts' x = some t' ∧ GrowRec t t' ∧
      (x ≠ dom → t'.own = t.own) ∧
      (x = dom → ((t'.own = t.own ∧ ∃ g ∈ t.own ++ t.inh, featureEq g f = true) ∨
                  (t'.own = t.own ++ [f] ∧ f.name ∉ fnames t.own ∧ f.name ∉ fnames t.inh))) := by
  refine ⟨⟨consistent_addFeature_aux ts ts' dom f hi.1 h, featInv_addFeature_aux ts ts' dom f hi.1 hi.2 h⟩,
    skel_addFeature ts ts' dom f hi.1.nodup h, ?_⟩
  obtain ⟨td, htd, ⟨hchk, rfl⟩ | ⟨hchk, hdc, hpush⟩⟩ := addFeature_cases h
  · intro x t hx
    refine ⟨t, hx, GrowRec.refl t, fun _ => rfl, ?_⟩
    intro e
    subst e
    rw [htd] at hx; cases hx
    obtain ⟨g, hg, _, hgf⟩ := addCheck_false_same hchk
    exact Or.inl ⟨rfl, g, hg, hgf⟩
  · have hT := addFeature_target hi.1 hi.2 htd hpush
    obtain ⟨hfo, hfi⟩ := addCheck_false_fresh hchk
    intro x t hx
    obtain ⟨t', hx', _⟩ := hT.recs x t hx
    refine ⟨t', hx', ?_⟩
    rcases hT.cases hx hx' with ⟨h1, e⟩ | ⟨h1, _, _, e⟩ | ⟨h1, e, _⟩
    · subst h1
      rw [htd] at hx; cases hx
      rw [e]
      exact ⟨⟨rfl, rfl, rfl, [], by simp⟩, fun hne => absurd rfl hne, fun _ => Or.inr ⟨rfl, hfo, hfi⟩⟩
    · rw [e]
      exact ⟨⟨rfl, rfl, rfl, [f], rfl⟩, fun _ => rfl, fun he => absurd he h1⟩
    · rw [e]
      exact ⟨GrowRec.refl t, fun _ => rfl, fun he => absurd he h1⟩

/-- what the features of one declaration do to the record of the declared type -/
def FeatsDone (tn : String) (fs : List FDesc) (t t' : TypeRec) : Prop :=
  ∃ sel, t'.own = t.own ++ sel ∧ sel.Sublist (fs.map (mkFeat tn)) ∧
    (∀ f ∈ fs, ∃ g ∈ t'.own ++ t'.inh, featureEq g (mkFeat tn f) = true) ∧
    ((∀ f ∈ fs, storedName f.name ∉ fnames t.own ∧ storedName f.name ∉ fnames t'.inh) →
      (fs.map (fun f => storedName f.name)).Nodup → sel = fs.map (mkFeat tn))

theorem hasExact_of_skel {ts ts' : TypeSystem} (h : skel ts' = skel ts) {x : String}
    (hx : hasExact ts x = true) : hasExact ts' x = true := by
  rw [hasExact_transfer h]; exact hx

theorem addFeats_spec (tn : String) : ∀ (fs : List FDesc) (ts ts' : TypeSystem), Inv ts →
    hasExact ts tn = true →
    (∀ f ∈ fs, hasExact ts f.range = true ∧ ∀ e, f.elem = some e → hasExact ts e = true) →
    addFeats ts tn fs = .ok ts' →
    Inv ts' ∧ skel ts' = skel ts ∧
    ∀ x t, find? ts x = some t → ∃ t', find? ts' x = some t' ∧ GrowRec t t' ∧
      (x ≠ tn → t'.own = t.own) ∧ (x = tn → FeatsDone tn fs t t') := by
  intro fs
  induction fs with
  | nil =>
    intro ts ts' hi _ _ h
    unfold addFeats at h
    cases h
    refine ⟨hi, rfl, ?_⟩
    intro x t hx
    refine ⟨t, hx, GrowRec.refl t, fun _ => rfl, fun _ => ⟨[], by simp, List.Sublist.refl _, ?_, ?_⟩⟩
    · intro f hf; cases hf
    · intro _ _; rfl
  | cons f fs ih =>
    intro ts ts' hi hreg hfs h
    unfold addFeats at h
    split at h
    · cases h
    · rename_i tsA hA
      obtain ⟨hfr, hfe⟩ := hfs f List.mem_cons_self
      rw [createFeature_exact ts tn f hreg hfr hfe] at hA
      obtain ⟨hiA, hskA, hrecA⟩ := addFeature_step ts tsA tn (mkFeat tn f) hi hA
      obtain ⟨hi', hsk', hrec'⟩ := ih tsA ts' hiA (hasExact_of_skel hskA hreg)
        (fun g hg => ⟨hasExact_of_skel hskA (hfs g (List.mem_cons_of_mem _ hg)).1,
          fun e he => hasExact_of_skel hskA ((hfs g (List.mem_cons_of_mem _ hg)).2 e he)⟩) h
      refine ⟨hi', hsk'.trans hskA, ?_⟩
      intro x t hx
      obtain ⟨tA, hxA, gA, oA, dA⟩ := hrecA x t hx
      obtain ⟨t', hx', g', o', d'⟩ := hrec' x tA hxA
      refine ⟨t', hx', gA.trans g', fun hne => (o' hne).trans (oA hne), ?_⟩
      intro hxt
      obtain ⟨sel', hown', hsub', hvis', hex'⟩ := d' hxt
      have hname : (mkFeat tn f).name = storedName f.name := rfl
      rcases dA hxt with ⟨hoA, g, hg, hgf⟩ | ⟨hoA, hno, hni⟩
      · -- already provided identically
        refine ⟨sel', by rw [hown', hoA], List.Sublist.cons _ hsub', ?_, ?_⟩
        · intro f' hf'
          rcases List.mem_cons.mp hf' with rfl | hf''
          · refine ⟨g, ?_, hgf⟩
            rcases List.mem_append.mp hg with hg | hg
            · rw [hown', hoA]; exact List.mem_append_left _ (List.mem_append_left _ hg)
            · exact List.mem_append_right _ ((gA.trans g').inh_mem hg)
          · exact hvis' f' hf''
        · intro hfresh _
          exfalso
          obtain ⟨h1, h2⟩ := hfresh f List.mem_cons_self
          have hgn : g.name = storedName f.name := featureEq_name hgf
          rcases List.mem_append.mp hg with hg | hg
          · exact h1 (hgn ▸ mem_fnames_of_mem hg)
          · exact h2 (hgn ▸ mem_fnames_of_mem ((gA.trans g').inh_mem hg))
      · -- stored
        refine ⟨mkFeat tn f :: sel', by rw [hown', hoA]; simp, List.Sublist.cons_cons _ hsub', ?_, ?_⟩
        · intro f' hf'
          rcases List.mem_cons.mp hf' with rfl | hf''
          · refine ⟨mkFeat tn f', ?_, featureEq_refl _⟩
            rw [hown', hoA]
            simp
          · exact hvis' f' hf''
        · intro hfresh hnd
          rw [List.map_cons, List.nodup_cons] at hnd
          rw [List.map_cons, hex' ?_ hnd.2]
          intro f' hf'
          obtain ⟨h1, h2⟩ := hfresh f' (List.mem_cons_of_mem _ hf')
          refine ⟨?_, h2⟩
          rw [hoA, fnames_append]
          intro hm
          rcases List.mem_append.mp hm with hm | hm
          · exact h1 hm
          · simp only [fnames, List.map_cons, List.map_nil, List.mem_singleton] at hm
            exact hnd.1 (List.mem_map.mpr ⟨f', hf', hm⟩)

theorem FeatsDone.later {tn : String} {fs : List FDesc} {t tA t' : TypeRec} (h : FeatsDone tn fs t tA)
    (ho : t'.own = tA.own) (hg : GrowRec tA t') : FeatsDone tn fs t t' := by
  obtain ⟨sel, hown, hsub, hvis, hex⟩ := h
  refine ⟨sel, by rw [ho, hown], hsub, ?_, ?_⟩
  · intro f hf
    obtain ⟨g, hgm, hgf⟩ := hvis f hf
    refine ⟨g, ?_, hgf⟩
    rcases List.mem_append.mp hgm with h1 | h1
    · rw [ho]; exact List.mem_append_left _ h1
    · exact List.mem_append_right _ (hg.inh_mem h1)
  · intro hfresh hnd
    apply hex _ hnd
    intro f hf
    exact ⟨(hfresh f hf).1, fun hm => (hfresh f hf).2 (hg.inh_name hm)⟩

theorem FeatsDone.earlier {tn : String} {fs : List FDesc} {t tA t' : TypeRec} (h : FeatsDone tn fs tA t')
    (ho : tA.own = t.own) : FeatsDone tn fs t t' := by
  obtain ⟨sel, hown, hsub, hvis, hex⟩ := h
  refine ⟨sel, by rw [hown, ho], hsub, hvis, ?_⟩
  intro hfresh hnd
  apply hex _ hnd
  intro f hf
  exact ⟨by rw [ho]; exact (hfresh f hf).1, (hfresh f hf).2⟩

theorem addAllFeats_spec (d : Descriptor) : ∀ (cs : List String) (ts ts' : TypeSystem), Inv ts →
    (∀ n ∈ cs, ∀ t, d.find? (fun u => u.name == n) = some t →
      hasExact ts n = true ∧ ∀ f ∈ t.feats, hasExact ts f.range = true ∧ ∀ e, f.elem = some e → hasExact ts e = true) →
    cs.Nodup → addAllFeats d cs ts = .ok ts' →
    Inv ts' ∧ skel ts' = skel ts ∧
    ∀ x t, find? ts x = some t → ∃ t', find? ts' x = some t' ∧ GrowRec t t' ∧
      (x ∉ cs → t'.own = t.own) ∧
      (x ∈ cs → ∀ td, d.find? (fun u => u.name == x) = some td → FeatsDone x td.feats t t') := by
  intro cs
  induction cs with
  | nil =>
    intro ts ts' hi _ _ h
    unfold addAllFeats at h
    cases h
    refine ⟨hi, rfl, ?_⟩
    intro x t hx
    exact ⟨t, hx, GrowRec.refl t, fun _ => rfl, fun hm => by cases hm⟩
  | cons n cs ih =>
    intro ts ts' hi hd hnd h
    obtain ⟨hncs, hnd'⟩ := List.nodup_cons.mp hnd
    unfold addAllFeats at h
    split at h
    · rename_i hnone
      obtain ⟨hi', hsk', hrec'⟩ := ih ts ts' hi (fun m hm => hd m (List.mem_cons_of_mem _ hm)) hnd' h
      refine ⟨hi', hsk', ?_⟩
      intro x t hx
      obtain ⟨t', hx', g', o', d'⟩ := hrec' x t hx
      refine ⟨t', hx', g', fun hm => o' (fun hc => hm (List.mem_cons_of_mem _ hc)), ?_⟩
      intro hm td htd
      rcases List.mem_cons.mp hm with rfl | hm'
      · rw [hnone] at htd; cases htd
      · exact d' hm' td htd
    · rename_i tn htn
      have hname : tn.name = n := (dfind_some htn).2
      split at h
      · cases h
      · rename_i tsA hA
        rw [hname] at hA
        obtain ⟨hreg, hfs⟩ := hd n List.mem_cons_self tn htn
        obtain ⟨hiA, hskA, hrecA⟩ := addFeats_spec n tn.feats ts tsA hi hreg hfs hA
        obtain ⟨hi', hsk', hrec'⟩ := ih tsA ts' hiA (by
          intro m hm t ht
          obtain ⟨h1, h2⟩ := hd m (List.mem_cons_of_mem _ hm) t ht
          exact ⟨hasExact_of_skel hskA h1, fun f hf => ⟨hasExact_of_skel hskA (h2 f hf).1,
            fun e he => hasExact_of_skel hskA ((h2 f hf).2 e he)⟩⟩) hnd' h
        refine ⟨hi', hsk'.trans hskA, ?_⟩
        intro x t hx
        obtain ⟨tA, hxA, gA, oA, dA⟩ := hrecA x t hx
        obtain ⟨t', hx', g', o', d'⟩ := hrec' x tA hxA
        refine ⟨t', hx', gA.trans g', ?_, ?_⟩
        · intro hm
          have hxn : x ≠ n := fun e => hm (e ▸ List.mem_cons_self)
          have hxc : x ∉ cs := fun hc => hm (List.mem_cons_of_mem _ hc)
          exact (o' hxc).trans (oA hxn)
        · intro hm td htd
          by_cases hxn : x = n
          · subst hxn
            rw [htn] at htd; cases htd
            exact (dA rfl).later (o' hncs) g'
          · rcases List.mem_cons.mp hm with e | hm'
            · exact absurd e hxn
            · exact (d' hm' td htd).earlier (oA hxn)

/-! ### the loader -/

theorem load_ok (K : Consts) (d0 : Descriptor) (ts : TypeSystem) (h : load K d0 = .ok ts) :
    ∃ redecl order ts1 created ts2,
      allResolvable (fun n => K.predefined.contains n || ((effective d0).map (·.name)).contains n)
        (effective d0) = true ∧
      checkPredefined K Gen.builtinTSNoDoc (effective d0) = .ok redecl ∧
      creationOrder (effective d0) = .ok order ∧
      createTypes K (effective d0) order Gen.builtinTSNoDoc = .ok (ts1, created) ∧
      addAllFeats (effective d0) created ts1 = .ok ts2 ∧
      ts = { ts2 with redeclared :=
        (if ((normalize d0).map (·.name)).contains DOCUMENT_ANNOTATION then [DOCUMENT_ANNOTATION] else []) ++ redecl } := by
  unfold load at h
  have he : effective d0 = if ((normalize d0).map (·.name)).contains DOCUMENT_ANNOTATION then normalize d0
      else normalize d0 ++ [{ name := DOCUMENT_ANNOTATION, super := ANNOTATION,
                              feats := [{ name := "language", range := "uima.cas.String" }] }] := rfl
  rw [he]
  cases hc : ((normalize d0).map (·.name)).contains DOCUMENT_ANNOTATION
  all_goals
    simp only [hc, if_true, Bool.false_eq_true, if_false] at h ⊢
    split at h
    · cases h
    · rename_i hres
      split at h
      · cases h
      · rename_i redecl hchk
        split at h
        · cases h
        · rename_i order hord
          split at h
          · cases h
          · rename_i ts1 created hct
            split at h
            · cases h
            · rename_i ts2 haf
              cases h
              refine ⟨redecl, order, ts1, created, ts2, ?_, hchk, hord, hct, haf, rfl⟩
              simpa using hres

theorem base_inv : Inv Gen.builtinTSNoDoc := ⟨consistent_builtins_aux.2, featInv_builtins_aux.2⟩

theorem base_predef_reg (p : String) (hp : Gen.consts.predefined.contains p = true) :
    hasExact Gen.builtinTSNoDoc p = true := by
  have h : Gen.consts.predefined.all (fun p => hasExact Gen.builtinTSNoDoc p) = true := by decide +kernel
  exact List.all_eq_true.mp h p (List.contains_iff_mem.mp hp)

theorem base_all_predef (t : TypeRec) (ht : t ∈ Gen.builtinTSNoDoc.types) :
    Gen.consts.predefined.contains t.name = true := by
  have h : Gen.builtinTSNoDoc.types.all (fun t => Gen.consts.predefined.contains t.name) = true := by
    decide +kernel
  exact List.all_eq_true.mp h t ht

/-- everything the proofs below use about a successful load -/
theorem load_main (d0 : Descriptor) (ts : TypeSystem) (h : load Gen.consts d0 = .ok ts) :
    ∃ redecl order ts1 created ts2,
      allResolvable (fun n => Gen.consts.predefined.contains n || ((effective d0).map (·.name)).contains n)
        (effective d0) = true ∧
      checkPredefined Gen.consts Gen.builtinTSNoDoc (effective d0) = .ok redecl ∧
      creationOrder (effective d0) = .ok order ∧
      CreateSpec Gen.consts (effective d0) order Gen.builtinTSNoDoc ts1 created ∧
      ts = { ts2 with redeclared :=
        (if ((normalize d0).map (·.name)).contains DOCUMENT_ANNOTATION then [DOCUMENT_ANNOTATION] else []) ++ redecl } ∧
      Inv ts2 ∧ skel ts2 = skel ts1 ∧
      (∀ x t, find? ts1 x = some t → ∃ t', find? ts2 x = some t' ∧ GrowRec t t' ∧
        (x ∉ created → t'.own = t.own) ∧
        (x ∈ created → ∀ td, (effective d0).find? (fun u => u.name == x) = some td → FeatsDone x td.feats t t')) ∧
      (∀ t ∈ effective d0, Gen.consts.predefined.contains t.name = false → t.name ∈ created) := by
  obtain ⟨redecl, order, ts1, created, ts2, hres, hchk, hord, hct, haf, hts⟩ := load_ok Gen.consts d0 ts h
  have S := createTypes_spec Gen.consts (effective d0) order Gen.builtinTSNoDoc ts1 created base_inv hct
  have hsound := creationOrder_sound_aux (effective d0) order hord
  have hcreated : ∀ t ∈ effective d0, Gen.consts.predefined.contains t.name = false → t.name ∈ created := by
    intro t ht hp
    rw [S.filt, List.mem_filter]
    exact ⟨hsound.1 t ht, by rw [hp]; rfl⟩
  have hpre1 : ∀ p, Gen.consts.predefined.contains p = true → hasExact ts1 p = true := by
    intro p hp
    obtain ⟨t0, ht0⟩ := (hasExact_iff_find _ p).mp (base_predef_reg p hp)
    obtain ⟨t1, ht1, _⟩ := S.keep p t0 ht0
    exact (hasExact_iff_find ts1 p).mpr ⟨t1, ht1⟩
  have hokreg : ∀ m, (Gen.consts.predefined.contains m || ((effective d0).map (·.name)).contains m) = true →
      hasExact ts1 m = true := by
    intro m hm
    cases hp : Gen.consts.predefined.contains m with
    | true => exact hpre1 m hp
    | false =>
      rw [hp, Bool.false_or, List.contains_iff_mem] at hm
      obtain ⟨u, hu, hun⟩ := List.mem_map.mp hm
      have hmc : m ∈ created := hun ▸ hcreated u hu (by rw [hun]; exact hp)
      obtain ⟨u', hu'⟩ := S.decl m hmc
      obtain ⟨r, hr, _⟩ := S.made m hmc u' hu'
      exact (hasExact_iff_find ts1 m).mpr ⟨r, hr⟩
  have hall := allResolvable_spec _ _ hres
  obtain ⟨hi2, hsk2, hrec2⟩ := addAllFeats_spec (effective d0) created ts1 ts2 S.inv (by
    intro n hn t ht
    obtain ⟨htd, htn⟩ := dfind_some ht
    obtain ⟨r, hr, _⟩ := S.made n hn t ht
    refine ⟨(hasExact_iff_find ts1 n).mpr ⟨r, hr⟩, ?_⟩
    intro f hf
    obtain ⟨h1, h2⟩ := (hall t htd).2 f hf
    exact ⟨hokreg _ h1, fun e he => hokreg _ (h2 e he)⟩) S.nodup haf
  exact ⟨redecl, order, ts1, created, ts2, hres, hchk, hord, S, hts, hi2, hsk2, hrec2, hcreated⟩

theorem load_consistent_aux (d0 : Descriptor) (ts : TypeSystem) (h : load Gen.consts d0 = .ok ts) :
    Consistent ts ∧ FeatInv ts := by
  obtain ⟨redecl, order, ts1, created, ts2, _, _, _, _, hts, hi2, _⟩ := load_main d0 ts h
  rw [hts]
  exact inv_redeclared ts2 _ hi2

theorem renderFeat_mkFeat (dom : String) (fd : FDesc) : renderFeat (mkFeat dom fd) = emitted fd :=
  renderFeat_mk_aux fd dom

/-- the record a successful load holds for a declared user type -/
theorem load_declares_core (d0 : Descriptor) (ts : TypeSystem) (h : load Gen.consts d0 = .ok ts)
    (t : TDesc) (ht : t ∈ effective d0) (hu : Gen.consts.predefined.contains t.name = false) :
    ∃ r : TypeRec, find? ts t.name = some r ∧ (t.super ≠ t.name → r.super = some t.super) ∧ r.descr = t.descr ∧
      FeatsDone t.name t.feats { name := t.name, super := r.super } r := by
  obtain ⟨redecl, order, ts1, created, ts2, hres, _, hord, S, hts, hi2, hsk2, hrec2, hcreated⟩ :=
    load_main d0 ts h
  have hsound := creationOrder_sound_aux (effective d0) order hord
  have hall := allResolvable_spec _ _ hres
  have hmc : t.name ∈ created := hcreated t ht hu
  have hfd : (effective d0).find? (fun u => u.name == t.name) = some t :=
    dfind_of_mem _ (effective_nodup d0) t ht
  obtain ⟨r1, hr1, hd1, ho1⟩ := S.made t.name hmc t hfd
  obtain ⟨r, hr, hg, _, hdone⟩ := hrec2 t.name r1 hr1
  have hfind : find? ts t.name = some r := by rw [hts]; exact hr
  refine ⟨r, hfind, ?_, hg.2.2.1.trans hd1, ?_⟩
  · intro hne
    rw [hg.2.1]
    obtain ⟨pre, post, hsplit⟩ := List.append_of_mem (hsound.1 t ht)
    have hi : order[pre.length]? = some t.name := by rw [hsplit]; simp
    obtain ⟨r1', hr1', hs1⟩ := S.sup pre t.name post hsplit hu t hfd (by
      cases hp : Gen.consts.predefined.contains t.super with
      | true => exact Or.inl (base_predef_reg _ hp)
      | false =>
        right
        refine ⟨?_, rfl⟩
        have hok := (hall t ht).1
        rw [hp, Bool.false_or, List.contains_iff_mem] at hok
        obtain ⟨u, hu', hun⟩ := List.mem_map.mp hok
        have hso : t.super ∈ order := hun ▸ hsound.1 u hu'
        obtain ⟨j, hj⟩ := List.mem_iff_getElem?.mp hso
        have hlt := hsound.2 t ht hne pre.length j hi hj
        rw [hsplit, List.getElem?_append_left hlt] at hj
        exact List.mem_of_getElem? hj)
    rw [hr1] at hr1'; cases hr1'
    exact hs1
  · have := hdone hmc t hfd
    obtain ⟨sel, hown, hsub, hvis, hex⟩ := this
    exact ⟨sel, by rw [hown, ho1], hsub, hvis, fun hfresh hnd => hex
      (fun f hf => ⟨by rw [ho1]; simp [fnames], (hfresh f hf).2⟩) hnd⟩

/-- `load_declares` of `Properties/C12.lean` under the additional hypothesis `t.super ≠ t.name`
    (without it the statement is false: a dot-less name declared as its own supertype is resolved by
    short name, e.g. `TOP` ↦ `uima.cas.TOP`) -/
theorem load_declares_of_super_ne_aux (d0 : Descriptor) (ts : TypeSystem) (h : load Gen.consts d0 = .ok ts)
    (t : TDesc) (ht : t ∈ effective d0) (hu : Gen.consts.predefined.contains t.name = false)
    (hs : t.super ≠ t.name) :
    ∃ r : TypeRec, find? ts t.name = some r ∧ r.super = some t.super ∧ r.descr = t.descr ∧
      List.Sublist (r.own.map renderFeat) (t.feats.map emitted) ∧
      ∀ f ∈ t.feats, ∃ g ∈ allFeatures r, g.name = storedName f.name ∧ g.range = f.range ∧
        g.elem.getD TOP = f.elem.getD TOP ∧ g.descr = f.descr := by
  obtain ⟨r, hr, hsup, hd, sel, hown, hsub, hvis, _⟩ := load_declares_core d0 ts h t ht hu
  refine ⟨r, hr, hsup hs, hd, ?_, ?_⟩
  · have : r.own = sel := by simpa using hown
    rw [this]
    have hm := hsub.map renderFeat
    rw [List.map_map] at hm
    have e : (renderFeat ∘ mkFeat t.name) = emitted := funext (fun fd => renderFeat_mkFeat t.name fd)
    rw [e] at hm
    exact hm
  · intro f hf
    obtain ⟨g, hg, hgf⟩ := hvis f hf
    obtain ⟨y, hy, hyg⟩ := allFeatures_cover hg
    have := (featureEq_iff _ _).mp (featureEq_trans hyg hgf)
    exact ⟨y, hy, this.1, this.2.2.1, this.2.2.2, this.2.1⟩

theorem load_declares_exact_aux (d0 : Descriptor) (ts : TypeSystem) (h : load Gen.consts d0 = .ok ts)
    (t : TDesc) (ht : t ∈ effective d0) (hu : Gen.consts.predefined.contains t.name = false)
    (r : TypeRec) (hr : find? ts t.name = some r)
    (hfresh : ∀ f ∈ t.feats, ∀ g ∈ r.inh, g.name ≠ storedName f.name)
    (hnd : (t.feats.map (fun f => storedName f.name)).Nodup) :
    r.own.map renderFeat = t.feats.map emitted := by
  obtain ⟨r', hr', _, _, sel, hown, _, _, hex⟩ := load_declares_core d0 ts h t ht hu
  rw [hr] at hr'; cases hr'
  have hsel := hex (fun f hf => ⟨by simp [fnames], fun hm => by
    obtain ⟨g, hg, hgn⟩ := mem_fnames.mp hm
    exact hfresh f hf g hg hgn⟩) hnd
  have : r.own = sel := by simpa using hown
  rw [this, hsel, List.map_map]
  exact List.map_congr_left (fun fd _ => renderFeat_mkFeat t.name fd)

theorem load_only_declared_aux (d0 : Descriptor) (ts : TypeSystem) (h : load Gen.consts d0 = .ok ts)
    (r : TypeRec) (hr : r ∈ ts.types) (hu : Gen.consts.predefined.contains r.name = false) :
    ∃ t ∈ effective d0, t.name = r.name := by
  obtain ⟨redecl, order, ts1, created, ts2, _, _, _, S, hts, _, hsk2, _, _⟩ := load_main d0 ts h
  have hr2 : r ∈ ts2.types := by rw [hts] at hr; exact hr
  have h2 : hasExact ts2 r.name = true := (hasExact_iff_mem ts2 r.name).mpr (List.mem_map.mpr ⟨r, hr2, rfl⟩)
  rw [hasExact_transfer hsk2] at h2
  obtain ⟨t1, ht1⟩ := (hasExact_iff_find ts1 r.name).mp h2
  rcases S.back r.name t1 ht1 with hm | ⟨t0, ht0⟩
  · obtain ⟨t, htd⟩ := S.decl r.name hm
    exact ⟨t, (dfind_some htd).1, (dfind_some htd).2⟩
  · have := base_all_predef t0 (find?_mem ht0)
    rw [find?_name ht0, hu] at this
    cases this

theorem load_ok_predefined_match_aux (d0 : Descriptor) (ts : TypeSystem) (h : load Gen.consts d0 = .ok ts)
    (t : TDesc) (ht : t ∈ effective d0) (hp : Gen.consts.predefined.contains t.name = true) :
    t.name ∈ ts.redeclared ∧
    ∃ pt : TypeRec, find? Gen.builtinTSNoDoc t.name = some pt ∧ pt.super = some t.super ∧
      (t.feats.map (fun f => featKey f.name f.descr f.range f.elem)).Perm
        (pt.own.map (fun f => featKey f.name f.descr f.range f.elem)) := by
  obtain ⟨redecl, order, ts1, created, ts2, _, hchk, _, _, hts, _⟩ := load_main d0 ts h
  obtain ⟨h1, h2⟩ := checkPredefined_spec Gen.consts Gen.builtinTSNoDoc (effective d0) redecl hchk t ht hp
  refine ⟨?_, h2⟩
  rw [hts]
  exact List.mem_append_right _ h1

/-! ### the writer -/

theorem insertByName_perm (t : TypeRec) (l : List TypeRec) : (Json.insertByName t l).Perm (t :: l) := by
  induction l with
  | nil => exact List.Perm.refl _
  | cons u us ih =>
    unfold Json.insertByName
    split
    · exact List.Perm.refl _
    · exact (List.Perm.cons u ih).trans (List.Perm.swap t u us)

theorem sortByName_perm (l : List TypeRec) : (Json.sortByName l).Perm l := by
  induction l with
  | nil => exact List.Perm.refl _
  | cons t l ih =>
    show (Json.insertByName t (Json.sortByName l)).Perm (t :: l)
    exact (insertByName_perm t _).trans (List.Perm.cons t ih)

theorem insertByName_sorted (t : TypeRec) (l : List TypeRec)
    (h : l.Pairwise (fun a b => a.name ≤ b.name)) :
    (Json.insertByName t l).Pairwise (fun a b => a.name ≤ b.name) := by
  induction l with
  | nil => exact List.pairwise_singleton _ _
  | cons u us ih =>
    unfold Json.insertByName
    have hq := List.pairwise_cons.mp h
    split
    · rename_i hle
      refine List.pairwise_cons.mpr ⟨?_, h⟩
      intro r hr
      rcases List.mem_cons.mp hr with rfl | hr
      · exact hle
      · exact String.le_trans hle (hq.1 r hr)
    · rename_i hle
      refine List.pairwise_cons.mpr ⟨?_, ih hq.2⟩
      intro r hr
      have hr' := (insertByName_perm t us).mem_iff.mp hr
      rcases List.mem_cons.mp hr' with rfl | hr'
      · rcases String.le_total r.name u.name with h1 | h1
        · exact absurd h1 hle
        · exact h1
      · exact hq.1 r hr'

theorem sortByName_sorted (l : List TypeRec) : (Json.sortByName l).Pairwise (fun a b => a.name ≤ b.name) := by
  induction l with
  | nil => exact List.Pairwise.nil
  | cons t l ih => exact insertByName_sorted t _ ih

theorem mapM_render_names (ts : TypeSystem) : ∀ (l : List String) (pre : Descriptor),
    (∀ n ∈ l, hasExact ts n = true) →
    l.mapM (fun n => do let t ← getType ts n; pure (renderType t)) = Except.ok pre →
    pre.map (·.name) = l := by
  intro l
  induction l with
  | nil =>
    intro pre _ h
    simp only [List.mapM_nil, pure, Except.pure] at h
    cases h
    rfl
  | cons n l ih =>
    intro pre hreg h
    obtain ⟨t, ht⟩ := (hasExact_iff_find ts n).mp (hreg n List.mem_cons_self)
    have g : getType ts n = .ok t := by simp [getType, ht]
    simp only [List.mapM_cons, bind, Except.bind, g, pure, Except.pure] at h
    split at h
    · cases h
    · rename_i rest hrest
      cases h
      rw [List.map_cons, ih rest (fun m hm => hreg m (List.mem_cons_of_mem _ hm)) hrest]
      show t.name :: l = n :: l
      rw [find?_name ht]

/-- `toDescriptor_user_sorted` of `Properties/C12.lean` under the additional hypothesis that the remembered
    redeclared names are registered (without it the statement is false: `getType` resolves a dot-less
    name by short name, e.g. `redeclared := ["TOP"]` emits an entry named `uima.cas.TOP`) -/
theorem toDescriptor_user_sorted_of_reg_aux (ts : TypeSystem) (d : Descriptor)
    (hreg : ∀ n ∈ ts.redeclared, hasExact ts n = true)
    (h : toDescriptor Gen.consts ts = .ok d) :
    ∃ pre user : Descriptor, d = pre ++ user ∧
      pre.map (·.name) = sortStrs ts.redeclared.eraseDups ∧
      user.Pairwise (fun a b => a.name ≤ b.name) ∧
      (∀ u ∈ user, Gen.consts.predefined.contains u.name = false ∧ u.name ≠ DOCUMENT_ANNOTATION) ∧
      (∀ r ∈ ts.types, Gen.consts.predefined.contains r.name = false → r.name ≠ DOCUMENT_ANNOTATION →
        renderType r ∈ user) := by
  unfold toDescriptor at h
  simp only [bind, Except.bind, pure, Except.pure] at h
  split at h
  · cases h
  · rename_i pre hpre
    cases h
    have hmemS : ∀ (l : List String) (x : String), x ∈ sortStrs l ↔ x ∈ l := by
      intro l
      have hins : ∀ (a : String) (m : List String) (x : String), x ∈ insertStr a m ↔ x = a ∨ x ∈ m := by
        intro a m
        induction m with
        | nil => intro x; simp [insertStr]
        | cons b m ihm =>
          intro x
          unfold insertStr
          split
          · simp
          · simp only [List.mem_cons, ihm]
            constructor
            · rintro (h1 | h1 | h1)
              · exact Or.inr (Or.inl h1)
              · exact Or.inl h1
              · exact Or.inr (Or.inr h1)
            · rintro (h1 | h1 | h1)
              · exact Or.inr (Or.inl h1)
              · exact Or.inl h1
              · exact Or.inr (Or.inr h1)
      induction l with
      | nil => intro x; simp [sortStrs]
      | cons a l ihl =>
        intro x
        show x ∈ insertStr a (sortStrs l) ↔ x ∈ a :: l
        rw [hins, ihl, List.mem_cons]
    refine ⟨pre, _, rfl, ?_, ?_, ?_, ?_⟩
    · apply mapM_render_names ts _ pre _ hpre
      intro n hn
      rw [hmemS, List.mem_eraseDups] at hn
      exact hreg n hn
    · apply List.Pairwise.map renderType (R := fun a b => a.name ≤ b.name)
      · intro a b hab; exact hab
      · exact (sortByName_sorted _).filter _
    · intro u hu
      obtain ⟨r, hr, rfl⟩ := List.mem_map.mp hu
      obtain ⟨hr1, hr2⟩ := List.mem_filter.mp hr
      have hr3 := (sortByName_perm _).mem_iff.mp hr1
      unfold getTypes at hr3
      simp only [Bool.false_eq_true, if_false, List.mem_filter] at hr3
      refine ⟨?_, ?_⟩
      · show Gen.consts.predefined.contains r.name = false
        cases hc : Gen.consts.predefined.contains r.name with
        | false => rfl
        | true => have := hr3.2; rw [hc] at this; cases this
      show r.name ≠ DOCUMENT_ANNOTATION
      simpa using hr2
    · intro r hr hp hne
      refine List.mem_map.mpr ⟨r, List.mem_filter.mpr ⟨(sortByName_perm _).mem_iff.mpr ?_, by simpa using hne⟩, rfl⟩
      unfold getTypes
      simp only [Bool.false_eq_true, if_false, List.mem_filter]
      exact ⟨hr, by rw [hp]; rfl⟩

theorem checkPredefined_names (K : Consts) (base : TypeSystem) : ∀ (d : Descriptor) (redecl : List String),
    checkPredefined K base d = .ok redecl → ∀ n ∈ redecl, hasExact base n = true := by
  intro d
  induction d with
  | nil =>
    intro redecl h n hn
    unfold checkPredefined at h
    cases h
    cases hn
  | cons u us ih =>
    intro redecl h n hn
    unfold checkPredefined at h
    split at h
    · split at h
      · cases h
      · rename_i pt hpt
        split at h
        · cases h
        · simp only [] at h
          split at h
          · cases h
          · split at h
            · cases h
            · rename_i r hr
              cases h
              rcases List.mem_cons.mp hn with rfl | hn'
              · exact (hasExact_iff_find base _).mpr ⟨pt, hpt⟩
              · exact ih r hr n hn'
    · exact ih redecl h n hn

/-- the names a loaded type system remembers as redeclared are registered in it (the hypothesis of
    `toDescriptor_user_sorted_of_reg_aux`) -/
theorem load_redeclared_reg_aux (d0 : Descriptor) (ts : TypeSystem) (h : load Gen.consts d0 = .ok ts) :
    ∀ n ∈ ts.redeclared, hasExact ts n = true := by
  obtain ⟨redecl, order, ts1, created, ts2, _, hchk, _, S, hts, _, hsk2, _, hcreated⟩ := load_main d0 ts h
  have hreg1 : ∀ n, hasExact ts1 n = true → hasExact ts n = true := by
    intro n hn
    rw [hts]
    exact hasExact_of_skel (ts := ts1) hsk2 hn
  intro n hn
  rw [hts] at hn
  simp only [] at hn
  rcases List.mem_append.mp hn with hn | hn
  · split at hn
    · rename_i hc
      simp only [List.mem_singleton] at hn
      subst hn
      have hmem : DOCUMENT_ANNOTATION ∈ (effective d0).map (·.name) := by
        unfold effective
        simp only [hc, if_true]
        exact List.contains_iff_mem.mp hc
      obtain ⟨t, ht, htn⟩ := List.mem_map.mp hmem
      have hmc : DOCUMENT_ANNOTATION ∈ created :=
        htn ▸ hcreated t ht (by rw [htn]; decide)
      obtain ⟨u, hu⟩ := S.decl _ hmc
      obtain ⟨r, hr, _⟩ := S.made _ hmc u hu
      exact hreg1 _ ((hasExact_iff_find ts1 _).mpr ⟨r, hr⟩)
    · cases hn
  · obtain ⟨t0, ht0⟩ := (hasExact_iff_find _ n).mp (checkPredefined_names _ _ _ _ hchk n hn)
    obtain ⟨t1, ht1, _⟩ := S.keep n t0 ht0
    exact hreg1 _ ((hasExact_iff_find ts1 n).mpr ⟨t1, ht1⟩)

/-! ### evaluating a concrete load (non-vacuity)

The kernel does not unfold the well-founded recursions inside `Array.qsort` and `pushInherited`; the
dependency order is therefore computed by rewriting and the remaining pipeline through the structurally
recursive copies `createFeatureS` of `Proofs/TypeSystem.lean`. -/

open Lean in
macro "unfold_qsort_sort" : tactic => `(tactic| unfold $(mkIdent (QSort.privQ `Array.qsort.sort)):ident)
open Lean in
macro "unfold_qpart_loop" : tactic => `(tactic| unfold $(mkIdent (QSort.privQ `Array.qpartition.loop)):ident)

theorem toposort_go_stepL (depOf : String → List String) (fuel f : Nat) (done rest R L : List String)
    (hf : fuel = f + 1) (hne : rest.isEmpty = false)
    (hready : rest.filter (fun n => (depOf n).all (fun d => d == n || done.contains d || !(rest.contains d))) = R)
    (hRne : R.isEmpty = false) (hq : (R.toArray.qsort (· < ·)).toList = L) :
    Json.toposort.go depOf fuel done rest =
      Json.toposort.go depOf f (done ++ L) (rest.filter (fun n => !(L.contains n))) := by
  subst hf
  conv => lhs; unfold Json.toposort.go
  simp only [hne, Bool.false_eq_true, if_false]
  rw [hready]
  simp only [hRne, Bool.false_eq_true, if_false]
  rw [hq]

def addFeatsS (ts : TypeSystem) (tyName : String) : List FDesc → Except Err TypeSystem
  | [] => .ok ts
  | f :: fs =>
    match createFeatureS ts tyName f.name f.range f.elem f.descr f.multi with
    | .error e => .error e
    | .ok ts1 => addFeatsS ts1 tyName fs

def addAllFeatsS (d : Descriptor) : List String → TypeSystem → Except Err TypeSystem
  | [], ts => .ok ts
  | n :: ns, ts =>
    match d.find? (fun t => t.name == n) with
    | none => addAllFeatsS d ns ts
    | some t =>
      match addFeatsS ts t.name t.feats with
      | .error e => .error e
      | .ok ts1 => addAllFeatsS d ns ts1

theorem addFeats_eq_S (tn : String) : ∀ (fs : List FDesc) (ts : TypeSystem), addFeats ts tn fs = addFeatsS ts tn fs := by
  intro fs
  induction fs with
  | nil => intro ts; rfl
  | cons f fs ih =>
    intro ts
    unfold addFeats addFeatsS
    rw [createFeature_eq_S]
    cases createFeatureS ts tn f.name f.range f.elem f.descr f.multi with
    | error e => rfl
    | ok ts1 => exact ih ts1

theorem addAllFeats_eq_S (d : Descriptor) : ∀ (ns : List String) (ts : TypeSystem),
    addAllFeats d ns ts = addAllFeatsS d ns ts := by
  intro ns
  induction ns with
  | nil => intro ts; rfl
  | cons n ns ih =>
    intro ts
    unfold addAllFeats addAllFeatsS
    cases d.find? (fun t => t.name == n) with
    | none => exact ih ts
    | some t =>
      simp only []
      rw [addFeats_eq_S]
      cases addFeatsS ts t.name t.feats with
      | error e => rfl
      | ok ts1 => exact ih ts1

/-- the loader after the dependency order is known, on the kernel-reducible copies -/
def tailS (K : Consts) (d : Descriptor) (order : List String) : Except Err TypeSystem :=
  match createTypes K d order Gen.builtinTSNoDoc with
  | .error e => .error e
  | .ok (ts1, created) => addAllFeatsS d created ts1

theorem ok_of_toOption {ε α} {x : Except ε α} {a : α} (h : x.toOption = some a) : x = .ok a := by
  cases x with
  | error e => cases h
  | ok b => cases h; rfl

theorem load_isSome_of (K : Consts) (d0 : Descriptor) (redecl order : List String)
    (hres : allResolvable (fun n => K.predefined.contains n || ((effective d0).map (·.name)).contains n)
      (effective d0) = true)
    (hchk : (checkPredefined K Gen.builtinTSNoDoc (effective d0)).toOption = some redecl)
    (hord : creationOrder (effective d0) = .ok order)
    (htail : (tailS K (effective d0) order).toOption.isSome = true) :
    (load K d0).toOption.isSome = true := by
  have hchk' := ok_of_toOption hchk
  unfold tailS at htail
  unfold load
  have he : effective d0 = if ((normalize d0).map (·.name)).contains DOCUMENT_ANNOTATION then normalize d0
      else normalize d0 ++ [{ name := DOCUMENT_ANNOTATION, super := ANNOTATION,
                              feats := [{ name := "language", range := "uima.cas.String" }] }] := rfl
  rw [he] at hres hchk' hord htail
  cases hc : ((normalize d0).map (·.name)).contains DOCUMENT_ANNOTATION
  all_goals
    simp only [hc, if_true, Bool.false_eq_true, if_false] at hres hchk' hord htail ⊢
    simp only [hres, hchk', hord, Bool.not_true, Bool.false_eq_true, if_false]
    split at htail
    · cases htail
    · rename_i ts1 created hct
      simp only [hct]
      rw [addAllFeats_eq_S]
      cases haf : addAllFeatsS _ created ts1 with
      | error e => rw [haf] at htail; cases htail
      | ok ts2 => rfl

theorem qsort_pair_example :
    (["x.A", "uima.tcas.DocumentAnnotation"].toArray.qsort (· < ·)).toList =
      ["uima.tcas.DocumentAnnotation", "x.A"] := by
  simp only [Array.qsort]
  unfold_qsort_sort
  simp [Array.qpartition]
  unfold_qpart_loop
  simp
  unfold_qpart_loop
  simp
  unfold_qsort_sort
  simp
  unfold_qsort_sort
  simp

/-- the non-vacuity instance of `Properties/C12.lean` -/
theorem load_example_aux :
    (load Gen.consts [{ name := "x.B", super := "x.A", feats := [{ name := "self", range := "x.A" }] },
                      { name := "x.A", super := "uima.tcas.Annotation" }]).toOption.isSome = true := by
  have hd : effective [{ name := "x.B", super := "x.A", feats := [{ name := "self", range := "x.A" }] },
                       { name := "x.A", super := "uima.tcas.Annotation" }] =
      [{ name := "x.B", super := "x.A", feats := [{ name := "self", range := "x.A" }] },
       { name := "x.A", super := "uima.tcas.Annotation" },
       { name := "uima.tcas.DocumentAnnotation", super := "uima.tcas.Annotation",
         feats := [{ name := "language", range := "uima.cas.String" }] }] := by
    -- `String.trimAscii` does not reduce in the kernel: the entries carry no padding (`stripT_of_noPad_nodescr`)
    unfold effective normalize
    rw [List.map_cons, List.map_cons, List.map_nil,
      stripT_of_noPad_nodescr (by decide) rfl (by decide), stripT_of_noPad_nodescr (by decide) rfl (by decide)]
    decide +kernel
  apply load_isSome_of Gen.consts _ [] ["uima.tcas.Annotation", "uima.tcas.DocumentAnnotation", "x.A", "x.B"]
  · rw [hd]; decide +kernel
  · rw [hd]; decide +kernel
  · rw [hd]
    unfold creationOrder Json.toposort
    simp only []
    rw [Json.toposort_go_step1 _ _ 4 _ _ "uima.tcas.Annotation" (by decide) (by decide) (by decide)]
    rw [toposort_go_stepL _ _ 3 _ _ ["x.A", "uima.tcas.DocumentAnnotation"]
      ["uima.tcas.DocumentAnnotation", "x.A"] (by decide) (by decide) (by decide) (by decide) qsort_pair_example]
    rw [Json.toposort_go_step1 _ _ 2 _ _ "x.B" (by decide) (by decide) (by decide)]
    rfl
  · rw [hd]; decide +kernel

end Cassis.TsXml
