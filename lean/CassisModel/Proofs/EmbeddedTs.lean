/-
Proof of `Properties/C02EmbeddedTs.lean`: the type system the JSON reader builds from the `%TYPES` section of a FULL
document declares the same as the original.

Structure (parts A–D in `Proofs/EmbeddedTs{A,B,C,D}.lean`):
* A — `toposort` succeeds on the written declarations (the original's registry order is a rank);
* B — what a history leaves behind besides `Hist`: ranges / element types of own features are registered, reserved
  names have the shape `create_feature` gives them, DocumentAnnotation keeps its own features (`Hist2`);
* C — the first pass (types, supertypes first) as a simulation inside the original (`EInv`, reusing `Sub` /
  `createType_step` of C13);
* D — the second pass (features): a writable declaration is decoded to a `create_feature` call that re-creates the
  feature up to `Feature.__eq__`, and succeeds (`addFeature_sub`).
Here: the embedded type system is `SameTs` to the original (`same_of` of C13), it is itself the result of a history
in the sense of `Hist`, so merging it into a fresh type system reproduces it (`merge_same_of` of C13); `SameTs` is
transitive.
-/
import CassisModel.Proofs.EmbeddedTsD

namespace Cassis.Json
open Cassis.TS

theorem sameDecl_trans {a b c : TypeRec} (h1 : SameDecl a b) (h2 : SameDecl b c) : SameDecl a c := by
  obtain ⟨n1, s1, d1, c1, f1⟩ := h1
  obtain ⟨n2, s2, d2, c2, f2⟩ := h2
  exact ⟨n2.trans n1, s2.trans s1, d2.trans d1, c2.trans c1, f2.trans f1⟩

theorem sameTs_trans {a b c : TypeSystem} (h1 : SameTs a b) (h2 : SameTs b c) : SameTs a c := by
  intro n
  have g1 := h1 n
  have g2 := h2 n
  cases ha : find? a n with
  | none =>
    cases hb : find? b n with
    | none =>
      cases hc : find? c n with
      | none => trivial
      | some tc => rw [hb, hc] at g2; exact g2
    | some tb => rw [ha, hb] at g1; exact absurd g1 (by simp)
  | some ta =>
    cases hb : find? b n with
    | none => rw [ha, hb] at g1; exact absurd g1 (by simp)
    | some tb =>
      cases hc : find? c n with
      | none => rw [hb, hc] at g2; exact absurd g2 (by simp)
      | some tc =>
        rw [ha, hb] at g1
        rw [hb, hc] at g2
        exact sameDecl_trans g1 g2

/-- the embedded type system of a FULL document: it can be built, it is the result of a history, and it declares the
    same as the original -/
theorem loadEmbedded_same {o : TypeSystem} (ho : Hist o) (ho2 : Hist2 o) (hw : Writable Gen.consts o)
    (hpc : NoPercentNames o) :
    ∃ emb, loadEmbeddedTs Gen.consts ((fullRecs Gen.consts o).map (renderTypeDecl0 Gen.consts)) = .ok emb ∧
      Hist emb ∧ SameTs o emb := by
  have hrank : ∀ jt ∈ (fullRecs Gen.consts o).map (renderTypeDecl0 Gen.consts), jt.super ≠ jt.name →
      (o.types.map (·.name)).idxOf jt.super < (o.types.map (·.name)).idxOf jt.name := by
    intro jt hjt _
    obtain ⟨t, s, hto, _, _, hts, hjs, _, _⟩ := types_facts ho hw jt hjt
    have := rank_lt ho.cons (find?_mem hto) hts
    rw [find?_name hto, ← hjs] at this
    exact this
  obtain ⟨order, htop, hpw, hmem, hsrc⟩ := toposort_total _ (fun n => (o.types.map (·.name)).idxOf n) hrank
  have hi0 : EInv o Gen.builtinTS :=
    ⟨consistent_builtins_aux.1, featInv_builtins_aux.1, (init_inv ho).sub, Grow.refl _ _⟩
  obtain ⟨ts1, hfold1, hi1, hreg1⟩ := typesPass ho hw order Gen.builtinTS hi0 hpw hsrc
    (fun t ht => ⟨fun hn => absurd (hmem t ht).1 hn, fun hn => absurd (hmem t ht).2 hn⟩)
  have hdocreg : hasExact Gen.builtinTS DOCUMENT_ANNOTATION = true := by decide +kernel
  have hregle : RegLe o ts1 := by
    intro x hx
    obtain ⟨t, ht⟩ := (hasExact_iff_find _ _).mp hx
    cases hp : Gen.consts.predefined.contains x with
    | true => exact hi1.grow.reg x (builtin_pre x hp)
    | false =>
      by_cases hd : x = DOCUMENT_ANNOTATION
      · rw [hd]; exact hi1.grow.reg _ hdocreg
      · have hm : t ∈ fullRecs Gen.consts o :=
          (mem_fullRecs _ _ _).mpr ⟨find?_mem ht, by rw [find?_name ht]; exact hp, by rw [find?_name ht]; exact hd⟩
        have := hreg1 (renderTypeDecl0 Gen.consts t) (List.mem_map.mpr ⟨t, hm, rfl⟩)
        rw [← find?_name ht]
        exact this
  obtain ⟨emb, hfold2, hi2, _, hcov⟩ := featsOuter ho ho2 hw (fullRecs Gen.consts o) ts1 (fun _ h => h) hi1 hregle
  have hnofinal : NoFinal emb := by
    intro t' ht' hp
    obtain ⟨to, hto, hr⟩ := hi2.sub t'.name t' (find?_of_mem hi2.cons.nodup ht')
    obtain ⟨s, hs, hnf⟩ := ho.nofinal to (find?_mem hto) (by rw [find?_name hto]; exact hp)
    exact ⟨s, by rw [← hr.super]; exact hs, hnf⟩
  refine ⟨emb, ?_, ⟨hi2.cons, hi2.feat, hi2.grow, hnofinal⟩, ?_⟩
  · rw [loadEmbeddedTs_eq _ _ (types_no_dockey hw)
      (renderTypeDecl0_noPct _ _ (fun t ht => hpc t ((mem_fullRecs _ _ _).mp ht).1))]
    simp only [bind, Except.bind, htop, hfold1]
    exact hfold2
  · apply same_of o emb ho hi2.cons hi2.feat hi2.sub hi2.grow
    intro t ht hp
    by_cases hd : t.name = DOCUMENT_ANNOTATION
    · obtain ⟨tb, htb⟩ := (hasExact_iff_find _ _).mp hdocreg
      obtain ⟨t', ht', _, _, hown, _, _⟩ := hi2.grow _ tb htb
      rw [hd]
      refine ⟨t', ht', ?_⟩
      intro f hf
      have h1 : t.own = docOwn := ho2.doc t (by rw [← hd]; exact find?_of_mem ho.cons.nodup ht)
      have h2 : tb.own = docOwn := hist2_builtin.doc tb htb
      refine ⟨f, List.mem_append_left _ (hown f ?_), featureEq_refl f⟩
      rw [h2, ← h1]; exact hf
    · exact hcov t ((mem_fullRecs _ _ _).mpr ⟨ht, hp, hd⟩)

/-- **the embedded FULL type system reproduces the original**, for writable type systems without feature names that
    start with `%` (such a feature is lost, replaces the supertype / the description, or makes the writer raise) -/
theorem json_full_ts_same_aux (ops : List TsOp)
    (h : UserOnly Gen.consts ops ∧ ∀ op ∈ ops, match op with
      | .createFeature dom _ _ _ _ _ => dom ≠ DOCUMENT_ANNOTATION
      | .createType _ _ _ => True)
    (hw : Writable Gen.consts (ops.foldl (applyOp Gen.consts) Gen.builtinTS))
    (hpc : NoPercentNames (ops.foldl (applyOp Gen.consts) Gen.builtinTS))
    (cass : List Cas) (ci : Nat) (hp : Heap) (doc : JDoc) (st : Traverse.St)
    (hsave : saveJson Gen.consts (ops.foldl (applyOp Gen.consts) Gen.builtinTS) cass ci hp .full = .ok (doc, st)) :
    ∃ ts', loadTs Gen.consts Gen.builtinTS true doc = .ok ts' ∧
      SameTs (ops.foldl (applyOp Gen.consts) Gen.builtinTS) ts' := by
  have ho := hist_history ops _ hist_builtin h.1
  have ho2 := hist2_history ops _ hist_builtin hist2_builtin h.1 h.2
  obtain ⟨decls, hdecls, htypes⟩ := saveJson_full_types _ _ _ _ _ _ _ hsave
  -- no feature is named `%NAME`: the writer does not raise, and it writes the plain declarations
  rw [renderTypeDecls_noPct _ _ (fun t ht => hpc t ((mem_fullRecs _ _ _).mp ht).1)] at hdecls
  cases hdecls
  obtain ⟨emb, hload, hemb, hsame⟩ := loadEmbedded_same ho ho2 hw hpc
  obtain ⟨m, hm, hsame2⟩ := merge_same_of emb hemb [Gen.builtinTS, emb] (by simp) (by simp)
  refine ⟨m, ?_, sameTs_trans hsame hsame2⟩
  unfold loadTs
  simp only [htypes, hload, if_true]
  exact hm

end Cassis.Json
