/-
Instances for `Properties/C13FeatInv.lean`: a merge that re-parents a type with subtypes, whose members own features,
inherit features of the old supertype chain, and repeat (identically) a feature of the new supertype; and one in which
a member of the subtree clashes with a feature of the new supertype.
-/
import CassisModel.Proofs.MergeFeatInv
import CassisModel.Proofs.MergePermDemo

namespace Cassis.TS

/-- `x.X` (children `x.Y`, `x.Z`; grandchild `x.W`) is declared below `uima.tcas.Annotation` and below `x.M2`
    (`x.M2 < x.M1 < uima.tcas.Annotation`); `x.Y` repeats `m2` of `x.M2`, `x.W` repeats `m1` of `x.M1` -/
def demoSub : List Decl := [
  { name := "x.M1", super := ANNOTATION, own := [demoFeat "m1" "uima.cas.Integer", demoFeat "c" "uima.cas.Integer"] },
  { name := "x.M2", super := "x.M1", own := [demoFeat "m2" "uima.cas.Integer"] },
  { name := "x.X", super := ANNOTATION, own := [demoFeat "x" "uima.cas.Integer"] },
  { name := "x.Y", super := "x.X", own := [demoFeat "y" "uima.cas.Integer", demoFeat "m2" "uima.cas.Integer"] },
  { name := "x.Z", super := "x.X", own := [demoFeat "z" "uima.cas.Integer"] },
  { name := "x.W", super := "x.Y", own := [demoFeat "w" "uima.cas.Integer", demoFeat "m1" "uima.cas.Integer"] },
  { name := "x.X", super := "x.M2", own := [demoFeat "x2" "uima.cas.Integer"] } ]

/-- … the same with `x.W` defining `c` (a feature of `x.M1`) differently -/
def demoSubClash : List Decl :=
  demoSub ++ [{ name := "x.W", super := "x.Y", own := [demoFeat "c" "uima.cas.String"] }]

/-- the merge succeeds, `x.X` ends below `x.M2` with its children, and the grandchild `x.W` has inherited the features
    of the new supertype chain -/
theorem demoSub_result :
    ((mergeDecls Gen.consts Gen.builtinTS demoSub).toOption.bind (fun ts => find? ts "x.X")).map
        (fun t => (t.super, t.children)) = some (some "x.M2", ["x.Y", "x.Z"]) ∧
    ((mergeDecls Gen.consts Gen.builtinTS demoSub).toOption.bind (fun ts => find? ts "x.W")).map
        (fun t => (fnames t.own, fnames t.inh)) =
      some (["w", "m1"], ["y", "m2", "x", "begin", "end", "sofa", "m1", "c", "x2"]) := by
  rw [mergeDecls_eq_S]; decide +kernel

theorem demoSub_reverse_ok : (mergeDecls Gen.consts Gen.builtinTS demoSub.reverse).toOption.isSome = true := by
  rw [mergeDecls_eq_S]; decide +kernel

theorem demoSubClash_fails : (mergeDecls Gen.consts Gen.builtinTS demoSubClash).toOption.isSome = false ∧
    (mergeDecls Gen.consts Gen.builtinTS demoSubClash.reverse).toOption.isSome = false := by
  rw [mergeDecls_eq_S, mergeDecls_eq_S]; decide +kernel

theorem demoSub_featInv_aux : ∃ ts, mergeDecls Gen.consts Gen.builtinTS demoSub = .ok ts ∧ FeatInv ts ∧
    (∃ t, find? ts "x.X" = some t ∧ t.super = some "x.M2" ∧ t.children = ["x.Y", "x.Z"]) := by
  have e := demoSub_result.1
  cases h : mergeDecls Gen.consts Gen.builtinTS demoSub with
  | error e' => rw [h] at e; cases e
  | ok ts =>
    refine ⟨ts, rfl, merge_featInv_aux Gen.consts Gen.builtinTS ts demoSub consistent_builtins_aux.1 featInv_builtins_aux.1 h, ?_⟩
    rw [h] at e
    simp only [Except.toOption, Option.bind_some] at e
    cases hx : find? ts "x.X" with
    | none => rw [hx] at e; cases e
    | some t =>
      rw [hx] at e
      simp only [Option.map_some, Option.some.injEq, Prod.mk.injEq] at e
      exact ⟨t, rfl, e.1, e.2⟩

end Cassis.TS
