/-
C16 with collections, the converse chain, part D: every structure the XMI writer would collect from the CAS written first
(`stx`: the traversal without the inlined collection objects, on the heap after the JSON writer's id assignment) is one
of the structures the JSON writer collected, and its counterpart is collected by the XMI writer from the loaded CAS.
-/
import CassisModel.Proofs.ChainCollJxC

namespace Cassis.ChainC
open Cassis.TS Cassis.Traverse Cassis.Xmi Cassis.Lex Cassis.Json Cassis.Json.CC

theorem JLd.complete {K : Consts} {ts : TypeSystem} {c : Cas} {ci : Nat} {H : Heap} {L : List (Int × Nat)} {ci' : Nat}
    {ld : Json.Loaded} (x : JLd K ts c ci H L ci' ld) {nx : Int} (hnx : 0 < nx) {stx : St}
    (hxfa : findAllFs K ts {} H nx (defaultSeeds c) = .ok stx)
    (hnx2 : 0 < ld.cas.nextXid) {st2 : St}
    (hfa2 : findAllFs K ts {} ld.heap ld.cas.nextXid (defaultSeeds ld.cas) = .ok st2) (hheap2 : st2.heap = ld.heap)
    (hL2 : LOkC K ts ld.cas ci' ld.heap (sortById st2.allFs)) :
    ∀ q ∈ stx.allFs, q ∈ L ∧ (q.1, naOf H L q.1) ∈ sortById st2.allFs := by
  have shx : SameShape H stx.heap := (findAllFs_inv K ts {} H nx _ stx hxfa).1.shape
  -- a counterpart that is collected is collected under the id of the written structure
  have hid : ∀ q ∈ L, ∀ y : Int, (y, naOf H L q.1) ∈ sortById st2.allFs → (q.1, naOf H L q.1) ∈ sortById st2.allFs := by
    intro q hq y hy
    have h1 := (hL2.ids _ hy).1
    rw [show ((y, naOf H L q.1) : Int × Nat).2 = naOf H L q.1 from rfl, xid_new x.rel hq] at h1
    have e : q.1 = y := Option.some.inj h1
    rw [← e] at hy
    exact hy
  have key : ∀ a, Reach K ts {} stx.heap (H.length + 1) (defaultSeeds c) a →
      ∃ y : Int, (y, a) ∈ L ∧ (y, naOf H L y) ∈ sortById st2.allFs := by
    intro a hr
    induction hr with
    | seed a hs =>
      obtain ⟨nv, hnv, ha⟩ := List.mem_flatMap.mp (show a ∈ defaultSeeds c from hs)
      obtain ⟨e, he, rfl⟩ := List.mem_map.mp ha
      obtain ⟨y, hy⟩ := x.lok.members nv hnv e he
      have hseed := x.seed_bwd hy hs
      have hnz : xidOf st2.heap (naOf H L y) ≠ some 0 := by
        rw [hheap2, xid_new x.rel hy]
        intro e'
        exact (x.lok.ids _ hy).2 (Option.some.inj e')
      have hbm := findAllFs_complete_aux K ts {} ld.heap _ _ st2 hnx2 hfa2 (naOf H L y) (.seed _ hseed) hnz
      obtain ⟨p, hp1, hp2⟩ := List.mem_map.mp hbm
      obtain ⟨y', b'⟩ := p
      simp only at hp2
      subst hp2
      exact ⟨y, hy, hid _ hy y' (mem_sortById.mpr hp1)⟩
    | step a b _ _ hsucc ih =>
      obtain ⟨ya, hq, ihq⟩ := ih
      rw [succsOf_shape K ts {} shx] at hsucc
      obtain ⟨o, o', ho, ho', _, _, _, hslots⟩ := x.obj hq
      have slotq : ∀ n v, alistGet? o.slots n = some v → Xmi.slot H a n = some v := by
        intro n v hv
        unfold Xmi.slot Traverse.slot
        rw [show H[((ya, a) : Int × Nat).2]? = H[a]? from rfl] at ho
        rw [ho]
        exact hv
      -- once `b` is known to be collected with a `Target` path in the loaded heap
      have fin : ∀ q' ∈ L, q'.2 = b → Target K ts ld.heap (naOf H L ya) (naOf H L q'.1) →
          ∃ y : Int, (y, b) ∈ L ∧ (y, naOf H L y) ∈ sortById st2.allFs := by
        intro q' hq' hb htar
        obtain ⟨y', _, hy'⟩ := hL2.closed _ ihq _ htar
        refine ⟨q'.1, by rw [← hb]; exact hq', hid q' hq' y' hy'⟩
      have hcollN := x.coll_new hq
      rcases x.collx _ hq with hg | hA
      · obtain ⟨o1, t, ps, n, ho1, ht, hnode, _⟩ := CT.nodeSuccs_gen hg
        rw [ho] at ho1; cases ho1
        have hbps : b ∈ ps := by
          rw [succsOf_eq K ts {} ho (Cassis.Xmi.getType_of_find ht) hnode] at hsucc
          exact hsucc
        obtain ⟨o1, t1, ho1, ht1, _, _, _, hsup, _, _, _, _, _, hnd, _, hfeat, _⟩ := hg
        rw [ho] at ho1; cases ho1
        rw [ht] at ht1; cases ht1
        have hfs : featuresSuccs K ts {} H [] (H.length + 1) a (allFeatures t) = .ok (ps, n) := by
          unfold nodeSuccs at hnode
          have : (t.super == some ARRAY_BASE) = false := by
            cases hh : (t.super == some ARRAY_BASE)
            · rfl
            · exact absurd (eq_of_beq hh) hsup
          rw [this] at hnode
          exact hnode
        obtain ⟨f, hf, hsrc⟩ := featuresSuccs0_sub ho _ _ _ hfs b hbps
        have ht' : find? ts o'.ty = some t := by rw [‹o'.ty = o.ty›]; exact ht
        rcases hsrc with ⟨hni, hv⟩ | ⟨hi, hr, cc, l, hv, hel, hbl⟩ | ⟨hi, hr, cc, ps', n', hv, hw, hbp⟩
        · obtain ⟨q', hq', hb, hy⟩ := x.slot_ref hq (slotq _ _ hv)
          refine fin q' hq' hb ⟨o', t, ho', ht', .inl ⟨f, hf, hni, ?_⟩⟩
          rw [hslots _ _ hv, exp3J_ref hy]
        · obtain ⟨qc, hqc, hcb, hyc⟩ := x.slot_ref hq (slotq _ _ hv)
          obtain ⟨oc, hoc, helc⟩ : ∃ oc, H[qc.2]? = some oc ∧ alistGet? oc.slots "elements" = some (.refs l) := by
            rw [← hcb] at hel
            unfold Xmi.slot Traverse.slot at hel
            cases hoc : H[qc.2]? with
            | none => rw [hoc] at hel; cases hel
            | some oc => rw [hoc] at hel; exact ⟨oc, rfl, hel⟩
          obtain ⟨yb, hyb, hybl⟩ := x.lok.closedE qc hqc oc hoc l helc b hbl
          refine fin (yb, b) hybl rfl ⟨o', t, ho', ht', .inr (.inl ⟨f, hf, hi, hr, naOf H L qc.1,
            l.map (fun r => r.bind (fun b => (xidOf H b).map (naOf H L))), ?_, ?_, ?_⟩)⟩
          · rw [hslots _ _ hv, exp3J_ref hyc]
          · rw [slot_new x.rel hqc "elements", hcb, hel]
            rfl
          · simp only [List.mem_map]
            exact ⟨some b, hbl, by simp only [Option.bind_some, hyb, Option.map_some]⟩
        · obtain ⟨qc, hqc, hcb, hyc⟩ := x.slot_ref hq (slotq _ _ hv)
          obtain ⟨_, _, hcol⟩ := collFeat_fslist (hfeat f hf) hi hr
          obtain ⟨hs, hcs⟩ := hcol cc hv
          have hbh : Val.ref b ∈ hs := walk_sub_collect H _ _ ps' n' hs hw hcs b hbp
          have hcs' : collectList H (H.length + 1) (.ref qc.2) = .ok hs := by rw [hcb]; exact hcs
          obtain ⟨qb, hqb, hbb, hyb⟩ := x.collect_heads _ qc hs hqc hcs' b hbh
          refine fin qb hqb hbb ⟨o', t, ho', ht', .inr (.inr (.inl ⟨f, hf, hi, hr, naOf H L qc.1,
            hs.map (exp3J H (naOf H L) ci'), ?_, ?_, ?_⟩))⟩
          · rw [hslots _ _ hv, exp3J_ref hyc]
          · exact collectList_mono ld.heap _ _ _ _ (x.collect_new _ qc hs hqc hcs')
              (by have := len_lt x.rel hqc; omega)
          · exact List.mem_map.mpr ⟨.ref b, hbh, exp3J_ref hyb⟩
      · obtain ⟨o1, t, f, ev, ho1, ht, htn, hsup, _, _, _, _, hsl, _, _⟩ := hA
        rw [ho] at ho1; cases ho1
        have hel : alistGet? o.slots "elements" = some ev := by rw [hsl]; simp [alistGet?]
        have hslot : Traverse.slot H a "elements" = some ev := slotq _ _ hel
        have h1 : (t.super == some ARRAY_BASE) = true := by rw [hsup]; exact beq_self_eq_true _
        have hpush : t.name = FS_ARRAY ∧ ∃ l, ev = .refs l ∧ some b ∈ l := by
          unfold succsOf at hsucc
          rw [ho] at hsucc
          simp only [Cassis.Xmi.getType_of_find ht] at hsucc
          unfold nodeSuccs at hsucc
          rw [h1] at hsucc
          simp only [if_true] at hsucc
          by_cases hfa' : (t.name == FS_ARRAY) = true
          · rw [if_pos hfa', hslot] at hsucc
            cases ev with
            | refs l => exact ⟨eq_of_beq hfa', l, rfl, mem_refsToPush_nil' hsucc⟩
            | _ => cases hsucc
          · rw [if_neg hfa'] at hsucc
            cases hsucc
        obtain ⟨hfa, l, rfl, hbl⟩ := hpush
        obtain ⟨yb, hyb, hybl⟩ := x.lok.closedE _ hq o ho l hel b hbl
        have ht' : find? ts o'.ty = some t := by rw [‹o'.ty = o.ty›]; exact ht
        refine fin (yb, b) hybl rfl ⟨o', t, ho', ht', .inr (.inr (.inr ⟨by rw [‹o'.ty = o.ty›, ← htn, hfa],
          l.map (fun r => r.bind (fun b => (xidOf H b).map (naOf H L))),
          (by rw [hslots _ _ hel]; rfl), ?_⟩))⟩
        simp only [List.mem_map]
        exact ⟨some b, hbl, by simp only [Option.bind_some, hyb, Option.map_some]⟩
  intro q hq
  have hreach := findAllFs_sound_aux K ts {} H nx _ stx hnx hxfa q.2 (List.mem_map.mpr ⟨q, hq, rfl⟩)
  obtain ⟨y, hyl, hy2⟩ := key q.2 hreach
  have h1 := (findAllFs_ids_aux K ts {} H nx _ stx hnx hxfa q.1 q.2 hq).1
  rw [shx.xidOf (x.lok.ids _ hyl).1] at h1
  have e : y = q.1 := Option.some.inj h1
  subst e
  exact ⟨hyl, hy2⟩

end Cassis.ChainC
