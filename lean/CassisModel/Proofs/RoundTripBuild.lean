/-
Round trip, layer 3: the third pass of the reader (`buildCas`): views, members, offsets.
-/
import CassisModel.Proofs.RoundTripDefs
import CassisModel.Proofs.Xmi
import CassisModel.Proofs.XmiLoad2
import CassisModel.Proofs.XmiOffsets
import CassisModel.Proofs.XmiIds
import CassisModel.Proofs.Cas
import CassisModel.Proofs.Index

namespace Cassis.Xmi
open Cassis.TS Cassis.Traverse Cassis.Lex

theorem buildCas_flat (K : Consts) (ts : TypeSystem) (cass : List Cas) (ci : Nat) (c : Cas) (hp H : Heap)
    (L : List (Int × Nat)) (na : Int → Nat) (ci' : Nat) (p : Pass1) (hp2 : Heap)
    (hc : cass[ci]? = some c) (hwf : RTWf c hp) (hnull : NullOk ts) (hL : LOk K ts c ci H L)
    (hna : NaOk H.length L na) (hp1 : P1Spec ts cass c H L na p)
    (hmem : ∀ nv ∈ c.views, ∀ e ∈ Index.all nv.2.idx, slot H e.oid "sofa" ≠ some .none)
    (hmok : MembersOk c H)
    (hlen : hp2.length = p.heap.length) (hnull2 : hp2[H.length]? = p.heap[H.length]?)
    (hrel : HeapRel H L na (E2 ts cass H na ci') hp2) :
    ∃ ld : Loaded, buildCas K ts ci' false p hp2 = .ok ld ∧ HeapRel H L na (E3 H na ci') ld.heap ∧
      ld.cas.views.map (viewContent ld.heap) = c.views.map (viewContent H) := by
  sorry

end Cassis.Xmi
