/-
Element-order independence of the XMI reader on the flat fragment (`Properties/C05Perm.lean`): assembly.

Layers (all in the namespace `Cassis.Xmi.LP`):
* `LoadPermDefs`   — the generalised invariants `NaOkP`, `P1SpecP` (tables up to permutation, `cas:NULL` object anywhere)
                     and the lookups derived from them;
* `LoadPermPass1`  — `pass1_perm`: the first pass over ANY permutation of the written document;
* `LoadPermPost`   — `postAll_perm`: the second pass;
* `LoadPermBuildC…F` — the third pass (`CtxP`, `BInvP`; `CtxP.views_all`: the initial view stays first, the other views
                     come in the order of their sofa elements; `CtxP.rehome_ok`, `CtxP.convRef_all`);
* this file        — `buildCas_perm`, `load_perm_core`, `xmi_load_perm_flat_aux`.
-/
import CassisModel.Proofs.LoadPermPass1
import CassisModel.Proofs.LoadPermPost
import CassisModel.Proofs.LoadPermBuildE
import CassisModel.Proofs.LoadPermBuildF
import CassisModel.Proofs.RoundTrip

namespace Cassis.Xmi.LP
open Cassis.TS Cassis.Traverse Cassis.Lex Cassis.Xmi Cassis.Xmi.RTB


/-! ### the content of a loaded view -/

theorem view_contentP {K : Consts} {ts : TypeSystem} {cass : List Cas} {ci : Nat} {c : Cas} {hp H : Heap}
    {L : List (Int × Nat)} {na : Int → Nat} {n0 : Nat} {p : Pass1} (ctx : CtxP K ts cass ci c hp H L na n0 p)
    {E : Obj → String → Val → Val} {hpF : Heap} (hrel : HeapRel H L na E hpF)
    {nv : String × View} (hnv : nv ∈ c.views) {nv' : String × View} (hr : VRel H na nv nv') :
    viewContent hpF nv' = viewContent H nv := by
  obtain ⟨h1, _, h2, h3, h4, h5, _, h6⟩ := hr
  have hx : ∀ m ∈ (pviewOf H nv).members, xidOf hpF (na m) = some m := by
    intro m hm
    obtain ⟨e, _, hq⟩ := ctx.member hnv hm
    obtain ⟨o, o', _, ho', hrel'⟩ := hrel _ hq
    unfold xidOf
    rw [ho']
    exact hrel'.2.1
  have e1 : (Index.all nv'.2.idx).filterMap (fun e => xidOf hpF e.oid) =
      ((Index.all nv'.2.idx).map (·.oid)).filterMap (xidOf hpF) := by
    rw [List.filterMap_map]; rfl
  have e2 := h6.filterMap (xidOf hpF)
  have e3 : ((pviewOf H nv).members.map na).filterMap (xidOf hpF) = (pviewOf H nv).members := by
    rw [List.filterMap_map]
    exact RTB.filterMap_id_of _ _ hx
  rw [e3] at e2
  have e4 : sortInts ((Index.all nv'.2.idx).filterMap (fun e => xidOf hpF e.oid)) =
      sortInts ((Index.all nv.2.idx).filterMap (fun e => xidOf H e.oid)) := by
    rw [e1, RTB.sortInts_perm e2]
    exact RTB.sortInts_idem _
  unfold viewContent
  rw [h1, h2, h3, h4, h5, e4]

/-- pointwise related lists: the mapped lists agree up to the permutation of the left one -/
theorem All2.map_perm {α β γ} {R : α → β → Prop} {f : α → γ} {g : β → γ} {as as0 : List α} {bs : List β}
    (h : All2 R as bs) (hp : as.Perm as0) (hfg : ∀ a ∈ as0, ∀ b, R a b → g b = f a) :
    (bs.map g).Perm (as0.map f) := by
  rw [All2.map_eq h (fun a ha b hr => hfg a (hp.mem_iff.mp ha) b hr)]
  exact hp.map f

/-! ### the third pass -/

theorem buildCas_perm (K : Consts) (ts : TypeSystem) (cass : List Cas) (ci : Nat) (c : Cas) (hp H : Heap)
    (L : List (Int × Nat)) (na : Int → Nat) (n0 ci' : Nat) (p : Pass1) (hp2 : Heap)
    (hc : cass[ci]? = some c) (hwf : RTWf c hp) (hL : LOk K ts c ci H L)
    (hna : NaOkP n0 L na) (hp1 : P1SpecP ts cass c H L na n0 p)
    (hmem : ∀ nv ∈ c.views, ∀ e ∈ Index.all nv.2.idx, slot H e.oid "sofa" ≠ some .none)
    (hmok : MembersOk c H)
    (hnull2 : hp2[n0]? = p.heap[n0]?)
    (hrel : HeapRel H L na (E2 ts cass H na ci') hp2) :
    ∃ (ld : Loaded) (vs : List (String × View)), buildCas K ts ci' false p hp2 = .ok ld ∧
      HeapRel H L na (E3 H na ci') ld.heap ∧ vs.Perm c.views ∧ All2 (VRel H na) vs ld.cas.views ∧
      (ld.cas.views.head?).map (·.1) = some Cas.INITIAL_VIEW ∧
      ld.cas.nextXid = p.maxId + 1 ∧ ld.cas.nextSofaNum = p.maxNum + 1 := by
  have ctx : CtxP K ts cass ci c hp H L na n0 p := ⟨hc, hwf, hL, hna, hp1, hmem, hmok⟩
  obtain ⟨o0, ho0, hty0, hx0, hs0⟩ := hp1.null
  have hb0 : BInvP ts cass H L na ci' n0 o0 { cas := Cas.empty, heap := hp2 } := by
    refine ⟨?_, fun r hr => (by cases hr), fun x hx => (by cases hx), (by rw [hnull2]; exact ho0)⟩
    intro q hq
    obtain ⟨o, o', ho, ho', h1, h2, h3, h4⟩ := hrel q hq
    refine ⟨o, o', ho, ho', h1, h2, h3, fun n v hv => ⟨_, h4 n v hv, ?_⟩⟩
    unfold RTB.SlotOk
    split
    · rename_i hn
      subst hn
      exact Or.inl (RTB.exp2_sofa ..)
    · exact ⟨fun hcv => (by cases hcv), fun _ => rfl⟩
  obtain ⟨b', vs, hbv, hb', hvs, hall, hhead⟩ := ctx.views_all hb0
  obtain ⟨hpR, hR, hinvR, hnullR⟩ :=
    ctx.rehome_ok (ci' := ci') (fun x => x ∈ b'.converted) b'.memberSofas hb'.ms b'.heap hb'.heap hb'.null
  obtain ⟨hpF, hF, hinvF⟩ := ctx.convRef_all (ci' := ci') b'.converted hb'.cv hs0 hpR hinvR hnullR
  have hrel3 : HeapRel H L na (E3 H na ci') hpF := by
    intro q hq
    obtain ⟨o, o', ho, ho', g1, g2, g3, g4⟩ := hinvF q hq
    refine ⟨o, o', ho, ho', g1, g2, g3, fun n v hv => ?_⟩
    obtain ⟨w, hw, hs⟩ := g4 n v hv
    rw [hw]
    unfold RTB.SlotOk at hs
    split at hs
    · rcases hs with hs | ⟨hf, _⟩
      · rw [hs]; rfl
      · exact hf.elim
    · rw [hs.1 trivial]; rfl
  refine ⟨{ cas := { b'.cas with nextXid := p.maxId + 1, nextSofaNum := p.maxNum + 1 }, heap := hpF }, vs, ?_, hrel3,
    hvs, hall, hhead, rfl, rfl⟩
  unfold buildCas
  rw [hbv]
  dsimp only
  rw [hR]
  dsimp only
  rw [hF]

/-! ### the three passes on a permutation of the written document -/

theorem load_perm_core (K : Consts) (ts : TypeSystem) (cass : List Cas) (ci : Nat) (c : Cas) (hp0 hp : Heap)
    (tsIdx ci' : Nat) (doc doc' : XDoc) (st : St)
    (hc : cass[ci]? = some c) (hwf : RTWf c hp0) (hnull : NullOk ts)
    (hsave : saveXmi K ts cass ci hp = .ok (doc, st))
    (hL : LOk K ts c ci st.heap (sortById st.allFs))
    (hmem : ∀ nv ∈ c.views, ∀ e ∈ Index.all nv.2.idx, slot st.heap e.oid "sofa" ≠ some .none)
    (hmok : MembersOk c st.heap) (hperm : doc'.Perm doc) :
    ∃ (na : Int → Nat) (n0 : Nat) (p : Pass1) (ld : Loaded) (vs : List (String × View)),
      pass1 K ts tsIdx false doc' { heap := st.heap } = .ok p ∧
      loadXmi K ts tsIdx ci' false st.heap doc' = .ok ld ∧
      NaOkP n0 (sortById st.allFs) na ∧
      P1SpecP ts cass c st.heap (sortById st.allFs) na n0 p ∧
      HeapRel st.heap (sortById st.allFs) na (E3 st.heap na ci') ld.heap ∧
      vs.Perm c.views ∧ All2 (VRel st.heap na) vs ld.cas.views ∧
      (ld.cas.views.map (viewContent ld.heap)).Perm (c.views.map (viewContent st.heap)) ∧
      (ld.cas.views.head?).map (·.1) = some Cas.INITIAL_VIEW ∧
      ld.cas.nextXid = p.maxId + 1 ∧ ld.cas.nextSofaNum = p.maxNum + 1 := by
  obtain ⟨na, n0, p, hp1, hna, hs1⟩ :=
    pass1_perm K ts cass ci c hp tsIdx doc doc' st hc hwf.sofa_ids_nodup hsave hnull hL hperm
  obtain ⟨hp2, hpost, _, hnull2, hrel2⟩ :=
    postAll_perm K ts cass ci c hp0 st.heap _ na n0 tsIdx ci' p hc hwf hnull hL hna hs1
  obtain ⟨ld, vs, hbuild, hrel3, hvs, hall, hhead, hnx, hns⟩ :=
    buildCas_perm K ts cass ci c hp0 st.heap _ na n0 ci' p hp2 hc hwf hL hna hs1 hmem hmok hnull2 hrel2
  have ctx : CtxP K ts cass ci c hp0 st.heap (sortById st.allFs) na n0 p := ⟨hc, hwf, hL, hna, hs1, hmem, hmok⟩
  have hload : loadXmi K ts tsIdx ci' false st.heap doc' = .ok ld := by
    unfold loadXmi
    simp only [hp1, hpost, bind, Except.bind]
    exact hbuild
  refine ⟨na, n0, p, ld, vs, hp1, hload, hna, hs1, hrel3, hvs, hall, ?_, hhead, hnx, hns⟩
  exact All2.map_perm hall hvs (fun nv hnv nv' hr => view_contentP ctx hrel3 hnv hr)

end Cassis.Xmi.LP

namespace Cassis.Xmi
open Cassis.TS Cassis.Traverse Cassis.Lex Cassis.Xmi.RTB Cassis.Xmi.LP

/-- **element-order independence of the XMI reader on the flat fragment** -/
theorem xmi_load_perm_flat_aux (K : Consts) (ts : TypeSystem) (cass : List Cas) (ci : Nat) (c : Cas) (hp : Heap)
    (tsIdx ci' : Nat) (doc doc' : XDoc) (st : St)
    (hc : cass[ci]? = some c) (hwf : RTWf c hp) (hnull : NullOk ts)
    (hsave : saveXmi K ts cass ci hp = .ok (doc, st))
    (hflat : ∀ q ∈ st.allFs, FlatFs K ts c ci st.heap q.2)
    (_hdis : ∀ q ∈ st.allFs, ∀ nv ∈ c.views, q.1 ≠ nv.2.sofa.xid)
    (hmem : ∀ nv ∈ c.views, ∀ e ∈ Index.all nv.2.idx, slot st.heap e.oid "sofa" ≠ some .none)
    (hmok : MembersOk c st.heap)
    (hperm : doc'.Perm doc) :
    ∃ (p' : Pass1) (ld' : Loaded),
      pass1 K ts tsIdx false doc' { heap := st.heap } = .ok p' ∧
      loadXmi K ts tsIdx ci' false st.heap doc' = .ok ld' ∧
      (p'.fss.map (·.1)).Perm (0 :: (sortById st.allFs).map (·.1)) ∧
      (∀ q ∈ st.allFs, ∃ (a' : Nat) (o o' : Obj), lookupFs p'.fss q.1 = .ok a' ∧
          st.heap[q.2]? = some o ∧ ld'.heap[a']? = some o' ∧ o'.ty = o.ty ∧ o'.xid = some q.1 ∧
          ∀ t : TypeRec, find? ts o.ty = some t → ∀ f ∈ allFeatures t,
            featContent ld'.heap a' f.name = featContent st.heap q.2 f.name) ∧
      (ld'.cas.views.map (viewContent ld'.heap)).Perm (c.views.map (viewContent st.heap)) ∧
      (ld'.cas.views.head?).map (·.1) = some Cas.INITIAL_VIEW ∧
      (∀ q ∈ st.allFs, q.1 < ld'.cas.nextXid) ∧
      (∀ nv ∈ c.views, nv.2.sofa.xid < ld'.cas.nextXid ∧ nv.2.sofa.sofaNum < ld'.cas.nextSofaNum) := by
  have hL := lok_of_save hc hwf hsave hflat
  obtain ⟨na, n0, p, ld, vs, hp1, hload, hna, hs1, hrel3, _, _, hviews, hhead, _, _⟩ :=
    load_perm_core K ts cass ci c hp hp tsIdx ci' doc doc' st hc hwf hnull hsave hL hmem hmok hperm
  have hxid : ∀ q ∈ sortById st.allFs, xidOf ld.heap (na q.1) = some q.1 := by
    intro q hq
    obtain ⟨o, o', _, ho', _, hx, _⟩ := hrel3 q hq
    unfold xidOf; rw [ho']; exact hx
  obtain ⟨p', hp1', hbnd, hnx, hns, hfssb, _, _⟩ := loadXmi_reseeds_aux K ts tsIdx ci' false st.heap doc' ld hload
  rw [hp1] at hp1'; cases hp1'
  refine ⟨p, ld, hp1, hload, ?_, ?_, hviews, hhead, ?_, ?_⟩
  · have := hs1.fss.map (·.1)
    rw [List.map_cons, List.map_map] at this
    exact this
  · intro q hq0
    have hq := mem_sortById.mpr hq0
    obtain ⟨o, o', ho, ho', hty, hx, _, hslots⟩ := hrel3 q hq
    refine ⟨na q.1, o, o', hs1.lookup hL hq, ho, ho', hty, hx, ?_⟩
    intro t ht f hf
    obtain ⟨o2, t2, ho2, ht2, _, _, _, _, _, _, _, _, _, _, _, hfeat, _⟩ := hL.flat q hq
    rw [ho] at ho2; cases ho2
    rw [ht] at ht2; cases ht2
    have hff := hfeat f hf
    obtain ⟨_, _, _, _, _, _, _, _, _, _, _, v, hv, _⟩ := hfeat f hf
    have h1 : featContent st.heap q.2 f.name = dvalOf st.heap v := by
      unfold featContent slot Traverse.slot
      rw [ho]; simp only [Option.bind_some, hv, Option.getD_some]
    have h2 : featContent ld.heap (na q.1) f.name = dvalOf ld.heap (exp3 st.heap na ci' v) := by
      unfold featContent slot Traverse.slot
      rw [ho']; simp only [Option.bind_some, hslots f.name v hv, Option.getD_some, E3]
    rw [h1, h2]
    apply dval_exp3 hff v hv
    intro b hb
    subst hb
    obtain ⟨x, hxb, hxl⟩ := hL.closed q hq o ho f.name b hv
    exact ⟨x, hxb, hxid (x, b) hxl⟩
  · intro q hq0
    have hq := mem_sortById.mpr hq0
    obtain ⟨_, _, _, hlt⟩ := hfssb _ (hs1.mem_fss hq)
    exact hlt
  · intro nv hnv
    have := hbnd.1 _ (hs1.mem_sofas hnv)
    simp only [psofaOf] at this
    rw [hnx, hns]
    omega

end Cassis.Xmi
