/-
The reserved feature names `self` / `type` in the round-trip proofs.

`xmlName f` is the name the writers (XMI and JSON) use for the feature `f`: the stored name, without its last
character when the feature is reserved.  `renRes` is what the readers do to an attribute name / key / child tag.
Under `ResOk f` (and the stored name being neither `self` nor `type`) reading undoes writing:
`renRes (xmlName f) = f.name`, hence `xmlName` is injective on the features of one type.
-/
import CassisModel.Spec.RoundTrip

namespace Cassis.TS

/-- the name under which the writers emit the feature -/
def xmlName (f : Feature) : String := if f.reserved then String.ofList f.name.toList.dropLast else f.name

/-- what the readers do to a name: `self` ↦ `self_`, `type` ↦ `type_` -/
def renRes (n : String) : String := if n == "self" then "self_" else if n == "type" then "type_" else n

theorem xmlName_def (f : Feature) :
    (if f.reserved = true then String.ofList f.name.toList.dropLast else f.name) = xmlName f := rfl

theorem xmlName_of_not_reserved (f : Feature) (h : f.reserved = false) : xmlName f = f.name := by
  unfold xmlName; rw [h]; rfl

theorem renRes_of_ne (n : String) (h1 : n ≠ "self") (h2 : n ≠ "type") : renRes n = n := by
  unfold renRes; simp [h1, h2]

theorem renRes_self : renRes "self" = "self_" := by decide
theorem renRes_type : renRes "type" = "type_" := by decide

open Cassis.Xmi in
/-- the three cases of a feature of the fragment -/
theorem xmlName_cases (f : Feature) (h : ResOk f) :
    (f.reserved = false ∧ xmlName f = f.name) ∨
    (f.reserved = true ∧ f.name = "self_" ∧ xmlName f = "self") ∨
    (f.reserved = true ∧ f.name = "type_" ∧ xmlName f = "type") := by
  rcases h with h | ⟨h, hn | hn⟩
  · exact .inl ⟨h, xmlName_of_not_reserved f h⟩
  · refine .inr (.inl ⟨h, hn, ?_⟩)
    unfold xmlName; rw [h, hn]; decide
  · refine .inr (.inr ⟨h, hn, ?_⟩)
    unfold xmlName; rw [h, hn]; decide

open Cassis.Xmi in
/-- reading undoes writing -/
theorem renRes_xmlName (f : Feature) (h : ResOk f) (h1 : f.name ≠ "self") (h2 : f.name ≠ "type") :
    renRes (xmlName f) = f.name := by
  rcases xmlName_cases f h with ⟨_, hx⟩ | ⟨_, hn, hx⟩ | ⟨_, hn, hx⟩
  · rw [hx, renRes_of_ne _ h1 h2]
  · rw [hx, hn]; decide
  · rw [hx, hn]; decide

open Cassis.Xmi in
theorem xmlName_inj (f g : Feature) (hf : ResOk f) (hg : ResOk g) (f1 : f.name ≠ "self") (f2 : f.name ≠ "type")
    (g1 : g.name ≠ "self") (g2 : g.name ≠ "type") (h : xmlName f = xmlName g) : f.name = g.name := by
  rw [← renRes_xmlName f hf f1 f2, ← renRes_xmlName g hg g1 g2, h]

open Cassis.Xmi in
/-- a written name is a special string exactly when the stored name is — for the strings `s` that are neither a
    reserved name nor the stored form of one -/
theorem xmlName_eq_iff (f : Feature) (h : ResOk f) (s : String) (s1 : s ≠ "self") (s2 : s ≠ "type")
    (s3 : s ≠ "self_") (s4 : s ≠ "type_") : xmlName f = s ↔ f.name = s := by
  rcases xmlName_cases f h with ⟨_, hx⟩ | ⟨_, hn, hx⟩ | ⟨_, hn, hx⟩
  · rw [hx]
  · rw [hx, hn]; exact ⟨fun e => absurd e.symm s1, fun e => absurd e.symm s3⟩
  · rw [hx, hn]; exact ⟨fun e => absurd e.symm s2, fun e => absurd e.symm s4⟩

open Cassis.Xmi in
theorem xmlName_beq (f : Feature) (h : ResOk f) (s : String) (s1 : s ≠ "self") (s2 : s ≠ "type")
    (s3 : s ≠ "self_") (s4 : s ≠ "type_") : (xmlName f == s) = (f.name == s) := by
  rw [Bool.eq_iff_iff, beq_iff_eq, beq_iff_eq]
  exact xmlName_eq_iff f h s s1 s2 s3 s4

open Cassis.Xmi in
theorem xmlName_begin (f : Feature) (h : ResOk f) : (xmlName f == "begin") = (f.name == "begin") :=
  xmlName_beq f h _ (by decide) (by decide) (by decide) (by decide)
open Cassis.Xmi in
theorem xmlName_end (f : Feature) (h : ResOk f) : (xmlName f == "end") = (f.name == "end") :=
  xmlName_beq f h _ (by decide) (by decide) (by decide) (by decide)
open Cassis.Xmi in
theorem xmlName_sofa (f : Feature) (h : ResOk f) : (xmlName f == "sofa") = (f.name == "sofa") :=
  xmlName_beq f h _ (by decide) (by decide) (by decide) (by decide)

end Cassis.TS
