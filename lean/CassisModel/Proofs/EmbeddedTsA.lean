/-
Helper lemmas for `Properties/C02EmbeddedTs.lean`, part A: `toposort` (the dependency order in which the embedded
types are created) succeeds on every acyclic set of declarations, and lists exactly the declared names and supertypes.
-/
import CassisModel.Proofs.Json
import CassisModel.Proofs.Merge

namespace Cassis.Json
open Cassis.TS

theorem exists_min_rank (rank : String → Nat) : ∀ (l : List String), l ≠ [] →
    ∃ a ∈ l, ∀ b ∈ l, rank a ≤ rank b := by
  intro l
  induction l with
  | nil => intro h; exact absurd rfl h
  | cons x l ih =>
    intro _
    cases l with
    | nil => exact ⟨x, List.mem_cons_self, fun b hb => by simp only [List.mem_singleton] at hb; subst hb; exact Nat.le_refl _⟩
    | cons y l =>
      obtain ⟨a, ha, hmin⟩ := ih (by simp)
      by_cases hxa : rank x ≤ rank a
      · refine ⟨x, List.mem_cons_self, ?_⟩
        intro b hb
        rcases List.mem_cons.mp hb with rfl | hb
        · exact Nat.le_refl _
        · exact Nat.le_trans hxa (hmin b hb)
      · refine ⟨a, List.mem_cons_of_mem _ ha, ?_⟩
        intro b hb
        rcases List.mem_cons.mp hb with rfl | hb
        · omega
        · exact hmin b hb

/-- with a rank that decreases along dependencies, no round of `toposort.go` is stuck and the fuel suffices -/
theorem toposort_go_total (depOf : String → List String) (rank : String → Nat)
    (hrank : ∀ a, ∀ d ∈ depOf a, d ≠ a → rank d < rank a) :
    ∀ (fuel : Nat) (done rest : List String), rest.length < fuel →
      ∃ order, toposort.go depOf fuel done rest = .ok order ∧ ∀ x ∈ order, x ∈ done ∨ x ∈ rest := by
  intro fuel
  induction fuel with
  | zero => intro _ _ h; omega
  | succ fuel ih =>
    intro done rest hlen
    unfold toposort.go
    simp only []
    cases hemp : rest.isEmpty with
    | true =>
      simp only [if_true]
      exact ⟨done, rfl, fun x hx => Or.inl hx⟩
    | false =>
      simp only [Bool.false_eq_true, if_false]
      have hne : rest ≠ [] := by
        intro e; subst e; simp at hemp
      obtain ⟨a, ha, hmin⟩ := exists_min_rank rank rest hne
      have haready : a ∈ rest.filter (fun n => (depOf n).all
          (fun d => d == n || done.contains d || !(rest.contains d))) := by
        rw [List.mem_filter, List.all_eq_true]
        refine ⟨ha, ?_⟩
        intro d hd
        by_cases hda : d = a
        · subst hda; simp
        · have hlt := hrank a d hd hda
          have hnr : d ∉ rest := fun hdr => by have := hmin d hdr; omega
          have : rest.contains d = false := (contains_false_iff rest d).mpr hnr
          rw [this]; simp
      have hreadyne : (rest.filter (fun n => (depOf n).all
          (fun d => d == n || done.contains d || !(rest.contains d)))).isEmpty = false := by
        cases hr : rest.filter (fun n => (depOf n).all
          (fun d => d == n || done.contains d || !(rest.contains d))) with
        | nil => rw [hr] at haready; cases haready
        | cons _ _ => rfl
      rw [hreadyne]
      simp only [Bool.false_eq_true, if_false]
      have hperm := QSort.qsort_toList_perm (rest.filter (fun n => (depOf n).all
          (fun d => d == n || done.contains d || !(rest.contains d)))) (· < ·)
      generalize ((rest.filter (fun n => (depOf n).all
          (fun d => d == n || done.contains d || !(rest.contains d)))).toArray.qsort (· < ·)).toList = level at hperm
      have halev : a ∈ level := hperm.mem_iff.mpr haready
      have hlevsub : ∀ x ∈ level, x ∈ rest := fun x hx => (List.mem_filter.mp (hperm.mem_iff.mp hx)).1
      have hlt : (rest.filter (fun n => !(level.contains n))).length < rest.length := by
        have := TS.filter_length_lt (fun _ => true) (fun n => !(level.contains n)) rest (fun _ _ _ => rfl)
          ⟨a, ha, rfl, by simp [halev]⟩
        have e : rest.filter (fun _ => true) = rest := List.filter_eq_self.mpr (fun _ _ => rfl)
        rw [e] at this
        exact this
      obtain ⟨order, hgo, hsub⟩ := ih (done ++ level) (rest.filter (fun n => !(level.contains n))) (by omega)
      refine ⟨order, hgo, ?_⟩
      intro x hx
      rcases hsub x hx with h | h
      · rcases List.mem_append.mp h with h | h
        · exact Or.inl h
        · exact Or.inr (hlevsub x h)
      · exact Or.inr (List.mem_filter.mp h).1

/-- the dependency order of a set of declarations whose supertype links decrease a rank: it exists, lists every
    declared name and supertype and nothing else, and no name is followed by its supertype -/
theorem toposort_total (types : List JType) (rank : String → Nat)
    (hrank : ∀ t ∈ types, t.super ≠ t.name → rank t.super < rank t.name) :
    ∃ order, toposort types = .ok order ∧
      order.Pairwise (fun a b => ∀ t ∈ types, t.name = a → t.super = b → b = a) ∧
      (∀ t ∈ types, t.name ∈ order ∧ t.super ∈ order) ∧
      (∀ x ∈ order, (∃ t ∈ types, t.name = x) ∨ (∃ t ∈ types, t.super = x)) := by
  have hdep : ∀ a, ∀ d ∈ (types.filter (fun t => t.name == a)).map (·.super), d ≠ a → rank d < rank a := by
    intro a d hd hne
    obtain ⟨t, ht, rfl⟩ := List.mem_map.mp hd
    obtain ⟨ht1, ht2⟩ := List.mem_filter.mp ht
    have : t.name = a := by simpa using ht2
    subst this
    exact hrank t ht1 hne
  obtain ⟨order, hgo, hsub⟩ := toposort_go_total _ rank hdep
    ((types.map (·.name) ++ types.map (·.super)).eraseDups.length + 1) []
    (types.map (·.name) ++ types.map (·.super)).eraseDups (by omega)
  have htop : toposort types = .ok order := by
    unfold toposort
    exact hgo
  have spec := toposort_go_spec _ _ _ _ _ hgo List.Pairwise.nil
    (fun a ha => absurd ha List.not_mem_nil) (fun a ha => absurd ha List.not_mem_nil) (by
      intro a _ d hd
      right
      obtain ⟨t, ht, rfl⟩ := List.mem_map.mp hd
      rw [List.mem_eraseDups]
      exact List.mem_append_right _ (List.mem_map.mpr ⟨t, (List.mem_filter.mp ht).1, rfl⟩))
  obtain ⟨hpw, _, hmem⟩ := spec
  refine ⟨order, htop, ?_, ?_, ?_⟩
  · refine hpw.imp ?_
    intro a b hnd t ht hta htb
    apply Classical.byContradiction
    intro hne
    apply hnd
    refine ⟨?_, hne⟩
    subst hta; subst htb
    exact List.mem_map.mpr ⟨t, List.mem_filter.mpr ⟨ht, beq_self_eq_true _⟩, rfl⟩
  · intro t ht
    constructor
    · apply hmem
      rw [List.mem_eraseDups]
      exact List.mem_append_left _ (List.mem_map.mpr ⟨t, ht, rfl⟩)
    · apply hmem
      rw [List.mem_eraseDups]
      exact List.mem_append_right _ (List.mem_map.mpr ⟨t, ht, rfl⟩)
  · intro x hx
    rcases hsub x hx with h | h
    · cases h
    · rw [List.mem_eraseDups] at h
      rcases List.mem_append.mp h with h | h
      · obtain ⟨t, ht, e⟩ := List.mem_map.mp h
        exact Or.inl ⟨t, ht, e⟩
      · obtain ⟨t, ht, e⟩ := List.mem_map.mp h
        exact Or.inr ⟨t, ht, e⟩

end Cassis.Json
