/-
C16 with collections, the CAS loaded from XMI, part D: the counterparts of the written structures are structures of the
JSON fragment; summary for all of `SAll` (`sall_j`).
-/
import CassisModel.Proofs.ChainCollLoadedC

namespace Cassis.ChainC
open Cassis.TS Cassis.Traverse Cassis.Xmi Cassis.Lex Cassis.Json

section
variable {K : Consts} {ts : TypeSystem} {c : Cas} {ci : Nat} {H : Heap} {L : List (Int × Nat)} {ci' : Nat}
  {na : Int → Nat} {ia : Int → String → Nat} {ld : Xmi.Loaded}

/-- the counterpart of a written general structure -/
theorem XLd.main_gen (x : XLd K ts c ci H L ci' na ia ld) {q : Int × Nat} (hq : q ∈ L) (hg : GenFs K ts c ci H q.2) :
    JGenFs K ts ld.cas ci' ld.heap (na q.1) ∧
    ∀ o', ld.heap[na q.1]? = some o' → (∀ n b, alistGet? o'.slots n = some (.ref b) → SAll K ld.heap L na b) ∧
      ∀ l, alistGet? o'.slots "elements" ≠ some (.refs l) := by
  obtain ⟨o, o', ho, ho', hty, hx, hkeys, hslots⟩ := x.rel q hq
  obtain ⟨o1, t, ho1, ht, htn, h1, h2, h3, h4, h5, h6, h7, h8, hnd, hsl, hfeat, hann⟩ := hg
  rw [ho] at ho1; cases ho1
  have hjg : JGenFs K ts ld.cas ci' ld.heap (na q.1) := by
    refine ⟨o', t, ho', ?_⟩
    rw [hty, hkeys]
    refine ⟨ht, htn, h1, h2, h3, h4, h5, h6, h7, h8, hnd, hsl, ?_, ?_⟩
    · intro f hf
      obtain ⟨⟨r1, r2, r3, r4, r5⟩, v, hv, hj, _⟩ := x.feat_new hq ho ht hnd hf (hfeat f hf)
      exact ⟨r1, r2, r3, r4, r5, _, hslots _ _ hv, hj⟩
    · intro hA
      obtain ⟨vn, v, text, b, e, hs, hview, htext, hb, he, hbl, hel⟩ := hann hA
      obtain ⟨v', hv', hvr⟩ := viewsRelL_get _ _ vn v x.views hview
      refine ⟨vn, v', text, b, e, ?_, hv', hvr.2.2.2.2.1.trans htext, ?_, ?_, hbl, hel⟩
      · rw [hslots _ _ hs, e3c_nonref o "sofa" _ (by intro c h; cases h) rfl]; rfl
      · rw [hslots _ _ hb, e3c_nonref o "begin" _ (by intro c h; cases h) rfl]; rfl
      · rw [hslots _ _ he, e3c_nonref o "end" _ (by intro c h; cases h) rfl]; rfl
  refine ⟨hjg, fun o2 ho2 => ?_⟩
  rw [ho'] at ho2; cases ho2
  refine ⟨fun n b hb => ?_, fun l hl => jgen_no_refs hjg ho' hl⟩
  obtain ⟨v0, hv0⟩ := alistGet?_of_keys o.slots o'.slots n _ hkeys.symm hb
  obtain ⟨f, hf, rfl⟩ := flat_slot_feature hsl hv0
  obtain ⟨_, v, hv, _, hS⟩ := x.feat_new hq ho ht hnd hf (hfeat f hf)
  rw [hv0] at hv; cases hv
  rw [hslots _ _ hv0] at hb
  exact (hS b (Option.some.inj hb)).sall

/-- the counterpart of a written array object -/
theorem XLd.main_arr (x : XLd K ts c ci H L ci' na ia ld) {q : Int × Nat} (hq : q ∈ L) (ha : ArrFs K ts H q.2)
    (he : ArrElemsSome H q.2) :
    JArrFs K ts ld.heap (na q.1) ∧
    ∀ o', ld.heap[na q.1]? = some o' → (∀ n b, alistGet? o'.slots n ≠ some (.ref b)) ∧
      ∀ l, alistGet? o'.slots "elements" = some (.refs l) → ∀ b, some b ∈ l → SMain L na b := by
  obtain ⟨o, o', ho, ho', hty, hx, hkeys, hslots⟩ := x.rel q hq
  obtain ⟨o1, t, f, ev, ho1, ht, htn, hsup, hall, hfn, hfr, hres, hsl, hann, hcase⟩ := ha
  rw [ho] at ho1; cases ho1
  have hev : ev ≠ .none := by
    intro e
    apply he o ho
    rw [hsl, e]
  have hlist : isListV ev = true := by
    rcases hcase with ⟨_, _, _, h | ⟨l, h, _⟩⟩ | ⟨_, _, h | ⟨l, h⟩⟩ | ⟨_, _, _, h | h⟩
    · exact absurd h hev
    · rw [h]; rfl
    · rw [h]; rfl
    · rw [h]; rfl
    · exact absurd h hev
    · rcases h with h | ⟨_, l, h⟩ | ⟨_, l, h, _⟩ | ⟨_, l, h⟩ | ⟨_, l, h, _⟩ <;> (rw [h]; rfl)
  have hel : alistGet? o.slots "elements" = some ev := by rw [hsl, get_elements]
  have hsl' : o'.slots = [("elements", elemsExp H na ev)] := by
    apply single_slot
    · rw [hkeys, hsl]; rfl
    · rw [hslots _ _ hel, e3c_list o "elements" ev hlist]
  have hshape : ArrShape K (SMain L na) o' (elemsExp H na ev) := by
    rw [ArrShape, hty]
    rcases hcase with ⟨h1, h2, _, h | ⟨l, h, _⟩⟩ | ⟨h1, h2, h⟩ | ⟨h1, h2, _, h | h⟩
    · exact absurd h hev
    · subst h
      refine .inl ⟨h1, h2, _, rfl, ?_⟩
      intro b hb
      simp only [List.map_map] at hb
      obtain ⟨b0, hb0, e⟩ := List.mem_map.mp hb
      obtain ⟨q', hq', _, hy⟩ := x.target hq (b := b0) ⟨o, t, ho, ht, .inr (.inr (.inr ⟨h1, l.map some, hel,
        List.mem_map_of_mem hb0⟩))⟩
      simp only [Function.comp, Option.bind_some, hy, Option.map_some] at e
      cases e
      exact ⟨q', hq', rfl⟩
    · exact .inr ⟨by rw [h1]; decide, .inr h1, by rw [h1]; exact h2, by rw [h1]; exact jprim_of_str H na h⟩
    · exact absurd h hev
    · exact .inr ⟨primArrTy_ne_fs h1, .inl h1, h2, jprim_of_prim H na h⟩
  obtain ⟨j1, _⟩ := jarr_of_shape ho' hsl' hshape (by rw [hty]; exact ht) (by rw [hty]; exact htn) hsup hall hfn hres
    (by rw [hty]; exact hann)
  refine ⟨j1, fun o2 ho2 => ?_⟩
  rw [ho'] at ho2; cases ho2
  refine ⟨fun n b hb => jarr_no_ref j1 ho' hb, fun l hl b hb => ?_⟩
  rw [hsl', get_elements] at hl
  rcases hshape with ⟨_, _, l', e, hR⟩ | ⟨_, _, _, hp_⟩
  · rw [e] at hl
    cases hl
    exact hR b hb
  · exfalso
    rcases hp_ with e | ⟨_, l', e⟩ | ⟨_, l', e⟩ | ⟨_, _, ⟨l', e⟩ | ⟨l', e⟩ | ⟨l', e⟩⟩
    · rw [e] at hl; cases hl; cases hb
    all_goals (rw [e] at hl; cases hl)

theorem XLd.main_json (x : XLd K ts c ci H L ci' na ia ld) {q : Int × Nat} (hq : q ∈ L) (hj : JsonFs ts H q.2) :
    JsonFs ts ld.heap (na q.1) := by
  intro o' t ho' ht
  obtain ⟨o, o2, ho, ho2, hor⟩ := x.rel q hq
  rw [ho'] at ho2; cases ho2
  rw [hor.1] at ht ⊢
  exact hj o t ho ht

/-- every structure of `SAll` is in the JSON fragment, and `SAll` is closed -/
theorem XLd.sall_j (x : XLd K ts c ci H L ci' na ia ld) (htys : CollTypesOk K ts)
    (hjson : ∀ q ∈ L, JsonFs ts H q.2) (harr : ∀ q ∈ L, ArrElemsSome H q.2) {a : Nat}
    (ha : SAll K ld.heap L na a) :
    JCollFs K ts ld.cas ci' ld.heap a ∧
    ∀ o, ld.heap[a]? = some o → (∀ n b, alistGet? o.slots n = some (.ref b) → SAll K ld.heap L na b) ∧
      ∀ l, alistGet? o.slots "elements" = some (.refs l) → ∀ b, some b ∈ l → SAll K ld.heap L na b := by
  rcases ha with ⟨q, hq, rfl⟩ | ha | ha
  · rcases x.lok.coll q hq with hg | hA
    · obtain ⟨j1, j2⟩ := x.main_gen hq hg
      refine ⟨⟨.inl j1, x.main_json hq (hjson q hq)⟩, fun o ho => ⟨(j2 o ho).1, fun l hl => ?_⟩⟩
      exact absurd hl ((j2 o ho).2 l)
    · obtain ⟨j1, j2⟩ := x.main_arr hq hA (harr q hq)
      refine ⟨⟨.inr j1, x.main_json hq (hjson q hq)⟩, fun o ho => ⟨fun n b hb => ?_,
        fun l hl b hb => .inl ((j2 o ho).2 l hl b hb)⟩⟩
      exact absurd hb ((j2 o ho).1 n b)
  · obtain ⟨j1, j2, j3⟩ := sarr_j htys ha
    refine ⟨⟨.inr j1, j2⟩, fun o ho => ⟨fun n b hb => ?_, fun l hl b hb => .inl ((j3 o ho).2 l hl b hb)⟩⟩
    exact absurd hb ((j3 o ho).1 n b)
  · obtain ⟨j1, j2, j3⟩ := snode_j htys ld.cas ci' ha
    refine ⟨⟨.inl j1, j2⟩, fun o ho => ⟨fun n b hb => ?_, fun l hl => ?_⟩⟩
    · rcases (j3 o ho).1 n b hb with h | h
      · exact .inl h
      · exact .inr (.inr h)
    · exact absurd hl ((j3 o ho).2 l)

end

end Cassis.ChainC
