/-
Helper lemmas for `Properties/C02EmbeddedTs.lean`: the `%TYPES` writer and reader on declarations without feature names
that start with `%` (`NoPercentNames`).

A `%TYPES` entry is ONE JSON object that holds the reserved members `%NAME`, `%SUPER_TYPE`, `%DESCRIPTION` and one member
per feature; the model follows the code there (`renderTypeDecl`, `renderTypeDecls`, `loadEmbeddedTs`): a feature named
`%NAME` makes the writer raise, features named `%SUPER_TYPE` / `%DESCRIPTION` replace those members, and the reader skips
every feature whose name starts with `%`.  Without such names none of this happens: the writer produces the plain
declaration `renderTypeDecl0` and the reader creates every declared feature.
-/
import CassisModel.Spec.EmbeddedTs

namespace Cassis.Json
open Cassis.TS

/-- the declaration of a type none of whose features has a name that starts with `%` -/
def renderTypeDecl0 (K : Consts) (t : TypeRec) : JType :=
  { name := t.name, super := t.super.getD "",
    descr := match t.descr with | some "" => none | d => d,
    feats := t.own.map (renderFeatDecl K) }

theorem sw_pct_dropLast (s : String) (h : s.startsWith "%" = false) :
    (String.ofList s.toList.dropLast).startsWith "%" = false := by
  simp at h ⊢
  cases hk : s.toList with
  | nil => simp
  | cons c r =>
    rw [hk] at h
    cases r with
    | nil => simp
    | cons d r' => simp at h ⊢; exact h

/-- the written name of a feature (reserved names lose their underscore) does not start with `%` either -/
theorem featDecl_name_noPct (K : Consts) (f : Feature) (h : f.name.startsWith "%" = false) :
    (renderFeatDecl K f).name.startsWith "%" = false := by
  show (if f.reserved then String.ofList f.name.toList.dropLast else f.name).startsWith "%" = false
  split
  · exact sw_pct_dropLast _ h
  · exact h

theorem featDecls_noPct (K : Consts) (t : TypeRec) (h : ∀ f ∈ t.own, f.name.startsWith "%" = false) :
    ∀ jf ∈ t.own.map (renderFeatDecl K), jf.name.startsWith "%" = false := by
  intro jf hjf
  obtain ⟨f, hf, rfl⟩ := List.mem_map.mp hjf
  exact featDecl_name_noPct K f (h f hf)

theorem any_name_eq_false (l : List JFeat) (k : String) (hk : k.startsWith "%" = true)
    (h : ∀ f ∈ l, f.name.startsWith "%" = false) : l.any (fun f => f.name == k) = false := by
  rw [List.any_eq_false]
  intro f hf he
  have e : f.name = k := by simpa using he
  have h1 := h f hf
  rw [e, hk] at h1
  cases h1

theorem renderTypeDecl_eq0 (K : Consts) (t : TypeRec) (h : ∀ f ∈ t.own, f.name.startsWith "%" = false) :
    renderTypeDecl K t = renderTypeDecl0 K t := by
  have hn := featDecls_noPct K t h
  unfold renderTypeDecl renderTypeDecl0
  simp only [any_name_eq_false _ "%SUPER_TYPE" (by simp) hn, any_name_eq_false _ "%DESCRIPTION" (by simp) hn,
    Bool.false_eq_true, if_false]
  rfl

/-- without feature names starting with `%` the writer does not raise and writes the plain declarations -/
theorem renderTypeDecls_noPct (K : Consts) (l : List TypeRec)
    (h : ∀ t ∈ l, ∀ f ∈ t.own, f.name.startsWith "%" = false) :
    renderTypeDecls K l = .ok (l.map (renderTypeDecl0 K)) := by
  unfold renderTypeDecls
  have hany : l.any (fun t => t.own.any (fun f => (renderFeatDecl K f).name == "%NAME")) = false := by
    rw [List.any_eq_false]
    intro t ht hc
    have := any_name_eq_false _ "%NAME" (by simp) (featDecls_noPct K t (h t ht))
    rw [List.any_map] at this
    have hc' : (t.own.any ((fun f => f.name == "%NAME") ∘ renderFeatDecl K)) = true := hc
    rw [this] at hc'
    cases hc'
  rw [hany]
  simp only [Bool.false_eq_true, if_false]
  congr 1
  exact List.map_congr_left (fun t ht => renderTypeDecl_eq0 K t (h t ht))

theorem renderTypeDecl0_noPct (K : Consts) (l : List TypeRec)
    (h : ∀ t ∈ l, ∀ f ∈ t.own, f.name.startsWith "%" = false) :
    ∀ jt ∈ l.map (renderTypeDecl0 K), ∀ jf ∈ jt.feats, jf.name.startsWith "%" = false := by
  intro jt hjt
  obtain ⟨t, ht, rfl⟩ := List.mem_map.mp hjt
  exact featDecls_noPct K t (h t ht)

theorem filter_noPct (l : List JFeat) (h : ∀ jf ∈ l, jf.name.startsWith "%" = false) :
    l.filter (fun jf => !(jf.name.startsWith "%")) = l := by
  apply List.filter_eq_self.mpr
  intro jf hjf
  rw [h jf hjf]
  rfl

theorem foldlM_congr_mem' {α β : Type} (f g : β → α → Except Err β) (l : List α)
    (h : ∀ acc, ∀ p ∈ l, f acc p = g acc p) (init : β) : l.foldlM f init = l.foldlM g init := by
  induction l generalizing init with
  | nil => rfl
  | cons p ps ih =>
    rw [List.foldlM_cons, List.foldlM_cons, h init p List.mem_cons_self]
    cases g init p with
    | error e => rfl
    | ok b => exact ih (fun acc q hq => h acc q (List.mem_cons_of_mem _ hq)) b

end Cassis.Json
