/-
The relations `Obj1` / `Obj2` (`Proofs/RoundTripCollDefs.lean`) survive every later change of the heap that leaves the
objects without id alone (`Frz`).
-/
import CassisModel.Proofs.RoundTripCollDefs

namespace Cassis.Xmi
open Cassis.TS Cassis.Traverse Cassis.Lex

theorem Inl1R.frz {H hpX hpY : Heap} {r : String} {c : Nat} {w : Val} (h : Inl1R H hpX r c w) (f : Frz hpX hpY) :
    Inl1R H hpY r c w := by
  rcases h with h | ⟨h1, ev, h2, h3⟩ | h | h | ⟨h1, hs, addr, h2, h3, h4, h5, h6⟩ | h
  · exact .inl h
  · refine .inr (.inl ⟨h1, ev, h2, ?_⟩)
    rcases h3 with h3 | ⟨l, addr, e1, e2, e3, e4⟩
    · exact .inl h3
    · exact .inr ⟨l, addr, e1, e2, e3, e4.frz f⟩
  · exact .inr (.inr (.inl h))
  · exact .inr (.inr (.inr (.inl h)))
  · exact .inr (.inr (.inr (.inr (.inl ⟨h1, hs, addr, h2, h3, h4, ListAt.frz f h5, Nat.lt_of_lt_of_le h6 f.1⟩))))
  · exact .inr (.inr (.inr (.inr (.inr h))))

theorem Slot1.frz {K : Consts} {ts : TypeSystem} {cass : List Cas} {H hpX hpY : Heap} {o : Obj} {n : String} {v w : Val}
    (h : Slot1 K ts cass H hpX o n v w) (f : Frz hpX hpY) : Slot1 K ts cass H hpY o n v w := by
  refine ⟨fun c hc hi => ?_, h.2.1, h.2.2⟩
  obtain ⟨t, ft, h1, h2, h3, h4⟩ := h.1 c hc hi
  exact ⟨t, ft, h1, h2, h3, h4.frz f⟩

theorem Obj1.frz {K : Consts} {ts : TypeSystem} {cass : List Cas} {H hpX hpY : Heap} {o o1 : Obj} {x : Int}
    (h : Obj1 K ts cass H hpX o o1 x) (f : Frz hpX hpY) : Obj1 K ts cass H hpY o o1 x := by
  obtain ⟨h1, h2, h3, h4⟩ := h
  refine ⟨h1, h2, h3, fun n v hv => ?_⟩
  obtain ⟨w, hw, hs⟩ := h4 n v hv
  exact ⟨w, hw, hs.frz f⟩

theorem InlAt.frz {K : Consts} {ts : TypeSystem} {H : Heap} {na : Int → Nat} {hpX hpY : Heap} {o : Obj} {n : String}
    {c addr : Nat} (h : InlAt K ts H na hpX o n c addr) (f : Frz hpX hpY) : InlAt K ts H na hpY o n c addr := by
  obtain ⟨t, ft, h1, h2, h3, h4⟩ := h
  refine ⟨t, ft, h1, h2, h3, ?_⟩
  rcases h4 with ⟨e, ev, g1, g2⟩ | ⟨e, hs, g1, g2, g3⟩
  · exact .inl ⟨e, ev, g1, g2.frz f⟩
  · exact .inr ⟨e, hs, g1, ListAt.frz f g2, Nat.lt_of_lt_of_le g3 f.1⟩

theorem Slot2.frz {K : Consts} {ts : TypeSystem} {cass : List Cas} {H : Heap} {na : Int → Nat} {ci' : Nat}
    {hpX hpY : Heap} {o : Obj} {n : String} {v w : Val}
    (h : Slot2 K ts cass H na ci' hpX o n v w) (f : Frz hpX hpY) : Slot2 K ts cass H na ci' hpY o n v w := by
  refine ⟨fun c hc hi => ?_, h.2.1, h.2.2⟩
  obtain ⟨addr, h1, h2⟩ := h.1 c hc hi
  exact ⟨addr, h1, h2.frz f⟩

theorem Obj2.frz {K : Consts} {ts : TypeSystem} {cass : List Cas} {H : Heap} {na : Int → Nat} {ci' : Nat}
    {hpX hpY : Heap} {o o2 : Obj} {x : Int}
    (h : Obj2 K ts cass H na ci' hpX o o2 x) (f : Frz hpX hpY) : Obj2 K ts cass H na ci' hpY o o2 x := by
  obtain ⟨h1, h2, h3, h4⟩ := h
  refine ⟨h1, h2, h3, fun n v hv => ?_⟩
  obtain ⟨w, hw, hs⟩ := h4 n v hv
  exact ⟨w, hw, hs.frz f⟩

/-- one step of the second pass on an object that carries an id leaves the objects without id alone -/
theorem Ext.frz {hpX hpY : Heap} {a : Nat} {o : Obj} (h : Ext hpX hpY a) (ho : hpX[a]? = some o) (hx : o.xid ≠ none) :
    Frz hpX hpY := by
  refine ⟨h.1, fun b ob hb hbx => ?_⟩
  have hlt : b < hpX.length := (List.getElem?_eq_some_iff.mp hb).1
  by_cases e : b = a
  · subst e; rw [ho] at hb; cases hb; exact absurd hbx hx
  · rw [h.2.1 b hlt e]; exact hb

end Cassis.Xmi
