/-
The first pass of the XMI reader and the reserved names: reading an element gives the same result as reading the
element with the names of its attributes and child elements renamed by `renRes` (`self` ↦ `self_`, `type` ↦ `type_`),
provided the renaming identifies no two names of the element (`parseFsElem_ren`).

This is how the proofs of the reader layers, which work with attributes / child elements under the *stored* feature
names, apply to the written element, whose names are the `xmlName`s.
-/
import CassisModel.Proofs.RoundTripCollElemGenR2

namespace Cassis.Xmi.CG1
open Cassis.TS Cassis.Traverse Cassis.Lex

/-- rename the keys of an association list -/
def renKeys {β} (l : List (String × β)) : List (String × β) := l.map (fun p => (renRes p.1, p.2))

/-- rename attributes and child elements -/
def renElem (e : XElem) : XElem := { e with attrs := renKeys e.attrs, kids := renKeys e.kids }

/-- `renRes` identifies no two names of the list -/
def RenInj (S : List String) : Prop := ∀ k ∈ S, ∀ k' ∈ S, renRes k = renRes k' → k = k'

theorem renRes_idem (k : String) : renRes (renRes k) = renRes k := by
  unfold renRes
  by_cases h1 : k = "self"
  · subst h1; decide
  · by_cases h2 : k = "type"
    · subst h2; decide
    · simp [h1, h2]

theorem renKeys_cons {β} (k : String) (v : β) (l : List (String × β)) :
    renKeys ((k, v) :: l) = (renRes k, v) :: renKeys l := rfl

theorem alistGet?_renKeys {β} (S : List String) (hS : RenInj S) (l : List (String × β))
    (hl : ∀ p ∈ l, p.1 ∈ S) (k : String) (hk : k ∈ S) :
    alistGet? (renKeys l) (renRes k) = alistGet? l k := by
  induction l with
  | nil => rfl
  | cons p rest ih =>
    obtain ⟨k', v'⟩ := p
    rw [renKeys_cons]
    have hk' : k' ∈ S := hl (k', v') List.mem_cons_self
    by_cases h : k' = k
    · subst h; rw [alistGet?_cons_self, alistGet?_cons_self]
    · have : renRes k' ≠ renRes k := fun e => h (hS k' hk' k hk e)
      rw [alistGet?_cons_ne _ _ _ _ this, alistGet?_cons_ne _ _ _ _ h,
        ih (fun p hp => hl p (List.mem_cons_of_mem _ hp))]

theorem alistSet_renKeys {β} (S : List String) (hS : RenInj S) (l : List (String × β))
    (hl : ∀ p ∈ l, p.1 ∈ S) (k : String) (hk : k ∈ S) (v : β) :
    renKeys (alistSet l k v) = alistSet (renKeys l) (renRes k) v := by
  induction l with
  | nil => rfl
  | cons p rest ih =>
    obtain ⟨k', v'⟩ := p
    have hk' : k' ∈ S := hl (k', v') List.mem_cons_self
    rw [renKeys_cons]
    by_cases h : k' = k
    · subst h
      unfold alistSet
      rw [if_pos rfl, if_pos rfl]; rfl
    · have : renRes k' ≠ renRes k := fun e => h (hS k' hk' k hk e)
      unfold alistSet
      rw [if_neg h, if_neg this, renKeys_cons, ih (fun p hp => hl p (List.mem_cons_of_mem _ hp))]

theorem alistSet_keys_sub {β} (S : List String) (l : List (String × β)) (hl : ∀ p ∈ l, p.1 ∈ S) (k : String)
    (hk : k ∈ S) (v : β) : ∀ p ∈ alistSet l k v, p.1 ∈ S := by
  intro p hp
  have : p.1 ∈ (alistSet l k v).map (·.1) := List.mem_map_of_mem hp
  rw [Cassis.Index.alistSet_keys] at this
  split at this
  · obtain ⟨q, hq, hqe⟩ := List.mem_map.mp this
    rw [← hqe]; exact hl q hq
  · rcases List.mem_append.mp this with h | h
    · obtain ⟨q, hq, hqe⟩ := List.mem_map.mp h
      rw [← hqe]; exact hl q hq
    · rw [List.mem_singleton] at h; rw [h]; exact hk

theorem groupKids_renKeys (S : List String) (hS : RenInj S) :
    ∀ (kids : List (String × Option String)) (acc : List (String × List (Option String))),
      (∀ p ∈ kids, p.1 ∈ S) → (∀ p ∈ acc, p.1 ∈ S) →
      groupKids (renKeys kids) (renKeys acc) = renKeys (groupKids kids acc) ∧ ∀ p ∈ groupKids kids acc, p.1 ∈ S
  | [], acc, _, ha => ⟨rfl, ha⟩
  | (n, t) :: rest, acc, hk, ha => by
    have hn : n ∈ S := hk (n, t) List.mem_cons_self
    have ha' := alistSet_keys_sub S acc ha n hn ((alistGet? acc n).getD [] ++ [t])
    obtain ⟨ih1, ih2⟩ := groupKids_renKeys S hS rest _ (fun p hp => hk p (List.mem_cons_of_mem _ hp)) ha'
    refine ⟨?_, ?_⟩
    · rw [renKeys_cons, groupKids, groupKids, alistGet?_renKeys S hS acc ha n hn,
        ← alistSet_renKeys S hS acc ha n hn, ih1]
    · rw [groupKids]; exact ih2

theorem mergeFold_renKeys (S : List String) (hS : RenInj S) :
    ∀ (G : List (String × List (Option String))) (raw : List (String × Val)),
      (∀ p ∈ G, p.1 ∈ S) → (∀ p ∈ raw, p.1 ∈ S) →
      (renKeys G).foldl (fun acc p => alistSet acc p.1 (Val.strs p.2)) (renKeys raw) =
        renKeys (G.foldl (fun acc p => alistSet acc p.1 (Val.strs p.2)) raw) ∧
      ∀ p ∈ G.foldl (fun acc p => alistSet acc p.1 (Val.strs p.2)) raw, p.1 ∈ S
  | [], raw, _, hr => ⟨rfl, hr⟩
  | (n, l) :: G, raw, hg, hr => by
    have hn : n ∈ S := hg (n, l) List.mem_cons_self
    have hr' := alistSet_keys_sub S raw hr n hn (Val.strs l)
    obtain ⟨ih1, ih2⟩ := mergeFold_renKeys S hS G _ (fun p hp => hg p (List.mem_cons_of_mem _ hp)) hr'
    refine ⟨?_, ?_⟩
    · rw [renKeys_cons, List.foldl_cons, List.foldl_cons, ← alistSet_renKeys S hS raw hr n hn, ih1]
    · rw [List.foldl_cons]; exact ih2

theorem filter_renKeys (M : List (String × Val)) :
    (renKeys M).filter (fun p => p.1 != ID) = renKeys (M.filter (fun p => p.1 != ID)) := by
  induction M with
  | nil => rfl
  | cons p rest ih =>
    obtain ⟨k, v⟩ := p
    rw [renKeys_cons]
    by_cases h : k = ID
    · have h' : renRes k = ID := (renRes_id k).mpr h
      rw [List.filter_cons_of_neg (by simp [h']), List.filter_cons_of_neg (by simp [h]), ih]
    · have h' : renRes k ≠ ID := fun e => h ((renRes_id k).mp e)
      rw [List.filter_cons_of_pos (by simp [h']), List.filter_cons_of_pos (by simp [h]), ih, renKeys_cons]

theorem intify_renKeys (M : List (String × Val)) :
    intify (renKeys M) "sofa" = (intify M "sofa").map renKeys := by
  unfold intify
  have hg : alistGet? (renKeys M) "sofa" = alistGet? M "sofa" := alistGet?_mapKey renRes "sofa" renRes_sofa M
  rw [hg]
  cases alistGet? M "sofa" with
  | none => rfl
  | some v =>
    cases v with
    | str s =>
      dsimp only
      cases parseIntE s with
      | error e => rfl
      | ok i =>
        show Except.ok (alistSet (renKeys M) "sofa" (Val.int i)) = Except.ok (renKeys (alistSet M "sofa" (Val.int i)))
        rw [show renKeys (alistSet M "sofa" (Val.int i)) = _ from alistSet_mapKey renRes "sofa" renRes_sofa M _]
        rfl
    | _ => rfl

theorem rename_eq_renKeys (M : List (String × Val)) :
    rename (rename M "self" "self_") "type" "type_" = renKeys M := by
  unfold rename renKeys
  exact rename_rename M

theorem renKeys_idem {β} (M : List (String × β)) : renKeys (renKeys M) = renKeys M := by
  unfold renKeys
  rw [List.map_map]
  apply List.map_congr_left
  intro p _
  simp only [Function.comp, renRes_idem]

theorem kidStep_ren (K : Consts) (t : TypeRec) (tsIdx : Nat) (acc : Heap × List (String × Val))
    (p : String × List (Option String)) :
    kidStep K t tsIdx acc (renRes p.1, p.2) = kidStep K t tsIdx acc p := by
  have hpn : ∀ k : String, (if (k == "self" || k == "type") = true then k ++ "_" else k) = renRes k := by
    intro k
    unfold renRes
    by_cases h1 : k = "self"
    · subst h1; decide
    · by_cases h2 : k = "type"
      · subst h2; decide
      · simp [h1, h2]
  unfold kidStep
  simp only [hpn, renRes_idem]

theorem kidFold_ren (K : Consts) (t : TypeRec) (tsIdx : Nat) :
    ∀ (G : List (String × List (Option String))) (acc : Heap × List (String × Val)),
      (renKeys G).foldlM (kidStep K t tsIdx) acc = G.foldlM (kidStep K t tsIdx) acc
  | [], _ => rfl
  | p :: G, acc => by
    obtain ⟨n, l⟩ := p
    rw [renKeys_cons, List.foldlM_cons, List.foldlM_cons, kidStep_ren K t tsIdx acc (n, l)]
    cases kidStep K t tsIdx acc (n, l) with
    | error e => rfl
    | ok acc' => exact kidFold_ren K t tsIdx G acc'

/-- **reading the renamed element is reading the element** -/
theorem parseFsElem_ren (K : Consts) (ts : TypeSystem) (tsIdx : Nat) (hp : Heap) (e : XElem)
    (hinj : RenInj (e.attrs.map (·.1) ++ e.kids.map (·.1))) :
    parseFsElem K ts tsIdx hp (renElem e) = parseFsElem K ts tsIdx hp e := by
  have hA : ∀ p ∈ e.attrs.map (fun p => (p.1, Val.str p.2)), p.1 ∈ e.attrs.map (·.1) ++ e.kids.map (·.1) := by
    intro p hp
    obtain ⟨q, hq, rfl⟩ := List.mem_map.mp hp
    exact List.mem_append_left _ (List.mem_map_of_mem hq)
  have hKd : ∀ p ∈ e.kids, p.1 ∈ e.attrs.map (·.1) ++ e.kids.map (·.1) :=
    fun p hp => List.mem_append_right _ (List.mem_map_of_mem hp)
  obtain ⟨hg1, hg2⟩ := groupKids_renKeys _ hinj e.kids [] hKd (fun p hp => by cases hp)
  obtain ⟨hm1, _⟩ := mergeFold_renKeys _ hinj (groupKids e.kids []) _ hg2 hA
  have hraw : (renKeys e.attrs).map (fun p => (p.1, Val.str p.2)) = renKeys (e.attrs.map (fun p => (p.1, Val.str p.2))) := by
    unfold renKeys; rw [List.map_map, List.map_map]; rfl
  have hgroup : groupKids (renKeys e.kids) [] = renKeys (groupKids e.kids []) := hg1
  rw [parseFsElem_eq, parseFsElem_eq]
  simp only [renElem]
  cases getTypeExact ts e.ty with
  | error err => rfl
  | ok t =>
    simp only [bind, Except.bind]
    rw [hgroup, hraw, hm1]
    generalize (groupKids e.kids []).foldl (fun acc p => alistSet acc p.1 (Val.strs p.2))
      (e.attrs.map (fun p => (p.1, Val.str p.2))) = M
    have hid : alistGet? (renKeys M) ID = alistGet? M ID := alistGet?_mapKey renRes ID renRes_id M
    rw [hid, filter_renKeys, intify_renKeys]
    cases alistGet? M ID with
    | none => rfl
    | some v =>
      cases v with
      | str s =>
        dsimp only
        cases parseIntE s with
        | error err => rfl
        | ok idV =>
          dsimp only
          cases intify (M.filter (fun p => p.1 != ID)) "sofa" with
          | error err => rfl
          | ok M2 =>
            simp only [Except.map]
            rw [rename_eq_renKeys, rename_eq_renKeys, renKeys_idem, kidFold_ren]
            rfl
      | _ => rfl

end Cassis.Xmi.CG1
