/-
Helper lemmas for `Properties/C13Perm.lean`, part C3: successful passes and runs of the merge loop.
-/
import CassisModel.Proofs.MergePermC2

namespace Cassis.TS

/-- one successful pass; a pass that processes everything covers everything -/
theorem mergeRound_run (K : Consts) (decls : List Decl) (h1 : OneSuper decls)
    (hann : K.predefined.contains ANNOTATION = true) (hdap : K.predefined.contains DOCUMENT_ANNOTATION = false)
    (hu : ∀ d ∈ decls, K.predefined.contains d.name = false) :
    ∀ (ds : List Decl) (s s' : MState) (n n' : Nat), (∀ d ∈ ds, d ∈ decls) → RInv K decls s →
      mergeRound K ds s n = .ok (s', n') →
      RInv K decls s' ∧ GrowW s.ts s'.ts ∧ (∀ x ∈ s.merged, x ∈ s'.merged) ∧ n' ≤ n + ds.length ∧
        (n' = n + ds.length → ∀ d ∈ ds, CovD s'.ts d ∧ d.name ∈ s'.merged) := by
  intro ds
  induction ds with
  | nil =>
    intro s s' n n' _ hi h
    simp only [mergeRound] at h
    cases h
    exact ⟨hi, GrowW.refl _, fun _ hx => hx, Nat.le_refl _, fun _ d hd => by cases hd⟩
  | cons d ds ih =>
    intro s s' n n' hsub hi h
    simp only [mergeRound] at h
    have hsub' : ∀ d' ∈ ds, d' ∈ decls := fun d' hd' => hsub d' (List.mem_cons_of_mem _ hd')
    split at h
    · rename_i hready
      split at h
      · cases h
      · rename_i s1 hp
        have hd := hsub d List.mem_cons_self
        obtain ⟨hi1, hg1, hcov1⟩ := processDecl_run K decls h1 hann hdap s s1 d hi hd (hu d hd) hready hp
        obtain ⟨hm1, hdm1⟩ := processDecl_merged K s s1 d hp
        obtain ⟨hi2, hg2, hm2, hle, hall⟩ := ih s1 s' (n + 1) n' hsub' hi1 h
        refine ⟨hi2, hg1.trans hg2, fun x hx => hm2 x (hm1 x hx), by simp only [List.length_cons]; omega, ?_⟩
        intro hn x hx
        simp only [List.length_cons] at hn
        rcases List.mem_cons.mp hx with rfl | hx
        · exact ⟨hcov1.grow hg2, hm2 _ hdm1⟩
        · exact hall (by omega) x hx
    · obtain ⟨hi2, hg2, hm2, hle, hall⟩ := ih s s' n n' hsub' hi h
      refine ⟨hi2, hg2, hm2, by simp only [List.length_cons]; omega, ?_⟩
      intro hn
      simp only [List.length_cons] at hn
      omega

theorem mergeLoop_run (K : Consts) (decls : List Decl) (h1 : OneSuper decls)
    (hann : K.predefined.contains ANNOTATION = true) (hdap : K.predefined.contains DOCUMENT_ANNOTATION = false)
    (hu : ∀ d ∈ decls, K.predefined.contains d.name = false) :
    ∀ (fuel : Nat) (s s' : MState), RInv K decls s → mergeLoop K decls fuel s = .ok s' →
      RInv K decls s' ∧ GrowW s.ts s'.ts ∧ ∀ d ∈ decls, CovD s'.ts d ∧ d.name ∈ s'.merged := by
  intro fuel
  induction fuel with
  | zero => intro s s' _ h; simp only [mergeLoop] at h; cases h
  | succ fuel ih =>
    intro s s' hi h
    simp only [mergeLoop] at h
    split at h
    · cases h
    · rename_i s1 n hr
      obtain ⟨hi1, hg1, _, _, hall⟩ :=
        mergeRound_run K decls h1 hann hdap hu decls s s1 0 n (fun _ hd => hd) hi hr
      split at h
      · rename_i hn
        cases h
        exact ⟨hi1, hg1, hall (by simpa using hn)⟩
      · obtain ⟨hi2, hg2, hall2⟩ := ih s1 s' hi1 h
        exact ⟨hi2, hg1.trans hg2, hall2⟩

end Cassis.TS
