/-
The XMI round trip on the flat fragment: assembly of the layers
(`RoundTripPass1` writer + first pass, `RoundTripPost` second pass, `RoundTripBuild` third pass).
-/
import CassisModel.Proofs.RoundTripGlue
import CassisModel.Proofs.RoundTripPass1
import CassisModel.Proofs.RoundTripPost
import CassisModel.Proofs.RoundTripBuild
import CassisModel.Proofs.XmiIds
import CassisModel.Proofs.RoundTripFix

namespace Cassis.Xmi
open Cassis.TS Cassis.Traverse Cassis.Lex

theorem lookupFs_map_na (na : Int → Nat) (x : Int) : ∀ (L : List (Int × Nat)), x ∈ L.map (·.1) →
    lookupFs (L.map (fun q => (q.1, na q.1))) x = .ok (na x)
  | [], h => by cases h
  | q :: rest, h => by
    unfold lookupFs
    simp only [List.map_cons, List.find?_cons]
    by_cases hq : q.1 = x
    · simp [hq]
    · have hq' : (q.1 == x) = false := by simpa using hq
      simp only [hq']
      have hx : x ∈ rest.map (·.1) := by
        simp only [List.map_cons, List.mem_cons] at h
        rcases h with h | h
        · exact absurd h.symm hq
        · exact h
      have := lookupFs_map_na na x rest hx
      unfold lookupFs at this
      exact this

theorem lookupFs_fss_na (na : Int → Nat) (n0 : Nat) (L : List (Int × Nat)) (x : Int) (hx : x ∈ L.map (·.1))
    (h0 : x ≠ 0) : lookupFs ((0, n0) :: L.map (fun q => (q.1, na q.1))) x = .ok (na x) := by
  have := lookupFs_map_na na x L hx
  unfold lookupFs at this ⊢
  have h0' : ((0 : Int) == x) = false := by simpa using (Ne.symm h0)
  simp only [List.find?_cons, h0']
  exact this

/-- the content of a flat feature is the same on both sides -/
theorem dval_exp3 {K : Consts} {ts : TypeSystem} {c : Cas} {ci : Nat} {H : Heap} {isAnn : Bool} {o : Obj} {f : Feature}
    (hf : FlatFeat K ts c ci H isAnn o f) (v : Val) (hv : alistGet? o.slots f.name = some v)
    (na : Int → Nat) (ci' : Nat) (hpL : Heap)
    (href : ∀ b, v = .ref b → ∃ x, xidOf H b = some x ∧ xidOf hpL (na x) = some x) :
    dvalOf hpL (exp3 H na ci' v) = dvalOf H v := by
  obtain ⟨_, _, _, _, _, _, _, _, _, _, _, v', hv', hcase⟩ := hf
  rw [hv] at hv'; cases hv'
  rcases hcase with ⟨_, hs⟩ | ⟨_, _, h3⟩ | ⟨_, _, _, _, _, _, _, hval⟩
  · rcases hs with ⟨vn, rfl, _⟩ | ⟨rfl, _⟩ <;> rfl
  · rcases h3 with rfl | ⟨_, i, rfl⟩ | ⟨_, s, rfl⟩ | ⟨_, b', rfl⟩ | ⟨_, t, rfl⟩ <;> rfl
  · rcases hval with rfl | ⟨b, rfl, _, _⟩
    · rfl
    · obtain ⟨x, hx, hx'⟩ := href b rfl
      simp only [exp3, hx, dvalOf, hx']

/-- the three passes of the reader on the written document, with everything the later steps need -/
theorem roundtrip_core (K : Consts) (ts : TypeSystem) (cass : List Cas) (ci : Nat) (c : Cas) (hp : Heap)
    (tsIdx ci' : Nat) (doc : XDoc) (st : St)
    (hc : cass[ci]? = some c) (hwf : RTWf c hp) (hnull : NullOk ts)
    (hsave : saveXmi K ts cass ci hp = .ok (doc, st))
    (hflat : ∀ q ∈ st.allFs, FlatFs K ts c ci st.heap q.2)
    (hmem : ∀ nv ∈ c.views, ∀ e ∈ Index.all nv.2.idx, slot st.heap e.oid "sofa" ≠ some .none)
    (hmok : MembersOk c st.heap) :
    ∃ (na : Int → Nat) (p : Pass1) (ld : Loaded),
      pass1 K ts tsIdx false doc { heap := st.heap } = .ok p ∧
      loadXmi K ts tsIdx ci' false st.heap doc = .ok ld ∧
      LOk K ts c ci st.heap (sortById st.allFs) ∧
      NaOk st.heap.length (sortById st.allFs) na ∧
      P1Spec ts cass c st.heap (sortById st.allFs) na p ∧
      HeapRel st.heap (sortById st.allFs) na (E3 st.heap na ci') ld.heap ∧
      ld.cas.views.map (viewContent ld.heap) = c.views.map (viewContent st.heap) ∧
      ViewsRel st.heap na c ld.cas := by
  have hL := lok_of_save hc hwf hsave hflat
  obtain ⟨na, p, hp1, hna, hs1⟩ := pass1_flat K ts cass ci c hp tsIdx doc st hc hwf hsave hnull hL
  obtain ⟨hp2, hpost, hlen2, hnull2, hrel2⟩ :=
    postAll_flat K ts cass ci c hp st.heap _ na tsIdx ci' p hc hwf hnull hL hna hs1
  obtain ⟨ld, hbuild, hrel3, hviews, hvrel⟩ :=
    buildCas_flat_strong K ts cass ci c hp st.heap _ na ci' p hp2 hc hwf hnull hL hna hs1 hmem hmok hlen2 hnull2 hrel2
  have hload : loadXmi K ts tsIdx ci' false st.heap doc = .ok ld := by
    unfold loadXmi
    simp only [hp1, hpost, bind, Except.bind]
    exact hbuild
  exact ⟨na, p, ld, hp1, hload, hL, hna, hs1, hrel3, hviews, hvrel⟩

/-- **XMI round trip on the flat fragment** -/
theorem xmi_roundtrip_flat_aux (K : Consts) (ts : TypeSystem) (cass : List Cas) (ci : Nat) (c : Cas) (hp : Heap)
    (tsIdx ci' : Nat) (doc : XDoc) (st : St)
    (hc : cass[ci]? = some c) (hwf : RTWf c hp) (hnull : NullOk ts)
    (hsave : saveXmi K ts cass ci hp = .ok (doc, st))
    (hflat : ∀ q ∈ st.allFs, FlatFs K ts c ci st.heap q.2)
    (_hdis : ∀ q ∈ st.allFs, ∀ nv ∈ c.views, q.1 ≠ nv.2.sofa.xid)
    (hmem : ∀ nv ∈ c.views, ∀ e ∈ Index.all nv.2.idx, slot st.heap e.oid "sofa" ≠ some .none)
    (hmok : MembersOk c st.heap) :
    ∃ (p : Pass1) (ld : Loaded),
      pass1 K ts tsIdx false doc { heap := st.heap } = .ok p ∧
      loadXmi K ts tsIdx ci' false st.heap doc = .ok ld ∧
      p.fss.map (·.1) = 0 :: (sortById st.allFs).map (·.1) ∧
      (∀ q ∈ st.allFs, ∃ (a' : Nat) (o o' : Obj), lookupFs p.fss q.1 = .ok a' ∧
          st.heap[q.2]? = some o ∧ ld.heap[a']? = some o' ∧ o'.ty = o.ty ∧ o'.xid = some q.1 ∧
          ∀ t : TypeRec, find? ts o.ty = some t → ∀ f ∈ allFeatures t,
            featContent ld.heap a' f.name = featContent st.heap q.2 f.name) ∧
      ld.cas.views.map (viewContent ld.heap) = c.views.map (viewContent st.heap) ∧
      (∀ q ∈ st.allFs, q.1 < ld.cas.nextXid) ∧
      (∀ nv ∈ c.views, nv.2.sofa.xid < ld.cas.nextXid ∧ nv.2.sofa.sofaNum < ld.cas.nextSofaNum) := by
  obtain ⟨na, p, ld, hp1, hload, hL, hna, hs1, hrel3, hviews, _⟩ :=
    roundtrip_core K ts cass ci c hp tsIdx ci' doc st hc hwf hnull hsave hflat hmem hmok
  have hxid : ∀ q ∈ sortById st.allFs, xidOf ld.heap (na q.1) = some q.1 := by
    intro q hq
    obtain ⟨o, o', _, ho', _, hx, _⟩ := hrel3 q hq
    unfold xidOf; rw [ho']; exact hx
  obtain ⟨p', hp1', hbnd, hnx, hns, hfssb, _, _⟩ := loadXmi_reseeds_aux K ts tsIdx ci' false st.heap doc ld hload
  rw [hp1] at hp1'; cases hp1'
  refine ⟨p, ld, hp1, hload, ?_, ?_, hviews, ?_, ?_⟩
  · rw [hs1.fss]
    simp only [List.map_cons, List.map_map]
    rfl
  · intro q hq0
    have hq := mem_sortById.mpr hq0
    obtain ⟨o, o', ho, ho', hty, hx, _, hslots⟩ := hrel3 q hq
    have hqm : q.1 ∈ (sortById st.allFs).map (·.1) := List.mem_map.mpr ⟨q, hq, rfl⟩
    refine ⟨na q.1, o, o', ?_, ho, ho', hty, hx, ?_⟩
    · rw [hs1.fss]
      exact lookupFs_fss_na na _ _ q.1 hqm (hL.ids q hq).2
    · intro t ht f hf
      obtain ⟨o2, t2, ho2, ht2, _, _, _, _, _, _, _, _, _, _, _, hfeat, _⟩ := hL.flat q hq
      rw [ho] at ho2; cases ho2
      rw [ht] at ht2; cases ht2
      have hff := hfeat f hf
      obtain ⟨_, _, _, _, _, _, _, _, _, _, _, v, hv, _⟩ := hfeat f hf
      have h1 : featContent st.heap q.2 f.name = dvalOf st.heap v := by
        unfold featContent slot Traverse.slot
        rw [ho]; simp only [Option.bind_some, hv, Option.getD_some]
      have h2 : featContent ld.heap (na q.1) f.name = dvalOf ld.heap (exp3 st.heap na ci' v) := by
        unfold featContent slot Traverse.slot
        rw [ho']; simp only [Option.bind_some, hslots f.name v hv, Option.getD_some, E3]
      rw [h1, h2]
      apply dval_exp3 hff v hv
      intro b hb
      subst hb
      obtain ⟨x, hxb, hxl⟩ := hL.closed q hq o ho f.name b hv
      exact ⟨x, hxb, hxid (x, b) hxl⟩
  · intro q hq0
    have hq := mem_sortById.mpr hq0
    have hm : (q.1, na q.1) ∈ p.fss := by
      rw [hs1.fss]
      exact List.mem_cons_of_mem _ (List.mem_map.mpr ⟨q, hq, rfl⟩)
    obtain ⟨_, _, _, hlt⟩ := hfssb _ hm
    exact hlt
  · intro nv hnv
    have hm : (nv.2.sofa.xid, psofaOf nv) ∈ p.sofas := by
      rw [hs1.sofas]
      exact List.mem_map.mpr ⟨nv, hnv, rfl⟩
    have := hbnd.1 _ hm
    simp only [psofaOf] at this
    rw [hnx, hns]
    omega

/-- the loader's id generator ends up positive -/
theorem loadXmi_nextXid_pos {K : Consts} {ts : TypeSystem} {tsIdx ci : Nat} {hp : Heap} {doc : XDoc} {ld : Loaded}
    (h : loadXmi K ts tsIdx ci false hp doc = .ok ld) : 0 < ld.cas.nextXid := by
  obtain ⟨p, hp1, _, hnx, _⟩ := loadXmi_reseeds_aux K ts tsIdx ci false hp doc ld h
  have h0 : P1Bounded ({ heap := hp } : Pass1) := by
    constructor <;> intro q hq <;> cases hq
  have hb := pass1_bounded_aux K ts tsIdx false doc { heap := hp } p h0 hp1
  have : (0 : Int) ≤ p.maxId := hb.2.1
  rw [hnx]; omega

/-- serialising the loaded CAS again yields the identical document -/
theorem xmi_roundtrip_flat_fixpoint_aux (K : Consts) (ts : TypeSystem) (cass : List Cas) (ci : Nat) (c : Cas)
    (hp : Heap) (tsIdx : Nat) (doc : XDoc) (st : St) (ld : Loaded)
    (hc : cass[ci]? = some c) (hwf : RTWf c hp) (hnull : NullOk ts)
    (hsave : saveXmi K ts cass ci hp = .ok (doc, st))
    (hflat : ∀ q ∈ st.allFs, FlatFs K ts c ci st.heap q.2)
    (_hdis : ∀ q ∈ st.allFs, ∀ nv ∈ c.views, q.1 ≠ nv.2.sofa.xid)
    (hmem : ∀ nv ∈ c.views, ∀ e ∈ Index.all nv.2.idx, slot st.heap e.oid "sofa" ≠ some .none)
    (hmok : MembersOk c st.heap)
    (hload : loadXmi K ts tsIdx cass.length false st.heap doc = .ok ld) :
    ∃ st' : St, saveXmi K ts (cass ++ [ld.cas]) cass.length ld.heap = .ok (doc, st') := by
  obtain ⟨na, p, ld', _, hload', hL, hna, _, hrel3, hviews, hvrel⟩ :=
    roundtrip_core K ts cass ci c hp tsIdx cass.length doc st hc hwf hnull hsave hflat hmem hmok
  rw [hload] at hload'; cases hload'
  exact saveXmi_again K ts cass ci c hp na doc st ld hc hwf hsave hL hna hrel3 hvrel hviews
    (loadXmi_nextXid_pos hload)

end Cassis.Xmi
