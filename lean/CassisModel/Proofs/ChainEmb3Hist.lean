/-
`InhAnc` (every inherited record is an own record of a strict ancestor, `Proofs/ChainEmb3Core.lean`) is an invariant of
the histories of type-system construction.
-/
import CassisModel.Proofs.ChainEmb3Core
import CassisModel.Proofs.MergeFeatInvA

namespace Cassis.ChainE
open Cassis.TS

theorem anc_of_grow {K : Consts} {ts ts' : TypeSystem} (h : Grow K ts ts') {a b : String} (hab : Anc ts a b) :
    Anc ts' a b := by
  induction hab with
  | refl ha =>
    obtain ⟨t, ht⟩ := (hasExact_iff_find ts _).mp ha
    obtain ⟨t', ht', _⟩ := h _ t ht
    exact Anc.refl _ ((hasExact_iff_find ts' _).mpr ⟨t', ht'⟩)
  | step b s tb hfb hs _ ih =>
    obtain ⟨t', ht', hs', _⟩ := h b tb hfb
    exact Anc.step _ b s t' ht' (by rw [hs']; exact hs) ih

/-- an inherited record of `ts` keeps its provenance in an extension -/
theorem inhAnc_lift {K : Consts} {ts ts' : TypeSystem} (hg : Grow K ts ts') (hanc : ∀ a b, Anc ts a b → Anc ts' a b)
    {x : String} {t : TypeRec} (hx : find? ts x = some t) (hao : InhAnc ts) {r : Feature} (hr : r ∈ t.inh) :
    ∃ a ta, a ≠ x ∧ Anc ts' a x ∧ find? ts' a = some ta ∧ r ∈ ta.own := by
  obtain ⟨a, ta, hne, hab, hfa, hra⟩ := hao t (find?_mem hx) r hr
  rw [find?_name hx] at hne hab
  obtain ⟨ta', hta', _, _, hown, _⟩ := hg a ta hfa
  exact ⟨a, ta', hne, hanc a x hab, hta', hown r hra⟩

theorem inhAnc_addFeature {K : Consts} {ts ts' : TypeSystem} {dom : String} {f : Feature} (hc : Consistent ts)
    (hf : FeatInv ts) (hg : Grow K ts ts') (hao : InhAnc ts) (h : addFeature ts dom f = .ok ts') : InhAnc ts' := by
  obtain ⟨t0, ht0, hcase⟩ := addFeature_cases h
  rcases hcase with ⟨_, rfl⟩ | ⟨_, _, hpush⟩
  · exact hao
  · have hT := addFeature_target hc hf ht0 hpush
    have hc' := consistent_addFeature_aux ts ts' dom f hc h
    have hanc : ∀ a b, Anc ts a b → Anc ts' a b := fun a b hab => (anc_skel_iff hT.skel a b).mpr hab
    intro t' ht' r hr
    have hx' : find? ts' t'.name = some t' := find?_of_mem hc'.nodup ht'
    have hmem : t'.name ∈ ts.types.map (·.name) := by
      rw [names_of_skel, ← hT.skel, ← names_of_skel]; exact List.mem_map.mpr ⟨t', ht', rfl⟩
    obtain ⟨t, hx⟩ := (hasExact_iff_find ts _).mp ((hasExact_iff_mem ts _).mpr hmem)
    rcases hT.cases hx hx' with ⟨_, e⟩ | ⟨hxd, hax, _, e⟩ | ⟨_, e, _⟩
    · rw [e] at hr
      exact inhAnc_lift hg hanc hx hao hr
    · rw [e] at hr
      rcases List.mem_append.mp hr with hr | hr
      · exact inhAnc_lift hg hanc hx hao hr
      · simp only [List.mem_singleton] at hr
        subst hr
        obtain ⟨td', htd', h1, _, _⟩ := hT.recs dom t0 ht0
        refine ⟨dom, td', fun e' => hxd e'.symm, hanc _ _ hax, htd', ?_⟩
        rw [h1 rfl]
        exact List.mem_append_right _ List.mem_cons_self
    · rw [e] at hr
      exact inhAnc_lift hg hanc hx hao hr

theorem inhAnc_createType {K : Consts} {ts ts' : TypeSystem} {n s : String} {d : Option String} (hc : Consistent ts)
    (hf : FeatInv ts) (hnew : hasExact ts n = false) (hao : InhAnc ts) (h : createType K ts n s d = .ok ts') :
    InhAnc ts' := by
  have hg := createType_grow K ts ts' n s d hc hf hnew h
  have hc' := consistent_createType_aux K ts ts' n s d hc hnew h
  have hanc : ∀ a b, Anc ts a b → Anc ts' a b := fun a b hab => anc_of_grow hg hab
  obtain ⟨sup, _, hsm, e⟩ := createType_shape K ts ts' n s d hc hf hnew h
  have hfs : find? ts sup.name = some sup := find?_of_mem hc.nodup hsm
  intro t' ht' r hr
  have ht'' := ht'
  rw [e] at ht''
  simp only [List.mem_append, List.mem_map, List.mem_singleton] at ht''
  rcases ht'' with ⟨t0, ht0, rfl⟩ | rfl
  · rw [upd_inh] at hr
    rw [upd_name]
    exact inhAnc_lift hg hanc (find?_of_mem hc.nodup ht0) hao hr
  · -- the new type: its inherited records are the effective features of the supertype
    have hx' : find? ts' n = some { name := n, super := some sup.name, descr := d, inh := allFeatures sup } :=
      find?_of_mem hc'.nodup ht'
    have hne : sup.name ≠ n := by
      intro e'
      rw [← e', (hasExact_iff_find ts _).mpr ⟨sup, hfs⟩] at hnew; cases hnew
    have hsn : Anc ts' sup.name n :=
      Anc.step _ n sup.name _ hx' rfl (hanc _ _ (Anc.refl _ ((hasExact_iff_find ts _).mpr ⟨sup, hfs⟩)))
    rcases List.mem_append.mp (allFeatures_sub (show r ∈ allFeatures sup from hr)) with h0 | h0
    · obtain ⟨ts1, hts1, _, _, hown, _⟩ := hg _ sup hfs
      exact ⟨sup.name, ts1, hne, hsn, hts1, hown r h0⟩
    · obtain ⟨a, ta, _, hab, hfa, hra⟩ := hao sup hsm r h0
      obtain ⟨ta', hta', _, _, hown, _⟩ := hg a ta hfa
      refine ⟨a, ta', ?_, Anc.step _ n sup.name _ hx' rfl (hanc _ _ hab), hta', hown r hra⟩
      intro e'
      have e'' : a = n := e'
      rw [← e'', (hasExact_iff_find ts _).mpr ⟨ta, hfa⟩] at hnew; cases hnew

end Cassis.ChainE
