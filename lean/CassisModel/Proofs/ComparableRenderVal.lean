/-
One-step lemmas about `renderVal` (`Model/Comparable.lean`): values that are not references, references to array objects
and to other structures, the element loop of an `FSArray`.  (Split off `Proofs/ComparableIsoRender.lean` so that the
saturation of the recursion budget, `Proofs/ComparableFuel.lean`, can be used there.)
-/
import CassisModel.Spec.ComparableIso
import CassisModel.Proofs.Comparable

namespace Cassis.Comparable
open Cassis.TS Cassis.Traverse

/-! ### values that are not references -/

theorem renderVal_plain (K : Consts) (hp : Heap) (byId : List (Option Int × String)) (f : Nat) {v : Val} {c : Cell}
    (h : plainCell v = some c) : renderVal K hp byId f v = .ok c := by
  cases v <;> simp only [plainCell, Option.some.injEq, reduceCtorEq] at h <;> subst h <;> cases f <;> rfl

theorem renderVal_sameCell (K : Consts) (hp hp' : Heap) (byId byId' : List (Option Int × String)) (f f' : Nat)
    {v v' : Val} (h : SameCell v v') : renderVal K hp' byId' f' v' = renderVal K hp byId f v := by
  obtain ⟨c, h1, h2⟩ := h
  rw [renderVal_plain K hp byId f h1, renderVal_plain K hp' byId' f' h2]

theorem renderVal_emptyList (K : Consts) (hp : Heap) (byId : List (Option Int × String)) (f : Nat) {v : Val}
    (h : EmptyList v) : renderVal K hp byId (f + 1) v = .ok (.list []) := by
  rcases h with h | h | h | h | h <;> subst h <;> rfl

/-- a reference to an array object whose `elements` are not `None` is rendered as the elements are -/
theorem renderVal_ref_arr (K : Consts) (hp : Heap) (byId : List (Option Int × String)) (f : Nat) {a : Nat} {v : Val}
    (h1 : isArrayFs K hp a = true) (h2 : slot hp a "elements" = some v) (h3 : v ≠ .none) :
    renderVal K hp byId (f + 1) (.ref a) = renderVal K hp byId f v := by
  cases v <;> first | exact absurd rfl h3 | simp only [renderVal, h1, if_true, h2]

theorem renderVal_ref_arr_none (K : Consts) (hp : Heap) (byId : List (Option Int × String)) (f : Nat) {a : Nat}
    (h1 : isArrayFs K hp a = true) (h2 : slot hp a "elements" = some .none) :
    renderVal K hp byId (f + 1) (.ref a) = .ok .none := by
  simp only [renderVal, h1, if_true, h2]

theorem renderVal_ref_arr_noslot (K : Consts) (hp : Heap) (byId : List (Option Int × String)) (f : Nat) {a : Nat}
    (h1 : isArrayFs K hp a = true) (h2 : slot hp a "elements" = none) :
    renderVal K hp byId (f + 1) (.ref a) = .error .attributeError := by
  simp only [renderVal, h1, if_true, h2]

theorem renderVal_ref_fs (K : Consts) (hp : Heap) (byId : List (Option Int × String)) (f : Nat) {a : Nat}
    (h1 : isArrayFs K hp a = false) :
    renderVal K hp byId (f + 1) (.ref a) =
      (match getById byId (xidOf hp a) with | some s => .ok (.str s) | none => .ok .none) := by
  simp only [renderVal, h1, Bool.false_eq_true, if_false]
  rfl

/-- the element loop of an `FSArray` -/
def elemCell (K : Consts) (hp : Heap) (byId : List (Option Int × String)) (f : Nat) (r : Option Nat) : Except Err Cell :=
  match r with
  | none => .ok Cell.null
  | some a => renderVal K hp byId f (.ref a)

theorem renderVal_refs (K : Consts) (hp : Heap) (byId : List (Option Int × String)) (f : Nat) (l : List (Option Nat)) :
    renderVal K hp byId (f + 1) (.refs l) = (l.mapM (elemCell K hp byId f)).map Cell.list := by
  simp only [renderVal]
  rfl

end Cassis.Comparable
