/-
Proofs for the id-invariance part of C20: the `_aux` lemmas used by `Properties/C20Ids.lean`.

`renumber σ hp` changes nothing but the `xid` field of the objects; `renderFrom` reads that field only through `xidOf`,
as a key into the anchor map.  For an injective `σ` the anchor map of the renumbered heap is the original one with its
keys mapped through `σ`, and looking up a mapped key in the mapped map gives what the original lookup gave.
-/
import CassisModel.Spec.ComparableIds
import CassisModel.Proofs.Comparable

namespace Cassis.Comparable
open Cassis.TS Cassis.Traverse

/-! ### what does not look at ids -/

theorem renumber_getElem? (σ : Int → Int) (hp : Heap) (a : Nat) :
    (renumber σ hp)[a]? = (hp[a]?).map (fun o => { o with xid := o.xid.map σ }) := by
  simp [renumber]

theorem renumber_length (σ : Int → Int) (hp : Heap) : (renumber σ hp).length = hp.length := by
  simp [renumber]

theorem slot_renumber (σ : Int → Int) (hp : Heap) (a : Nat) (n : String) :
    slot (renumber σ hp) a n = slot hp a n := by
  unfold slot
  rw [renumber_getElem?]
  cases hp[a]? <;> rfl

theorem tyOf_renumber (σ : Int → Int) (hp : Heap) (a : Nat) : tyOf (renumber σ hp) a = tyOf hp a := by
  unfold tyOf
  rw [renumber_getElem?]
  cases hp[a]? <;> rfl

theorem xidOf_renumber (σ : Int → Int) (hp : Heap) (a : Nat) :
    xidOf (renumber σ hp) a = (xidOf hp a).map σ := by
  unfold xidOf
  rw [renumber_getElem?]
  cases hp[a]? <;> rfl

theorem isAnnot_renumber (σ : Int → Int) (hp : Heap) (a : Nat) : isAnnot (renumber σ hp) a = isAnnot hp a := by
  unfold isAnnot
  simp only [slot_renumber]

theorem beginOf_renumber (σ : Int → Int) (hp : Heap) (a : Nat) : beginOf (renumber σ hp) a = beginOf hp a := by
  unfold beginOf
  simp only [slot_renumber]

theorem endOf_renumber (σ : Int → Int) (hp : Heap) (a : Nat) : endOf (renumber σ hp) a = endOf hp a := by
  unfold endOf
  simp only [slot_renumber]

theorem isArrayFs_renumber (K : Consts) (σ : Int → Int) (hp : Heap) (a : Nat) :
    isArrayFs K (renumber σ hp) a = isArrayFs K hp a := by
  unfold isArrayFs
  rw [tyOf_renumber]

theorem cmpFs_renumber (σ : Int → Int) (hp : Heap) (hsh : Nat → Int) (a b : Nat) :
    cmpFs (renumber σ hp) hsh a b = cmpFs hp hsh a b := by
  unfold cmpFs
  simp only [isAnnot_renumber, beginOf_renumber, endOf_renumber]

theorem ltFs_renumber (σ : Int → Int) (hp : Heap) (hsh : Nat → Int) :
    ltFs (renumber σ hp) hsh = ltFs hp hsh := by
  funext a b
  unfold ltFs
  rw [cmpFs_renumber]

theorem tyOf_renumber_fun (σ : Int → Int) (hp : Heap) : tyOf (renumber σ hp) = tyOf hp := by
  funext a
  exact tyOf_renumber σ hp a

theorem typeKeys_renumber (σ : Int → Int) (hp : Heap) (addrs : List Nat) :
    typeKeys (renumber σ hp) addrs = typeKeys hp addrs := by
  unfold typeKeys
  rw [tyOf_renumber_fun]

theorem group_renumber (σ : Int → Int) (hp : Heap) (addrs : List Nat) (t : String) :
    group (renumber σ hp) addrs t = group hp addrs t := by
  unfold group
  rw [tyOf_renumber_fun]

theorem coveredText_renumber (σ : Int → Int) (cass : List Cas) (hp : Heap) (a : Nat) :
    Cas.coveredText cass (renumber σ hp) a = Cas.coveredText cass hp a := by
  unfold Cas.coveredText
  rw [renumber_getElem?]
  cases hp[a]? <;> rfl

theorem anchorOf_renumber (σ : Int → Int) (cass : List Cas) (hp : Heap) (indexed : List Nat) (o : Opts) (a : Nat) :
    anchorOf cass (renumber σ hp) indexed o a = anchorOf cass hp indexed o a := by
  unfold anchorOf
  simp only [tyOf_renumber, isAnnot_renumber, beginOf_renumber, endOf_renumber, slot_renumber]

/-! ### the anchor map: keys mapped through an injective function -/

/-- the anchor map with every key sent through `σ` -/
def mapK (σ : Int → Int) (l : List (Option Int × String)) : List (Option Int × String) :=
  l.map (fun kv => (kv.1.map σ, kv.2))

/-- the anchor state with every key sent through `σ` -/
def mapKeys (σ : Int → Int) (st : AnchorSt) : AnchorSt := { st with byId := mapK σ st.byId }

theorem beq_map_of_injective (σ : Int → Int) (hσ : ∀ x y, σ x = σ y → x = y) (a b : Option Int) :
    (a.map σ == b.map σ) = (a == b) := by
  rw [Bool.eq_iff_iff]
  simp only [beq_iff_eq]
  constructor
  · intro h
    cases a <;> cases b <;> simp only [Option.map_none, Option.map_some, Option.some.injEq, reduceCtorEq] at h ⊢
    exact hσ _ _ h
  · intro h
    rw [h]

theorem setById_mapK (σ : Int → Int) (hσ : ∀ x y, σ x = σ y → x = y) (l : List (Option Int × String))
    (k : Option Int) (v : String) :
    setById (mapK σ l) (k.map σ) v = mapK σ (setById l k v) := by
  induction l with
  | nil => rfl
  | cons kv rest ih =>
    obtain ⟨k', v'⟩ := kv
    show setById ((k'.map σ, v') :: mapK σ rest) (k.map σ) v = _
    rw [setById, setById, beq_map_of_injective σ hσ]
    cases k' == k
    · simp only [Bool.false_eq_true, if_false]
      rw [ih]
      rfl
    · rfl

theorem getById_mapK (σ : Int → Int) (hσ : ∀ x y, σ x = σ y → x = y) (l : List (Option Int × String))
    (k : Option Int) :
    getById (mapK σ l) (k.map σ) = getById l k := by
  induction l with
  | nil => rfl
  | cons kv rest ih =>
    obtain ⟨k', v'⟩ := kv
    show getById ((k'.map σ, v') :: mapK σ rest) (k.map σ) = _
    rw [getById, getById, beq_map_of_injective σ hσ]
    cases k' == k
    · simp only [Bool.false_eq_true, if_false]
      exact ih
    · rfl

theorem anchorStep_renumber (σ : Int → Int) (hσ : ∀ x y, σ x = σ y → x = y) (cass : List Cas) (hp : Heap)
    (indexed : List Nat) (o : Opts) (st : AnchorSt) (a : Nat) :
    anchorStep cass (renumber σ hp) indexed o (mapKeys σ st) a =
      (anchorStep cass hp indexed o st a).map (mapKeys σ) := by
  unfold anchorStep
  rw [anchorOf_renumber]
  cases anchorOf cass hp indexed o a with
  | error e => rfl
  | ok s =>
    show Except.ok _ = Except.ok _
    congr 1
    show AnchorSt.mk _ _ = AnchorSt.mk _ _
    congr 1
    rw [xidOf_renumber]
    exact setById_mapK σ hσ _ _ _

theorem anchorsOfList_renumber (σ : Int → Int) (hσ : ∀ x y, σ x = σ y → x = y) (cass : List Cas) (hp : Heap)
    (indexed : List Nat) (o : Opts) (l : List Nat) (st : AnchorSt) :
    anchorsOfList cass (renumber σ hp) indexed o l (mapKeys σ st) =
      (anchorsOfList cass hp indexed o l st).map (mapKeys σ) := by
  induction l generalizing st with
  | nil => rfl
  | cons a as ih =>
    rw [anchorsOfList, anchorsOfList, anchorStep_renumber σ hσ]
    cases anchorStep cass hp indexed o st a with
    | error e => rfl
    | ok st' => exact ih st'

theorem genAnchors_renumber (σ : Int → Int) (hσ : ∀ x y, σ x = σ y → x = y) (ts : TypeSystem) (cass : List Cas)
    (hp : Heap) (indexed : List Nat) (o : Opts) (sorted l : List (String × List Nat)) (st : AnchorSt) :
    genAnchors ts cass (renumber σ hp) indexed o sorted l (mapKeys σ st) =
      (genAnchors ts cass hp indexed o sorted l st).map (mapKeys σ) := by
  induction l generalizing st with
  | nil => rfl
  | cons p rest ih =>
    obtain ⟨t, fss⟩ := p
    rw [genAnchors, genAnchors]
    cases getType ts t with
    | error e => rfl
    | ok _ =>
      simp only []
      rw [anchorsOfList_renumber σ hσ]
      cases anchorsOfList cass hp indexed o fss st with
      | error e => rfl
      | ok st' => exact ih st'

/-! ### rendering with the mapped anchor map -/

theorem renderVal_renumber (σ : Int → Int) (hσ : ∀ x y, σ x = σ y → x = y) (K : Consts) (hp : Heap)
    (byId : List (Option Int × String)) (f : Nat) (v : Val) :
    renderVal K (renumber σ hp) (mapK σ byId) f v = renderVal K hp byId f v := by
  induction f generalizing v with
  | zero => cases v <;> rfl
  | succ f ih =>
    cases v with
    | refs l =>
      simp only [renderVal]
      congr 2
      funext r
      cases r with
      | none => rfl
      | some a => exact ih (.ref a)
    | ref a =>
      simp only [renderVal]
      rw [isArrayFs_renumber, slot_renumber, xidOf_renumber, getById_mapK σ hσ]
      split
      · split
        · rfl
        · exact ih _
        · rfl
      · rfl
    | _ => rfl

theorem renderCols_renumber (σ : Int → Int) (hσ : ∀ x y, σ x = σ y → x = y) (K : Consts) (hp : Heap)
    (byId : List (Option Int × String)) (a : Nat) (cols : List String) :
    renderCols K (renumber σ hp) (mapK σ byId) a cols = renderCols K hp byId a cols := by
  induction cols with
  | nil => rfl
  | cons n ns ih =>
    rw [renderCols, renderCols, ih, renderVal_renumber σ hσ, slot_renumber, renumber_length]

theorem renderRow_renumber (σ : Int → Int) (hσ : ∀ x y, σ x = σ y → x = y) (K : Consts) (cass : List Cas) (hp : Heap)
    (byId : List (Option Int × String)) (t : TypeRec) (annType : Bool) (a : Nat) :
    renderRow K cass (renumber σ hp) (mapK σ byId) t annType a = renderRow K cass hp byId t annType a := by
  unfold renderRow
  simp only [xidOf_renumber, getById_mapK σ hσ, isAnnot_renumber, coveredText_renumber, isArrayFs_renumber,
    slot_renumber, renderVal_renumber σ hσ, renderCols_renumber σ hσ, renumber_length]

theorem renderRows_renumber (σ : Int → Int) (hσ : ∀ x y, σ x = σ y → x = y) (K : Consts) (cass : List Cas) (hp : Heap)
    (byId : List (Option Int × String)) (t : TypeRec) (annType : Bool) (l : List Nat) :
    renderRows K cass (renumber σ hp) (mapK σ byId) t annType l = renderRows K cass hp byId t annType l := by
  induction l with
  | nil => rfl
  | cons a as ih =>
    rw [renderRows, renderRows, ih, renderRow_renumber σ hσ]

theorem renderSections_renumber (σ : Int → Int) (hσ : ∀ x y, σ x = σ y → x = y) (K : Consts) (ts : TypeSystem)
    (cass : List Cas) (hp : Heap) (o : Opts) (byId : List (Option Int × String)) (l : List (String × List Nat)) :
    renderSections K ts cass (renumber σ hp) o (mapK σ byId) l = renderSections K ts cass hp o byId l := by
  induction l with
  | nil => rfl
  | cons p rest ih =>
    obtain ⟨tn, fss⟩ := p
    rw [renderSections, renderSections, ih]
    simp only [renderRows_renumber σ hσ]

/-! ### the two lemmas -/

theorem renderFrom_renumber_aux (K : Consts) (ts : TypeSystem) (cass : List Cas) (hp : Heap) (o : Opts)
    (hsh : Nat → Int) (indexed addrs : List Nat) (σ : Int → Int) (hσ : ∀ x y, σ x = σ y → x = y) :
    renderFrom K ts cass (renumber σ hp) o hsh indexed addrs = renderFrom K ts cass hp o hsh indexed addrs := by
  unfold renderFrom
  simp only [typeKeys_renumber, group_renumber, ltFs_renumber]
  have h := genAnchors_renumber σ hσ ts cass hp indexed o
    ((sortNames (typeKeys hp addrs)).map (fun t => (t, sortFs (ltFs hp hsh) (group hp addrs t))))
    ((sortNames (typeKeys hp addrs)).map (fun t => (t, sortFs (ltFs hp hsh) (group hp addrs t)))) {}
  have h0 : mapKeys σ ({} : AnchorSt) = {} := rfl
  rw [h0] at h
  rw [h]
  cases genAnchors ts cass hp indexed o
    ((sortNames (typeKeys hp addrs)).map (fun t => (t, sortFs (ltFs hp hsh) (group hp addrs t))))
    ((sortNames (typeKeys hp addrs)).map (fun t => (t, sortFs (ltFs hp hsh) (group hp addrs t)))) {} with
  | error e => rfl
  | ok st => exact renderSections_renumber σ hσ K ts cass hp o st.byId _

theorem renderFrom_ids_and_order_aux (K : Consts) (ts : TypeSystem) (cass : List Cas) (hp : Heap) (o : Opts)
    (hsh hsh' : Nat → Int) (indexed indexed' addrs addrs' : List Nat) (σ : Int → Int)
    (hσ : ∀ x y, σ x = σ y → x = y)
    (hperm : addrs.Perm addrs') (hidx : ∀ a, a ∈ indexed ↔ a ∈ indexed') (hn : addrs.Nodup)
    (hd : Distinct hp addrs) :
    renderFrom K ts cass (renumber σ hp) o hsh' indexed' addrs' = renderFrom K ts cass hp o hsh indexed addrs := by
  rw [renderFrom_renumber_aux K ts cass hp o hsh' indexed' addrs' σ hσ]
  exact (renderFrom_perm_invariant_aux K ts cass hp o hsh hsh' indexed indexed' addrs addrs' hperm hidx hn hd).symm

end Cassis.Comparable
