/-
C12 round trip, layer 1: the dependency order exists whenever the supertype relation is well-founded
(`Json.toposort` succeeds), and it has no repetitions.
-/
import CassisModel.Proofs.TsXml

namespace Cassis.Json

theorem exists_min_rank (rank : String → Nat) : ∀ (l : List String), l ≠ [] →
    ∃ m ∈ l, ∀ x ∈ l, rank m ≤ rank x := by
  intro l
  induction l with
  | nil => intro h; exact absurd rfl h
  | cons a l ih =>
    intro _
    cases l with
    | nil => exact ⟨a, List.mem_cons_self, fun x hx => by simp at hx; subst hx; exact Nat.le_refl _⟩
    | cons b l' =>
      obtain ⟨m, hm, hmin⟩ := ih (by simp)
      by_cases h : rank a ≤ rank m
      · refine ⟨a, List.mem_cons_self, ?_⟩
        intro x hx
        rcases List.mem_cons.mp hx with rfl | hx
        · exact Nat.le_refl _
        · exact Nat.le_trans h (hmin x hx)
      · refine ⟨m, List.mem_cons_of_mem _ hm, ?_⟩
        intro x hx
        rcases List.mem_cons.mp hx with rfl | hx
        · omega
        · exact hmin x hx

theorem toposort_go_ok (depOf : String → List String) (rank : String → Nat)
    (hrank : ∀ a d, d ∈ depOf a → d ≠ a → rank d < rank a) :
    ∀ (fuel : Nat) (done rest : List String), rest.length < fuel → rest.Nodup → done.Nodup →
      (∀ x ∈ done, x ∉ rest) →
      ∃ order, toposort.go depOf fuel done rest = .ok order ∧ order.Perm (done ++ rest) := by
  intro fuel
  induction fuel with
  | zero => intro done rest h; omega
  | succ fuel ih =>
    intro done rest hlen hnr hnd hdis
    unfold toposort.go
    simp only []
    split
    · rename_i hemp
      have : rest = [] := List.isEmpty_iff.mp hemp
      subst this
      exact ⟨done, rfl, by simp⟩
    · rename_i hemp
      have hne : rest ≠ [] := fun e => hemp (by rw [e]; rfl)
      obtain ⟨m, hm, hmin⟩ := exists_min_rank rank rest hne
      have hPm : (depOf m).all (fun d => d == m || done.contains d || !(rest.contains d)) = true := by
        rw [List.all_eq_true]
        intro d hd
        by_cases hdm : d = m
        · simp [hdm]
        · have hlt := hrank m d hd hdm
          have hdr : d ∉ rest := fun hdr => by have := hmin d hdr; omega
          have : rest.contains d = false := (contains_false_iff rest d).mpr hdr
          rw [this]; simp
      have hmready : m ∈ rest.filter (fun n => (depOf n).all
          (fun d => d == n || done.contains d || !(rest.contains d))) :=
        List.mem_filter.mpr ⟨hm, hPm⟩
      split
      · rename_i hre
        have := List.isEmpty_iff.mp hre
        rw [this] at hmready
        cases hmready
      · have hperm := QSort.qsort_toList_perm (rest.filter (fun n => (depOf n).all
          (fun d => d == n || done.contains d || !(rest.contains d)))) (· < ·)
        generalize hL : ((rest.filter (fun n => (depOf n).all
          (fun d => d == n || done.contains d || !(rest.contains d)))).toArray.qsort (· < ·)).toList = level
          at hperm
        have hlev : ∀ x, x ∈ level ↔ x ∈ rest ∧ (depOf x).all
            (fun d => d == x || done.contains d || !(rest.contains d)) = true := by
          intro x
          rw [hperm.mem_iff, List.mem_filter]
        have hfe : rest.filter (fun n => !(level.contains n)) =
            rest.filter (fun n => !((depOf n).all (fun d => d == n || done.contains d || !(rest.contains d)))) := by
          apply List.filter_congr
          intro x hx
          congr 1
          cases hp : (depOf x).all (fun d => d == x || done.contains d || !(rest.contains d)) with
          | true => exact List.contains_iff_mem.mpr ((hlev x).mpr ⟨hx, hp⟩)
          | false =>
            apply (contains_false_iff level x).mpr
            intro hxl
            rw [((hlev x).mp hxl).2] at hp
            cases hp
        have hml : m ∈ level := (hlev m).mpr ⟨hm, hPm⟩
        have hlt : (rest.filter (fun n => !(level.contains n))).length < rest.length := by
          apply List.length_filter_lt_length_iff_exists.mpr
          exact ⟨m, hm, by simp [hml]⟩
        have hsplit : (level ++ rest.filter (fun n => !(level.contains n))).Perm rest := by
          rw [hfe]
          exact (List.Perm.append_right _ hperm).trans (List.filter_append_perm _ rest)
        obtain ⟨order, hgo, hp⟩ := ih (done ++ level) (rest.filter (fun n => !(level.contains n)))
          (by omega) (hnr.sublist List.filter_sublist)
          (by
            rw [List.nodup_append]
            refine ⟨hnd, hperm.nodup_iff.mpr (hnr.sublist List.filter_sublist), ?_⟩
            intro a ha b hb e
            subst e
            exact hdis a ha ((hlev a).mp hb).1)
          (by
            intro x hx hx'
            have hx'' := List.mem_filter.mp hx'
            rcases List.mem_append.mp hx with hx | hx
            · exact hdis x hx hx''.1
            · have : level.contains x = true := List.contains_iff_mem.mpr hx
              rw [this] at hx''
              exact absurd hx''.2 (by simp))
        refine ⟨order, hgo, hp.trans ?_⟩
        rw [List.append_assoc]
        exact List.Perm.append_left _ hsplit

/-- the dependency order exists when supertypes have a smaller rank, and it lists every name once -/
theorem toposort_ok (types : List JType) (rank : String → Nat)
    (h : ∀ t ∈ types, t.super ≠ t.name → rank t.super < rank t.name) :
    ∃ order, toposort types = .ok order ∧ order.Nodup ∧
      ∀ x ∈ order, x ∈ types.map (·.name) ∨ x ∈ types.map (·.super) := by
  unfold toposort
  simp only []
  obtain ⟨order, hgo, hp⟩ := toposort_go_ok
    (fun n => (types.filter (fun t => t.name == n)).map (·.super)) rank (by
      intro a d hd hne
      obtain ⟨t, ht, rfl⟩ := List.mem_map.mp hd
      obtain ⟨ht1, ht2⟩ := List.mem_filter.mp ht
      have : t.name = a := by simpa using ht2
      subst this
      exact h t ht1 hne)
    ((types.map (·.name) ++ types.map (·.super)).eraseDups.length + 1) []
    (types.map (·.name) ++ types.map (·.super)).eraseDups (Nat.lt_succ_self _)
    (TsXml.nodup_eraseDups _ _ (Nat.le_refl _)) List.nodup_nil (fun x hx => by cases hx)
  rw [List.nil_append] at hp
  refine ⟨order, hgo, hp.nodup_iff.mpr (TsXml.nodup_eraseDups _ _ (Nat.le_refl _)), ?_⟩
  intro x hx
  have := hp.mem_iff.mp hx
  rw [List.mem_eraseDups] at this
  exact List.mem_append.mp this

end Cassis.Json
