/-
Round trip, layers 0 and 1: the writer on flat structures, and the first pass of the reader over the written document.
-/
import CassisModel.Proofs.RoundTripDefs
import CassisModel.Proofs.Xmi
import CassisModel.Proofs.XmiLoad2
import CassisModel.Proofs.Reach

namespace Cassis.Xmi
open Cassis.TS Cassis.Traverse Cassis.Lex

theorem pass1_flat (K : Consts) (ts : TypeSystem) (cass : List Cas) (ci : Nat) (c : Cas) (hp : Heap) (tsIdx : Nat)
    (doc : XDoc) (st : St) (hc : cass[ci]? = some c) (hwf : RTWf c hp)
    (hsave : saveXmi K ts cass ci hp = .ok (doc, st)) (hnull : NullOk ts)
    (hL : LOk K ts c ci st.heap (sortById st.allFs)) :
    ∃ (na : Int → Nat) (p : Pass1), pass1 K ts tsIdx false doc { heap := st.heap } = .ok p ∧
      NaOk st.heap.length (sortById st.allFs) na ∧ P1Spec ts cass c st.heap (sortById st.allFs) na p := by
  sorry

end Cassis.Xmi
