/-
Round trip, layers 0 and 1: the writer on flat structures, and the first pass of the reader over the written document.
-/
import CassisModel.Proofs.RoundTripDefs
import CassisModel.Proofs.Xmi
import CassisModel.Proofs.XmiLoad2
import CassisModel.Proofs.Reach
import CassisModel.Proofs.RoundTripElem

namespace Cassis.Xmi
open Cassis.TS Cassis.Traverse Cassis.Lex

/-! ### positions and new addresses -/

/-- position of the id `x` in the collected structures -/
def posOf (x : Int) : List (Int × Nat) → Nat
  | [] => 0
  | q :: L => if q.1 = x then 0 else posOf x L + 1

/-- the entries the first pass appends to the id table, the first new object sitting at address `n` -/
def addrsFrom : Nat → List (Int × Nat) → List (Int × Nat)
  | _, [] => []
  | n, q :: L => (q.1, n) :: addrsFrom (n + 1) L

theorem addrsFrom_eq : ∀ (L : List (Int × Nat)) (n : Nat), (L.map (·.1)).Nodup →
    addrsFrom n L = L.map (fun q => (q.1, n + posOf q.1 L))
  | [], _, _ => rfl
  | q :: L, n, hn => by
    rw [List.map_cons, List.nodup_cons] at hn
    rw [addrsFrom, addrsFrom_eq L (n + 1) hn.2, List.map_cons]
    congr 1
    · simp [posOf]
    · apply List.map_congr_left
      intro q' hq'
      have hne : q.1 ≠ q'.1 := by
        intro h; apply hn.1; rw [h]; exact List.mem_map_of_mem hq'
      simp only [posOf, hne, if_false]
      congr 1
      omega

theorem addrsFrom_keys : ∀ (L : List (Int × Nat)) (n : Nat), (addrsFrom n L).map (·.1) = L.map (·.1)
  | [], _ => rfl
  | q :: L, n => by rw [addrsFrom, List.map_cons, List.map_cons, addrsFrom_keys L (n + 1)]

theorem posOf_inj : ∀ (L : List (Int × Nat)) (x y : Int), x ∈ L.map (·.1) → y ∈ L.map (·.1) →
    posOf x L = posOf y L → x = y
  | [], _, _, hx, _, _ => by cases hx
  | q :: L, x, y, hx, hy, h => by
    unfold posOf at h
    by_cases h1 : q.1 = x <;> by_cases h2 : q.1 = y
    · rw [← h1, ← h2]
    · rw [if_pos h1, if_neg h2] at h; omega
    · rw [if_neg h1, if_pos h2] at h; omega
    · rw [if_neg h1, if_neg h2] at h
      rw [List.map_cons, List.mem_cons] at hx hy
      have hx' : x ∈ L.map (·.1) := by
        rcases hx with hx | hx
        · exact absurd hx.symm h1
        · exact hx
      have hy' : y ∈ L.map (·.1) := by
        rcases hy with hy | hy
        · exact absurd hy.symm h2
        · exact hy
      exact posOf_inj L x y hx' hy' (by omega)

/-! ### the structure elements -/

/-- what is known about one collected structure `q`, its element `e` and the object `o1` the reader builds -/
def ElemOk (K : Consts) (ts : TypeSystem) (cass : List Cas) (H : Heap) (tsIdx : Nat) (q : Int × Nat) (e : XElem)
    (o1 : Obj) : Prop :=
  e.ty ≠ SOFA ∧ e.ty ≠ VIEW_T ∧
  (∀ hpCur, parseFsElem K ts tsIdx hpCur e = .ok (hpCur ++ [o1], q.1, hpCur.length)) ∧
  ∃ o, H[q.2]? = some o ∧ ObjRel (E1 ts cass H o) o o1 q.1

def Trip (P : Int × Nat → XElem → Obj → Prop) : List (Int × Nat) → List XElem → List Obj → Prop
  | [], [], [] => True
  | q :: L, e :: es, o :: objs => P q e o ∧ Trip P L es objs
  | _, _, _ => False

theorem Trip.length {P : Int × Nat → XElem → Obj → Prop} : ∀ {L : List (Int × Nat)} {es : List XElem} {objs : List Obj},
    Trip P L es objs → objs.length = L.length
  | [], [], [], _ => rfl
  | _ :: L, _ :: es, _ :: objs, h => by
    rw [List.length_cons, List.length_cons, Trip.length (L := L) (es := es) (objs := objs) h.2]
  | [], [], _ :: _, h => by cases h
  | [], _ :: _, _, h => by cases h
  | _ :: _, [], _, h => by cases h
  | _ :: _, _ :: _, [], h => by cases h

theorem Trip.get {P : Int × Nat → XElem → Obj → Prop} : ∀ {L : List (Int × Nat)} {es : List XElem} {objs : List Obj},
    Trip P L es objs → (L.map (·.1)).Nodup → ∀ q ∈ L, ∃ e o1, objs[posOf q.1 L]? = some o1 ∧ P q e o1
  | [], [], [], _, _, q, hq => by cases hq
  | q0 :: L, e :: es, o :: objs, h, hn, q, hq => by
    rw [List.map_cons, List.nodup_cons] at hn
    rcases List.mem_cons.mp hq with rfl | hq'
    · refine ⟨e, o, ?_, h.1⟩
      simp [posOf]
    · have hne : q0.1 ≠ q.1 := by
        intro h'; apply hn.1; rw [h']; exact List.mem_map_of_mem hq'
      obtain ⟨e', o1, h1, h2⟩ := Trip.get (L := L) (es := es) (objs := objs) h.2 hn.2 q hq'
      refine ⟨e', o1, ?_, h2⟩
      simp only [posOf, hne, if_false, List.getElem?_cons_succ]
      exact h1
  | [], [], _ :: _, h, _, _, _ => by cases h
  | [], _ :: _, _, h, _, _, _ => by cases h
  | _ :: _, [], _, h, _, _, _ => by cases h
  | _ :: _, _ :: _, [], h, _, _, _ => by cases h

theorem renderAll_trip (K : Consts) (ts : TypeSystem) (cass : List Cas) (c : Cas) (ci : Nat) (H : Heap) (tsIdx : Nat)
    (hc : cass[ci]? = some c) :
    ∀ (L : List (Int × Nat)), (∀ q ∈ L, FlatFs K ts c ci H q.2) → (∀ q ∈ L, xidOf H q.2 = some q.1) →
    ∃ (es : List XElem) (objs : List Obj), renderAll K ts cass H L = .ok es ∧ Trip (ElemOk K ts cass H tsIdx) L es objs
  | [], _, _ => ⟨[], [], rfl, trivial⟩
  | q :: L, hf, hx => by
    obtain ⟨o, o1, e, ho, hr, h1, h2, h3, h4⟩ :=
      flat_elem K ts cass c ci H tsIdx q.2 q.1 hc (hf q List.mem_cons_self) (hx q List.mem_cons_self)
    obtain ⟨es, objs, hes, ht⟩ := renderAll_trip K ts cass c ci H tsIdx hc L
      (fun q' hq' => hf q' (List.mem_cons_of_mem _ hq')) (fun q' hq' => hx q' (List.mem_cons_of_mem _ hq'))
    refine ⟨e :: es, o1 :: objs, ?_, ⟨h1, h2, h3, o, ho, h4⟩, ht⟩
    rw [renderAll, hr, hes]
    rfl

/-! ### the first pass over the three parts of the document -/

theorem step1_fs (K : Consts) (ts : TypeSystem) (tsIdx : Nat) (e : XElem) (s : Pass1) (o1 : Obj) (x : Int)
    (h1 : e.ty ≠ SOFA) (h2 : e.ty ≠ VIEW_T)
    (hp : parseFsElem K ts tsIdx s.heap e = .ok (s.heap ++ [o1], x, s.heap.length))
    (hx : x ∉ s.fss.map (·.1)) :
    step1 K ts tsIdx false e s =
      .ok { s with heap := s.heap ++ [o1], fss := s.fss ++ [(x, s.heap.length)], maxId := max s.maxId x } := by
  unfold step1
  rw [if_neg (by simpa using h1), if_neg (by simpa using h2), hp]
  dsimp only
  rw [alistSetI_of_not_mem _ _ _ hx]

theorem pass1_fs (K : Consts) (ts : TypeSystem) (cass : List Cas) (H : Heap) (tsIdx : Nat) (rest : XDoc) :
    ∀ (L : List (Int × Nat)) (es : List XElem) (objs : List Obj) (s : Pass1),
      Trip (ElemOk K ts cass H tsIdx) L es objs → (L.map (·.1)).Nodup → (∀ q ∈ L, q.1 ∉ s.fss.map (·.1)) →
      ∃ m, pass1 K ts tsIdx false (es ++ rest) s =
        pass1 K ts tsIdx false rest
          { s with heap := s.heap ++ objs, fss := s.fss ++ addrsFrom s.heap.length L, maxId := m }
  | [], [], [], s, _, _, _ => ⟨s.maxId, by simp [addrsFrom]⟩
  | q :: L, e :: es, o1 :: objs, s, h, hn, hk => by
    rw [List.map_cons, List.nodup_cons] at hn
    obtain ⟨⟨h1, h2, h3, _⟩, ht⟩ := h
    have hstep := step1_fs K ts tsIdx e s o1 q.1 h1 h2 (h3 s.heap) (hk q List.mem_cons_self)
    obtain ⟨m, hm⟩ := pass1_fs K ts cass H tsIdx rest L es objs
      { s with heap := s.heap ++ [o1], fss := s.fss ++ [(q.1, s.heap.length)], maxId := max s.maxId q.1 } ht hn.2
      (by
        intro q' hq'
        dsimp only
        rw [List.map_append, List.mem_append, not_or]
        refine ⟨hk q' (List.mem_cons_of_mem _ hq'), ?_⟩
        simp only [List.map_cons, List.map_nil, List.mem_singleton]
        intro h'
        apply hn.1
        rw [← h']
        exact List.mem_map_of_mem hq')
    refine ⟨m, ?_⟩
    rw [List.cons_append, pass1_cons, hstep]
    show pass1 K ts tsIdx false (es ++ rest) _ = _
    rw [hm]
    congr 1
    simp only [List.append_assoc, List.singleton_append, List.length_append, List.length_singleton, addrsFrom]
  | [], [], _ :: _, _, h, _, _ => by cases h
  | [], _ :: _, _, _, h, _, _ => by cases h
  | _ :: _, [], _, _, h, _, _ => by cases h
  | _ :: _, _ :: _, [], _, h, _, _ => by cases h

theorem step1_sofa (K : Consts) (ts : TypeSystem) (tsIdx : Nat) (nv : String × View) (s : Pass1)
    (hx : nv.2.sofa.xid ∉ s.sofas.map (·.1)) :
    ∃ m m', step1 K ts tsIdx false (renderSofa nv.2.sofa) s =
      .ok { s with sofas := s.sofas ++ [(nv.2.sofa.xid, psofaOf nv)], maxId := m, maxNum := m' } := by
  refine ⟨max s.maxId nv.2.sofa.xid, max s.maxNum nv.2.sofa.sofaNum, ?_⟩
  unfold step1
  rw [if_pos (by rfl), sofa_roundtrip_aux]
  dsimp only
  rw [alistSetI_of_not_mem _ _ _ hx]
  rfl

theorem pass1_sofa_list (K : Consts) (ts : TypeSystem) (tsIdx : Nat) (rest : XDoc) :
    ∀ (vs : List (String × View)) (s : Pass1), (vs.map (·.2.sofa.xid)).Nodup →
      (∀ nv ∈ vs, nv.2.sofa.xid ∉ s.sofas.map (·.1)) →
      ∃ m m', pass1 K ts tsIdx false (vs.map (fun p => renderSofa p.2.sofa) ++ rest) s =
        pass1 K ts tsIdx false rest
          { s with sofas := s.sofas ++ vs.map (fun nv => (nv.2.sofa.xid, psofaOf nv)), maxId := m, maxNum := m' }
  | [], s, _, _ => ⟨s.maxId, s.maxNum, by simp⟩
  | nv :: vs, s, hn, hk => by
    rw [List.map_cons, List.nodup_cons] at hn
    obtain ⟨m0, m0', hstep⟩ := step1_sofa K ts tsIdx nv s (hk nv List.mem_cons_self)
    obtain ⟨m, m', hm⟩ := pass1_sofa_list K ts tsIdx rest vs
      { s with sofas := s.sofas ++ [(nv.2.sofa.xid, psofaOf nv)], maxId := m0, maxNum := m0' } hn.2
      (by
        intro q' hq'
        dsimp only
        rw [List.map_append, List.mem_append, not_or]
        refine ⟨hk q' (List.mem_cons_of_mem _ hq'), ?_⟩
        simp only [List.map_cons, List.map_nil, List.mem_singleton]
        intro h'
        apply hn.1
        rw [← h']
        exact List.mem_map_of_mem (f := fun p : String × View => p.2.sofa.xid) hq')
    refine ⟨m, m', ?_⟩
    rw [List.map_cons, List.cons_append, pass1_cons, hstep]
    show pass1 K ts tsIdx false (_ ++ rest) _ = _
    rw [hm]
    congr 1
    simp only [List.append_assoc, List.singleton_append, List.map_cons]

theorem step1_view (K : Consts) (ts : TypeSystem) (tsIdx : Nat) (H : Heap) (nv : String × View) (s : Pass1)
    (hx : nv.2.sofa.xid ∉ s.views.map (·.1)) :
    step1 K ts tsIdx false (renderView H nv.2) s =
      .ok { s with views := s.views ++ [(nv.2.sofa.xid, pviewOf H nv)] } := by
  unfold step1
  rw [if_neg (show ¬ ((renderView H nv.2).ty == SOFA) = true by show ¬ (VIEW_T == SOFA) = true; decide),
    if_pos (by rfl), view_roundtrip_aux]
  dsimp only
  rw [alistSetI_of_not_mem _ _ _ hx]
  rfl

theorem pass1_view_list (K : Consts) (ts : TypeSystem) (tsIdx : Nat) (H : Heap) (rest : XDoc) :
    ∀ (vs : List (String × View)) (s : Pass1), (vs.map (·.2.sofa.xid)).Nodup →
      (∀ nv ∈ vs, nv.2.sofa.xid ∉ s.views.map (·.1)) →
      pass1 K ts tsIdx false (vs.map (fun p => renderView H p.2) ++ rest) s =
        pass1 K ts tsIdx false rest
          { s with views := s.views ++ vs.map (fun nv => (nv.2.sofa.xid, pviewOf H nv)) }
  | [], s, _, _ => by simp
  | nv :: vs, s, hn, hk => by
    rw [List.map_cons, List.nodup_cons] at hn
    have hstep := step1_view K ts tsIdx H nv s (hk nv List.mem_cons_self)
    have hm := pass1_view_list K ts tsIdx H rest vs
      { s with views := s.views ++ [(nv.2.sofa.xid, pviewOf H nv)] } hn.2
      (by
        intro q' hq'
        dsimp only
        rw [List.map_append, List.mem_append, not_or]
        refine ⟨hk q' (List.mem_cons_of_mem _ hq'), ?_⟩
        simp only [List.map_cons, List.map_nil, List.mem_singleton]
        intro h'
        apply hn.1
        rw [← h']
        exact List.mem_map_of_mem (f := fun p : String × View => p.2.sofa.xid) hq')
    rw [List.map_cons, List.cons_append, pass1_cons, hstep]
    show pass1 K ts tsIdx false (_ ++ rest) _ = _
    rw [hm]
    congr 1
    simp only [List.append_assoc, List.singleton_append, List.map_cons]

/-! ### the `cas:NULL` element -/

theorem null_elem (K : Consts) (ts : TypeSystem) (tsIdx : Nat) (hnull : NullOk ts) :
    ∃ o0 : Obj, o0.ty = NULL_T ∧ o0.xid = some 0 ∧ o0.slots = [] ∧
      ∀ hpCur, parseFsElem K ts tsIdx hpCur { ty := NULL_T, attrs := [(ID, "0")] } = .ok (hpCur ++ [o0], 0, hpCur.length) := by
  obtain ⟨t0, hf, ha⟩ := hnull
  have hgt : getTypeExact ts NULL_T = .ok t0 := by unfold getTypeExact; rw [hf]
  have hname : t0.name = NULL_T := by
    have := List.find?_some hf
    simpa using this
  refine ⟨objOf t0 tsIdx 0 [], hname, rfl, ?_, ?_⟩
  · unfold objOf ctorFields
    rw [ha]
    rfl
  · intro hpCur
    apply parseFsElem_flat K ts tsIdx hpCur _ t0 0 [] hgt rfl (by decide)
    · intro p hp; cases hp
    · intro s hs; cases hs

/-! ### the whole document -/

theorem saveXmi_doc (K : Consts) (ts : TypeSystem) (cass : List Cas) (ci : Nat) (c : Cas) (hp : Heap) (doc : XDoc)
    (st : St) (hc : cass[ci]? = some c) (h : saveXmi K ts cass ci hp = .ok (doc, st)) :
    ∃ fsElems : List XElem, renderAll K ts cass st.heap (sortById st.allFs) = .ok fsElems ∧
      doc = [{ ty := NULL_T, attrs := [(ID, "0")] }] ++ fsElems ++ c.views.map (fun p => renderSofa p.2.sofa) ++
            c.views.map (fun p => renderView st.heap p.2) := by
  unfold saveXmi at h
  rw [hc] at h
  simp only [bind, Except.bind, pure, Except.pure] at h
  cases hst : Traverse.findAllFs K ts {} hp c.nextXid (Traverse.defaultSeeds c) with
  | error err => rw [hst] at h; cases h
  | ok st' =>
    rw [hst] at h
    simp only at h
    cases hr : renderAll K ts cass st'.heap (sortById st'.allFs) with
    | error err => rw [hr] at h; cases h
    | ok fsElems =>
      rw [hr] at h
      simp only at h
      cases h
      exact ⟨fsElems, hr, rfl⟩

theorem pass1_flat (K : Consts) (ts : TypeSystem) (cass : List Cas) (ci : Nat) (c : Cas) (hp : Heap) (tsIdx : Nat)
    (doc : XDoc) (st : St) (hc : cass[ci]? = some c) (hwf : RTWf c hp)
    (hsave : saveXmi K ts cass ci hp = .ok (doc, st)) (hnull : NullOk ts)
    (hL : LOk K ts c ci st.heap (sortById st.allFs)) :
    ∃ (na : Int → Nat) (p : Pass1), pass1 K ts tsIdx false doc { heap := st.heap } = .ok p ∧
      NaOk st.heap.length (sortById st.allFs) na ∧ P1Spec ts cass c st.heap (sortById st.allFs) na p := by
  obtain ⟨fsElems, hr, hdoc⟩ := saveXmi_doc K ts cass ci c hp doc st hc hsave
  generalize hLd : sortById st.allFs = L at hL hr ⊢
  generalize hHd : st.heap = H at hL hr hdoc ⊢
  obtain ⟨es, objs, hes, htrip⟩ := renderAll_trip K ts cass c ci H tsIdx hc L hL.flat (fun q hq => (hL.ids q hq).1)
  rw [hr] at hes
  cases hes
  obtain ⟨o0, h0ty, h0x, h0s, h0p⟩ := null_elem K ts tsIdx hnull
  -- the run
  have hstep0 := step1_fs K ts tsIdx { ty := NULL_T, attrs := [(ID, "0")] } { heap := H } o0 0
    (by decide) (by decide) (h0p H) (by intro h; cases h)
  obtain ⟨m1, hrun1⟩ := pass1_fs K ts cass H tsIdx
    (c.views.map (fun p => renderSofa p.2.sofa) ++ (c.views.map (fun p => renderView H p.2) ++ [])) L fsElems objs
    { heap := H ++ [o0], fss := [] ++ [((0 : Int), H.length)], maxId := max 0 0 } htrip hL.nodup
    (by
      intro q hq
      simp only [List.nil_append, List.map_cons, List.map_nil, List.mem_singleton]
      exact (hL.ids q hq).2)
  obtain ⟨m2, m2', hrun2⟩ := pass1_sofa_list K ts tsIdx (c.views.map (fun p => renderView H p.2) ++ []) c.views
    { heap := (H ++ [o0]) ++ objs, fss := ([] ++ [((0 : Int), H.length)]) ++ addrsFrom (H ++ [o0]).length L, maxId := m1 }
    hwf.sofa_ids_nodup (by intro nv _ h; cases h)
  have hrun3 := pass1_view_list K ts tsIdx H [] c.views
    { heap := (H ++ [o0]) ++ objs, fss := ([] ++ [((0 : Int), H.length)]) ++ addrsFrom (H ++ [o0]).length L,
      sofas := [] ++ c.views.map (fun nv => (nv.2.sofa.xid, psofaOf nv)), maxId := m2, maxNum := m2' }
    hwf.sofa_ids_nodup (by intro nv _ h; cases h)
  refine ⟨fun x => H.length + 1 + posOf x L,
    { heap := (H ++ [o0]) ++ objs, fss := ([] ++ [((0 : Int), H.length)]) ++ addrsFrom (H ++ [o0]).length L,
      sofas := [] ++ c.views.map (fun nv => (nv.2.sofa.xid, psofaOf nv)),
      views := [] ++ c.views.map (fun nv => (nv.2.sofa.xid, pviewOf H nv)), maxId := m2, maxNum := m2' }, ?_, ?_, ?_⟩
  · rw [hdoc, List.append_assoc, List.append_assoc, List.singleton_append, pass1_cons, hstep0]
    show pass1 K ts tsIdx false _ _ = _
    rw [← List.append_nil (c.views.map (fun p => renderView H p.2))]
    exact hrun1.trans (hrun2.trans (hrun3.trans (pass1_nil K ts tsIdx false _)))
  · refine ⟨?_, ?_⟩
    · intro q hq q' hq' h
      exact posOf_inj L q.1 q'.1 (List.mem_map_of_mem hq) (List.mem_map_of_mem hq') (by omega)
    · intro q _
      show H.length < H.length + 1 + posOf q.1 L
      omega
  · refine ⟨?_, ?_, ?_, rfl, ?_, ?_, ?_⟩
    · show ([] ++ [((0 : Int), H.length)]) ++ addrsFrom (H ++ [o0]).length L = _
      rw [addrsFrom_eq L _ hL.nodup, List.length_append, List.length_singleton]
      rfl
    · show [] ++ c.views.map (fun nv => (nv.2.sofa.xid, psofaOf nv)) = _
      rfl
    · show [] ++ c.views.map (fun nv => (nv.2.sofa.xid, pviewOf H nv)) = _
      rfl
    · show ((H ++ [o0]) ++ objs).length = _
      rw [List.length_append, List.length_append, List.length_singleton, htrip.length]
    · refine ⟨o0, ?_, h0ty, h0x, h0s⟩
      show ((H ++ [o0]) ++ objs)[H.length]? = some o0
      rw [List.append_assoc, List.getElem?_append_right (Nat.le_refl _), Nat.sub_self]
      rfl
    · intro q hq
      obtain ⟨e, o1, hget, _, _, _, o, ho, hrel⟩ := htrip.get hL.nodup q hq
      refine ⟨o, o1, ho, ?_, hrel⟩
      show ((H ++ [o0]) ++ objs)[H.length + 1 + posOf q.1 L]? = some o1
      rw [List.getElem?_append_right (by rw [List.length_append, List.length_singleton]; omega),
        List.length_append, List.length_singleton]
      rw [show H.length + 1 + posOf q.1 L - (H.length + 1) = posOf q.1 L by omega]
      exact hget

end Cassis.Xmi
