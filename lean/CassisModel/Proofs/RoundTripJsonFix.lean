/-
Fixpoint of the JSON round trip: serialising the loaded CAS again yields the identical document.
-/
import CassisModel.Proofs.RoundTripJson
import CassisModel.Proofs.RoundTripJsonFixTrav

namespace Cassis.Json
open Cassis.TS Cassis.Traverse Cassis.Lex Cassis.Xmi Cassis.Xmi.RTB

/-! ### the elements of the structures -/

theorem extInt_newJ {cass cass' : List Cas} {ci ci' : Nat} {c c' : Cas} {H : Heap} {na : Int → Nat}
    (hc : cass[ci]? = some c) (hc' : cass'[ci']? = some c') (hviews : ViewsRelJ H na c.views c'.views)
    {o o' : Obj} {x : Int} (hor : ObjRel (E3 H na ci' o) o o' x) (isAnn : Bool)
    (hann : isAnn = true →
      ∃ (vn : String) (v : View), alistGet? o.slots "sofa" = some (.sofa ci vn) ∧ Cas.getViewRec c vn = some v)
    (n : String) (i : Int) :
    extInt cass' isAnn o' n i = extInt cass isAnn o n i := by
  unfold extInt
  by_cases hcond : (isAnn && (n == "begin" || n == "end")) = true
  · rw [if_pos hcond, if_pos hcond]
    have hA : isAnn = true := by
      simp only [Bool.and_eq_true] at hcond
      exact hcond.1
    obtain ⟨vn, v, hs, hv⟩ := hann hA
    have hs' : alistGet? o'.slots "sofa" = some (.sofa ci' vn) := hor.2.2.2 _ _ hs
    obtain ⟨v', hv', hvr⟩ := viewsRelJ_get _ _ vn v hviews hv
    have hsofa : v'.sofa = v.sofa := hvr.2.1
    rw [hs, hs']
    simp only [hc, hc', Option.bind_some]
    have e1 : Cas.getViewRec c vn = some v := hv
    have e2 : Cas.getViewRec c' vn = some v' := hv'
    rw [e1, e2]
    simp only [hsofa]
  · rw [if_neg hcond, if_neg hcond]

theorem jmemF_new {K : Consts} {ts : TypeSystem} {cass cass' : List Cas} {ci ci' : Nat} {c c' : Cas} {H : Heap}
    {L : List (Int × Nat)} {na : Int → Nat} {hpL : Heap}
    (hc : cass[ci]? = some c) (hc' : cass'[ci']? = some c')
    (hL : LOk K ts c ci H L) (hrel : HeapRel H L na (E3 H na ci') hpL) (hviews : ViewsRelJ H na c.views c'.views)
    {q : Int × Nat} (hq : q ∈ L) {o o' : Obj} (hHo : H[q.2]? = some o) (hor : ObjRel (E3 H na ci' o) o o' q.1)
    (isAnn : Bool)
    (hann : isAnn = true →
      ∃ (vn : String) (v : View), alistGet? o.slots "sofa" = some (.sofa ci vn) ∧ Cas.getViewRec c vn = some v)
    (f : Feature) (hf : FlatFeat K ts c ci H isAnn o f) :
    jmemF cass' hpL isAnn o' f = jmemF cass H isAnn o f := by
  obtain ⟨_, _, _, _, _, _, _, _, _, _, _, v, hv, hd⟩ := hf
  have hv' : alistGet? o'.slots f.name = some (exp3 H na ci' v) := hor.2.2.2 _ _ hv
  unfold jmemF
  rw [hv, hv']
  simp only [Option.getD_some]
  rcases hd with ⟨hn, hs⟩ | ⟨hn, hp, hs⟩ | ⟨hn, hp, ha, hl, hb1, hb2, hb3, hs⟩
  · rcases hs with ⟨vn, rfl, hsome⟩ | ⟨rfl, hA⟩
    · cases hg : Cas.getViewRec c vn with
      | none => rw [hg] at hsome; cases hsome
      | some w =>
        obtain ⟨w', hw', hvr⟩ := viewsRelJ_get _ _ vn w hviews hg
        have e2 : Cas.getViewRec c' vn = some w' := hw'
        have : w'.sofa = w.sofa := hvr.2.1
        simp only [exp3, jmem, hc, hc', Option.bind_some, hg, e2, this]
    · rfl
  · rcases hs with rfl | ⟨hr, i, rfl⟩ | ⟨hr, s, rfl⟩ | ⟨hr, b, rfl⟩ | ⟨hr, t, rfl⟩
    · rfl
    · simp only [exp3, jmem]
      rw [extInt_newJ hc hc' hviews hor isAnn hann]
    · rfl
    · rfl
    · rfl
  · rcases hs with rfl | ⟨b, rfl, hsome, hne0⟩
    · rfl
    · obtain ⟨x, hx, hxL⟩ := hL.closed q hq o hHo f.name b hv
      have hxn : xidOf hpL (na x) = some x := heapRel_xid hrel hxL
      simp only [exp3, jmem, hx, hxn]

theorem flatMap_congrFix {α β} {f g : α → List β} : ∀ (l : List α), (∀ x ∈ l, f x = g x) → l.flatMap f = l.flatMap g
  | [], _ => rfl
  | x :: l, h => by
    rw [List.flatMap_cons, List.flatMap_cons, h x List.mem_cons_self,
      flatMap_congrFix l (fun y hy => h y (List.mem_cons_of_mem _ hy))]

/-- the loaded structure is written as the element that was read -/
theorem renderFs_new {K : Consts} {ts : TypeSystem} {cass cass' : List Cas} {ci ci' : Nat} {c c' : Cas} {hp H : Heap}
    {L : List (Int × Nat)} {na : Int → Nat} {hpL : Heap}
    (g : GCtx K ts cass c ci hp H L) (hc' : cass'[ci']? = some c')
    (hsr : ∀ q ∈ L, ∀ o t, H[q.2]? = some o → find? ts o.ty = some t → ∀ f ∈ allFeatures t, SofaRangeOk K ts o f)
    (hrel : HeapRel H L na (E3 H na ci') hpL) (hviews : ViewsRelJ H na c.views c'.views)
    (q : Int × Nat) (hq : q ∈ L) :
    renderFs K ts cass' hpL (na q.1) = .ok (elemOf ts cass H q) := by
  have hL := g.lok
  have hc := g.hc
  obtain ⟨o, t, ho, ht, he, _⟩ := elemOf_flat g q hq
  obtain ⟨o1, o', ho1, ho', hor⟩ := hrel q hq
  rw [ho] at ho1; cases ho1
  have hty : o'.ty = o.ty := hor.1
  have ht' : find? ts o'.ty = some t := by rw [hty]; exact ht
  have hflat' := new_flatJ (ci' := ci') hL hrel hviews q hq
  obtain ⟨o2, t2, ho2, ht2, _, _, _, _, _, _, _, _, _, _, _, hfeat, _⟩ := hL.flat q hq
  rw [ho] at ho2; cases ho2
  rw [ht] at ht2; cases ht2
  have hann := flat_ann_sofa (hL.flat q hq) ho
  rw [renderFs_flatJ K ts cass' c' ci' hpL (na q.1) q.1 o' t hc' hflat' ho' ht' (rel_xid hrel hq)]
  · rw [he]
    unfold flatJFs
    rw [hty]
    congr 2
    apply flatMap_congrFix
    intro f hf
    exact jmemF_new hc hc' hL hrel hviews hq ho hor _ hann f (hfeat f hf)
  · intro f hf
    rw [hty]
    exact ((g.json q hq o t ho ht).2 f hf).2.2.2
  · intro f hf hn hne
    apply hsr q hq o t ho ht f hf hn
    obtain ⟨_, _, _, _, _, _, _, _, _, _, _, v, hv, _⟩ := hfeat f hf
    rw [hor.2.2.2 _ _ hv, Option.getD_some] at hne
    rw [hv, Option.getD_some]
    intro h
    subst h
    exact hne rfl

theorem renderAll_new {K : Consts} {ts : TypeSystem} {cass cass' : List Cas} {ci ci' : Nat} {c c' : Cas} {hp H : Heap}
    {L : List (Int × Nat)} {na : Int → Nat} {hpL : Heap}
    (g : GCtx K ts cass c ci hp H L) (hc' : cass'[ci']? = some c')
    (hsr : ∀ q ∈ L, ∀ o t, H[q.2]? = some o → find? ts o.ty = some t → ∀ f ∈ allFeatures t, SofaRangeOk K ts o f)
    (hrel : HeapRel H L na (E3 H na ci') hpL) (hviews : ViewsRelJ H na c.views c'.views) :
    ∀ (M : List (Int × Nat)), (∀ q ∈ M, q ∈ L) →
      renderAll K ts cass' hpL (M.map (fun q => (q.1, na q.1))) = .ok (M.map (elemOf ts cass H))
  | [], _ => rfl
  | q :: M, hM => by
    simp only [List.map_cons]
    unfold renderAll
    rw [show ((q.1, na q.1) : Int × Nat).2 = na q.1 from rfl,
      renderFs_new g hc' hsr hrel hviews q (hM q List.mem_cons_self),
      renderAll_new g hc' hsr hrel hviews M (fun q' hq' => hM q' (List.mem_cons_of_mem _ hq'))]
    rfl

/-! ### sofas and views -/

theorem renderSofa_heap (hp hp' : Heap) (s : Sofa) (h : s.arr = .none) : renderSofa hp' s = renderSofa hp s := by
  unfold renderSofa
  rw [h]

theorem sofas_new {H : Heap} {na : Int → Nat} (hp hp' : Heap) : ∀ (l l' : List (String × View)),
    ViewsRelJ H na l l' → (∀ nv ∈ l, nv.2.sofa.arr = .none) →
    l'.map (fun p => renderSofa hp' p.2.sofa) = l.map (fun p => renderSofa hp p.2.sofa)
  | [], [], _, _ => rfl
  | [], _ :: _, h, _ => h.elim
  | _ :: _, [], h, _ => h.elim
  | v :: r, v' :: r', h, harr => by
    obtain ⟨h1, h2⟩ := h
    simp only [List.map_cons]
    rw [h1.2.1, renderSofa_heap hp hp' _ (harr v List.mem_cons_self),
      sofas_new hp hp' r r' h2 (fun nv hnv => harr nv (List.mem_cons_of_mem _ hnv))]

theorem views_new {H : Heap} {na : Int → Nat} (hp' : Heap) : ∀ (l l' : List (String × View)),
    ViewsRelJ H na l l' → l'.map (viewContent hp') = l.map (viewContent H) →
    l'.map (jviewOf hp') = l.map (jviewH H)
  | [], [], _, _ => rfl
  | [], _ :: _, h, _ => h.elim
  | _ :: _, [], h, _ => h.elim
  | v :: r, v' :: r', h, hvc => by
    obtain ⟨h1, h2⟩ := h
    simp only [List.map_cons, List.cons.injEq] at hvc
    simp only [List.map_cons]
    rw [views_new hp' r r' h2 hvc.2]
    congr 1
    have hm := congrArg ViewContent.members hvc.1
    simp only [viewContent] at hm
    unfold jviewOf jviewH pviewOf
    rw [h1.2.1]
    congr 1

/-! ### assembly -/

/-- converse of `saveJson_parts` -/
theorem saveJson_intro {K : Consts} {ts : TypeSystem} {cass : List Cas} {ci : Nat} {c : Cas} {hp : Heap}
    {st : St} {fsElems : List JFs} (hc : cass[ci]? = some c) (harr : ∀ nv ∈ c.views, nv.2.sofa.arr = .none)
    (hfa : findAllFs K ts { includeInlinable := true } hp c.nextXid (defaultSeeds c) = .ok st)
    (hr : renderAll K ts cass st.heap (sortById st.allFs) = .ok fsElems) :
    saveJson K ts cass ci hp .none =
      .ok ({ types := none, fss := c.views.map (fun p => renderSofa hp p.2.sofa) ++ fsElems,
             views := c.views.map (jviewOf hp) }, st) := by
  unfold saveJson
  rw [hc]
  simp only [bind, Except.bind, pure, Except.pure]
  rw [sofaFss_fold hp _ c.views [] (by
    intro acc nv hnv
    simp only [harr nv hnv, List.append_nil])]
  simp only [List.nil_append]
  rw [hfa]
  simp only
  rw [hr]
  rfl

theorem json_roundtrip_flat_fixpoint_aux (K : Consts) (ts : TypeSystem) (cass : List Cas) (ci : Nat) (c : Cas) (hp : Heap)
    (tsIdx : Nat) (doc : JDoc) (st : St) (ld : Loaded)
    (hc : cass[ci]? = some c) (hwf : RTWf c hp)
    (hsave : saveJson K ts cass ci hp .none = .ok (doc, st))
    (hflat : ∀ q ∈ st.allFs, FlatFs K ts c ci st.heap q.2)
    (hjson : ∀ q ∈ st.allFs, JsonFs ts st.heap q.2)
    (hids : ∀ nv ∈ c.views, ∀ e ∈ Index.all nv.2.idx, (xidOf hp e.oid).isSome = true)
    (hdis : ∀ q ∈ st.allFs, ∀ nv ∈ c.views, q.1 ≠ nv.2.sofa.xid)
    (hmem : ∀ nv ∈ c.views, ∀ e ∈ Index.all nv.2.idx, Xmi.slot st.heap e.oid "sofa" ≠ some .none)
    (hmok : MembersOk c st.heap)
    (hload : loadJson K ts tsIdx cass.length false false st.heap doc = .ok ld) :
    ∃ st' : St, saveJson K ts (cass ++ [ld.cas]) cass.length ld.heap .none = .ok (doc, st') := by
  obtain ⟨ld', m, hload', _, g, hdfss, hdviews, hdtypes, hsr, hrel, hviews, hvc, hnx, hm0, _, _⟩ :=
    json_core K ts cass ci c hp tsIdx cass.length doc st hc hwf hsave hflat hjson hids hdis hmem hmok
  rw [hload] at hload'
  cases hload'
  have hL := g.lok
  have hc' : (cass ++ [ld.cas])[cass.length]? = some ld.cas := List.getElem?_concat_length
  have harr : ∀ nv ∈ c.views, nv.2.sofa.arr = .none := fun nv hnv => (hwf.text_sofa nv hnv).1
  have hfa := (saveJson_parts hc harr hsave).1
  have hnx' : 0 < ld.cas.nextXid := by omega
  -- the traversal
  obtain ⟨st', hfa', hheap, hS⟩ := new_traversalJ (op := { includeInlinable := true }) (ci' := cass.length)
    hL hrel hviews
  have hperm := new_allFs_permJ hwf hfa hL hrel hviews hnx' hfa' hheap hS
  have hnd' : (st'.allFs.map (·.1)).Nodup := (findAllFs_inv K ts _ _ _ _ st' hfa').1.nodupK
  have hsort : sortById st'.allFs =
      (sortById st.allFs).map (fun q => (q.1, naOf st.heap (sortById st.allFs) q.1)) := by
    rw [sortById_perm_invariant_aux _ _ hperm hnd']
    exact sortById_map (fun q => (q.1, naOf st.heap (sortById st.allFs) q.1)) (fun _ => rfl) _
  -- the elements
  have hren : renderAll K ts (cass ++ [ld.cas]) st'.heap (sortById st'.allFs) =
      .ok ((sortById st.allFs).map (elemOf ts cass st.heap)) := by
    rw [hheap, hsort]
    exact renderAll_new g hc' hsr hrel hviews _ (fun _ h => h)
  have harr' : ∀ nv' ∈ ld.cas.views, nv'.2.sofa.arr = .none := by
    intro nv' hnv'
    obtain ⟨nv, hnv, hr⟩ := viewsRelJ_bwd _ _ _ _ hviews nv' hnv'
    rw [hr.2.1]
    exact harr nv hnv
  refine ⟨st', ?_⟩
  rw [saveJson_intro hc' harr' hfa' hren, sofas_new hp ld.heap _ _ hviews harr, views_new ld.heap _ _ hviews hvc,
    ← hdfss, ← hdviews, ← hdtypes]

end Cassis.Json
