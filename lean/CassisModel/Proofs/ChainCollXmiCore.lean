/-
C16 with collections: the first half of the chain XMI → CAS → JSON → CAS.  What `loadXmi` makes of a written document, as
the proof of `xmi_roundtrip_coll` knows it (`HeapRel … E3c`, `CollsAt`, the view relation), together with the *types* of
the collection objects the reader made for inlined collections (`NewFor`, from the typing invariant of
`ChainCollTyped*.lean`).
-/
import CassisModel.Proofs.RoundTripColl
import CassisModel.Proofs.ChainCollTypedPass1

namespace Cassis.ChainC
open Cassis.TS Cassis.Traverse Cassis.Xmi Cassis.Lex

/-- what is known about the CAS `ld` loaded from the document written for `c` (heap `H`, collected structures `L`);
    `na` gives the new addresses, `ia` the addresses of the inlined collections -/
structure XLd (K : Consts) (ts : TypeSystem) (c : Cas) (ci : Nat) (H : Heap) (L : List (Int × Nat)) (ci' : Nat)
    (na : Int → Nat) (ia : Int → String → Nat) (ld : Xmi.Loaded) : Prop where
  lok : LOkC K ts c ci H L
  naOk : NaOk H.length L na
  rel : HeapRel H L na (E3c K ts H na ia ci') ld.heap
  colls : CollsAt K ts H L na ia ld.heap
  views : ViewsRel H na c ld.cas
  content : ld.cas.views.map (viewContent ld.heap) = c.views.map (viewContent H)
  /-- the collection inlined in a slot is typed by the range of the feature -/
  typed : ∀ q ∈ L, ∀ (o : Obj), H[q.2]? = some o → ∀ (n : String) (cc : Nat), alistGet? o.slots n = some (.ref cc) →
    inlineSlot K ts o n = true → ∀ (t : TypeRec) (f : Feature), find? ts o.ty = some t → f ∈ allFeatures t →
    f.name = n → NewFor K ld.heap f.range (ia q.1 n)
  next_pos : 0 < ld.cas.nextXid
  ids_below : ∀ (a : Nat) (o : Obj) (x : Int), H.length ≤ a → ld.heap[a]? = some o → o.xid = some x → x < ld.cas.nextXid
  sofas_below : ∀ nv ∈ c.views, nv.2.sofa.xid < ld.cas.nextXid

theorem renderAll_mem (K : Consts) (ts : TypeSystem) (cass : List Cas) (H : Heap) :
    ∀ (L : List (Int × Nat)) (es : List XElem), Xmi.renderAll K ts cass H L = .ok es →
      ∀ e ∈ es, ∃ q ∈ L, Xmi.renderFs K ts cass H q.2 = .ok e
  | [], es, h, e, he => by
    unfold Xmi.renderAll at h
    cases h
    cases he
  | q :: L, es, h, e, he => by
    unfold Xmi.renderAll at h
    simp only [bind] at h
    obtain ⟨e1, h1, h⟩ := bind_ok h
    obtain ⟨es1, h2, h⟩ := bind_ok h
    cases h
    rcases List.mem_cons.mp he with rfl | he
    · exact ⟨q, List.mem_cons_self, h1⟩
    · obtain ⟨q', hq', hr⟩ := renderAll_mem K ts cass H L es1 h2 e he
      exact ⟨q', List.mem_cons_of_mem _ hq', hr⟩

/-- the element written for a structure carries the type of the structure -/
theorem renderFs_ty {K : Consts} {ts : TypeSystem} {cass : List Cas} {H : Heap} {a : Nat} {e : XElem} {o : Obj}
    (ho : H[a]? = some o) (h : Xmi.renderFs K ts cass H a = .ok e) : e.ty = o.ty := by
  unfold Xmi.renderFs at h
  rw [ho] at h
  simp only [bind, Except.bind, pure, Except.pure, throw, throwThe, MonadExceptOf.throw] at h
  split at h
  · split at h
    · cases h; rfl
    · cases h; rfl
    · split at h
      · split at h
        · cases h; rfl
        · cases h; rfl
        · cases h
      · split at h
        · split at h
          · split at h
            · cases h
            · cases h; rfl
          · cases h
        · split at h
          · cases h
          · cases h; rfl
  · split at h
    · cases h
    · split at h
      · cases h
      · cases h; rfl

/-- the types of the collected structures: feature names pairwise distinct, none of them `xmiID` -/
theorem collFs_type {K : Consts} {ts : TypeSystem} {c : Cas} {ci : Nat} {H : Heap} {a : Nat}
    (h : CollFs K ts c ci H a) {o : Obj} (ho : H[a]? = some o) {t : TypeRec} (ht : getType ts o.ty = .ok t) :
    (ctorFields t).Nodup ∧ ∀ f ∈ allFeatures t, f.name ≠ "xmiID" := by
  rcases h with ⟨o', t', ho', ht', _, _, _, _, _, _, _, _, _, hnd, _, hfeat, _⟩ |
    ⟨o', t', f, ev, ho', ht', _, _, hall, hfn, _⟩
  · rw [ho] at ho'; cases ho'
    rw [Cassis.Xmi.getType_of_find ht'] at ht; cases ht
    refine ⟨hnd, fun f hf => ?_⟩
    rcases hfeat f hf with hflat | ⟨hname, _⟩
    · exact hflat.2.1
    · exact hname.2.1
  · rw [ho] at ho'; cases ho'
    rw [Cassis.Xmi.getType_of_find ht'] at ht; cases ht
    refine ⟨?_, fun g hg => ?_⟩
    · unfold ctorFields
      rw [hall]
      simp
    · rw [hall] at hg
      rw [List.mem_singleton.mp hg, hfn]
      decide

/-- the head of a list the reader made carries no id -/
theorem ListAt.noId {hp : Heap} {a : Nat} {vs : List Val} (h : ListAt hp a vs) :
    ∃ o : Obj, hp[a]? = some o ∧ o.xid = none := by
  cases h with
  | nil h1 h2 _ => exact ⟨_, h1, h2⟩
  | cons h1 h2 _ _ _ => exact ⟨_, h1, h2⟩

theorem InlAt.noId {K : Consts} {ts : TypeSystem} {H : Heap} {na : Int → Nat} {hpX : Heap} {o : Obj} {n : String}
    {c addr : Nat} (h : InlAt K ts H na hpX o n c addr) : ∃ ob : Obj, hpX[addr]? = some ob ∧ ob.xid = none := by
  obtain ⟨_, _, _, _, _, hd⟩ := h
  rcases hd with ⟨_, _, _, ob, h1, h2, _⟩ | ⟨_, _, _, hl, _⟩
  · exact ⟨ob, h1, h2⟩
  · exact ListAt.noId hl

/-- **the first half**: the loaded CAS -/
theorem xmi_core_coll (K : Consts) (ts : TypeSystem) (cass : List Cas) (ci : Nat) (c : Cas) (hp : Heap)
    (tsIdx ci' : Nat) (doc : XDoc) (st : St)
    (hc : cass[ci]? = some c) (hwf : RTWf c hp) (hnull : NullOk ts)
    (hsave : saveXmi K ts cass ci hp = .ok (doc, st))
    (hcoll : ∀ q ∈ st.allFs, CollFs K ts c ci st.heap q.2)
    (hmem : ∀ nv ∈ c.views, ∀ e ∈ Index.all nv.2.idx, Xmi.slot st.heap e.oid "sofa" ≠ some .none)
    (hmok : MembersOk c st.heap) :
    ∃ (na : Int → Nat) (ia : Int → String → Nat) (ld : Xmi.Loaded),
      loadXmi K ts tsIdx ci' false st.heap doc = .ok ld ∧
      XLd K ts c ci st.heap (sortById st.allFs) ci' na ia ld := by
  have hL := lokC_of_save hc hwf hsave hcoll
  -- first pass
  have helem : Elem1Stmt K ts cass st.heap tsIdx (CollFs K ts c ci st.heap) := by
    intro a x hP hx
    rcases hP with hg | ha
    · exact gen_elem1 K ts cass ci c st.heap tsIdx hc a x hg hx
    · exact arr_elem1 K ts cass st.heap tsIdx a x ha hx
  obtain ⟨na, p, hp1, hna, hp1w, hrel1⟩ := pass1_coll K ts cass ci c hp tsIdx doc st hc hwf hsave hnull hL helem
  -- second pass
  have hI : PostInlineStmt K ts cass st.heap na tsIdx ci' p.sofas p.fss (fun _ => True) := by
    intro a o t f h1 h2 h3 h4 h5 h6 _
    rcases inlineFeat_range h6 with h | h
    · exact postInline_arr K ts cass st.heap na tsIdx ci' p.sofas p.fss a o t f h1 h2 h3 h4 h5 h6 h
    · exact postInline_list K ts cass st.heap na tsIdx ci' p.sofas p.fss a o t f h1 h2 h3 h4 h5 h6 h
  have hpost : Post2Stmt K ts cass st.heap (sortById st.allFs) na tsIdx ci' p.sofas p.fss
      (CollFs K ts c ci st.heap) := by
    intro q hq hP
    rcases hP with hg | ha
    · exact gen_post K ts cass ci c hp st.heap _ na tsIdx ci' p.sofas p.fss hc hwf hL hp1w.sofas hp1w.fss hI q hq hg
    · exact arr_post K ts cass ci c st.heap _ na tsIdx ci' p.sofas p.fss hL hp1w.fss q hq ha
  obtain ⟨hp2, hpa, hnull2, _, hrel2⟩ :=
    postAll_coll K ts cass ci c st.heap _ na tsIdx ci' p hnull hL hna hp1w hrel1 hpost
  obtain ⟨hE2, hcolls2⟩ := obj2_to_E2c hL hrel2
  -- third pass
  obtain ⟨ld, hbuild, hrel3, hviews, hvrel, hfrz3⟩ :=
    buildCas_coll K ts cass ci c hp st.heap _ na (iaOf hp2 na) ci' p hp2 hc hwf hnull (lokW_of_lokC hL) hna hp1w
      hmem hmok hnull2 hE2
  have hcolls3 := collsAt_frz hcolls2 hfrz3
  have hload : loadXmi K ts tsIdx ci' false st.heap doc = .ok ld := by
    unfold loadXmi
    simp only [hp1, hpa, bind, Except.bind]
    exact hbuild
  obtain ⟨p', hp1', hbnd, hnx, _, _, hbelow, _⟩ := loadXmi_reseeds_aux K ts tsIdx ci' false st.heap doc ld hload
  rw [hp1] at hp1'; cases hp1'
  -- the typing invariant
  obtain ⟨t0, hfind0, hfeat0⟩ := hnull
  obtain ⟨fsElems, hr, hdoc⟩ := saveXmi_doc K ts cass ci c hp doc st hc hsave
  have hdocTy : ∀ e ∈ doc, e.ty ≠ SOFA → e.ty ≠ VIEW_T → ∀ t : TypeRec, getType ts e.ty = .ok t →
      (ctorFields t).Nodup := by
    intro e he h1 h2 t ht
    rw [hdoc] at he
    rcases List.mem_append.mp he with he | he
    · rcases List.mem_append.mp he with he | he
      · rcases List.mem_append.mp he with he | he
        · rw [List.mem_singleton.mp he] at ht
          rw [show ({ ty := NULL_T, attrs := [(ID, "0")] } : XElem).ty = NULL_T from rfl,
            Cassis.Xmi.getType_of_find hfind0] at ht
          cases ht
          unfold ctorFields
          rw [hfeat0]
          exact List.nodup_nil
        · obtain ⟨q, hq, hrq⟩ := renderAll_mem K ts cass st.heap _ _ hr e he
          have hcq := hL.coll q hq
          obtain ⟨o, ho⟩ : ∃ o, st.heap[q.2]? = some o := by
            rcases hcq with ⟨o, _, ho, _⟩ | ⟨o, _, _, _, ho, _⟩ <;> exact ⟨o, ho⟩
          rw [renderFs_ty ho hrq] at ht
          exact (collFs_type hcq ho ht).1
      · obtain ⟨nv, _, rfl⟩ := List.mem_map.mp he
        exact absurd rfl h1
    · obtain ⟨nv, _, rfl⟩ := List.mem_map.mp he
      exact absurd rfl h2
  obtain ⟨hti1, _⟩ := pass1_TI (n0 := st.heap.length) doc { heap := st.heap } p (TI.init ts st.heap) hdocTy hp1
  have hfssOk : FssOk ts st.heap.length p.fss p.heap := by
    intro r hr_
    rw [hp1w.fss] at hr_
    rcases List.mem_cons.mp hr_ with rfl | hr_
    · obtain ⟨o0, ho0, hty0, hx0, _⟩ := hp1w.null
      refine ⟨Nat.le_refl _, o0, ho0, (by rw [hx0]; simp), fun t ht => ?_⟩
      rw [hty0, Cassis.Xmi.getType_of_find hfind0] at ht
      cases ht
      refine ⟨?_, fun f hf => ?_⟩
      · unfold ctorFields; rw [hfeat0]; exact List.nodup_nil
      · rw [hfeat0] at hf; cases hf
    · obtain ⟨q, hq, rfl⟩ := List.mem_map.mp hr_
      obtain ⟨o, o1, ho, ho1, hobj⟩ := hrel1 q hq
      refine ⟨Nat.le_of_lt (hna.gt q hq), o1, ho1, (by rw [hobj.2.1]; simp), fun t ht => ?_⟩
      rw [hobj.1] at ht
      exact collFs_type (hL.coll q hq) ho ht
  obtain ⟨hti2, _⟩ := postAll_TI (n0 := st.heap.length) p.fss p.heap hp2 (fun _ h => h) hfssOk hti1 hpa
  refine ⟨na, iaOf hp2 na, ld, hload,
    { lok := hL, naOk := hna, rel := hrel3, colls := hcolls3, views := hvrel, content := hviews, typed := ?_,
      next_pos := loadXmi_nextXid_pos hload, ids_below := hbelow, sofas_below := ?_ }⟩
  · intro q hq o ho n cc hv hinl t f ht hf hfn
    obtain ⟨o', o2, ho', ho2, hty2, hx2, _, hslots2⟩ := hE2 q hq
    rw [ho] at ho'; cases ho'
    have hox : o.xid = some q.1 := by
      have := (hL.ids q hq).1
      unfold xidOf at this; rw [ho] at this; exact this
    have hs2 : alistGet? o2.slots f.name = some (.ref (iaOf hp2 na q.1 n)) := by
      rw [hfn, hslots2 n _ hv]
      simp only [E2c, hinl, if_true, hox, Option.getD_some]
    have hown := hti2 (na q.1) o2 (Nat.le_of_lt (hna.gt q hq)) ho2 (by rw [hx2]; simp) t
      (by rw [hty2]; exact Cassis.Xmi.getType_of_find ht) f hf _ hs2
    rcases hown with ⟨ob, hob, hobx⟩ | hnew
    · obtain ⟨ob', hob', hobx'⟩ := InlAt.noId (hcolls2 q hq o ho n cc hv hinl)
      rw [hob] at hob'; cases hob'
      exact absurd hobx' hobx
    · exact hnew.frz hfrz3
  · intro nv hnv
    have hm : (nv.2.sofa.xid, psofaOf nv) ∈ p.sofas := by
      rw [hp1w.sofas]
      exact List.mem_map.mpr ⟨nv, hnv, rfl⟩
    have := hbnd.1 _ hm
    simp only [psofaOf] at this
    rw [hnx]
    omega

end Cassis.ChainC
