/-
C20 across the JSON round trip, whole format, layer 2: `sim_node` — the successor computation of the default traversal on
a collected structure and on its counterpart in the loaded heap (features of a general structure one by one, array
objects), and the consequences for `succsOf`.
-/
import CassisModel.Proofs.ComparableIsoJsonCollSim

namespace Cassis.Comparable
open Cassis.TS Cassis.Traverse Cassis.Xmi Cassis.Json Cassis.Json.CC

section
variable {K : Consts} {ts : TypeSystem} {c : Cas} {ci : Nat} {H : Heap} {L : List (Int × Nat)} {ci' : Nat} {HF : Heap}

/-- one feature of a general structure -/
theorem JW.sim_feature (x : JW K ts c ci H L ci' HF) {q : Int × Nat} (hq : q ∈ L) {o : Obj} (ho : H[q.2]? = some o)
    {isAnn : Bool} {f : Feature} (hf : JFeatOk K ts c ci H isAnn o f) {lf lf' : Nat} (hle : lf ≤ lf')
    {ps : List Nat} {n : Nat} (h : featureSuccs K ts {} H [] lf q.2 f = .ok (ps, n)) :
    (∀ b ∈ ps, InL H L b) ∧
    featureSuccs K ts {} HF [] lf' (naOf H L q.1) f = .ok (ps.map (phiOf H (naOf H L)), n) := by
  obtain ⟨_, _, _, _, _, v, hv, hcase⟩ := hf
  have hslot : Traverse.slot H q.2 f.name = some v := jslot_of ho hv
  have hslot' : Traverse.slot HF (naOf H L q.1) f.name = some (exp3J H (naOf H L) ci' v) := by
    have := CC.slot_new x.rel hq f.name
    simp only [Xmi.slot] at this
    rw [this, hslot]; rfl
  unfold featureSuccs at h ⊢
  rcases hcase with ⟨hn, _⟩ | ⟨hn, hprim, _⟩ | ⟨hn, hprim, _, _, _, hval⟩
  · simp only [hn, beq_self_eq_true, if_true, Except.ok.injEq, Prod.mk.injEq] at h ⊢
    obtain ⟨rfl, rfl⟩ := h
    exact ⟨fun b hb => (by cases hb), rfl, rfl⟩
  · have hn' : (f.name == "sofa") = false := by simpa using hn
    simp only [hn', hprim, Bool.false_eq_true, if_false, if_true, Except.ok.injEq, Prod.mk.injEq] at h ⊢
    obtain ⟨rfl, rfl⟩ := h
    exact ⟨fun b hb => (by cases hb), rfl, rfl⟩
  · have hn' : (f.name == "sofa") = false := by simpa using hn
    rcases hval with rfl | ⟨b, rfl, _⟩
    · have e : exp3J H (naOf H L) ci' .none = .none := rfl
      rw [e] at hslot'
      simp only [hn', hprim, hslot, hslot', Bool.false_eq_true, if_false, Except.ok.injEq, Prod.mk.injEq] at h ⊢
      obtain ⟨rfl, rfl⟩ := h
      exact ⟨fun b hb => (by cases hb), rfl, rfl⟩
    · obtain ⟨y, hy, hyl⟩ := x.slot_ref hq hslot
      rw [exp3J_ref hy] at hslot'
      simp only [hn', hprim, hslot, hslot', Bool.false_eq_true, if_false] at h ⊢
      by_cases hc : (!({} : Traverse.Opts).includeInlinable && !(f.multi.getD false) &&
          (isArray K f.range || isList K f.range)) = true
      · rw [if_pos hc] at h ⊢
        by_cases hfa : (f.range == FS_ARRAY) = true
        · rw [if_pos hfa] at h ⊢
          have h1 := featureSuccs_fsarr (K := K) (ts := ts) (lf := lf) hn' hprim hslot hc hfa
          have h2 := featureSuccs_fsarr (K := K) (ts := ts) (lf := lf') hn' hprim hslot' hc hfa
          unfold featureSuccs at h1 h2
          simp only [hn', hprim, hslot, hslot', Bool.false_eq_true, if_false] at h1 h2
          rw [if_pos hc, if_pos hfa] at h1 h2
          rw [h1] at h
          rw [h2]
          simp only [Except.ok.injEq, Prod.mk.injEq] at h ⊢
          obtain ⟨rfl, rfl⟩ := h
          obtain ⟨e1, e2⟩ := x.elemsPush_exp hyl
          exact ⟨e2, e1, rfl⟩
        · rw [if_neg hfa] at h ⊢
          by_cases hfl : (f.range == FS_LIST) = true
          · rw [if_pos hfl] at h ⊢
            cases hw : walkList H [] lf (.ref b) with
            | none => rw [hw] at h; cases h
            | some r =>
              rw [hw] at h
              simp only [Except.ok.injEq] at h
              subst h
              obtain ⟨w1, w2⟩ := x.walk lf (.ref b) ps n (fun b' hb' => by cases hb'; exact ⟨y, hy, hyl⟩) hw
              have w3 := w2 lf' hle
              rw [exp3J_ref hy] at w3
              rw [w3]
              exact ⟨w1, rfl⟩
          · rw [if_neg hfl] at h ⊢
            simp only [Except.ok.injEq, Prod.mk.injEq] at h ⊢
            obtain ⟨rfl, rfl⟩ := h
            exact ⟨fun b hb => (by cases hb), rfl, rfl⟩
      · rw [if_neg hc] at h ⊢
        simp only [seenId_nil, Bool.false_eq_true, if_false, Except.ok.injEq, Prod.mk.injEq] at h ⊢
        obtain ⟨rfl, rfl⟩ := h
        refine ⟨?_, ?_, rfl⟩
        · intro b' hb'
          rw [List.mem_singleton.mp hb']
          exact ⟨y, hy, hyl⟩
        · simp only [List.map_cons, List.map_nil, phiOf_inL hy]

theorem JW.sim_features (x : JW K ts c ci H L ci' HF) {q : Int × Nat} (hq : q ∈ L) {o : Obj} (ho : H[q.2]? = some o)
    {isAnn : Bool} {lf lf' : Nat} (hle : lf ≤ lf') :
    ∀ (fs : List Feature), (∀ f ∈ fs, JFeatOk K ts c ci H isAnn o f) → ∀ (ps : List Nat) (n : Nat),
      featuresSuccs K ts {} H [] lf q.2 fs = .ok (ps, n) →
      (∀ b ∈ ps, InL H L b) ∧
      featuresSuccs K ts {} HF [] lf' (naOf H L q.1) fs = .ok (ps.map (phiOf H (naOf H L)), n)
  | [], _, ps, n, h => by
    unfold featuresSuccs at h ⊢
    simp only [Except.ok.injEq, Prod.mk.injEq] at h
    obtain ⟨rfl, rfl⟩ := h
    exact ⟨fun b hb => (by cases hb), rfl⟩
  | f :: fs, hall, ps, n, h => by
    unfold featuresSuccs at h ⊢
    simp only [bind, Except.bind, pure, Except.pure] at h ⊢
    cases h1 : featureSuccs K ts {} H [] lf q.2 f with
    | error e => rw [h1] at h; cases h
    | ok r1 =>
      rw [h1] at h
      simp only at h
      cases h2 : featuresSuccs K ts {} H [] lf q.2 fs with
      | error e => rw [h2] at h; cases h
      | ok r2 =>
        rw [h2] at h
        simp only [Except.ok.injEq, Prod.mk.injEq] at h
        obtain ⟨rfl, rfl⟩ := h
        obtain ⟨a1, a2⟩ := x.sim_feature hq ho (hall f List.mem_cons_self) hle (ps := r1.1) (n := r1.2) h1
        obtain ⟨b1, b2⟩ := x.sim_features hq ho hle fs (fun g hg => hall g (List.mem_cons_of_mem _ hg)) r2.1 r2.2 h2
        rw [a2, b2]
        refine ⟨?_, by simp only [List.map_append]⟩
        intro b hb
        rcases List.mem_append.mp hb with hb | hb
        · exact a1 b hb
        · exact b1 b hb

/-- **the successor computation on a collected structure and on its counterpart** -/
theorem JW.sim_node (x : JW K ts c ci H L ci' HF) {q : Int × Nat} (hq : q ∈ L) {o : Obj} (ho : H[q.2]? = some o)
    {t : TypeRec} (ht : getType ts o.ty = .ok t) {lf lf' : Nat} (hle : lf ≤ lf') {ps : List Nat} {n : Nat}
    (h : nodeSuccs K ts {} H [] lf q.2 t = .ok (ps, n)) :
    (∀ b ∈ ps, InL H L b) ∧
    nodeSuccs K ts {} HF [] lf' (naOf H L q.1) t = .ok (ps.map (phiOf H (naOf H L)), n) := by
  rcases (x.lok.coll q hq).1 with hg | ha
  · obtain ⟨o1, t1, ho1, ht1, _, _, _, hsup, _, _, _, _, _, _, _, hfeat, _⟩ := hg
    rw [ho] at ho1; cases ho1
    rw [getType_of_find ht1] at ht; cases ht
    have hs : (t.super == some ARRAY_BASE) = false := by
      cases hh : (t.super == some ARRAY_BASE)
      · rfl
      · exact absurd (eq_of_beq hh) hsup
    unfold nodeSuccs at h ⊢
    rw [hs] at h ⊢
    exact x.sim_features hq ho hle (allFeatures t) hfeat ps n h
  · obtain ⟨o1, t1, f, ev, ho1, ht1, _, hsup, _, _, _, _, _, _, _⟩ := ha
    rw [ho] at ho1; cases ho1
    rw [getType_of_find ht1] at ht; cases ht
    have hs : (t.super == some ARRAY_BASE) = true := by rw [hsup]; exact beq_self_eq_true _
    by_cases hfa : (t.name == FS_ARRAY) = true
    · rw [nodeSuccs_fsarr hs hfa] at h ⊢
      simp only [Except.ok.injEq, Prod.mk.injEq] at h ⊢
      obtain ⟨rfl, rfl⟩ := h
      obtain ⟨e1, e2⟩ := x.elemsPush_exp hq
      exact ⟨e2, e1, rfl⟩
    · unfold nodeSuccs at h ⊢
      rw [hs] at h ⊢
      simp only [if_true] at h ⊢
      rw [if_neg hfa] at h ⊢
      simp only [Except.ok.injEq, Prod.mk.injEq] at h ⊢
      obtain ⟨rfl, rfl⟩ := h
      exact ⟨fun b hb => (by cases hb), rfl, rfl⟩

/-- the counterpart of a collected structure: same type, the id of the written structure -/
theorem JW.obj (x : JW K ts c ci H L ci' HF) {q : Int × Nat} (hq : q ∈ L) :
    ∃ o o', H[q.2]? = some o ∧ HF[naOf H L q.1]? = some o' ∧ o'.ty = o.ty ∧ o'.xid = some q.1 := by
  obtain ⟨o, o', ho, ho', h1, h2, _, _⟩ := x.rel q hq
  exact ⟨o, o', ho, ho', h1, h2⟩

/-- `succsOf` on both sides, when the computation succeeds on the written side -/
theorem JW.succsOf_new (x : JW K ts c ci H L ci' HF) {q : Int × Nat} (hq : q ∈ L) {o : Obj} (ho : H[q.2]? = some o)
    {t : TypeRec} (ht : getType ts o.ty = .ok t) {lf lf' : Nat} (hle : lf ≤ lf') {ps : List Nat} {n : Nat}
    (h : nodeSuccs K ts {} H [] lf q.2 t = .ok (ps, n)) :
    succsOf K ts {} H lf q.2 = ps ∧ succsOf K ts {} HF lf' (naOf H L q.1) = ps.map (phiOf H (naOf H L)) := by
  obtain ⟨o1, o', ho1, ho', hty, _⟩ := x.obj hq
  rw [ho] at ho1; cases ho1
  refine ⟨succsOf_eq K ts {} ho ht h, ?_⟩
  exact succsOf_eq K ts {} ho' (by rw [hty]; exact ht) (x.sim_node hq ho ht hle h).2

end

end Cassis.Comparable
