/-
C16 with an embedded type system, the chain JSON → CAS → XMI → CAS, part 2: the XMI fragment (`CollFs`), the successor
relation of the traversal (`Target`) and the invariant of the collected structures (`LOkC`) carry over from a type
system `ts` and a heap `hp` to a type system `ts'` that answers the XMI codec alike (`TsLe`, `Proofs/ChainEmbTs.lean`)
and a heap `hp'` that is the same up to the order of the slots of each object (`HeapSim`), provided the slots of the
objects of `hp'` come in the order of the features under `ts'` (`SlotsOk`: what a reader running under `ts'` makes).
-/
import CassisModel.Proofs.ChainEmbTs
import CassisModel.Proofs.RoundTripJsonEmbSim
import CassisModel.Proofs.RoundTripCollDefs

namespace Cassis.ChainE
open Cassis.TS Cassis.Traverse Cassis.Xmi Cassis.Json

/-- the slots of the object at `a` come in the order of the constructor fields of its type -/
def SlotsOk (ts : TypeSystem) (hp : Heap) (a : Nat) : Prop :=
  ∀ o t, hp[a]? = some o → find? ts o.ty = some t → o.slots.map (·.1) = (ctorFields t).eraseDups

theorem ObjSim.symm' {o o' : Obj} (h : ObjSim o o') : ObjSim o' o :=
  ⟨h.1.symm, h.2.1.symm, h.2.2.1.symm, h.2.2.2.1.symm, fun n => (h.2.2.2.2 n).symm⟩

theorem HeapSim.symm' {hp hp' : Heap} (h : HeapSim hp hp') : HeapSim hp' hp :=
  ⟨h.1.symm, fun a o' o ho' ho => ObjSim.symm' (h.2 a o o' ho ho')⟩

/-! ### the heap is consulted through `xidOf`, `slot`, `collectList` and its length -/

theorem xidOf_sim {hp hp' : Heap} (h : HeapSim hp hp') : Traverse.xidOf hp' = Traverse.xidOf hp :=
  funext (fun a => h.xidOf a)

theorem slot_sim {hp hp' : Heap} (h : HeapSim hp hp') : Xmi.slot hp' = Xmi.slot hp := by
  funext a n
  exact h.slot a n

theorem tslot_sim {hp hp' : Heap} (h : HeapSim hp hp') : Traverse.slot hp' = Traverse.slot hp := by
  funext a n
  exact h.slot a n

theorem collectList_sim {hp hp' : Heap} (h : HeapSim hp hp') : collectList hp' = collectList hp := by
  funext fuel
  induction fuel with
  | zero => funext v; rfl
  | succ f ih =>
    funext v
    cases v with
    | ref a =>
      unfold collectList
      rw [slot_sim h, ih]
    | _ => rfl

/-! ### one feature -/

theorem multi_true_iff (f : Feature) : f.multi = some true ↔ f.multi.getD false = true := by
  cases hm : f.multi with
  | none => simp
  | some b => simp

/-- an inlined collection feature has an array or list range -/
theorem inlineFeat_coll {K : Consts} {ts : TypeSystem} {hp : Heap} {o : Obj} {f : Feature}
    (h : InlineFeat K ts hp o f) : isArray K f.range = true ∨ isList K f.range = true := by
  obtain ⟨_, v, _, hk⟩ := h
  rcases hk with ⟨_, rk, _⟩ | ⟨_, rk, _⟩ | ⟨_, rk, _⟩ | ⟨_, rk, _⟩ | ⟨_, rk, _⟩ | ⟨_, rk, _⟩ | ⟨_, rk, _⟩
  · exact .inl rk.arr
  · exact .inl rk.arr
  · exact .inl rk.arr
  · exact .inr rk.list
  · exact .inr rk.list
  · exact .inr rk.list
  · exact .inr rk.list

/-- the fragment looks at a feature through its name, range, reserved flag and — for collection ranges —
    `multipleReferencesAllowed` -/
theorem collFeat_like {K : Consts} {ts : TypeSystem} {c : Cas} {ci : Nat} {hp : Heap} {isAnn : Bool} {o : Obj}
    {f f' : Feature} (hl : FeatLike K f f') (h : CollFeat K ts c ci hp isAnn o f) : CollFeat K ts c ci hp isAnn o f' := by
  obtain ⟨hn, hr, hm, hres⟩ := hl
  rcases h with hflat | ⟨hname, hsh | hin⟩
  · refine .inl ?_
    unfold FlatFeat ResOk at hflat ⊢
    rw [hn, hr, hres]
    exact hflat
  · refine .inr ⟨?_, .inl ?_⟩
    · unfold NameOk ResOk at hname ⊢
      rw [hn, hres]
      exact hname
    · have hcoll := hsh.2.1
      unfold SharedFeat at hsh ⊢
      rw [hn, hr]
      refine ⟨?_, hsh.2⟩
      rw [multi_true_iff, hm hcoll, ← multi_true_iff]
      exact hsh.1
  · refine .inr ⟨?_, .inr ?_⟩
    · unfold NameOk ResOk at hname ⊢
      rw [hn, hres]
      exact hname
    · have hcoll := inlineFeat_coll hin
      unfold InlineFeat at hin ⊢
      rw [hn, hr, hm hcoll]
      exact hin

theorem rangeKind_eq {K : Consts} {ts ts' : TypeSystem} (hi : ∀ a b, isInstanceOf ts' a b = isInstanceOf ts a b)
    (hpr : ∀ r, isPrimitive K ts' r = isPrimitive K ts r) (r : String) (pa pl ar li sa sl : Bool) :
    RangeKind K ts' r pa pl ar li sa sl = RangeKind K ts r pa pl ar li sa sl := by
  apply propext
  constructor
  · intro h
    exact ⟨h.primArr, h.primList, h.arr, h.list, by rw [← hi]; exact h.strArr, by rw [← hi]; exact h.strList,
      by rw [← hpr]; exact h.prim⟩
  · intro h
    exact ⟨h.primArr, h.primList, h.arr, h.list, by rw [hi]; exact h.strArr, by rw [hi]; exact h.strList,
      by rw [hpr]; exact h.prim⟩

/-- … and at the type system through `is_instance_of` / `is_primitive`, at the heap through ids, slots and list spines -/
theorem collFeat_sim {K : Consts} {ts ts' : TypeSystem} {c : Cas} {ci : Nat} {hp hp' : Heap} {isAnn : Bool} {o o' : Obj}
    {f : Feature} (hi : ∀ a b, isInstanceOf ts' a b = isInstanceOf ts a b)
    (hpr : ∀ r, isPrimitive K ts' r = isPrimitive K ts r) (hh : HeapSim hp hp')
    (ho : ∀ n, alistGet? o'.slots n = alistGet? o.slots n)
    (h : CollFeat K ts c ci hp isAnn o f) : CollFeat K ts' c ci hp' isAnn o' f := by
  unfold CollFeat FlatFeat SharedFeat InlineFeat InlArr InlList FsElems RefOk at h ⊢
  rw [xidOf_sim hh, slot_sim hh, collectList_sim hh, hh.1]
  simp only [hi, hpr, ho, rangeKind_eq hi hpr]
  exact h

/-! ### one structure -/

theorem perm_singleton_eq {α} {l : List α} {x : α} (h : l.Perm [x]) : l = [x] := List.perm_singleton.mp h

theorem collFs_le {K : Consts} {ts ts' : TypeSystem} {c : Cas} {ci : Nat} {hp hp' : Heap} {a : Nat}
    (hle : TsLe K ts ts') (hh : HeapSim hp hp') (hk : SlotsOk ts' hp' a) (h : CollFs K ts c ci hp a) :
    CollFs K ts' c ci hp' a := by
  rcases h with hg | hA
  · obtain ⟨o, t, ho, ht, htn, h1, h2, h3, h4, h5, h6, h7, h8, hnd, hsl, hfeat, hann⟩ := hg
    rcases hh.get a with ⟨g1, _⟩ | ⟨x, o', g1, g2, gx⟩
    · rw [g1] at ho; cases ho
    · rw [g1] at ho; cases ho
      obtain ⟨t', ht', htn', hsup', hperm, hfwd, hbwd⟩ := hle.find _ t ht
      have hty : o'.ty = o.ty := gx.1
      have hget : ∀ n, alistGet? o'.slots n = alistGet? o.slots n := gx.2.2.2.2
      have ht'' : find? ts' o'.ty = some t' := by rw [hty]; exact ht'
      refine .inl ⟨o', t', g2, ht'', by rw [htn', htn, hty], ?_⟩
      rw [hty, hsup', hle.inst, hle.inst]
      refine ⟨h1, h2, h3, h4, h5, h6, h7, h8, hperm.nodup_iff.mpr hnd, hk o' t' g2 ht'', ?_, ?_⟩
      · intro f' hf'
        obtain ⟨f, hf, hl⟩ := hbwd f' hf'
        exact collFeat_like hl (collFeat_sim hle.inst hle.prim hh hget (hfeat f hf))
      · intro hA
        obtain ⟨vn, v, text, b, e, k1, k2, k3, k4, k5, k6, k7⟩ := hann hA
        exact ⟨vn, v, text, b, e, by rw [hget]; exact k1, k2, k3, by rw [hget]; exact k4, by rw [hget]; exact k5, k6, k7⟩
  · obtain ⟨o, t, f, ev, ho, ht, htn, hsup, hall, hfn, hfr, hres, hsl, hann, hcase⟩ := hA
    rcases hh.get a with ⟨g1, _⟩ | ⟨x, o', g1, g2, gx⟩
    · rw [g1] at ho; cases ho
    · rw [g1] at ho; cases ho
      obtain ⟨t', ht', htn', hsup', hperm, hfwd, hbwd⟩ := hle.find _ t ht
      have hty : o'.ty = o.ty := gx.1
      have ht'' : find? ts' o'.ty = some t' := by rw [hty]; exact ht'
      -- the only feature
      have hnames : (allFeatures t').map (·.name) = [f.name] := by
        have : (ctorFields t').Perm [f.name] := by
          have e : ctorFields t = [f.name] := by unfold ctorFields; rw [hall]; rfl
          rw [← e]; exact hperm
        exact perm_singleton_eq this
      obtain ⟨f', hall'⟩ : ∃ f', allFeatures t' = [f'] := by
        cases hl : allFeatures t' with
        | nil => rw [hl] at hnames; cases hnames
        | cons f' rest =>
          cases rest with
          | nil => exact ⟨f', rfl⟩
          | cons _ _ => rw [hl] at hnames; simp at hnames
      obtain ⟨f0, hf0, hl⟩ := hbwd f' (by rw [hall']; exact List.mem_cons_self)
      rw [hall] at hf0
      have e0 : f0 = f := by simpa using hf0
      subst e0
      obtain ⟨l1, l2, _, l4⟩ := hl
      have hsl' : o'.slots = [("elements", ev)] := by
        have := gx.2.2.2.1
        rw [hsl] at this
        exact perm_singleton_eq this
      refine .inr ⟨o', t', f', ev, g2, ht'', by rw [htn', htn, hty], by rw [hsup']; exact hsup, hall',
        by rw [l1]; exact hfn, by rw [l2]; exact hfr, by rw [l4]; exact hres, hsl', ?_, ?_⟩
      · rw [hty, hle.inst]; exact hann
      · rw [hty, hle.inst, hle.inst]
        unfold FsElems RefOk at hcase ⊢
        rw [xidOf_sim hh]
        exact hcase

/-! ### the successor relation -/

theorem isInline_like {K : Consts} {f f' : Feature} (hl : FeatLike K f f') : isInline K f' = isInline K f := by
  unfold isInline
  rw [hl.2.1]
  cases ha : isArray K f.range with
  | true => rw [hl.2.2.1 (.inl ha)]
  | false =>
    cases hli : isList K f.range with
    | true => rw [hl.2.2.1 (.inr hli)]
    | false => simp

theorem target_le {K : Consts} {ts ts' : TypeSystem} {hp hp' : Heap} {a b : Nat}
    (hle : TsLe K ts ts') (hh : HeapSim hp hp') (h : Target K ts hp a b) : Target K ts' hp' a b := by
  obtain ⟨o, t, ho, ht, hcase⟩ := h
  rcases hh.get a with ⟨g1, _⟩ | ⟨x, o', g1, g2, gx⟩
  · rw [g1] at ho; cases ho
  · rw [g1] at ho; cases ho
    obtain ⟨t', ht', _, _, _, hfwd, _⟩ := hle.find _ t ht
    have hty : o'.ty = o.ty := gx.1
    have hget : ∀ n, alistGet? o'.slots n = alistGet? o.slots n := gx.2.2.2.2
    refine ⟨o', t', g2, by rw [hty]; exact ht', ?_⟩
    rcases hcase with ⟨f, hf, h1, h2⟩ | ⟨f, hf, h1, h2, cc, l, h3, h4, h5⟩ | ⟨f, hf, h1, h2, cc, hs, h3, h4, h5⟩ |
      ⟨h1, l, h2, h3⟩
    · obtain ⟨f', hf', hl⟩ := hfwd f hf
      exact .inl ⟨f', hf', by rw [isInline_like hl]; exact h1, by rw [hl.1, hget]; exact h2⟩
    · obtain ⟨f', hf', hl⟩ := hfwd f hf
      exact .inr (.inl ⟨f', hf', by rw [isInline_like hl]; exact h1, by rw [hl.2.1]; exact h2, cc, l,
        by rw [hl.1, hget]; exact h3, by rw [slot_sim hh]; exact h4, h5⟩)
    · obtain ⟨f', hf', hl⟩ := hfwd f hf
      exact .inr (.inr (.inl ⟨f', hf', by rw [isInline_like hl]; exact h1, by rw [hl.2.1]; exact h2, cc, hs,
        by rw [hl.1, hget]; exact h3, by rw [collectList_sim hh, hh.1]; exact h4, h5⟩))
    · exact .inr (.inr (.inr ⟨by rw [hty]; exact h1, l, by rw [hget]; exact h2, h3⟩))

/-! ### the collected structures -/

theorem lokC_le {K : Consts} {ts ts' : TypeSystem} {c : Cas} {ci : Nat} {hp hp' : Heap} {L : List (Int × Nat)}
    (hle : TsLe K ts ts') (hle' : TsLe K ts' ts) (hh : HeapSim hp hp') (hk : ∀ q ∈ L, SlotsOk ts' hp' q.2)
    (hL : LOkC K ts c ci hp L) : LOkC K ts' c ci hp' L := by
  refine ⟨fun q hq => collFs_le hle hh (hk q hq) (hL.coll q hq), ?_, hL.nodup, ?_, hL.members⟩
  · intro q hq
    rw [hh.xidOf]
    exact hL.ids q hq
  · intro q hq b hb
    obtain ⟨x, hx, hxl⟩ := hL.closed q hq b (target_le hle' (HeapSim.symm' hh) hb)
    exact ⟨x, by rw [hh.xidOf]; exact hx, hxl⟩

end Cassis.ChainE
