/-
Helper lemmas for `Properties/C13Self.lean`, part B: replaying declarations that the original type
system `o` makes too never fails, ends after one pass, and keeps the simulation invariant.
-/
import CassisModel.Proofs.MergeSelfA

namespace Cassis.TS

/-- a declaration that the original `o` makes too -/
structure DeclOk (K : Consts) (o : TypeSystem) (d : Decl) : Prop where
  ex : ∃ t, find? o d.name = some t ∧ t.super = some d.super ∧ t.descr = d.descr ∧
    (∀ f ∈ d.own, ∃ g ∈ eff t, featureEq g f = true)
  nonfinal : K.finalTypes.contains d.super = false
  user : K.predefined.contains d.name = false

theorem grow_cov {K : Consts} {a b : TypeSystem} (h : Grow K a b) {n : String} {t : TypeRec}
    (ht : find? a n = some t) : ∃ t', find? b n = some t' ∧ ∀ g ∈ eff t, g ∈ eff t' := by
  obtain ⟨t', ht', _, _, o1, i1, _⟩ := h n t ht
  refine ⟨t', ht', ?_⟩
  intro g hg
  rcases List.mem_append.mp hg with hg | hg
  · exact List.mem_append_left _ (o1 g hg)
  · exact List.mem_append_right _ (i1 g hg)

theorem addOwnFeatures_step (K : Consts) (o : TypeSystem) (hfo : FeatInv o) (n : String)
    (hn : K.predefined.contains n = false) :
    ∀ (fs : List Feature) (ts : TypeSystem), Consistent ts → FeatInv ts → Sub o ts → hasExact ts n = true →
      (∀ f ∈ fs, CovIn o n f) →
      ∃ ts', addOwnFeatures ts n fs = .ok ts' ∧ Consistent ts' ∧ FeatInv ts' ∧ Sub o ts' ∧ Grow K ts ts' ∧
        ∃ t', find? ts' n = some t' ∧ ∀ f ∈ fs, ∃ g ∈ eff t', featureEq g f = true := by
  intro fs
  induction fs with
  | nil =>
    intro ts hc hf hs hreg _
    obtain ⟨t, ht⟩ := (hasExact_iff_find ts n).mp hreg
    exact ⟨ts, rfl, hc, hf, hs, Grow.refl K ts, t, ht, fun f hf => by cases hf⟩
  | cons f fs ih =>
    intro ts hc hf hs hreg hcov
    have hcov' : CovIn o n { f with domain := n } := by
      obtain ⟨tc, htc, g, hg, hgf⟩ := hcov f List.mem_cons_self
      exact ⟨tc, htc, g, hg, hgf⟩
    obtain ⟨ts1, h1, hs1⟩ := addFeature_sub o hfo ts n { f with domain := n } hc hs hreg hcov'
    have hc1 := consistent_addFeature_aux ts ts1 n _ hc h1
    have hf1 := featInv_addFeature_aux ts ts1 n _ hc hf h1
    have hg1 : Grow K ts ts1 := addFeature_grow K hc hf hn h1
    obtain ⟨t1, ht1, g, hg, hgf⟩ := addFeature_covers hc hf h1
    obtain ⟨ts', h2, hc2, hf2, hs2, hg2, t', ht', hall⟩ :=
      ih ts1 hc1 hf1 hs1 (hg1.reg n hreg) (fun x hx => hcov x (List.mem_cons_of_mem _ hx))
    refine ⟨ts', ?_, hc2, hf2, hs2, hg1.trans hg2, t', ht', ?_⟩
    · simp only [addOwnFeatures, h1]
      exact h2
    · intro x hx
      rcases List.mem_cons.mp hx with rfl | hx
      · obtain ⟨t'', ht'', hsub⟩ := grow_cov hg2 ht1
        rw [ht'] at ht''; cases ht''
        exact ⟨g, hsub g hg, hgf⟩
      · exact hall x hx

theorem processDecl_step (K : Consts) (o : TypeSystem) (hfo : FeatInv o) (s : MState) (d : Decl)
    (hc : Consistent s.ts) (hf : FeatInv s.ts) (hs : Sub o s.ts) (hd : DeclOk K o d)
    (hsup : hasExact s.ts d.super = true) :
    ∃ s', processDecl K s d = .ok s' ∧ Consistent s'.ts ∧ FeatInv s'.ts ∧ Sub o s'.ts ∧ Grow K s.ts s'.ts ∧
      s'.merged = (if s.merged.contains d.name then s.merged else s.merged ++ [d.name]) ∧
      ∃ t', find? s'.ts d.name = some t' ∧ ∀ f ∈ d.own, ∃ g ∈ eff t', featureEq g f = true := by
  obtain ⟨tn, htn, htns, htnd, hcov⟩ := hd.ex
  have hcovIn : ∀ f ∈ d.own, CovIn o d.name f := fun f hf => ⟨tn, htn, hcov f hf⟩
  cases hx : hasExact s.ts d.name with
  | false =>
    obtain ⟨sup, hsupf⟩ := (hasExact_iff_find _ _).mp hsup
    obtain ⟨ts1, h1, hc1, hf1, hs1, hg1, hreg1⟩ :=
      createType_step K o hfo s.ts d.name d.super tn sup hc hf hs hx hsupf hd.nonfinal htn htns
    rw [htnd] at h1
    obtain ⟨ts2, h2, hc2, hf2, hs2, hg2, hcv⟩ :=
      addOwnFeatures_step K o hfo d.name hd.user d.own ts1 hc1 hf1 hs1 hreg1 hcovIn
    refine ⟨{ ts := ts2, merged := if s.merged.contains d.name then s.merged else s.merged ++ [d.name] },
      ?_, hc2, hf2, hs2, hg1.trans hg2, rfl, hcv⟩
    simp only [processDecl, hx, bind, Except.bind, pure, Except.pure, Bool.not_false, if_true, h1, h2]
  | true =>
    obtain ⟨ex, he⟩ := (hasExact_iff_find _ _).mp hx
    obtain ⟨to, hto, hr⟩ := hs d.name ex he
    rw [htn] at hto; cases hto
    have hss : ex.super = some d.super := by rw [← hr.super]; exact htns
    obtain ⟨ts2, h2, hc2, hf2, hs2, hg2, hcv⟩ :=
      addOwnFeatures_step K o hfo d.name hd.user d.own s.ts hc hf hs hx hcovIn
    refine ⟨{ ts := ts2, merged := if s.merged.contains d.name then s.merged else s.merged ++ [d.name] },
      ?_, hc2, hf2, hs2, hg2, rfl, hcv⟩
    simp only [processDecl, hx, he, hss, bind, Except.bind, pure, Except.pure, Bool.not_true,
      Option.getD_some, bne_self_eq_false, Bool.false_eq_true, if_false, h2]

/-- every declaration's supertype is predefined or declared earlier (or in `seen`) -/
def ReadyList (K : Consts) : List String → List Decl → Prop
  | _, [] => True
  | seen, d :: ds => (K.predefined.contains d.super = true ∨ d.super ∈ seen) ∧ ReadyList K (d.name :: seen) ds

theorem ReadyList.mono (K : Consts) : ∀ (ds : List Decl) (seen seen' : List String),
    (∀ x ∈ seen, x ∈ seen') → ReadyList K seen ds → ReadyList K seen' ds := by
  intro ds
  induction ds with
  | nil => intro _ _ _ _; trivial
  | cons d ds ih =>
    intro seen seen' hsub h
    refine ⟨h.1.imp id (hsub _), ih _ _ ?_ h.2⟩
    intro x hx
    rcases List.mem_cons.mp hx with rfl | hx
    · exact List.mem_cons_self
    · exact List.mem_cons_of_mem _ (hsub x hx)

theorem ReadyList.append (K : Consts) : ∀ (A B : List Decl) (seen : List String),
    ReadyList K seen A → ReadyList K seen B → ReadyList K seen (A ++ B) := by
  intro A
  induction A with
  | nil => intro B seen _ h; exact h
  | cons a A ih =>
    intro B seen hA hB
    exact ⟨hA.1, ih B _ hA.2 (ReadyList.mono K B _ _ (fun x hx => List.mem_cons_of_mem _ hx) hB)⟩

structure MInv (K : Consts) (o : TypeSystem) (s : MState) : Prop where
  cons : Consistent s.ts
  feat : FeatInv s.ts
  sub : Sub o s.ts
  pre : ∀ p, K.predefined.contains p = true → hasExact s.ts p = true
  mer : ∀ x ∈ s.merged, hasExact s.ts x = true

theorem mergeRound_step (K : Consts) (o : TypeSystem) (hfo : FeatInv o) :
    ∀ (ds : List Decl) (s : MState) (n : Nat) (seen : List String),
      MInv K o s → (∀ d ∈ ds, DeclOk K o d) → ReadyList K seen ds → (∀ x ∈ seen, x ∈ s.merged) →
      ∃ s', mergeRound K ds s n = .ok (s', n + ds.length) ∧ MInv K o s' ∧ Grow K s.ts s'.ts ∧
        ∀ d ∈ ds, ∃ t', find? s'.ts d.name = some t' ∧ ∀ f ∈ d.own, ∃ g ∈ eff t', featureEq g f = true := by
  intro ds
  induction ds with
  | nil =>
    intro s n seen hi _ _ _
    exact ⟨s, rfl, hi, Grow.refl K _, fun d hd => by cases hd⟩
  | cons d ds ih =>
    intro s n seen hi hok hready hseen
    have hd := hok d List.mem_cons_self
    have hsup : hasExact s.ts d.super = true := by
      rcases hready.1 with h | h
      · exact hi.pre _ h
      · exact hi.mer _ (hseen _ h)
    have hcond : (K.predefined.contains d.super || s.merged.contains d.super) = true := by
      rcases hready.1 with h | h
      · rw [h]; rfl
      · have : s.merged.contains d.super = true := by simpa using hseen _ h
        rw [this]; simp
    obtain ⟨s1, h1, hc1, hf1, hs1, hg1, hm1, t1, ht1, hcv1⟩ :=
      processDecl_step K o hfo s d hi.cons hi.feat hi.sub hd hsup
    have hreg1 : hasExact s1.ts d.name = true := (hasExact_iff_find _ _).mpr ⟨t1, ht1⟩
    have hmem1 : ∀ x, x ∈ s1.merged ↔ x ∈ s.merged ∨ x = d.name := by
      intro x
      rw [hm1]
      split
      · rename_i hcn
        have : d.name ∈ s.merged := by simpa using hcn
        constructor
        · exact Or.inl
        · rintro (h | rfl)
          · exact h
          · exact this
      · simp
    have hi1 : MInv K o s1 := by
      refine ⟨hc1, hf1, hs1, fun p hp => hg1.reg p (hi.pre p hp), ?_⟩
      intro x hx
      rcases (hmem1 x).mp hx with h | rfl
      · exact hg1.reg x (hi.mer x h)
      · exact hreg1
    obtain ⟨s', h2, hi2, hg2, hcv2⟩ := ih s1 (n + 1) (d.name :: seen) hi1
      (fun d' hd' => hok d' (List.mem_cons_of_mem _ hd')) hready.2 (by
        intro x hx
        rcases List.mem_cons.mp hx with rfl | hx
        · exact (hmem1 _).mpr (Or.inr rfl)
        · exact (hmem1 x).mpr (Or.inl (hseen x hx)))
    refine ⟨s', ?_, hi2, hg1.trans hg2, ?_⟩
    · simp only [mergeRound, hcond, if_true, h1]
      rw [h2]
      have : n + 1 + ds.length = n + (d :: ds).length := by simp only [List.length_cons]; omega
      rw [this]
    · intro d' hd'
      rcases List.mem_cons.mp hd' with rfl | hd'
      · obtain ⟨t', ht', hsub⟩ := grow_cov hg2 ht1
        refine ⟨t', ht', ?_⟩
        intro f hf
        obtain ⟨g, hg, hgf⟩ := hcv1 f hf
        exact ⟨g, hsub g hg, hgf⟩
      · exact hcv2 d' hd'

theorem mergeDecls_step (K : Consts) (o : TypeSystem) (hfo : FeatInv o) (base : TypeSystem) (decls : List Decl)
    (hinv : MInv K o { ts := base, merged := [] }) (hd : ∀ d ∈ decls, DeclOk K o d)
    (hr : ReadyList K [] decls) :
    ∃ m, mergeDecls K base decls = .ok m ∧ Consistent m ∧ FeatInv m ∧ Sub o m ∧ Grow K base m ∧
      ∀ d ∈ decls, ∃ t', find? m d.name = some t' ∧ ∀ f ∈ d.own, ∃ g ∈ eff t', featureEq g f = true := by
  obtain ⟨s', h, hi, hg, hcv⟩ := mergeRound_step K o hfo decls _ 0 [] hinv hd hr (fun x hx => by cases hx)
  refine ⟨s'.ts, ?_, hi.cons, hi.feat, hi.sub, hg, hcv⟩
  simp only [mergeDecls, mergeLoop, h, Nat.zero_add, beq_self_eq_true, if_true]

end Cassis.TS
