/-
The common fragment of XMI and JSON: a structure of the XMI fragment `CollFs` whose names JSON can carry (`JsonFs`) and
which, if it is an array object, has `elements ≠ None` (J1, `ArrElemsSome`), is in the JSON fragment `JCollFs`.
-/
import CassisModel.Spec.RoundTripJsonCollFrag

namespace Cassis.Json
open Cassis.TS Cassis.Traverse Cassis.Xmi

/-! ### literal type names -/

/-- what the proof needs about the name of a primitive array type other than StringArray -/
theorem primArrTy_ne (r : String) (h : PrimArrTy r) :
    r ≠ "uima.cas.Boolean" ∧ r ≠ "uima.cas.Double" ∧ r ≠ "uima.cas.Float" ∧ r ≠ FS_ARRAY ∧ r ≠ SOFA := by
  rcases h with (h | h | h) | h | h | (h | h) <;> subst h <;> decide

theorem stringArray_ne :
    STRING_ARRAY ≠ "uima.cas.Boolean" ∧ STRING_ARRAY ≠ "uima.cas.Double" ∧ STRING_ARRAY ≠ "uima.cas.Float" ∧
    STRING_ARRAY ≠ FS_ARRAY ∧ STRING_ARRAY ≠ SOFA ∧ STRING_ARRAY ≠ "uima.cas.ByteArray" ∧ ¬ FloatArrTy STRING_ARRAY := by
  refine ⟨by decide, by decide, by decide, by decide, by decide, by decide, ?_⟩
  intro h
  rcases h with h | h <;> revert h <;> decide

theorem fsArray_ne :
    FS_ARRAY ≠ "uima.cas.Boolean" ∧ FS_ARRAY ≠ "uima.cas.Double" ∧ FS_ARRAY ≠ "uima.cas.Float" ∧ FS_ARRAY ≠ SOFA := by
  refine ⟨by decide, by decide, by decide, by decide⟩

theorem integerList_ne :
    INTEGER_LIST ≠ "uima.cas.Boolean" ∧ INTEGER_LIST ≠ "uima.cas.Double" ∧ INTEGER_LIST ≠ "uima.cas.Float" := by
  refine ⟨by decide, by decide, by decide⟩

theorem floatList_ne :
    FLOAT_LIST ≠ "uima.cas.Boolean" ∧ FLOAT_LIST ≠ "uima.cas.Double" ∧ FLOAT_LIST ≠ "uima.cas.Float" := by
  refine ⟨by decide, by decide, by decide⟩

theorem stringList_ne :
    STRING_LIST ≠ "uima.cas.Boolean" ∧ STRING_LIST ≠ "uima.cas.Double" ∧ STRING_LIST ≠ "uima.cas.Float" := by
  refine ⟨by decide, by decide, by decide⟩

theorem fsList_ne :
    FS_LIST ≠ "uima.cas.Boolean" ∧ FS_LIST ≠ "uima.cas.Double" ∧ FS_LIST ≠ "uima.cas.Float" := by
  refine ⟨by decide, by decide, by decide⟩

theorem intArrTy_not (r : String) (h : IntArrTy r) : r ≠ "uima.cas.ByteArray" ∧ ¬ FloatArrTy r := by
  rcases h with h | h | h <;> subst h <;> refine ⟨by decide, ?_⟩ <;> intro h <;>
    rcases h with h | h <;> revert h <;> decide

theorem booleanArray_not : ("uima.cas.BooleanArray" : String) ≠ "uima.cas.ByteArray" ∧
    ¬ FloatArrTy "uima.cas.BooleanArray" := by
  refine ⟨by decide, ?_⟩
  intro h
  rcases h with h | h <;> revert h <;> decide

/-! ### features -/

/-- a reference feature of the JSON fragment, from the pieces common to the shared and the inlined case -/
theorem jfeatOk_ref (K : Consts) (ts : TypeSystem) (c : Cas) (ci : Nat) (hp : Heap) (isAnn : Bool) (o : Obj)
    (f : Feature) (hn : NameOk f) (v : Val) (hv : alistGet? o.slots f.name = some v)
    (hprim : isPrimitive K ts f.range = false)
    (hne : f.range ≠ "uima.cas.Boolean" ∧ f.range ≠ "uima.cas.Double" ∧ f.range ≠ "uima.cas.Float")
    (hval : v = .none ∨ ∃ b : Nat, v = .ref b ∧
      (isInline K f = true → isArray K f.range = false → SpineEnds hp b)) :
    JFeatOk K ts c ci hp isAnn o f := by
  obtain ⟨hr, h1, h2, h3, h4, hs⟩ := hn
  exact ⟨hr, h1, h2, h3, h4, v, hv, Or.inr (Or.inr ⟨hs, hprim, hne.1, hne.2.1, hne.2.2, hval⟩)⟩

/-- the value of an inlined array feature: `None` or a reference; the spine clause is vacuous -/
theorem inlArr_val (K : Consts) (hp : Heap) (f : Feature) (P : Val → Prop) (v : Val)
    (harr : isArray K f.range = true) (h : InlArr hp P v) :
    v = .none ∨ ∃ b : Nat, v = .ref b ∧ (isInline K f = true → isArray K f.range = false → SpineEnds hp b) := by
  rcases h with h | ⟨arr, ev, h, _, _⟩
  · exact Or.inl h
  · refine Or.inr ⟨arr, h, fun _ hf => ?_⟩
    rw [harr] at hf
    cases hf

/-- the value of an inlined list feature: `None` or a reference to a node whose spine ends -/
theorem inlList_val (K : Consts) (hp : Heap) (f : Feature) (P : List Val → Prop) (v : Val) (h : InlList hp P v) :
    v = .none ∨ ∃ b : Nat, v = .ref b ∧ (isInline K f = true → isArray K f.range = false → SpineEnds hp b) := by
  rcases h with h | ⟨a, hs, h, hc, _⟩
  · exact Or.inl h
  · refine Or.inr ⟨a, h, fun _ _ => ⟨hs, ?_⟩⟩
    rw [← h]
    exact hc

theorem jfeatOk_of_collFeat (K : Consts) (ts : TypeSystem) (c : Cas) (ci : Nat) (hp : Heap) (isAnn : Bool) (o : Obj)
    (f : Feature) (h : CollFeat K ts c ci hp isAnn o f) : JFeatOk K ts c ci hp isAnn o f := by
  rcases h with h | ⟨hn, h | h⟩
  · -- flat
    obtain ⟨hr, h1, h2, h3, h4, _, _, _, _, _, _, v, hv, hc⟩ := h
    refine ⟨hr, h1, h2, h3, h4, v, hv, ?_⟩
    rcases hc with hc | hc | ⟨hs, hprim, harr, hlist, hb, hd, hf, hval⟩
    · exact Or.inl hc
    · exact Or.inr (Or.inl hc)
    · refine Or.inr (Or.inr ⟨hs, hprim, hb, hd, hf, ?_⟩)
      rcases hval with hval | ⟨b, hval, _, _⟩
      · exact Or.inl hval
      · refine Or.inr ⟨b, hval, fun hi => ?_⟩
        simp [isInline, harr, hlist] at hi
  · -- shared
    obtain ⟨hm, _, hprim, hb, hd, hf, v, hv, hval⟩ := h
    refine jfeatOk_ref K ts c ci hp isAnn o f hn v hv hprim ⟨hb, hd, hf⟩ ?_
    rcases hval with hval | ⟨b, hval, _⟩
    · exact Or.inl hval
    · refine Or.inr ⟨b, hval, fun hi => ?_⟩
      simp [isInline, hm] at hi
  · -- inline
    obtain ⟨_, v, hv, hc⟩ := h
    rcases hc with ⟨hty, hk, hval⟩ | ⟨hty, hk, hval⟩ | ⟨hty, hk, hval⟩ | ⟨hty, hk, hval⟩ | ⟨hty, hk, hval⟩ |
      ⟨hty, hk, hval⟩ | ⟨hty, hk, hval⟩
    · have hne := primArrTy_ne f.range hty
      exact jfeatOk_ref K ts c ci hp isAnn o f hn v hv hk.prim ⟨hne.1, hne.2.1, hne.2.2.1⟩
        (inlArr_val K hp f _ v hk.arr hval)
    · have hne := stringArray_ne
      rw [← hty] at hne
      exact jfeatOk_ref K ts c ci hp isAnn o f hn v hv hk.prim ⟨hne.1, hne.2.1, hne.2.2.1⟩
        (inlArr_val K hp f _ v hk.arr hval)
    · have hne := fsArray_ne
      rw [← hty] at hne
      exact jfeatOk_ref K ts c ci hp isAnn o f hn v hv hk.prim ⟨hne.1, hne.2.1, hne.2.2.1⟩
        (inlArr_val K hp f _ v hk.arr hval)
    · have hne := integerList_ne
      rw [← hty] at hne
      exact jfeatOk_ref K ts c ci hp isAnn o f hn v hv hk.prim hne (inlList_val K hp f _ v hval)
    · have hne := floatList_ne
      rw [← hty] at hne
      exact jfeatOk_ref K ts c ci hp isAnn o f hn v hv hk.prim hne (inlList_val K hp f _ v hval)
    · have hne := stringList_ne
      rw [← hty] at hne
      exact jfeatOk_ref K ts c ci hp isAnn o f hn v hv hk.prim hne (inlList_val K hp f _ v hval)
    · have hne := fsList_ne
      rw [← hty] at hne
      exact jfeatOk_ref K ts c ci hp isAnn o f hn v hv hk.prim hne (inlList_val K hp f _ v hval)

/-! ### structures -/

/-- a general structure of the XMI fragment is one of the JSON fragment (no extra hypothesis) -/
theorem jgenFs_of_genFs (K : Consts) (ts : TypeSystem) (c : Cas) (ci : Nat) (hp : Heap) (a : Nat)
    (h : GenFs K ts c ci hp a) : JGenFs K ts c ci hp a := by
  obtain ⟨o, t, h1, h2, h3, h4, h5, h6, h7, h8, h9, h10, h11, h12, h13, hfs, hann⟩ := h
  exact ⟨o, t, h1, h2, h3, h4, h5, h6, h7, h8, h9, h10, h11, h12, h13,
    fun f hf => jfeatOk_of_collFeat K ts c ci hp _ o f (hfs f hf), hann⟩

/-- the elements of a primitive array of the XMI fragment are elements JSON carries -/
theorem jprimElems_of_primElems (r : String) (ev : Val) (h : PrimElems r ev) : JPrimElems r ev := by
  rcases h with h | ⟨hty, l, h⟩ | ⟨hty, l, h, _⟩ | ⟨hty, l, h⟩ | ⟨hty, l, h, _⟩
  · exact Or.inl h
  · have hn := intArrTy_not r hty
    exact Or.inr (Or.inr (Or.inr ⟨hn.1, hn.2, Or.inl ⟨l, h⟩⟩))
  · exact Or.inr (Or.inl ⟨hty, l, h⟩)
  · have hn := booleanArray_not
    rw [← hty] at hn
    exact Or.inr (Or.inr (Or.inr ⟨hn.1, hn.2, Or.inr (Or.inl ⟨l, h⟩)⟩))
  · exact Or.inr (Or.inr (Or.inl ⟨hty, l, h⟩))

/-- an array object of the XMI fragment with `elements ≠ None` (J1) is one of the JSON fragment -/
theorem jarrFs_of_arrFs (K : Consts) (ts : TypeSystem) (hp : Heap) (a : Nat)
    (h : ArrFs K ts hp a) (he : ArrElemsSome hp a) : JArrFs K ts hp a := by
  obtain ⟨o, t, f, ev, ho, h2, h3, h4, h5, h6, _, h8, hslots, hann, hc⟩ := h
  have hev : ev ≠ .none := by
    intro hn
    apply he o ho
    rw [hslots, hn]
  rcases hc with ⟨hty, hpa, _, hel⟩ | ⟨hty, hpa, hel⟩ | ⟨hty, hpa, _, hel⟩
  · have hne := fsArray_ne
    rw [← hty] at hne
    refine ⟨o, t, f, ev, ho, h2, h3, h4, h5, h6, h8, hslots, hann, hne.2.2.2, Or.inl ⟨hty, hpa, ?_⟩⟩
    rcases hel with hel | ⟨l, hel, _⟩
    · exact absurd hel hev
    · exact ⟨l.map some, hel⟩
  · have hne := stringArray_ne
    rw [← hty] at hne hpa
    refine ⟨o, t, f, ev, ho, h2, h3, h4, h5, h6, h8, hslots, hann, hne.2.2.2.2.1, Or.inr ⟨hne.2.2.2.1, hpa, ?_⟩⟩
    rcases hel with hel | ⟨l, hel⟩
    · exact Or.inl hel
    · exact Or.inr (Or.inr (Or.inr ⟨hne.2.2.2.2.2.1, hne.2.2.2.2.2.2, Or.inr (Or.inr ⟨l, hel⟩)⟩))
  · have hne := primArrTy_ne o.ty hty
    refine ⟨o, t, f, ev, ho, h2, h3, h4, h5, h6, h8, hslots, hann, hne.2.2.2.2, Or.inr ⟨hne.2.2.2.1, hpa, ?_⟩⟩
    rcases hel with hel | hel
    · exact absurd hel hev
    · exact jprimElems_of_primElems o.ty ev hel

/-- the common fragment of both formats is part of the JSON fragment; the extra hypothesis is (J1) -/
theorem jcollFs_of_collFs_aux (K : Consts) (ts : TypeSystem) (c : Cas) (ci : Nat) (hp : Heap) (a : Nat)
    (h : CollFs K ts c ci hp a) (hj : JsonFs ts hp a) (he : ArrElemsSome hp a) : JCollFs K ts c ci hp a := by
  rcases h with h | h
  · exact ⟨Or.inl (jgenFs_of_genFs K ts c ci hp a h), hj⟩
  · exact ⟨Or.inr (jarrFs_of_arrFs K ts hp a h he), hj⟩

end Cassis.Json
