/-
C16 with collections: the normalised CAS (`normCas`, `ChainDefs.lean`) is in the JSON fragment with collections when the
CAS is, and is written as the same JSON elements (cf. `ChainNorm.lean` for the flat fragment).
-/
import CassisModel.Proofs.ChainNorm
import CassisModel.Proofs.RoundTripJsonColl
import CassisModel.Proofs.RoundTripJsonCollWriter

namespace Cassis.ChainC
open Cassis.TS Cassis.Traverse Cassis.Xmi Cassis.Json Cassis.Chain

theorem jgenFs_norm {K : Consts} {ts : TypeSystem} {c : Cas} {ci : Nat} {H : Heap} {a : Nat}
    (h : JGenFs K ts c ci H a) : JGenFs K ts (normCas c) ci H a := by
  obtain ⟨o, t, h1, h2, h3, h4, h5, h6, h7, h8, h9, h10, h11, h12, h13, hfeat, hann⟩ := h
  refine ⟨o, t, h1, h2, h3, h4, h5, h6, h7, h8, h9, h10, h11, h12, h13, fun f hf => ?_, ?_⟩
  · obtain ⟨r1, r2, r3, r4, r5, v, hv, hcase⟩ := hfeat f hf
    refine ⟨r1, r2, r3, r4, r5, v, hv, ?_⟩
    rcases hcase with ⟨hn, hs⟩ | hr
    · refine Or.inl ⟨hn, ?_⟩
      rcases hs with ⟨vn, hvn, hsome⟩ | hs
      · refine Or.inl ⟨vn, hvn, ?_⟩
        rw [getViewRec_norm, Option.isSome_map]; exact hsome
      · exact Or.inr hs
    · exact Or.inr hr
  · intro hA
    obtain ⟨vn, v, text, b, e, ha, hb, hc, hd⟩ := hann hA
    refine ⟨vn, normView v, text, b, e, ha, ?_, hc, hd⟩
    rw [getViewRec_norm, hb]; rfl

theorem lokJ_norm {K : Consts} {ts : TypeSystem} {c : Cas} {ci : Nat} {H : Heap} {L : List (Int × Nat)}
    (h : LOkJ K ts c ci H L) : LOkJ K ts (normCas c) ci H L := by
  refine ⟨fun q hq => ?_, h.ids, h.nodup, h.closed, h.closedE, ?_⟩
  · obtain ⟨hk, hj⟩ := h.coll q hq
    refine ⟨?_, hj⟩
    rcases hk with hg | ha
    · exact .inl (jgenFs_norm hg)
    · exact .inr ha
  · intro nv hnv
    obtain ⟨nv0, hnv0, rfl⟩ := List.mem_map.mp hnv
    exact h.members nv0 hnv0

/-- the elements of the collected structures do not change: only offsets inside the text of the sofa are converted -/
theorem elemOfJ_norm {K : Consts} {ts : TypeSystem} {cassA cassB : List Cas} {c : Cas} {ci : Nat} {H : Heap}
    (hcA : cassA[ci]? = some c) (hcB : cassB[ci]? = some (normCas c))
    (hconv : ∀ nv ∈ c.views, ∀ t, nv.2.sofa.text = some t → ∀ k, k ≤ t.length →
      Offsets.pythonToExternal nv.2.sofa.conv k = Offsets.pythonToExternal (some (Offsets.table t)) k)
    (q : Int × Nat) (hcoll : JGenFs K ts c ci H q.2 ∨ JArrFs K ts H q.2) :
    elemOfJ K ts cassB H q = elemOfJ K ts cassA H q := by
  rcases hcoll with hg | ha
  · obtain ⟨o, t, ho, ht, _, _, _, _, _, _, _, _, _, _, _, hfeat, hann⟩ := hg
    unfold elemOfJ
    simp only [ho, ht]
    split
    · rfl
    · unfold flatJFs
      congr 1
      apply flatMap_congrFix
      intro f hf
      obtain ⟨hres, _, _, _, _, v, hv, hcase⟩ := hfeat f hf
      unfold jmemF
      rw [hv, Option.getD_some]
      rcases hcase with ⟨_, ⟨vn, rfl, hsome⟩ | ⟨rfl, _⟩⟩ | ⟨_, _, hp⟩ | ⟨_, _, _, _, _, hr⟩
      · unfold jmem
        simp only [hcB, hcA, Option.bind_some, getViewRec_norm]
        cases hview : Cas.getViewRec c vn with
        | none => rfl
        | some view => rfl
      · rfl
      · rcases hp with rfl | ⟨_, i, rfl⟩ | ⟨_, s, rfl⟩ | ⟨_, b, rfl⟩ | ⟨_, t, rfl⟩
        · rfl
        · unfold jmem
          simp only
          rw [Json.extInt_xmlName cassB _ o f hres, Json.extInt_xmlName cassA _ o f hres,
            extInt_norm hcA hcB hconv hann f.name i hv]
        · rfl
        · rfl
        · rfl
      · rcases hr with rfl | ⟨b, rfl, _⟩
        · rfl
        · rfl
  · obtain ⟨o, ho⟩ : ∃ o, H[q.2]? = some o := by
      obtain ⟨o, _, _, _, ho, _⟩ := ha; exact ⟨o, ho⟩
    have hcond := jarr_cond ha ho
    unfold elemOfJ
    rw [ho]
    dsimp only
    rw [hcond]
    rfl

end Cassis.ChainC
