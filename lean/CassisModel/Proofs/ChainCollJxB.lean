/-
C16 with collections, the converse chain, part B: every counterpart in the CAS loaded from JSON is a structure of the XMI
fragment (`CollFs` in the loaded CAS); the members of the loaded views.
-/
import CassisModel.Proofs.ChainCollJxA
import CassisModel.Proofs.RoundTripJsonCollViews
import CassisModel.Proofs.RoundTripJsonFixTrav
import CassisModel.Proofs.RoundTripFixAux

namespace Cassis.ChainC
open Cassis.TS Cassis.Traverse Cassis.Xmi Cassis.Lex Cassis.Json Cassis.Json.CC

theorem single_slot' {β} : ∀ (l : List (String × β)) (k : String) (v : β), l.map (·.1) = [k] → alistGet? l k = some v →
    l = [(k, v)]
  | [], _, _, h, _ => by cases h
  | [(k', v')], k, v, h, hg => by
    simp only [List.map_cons, List.map_nil, List.cons.injEq, and_true] at h
    subst h
    unfold alistGet? at hg
    rw [if_pos rfl] at hg
    cases hg
    rfl
  | _ :: _ :: _, _, _, h, _ => by simp at h

theorem primElems_expJ {r : String} {ev : Val} (H : Heap) (na : Int → Nat) (ci' : Nat) (hP : PrimElems r ev) :
    PrimElems r (exp3J H na ci' ev) := by
  rcases hP with rfl | ⟨h1, l, rfl⟩ | ⟨h1, l, rfl, h2⟩ | ⟨h1, l, rfl⟩ | ⟨h1, l, rfl, h2⟩
  · exact .inl rfl
  · cases l with
    | nil => exact .inl rfl
    | cons i l => exact .inr (.inl ⟨h1, _, rfl⟩)
  · cases l with
    | nil => exact .inl rfl
    | cons i l => exact .inr (.inr (.inl ⟨h1, _, rfl, h2⟩))
  · cases l with
    | nil => exact .inl rfl
    | cons i l => exact .inr (.inr (.inr (.inl ⟨h1, _, rfl⟩)))
  · cases l with
    | nil => exact .inl rfl
    | cons i l => exact .inr (.inr (.inr (.inr ⟨h1, _, rfl, h2⟩)))

theorem strElems_expJ {ev : Val} (H : Heap) (na : Int → Nat) (ci' : Nat) (hP : StrElems ev) :
    StrElems (exp3J H na ci' ev) := by
  rcases hP with rfl | ⟨l, rfl⟩
  · exact .inl rfl
  · cases l with
    | nil => exact .inl rfl
    | cons i l => exact .inr ⟨_, rfl⟩

section
variable {K : Consts} {ts : TypeSystem} {c : Cas} {ci : Nat} {H : Heap} {L : List (Int × Nat)} {ci' : Nat}
  {ld : Json.Loaded}

theorem JLd.fsElems_expJ (x : JLd K ts c ci H L ci' ld) {q' : Int × Nat} (hq' : q' ∈ L) {o2 : Obj}
    (ho2 : H[q'.2]? = some o2) {l : List Nat} (hel2 : alistGet? o2.slots "elements" = some (.refs (l.map some))) :
    FsElems ld.heap (exp3J H (naOf H L) ci' (.refs (l.map some))) := by
  have hmem : ∀ b ∈ l, ∃ q2 ∈ L, q2.2 = b ∧ xidOf H b = some q2.1 := by
    intro b hbl
    obtain ⟨y, hy, hyl⟩ := x.lok.closedE q' hq' o2 ho2 _ hel2 b (List.mem_map_of_mem hbl)
    exact ⟨(y, b), hyl, rfl, hy⟩
  refine ⟨l.map (fun b => naOf H L ((xidOf H b).getD 0)), ?_, ?_⟩
  · simp only [exp3J, elemsExpJ, List.map_map]
    congr 1
    apply List.map_congr_left
    intro b hbl
    obtain ⟨q2, _, _, hy⟩ := hmem b hbl
    simp only [Function.comp, Option.bind_some, hy, Option.map_some, Option.getD_some]
  · intro b' hb'
    obtain ⟨b, hbl, rfl⟩ := List.mem_map.mp hb'
    obtain ⟨q2, hq2, _, hy⟩ := hmem b hbl
    rw [hy]
    exact x.refOk_new hq2

/-- **the counterparts are in the XMI fragment** -/
theorem JLd.coll_new (x : JLd K ts c ci H L ci' ld) {q : Int × Nat} (hq : q ∈ L) :
    CollFs K ts ld.cas ci' ld.heap (naOf H L q.1) := by
  obtain ⟨o, o', ho, ho', hty, hx, hkeys, hslots⟩ := x.obj hq
  rcases x.collx q hq with hg | hA
  · obtain ⟨o1, t, ho1, ht, htn, h1, h2, h3, h4, h5, h6, h7, h8, hnd, hsl, hfeat, hann⟩ := hg
    rw [ho] at ho1; cases ho1
    refine .inl ⟨o', t, ho', ?_⟩
    rw [hty, hkeys]
    refine ⟨ht, htn, h1, h2, h3, h4, h5, h6, h7, h8, hnd, hsl, fun f hf => x.feat_new hq ho hslots (hfeat f hf), ?_⟩
    intro hA
    obtain ⟨vn, v, text, b, e, hs, hview, htext, hb, he, hbl, hel⟩ := hann hA
    obtain ⟨v', hv', hvs⟩ := x.view_some hview
    exact ⟨vn, v', text, b, e, hslots _ _ hs, hv', by rw [hvs]; exact htext, hslots _ _ hb, hslots _ _ he, hbl, hel⟩
  · obtain ⟨o1, t, f, ev, ho1, ht, htn, hsup, hall, hfn, hfr, hres, hsl, hann, hcase⟩ := hA
    rw [ho] at ho1; cases ho1
    have hel : alistGet? o.slots "elements" = some ev := by rw [hsl]; simp [alistGet?]
    have hsl' : o'.slots = [("elements", exp3J H (naOf H L) ci' ev)] := by
      apply single_slot'
      · rw [hkeys, hsl]; rfl
      · exact hslots _ _ hel
    refine .inr ⟨o', t, f, exp3J H (naOf H L) ci' ev, ho', ?_⟩
    rw [hty]
    refine ⟨ht, htn, hsup, hall, hfn, hfr, hres, hsl', hann, ?_⟩
    rcases hcase with ⟨g1, g2, g3, hev⟩ | ⟨g1, g2, hev⟩ | ⟨g1, g2, g3, hev⟩
    · refine .inl ⟨g1, g2, g3, ?_⟩
      rcases hev with rfl | ⟨l, rfl, _⟩
      · exact .inl rfl
      · exact .inr (x.fsElems_expJ hq ho hel)
    · exact .inr (.inl ⟨g1, g2, strElems_expJ H _ ci' hev⟩)
    · refine .inr (.inr ⟨g1, g2, g3, ?_⟩)
      rcases hev with rfl | hP
      · exact .inl rfl
      · exact .inr (primElems_expJ H _ ci' hP)

/-! ### members -/

/-- an entry of a loaded view is the counterpart of a written member of the written view -/
theorem JLd.entry_of (x : JLd K ts c ci H L ci' ld) {nv nv' : String × View} (hnv : nv ∈ c.views)
    (hr : ViewRelJ H (naOf H L) nv nv') {e' : Index.Entry} (he' : e' ∈ Index.all nv'.2.idx) :
    ∃ e ∈ Index.all nv.2.idx, ∃ i : Int, (i, e.oid) ∈ L ∧ e'.oid = naOf H L i := by
  have hperm := hr.2.2
  have := hperm.mem_iff.mp (List.mem_map.mpr ⟨e', he', rfl⟩)
  obtain ⟨m, hm, hme⟩ := List.mem_map.mp this
  obtain ⟨e0, he0, hx0⟩ := mem_members.mp hm
  obtain ⟨y, hy⟩ := x.lok.members nv hnv e0 he0
  have := (x.lok.ids _ hy).1
  rw [show ((y, e0.oid) : Int × Nat).2 = e0.oid from rfl, hx0] at this
  cases this
  exact ⟨e0, he0, _, hy, hme.symm⟩

theorem JLd.entry (x : JLd K ts c ci H L ci' ld) {nv' : String × View} (hnv' : nv' ∈ ld.cas.views)
    {e' : Index.Entry} (he' : e' ∈ Index.all nv'.2.idx) :
    ∃ nv ∈ c.views, ViewRelJ H (naOf H L) nv nv' ∧ ∃ e ∈ Index.all nv.2.idx, ∃ i : Int, (i, e.oid) ∈ L ∧
      e'.oid = naOf H L i := by
  obtain ⟨nv, hnv, hr⟩ := viewsRelJ_bwd _ _ _ _ x.views nv' hnv'
  exact ⟨nv, hnv, hr, x.entry_of hnv hr he'⟩

end

end Cassis.ChainC
