/-
C03, written-document level: in every reachable state of a CAS the converter of every sofa with text belongs to the
*current* text of that sofa — also after the text was replaced (`Cas.setSofaString` recomputes the table).

A generic frame: a property `P` of sofas that holds for a fresh sofa and is kept by the sofa update at hand is kept by
every CAS operation.
-/
import CassisModel.Spec.OffsetsDoc
import CassisModel.Proofs.Cas

namespace Cassis.OffsetsDoc
open Cassis.Offsets Cassis.TS Cassis.Cas

def AllSofas (P : Sofa → Prop) (c : Cas) : Prop := ∀ nv ∈ c.views, P nv.2.sofa

theorem mem_alistSet' {β} : ∀ (l : List (String × β)) (k : String) (v : β) (x : String × β),
    x ∈ alistSet l k v → x = (k, v) ∨ x ∈ l
  | [], k, v, x, h => by
    unfold alistSet at h
    exact .inl (List.mem_singleton.mp h)
  | (k', v') :: rest, k, v, x, h => by
    unfold alistSet at h
    split at h
    · rcases List.mem_cons.mp h with h | h
      · exact .inl h
      · exact .inr (List.mem_cons_of_mem _ h)
    · rcases List.mem_cons.mp h with h | h
      · exact .inr (h ▸ List.mem_cons_self)
      · rcases mem_alistSet' rest k v x h with h | h
        · exact .inl h
        · exact .inr (List.mem_cons_of_mem _ h)

variable {P : Sofa → Prop}

theorem AllSofas.get {c : Cas} (h : AllSofas P c) {n : String} {v : View} (hv : getViewRec c n = some v) : P v.sofa :=
  h (n, v) (alistGet?_some_mem hv)

theorem AllSofas.setViewRec {c : Cas} (h : AllSofas P c) (n : String) {v : View} (hv : P v.sofa) :
    AllSofas P (setViewRec c n v) := by
  intro nv hnv
  rcases mem_alistSet' _ _ _ _ hnv with rfl | hnv
  · exact hv
  · exact h nv hnv

theorem AllSofas.of_views {c c' : Cas} (h : AllSofas P c) (hv : c'.views = c.views) : AllSofas P c' := by
  intro nv hnv; rw [hv] at hnv; exact h nv hnv

/-- a fresh sofa: no text, no converter -/
def Fresh (P : Sofa → Prop) : Prop := ∀ (n : String) (num x : Int), P { sofaID := n, sofaNum := num, xid := x }

theorem AllSofas.addView {c : Cas} (h : AllSofas P c) (hf : Fresh P) (name : String) (xid num : Option Int) :
    AllSofas P (addView c name xid num) := by
  unfold Cas.addView
  cases xid <;> cases num <;> exact AllSofas.setViewRec (h.of_views rfl) _ (hf _ _ _)

theorem allSofas_empty (hf : Fresh P) : AllSofas P Cas.empty := by
  unfold Cas.empty
  exact AllSofas.addView (fun nv hnv => by cases hnv) hf _ _ _

theorem AllSofas.createView {c c' : Cas} {h h' : Handle} {name : String} {xid num : Option Int}
    (ha : AllSofas P c) (hf : Fresh P) (hc : createView c h name xid num = .ok (c', h')) : AllSofas P c' := by
  unfold Cas.createView at hc
  split at hc
  · cases hc
  · cases hc
    exact ha.addView hf _ _ _

theorem AllSofas.updSofa {c c' : Cas} {h : Handle} {f : Sofa → Sofa} (ha : AllSofas P c)
    (hf : ∀ s, P s → P (f s)) (hu : updSofa c h f = .ok c') : AllSofas P c' := by
  obtain ⟨v, hv, rfl⟩ := updSofa_ok hu
  exact ha.setViewRec _ (hf _ (ha.get hv))

theorem AllSofas.add {ts : TypeSystem} {cas : Nat} {c c' : Cas} {hp hp' : Heap} {h : Handle} {addr : Nat} {keep : Bool}
    (ha : AllSofas P c) (hadd : Cas.add ts cas c hp h addr keep = .ok (c', hp')) : AllSofas P c' := by
  obtain ⟨o, v, x, c1, e, _, _, hv, hc1, _, rfl, _⟩ := add_cases hadd
  have h1 : AllSofas P c1 := by
    rcases hc1 with ⟨_, _, rfl⟩ | ⟨_, _, rfl⟩
    · exact ha
    · exact ha.of_views rfl
  have hp : P v.sofa := ha.get hv
  refine h1.setViewRec _ ?_
  exact hp

theorem AllSofas.remove {c c' : Cas} {hp : Heap} {h : Handle} {addr : Nat}
    (ha : AllSofas P c) (hr : Cas.remove c hp h addr = .ok c') : AllSofas P c' := by
  obtain ⟨v, idx', hv, rfl⟩ := remove_ok hr
  have hp : P v.sofa := ha.get hv
  refine ha.setViewRec _ ?_
  exact hp

theorem AllSofas.docAnn {ts : TypeSystem} {ti cas : Nat} {c c' : Cas} {hp hp' : Heap} {h : Handle} {a : Nat}
    (ha : AllSofas P c) (hd : getDocumentAnnotation ts ti cas c hp h = .ok (c', hp', a)) : AllSofas P c' := by
  rcases docAnn_cases hd with ⟨_, _, _, rfl, _, _⟩ | ⟨_, _, _, _, _, hadd, _⟩
  · exact ha
  · exact ha.add hadd

/-- the text setter keeps both forms of "the converter belongs to the current text" -/
theorem setText_convIs (t : Option (List Nat)) (s : Sofa) :
    SofaConvIs { s with text := t, conv := createMapping s.conv t } := by
  intro t' ht'
  dsimp only at ht' ⊢
  subst ht'
  rfl

theorem SofaConvIs.ok {s : Sofa} (h : SofaConvIs s) : SofaConvOk s := fun t ht => Or.inl (h t ht)

theorem ConvIs.ok {c : Cas} (h : ConvIs c) : ConvOk c := fun nv hnv => (h nv hnv).ok

theorem fresh_convIs : Fresh SofaConvIs := by
  intro n num x t ht; cases ht

theorem fresh_convOk : Fresh SofaConvOk := by
  intro n num x t ht; cases ht

/-- one client operation keeps `P` when the text setter does and the other sofa setters (which do not touch text and
    converter) do -/
theorem cstep_allSofas (K : Consts) (ts : TypeSystem) (hfresh : Fresh P)
    (htext : ∀ t s, P s → P { s with text := t, conv := createMapping s.conv t })
    (hmime : ∀ m s, P s → P { s with mime := m }) (huri : ∀ u s, P s → P { s with uri := u })
    (harr : ∀ a s, P s → P { s with arr := a })
    (s : CState) (op : COp) (h : AllSofas P s.cas) : AllSofas P (cstep K ts s op).cas := by
  cases op with
  | createView hd name =>
    unfold cstep
    dsimp only
    cases s.handles[hd]? with
    | none => exact h
    | some hdl =>
      dsimp only
      cases hc : Cas.createView s.cas hdl name with
      | error e => exact h
      | ok r => obtain ⟨c', h'⟩ := r; exact h.createView hfresh hc
  | getView hd name =>
    unfold cstep
    dsimp only
    cases s.handles[hd]? with
    | none => exact h
    | some hdl =>
      dsimp only
      cases Cas.getView s.cas hdl name with
      | error e => exact h
      | ok r => exact h
  | newFs ty feats =>
    unfold cstep
    dsimp only
    cases getType ts ty with
    | error e => exact h
    | ok t =>
      dsimp only
      cases construct t 0 none feats with
      | error e => exact h
      | ok o => exact h
  | add hd addr keep =>
    unfold cstep
    dsimp only
    cases s.handles[hd]? with
    | none => exact h
    | some hdl =>
      dsimp only
      cases hc : Cas.add ts 0 s.cas s.heap hdl addr keep with
      | error e => exact h
      | ok r => obtain ⟨c', hp'⟩ := r; exact h.add hc
  | remove hd addr =>
    unfold cstep
    dsimp only
    cases s.handles[hd]? with
    | none => exact h
    | some hdl =>
      dsimp only
      cases hc : Cas.remove s.cas s.heap hdl addr with
      | error e => exact h
      | ok c' => exact h.remove hc
  | setSofaString hd t =>
    unfold cstep
    dsimp only
    cases s.handles[hd]? with
    | none => exact h
    | some hdl =>
      dsimp only
      cases hc : Cas.setSofaString s.cas hdl t with
      | error e => exact h
      | ok c' => exact h.updSofa (htext t) hc
  | setSofaMime hd m =>
    unfold cstep
    dsimp only
    cases s.handles[hd]? with
    | none => exact h
    | some hdl =>
      dsimp only
      cases hc : Cas.setSofaMime s.cas hdl m with
      | error e => exact h
      | ok c' => exact h.updSofa (hmime m) hc
  | setSofaUri hd u =>
    unfold cstep
    dsimp only
    cases s.handles[hd]? with
    | none => exact h
    | some hdl =>
      dsimp only
      cases hc : Cas.setSofaUri s.cas hdl u with
      | error e => exact h
      | ok c' => exact h.updSofa (huri u) hc
  | setSofaArray hd v =>
    unfold cstep
    dsimp only
    cases s.handles[hd]? with
    | none => exact h
    | some hdl =>
      dsimp only
      cases hc : Cas.setSofaArray s.cas hdl v with
      | error e => exact h
      | ok c' => exact h.updSofa (harr v) hc
  | docAnn hd =>
    unfold cstep
    dsimp only
    cases s.handles[hd]? with
    | none => exact h
    | some hdl =>
      dsimp only
      cases hc : getDocumentAnnotation ts 0 0 s.cas s.heap hdl with
      | error e => exact h
      | ok r => obtain ⟨c', hp', a⟩ := r; exact h.docAnn hc
  | assignIds hd =>
    unfold cstep
    dsimp only
    cases Traverse.findAllFs K ts {} s.heap s.cas.nextXid (Traverse.defaultSeeds s.cas) with
    | error e => exact h
    | ok st => exact h.of_views rfl

theorem convOk_step_aux (K : Consts) (ts : TypeSystem) (s : CState) (op : COp) (h : ConvOk s.cas) :
    ConvOk (cstep K ts s op).cas := by
  refine cstep_allSofas (P := SofaConvOk) K ts fresh_convOk ?_ ?_ ?_ ?_ s op h
  · intro t s _; exact (setText_convIs t s).ok
  · intro m s hs; exact hs
  · intro u s hs; exact hs
  · intro a s hs; exact hs

theorem convIs_step_aux (K : Consts) (ts : TypeSystem) (s : CState) (op : COp) (h : ConvIs s.cas) :
    ConvIs (cstep K ts s op).cas := by
  refine cstep_allSofas (P := SofaConvIs) K ts fresh_convIs ?_ ?_ ?_ ?_ s op h
  · intro t s _; exact setText_convIs t s
  · intro m s hs; exact hs
  · intro u s hs; exact hs
  · intro a s hs; exact hs

theorem convOk_run_aux (K : Consts) (ts : TypeSystem) (ops : List COp) (s : CState) (h : ConvOk s.cas) :
    ConvOk (ops.foldl (cstep K ts) s).cas := by
  induction ops generalizing s with
  | nil => exact h
  | cons op ops ih => exact ih _ (convOk_step_aux K ts s op h)

theorem convIs_history_aux (K : Consts) (ts : TypeSystem) (lenient : Bool) (ops : List COp) :
    ConvIs (ops.foldl (cstep K ts) (init lenient)).cas := by
  have : ∀ (ops : List COp) (s : CState), ConvIs s.cas → ConvIs (ops.foldl (cstep K ts) s).cas := by
    intro ops
    induction ops with
    | nil => intro s h; exact h
    | cons op ops ih => intro s h; exact ih _ (convIs_step_aux K ts s op h)
  exact this ops _ (allSofas_empty fresh_convIs)

/-- after `cas.sofa_string = t` the view has the text `t` and the table of `t`, whatever it had before -/
theorem setSofaString_conv_aux (c c' : Cas) (h : Handle) (t : List Nat) (hs : setSofaString c h (some t) = .ok c') :
    ∃ v', getViewRec c' h.view = some v' ∧ v'.sofa.text = some t ∧ v'.sofa.conv = some (table t) := by
  obtain ⟨v, v', _, hv', ht, hc, _⟩ := setSofaString_reads_aux c c' h (some t) hs
  exact ⟨v', hv', ht, hc⟩

end Cassis.OffsetsDoc
