/-
Round trip, layer 2: the second pass of the reader (`postAll`) on the objects constructed from the written document.
-/
import CassisModel.Proofs.RoundTripDefs
import CassisModel.Proofs.Xmi
import CassisModel.Proofs.XmiLoad2

namespace Cassis.Xmi
open Cassis.TS Cassis.Traverse Cassis.Lex

/-! ### association lists -/

theorem rtp_alistSet_keys {β} (l : List (String × β)) (k : String) (v u : β) (h : alistGet? l k = some u) :
    (alistSet l k v).map (·.1) = l.map (·.1) := by
  induction l with
  | nil => simp [alistGet?] at h
  | cons p rest ih =>
    obtain ⟨k', v'⟩ := p
    unfold alistGet? at h
    unfold alistSet
    split
    · rename_i hk; simp [hk]
    · rename_i hk
      rw [if_neg hk] at h
      simp [ih h]

theorem rtp_alistGet?_mem {β} (l : List (String × β)) (k : String) (u : β) (h : alistGet? l k = some u) :
    (k, u) ∈ l := by
  induction l with
  | nil => simp [alistGet?] at h
  | cons p rest ih =>
    obtain ⟨k', v'⟩ := p
    unfold alistGet? at h
    split at h
    · rename_i hk; cases h; subst hk; exact List.mem_cons_self
    · exact List.mem_cons_of_mem _ (ih h)

theorem rtp_alistGet?_key {β} (l : List (String × β)) (k : String) (u : β) (h : alistGet? l k = some u) :
    k ∈ l.map (·.1) :=
  List.mem_map.2 ⟨(k, u), rtp_alistGet?_mem l k u h, rfl⟩

/-! ### one assignment -/

/-- `hpY` is `hpX` with slot `n` of the object at `a` holding `w` (and nothing else changed) -/
def Step (hpX hpY : Heap) (a : Nat) (n : String) (w : Val) : Prop :=
  hpY.length = hpX.length ∧ (∀ b, b ≠ a → hpY[b]? = hpX[b]?) ∧
  ∃ o1 o2 : Obj, hpX[a]? = some o1 ∧ hpY[a]? = some o2 ∧ o2.ty = o1.ty ∧ o2.xid = o1.xid ∧
    o2.slots.map (·.1) = o1.slots.map (·.1) ∧ alistGet? o2.slots n = some w ∧
    ∀ m, m ≠ n → alistGet? o2.slots m = alistGet? o1.slots m

theorem Step.same {hpX : Heap} {a : Nat} {n : String} {w : Val} {o1 : Obj} (h1 : hpX[a]? = some o1)
    (h2 : alistGet? o1.slots n = some w) : Step hpX hpX a n w :=
  ⟨rfl, fun _ _ => rfl, o1, o1, h1, h1, rfl, rfl, rfl, h2, fun _ _ => rfl⟩

theorem setSlot_step {hpX : Heap} {a : Nat} {n : String} {u : Val} (w : Val) {o1 : Obj} (h1 : hpX[a]? = some o1)
    (h2 : alistGet? o1.slots n = some u) : ∃ hpY, Heap.setSlot hpX a n w = .ok hpY ∧ Step hpX hpY a n w := by
  have hlt : a < hpX.length := by
    rcases Nat.lt_or_ge a hpX.length with h | h
    · exact h
    · rw [List.getElem?_eq_none h] at h1; cases h1
  refine ⟨hpX.set a { o1 with slots := alistSet o1.slots n w }, ?_, ?_⟩
  · unfold Heap.setSlot
    simp only [h1, h2]
  · refine ⟨List.length_set, fun b hb => List.getElem?_set_ne (Ne.symm hb), o1, _, h1,
      List.getElem?_set_self hlt, rfl, rfl, ?_, ?_, ?_⟩
    · exact rtp_alistSet_keys _ _ _ _ h2
    · exact alistGet?_set_same _ _ _
    · intro m hm; exact alistGet?_set_other _ _ _ _ hm

/-! ### `postFeature` on one flat feature -/

theorem rtp_slot {hpX : Heap} {a : Nat} {n : String} {w : Val} {o1 : Obj} (h1 : hpX[a]? = some o1)
    (h2 : alistGet? o1.slots n = some w) : (Xmi.slot hpX a n).getD .none = w := by
  simp [Xmi.slot, Traverse.slot, h1, h2]

theorem postFeature_sofa_none (K : Consts) (ts : TypeSystem) (tsIdx ci' : Nat) (sofas : List (Int × PSofa))
    (fss : List (Int × Nat)) (hpX : Heap) (a : Nat) (ty : String) (isStrArr : Bool) (f : Feature) (o1 : Obj)
    (hname : f.name = "sofa") (h1 : hpX[a]? = some o1) (h2 : alistGet? o1.slots f.name = some .none) :
    postFeature K ts tsIdx ci' sofas fss hpX a ty isStrArr f = .ok hpX := by
  unfold postFeature
  simp only [rtp_slot h1 h2]
  simp only [hname, beq_self_eq_true, if_true]
  rfl

theorem postFeature_sofa_int (K : Consts) (ts : TypeSystem) (tsIdx ci' : Nat) (sofas : List (Int × PSofa))
    (fss : List (Int × Nat)) (hpX : Heap) (a : Nat) (ty : String) (isStrArr : Bool) (f : Feature) (o1 : Obj)
    (i : Int) (ps : Int × PSofa)
    (hname : f.name = "sofa") (h1 : hpX[a]? = some o1) (h2 : alistGet? o1.slots f.name = some (.int i))
    (hf : sofas.find? (fun p => p.1 == i) = some ps) :
    postFeature K ts tsIdx ci' sofas fss hpX a ty isStrArr f = Heap.setSlot hpX a "sofa" (.sofa ci' ps.2.sofaID) := by
  unfold postFeature
  simp only [rtp_slot h1 h2]
  simp only [hname, beq_self_eq_true, if_true, hf]

theorem postFeature_prim (K : Consts) (ts : TypeSystem) (tsIdx ci' : Nat) (sofas : List (Int × PSofa))
    (fss : List (Int × Nat)) (hpX : Heap) (a : Nat) (ty : String) (f : Feature) (o1 : Obj) (w w' : Val)
    (hname : f.name ≠ "sofa") (hprim : isPrimitive K ts f.range = true)
    (h1 : hpX[a]? = some o1) (h2 : alistGet? o1.slots f.name = some w)
    (hparse : parsePrimValue ts (ts.types.length + 1) f.range w = .ok w') :
    postFeature K ts tsIdx ci' sofas fss hpX a ty false f = Heap.setSlot hpX a f.name w' := by
  unfold postFeature
  simp only [rtp_slot h1 h2]
  simp only [beq_eq_false_iff_ne.2 hname, Bool.false_eq_true, if_false, hprim, if_true, hparse]
  rfl

theorem postFeature_ref_none (K : Consts) (ts : TypeSystem) (tsIdx ci' : Nat) (sofas : List (Int × PSofa))
    (fss : List (Int × Nat)) (hpX : Heap) (a : Nat) (ty : String) (f : Feature) (o1 : Obj)
    (hname : f.name ≠ "sofa") (hprim : isPrimitive K ts f.range = false)
    (hty : isPrimitiveArray K ty = false) (hr1 : isPrimitiveArray K f.range = false)
    (hr2 : isPrimitiveList K f.range = false)
    (h1 : hpX[a]? = some o1) (h2 : alistGet? o1.slots f.name = some .none) :
    postFeature K ts tsIdx ci' sofas fss hpX a ty false f = .ok hpX := by
  unfold postFeature
  simp only [rtp_slot h1 h2]
  simp only [beq_eq_false_iff_ne.2 hname, Bool.false_eq_true, if_false, hprim, hty, hr1, hr2, Bool.false_and]
  rfl

theorem postFeature_ref_str (K : Consts) (ts : TypeSystem) (tsIdx ci' : Nat) (sofas : List (Int × PSofa))
    (fss : List (Int × Nat)) (hpX : Heap) (a : Nat) (ty : String) (f : Feature) (o1 : Obj) (s : String) (x : Int)
    (t : Nat)
    (hname : f.name ≠ "sofa") (hprim : isPrimitive K ts f.range = false)
    (hty : isPrimitiveArray K ty = false) (hr1 : isPrimitiveArray K f.range = false)
    (hr2 : isPrimitiveList K f.range = false) (hty2 : ty ≠ FS_ARRAY) (hr3 : f.range ≠ FS_ARRAY)
    (hr4 : f.range ≠ FS_LIST)
    (h1 : hpX[a]? = some o1) (h2 : alistGet? o1.slots f.name = some (.str s))
    (hparse : parseIntE s = .ok x) (hlook : lookupFs fss x = .ok t) :
    postFeature K ts tsIdx ci' sofas fss hpX a ty false f = Heap.setSlot hpX a f.name (.ref t) := by
  unfold postFeature
  simp only [rtp_slot h1 h2]
  simp only [beq_eq_false_iff_ne.2 hname, Bool.false_eq_true, if_false, hprim, hty, hr1, hr2, Bool.false_and,
    beq_eq_false_iff_ne.2 hty2, beq_eq_false_iff_ne.2 hr3, beq_eq_false_iff_ne.2 hr4, Bool.or_self, hparse]
  show (lookupFs fss x >>= fun t => Heap.setSlot hpX a f.name (.ref t)) = _
  rw [hlook]
  rfl

/-! ### the two tables of the reader -/

theorem rtp_find_fss (na : Int → Nat) (x : Int) (L : List (Int × Nat)) (h : ∃ q ∈ L, q.1 = x) :
    (L.map (fun q => (q.1, na q.1))).find? (fun p => p.1 == x) = some (x, na x) := by
  induction L with
  | nil => obtain ⟨q, hq, _⟩ := h; cases hq
  | cons q0 L ih =>
    rw [List.map_cons, List.find?_cons]
    by_cases h0 : q0.1 = x
    · simp [h0]
    · have : ((q0.1, na q0.1).1 == x) = false := by simpa using h0
      rw [this]
      apply ih
      obtain ⟨q, hq, hqx⟩ := h
      rcases List.mem_cons.1 hq with rfl | hq
      · exact absurd hqx h0
      · exact ⟨q, hq, hqx⟩

theorem lookupFs_fss (n0 : Nat) (na : Int → Nat) (x : Int) (L : List (Int × Nat)) (hx : x ≠ 0)
    (h : ∃ q ∈ L, q.1 = x) : lookupFs ((0, n0) :: L.map (fun q => (q.1, na q.1))) x = .ok (na x) := by
  unfold lookupFs
  rw [List.find?_cons]
  have : (((0 : Int), n0).1 == x) = false := by simpa using Ne.symm hx
  rw [this, rtp_find_fss na x L h]

theorem rtp_find_sofa (vs : List (String × View)) (nv : String × View) (hmem : nv ∈ vs)
    (hnd : (vs.map (·.2.sofa.xid)).Nodup) :
    (vs.map (fun nv => (nv.2.sofa.xid, psofaOf nv))).find? (fun p => p.1 == nv.2.sofa.xid) =
      some (nv.2.sofa.xid, psofaOf nv) := by
  induction vs with
  | nil => cases hmem
  | cons v0 vs ih =>
    rw [List.map_cons, List.find?_cons]
    rw [List.map_cons, List.nodup_cons] at hnd
    rcases List.mem_cons.1 hmem with rfl | hm
    · simp
    · have hne : v0.2.sofa.xid ≠ nv.2.sofa.xid := by
        intro he
        exact hnd.1 (List.mem_map.2 ⟨nv, hm, he.symm⟩)
      have : ((v0.2.sofa.xid, psofaOf v0).1 == nv.2.sofa.xid) = false := by simpa using hne
      rw [this]
      exact ih hm hnd.2

/-! ### primitive values -/

theorem rtp_parse_none (ts : TypeSystem) (n : Nat) (r : String) : parsePrimValue ts (n + 1) r .none = .ok .none := by
  unfold parsePrimValue
  rfl

theorem rtp_parse_str (ts : TypeSystem) (n : Nat) (s : String) :
    parsePrimValue ts (n + 1) "uima.cas.String" (.str s) = .ok (.str s) := by
  unfold parsePrimValue
  rw [if_pos (by decide)]

theorem rtp_parse_float (ts : TypeSystem) (n : Nat) (r t : String) (h : r = "uima.cas.Float" ∨ r = "uima.cas.Double") :
    parsePrimValue ts (n + 1) r (.str t) = .ok (.float t) := by
  unfold parsePrimValue
  rcases h with rfl | rfl
  · rw [if_neg (by decide), if_pos (by decide)]
  · rw [if_neg (by decide), if_pos (by decide)]

theorem rtp_intRange {r : String} (h : isIntRange r = true) :
    r ∈ ["uima.cas.Integer", "uima.cas.Short", "uima.cas.Long", "uima.cas.Byte"] := by
  simp only [isIntRange, Bool.or_eq_true, beq_iff_eq] at h
  simp only [List.mem_cons, List.not_mem_nil, or_false]
  rcases h with ((h | h) | h) | h <;> simp [h]

/-! ### one flat feature -/

theorem postFeature_flat (K : Consts) (ts : TypeSystem) (cass : List Cas) (ci : Nat) (c : Cas) (H : Heap)
    (L : List (Int × Nat)) (na : Int → Nat) (tsIdx ci' : Nat) (sofas : List (Int × PSofa)) (fss : List (Int × Nat))
    (hc : cass[ci]? = some c) (hnames : ∀ nv ∈ c.views, nv.2.sofa.sofaID = nv.1)
    (hnd : (c.views.map (·.2.sofa.xid)).Nodup)
    (hsofas : sofas = c.views.map (fun nv => (nv.2.sofa.xid, psofaOf nv)))
    (hfss : fss = (0, H.length) :: L.map (fun q => (q.1, na q.1)))
    (isAnn : Bool) (o : Obj) (f : Feature)
    (href : ∀ (n : String) (b : Nat), alistGet? o.slots n = some (.ref b) →
      ∃ x : Int, xidOf H b = some x ∧ x ≠ 0 ∧ ∃ q ∈ L, q.1 = x)
    (hty1 : isPrimitiveArray K o.ty = false) (hty2 : o.ty ≠ FS_ARRAY)
    (hflat : FlatFeat K ts c ci H isAnn o f)
    (hpX : Heap) (a' : Nat) (o' : Obj) (h1 : hpX[a']? = some o')
    (hE1 : ∀ v, alistGet? o.slots f.name = some v → alistGet? o'.slots f.name = some (exp1 cass H isAnn o f.name v)) :
    ∃ hpY v, postFeature K ts tsIdx ci' sofas fss hpX a' o.ty false f = .ok hpY ∧
      alistGet? o.slots f.name = some v ∧ Step hpX hpY a' f.name (exp2 cass H na ci' isAnn o f.name v) := by
  obtain ⟨_, _, _, _, _, hr1, hr2, hr3, hr4, _, _, v, hv, hcases⟩ := hflat
  have hw := hE1 v hv
  rcases hcases with ⟨hname, hs⟩ | ⟨hname, hprim, hp⟩ | ⟨hname, hprim, _, _, _, _, _, hr⟩
  · -- the sofa
    rcases hs with ⟨vn, rfl, hsome⟩ | ⟨rfl, _⟩
    · obtain ⟨view, hview⟩ := Option.isSome_iff_exists.1 hsome
      have he1 : exp1 cass H isAnn o f.name (.sofa ci vn) = .int view.sofa.xid := by
        simp [exp1, hc, hview]
      rw [he1] at hw
      have hmem : (vn, view) ∈ c.views := rtp_alistGet?_mem _ _ _ hview
      have hfind := rtp_find_sofa c.views (vn, view) hmem hnd
      rw [← hsofas] at hfind
      have hpf := postFeature_sofa_int K ts tsIdx ci' sofas fss hpX a' o.ty false f o' _ _ hname h1 hw hfind
      obtain ⟨hpY, hset, hstep⟩ := setSlot_step (.sofa ci' vn) h1 hw
      refine ⟨hpY, _, ?_, hv, hstep⟩
      rw [hpf]
      have : (psofaOf (vn, view)).sofaID = vn := hnames _ hmem
      simp only [this]
      rw [← hname]; exact hset
    · have he1 : exp1 cass H isAnn o f.name .none = .none := rfl
      rw [he1] at hw
      exact ⟨hpX, _, postFeature_sofa_none K ts tsIdx ci' sofas fss hpX a' o.ty false f o' hname h1 hw, hv,
        Step.same h1 hw⟩
  · -- primitives
    have key : ∀ w w', exp1 cass H isAnn o f.name v = w → exp2 cass H na ci' isAnn o f.name v = w' →
        parsePrimValue ts (ts.types.length + 1) f.range w = .ok w' →
        ∃ hpY v, postFeature K ts tsIdx ci' sofas fss hpX a' o.ty false f = .ok hpY ∧
          alistGet? o.slots f.name = some v ∧ Step hpX hpY a' f.name (exp2 cass H na ci' isAnn o f.name v) := by
      intro w w' hw1 hw2 hparse
      rw [hw1] at hw
      have hpf := postFeature_prim K ts tsIdx ci' sofas fss hpX a' o.ty f o' w w' hname hprim h1 hw hparse
      obtain ⟨hpY, hset, hstep⟩ := setSlot_step w' h1 hw
      exact ⟨hpY, v, by rw [hpf]; exact hset, hv, by rw [hw2]; exact hstep⟩
    rcases hp with rfl | ⟨hint, i, rfl⟩ | ⟨hrange, s, rfl⟩ | ⟨hrange, b, rfl⟩ | ⟨hrange, t, rfl⟩
    · exact key .none .none rfl rfl (rtp_parse_none _ _ _)
    · exact key _ _ rfl rfl (primValue_roundtrip_int_aux ts _ f.range (rtp_intRange hint) _)
    · exact key _ _ rfl rfl (by rw [hrange]; exact rtp_parse_str _ _ _)
    · exact key _ _ rfl rfl (by rw [hrange]; exact primValue_roundtrip_bool_aux _ _ _)
    · exact key _ _ rfl rfl (rtp_parse_float _ _ _ _ hrange)
  · -- references
    rcases hr with rfl | ⟨b, rfl, _, _⟩
    · have he1 : exp1 cass H isAnn o f.name .none = .none := rfl
      rw [he1] at hw
      exact ⟨hpX, _, postFeature_ref_none K ts tsIdx ci' sofas fss hpX a' o.ty f o' hname hprim hty1 hr1 hr2 h1 hw,
        hv, Step.same h1 hw⟩
    · obtain ⟨x, hx, hx0, hq⟩ := href _ _ hv
      have he1 : exp1 cass H isAnn o f.name (.ref b) = .str (showInt x) := by simp [exp1, hx]
      have he2 : exp2 cass H na ci' isAnn o f.name (.ref b) = .ref (na x) := by simp [exp2, hx]
      rw [he1] at hw
      have hlook : lookupFs fss x = .ok (na x) := by rw [hfss]; exact lookupFs_fss _ _ _ _ hx0 hq
      have hpf := postFeature_ref_str K ts tsIdx ci' sofas fss hpX a' o.ty f o' _ x _ hname hprim hty1 hr1 hr2 hty2
        hr3 hr4 h1 hw (parseIntE_showInt x) hlook
      obtain ⟨hpY, hset, hstep⟩ := setSlot_step (.ref (na x)) h1 hw
      exact ⟨hpY, _, by rw [hpf]; exact hset, hv, by rw [he2]; exact hstep⟩

/-! ### all features of one structure -/

theorem postFeatures_flat (K : Consts) (ts : TypeSystem) (cass : List Cas) (ci : Nat) (c : Cas) (H : Heap)
    (L : List (Int × Nat)) (na : Int → Nat) (tsIdx ci' : Nat) (sofas : List (Int × PSofa)) (fss : List (Int × Nat))
    (hc : cass[ci]? = some c) (hnames : ∀ nv ∈ c.views, nv.2.sofa.sofaID = nv.1)
    (hnd : (c.views.map (·.2.sofa.xid)).Nodup)
    (hsofas : sofas = c.views.map (fun nv => (nv.2.sofa.xid, psofaOf nv)))
    (hfss : fss = (0, H.length) :: L.map (fun q => (q.1, na q.1)))
    (isAnn : Bool) (o : Obj) (x : Int) (a' : Nat)
    (href : ∀ (n : String) (b : Nat), alistGet? o.slots n = some (.ref b) →
      ∃ x : Int, xidOf H b = some x ∧ x ≠ 0 ∧ ∃ q ∈ L, q.1 = x)
    (hty1 : isPrimitiveArray K o.ty = false) (hty2 : o.ty ≠ FS_ARRAY) :
    ∀ (fs : List Feature), (fs.map (·.name)).Nodup → (∀ f ∈ fs, FlatFeat K ts c ci H isAnn o f) →
    ∀ (hpX : Heap) (o' : Obj), hpX[a']? = some o' → o'.ty = o.ty → o'.xid = some x →
      o'.slots.map (·.1) = o.slots.map (·.1) →
      (∀ (n : String) (v : Val), alistGet? o.slots n = some v →
        alistGet? o'.slots n = some (if n ∈ fs.map (·.name) then exp1 cass H isAnn o n v
                                     else exp2 cass H na ci' isAnn o n v)) →
    ∃ hpY, postFeatures K ts tsIdx ci' sofas fss a' o.ty false fs hpX = .ok hpY ∧ hpY.length = hpX.length ∧
      (∀ b, b ≠ a' → hpY[b]? = hpX[b]?) ∧
      ∃ o'' : Obj, hpY[a']? = some o'' ∧ ObjRel (exp2 cass H na ci' isAnn o) o o'' x := by
  intro fs
  induction fs with
  | nil =>
    intro _ _ hpX o' h1 hty hxid hkeys hslots
    refine ⟨hpX, rfl, rfl, fun _ _ => rfl, o', h1, hty, hxid, hkeys, ?_⟩
    intro n v hv
    simpa using hslots n v hv
  | cons f fs ih =>
    intro hnodup hflat hpX o' h1 hty hxid hkeys hslots
    rw [List.map_cons, List.nodup_cons] at hnodup
    have hE1 : ∀ v, alistGet? o.slots f.name = some v →
        alistGet? o'.slots f.name = some (exp1 cass H isAnn o f.name v) := by
      intro v hv
      have := hslots f.name v hv
      rwa [if_pos (by simp)] at this
    obtain ⟨hp1, v, hpf, hv, hlen, hframe, o1, o2, ho1, ho2, hty', hxid', hkeys', hget, hother⟩ :=
      postFeature_flat K ts cass ci c H L na tsIdx ci' sofas fss hc hnames hnd hsofas hfss isAnn o f href hty1 hty2
        (hflat f List.mem_cons_self) hpX a' o' h1 hE1
    rw [h1] at ho1; cases ho1
    obtain ⟨hpY, hpfs, hlenY, hframeY, hres⟩ := ih hnodup.2 (fun g hg => hflat g (List.mem_cons_of_mem _ hg)) hp1 o2 ho2
      (hty'.trans hty) (hxid'.trans hxid) (hkeys'.trans hkeys) (by
        intro n w hw
        by_cases hn : n = f.name
        · subst hn
          rw [hv] at hw; cases hw
          rw [hget, if_neg hnodup.1]
        · rw [hother n hn, hslots n w hw]
          simp [hn])
    refine ⟨hpY, ?_, hlenY.trans hlen, fun b hb => (hframeY b hb).trans (hframe b hb), hres⟩
    show (postFeature K ts tsIdx ci' sofas fss hpX a' o.ty false f >>= fun hp' =>
      postFeatures K ts tsIdx ci' sofas fss a' o.ty false fs hp') = _
    rw [hpf]
    exact hpfs

/-! ### all structures -/

theorem postAll_cons (K : Consts) (ts : TypeSystem) (tsIdx ci' : Nat) (sofas : List (Int × PSofa))
    (fss : List (Int × Nat)) (i : Int) (a : Nat) (rest : List (Int × Nat)) (hpX hp1 : Heap) (o' : Obj) (t : TypeRec)
    (h1 : hpX[a]? = some o') (hgt : getType ts o'.ty = .ok t)
    (hpf : postFeatures K ts tsIdx ci' sofas fss a o'.ty (isInstanceOf ts o'.ty STRING_ARRAY) (allFeatures t) hpX
      = .ok hp1) :
    postAll K ts tsIdx ci' sofas fss ((i, a) :: rest) hpX = postAll K ts tsIdx ci' sofas fss rest hp1 := by
  rw [postAll]
  simp only [h1]
  show (getType ts o'.ty >>= fun t => _) = _
  rw [hgt]
  show (postFeatures K ts tsIdx ci' sofas fss a o'.ty (isInstanceOf ts o'.ty STRING_ARRAY) (allFeatures t) hpX
    >>= fun hp' => _) = _
  rw [hpf]
  rfl

theorem rtp_getType {ts : TypeSystem} {n : String} {t : TypeRec} (h : find? ts n = some t) : getType ts n = .ok t := by
  unfold getType
  rw [h]

theorem postObj_flat (K : Consts) (ts : TypeSystem) (cass : List Cas) (ci : Nat) (c : Cas) (hp H : Heap)
    (L : List (Int × Nat)) (na : Int → Nat) (tsIdx ci' : Nat) (sofas : List (Int × PSofa)) (fss : List (Int × Nat))
    (hc : cass[ci]? = some c) (hwf : RTWf c hp) (hL : LOk K ts c ci H L)
    (hsofas : sofas = c.views.map (fun nv => (nv.2.sofa.xid, psofaOf nv)))
    (hfss : fss = (0, H.length) :: L.map (fun q => (q.1, na q.1)))
    (q : Int × Nat) (hq : q ∈ L) (hpX : Heap) (o o' : Obj) (ho : H[q.2]? = some o) (ho' : hpX[na q.1]? = some o')
    (hrel : ObjRel (E1 ts cass H o) o o' q.1) :
    ∃ (hp1 : Heap) (t : TypeRec), getType ts o'.ty = .ok t ∧
      postFeatures K ts tsIdx ci' sofas fss (na q.1) o'.ty (isInstanceOf ts o'.ty STRING_ARRAY) (allFeatures t) hpX
        = .ok hp1 ∧ hp1.length = hpX.length ∧ (∀ b, b ≠ na q.1 → hp1[b]? = hpX[b]?) ∧
      ∃ o'' : Obj, hp1[na q.1]? = some o'' ∧ ObjRel (E2 ts cass H na ci' o) o o'' q.1 := by
  obtain ⟨o_, t, ho_, hfind, _, _, _, _, hty1, hty2, hsa, _, _, hnodup, hkeysT, hflat, _⟩ := hL.flat q hq
  rw [ho] at ho_; cases ho_
  obtain ⟨hty, hxid, hkeys, hslots⟩ := hrel
  have href : ∀ (n : String) (b : Nat), alistGet? o.slots n = some (.ref b) →
      ∃ x : Int, xidOf H b = some x ∧ x ≠ 0 ∧ ∃ q ∈ L, q.1 = x := by
    intro n b hnb
    obtain ⟨x, hx, hxL⟩ := hL.closed q hq o ho n b hnb
    exact ⟨x, hx, (hL.ids _ hxL).2, (x, b), hxL, rfl⟩
  obtain ⟨hp1, hpf, hlen, hframe, o'', ho'', hrel''⟩ :=
    postFeatures_flat K ts cass ci c H L na tsIdx ci' sofas fss hc hwf.names hwf.sofa_ids_nodup hsofas hfss
      (isInstanceOf ts o.ty ANNOTATION) o q.1 (na q.1) href hty1 hty2 (allFeatures t) hnodup hflat hpX o' ho' hty hxid
      hkeys (by
        intro n v hv
        have hmem : n ∈ (allFeatures t).map (·.name) := by
          have h1 := rtp_alistGet?_key _ _ _ hv
          rw [hkeysT] at h1
          exact List.mem_eraseDups.1 h1
        rw [if_pos hmem]
        exact hslots n v hv)
  refine ⟨hp1, t, ?_, ?_, hlen, hframe, o'', ho'', hrel''⟩
  · rw [hty]; exact rtp_getType hfind
  · rw [hty, hsa]; exact hpf

theorem postAll_flat_aux (K : Consts) (ts : TypeSystem) (cass : List Cas) (ci : Nat) (c : Cas) (hp H : Heap)
    (L : List (Int × Nat)) (na : Int → Nat) (tsIdx ci' : Nat) (sofas : List (Int × PSofa)) (fss : List (Int × Nat))
    (hc : cass[ci]? = some c) (hwf : RTWf c hp) (hL : LOk K ts c ci H L) (hna : NaOk H.length L na)
    (hsofas : sofas = c.views.map (fun nv => (nv.2.sofa.xid, psofaOf nv)))
    (hfss : fss = (0, H.length) :: L.map (fun q => (q.1, na q.1))) :
    ∀ (Ls : List (Int × Nat)), (∀ q ∈ Ls, q ∈ L) → (Ls.map (·.1)).Nodup → ∀ (hpX : Heap),
      HeapRel H Ls na (E1 ts cass H) hpX →
      ∃ hpY, postAll K ts tsIdx ci' sofas fss (Ls.map (fun q => (q.1, na q.1))) hpX = .ok hpY ∧
        hpY.length = hpX.length ∧ (∀ b, (∀ q ∈ Ls, b ≠ na q.1) → hpY[b]? = hpX[b]?) ∧
        HeapRel H Ls na (E2 ts cass H na ci') hpY := by
  intro Ls
  induction Ls with
  | nil =>
    intro _ _ hpX _
    exact ⟨hpX, rfl, rfl, fun _ _ => rfl, fun q hq => by cases hq⟩
  | cons q Ls ih =>
    intro hsub hnodup hpX hrel
    rw [List.map_cons, List.nodup_cons] at hnodup
    have hqL : q ∈ L := hsub q List.mem_cons_self
    obtain ⟨o, o', ho, ho', hor⟩ := hrel q List.mem_cons_self
    obtain ⟨hp1, t, hgt, hpf, hlen1, hframe1, o'', ho'', hor''⟩ :=
      postObj_flat K ts cass ci c hp H L na tsIdx ci' sofas fss hc hwf hL hsofas hfss q hqL hpX o o' ho ho' hor
    have hne : ∀ q' ∈ Ls, na q'.1 ≠ na q.1 := by
      intro q' hq' he
      have := hna.inj q' (hsub q' (List.mem_cons_of_mem _ hq')) q hqL he
      exact hnodup.1 (List.mem_map.2 ⟨q', hq', this⟩)
    obtain ⟨hpY, hpa, hlenY, hframeY, hrelY⟩ := ih (fun q' hq' => hsub q' (List.mem_cons_of_mem _ hq')) hnodup.2 hp1
      (by
        intro q' hq'
        obtain ⟨p, p', hp_, hp', hpr⟩ := hrel q' (List.mem_cons_of_mem _ hq')
        exact ⟨p, p', hp_, by rw [hframe1 _ (hne q' hq')]; exact hp', hpr⟩)
    refine ⟨hpY, ?_, hlenY.trans hlen1, ?_, ?_⟩
    · rw [List.map_cons, postAll_cons K ts tsIdx ci' sofas fss q.1 (na q.1) _ hpX hp1 o' t ho' hgt hpf]
      exact hpa
    · intro b hb
      rw [hframeY b (fun q' hq' => hb q' (List.mem_cons_of_mem _ hq')), hframe1 b (hb q List.mem_cons_self)]
    · intro q' hq'
      rcases List.mem_cons.1 hq' with rfl | hq'
      · refine ⟨o, o'', ho, ?_, hor''⟩
        rw [hframeY _ (fun q'' hq'' => (hne q'' hq'').symm)]
        exact ho''
      · exact hrelY q' hq'

theorem postAll_flat (K : Consts) (ts : TypeSystem) (cass : List Cas) (ci : Nat) (c : Cas) (hp H : Heap)
    (L : List (Int × Nat)) (na : Int → Nat) (tsIdx ci' : Nat) (p : Pass1)
    (hc : cass[ci]? = some c) (hwf : RTWf c hp) (hnull : NullOk ts) (hL : LOk K ts c ci H L)
    (hna : NaOk H.length L na) (hp1 : P1Spec ts cass c H L na p) :
    ∃ hp2 : Heap, postAll K ts tsIdx ci' p.sofas p.fss p.fss p.heap = .ok hp2 ∧ hp2.length = p.heap.length ∧
      hp2[H.length]? = p.heap[H.length]? ∧ HeapRel H L na (E2 ts cass H na ci') hp2 := by
  obtain ⟨t0, hfind0, hfeat0⟩ := hnull
  obtain ⟨o0, ho0, hty0, _, _⟩ := hp1.null
  obtain ⟨hpY, hpa, hlen, hframe, hrel⟩ :=
    postAll_flat_aux K ts cass ci c hp H L na tsIdx ci' p.sofas p.fss hc hwf hL hna hp1.sofas hp1.fss L
      (fun _ h => h) hL.nodup p.heap hp1.rel
  refine ⟨hpY, ?_, hlen, hframe _ (fun q hq => Nat.ne_of_lt (hna.gt q hq)), hrel⟩
  have hstep := postAll_cons K ts tsIdx ci' p.sofas p.fss 0 H.length (L.map (fun q => (q.1, na q.1))) p.heap p.heap
    o0 t0 ho0 (by rw [hty0]; exact rtp_getType hfind0) (by rw [hfeat0]; rfl)
  rw [← hp1.fss] at hstep
  rw [hstep]
  exact hpa

end Cassis.Xmi

