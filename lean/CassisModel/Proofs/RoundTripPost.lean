/-
Round trip, layer 2: the second pass of the reader (`postAll`) on the objects constructed from the written document.
-/
import CassisModel.Proofs.RoundTripDefs
import CassisModel.Proofs.Xmi
import CassisModel.Proofs.XmiLoad2

namespace Cassis.Xmi
open Cassis.TS Cassis.Traverse Cassis.Lex

theorem postAll_flat (K : Consts) (ts : TypeSystem) (cass : List Cas) (ci : Nat) (c : Cas) (hp H : Heap)
    (L : List (Int × Nat)) (na : Int → Nat) (tsIdx ci' : Nat) (p : Pass1)
    (hc : cass[ci]? = some c) (hwf : RTWf c hp) (hnull : NullOk ts) (hL : LOk K ts c ci H L)
    (hna : NaOk H.length L na) (hp1 : P1Spec ts cass c H L na p) :
    ∃ hp2 : Heap, postAll K ts tsIdx ci' p.sofas p.fss p.fss p.heap = .ok hp2 ∧ hp2.length = p.heap.length ∧
      hp2[H.length]? = p.heap[H.length]? ∧ HeapRel H L na (E2 ts cass H na ci') hp2 := by
  sorry

end Cassis.Xmi
