/-
Proof of the extension proposed in `Properties/C13Perm.lean.proposed`: order independence of `merge_typesystems` when
names may be declared with competing supertypes, provided such names have no declared subtypes (`LeafCompete`), their
supertypes are not inheritance final, and the document annotation type is declared where a fresh type system has it.

Same route as `Proofs/MergePermMain.lean`, with the set `E = Competing decls` of movable names in place of the document
annotation type: a successful run leaves a tree `o` in which every declared supertype is an ancestor of the declared name
(`DoneX`, parts XC); replaying the declarations in another order stays inside `o`, moving the leaves of `E` down step by
step (part XB); two trees that are parts of each other agree — for the names of `E` because each one's supertype is an
ancestor of the other's.
-/
import CassisModel.Proofs.MergePermMain
import CassisModel.Proofs.MergePermXB
import CassisModel.Proofs.MergePermXC

namespace Cassis.TS

theorem top_predefined : Gen.consts.predefined.contains TOP = true := by decide +kernel

theorem annotation_nonfinal : Gen.consts.finalTypes.contains ANNOTATION = false := by decide +kernel

theorem competing_perm {decls decls' : List Decl} (hp : decls.Perm decls') (n : String) :
    Competing decls n ↔ Competing decls' n := by
  constructor
  · rintro ⟨d, hd, d', hd', h⟩
    exact ⟨d, hp.mem_iff.mp hd, d', hp.mem_iff.mp hd', h⟩
  · rintro ⟨d, hd, d', hd', h⟩
    exact ⟨d, hp.mem_iff.mpr hd, d', hp.mem_iff.mpr hd', h⟩

theorem competing_user {decls : List Decl} (hu : UserDecls Gen.consts decls) {n : String}
    (h : Competing decls n) : Gen.consts.predefined.contains n = false := by
  obtain ⟨d, hd, _, _, hn, _⟩ := h
  rw [← hn]; exact (hu d hd).1

theorem not_competing_da {decls : List Decl} (hb : BaseAgree decls) : ¬ Competing decls DOCUMENT_ANNOTATION := by
  rintro ⟨d, hd, d', hd', h1, h2, hne⟩
  exact hne ((hb d hd h1).trans (hb d' hd' h2).symm)

/-- no built-in name competes -/
theorem not_competing_builtin {decls : List Decl} (hu : UserDecls Gen.consts decls) (hb : BaseAgree decls)
    {n : String} {t : TypeRec} (ht : find? Gen.builtinTS n = some t) : ¬ Competing decls n := by
  intro hE
  rcases builtin_names_predefined t (find?_mem ht) with h | ⟨h, _⟩
  · rw [find?_name ht, competing_user hu hE] at h; cases h
  · rw [find?_name ht] at h
    exact not_competing_da hb (h ▸ hE)

theorem init_rinvX (decls : List Decl) (hu : UserDecls Gen.consts decls) (hb : BaseAgree decls) :
    RInvX Gen.consts decls (Competing decls) { ts := Gen.builtinTS, merged := [] } := by
  refine ⟨consistent_builtins_aux.1, featInv_builtins_aux.1, builtin_pre, (fun x hx => by cases hx), ?_, ?_⟩
  · intro d hd _ t ht
    rcases builtin_names_predefined t (find?_mem ht) with h1 | ⟨h1, h2, _⟩
    · exfalso
      rw [find?_name ht, (hu d hd).1] at h1
      cases h1
    · rw [find?_name ht] at h1
      rw [hb d hd h1]
      exact ⟨h2, annotation_nonfinal⟩
  · intro n hn t ht
    exact absurd hn (not_competing_builtin hu hb ht)

theorem init_invX {decls : List Decl} (hu : UserDecls Gen.consts decls) (hb : BaseAgree decls) {o : TypeSystem}
    (hg : GrowX (Competing decls) Gen.builtinTS o) :
    MInvX Gen.consts o (Competing decls) { ts := Gen.builtinTS, merged := [] } := by
  have hcb := consistent_builtins_aux.1
  refine ⟨hcb, featInv_builtins_aux.1, ?_, builtin_pre, (fun x hx => by cases hx), ?_⟩
  · intro n tb hn
    obtain ⟨t', ht', hs', hsub⟩ := hg n tb hn
    have hstep : ∀ c s (tc : TypeRec), find? Gen.builtinTS c = some tc → tc.super = some s → Anc o s c := by
      intro c s tc hc hs
      obtain ⟨tc', htc', hsc', _⟩ := hg c tc hc
      have hsreg : hasExact o s = true := hg.reg s (hcb.superReg tc (find?_mem hc) s hs)
      exact Anc.step s c s tc' htc' (by rw [hsc' (not_competing_builtin hu hb hc)]; exact hs) (Anc.refl s hsreg)
    refine ⟨t', ht', hs', fun s hs => hstep n s tb hn hs, fun g hg' => ⟨g, hsub g hg', featureEq_refl g⟩, ?_⟩
    intro c hc
    obtain ⟨tc, htc, hsc⟩ := (hcb.link n c).mp ⟨tb, hn, hc⟩
    exact hstep c n tc htc hsc
  · intro n hn t ht
    exact absurd hn (not_competing_builtin hu hb ht)

theorem baseAgree_perm {decls decls' : List Decl} (hp : decls.Perm decls') (h : BaseAgree decls) :
    BaseAgree decls' :=
  fun d hd => h d (hp.mem_iff.mpr hd)

theorem leafCompete_perm {decls decls' : List Decl} (hp : decls.Perm decls') (h : LeafCompete decls) :
    LeafCompete decls' :=
  fun n hn e he => h n ((competing_perm hp n).mpr hn) e (hp.mem_iff.mpr he)

theorem competeNonFinal_perm {K : Consts} {decls decls' : List Decl} (hp : decls.Perm decls')
    (h : CompeteNonFinal K decls) : CompeteNonFinal K decls' :=
  fun d hd hn => h d (hp.mem_iff.mpr hd) ((competing_perm hp d.name).mpr hn)

/-! ### One direction -/

theorem merge_perm_dirX (decls decls' : List Decl) (hp : decls.Perm decls')
    (hc : ClosedDecls Gen.consts decls) (hu : UserDecls Gen.consts decls) (hb : BaseAgree decls)
    (hl : LeafCompete decls) (hnf : CompeteNonFinal Gen.consts decls)
    (o : TypeSystem) (h : mergeDecls Gen.consts Gen.builtinTS decls = .ok o) :
    Consistent o ∧ FeatInv o ∧
      ∃ m, mergeDecls Gen.consts Gen.builtinTS decls' = .ok m ∧ Consistent m ∧ FeatInv m ∧
        SubP o (Competing decls) m := by
  have E1 : ∀ d ∈ decls, ¬ Competing decls d.super := fun d hd hE => hl d.super hE d hd rfl
  have E2 : ∀ d ∈ decls, ∀ d' ∈ decls, d.name = d'.name → ¬ Competing decls d.name → d.super = d'.super := by
    intro d hd d' hd' hn hE
    apply Classical.byContradiction
    intro hne
    exact hE ⟨d, hd, d', hd', rfl, hn.symm, hne⟩
  have hrun : ∃ s, mergeLoop Gen.consts decls (decls.length + 1) { ts := Gen.builtinTS, merged := [] } = .ok s ∧
      s.ts = o := by
    unfold mergeDecls at h
    split at h
    · cases h
    · rename_i s hs
      cases h
      exact ⟨s, hs, rfl⟩
  obtain ⟨s, hs, rfl⟩ := hrun
  obtain ⟨hi, hg, hdone⟩ := mergeLoop_runX Gen.consts decls top_predefined E1 E2 (fun d hd => (hu d hd).1) _ _ s
    (init_rinvX decls hu hb) hs
  have oLeaf : ∀ n, Competing decls n → ∀ b, Anc s.ts n b → n = b := by
    intro n hn b hab
    rcases hab.down with e | ⟨c, tc, hfc, hsc, _⟩
    · exact e
    · exfalso
      obtain ⟨tn, htn⟩ := (hasExact_iff_find _ _).mp hab.left_reg
      obtain ⟨ta, hta, hm⟩ := (hi.cons.link n c).mpr ⟨tc, hfc, hsc⟩
      rw [htn] at hta; cases hta
      rw [hi.leafE n hn tn htn] at hm; cases hm
  obtain ⟨_, rank, hrank⟩ := hc
  have hok : ∀ d ∈ decls', DeclOkX Gen.consts s.ts (Competing decls) d := by
    intro d hd'
    have hd := hp.mem_iff.mpr hd'
    obtain ⟨⟨t, ht, hcv⟩, hanc⟩ := hdone d hd
    have hxn : d.super ≠ d.name := by
      intro e
      cases hpd : Gen.consts.predefined.contains d.super with
      | true => rw [e, (hu d hd).1] at hpd; cases hpd
      | false =>
        have := hrank d hd hpd
        rw [e] at this
        exact Nat.lt_irrefl _ this
    refine ⟨⟨t, ht, hcv, hanc, hxn, fun hE => (hi.sup d hd hE t ht).1⟩, ?_, (hu d hd).1, E1 d hd⟩
    by_cases hE : Competing decls d.name
    · exact hnf d hd hE
    · exact (hi.sup d hd hE t ht).2
  have hc' := closedDecls_perm hp ⟨by assumption, rank, hrank⟩
  have hterm := merge_terminates_aux Gen.consts Gen.builtinTS decls' hc'.closed hc'.acyclic
  obtain ⟨s', hm, hi'⟩ := mergeDecls_replayX Gen.consts s.ts Gen.builtinTS hi.feat hi.cons oLeaf decls'
    (init_invX hu hb hg) hok hterm
  exact ⟨hi.cons, hi.feat, s'.ts, hm, hi'.cons, hi'.feat, hi'.sub⟩

/-! ### Two trees that are parts of each other -/

theorem sameHier_of_subX {E : String → Prop} (o m : TypeSystem) (hco : Consistent o) (hcm : Consistent m)
    (hom : SubP o E m) (hmo : SubP m E o) : SameHier o m := by
  -- the supertypes agree: exactly outside `E`, and inside `E` because each is an ancestor of the other
  have noloop : ∀ (ts : TypeSystem), Consistent ts → ∀ n (t : TypeRec), find? ts n = some t → t.super ≠ some n := by
    intro ts hc n t ht hs
    exact not_anc_of_super hc ht hs (Anc.refl _ ((hasExact_iff_find _ _).mpr ⟨t, ht⟩))
  have hsup : ∀ n t t', find? o n = some t → find? m n = some t' → t'.super = t.super := by
    intro n t t' ho hm
    obtain ⟨to, hto, hr⟩ := hom n t' hm
    rw [ho] at hto; cases hto
    obtain ⟨tm, htm, hr'⟩ := hmo n t ho
    rw [hm] at htm; cases htm
    by_cases hn : E n
    · cases hs' : t'.super with
      | none =>
        cases hs : t.super with
        | none => rfl
        | some so =>
          exfalso
          rcases (hr'.superW so hs).inv hm with e | ⟨s0, hs0, _⟩
          · exact noloop o hco n t ho (by rw [hs, e])
          · rw [hs'] at hs0; cases hs0
      | some sm =>
        cases hs : t.super with
        | none =>
          exfalso
          rcases (hr.superW sm hs').inv ho with e | ⟨s0, hs0, _⟩
          · exact noloop m hcm n t' hm (by rw [hs', e])
          · rw [hs] at hs0; cases hs0
        | some so =>
          have h1 : Anc o sm so := by
            rcases (hr.superW sm hs').inv ho with e | ⟨s0, hs0, h0⟩
            · exact absurd (by rw [hs', e]) (noloop m hcm n t' hm)
            · rw [hs] at hs0; cases hs0; exact h0
          have h2 : Anc m so sm := by
            rcases (hr'.superW so hs).inv hm with e | ⟨s0, hs0, h0⟩
            · exact absurd (by rw [hs, e]) (noloop o hco n t ho)
            · rw [hs'] at hs0; cases hs0; exact h0
          rw [anc_antisymm hco h1 (anc_subP hom h2)]
    · exact (hr.super hn).symm
  intro n
  cases ho : find? o n with
  | none =>
    cases hm : find? m n with
    | none => trivial
    | some t' =>
      obtain ⟨to, hto, _⟩ := hom n t' hm
      rw [ho] at hto; cases hto
  | some t =>
    cases hm : find? m n with
    | none =>
      obtain ⟨tm, htm, _⟩ := hmo n t ho
      rw [hm] at htm; cases htm
    | some t' =>
      obtain ⟨to, hto, hr⟩ := hom n t' hm
      rw [ho] at hto; cases hto
      obtain ⟨tm, htm, hr'⟩ := hmo n t ho
      rw [hm] at htm; cases htm
      show t'.super = t.super ∧ t'.children.Perm t.children ∧
        ((allFeatures t').map featKey).Perm ((allFeatures t).map featKey)
      refine ⟨hsup n t t' ho hm, ?_, keys_perm_of_cover t t' hr'.feats hr.feats⟩
      rw [List.perm_ext_iff_of_nodup (hcm.childNodup t' (find?_mem hm)) (hco.childNodup t (find?_mem ho))]
      intro c
      constructor
      · intro hcm'
        obtain ⟨tc', htc', hsc'⟩ := (hcm.link n c).mp ⟨t', hm, hcm'⟩
        obtain ⟨tc, htc, _⟩ := hom c tc' htc'
        obtain ⟨ta, hta, hmem⟩ := (hco.link n c).mpr ⟨tc, htc, by rw [← hsup c tc tc' htc htc']; exact hsc'⟩
        rw [ho] at hta; cases hta; exact hmem
      · intro hco'
        obtain ⟨tc, htc, hsc⟩ := (hco.link n c).mp ⟨t, ho, hco'⟩
        obtain ⟨tc', htc', _⟩ := hmo c tc htc
        obtain ⟨ta, hta, hmem⟩ := (hcm.link n c).mpr ⟨tc', htc', by rw [hsup c tc tc' htc htc']; exact hsc⟩
        rw [hm] at hta; cases hta; exact hmem

/-! ### The proposed statement -/

theorem merge_perm_leaf_compete_aux (decls decls' : List Decl) (hp : decls.Perm decls')
    (hc : ClosedDecls Gen.consts decls) (hu : UserDecls Gen.consts decls) (hb : BaseAgree decls)
    (hl : LeafCompete decls) (hnf : CompeteNonFinal Gen.consts decls) :
    match mergeDecls Gen.consts Gen.builtinTS decls, mergeDecls Gen.consts Gen.builtinTS decls' with
    | .ok ts, .ok ts' => SameHier ts ts'
    | .error _, .error _ => True
    | _, _ => False := by
  have hc' := closedDecls_perm hp hc
  have hu' := userDecls_perm hp hu
  have hb' := baseAgree_perm hp hb
  have hl' := leafCompete_perm hp hl
  have hnf' := competeNonFinal_perm hp hnf
  have hEE : Competing decls' = Competing decls := by
    funext n
    exact propext (competing_perm hp n).symm
  cases h : mergeDecls Gen.consts Gen.builtinTS decls with
  | ok o =>
    obtain ⟨hco, _, m, hm, hcm, _, hom⟩ := merge_perm_dirX decls decls' hp hc hu hb hl hnf o h
    rw [hm]
    obtain ⟨_, _, o', ho', _, _, hmo⟩ := merge_perm_dirX decls' decls hp.symm hc' hu' hb' hl' hnf' m hm
    rw [h] at ho'
    cases ho'
    rw [hEE] at hmo
    exact sameHier_of_subX o m hco hcm hom hmo
  | error e =>
    cases h' : mergeDecls Gen.consts Gen.builtinTS decls' with
    | error e' => trivial
    | ok m =>
      obtain ⟨_, _, o', ho', _⟩ := merge_perm_dirX decls' decls hp.symm hc' hu' hb' hl' hnf' m h'
      rw [h] at ho'
      cases ho'

end Cassis.TS
