/-
The MINIMAL counterpart of `Proofs/EmbeddedTs{C,D}.lean` (C02, embedded type systems), part A: the two passes of
`loadEmbeddedTs` as a simulation inside the original type system `o`, for *any* list `R` of written records that is
closed (`RecsOk`): every record is one of the FULL records, and the supertype of a record and the range and element type
of each of its own features are registered in a fresh type system or declared by a record of `R`.
The proofs follow `typesPass` / `featStep_ok` / `featsInner` / `featsOuter` (which are the case `R = fullRecs`);
"registered in `o` ⇒ registered in the type system under construction" (`RegLe`) is replaced by the closure conditions.
-/
import CassisModel.Proofs.EmbeddedTsD

namespace Cassis.Json
open Cassis.TS

/-- the name is registered in a fresh type system or declared by a record of `R` -/
def RegName (R : List TypeRec) (x : String) : Prop :=
  hasExact Gen.builtinTS x = true ∨ ∃ t ∈ R, t.name = x

/-- a closed list of written records -/
structure RecsOk (o : TypeSystem) (R : List TypeRec) : Prop where
  sub : ∀ t ∈ R, t ∈ fullRecs Gen.consts o
  supClosed : ∀ t ∈ R, ∀ s, t.super = some s → RegName R s
  featClosed : ∀ t ∈ R, ∀ f ∈ t.own, RegName R f.range ∧ ∀ e, f.elem = some e → RegName R e

theorem mem_full_of_mem {o : TypeSystem} {R : List TypeRec} (hR : RecsOk o R) {jt : JType}
    (h : jt ∈ R.map (renderTypeDecl0 Gen.consts)) : jt ∈ (fullRecs Gen.consts o).map (renderTypeDecl0 Gen.consts) := by
  obtain ⟨t, ht, rfl⟩ := List.mem_map.mp h
  exact List.mem_map.mpr ⟨t, hR.sub t ht, rfl⟩

theorem types_factsR {o : TypeSystem} (ho : Hist o) (hw : Writable Gen.consts o) {R : List TypeRec} (hR : RecsOk o R)
    (jt : JType) (hjt : jt ∈ R.map (renderTypeDecl0 Gen.consts)) :
    ∃ t s, find? o jt.name = some t ∧ t ∈ R ∧ jt = renderTypeDecl0 Gen.consts t ∧
      t.super = some s ∧ jt.super = s ∧ Gen.consts.finalTypes.contains s = false ∧ jt.descr = t.descr := by
  obtain ⟨t, ht, rfl⟩ := List.mem_map.mp hjt
  obtain ⟨hto, hp, hnd⟩ := (mem_fullRecs _ _ _).mp (hR.sub t ht)
  obtain ⟨s, hs, hnf⟩ := ho.nofinal t hto hp
  refine ⟨t, s, find?_of_mem ho.cons.nodup hto, ht, rfl, hs, ?_, hnf, ?_⟩
  · simp [renderTypeDecl0, hs]
  · exact descr_norm _ (hw.2 t hto hp hnd).1

theorem types_no_dockeyR {o : TypeSystem} (hw : Writable Gen.consts o) {R : List TypeRec} (hR : RecsOk o R) :
    (R.map (renderTypeDecl0 Gen.consts)).any (fun t => t.name == "DocumentAnnotation") = false := by
  cases h : (R.map (renderTypeDecl0 Gen.consts)).any (fun t => t.name == "DocumentAnnotation") with
  | false => rfl
  | true =>
    exfalso
    obtain ⟨jt, hjt, hn⟩ := List.any_eq_true.mp h
    have h2 : ((fullRecs Gen.consts o).map (renderTypeDecl0 Gen.consts)).any (fun t => t.name == "DocumentAnnotation") = true :=
      List.any_eq_true.mpr ⟨jt, mem_full_of_mem hR hjt, hn⟩
    rw [types_no_dockey hw] at h2
    cases h2

/-! ### The first pass -/

theorem typesPassR {o : TypeSystem} (ho : Hist o) (hw : Writable Gen.consts o) {R : List TypeRec} (hR : RecsOk o R) :
    ∀ (post : List String) (ts : TypeSystem), EInv o ts →
      post.Pairwise (fun a b => ∀ t ∈ R.map (renderTypeDecl0 Gen.consts), t.name = a → t.super = b → b = a) →
      (∀ x ∈ post, (∃ t ∈ R.map (renderTypeDecl0 Gen.consts), t.name = x) ∨
        (∃ t ∈ R.map (renderTypeDecl0 Gen.consts), t.super = x)) →
      (∀ t ∈ R.map (renderTypeDecl0 Gen.consts),
        (t.name ∉ post → hasExact ts t.name = true) ∧ (t.super ∉ post → hasExact ts t.super = true)) →
      ∃ ts', post.foldlM (typeStep Gen.consts (R.map (renderTypeDecl0 Gen.consts))) ts = .ok ts' ∧
        EInv o ts' ∧ ∀ t ∈ R.map (renderTypeDecl0 Gen.consts), hasExact ts' t.name = true := by
  intro post
  induction post with
  | nil =>
    intro ts hi _ _ hreg
    exact ⟨ts, rfl, hi, fun t ht => (hreg t ht).1 List.not_mem_nil⟩
  | cons n post ih =>
    intro ts hi hpw hsrc hreg
    rw [List.pairwise_cons] at hpw
    obtain ⟨hhead, hpw'⟩ := hpw
    have hsrc' := fun x hx => hsrc x (List.mem_cons_of_mem _ hx)
    simp only [List.foldlM_cons, bind, Except.bind]
    cases hskip : (Gen.consts.predefined.contains n || hasExact ts n) with
    | true =>
      have hn : hasExact ts n = true := by
        rcases Bool.or_eq_true_iff.mp hskip with h | h
        · exact hi.grow.reg n (builtin_pre n h)
        · exact h
      have hstep : typeStep Gen.consts (R.map (renderTypeDecl0 Gen.consts)) ts n = .ok ts := by
        unfold typeStep; rw [hskip]; rfl
      rw [hstep]
      apply ih ts hi hpw' hsrc'
      intro t ht
      obtain ⟨h1, h2⟩ := hreg t ht
      constructor
      · intro hnp
        by_cases e : t.name = n
        · rw [e]; exact hn
        · exact h1 (by simp only [List.mem_cons, not_or]; exact ⟨e, hnp⟩)
      · intro hnp
        by_cases e : t.super = n
        · rw [e]; exact hn
        · exact h2 (by simp only [List.mem_cons, not_or]; exact ⟨e, hnp⟩)
    | false =>
      obtain ⟨hpre, hnew⟩ := Bool.or_eq_false_iff.mp hskip
      -- `n` is a declared name
      have hdecl : ∃ jt ∈ R.map (renderTypeDecl0 Gen.consts), jt.name = n := by
        rcases hsrc n List.mem_cons_self with h | ⟨jt', hjt', hs'⟩
        · exact h
        · obtain ⟨t', s', _, ht', _, hts', hjs', _, _⟩ := types_factsR ho hw hR jt' hjt'
          have hs : s' = n := by rw [← hjs', hs']
          subst hs
          rcases hR.supClosed t' ht' s' hts' with hb | ⟨tn, htn, htnn⟩
          · have : hasExact ts s' = true := hi.grow.reg _ hb
            rw [hnew] at this; cases this
          · exact ⟨renderTypeDecl0 Gen.consts tn, List.mem_map.mpr ⟨tn, htn, rfl⟩, htnn⟩
      obtain ⟨jt1, hjt1, hjn1⟩ := hdecl
      cases hfind : (R.map (renderTypeDecl0 Gen.consts)).find? (fun t => t.name == n) with
      | none =>
        exfalso
        have := List.find?_eq_none.mp hfind jt1 hjt1
        simp [hjn1] at this
      | some jt =>
        have hjt : jt ∈ R.map (renderTypeDecl0 Gen.consts) := List.mem_of_find?_eq_some hfind
        have hjn : jt.name = n := by simpa using List.find?_some hfind
        obtain ⟨t, s, hto, ht, _, hts, hjs, hnf, hjd⟩ := types_factsR ho hw hR jt hjt
        rw [hjn] at hto
        have htm := ((mem_fullRecs _ _ _).mp (hR.sub t ht)).1
        have hsn : s ≠ n := by
          intro e
          have := rank_lt ho.cons htm hts
          rw [find?_name hto, e] at this
          exact Nat.lt_irrefl _ this
        have hsreg : hasExact ts s = true := by
          rw [← hjs]
          apply (hreg jt hjt).2
          simp only [List.mem_cons, not_or]
          refine ⟨by rw [hjs]; exact hsn, ?_⟩
          intro hmem
          have := hhead jt.super hmem jt hjt hjn rfl
          rw [hjs] at this
          exact hsn this
        obtain ⟨sup, hsup⟩ := (hasExact_iff_find _ _).mp hsreg
        obtain ⟨ts1, h1, hc1, hf1, hs1, hg1, hreg1⟩ :=
          createType_step Gen.consts o ho.feat ts n s t sup hi.cons hi.feat hi.sub hnew hsup hnf hto hts
        have hstep : typeStep Gen.consts (R.map (renderTypeDecl0 Gen.consts)) ts n = .ok ts1 := by
          unfold typeStep
          rw [hskip, hfind]
          simp only [Bool.false_eq_true, if_false]
          rw [hjs, hjd]; exact h1
        rw [hstep]
        apply ih ts1 ⟨hc1, hf1, hs1, hi.grow.trans hg1⟩ hpw' hsrc'
        intro t' ht'
        obtain ⟨h1', h2'⟩ := hreg t' ht'
        constructor
        · intro hnp
          by_cases e : t'.name = n
          · rw [e]; exact hreg1
          · exact hg1.reg _ (h1' (by simp only [List.mem_cons, not_or]; exact ⟨e, hnp⟩))
        · intro hnp
          by_cases e : t'.super = n
          · rw [e]; exact hreg1
          · exact hg1.reg _ (h2' (by simp only [List.mem_cons, not_or]; exact ⟨e, hnp⟩))

/-! ### The second pass -/

/-- `featStep_ok` with the three registrations it needs as hypotheses -/
theorem featStep_okR {o : TypeSystem} (ho : Hist o) (t : TypeRec) (hto : find? o t.name = some t)
    (hp : Gen.consts.predefined.contains t.name = false) (f : Feature) (hf : f ∈ t.own)
    (hfw : FeatWritable Gen.consts f) (hfo : featOkB o f = true)
    (ts : TypeSystem) (hi : EInv o ts)
    (hdreg : hasExact ts t.name = true) (hrreg : hasExact ts f.range = true)
    (hfe : f.elem.all (hasExact ts) = true) :
    ∃ ts', featStep Gen.consts t.name ts (renderFeatDecl Gen.consts f) = .ok ts' ∧ EInv o ts' ∧
      Grow Gen.consts ts ts' ∧ ∃ t', find? ts' t.name = some t' ∧ ∃ g ∈ eff t', featureEq g f = true := by
  obtain ⟨e', hdec, hget, hcases⟩ := decode_feat ts t.name f hfw
  unfold featOkB at hfo
  simp only [Bool.and_eq_true] at hfo
  obtain ⟨⟨_, _⟩, hnm⟩ := hfo
  have hereg : e'.all (hasExact ts) = true := by
    rcases hcases with rfl | rfl | rfl
    · exact hfe
    · rfl
    · simp only [Option.all_some]
      cases hfe' : f.elem with
      | none =>
        simp only [Option.getD_none]
        exact hi.grow.reg _ (by decide +kernel)
      | some x =>
        rw [hfe'] at hfe
        simpa using hfe
  rw [createFeature_resolved ts t.name _ f.range e' f.descr f.multi hdreg hrreg hereg, name_roundtrip f hnm] at hdec
  obtain ⟨f', hdec', heq⟩ : ∃ f' : Feature,
      featStep Gen.consts t.name ts (renderFeatDecl Gen.consts f) = addFeature ts t.name f' ∧
      featureEq f f' = true :=
    ⟨_, hdec, by rw [featureEq_iff]; exact ⟨rfl, rfl, rfl, hget.symm⟩⟩
  have hcov : CovIn o t.name f' := ⟨t, hto, f, List.mem_append_left _ hf, heq⟩
  obtain ⟨ts', hadd, hs'⟩ := addFeature_sub o ho.feat ts t.name f' hi.cons hi.sub hdreg hcov
  have hg : Grow Gen.consts ts ts' := addFeature_grow Gen.consts hi.cons hi.feat hp hadd
  obtain ⟨t', ht', g, hg', hgf⟩ := addFeature_covers hi.cons hi.feat hadd
  refine ⟨ts', by rw [hdec']; exact hadd,
    ⟨consistent_addFeature_aux ts ts' t.name f' hi.cons hadd,
     featInv_addFeature_aux ts ts' t.name f' hi.cons hi.feat hadd, hs', hi.grow.trans hg⟩,
    hg, t', ht', g, hg', featureEq_trans hgf (featureEq_symm heq)⟩

/-- everything `R` mentions is registered -/
def RegAll (R : List TypeRec) (ts : TypeSystem) : Prop := ∀ x, RegName R x → hasExact ts x = true

theorem regAll_grow {R : List TypeRec} {a b : TypeSystem} (h : RegAll R a) (hg : Grow Gen.consts a b) : RegAll R b :=
  fun x hx => hg.reg x (h x hx)

theorem featsInnerR {o : TypeSystem} (ho : Hist o) {R : List TypeRec} (t : TypeRec) (hto : find? o t.name = some t)
    (hp : Gen.consts.predefined.contains t.name = false)
    (hall : ∀ f ∈ t.own, FeatWritable Gen.consts f ∧ featOkB o f = true)
    (hdom : RegName R t.name)
    (hcl : ∀ f ∈ t.own, RegName R f.range ∧ ∀ e, f.elem = some e → RegName R e) :
    ∀ (fs : List Feature) (ts : TypeSystem), (∀ f ∈ fs, f ∈ t.own) → EInv o ts → RegAll R ts →
      ∃ ts', (fs.map (renderFeatDecl Gen.consts)).foldlM (featStep Gen.consts t.name) ts = .ok ts' ∧ EInv o ts' ∧
        Grow Gen.consts ts ts' ∧ ∃ t', find? ts' t.name = some t' ∧ ∀ f ∈ fs, ∃ g ∈ eff t', featureEq g f = true := by
  intro fs
  induction fs with
  | nil =>
    intro ts _ hi hreg
    obtain ⟨t', ht'⟩ := (hasExact_iff_find _ _).mp (hreg _ hdom)
    exact ⟨ts, rfl, hi, Grow.refl _ _, t', ht', fun f hf => by cases hf⟩
  | cons f fs ih =>
    intro ts hsub hi hreg
    have hfm := hsub f List.mem_cons_self
    have hfe : f.elem.all (hasExact ts) = true := by
      cases he : f.elem with
      | none => rfl
      | some e => simp only [Option.all_some]; exact hreg _ ((hcl f hfm).2 e he)
    obtain ⟨ts1, h1, hi1, hg1, t1, ht1, g, hg, hgf⟩ :=
      featStep_okR ho t hto hp f hfm (hall f hfm).1 (hall f hfm).2 ts hi (hreg _ hdom) (hreg _ (hcl f hfm).1) hfe
    obtain ⟨ts', h2, hi2, hg2, t', ht', hcov⟩ :=
      ih ts1 (fun x hx => hsub x (List.mem_cons_of_mem _ hx)) hi1 (regAll_grow hreg hg1)
    refine ⟨ts', ?_, hi2, hg1.trans hg2, t', ht', ?_⟩
    · simp only [List.map_cons, List.foldlM_cons, bind, Except.bind, h1]
      exact h2
    · intro x hx
      rcases List.mem_cons.mp hx with rfl | hx
      · obtain ⟨t'', ht'', hsub'⟩ := grow_cov hg2 ht1
        rw [ht'] at ht''; cases ht''
        exact ⟨g, hsub' g hg, hgf⟩
      · exact hcov x hx

theorem featsOuterR {o : TypeSystem} (ho : Hist o) (ho2 : Hist2 o) (hw : Writable Gen.consts o) {R : List TypeRec}
    (hR : RecsOk o R) :
    ∀ (L : List TypeRec) (ts : TypeSystem), (∀ t ∈ L, t ∈ R) → EInv o ts → RegAll R ts →
      ∃ ts', (L.map (renderTypeDecl0 Gen.consts)).foldlM (featsStep Gen.consts) ts = .ok ts' ∧ EInv o ts' ∧
        Grow Gen.consts ts ts' ∧
        ∀ t ∈ L, ∃ t', find? ts' t.name = some t' ∧ ∀ f ∈ t.own, ∃ g ∈ eff t', featureEq g f = true := by
  intro L
  induction L with
  | nil =>
    intro ts _ hi _
    exact ⟨ts, rfl, hi, Grow.refl _ _, fun t ht => by cases ht⟩
  | cons t L ih =>
    intro ts hsub hi hreg
    have htR := hsub t List.mem_cons_self
    obtain ⟨htm, hp, hnd⟩ := (mem_fullRecs _ _ _).mp (hR.sub t htR)
    have hto : find? o t.name = some t := find?_of_mem ho.cons.nodup htm
    have hall : ∀ f ∈ t.own, FeatWritable Gen.consts f ∧ featOkB o f = true :=
      fun f hf => ⟨(hw.2 t htm hp hnd).2 f hf, ho2.ownOk _ t hto f hf⟩
    have hdom : RegName R t.name := Or.inr ⟨t, htR, rfl⟩
    obtain ⟨ts1, h1, hi1, hg1, t1, ht1, hcov1⟩ :=
      featsInnerR ho t hto hp hall hdom (hR.featClosed t htR) t.own ts (fun _ h => h) hi hreg
    obtain ⟨ts', h2, hi2, hg2, hcov2⟩ :=
      ih ts1 (fun x hx => hsub x (List.mem_cons_of_mem _ hx)) hi1 (regAll_grow hreg hg1)
    obtain ⟨t0, ht0⟩ := (hasExact_iff_find _ _).mp (hreg _ hdom)
    have hstep : featsStep Gen.consts ts (renderTypeDecl0 Gen.consts t) = .ok ts1 := by
      unfold featsStep
      have hn : (renderTypeDecl0 Gen.consts t).name = t.name := rfl
      have hfs : (renderTypeDecl0 Gen.consts t).feats = t.own.map (renderFeatDecl Gen.consts) := rfl
      simp only [hn, hfs, getType_of_find ht0, find?_name ht0, bind, Except.bind]
      exact h1
    refine ⟨ts', ?_, hi2, hg1.trans hg2, ?_⟩
    · simp only [List.map_cons, List.foldlM_cons, bind, Except.bind, hstep]
      exact h2
    · intro x hx
      rcases List.mem_cons.mp hx with rfl | hx
      · obtain ⟨t'', ht'', hsub'⟩ := grow_cov hg2 ht1
        refine ⟨t'', ht'', ?_⟩
        intro f hf
        obtain ⟨g, hg, hgf⟩ := hcov1 f hf
        exact ⟨g, hsub' g hg, hgf⟩
      · exact hcov2 x hx

/-! ### Both passes -/

/-- the embedded type system of a closed list of records: it can be built, it is the result of a history, it is a part
    of the original that extends the built-in table, and it covers the own features of every record -/
theorem loadEmbedded_on {o : TypeSystem} (ho : Hist o) (ho2 : Hist2 o) (hw : Writable Gen.consts o)
    (hpc : NoPercentNames o) {R : List TypeRec} (hR : RecsOk o R) :
    ∃ emb, loadEmbeddedTs Gen.consts (R.map (renderTypeDecl0 Gen.consts)) = .ok emb ∧
      Hist emb ∧ EInv o emb ∧
      ∀ t ∈ R, ∃ t', find? emb t.name = some t' ∧ ∀ f ∈ t.own, ∃ g ∈ eff t', featureEq g f = true := by
  have hrank : ∀ jt ∈ R.map (renderTypeDecl0 Gen.consts), jt.super ≠ jt.name →
      (o.types.map (·.name)).idxOf jt.super < (o.types.map (·.name)).idxOf jt.name := by
    intro jt hjt _
    obtain ⟨t, s, hto, _, _, hts, hjs, _, _⟩ := types_factsR ho hw hR jt hjt
    have := rank_lt ho.cons (find?_mem hto) hts
    rw [find?_name hto, ← hjs] at this
    exact this
  obtain ⟨order, htop, hpw, hmem, hsrc⟩ := toposort_total _ (fun n => (o.types.map (·.name)).idxOf n) hrank
  have hi0 : EInv o Gen.builtinTS :=
    ⟨consistent_builtins_aux.1, featInv_builtins_aux.1, (init_inv ho).sub, Grow.refl _ _⟩
  obtain ⟨ts1, hfold1, hi1, hreg1⟩ := typesPassR ho hw hR order Gen.builtinTS hi0 hpw hsrc
    (fun t ht => ⟨fun hn => absurd (hmem t ht).1 hn, fun hn => absurd (hmem t ht).2 hn⟩)
  have hregAll : RegAll R ts1 := by
    intro x hx
    rcases hx with hb | ⟨t, ht, rfl⟩
    · exact hi1.grow.reg x hb
    · exact hreg1 (renderTypeDecl0 Gen.consts t) (List.mem_map.mpr ⟨t, ht, rfl⟩)
  obtain ⟨emb, hfold2, hi2, _, hcov⟩ := featsOuterR ho ho2 hw hR R ts1 (fun _ h => h) hi1 hregAll
  have hnofinal : NoFinal emb := by
    intro t' ht' hp
    obtain ⟨to, hto, hr⟩ := hi2.sub t'.name t' (find?_of_mem hi2.cons.nodup ht')
    obtain ⟨s, hs, hnf⟩ := ho.nofinal to (find?_mem hto) (by rw [find?_name hto]; exact hp)
    exact ⟨s, by rw [← hr.super]; exact hs, hnf⟩
  refine ⟨emb, ?_, ⟨hi2.cons, hi2.feat, hi2.grow, hnofinal⟩, hi2, hcov⟩
  rw [loadEmbeddedTs_eq _ _ (types_no_dockeyR hw hR)
    (renderTypeDecl0_noPct _ _ (fun t ht => hpc t ((mem_fullRecs _ _ _).mp (hR.sub t ht)).1))]
  simp only [bind, Except.bind, htop, hfold1]
  exact hfold2

end Cassis.Json
