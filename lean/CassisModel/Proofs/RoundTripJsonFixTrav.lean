/-
Fixpoint of the JSON round trip, part 1: the loaded structures are flat again, and the traversal of the loaded CAS
collects exactly the counterparts of the written structures.  Port of `RoundTripFixFlat.lean`/`RoundTripFixAux.lean`
to `ViewsRelJ` and arbitrary traversal options.
-/
import CassisModel.Proofs.RoundTripJson

namespace Cassis.Json
open Cassis.TS Cassis.Traverse Cassis.Lex Cassis.Xmi Cassis.Xmi.RTB

variable {op : Opts}

/-! ### views -/

theorem viewsRelJ_fwd (H : Heap) (na : Int → Nat) : ∀ (l l' : List (String × View)), ViewsRelJ H na l l' →
    ∀ nv ∈ l, ∃ nv' ∈ l', ViewRelJ H na nv nv'
  | [], [], _, nv, h => by cases h
  | [], _ :: _, h, _, _ => h.elim
  | _ :: _, [], h, _, _ => h.elim
  | v :: r, v' :: r', h, nv, hm => by
    obtain ⟨h1, h2⟩ := h
    rcases List.mem_cons.mp hm with rfl | hm
    · exact ⟨v', List.mem_cons_self, h1⟩
    · obtain ⟨nv', hm', hr⟩ := viewsRelJ_fwd H na r r' h2 nv hm
      exact ⟨nv', List.mem_cons_of_mem _ hm', hr⟩

theorem viewsRelJ_bwd (H : Heap) (na : Int → Nat) : ∀ (l l' : List (String × View)), ViewsRelJ H na l l' →
    ∀ nv' ∈ l', ∃ nv ∈ l, ViewRelJ H na nv nv'
  | [], [], _, nv, h => by cases h
  | [], _ :: _, h, _, _ => h.elim
  | _ :: _, [], h, _, _ => h.elim
  | v :: r, v' :: r', h, nv', hm => by
    obtain ⟨h1, h2⟩ := h
    rcases List.mem_cons.mp hm with rfl | hm
    · exact ⟨v, List.mem_cons_self, h1⟩
    · obtain ⟨nv, hm', hr⟩ := viewsRelJ_bwd H na r r' h2 nv' hm
      exact ⟨nv, List.mem_cons_of_mem _ hm', hr⟩

/-- the loaded views answer the same lookups as the written ones -/
theorem viewsRelJ_get {H : Heap} {na : Int → Nat} : ∀ (l l' : List (String × View)) (vn : String) (v : View),
    ViewsRelJ H na l l' → alistGet? l vn = some v →
    ∃ v', alistGet? l' vn = some v' ∧ ViewRelJ H na (vn, v) (vn, v')
  | [], _, vn, v, _, h => by simp [alistGet?] at h
  | (k, w) :: r, [], vn, v, hr, h => False.elim hr
  | (k, w) :: r, (k', w') :: r', vn, v, hr, h => by
    obtain ⟨h1, h2⟩ := hr
    have hk : k' = k := h1.1
    unfold alistGet? at h ⊢
    by_cases hkn : k = vn
    · rw [if_pos hkn] at h
      rw [if_pos (hk.trans hkn)]
      cases h
      subst hkn
      cases hk
      exact ⟨w', rfl, h1⟩
    · rw [if_neg hkn] at h
      rw [if_neg (by rw [hk]; exact hkn)]
      exact viewsRelJ_get r r' vn v h2 h

/-! ### the loaded structures are flat -/

theorem flatFeat_newJ {K : Consts} {ts : TypeSystem} {c : Cas} {ci : Nat} {H : Heap} {L : List (Int × Nat)}
    {na : Int → Nat} {ci' : Nat} {c' : Cas} {hpL : Heap}
    (hL : LOk K ts c ci H L) (hrel : HeapRel H L na (E3 H na ci') hpL) (hviews : ViewsRelJ H na c.views c'.views)
    {q : Int × Nat} (hq : q ∈ L) {o o' : Obj} (hHo : H[q.2]? = some o) (hor : ObjRel (E3 H na ci' o) o o' q.1)
    (isAnn : Bool) (f : Feature) (hf : FlatFeat K ts c ci H isAnn o f) : FlatFeat K ts c' ci' hpL isAnn o' f := by
  obtain ⟨a1, a2, a3, a4, a5, a6, a7, a8, a9, a10, a11, v, hv, hd⟩ := hf
  refine ⟨a1, a2, a3, a4, a5, a6, a7, a8, a9, a10, a11, exp3 H na ci' v, hor.2.2.2 _ _ hv, ?_⟩
  rcases hd with ⟨hn, hs⟩ | ⟨hn, hp, hs⟩ | ⟨hn, hp, ha, hl, hb1, hb2, hb3, hs⟩
  · left
    refine ⟨hn, ?_⟩
    rcases hs with ⟨vn, rfl, hsome⟩ | ⟨rfl, hA⟩
    · left
      refine ⟨vn, rfl, ?_⟩
      cases hg : Cas.getViewRec c vn with
      | none => rw [hg] at hsome; cases hsome
      | some w =>
        obtain ⟨w', hw', _⟩ := viewsRelJ_get _ _ vn w hviews hg
        show (alistGet? c'.views vn).isSome = true
        rw [hw']
        rfl
    · right
      exact ⟨rfl, hA⟩
  · right; left
    refine ⟨hn, hp, ?_⟩
    rcases hs with rfl | ⟨hr, i, rfl⟩ | ⟨hr, s, rfl⟩ | ⟨hr, b, rfl⟩ | ⟨hr, t, rfl⟩
    · left; rfl
    · right; left; exact ⟨hr, i, rfl⟩
    · right; right; left; exact ⟨hr, s, rfl⟩
    · right; right; right; left; exact ⟨hr, b, rfl⟩
    · right; right; right; right; exact ⟨hr, t, rfl⟩
  · right; right
    refine ⟨hn, hp, ha, hl, hb1, hb2, hb3, ?_⟩
    rcases hs with rfl | ⟨b, rfl, hsome, hne0⟩
    · left; rfl
    · right
      obtain ⟨x, hx, hxL⟩ := hL.closed q hq o hHo f.name b hv
      have hxn : xidOf hpL (na x) = some x := heapRel_xid hrel hxL
      refine ⟨na x, ?_, ?_, ?_⟩
      · simp only [exp3, hx]
      · rw [hxn]; rfl
      · rw [hxn]
        intro h
        exact (hL.ids _ hxL).2 (Option.some.inj h)

theorem new_flatJ {K : Consts} {ts : TypeSystem} {c : Cas} {ci : Nat} {H : Heap}
    {L : List (Int × Nat)} {na : Int → Nat} {ci' : Nat} {c' : Cas} {hpL : Heap}
    (hL : LOk K ts c ci H L)
    (hrel : HeapRel H L na (E3 H na ci') hpL) (hviews : ViewsRelJ H na c.views c'.views) :
    ∀ q ∈ L, FlatFs K ts c' ci' hpL (na q.1) := by
  intro q hq
  obtain ⟨o, o', hHo, hLo', hor⟩ := hrel q hq
  obtain ⟨o1, t, ho1, hfind, htn, h1, h2, h3, h4, h5, h6, h7, h8, h9, h10, hfeat, hann⟩ := hL.flat q hq
  rw [hHo] at ho1
  cases ho1
  obtain ⟨hty, hxid, hnames, hslots⟩ := hor
  refine ⟨o', t, hLo', ?_⟩
  rw [hty, hnames]
  refine ⟨hfind, htn, h1, h2, h3, h4, h5, h6, h7, h8, h9, h10, ?_, ?_⟩
  · intro f hf
    exact flatFeat_newJ hL hrel hviews hq hHo ⟨hty, hxid, hnames, hslots⟩ _ f (hfeat f hf)
  · intro hA
    obtain ⟨vn, v, text, b, e, hs, hv, ht, hb, he, hbl, hel⟩ := hann hA
    obtain ⟨v', hv', hvr⟩ := viewsRelJ_get _ _ vn v hviews hv
    have hsofa : v'.sofa = v.sofa := hvr.2.1
    exact ⟨vn, v', text, b, e, hslots _ _ hs, hv', by rw [hsofa]; exact ht, hslots _ _ hb, hslots _ _ he, hbl, hel⟩

/-! ### successors of a flat structure, for arbitrary options -/

theorem jnodeSuccs_flat_any {K : Consts} {ts : TypeSystem} {c : Cas} {ci : Nat} {H : Heap} {a : Nat}
    (hfl : FlatFs K ts c ci H a) (allFs : List (Int × Nat)) (fuel : Nat) :
    ∃ (o : Obj) (t : TypeRec) (ps : List Nat), H[a]? = some o ∧ getType ts o.ty = .ok t ∧
      nodeSuccs K ts op H allFs fuel a t = .ok (ps, 0) ∧
      ∀ b ∈ ps, ∃ n, alistGet? o.slots n = some (.ref b) := by
  obtain ⟨o, t, ho, ht, _, _, _, hsup, _, _, _, _, _, _, _, hfeat, _⟩ := hfl
  obtain ⟨ps, hps, hm⟩ := jfeaturesSuccs_flat_any (op := op) (K := K) (ts := ts) allFs fuel ho (allFeatures t) hfeat
  refine ⟨o, t, ps, ho, getType_of_find ht, ?_, fun b hb => ?_⟩
  · unfold nodeSuccs
    have : (t.super == some ARRAY_BASE) = false := by
      cases hh : (t.super == some ARRAY_BASE)
      · rfl
      · exact absurd (eq_of_beq hh) hsup
    rw [this]
    exact hps
  · obtain ⟨f, _, hf⟩ := hm b hb
    exact ⟨f.name, hf⟩

/-- the successors of a flat structure are exactly the targets of its references -/
theorem jsuccsOf_flat {K : Consts} {ts : TypeSystem} {c : Cas} {ci : Nat} {H : Heap} {a : Nat} {o : Obj}
    (hfl : FlatFs K ts c ci H a) (ho : H[a]? = some o) (lf : Nat) (b : Nat) :
    b ∈ succsOf K ts op H lf a ↔ ∃ n, alistGet? o.slots n = some (.ref b) := by
  obtain ⟨o', t, ps, ho', hty, hnode, hm⟩ := jnodeSuccs_flat_any (op := op) hfl [] lf
  rw [ho] at ho'; cases ho'
  rw [succsOf_eq K ts op ho hty hnode]
  constructor
  · exact hm b
  · rintro ⟨n, hn⟩
    obtain ⟨o2, t2, ho2, ht2, _, _, _, hsup, _, _, _, _, _, _, hsl, hfeat, _⟩ := hfl
    rw [ho] at ho2; cases ho2
    obtain ⟨f, hf, rfl⟩ := flat_slot_feature hsl hn
    obtain ⟨ps', hps', hm'⟩ := jfeaturesSuccs_flat (op := op) (K := K) (ts := ts) lf ho (allFeatures t2) hfeat
    have ht' : getType ts o.ty = .ok t2 := getType_of_find ht2
    rw [hty] at ht'; cases ht'
    have hnode' : nodeSuccs K ts op H [] lf a t = .ok (ps', 0) := by
      unfold nodeSuccs
      have : (t.super == some ARRAY_BASE) = false := by
        cases hh : (t.super == some ARRAY_BASE)
        · rfl
        · exact absurd (eq_of_beq hh) hsup
      rw [this]
      exact hps'
    rw [hnode] at hnode'
    cases hnode'
    exact hm' f hf b hn

/-! ### seeds -/

theorem seed_fwdJ {K : Consts} {ts : TypeSystem} {c : Cas} {ci : Nat} {H : Heap} {L : List (Int × Nat)}
    {na : Int → Nat} {c' : Cas} (hL : LOk K ts c ci H L) (hviews : ViewsRelJ H na c.views c'.views) {a : Nat}
    (ha : a ∈ defaultSeeds c') : ∃ q ∈ L, a = na q.1 := by
  unfold defaultSeeds at ha
  obtain ⟨nv', hnv', ha⟩ := List.mem_flatMap.mp ha
  obtain ⟨nv, hnv, hr⟩ := viewsRelJ_bwd H na _ _ hviews nv' hnv'
  have hperm := hr.2.2
  have := hperm.mem_iff.mp ha
  obtain ⟨m, hm, rfl⟩ := List.mem_map.mp this
  obtain ⟨e0, he0, hx0⟩ := mem_members.mp hm
  obtain ⟨x, hx⟩ := hL.members nv hnv e0 he0
  have := (hL.ids _ hx).1
  rw [show ((x, e0.oid) : Int × Nat).2 = e0.oid from rfl, hx0] at this
  cases this
  exact ⟨_, hx, rfl⟩

theorem seed_bwdJ {K : Consts} {ts : TypeSystem} {c : Cas} {ci : Nat} {H : Heap} {L : List (Int × Nat)}
    {na : Int → Nat} {c' : Cas} (hL : LOk K ts c ci H L) (hviews : ViewsRelJ H na c.views c'.views) {x : Int} {a : Nat}
    (hx : (x, a) ∈ L) (ha : a ∈ defaultSeeds c) : na x ∈ defaultSeeds c' := by
  unfold defaultSeeds at ha ⊢
  obtain ⟨nv, hnv, ha⟩ := List.mem_flatMap.mp ha
  obtain ⟨e, he, rfl⟩ := List.mem_map.mp ha
  obtain ⟨nv', hnv', hr⟩ := viewsRelJ_fwd H na _ _ hviews nv hnv
  have hperm := hr.2.2
  refine List.mem_flatMap.mpr ⟨nv', hnv', hperm.mem_iff.mpr ?_⟩
  exact List.mem_map.mpr ⟨x, mem_members.mpr ⟨e, he, (hL.ids _ hx).1⟩, rfl⟩

/-! ### the traversal of the loaded CAS -/

theorem new_traversalJ {K : Consts} {ts : TypeSystem} {c : Cas} {ci : Nat} {H : Heap}
    {L : List (Int × Nat)} {na : Int → Nat} {ci' : Nat} {c' : Cas} {hpL : Heap}
    (hL : LOk K ts c ci H L)
    (hrel : HeapRel H L na (E3 H na ci') hpL) (hviews : ViewsRelJ H na c.views c'.views) :
    ∃ st' : St, findAllFs K ts op hpL c'.nextXid (defaultSeeds c') = .ok st' ∧ st'.heap = hpL ∧
      ∀ r ∈ st'.allFs, ∃ q ∈ L, r.2 = na q.1 := by
  have hflat := new_flatJ (ci' := ci') hL hrel hviews
  apply Traverse.findAllFs_succeeds K ts op hpL c'.nextXid (defaultSeeds c') (fun b => ∃ q ∈ L, b = na q.1)
  · intro a ha
    exact seed_fwdJ hL hviews ha
  · rintro a ⟨q, hq, rfl⟩
    obtain ⟨o', t, _, ho', hty, _, _⟩ := jnodeSuccs_flat_any (op := op) (hflat q hq) [] (hpL.length + 1)
    have hx := rel_xid hrel hq
    refine ⟨o', q.1, t, ho', ?_, hty, ?_⟩
    · unfold xidOf at hx; rw [ho'] at hx; exact hx
    · intro allFs
      obtain ⟨o2, t2, ps, ho2, hty2, hns, hps⟩ := jnodeSuccs_flat_any (op := op) (hflat q hq) allFs (hpL.length + 1)
      rw [ho'] at ho2; cases ho2
      rw [hty] at hty2; cases hty2
      refine ⟨ps, 0, hns, ?_⟩
      intro b' hb'
      obtain ⟨n, hn⟩ := hps b' hb'
      exact rel_succ_fwd hL hrel hq ho' hn
  · rintro a b ⟨q, hq, rfl⟩ ⟨q', hq', rfl⟩ h
    rw [rel_xid hrel hq, rel_xid hrel hq'] at h
    rw [Option.some.inj h]

theorem reach_transferJ {K : Consts} {ts : TypeSystem} {ci : Nat} {c : Cas} {hp : Heap}
    {st : St} {na : Int → Nat} {ci' : Nat} {c' : Cas} {hpL : Heap}
    (hwf : RTWf c hp)
    (hfa : findAllFs K ts op hp c.nextXid (defaultSeeds c) = .ok st)
    (hL : LOk K ts c ci st.heap (sortById st.allFs))
    (hrel : HeapRel st.heap (sortById st.allFs) na (E3 st.heap na ci') hpL)
    (hviews : ViewsRelJ st.heap na c.views c'.views)
    (lf' : Nat) {a : Nat} (hr : Reach K ts op st.heap (hp.length + 1) (defaultSeeds c) a) :
    ∀ x, (x, a) ∈ sortById st.allFs → Reach K ts op hpL lf' (defaultSeeds c') (na x) := by
  have hflat := new_flatJ (ci' := ci') hL hrel hviews
  induction hr with
  | seed a hs =>
    intro x hx
    exact Reach.seed _ (seed_bwdJ hL hviews hx hs)
  | step a b hra hnull hsucc ih =>
    intro xb hxb
    have hmem := findAllFs_complete_aux K ts op hp c.nextXid _ st hwf.next_pos hfa a hra hnull
    obtain ⟨⟨xa, a2⟩, hq, rfl⟩ := List.mem_map.mp hmem
    have hqa : (xa, a2) ∈ sortById st.allFs := mem_sortById.mpr hq
    have hfl := hL.flat _ hqa
    obtain ⟨o, _, ho, _⟩ := id hfl
    obtain ⟨n, hn⟩ := (jsuccsOf_flat (op := op) hfl ho _ b).mp hsucc
    obtain ⟨o', ho', hn'⟩ := rel_succ_bwd hL hrel hqa hxb ho hn
    refine Reach.step (na xa) (na xb) (ih xa hqa) ?_ ?_
    · rw [rel_xid hrel hqa]
      intro h
      exact (hL.ids _ hqa).2 (Option.some.inj h)
    · exact (jsuccsOf_flat (op := op) (hflat _ hqa) ho' lf' (na xb)).mpr ⟨n, hn'⟩

theorem new_allFs_permJ {K : Consts} {ts : TypeSystem} {ci : Nat} {c : Cas} {hp : Heap}
    {st : St} {na : Int → Nat} {ci' : Nat} {c' : Cas} {hpL : Heap} {st' : St}
    (hwf : RTWf c hp)
    (hfa : findAllFs K ts op hp c.nextXid (defaultSeeds c) = .ok st)
    (hL : LOk K ts c ci st.heap (sortById st.allFs))
    (hrel : HeapRel st.heap (sortById st.allFs) na (E3 st.heap na ci') hpL)
    (hviews : ViewsRelJ st.heap na c.views c'.views)
    (hnx : 0 < c'.nextXid)
    (hfa' : findAllFs K ts op hpL c'.nextXid (defaultSeeds c') = .ok st') (hheap : st'.heap = hpL)
    (hS : ∀ r ∈ st'.allFs, ∃ q ∈ sortById st.allFs, r.2 = na q.1) :
    st'.allFs.Perm (st.allFs.map (fun q => (q.1, na q.1))) := by
  have inv' := (findAllFs_inv K ts op hpL c'.nextXid _ st' hfa').1
  have inv := (findAllFs_inv K ts op hp c.nextXid _ st hfa).1
  have hnd' : st'.allFs.Nodup := nodup_of_nodup_map _ _ inv'.nodupK
  have hnd : (st.allFs.map (fun q => (q.1, na q.1))).Nodup := by
    apply nodup_of_nodup_map (·.1)
    rw [List.map_map]
    exact inv.nodupK
  rw [List.perm_ext_iff_of_nodup hnd' hnd]
  rintro ⟨x, b⟩
  constructor
  · intro hr
    obtain ⟨q, hq, hb⟩ := hS _ hr
    have h1 := inv'.link x b hr
    rw [hheap, show ((x, b) : Int × Nat).2 = b from rfl] at *
    subst hb
    rw [rel_xid hrel hq] at h1
    cases h1
    exact List.mem_map.mpr ⟨q, mem_sortById.mp hq, rfl⟩
  · intro hm
    obtain ⟨q, hq, heq⟩ := List.mem_map.mp hm
    cases heq
    have hqL : q ∈ sortById st.allFs := mem_sortById.mpr hq
    have hreach := findAllFs_sound_aux K ts op hp c.nextXid _ st hwf.next_pos hfa q.2
      (List.mem_map.mpr ⟨q, hq, rfl⟩)
    have hreach' := reach_transferJ hwf hfa hL hrel hviews (hpL.length + 1) hreach q.1 hqL
    rw [← hheap] at hreach'
    have hxid : xidOf st'.heap (na q.1) = some q.1 := by rw [hheap]; exact rel_xid hrel hqL
    have hmem := findAllFs_complete_aux K ts op hpL c'.nextXid _ st' hnx hfa' (na q.1)
      (by rw [hheap] at hreach' ⊢; exact hreach')
      (by rw [hxid]; intro h; exact (hL.ids _ hqL).2 (Option.some.inj h))
    obtain ⟨⟨y, b⟩, hr, hb⟩ := List.mem_map.mp hmem
    simp only at hb
    subst hb
    have := inv'.link y _ hr
    rw [hxid] at this
    cases this
    exact hr

end Cassis.Json
