/-
Non-vacuity of `merge_perm_one_super` (`Properties/C13Perm.lean`): a Boolean test of its hypotheses, proved sound, and
concrete declaration lists on which the kernel evaluates the test and the two merges.

`demoP`: `x.A` below `uima.tcas.Annotation` declared twice with different features and descriptions, `x.B` below `x.A`
declared twice (once repeating a feature of its ancestor identically), and `uima.tcas.DocumentAnnotation` declared below
`x.A` — which re-parents the document annotation type.  Both the list and its reverse merge successfully, so the
theorem yields `SameHier` for them.  `demoQ` adds a conflicting definition of `f` on `x.B`: both orders fail.
-/
import CassisModel.Proofs.MergePermMain

namespace Cassis.TS

/-- Boolean test of the hypotheses of `merge_perm_one_super`, for a given rank function -/
def permHypsB (K : Consts) (rank : String → Nat) (decls : List Decl) : Bool :=
  decls.all (fun d => K.predefined.contains d.super || (decls.map (·.name)).contains d.super) &&
  decls.all (fun d => K.predefined.contains d.super || decide (rank d.super < rank d.name)) &&
  decls.all (fun d => !(K.predefined.contains d.name) && decide ('.' ∈ d.name.toList)) &&
  decls.all (fun d => decls.all (fun d' => d.name != d'.name || d.super == d'.super))

theorem permHypsB_sound (K : Consts) (rank : String → Nat) (decls : List Decl) (h : permHypsB K rank decls = true) :
    ClosedDecls K decls ∧ UserDecls K decls ∧ OneSuper decls := by
  unfold permHypsB at h
  simp only [Bool.and_eq_true, List.all_eq_true] at h
  obtain ⟨⟨⟨h1, h2⟩, h3⟩, h4⟩ := h
  refine ⟨⟨?_, rank, ?_⟩, ?_, ?_⟩
  · intro d hd
    have := h1 d hd
    simp only [Bool.or_eq_true, List.contains_eq_mem, decide_eq_true_eq] at this
    rcases this with h | h
    · exact Or.inl (by simpa using h)
    · exact Or.inr h
  · intro d hd hp
    have := h2 d hd
    rw [hp] at this
    simpa using this
  · intro d hd
    have := h3 d hd
    rw [String.contains_char_eq]
    simpa using this
  · intro d hd d' hd' hn
    have := h4 d hd d' hd'
    simp only [Bool.or_eq_true, bne_iff_ne, ne_eq, beq_iff_eq] at this
    rcases this with h | h
    · exact absurd hn h
    · exact h

def demoRank (n : String) : Nat :=
  if n == "x.A" then 1 else if n == "x.B" then 2 else if n == DOCUMENT_ANNOTATION then 2 else 0

def demoFeat (n r : String) : Feature := { name := n, domain := "", range := r }

def demoP : List Decl := [
  { name := "x.A", super := ANNOTATION, own := [demoFeat "f" "uima.cas.Integer"] },
  { name := "x.B", super := "x.A", own := [demoFeat "g" "uima.cas.String"] },
  { name := DOCUMENT_ANNOTATION, super := "x.A", own := [demoFeat "h" "x.B"] },
  { name := "x.B", super := "x.A", own := [demoFeat "f" "uima.cas.Integer"] },
  { name := "x.A", super := ANNOTATION, descr := some "again", own := [demoFeat "k" "uima.cas.FSArray"] } ]

def demoQ : List Decl := demoP ++ [{ name := "x.B", super := "x.A", own := [demoFeat "f" "uima.cas.String"] }]

theorem demoP_hyps : permHypsB Gen.consts demoRank demoP = true := by decide +kernel
theorem demoQ_hyps : permHypsB Gen.consts demoRank demoQ = true := by decide +kernel

/-- the hypotheses hold on `demoP`, both orders succeed — hence, by the theorem, with the same hierarchy -/
theorem demoP_sameHier : ∃ ts ts', mergeDecls Gen.consts Gen.builtinTS demoP = .ok ts ∧
    mergeDecls Gen.consts Gen.builtinTS demoP.reverse = .ok ts' ∧ SameHier ts ts' := by
  obtain ⟨hc, hu, h1⟩ := permHypsB_sound _ _ _ demoP_hyps
  have key := merge_perm_one_super_aux demoP demoP.reverse (List.reverse_perm demoP).symm hc hu h1
  have e1 : (mergeDecls Gen.consts Gen.builtinTS demoP).toOption.isSome = true := by
    rw [mergeDecls_eq_S]; decide +kernel
  have e2 : (mergeDecls Gen.consts Gen.builtinTS demoP.reverse).toOption.isSome = true := by
    rw [mergeDecls_eq_S]; decide +kernel
  cases h : mergeDecls Gen.consts Gen.builtinTS demoP with
  | error e => rw [h] at e1; cases e1
  | ok ts =>
    cases h' : mergeDecls Gen.consts Gen.builtinTS demoP.reverse with
    | error e => rw [h'] at e2; cases e2
    | ok ts' =>
      rw [h, h'] at key
      exact ⟨ts, ts', rfl, rfl, key⟩

/-- the merge does re-parent the document annotation type here -/
example : ((mergeDecls Gen.consts Gen.builtinTS demoP).toOption.bind
    (fun ts => find? ts DOCUMENT_ANNOTATION)).map (·.super) = some (some "x.A") := by
  rw [mergeDecls_eq_S]; decide +kernel

/-- with a conflicting definition both orders fail -/
example : (mergeDecls Gen.consts Gen.builtinTS demoQ).toOption.isSome = false ∧
    (mergeDecls Gen.consts Gen.builtinTS demoQ.reverse).toOption.isSome = false := by
  rw [mergeDecls_eq_S, mergeDecls_eq_S]; decide +kernel

end Cassis.TS
